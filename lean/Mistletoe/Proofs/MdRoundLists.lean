/-
  Lemmas for C09 (Markdown round trip), LISTS, part 1: the block phase under the Markdown renderer's token
  list (`markdownTypes`: `LinkReferenceDefinitionBlock`, `BlankLine`, `HtmlBlock`, `BlockCode`, `Heading`,
  `Quote`, `CodeFence`, `ThematicBreak`, `List`, `Table`, `Paragraph`).

  The fragment is a tree `MB`: a leaf is one of the blocks `Blk` of `Proofs/MdRoundBlocks.lean` (prose
  paragraph, ATX heading, thematic break, in the renderer's normal form), an inner node is a LIST — bullet
  (`-`, `+`, `*`) or ordered (number + `.` / `)`), marker at indentation 0, 1…4 spaces behind the marker,
  items made of blocks of the fragment again (nested lists included) separated by single "\n" lines, items
  separated by nothing (`loose = false`) or by one "\n" line (`loose = true`).  `wrs` writes the lines the
  way `MarkdownRenderer` does (`Props.C04.indentDoc`: marker + padding before the first line of an item,
  as many spaces before every other line, "\n" lines left as they are).

  Under this token list every "\n" line is a token of its own (`BlankLine`), so
  * the parse buffer of siblings holds one `BlankLine` entry per separator line (`ents`);
  * the "\n" line between two items of a loose list is read by `ListItem.read` of the item BEFORE it (the
    line is a continuation line) and becomes the last entry of that item's content (`itms`, `blankIf`);
  * the "\n" line behind a list is NOT part of the last item (`ListItem.read` steps back over it): it is a
    `BlankLine` entry of the enclosing buffer;
  * a list that is followed, after a "\n" line, by a list of ANOTHER marker type (`- a`, "\n", `1. x`): the line behind the
    "\n" line carries a marker, so `ListItem.read` does not step back; the "\n" line stays in the last item of the first
    list (`trail`), `List.read` ends the list at the foreign marker, and there is no `BlankLine` between the two lists;
  * no buffer is ever "loose" (the flag is only set for an unmatched line), so every `ListItem.loose` and
    every `List.loose` is false.

  `ListItem.read` in context is taken from `Proofs/ComposeLists.lean` (`item_lines_last`, `item_lines_next`,
  `readList_step_stop`, `readList_step_next` — all generic in the token configuration); the dispatch loop is
  followed directly (`tokLoop_leaf_step`, `step_list`, `nodes_stepM`), as in `Proofs/MdRoundBlocks.lean`,
  because C05's concatenation theorem needs `BlankLine ∉ types`.

  Main statement: `tokenize_nodes` (the block phase of a written forest, in every parser state, anywhere the
  line numbering starts).  Part 2 (`MdRoundLists2.lean`): token constructors, renderer, text, C09 theorems.
-/
import Mistletoe.Proofs.MdRoundBlocks
import Mistletoe.Proofs.ComposeLists
namespace Mistletoe.MdRound
open Mistletoe Mistletoe.Py Mistletoe.Scan Mistletoe.Wrap Mistletoe.Markdown Mistletoe.InertInline
open Mistletoe.Block hiding numbered numbered_cons numbered_append
open Mistletoe.Props.C14 (inertLine markdownTypes numbered numbered_cons numbered_append numbered_length numbered_s numbered_mem)
open Mistletoe.Props.C04 (indentDoc itemDocOk)
open Mistletoe.ComposeL (leaderOf markerOk leaderOk_of_marker sepS StopLine PostOk stopLineB itemDoc_facts item_lines_last
  item_lines_next readList_step_stop readList_step_next)

/-! ### The fragment -/

/-- a block of the fragment: a leaf `Blk` (paragraph / ATX heading / thematic break), or a list:
    `list ordered start marker pad loose items` — a bullet list (`ordered = false`, `marker` one of `-`, `+`, `*`) or
    an ordered list (the items are numbered `start`, `start + 1`, …, each number followed by `marker`, "." or ")");
    `pad` spaces (1 … 4) behind every marker; an item is the list of its blocks; `loose = true`: one "\n" line
    between consecutive items. -/
inductive MB where
  | leaf (b : Blk)
  | list (ordered : Bool) (start : Nat) (mk : Char) (pad : Nat) (loose : Bool) (items : List (List MB))

def isListM : MB → Bool
  | .list .. => true
  | _ => false

/-- two lists in a row -/
def adj (t t' : MB) : Bool := isListM t && isListM t'

mutual
/-- the source lines of one block, as the renderer writes them; `trail` (lists only): with the "\n" line that separates
    the list from a following list of another type — the parser makes that line part of the last item -/
def wr (trail : Bool) : MB → List Str
  | .leaf b => b.lines
  | .list o n mk pad loose items => wrItems trail o mk pad loose n items
/-- siblings, separated by exactly one "\n" line -/
def wrs : List MB → List Str
  | [] => []
  | t :: rest =>
    match rest with
    | [] => wr false t
    | t' :: _ => if adj t t' then wr true t ++ wrs rest else wr false t ++ ['\n'] :: wrs rest
/-- the items of a list: marker and `pad` spaces before the first line of the item's blocks, as many spaces before
    every other line ("\n" lines stay "\n"); in a loose list one "\n" line between consecutive items -/
def wrItems (trail : Bool) (o : Bool) (mk : Char) (pad : Nat) (loose : Bool) (n : Nat) : List (List MB) → List Str
  | [] => []
  | it :: rest =>
    match rest with
    | [] => indentDoc (leaderOf o n mk) pad (wrs it) ++ sepS trail
    | _ :: _ => indentDoc (leaderOf o n mk) pad (wrs it) ++ (sepS loose ++ wrItems trail o mk pad loose (n + 1) rest)
end

/-- lists of different marker types: bullet against ordered, or another bullet character / another delimiter -/
def otherTypeB : MB → MB → Bool
  | .list o _ mk _ _ _, .list o' _ mk' _ _ _ => o != o' || mk != mk'
  | _, _ => false

/-- two consecutive siblings: behind a list comes either a list of another marker type (a list of the same type would
    be more items of the first), or a block whose first line begins with a non-whitespace character and carries no list
    marker (`stopLineB`) — otherwise the line would continue the last item or open another item -/
def sepOkM (t t' : MB) : Bool :=
  !isListM t || (if isListM t' then otherTypeB t t' else stopLineB ((wr false t').headD []))

mutual
/-- normal form (decidable).  Leaf: `Blk.ok`.  List:
    * 1 ≤ pad ≤ 4, and pad = 1 when the renderer normalises whitespace (`nw`: `normalize_whitespace=True`
      rewrites every padding to one space); at least one item; every item has at least one block, all in normal form;
    * every marker is `-`, `+`, `*`, or a number below 10⁹ and `.` or `)` (`markerOk`);
    * the lines of an item (`itemDocOk`): the first begins with a non-whitespace character, every other line is "\n"
      or has a non-whitespace character behind its spaces; marker + first line is not a thematic break (`* * *`).
    Siblings: `sepOkM`. -/
def MB.ok (nw : Bool) : MB → Bool
  | .leaf b => b.ok
  | .list o n mk pad _ items =>
    decide (1 ≤ pad) && decide (pad ≤ 4) && (!nw || pad == 1) && !items.isEmpty && MB.okItems nw o mk pad n items
def MB.oks (nw : Bool) : List MB → Bool
  | [] => true
  | t :: rest => MB.ok nw t && MB.oks nw rest && (match rest with | [] => true | t' :: _ => sepOkM t t')
def MB.okItems (nw : Bool) (o : Bool) (mk : Char) (pad : Nat) (n : Nat) : List (List MB) → Bool
  | [] => true
  | it :: rest => !it.isEmpty && MB.oks nw it && markerOk o n mk && itemDocOk (wrs it)
      && !Scan.thematicBreak (leaderOf o n mk ++ List.replicate pad ' ' ++ (wrs it).headD [])
      && MB.okItems nw o mk pad (n + 1) rest
end

/-- a `BlankLine` entry, or nothing -/
def blankIf (b : Bool) (n : Nat) : List Entry := if b then [.blankLine n n] else []

mutual
/-- the parse-buffer entry expected for a block whose first line is line `n` (ghost origin = line number) -/
def ent (trail : Bool) (n : Nat) : MB → Entry
  | .leaf b => itemEntry n n b
  | .list o s mk pad loose items => .list (itms trail o mk pad loose s n items) n n
/-- siblings: one `BlankLine` entry per separator line — except between two lists, where the line is in the first list -/
def ents (n : Nat) : List MB → List Entry
  | [] => []
  | t :: rest =>
    match rest with
    | [] => [ent false n t]
    | t' :: _ =>
      if adj t t' then ent true n t :: ents (n + (wr true t).length) rest
      else ent false n t :: .blankLine (n + (wr false t).length) (n + (wr false t).length) :: ents (n + (wr false t).length + 1) rest
/-- the items: content = the entries of the item's blocks, and — for an item of a loose list that is not the last one,
    and for the last item of a list with `trail` — the `BlankLine` of the separator line behind it; never loose;
    indentation 0; content offset = marker width + pad -/
def itms (trail : Bool) (o : Bool) (mk : Char) (pad : Nat) (loose : Bool) (s : Nat) (n : Nat) : List (List MB) → List Item
  | [] => []
  | it :: rest =>
    .mk (ents n it ++ blankIf ((loose && !rest.isEmpty) || (trail && rest.isEmpty)) (n + (wrs it).length)) false 0
        ((leaderOf o s mk).length + pad) (leaderOf o s mk) n n
      :: itms trail o mk pad loose (s + 1) (n + (wrs it).length + (sepS loose).length) rest
end

mutual
/-- gas that suffices -/
def needM : MB → Nat
  | .leaf _ => 11
  | .list _ _ _ _ _ items => needItemsM items + 9
def needsM : List MB → Nat
  | [] => 0
  | t :: rest => needM t + needsM rest + 14
def needItemsM : List (List MB) → Nat
  | [] => 0
  | it :: rest => needsM it + needItemsM rest + 2
end

def trailOf (t : MB) (rest : List MB) : Bool :=
  match rest with
  | t' :: _ => adj t t'
  | [] => false

theorem wrs_single (t : MB) : wrs [t] = wr false t := by simp [wrs]
theorem wrs_cons_sep (t t' : MB) (r : List MB) (h : adj t t' = false) :
    wrs (t :: t' :: r) = wr false t ++ ['\n'] :: wrs (t' :: r) := by simp [wrs, h]
theorem wrs_cons_adj (t t' : MB) (r : List MB) (h : adj t t' = true) :
    wrs (t :: t' :: r) = wr true t ++ wrs (t' :: r) := by simp [wrs, h]
theorem wrItems_single (trail o : Bool) (mk : Char) (pad : Nat) (loose : Bool) (n : Nat) (it : List MB) :
    wrItems trail o mk pad loose n [it] = indentDoc (leaderOf o n mk) pad (wrs it) ++ sepS trail := by simp [wrItems]
theorem wrItems_cons2 (trail o : Bool) (mk : Char) (pad : Nat) (loose : Bool) (n : Nat) (it it' : List MB) (r : List (List MB)) :
    wrItems trail o mk pad loose n (it :: it' :: r) =
      indentDoc (leaderOf o n mk) pad (wrs it) ++ (sepS loose ++ wrItems trail o mk pad loose (n + 1) (it' :: r)) := by
  simp [wrItems]
theorem needsM_cons (t : MB) (rest : List MB) : needsM (t :: rest) = needM t + needsM rest + 14 := by simp [needsM]
theorem needItemsM_cons (it : List MB) (rest : List (List MB)) : needItemsM (it :: rest) = needsM it + needItemsM rest + 2 := by
  simp [needItemsM]
theorem ents_single (n : Nat) (t : MB) : ents n [t] = [ent false n t] := by simp [ents]
theorem ents_cons_sep (n : Nat) (t t' : MB) (r : List MB) (h : adj t t' = false) :
    ents n (t :: t' :: r) = ent false n t :: .blankLine (n + (wr false t).length) (n + (wr false t).length) ::
      ents (n + (wr false t).length + 1) (t' :: r) := by
  simp [ents, h]
theorem ents_cons_adj (n : Nat) (t t' : MB) (r : List MB) (h : adj t t' = true) :
    ents n (t :: t' :: r) = ent true n t :: ents (n + (wr true t).length) (t' :: r) := by
  simp [ents, h]

/-! ### What normal form gives -/

theorem oksM_cons (nw : Bool) (t : MB) (rest : List MB) (h : MB.oks nw (t :: rest) = true) :
    t.ok nw = true ∧ MB.oks nw rest = true ∧ ∀ t' r, rest = t' :: r → sepOkM t t' = true := by
  simp only [MB.oks, Bool.and_eq_true] at h
  refine ⟨h.1.1, h.1.2, ?_⟩
  rintro t' r rfl
  exact h.2

theorem okItemsM_cons (nw o : Bool) (mk : Char) (pad n : Nat) (it : List MB) (rest : List (List MB))
    (h : MB.okItems nw o mk pad n (it :: rest) = true) :
    it ≠ [] ∧ MB.oks nw it = true ∧ leaderOk o (leaderOf o n mk) = true ∧ itemDocOk (wrs it) = true ∧
    Scan.thematicBreak (leaderOf o n mk ++ List.replicate pad ' ' ++ (wrs it).headD []) = false ∧
    MB.okItems nw o mk pad (n + 1) rest = true := by
  simp only [MB.okItems, Bool.and_eq_true, Bool.not_eq_eq_eq_not, Bool.not_true, List.isEmpty_eq_false_iff] at h
  obtain ⟨⟨⟨⟨⟨a, b⟩, c⟩, d⟩, e⟩, f⟩ := h
  exact ⟨a, b, leaderOk_of_marker o n mk c, d, e, f⟩

/-- the facts `MB.ok` packs for a list -/
structure ListOkM (nw o : Bool) (n : Nat) (mk : Char) (pad : Nat) (items : List (List MB)) : Prop where
  p1 : 1 ≤ pad
  p4 : pad ≤ 4
  pnw : nw = true → pad = 1
  ne : items ≠ []
  its : MB.okItems nw o mk pad n items = true

theorem listOkM_of (nw o : Bool) (n : Nat) (mk : Char) (pad : Nat) (loose : Bool) (items : List (List MB))
    (h : (MB.list o n mk pad loose items).ok nw = true) : ListOkM nw o n mk pad items := by
  simp only [MB.ok, Bool.and_eq_true, decide_eq_true_eq, Bool.not_eq_eq_eq_not, Bool.not_true, List.isEmpty_eq_false_iff,
    Bool.or_eq_true, beq_iff_eq] at h
  obtain ⟨⟨⟨⟨a, b⟩, c⟩, d⟩, e⟩ := h
  refine ⟨a, b, ?_, d, e⟩
  intro hn
  rcases c with c | c
  · rw [hn] at c; cases c
  · exact c

theorem wrs_cons_of_doc (it : List MB) (h : itemDocOk (wrs it) = true) : ∃ c0 cs, wrs it = c0 :: cs := by
  cases hw : wrs it with
  | nil => rw [hw] at h; simp [itemDocOk] at h
  | cons c0 cs => exact ⟨c0, cs, rfl⟩

theorem wrItems_head (trail o : Bool) (mk : Char) (pad : Nat) (loose : Bool) (n : Nat) (it : List MB) (rest : List (List MB))
    (c0 : Str) (cs : List Str) (h : wrs it = c0 :: cs) :
    ∃ tl, wrItems trail o mk pad loose n (it :: rest) = (leaderOf o n mk ++ List.replicate pad ' ' ++ c0) :: tl := by
  cases rest with
  | nil => rw [wrItems_single, h]; exact ⟨_, rfl⟩
  | cons a b => rw [wrItems_cons2, h]; exact ⟨_, rfl⟩

/-- the first line of a block (it does not depend on `trail`) -/
def firstOf (t : MB) : Str := (wr false t).headD []

theorem wr_head (nw : Bool) (t : MB) (h : t.ok nw = true) (tr : Bool) : ∃ ss, wr tr t = firstOf t :: ss := by
  cases t with
  | leaf b =>
    have hne := item_lines_len_pos b (by simpa [MB.ok] using h)
    cases hb : b.lines with
    | nil => exact absurd hb hne
    | cons s0 ss => exact ⟨ss, by simp [wr, firstOf, hb]⟩
  | list o n mk pad loose items =>
    have hl := listOkM_of nw o n mk pad loose items h
    cases items with
    | nil => exact absurd rfl hl.ne
    | cons it r =>
      obtain ⟨_, _, _, hdoc, _, _⟩ := okItemsM_cons nw o mk pad n it r hl.its
      obtain ⟨c0, cs, hw⟩ := wrs_cons_of_doc it hdoc
      obtain ⟨tl, htl⟩ := wrItems_head tr o mk pad loose n it r c0 cs hw
      obtain ⟨tl0, htl0⟩ := wrItems_head false o mk pad loose n it r c0 cs hw
      exact ⟨tl, by simp [wr, firstOf, htl, htl0]⟩

theorem wrs_head (nw : Bool) (t : MB) (r : List MB) (h : t.ok nw = true) (tail : Bool) :
    ∃ ss, wrs (t :: r) ++ sepS tail = firstOf t :: ss := by
  cases r with
  | nil =>
    obtain ⟨ss, hs⟩ := wr_head nw t h false
    rw [wrs_single, hs]; exact ⟨_, rfl⟩
  | cons t' r' =>
    cases ha : adj t t' with
    | false =>
      obtain ⟨ss, hs⟩ := wr_head nw t h false
      rw [wrs_cons_sep t t' r' ha, hs]; exact ⟨_, rfl⟩
    | true =>
      obtain ⟨ss, hs⟩ := wr_head nw t h true
      rw [wrs_cons_adj t t' r' ha, hs]; exact ⟨_, rfl⟩

theorem nlEnd_of_oneLine (l : Str) (h : oneLine l = true) : NlEnd l := by
  simp only [oneLine, Bool.and_eq_true, beq_iff_eq, List.all_eq_true, Bool.not_eq_eq_eq_not, Bool.not_true] at h
  obtain ⟨body, rfl⟩ := List.getLast?_eq_some_iff.mp h.1
  refine ⟨body, rfl, ?_⟩
  intro hm
  have := h.2 '\n' (by simpa using hm)
  revert this; decide

theorem stopLine_ofM (s : Str) (h : stopLineB s = true) (hl : NlEnd s) : StopLine s := by
  simp only [stopLineB, Bool.and_eq_true, Option.isNone_iff_eq_none] at h
  obtain ⟨h1, h2⟩ := h
  refine ⟨?_, h2, hl⟩
  intro W hW
  cases s with
  | nil => simp at h1
  | cons c r =>
    simp only [Bool.not_eq_eq_eq_not, Bool.not_true] at h1
    exact parseContinuation_lead c r W hW (by rintro rfl; revert h1; decide) (by rintro rfl; revert h1; decide)
      (by rintro rfl; revert h1; decide)

/-- markers of lists of different types are of different types for `List.same_marker_type` -/
theorem otherType_marker (o o' : Bool) (mk mk' : Char) (n0 n' : Nat) (h : (o != o' || mk != mk') = true)
    (h0 : leaderOk o (leaderOf o n0 mk) = true) (h1 : leaderOk o' (leaderOf o' n' mk') = true) :
    sameMarkerType (leaderOf o n0 mk) (leaderOf o' n' mk') = false := by
  cases o with
  | false =>
    cases o' with
    | false =>
      have hne : mk ≠ mk' := by simpa using h
      simp [leaderOf, sameMarkerType, hne]
    | true =>
      obtain ⟨d, e, hd, _, hd1, _, _⟩ := leaderOk_ordered _ h1
      simp only [leaderOf, if_true, Bool.false_eq_true, if_false] at hd ⊢
      rw [hd]
      simp only [sameMarkerType, List.length_singleton, beq_self_eq_true, if_true, beq_eq_false_iff_ne, ne_eq]
      intro e'
      have := congrArg List.length e'
      simp only [List.length_singleton, List.length_append] at this
      omega
  | true =>
    obtain ⟨d, e, hd, _, hd1, _, _⟩ := leaderOk_ordered _ h0
    have hdn : Html.natDigits n0 ≠ [] := by
      simp only [leaderOf, if_true] at hd
      have e1 : Html.natDigits n0 = d := (List.append_inj' hd (by simp)).1
      rw [e1]; intro e0; rw [e0] at hd1; simp at hd1
    cases o' with
    | false => simp [sameMarkerType, leaderOf, hdn]
    | true =>
      have hne : mk ≠ mk' := by simpa using h
      simp [sameMarkerType, leaderOf, hne]

/-! ### One leaf, anywhere in a buffer (as `tokLoop_item_step`, for any numbering of the lines) -/

theorem tokLoop_leaf_step (cfg : Cfg) (hty : cfg.types = markdownTypes) (it : Blk) (hok : it.ok = true) (g : Nat)
    (pre post : List Line) (k : Nat) (hb : ∀ b, post.head? = some b → b.s = ['\n'])
    (start : Nat) (st : St) (acc : List Entry) (loose : Bool) :
    tokLoop cfg (g + 12) ⟨pre ++ (numbered k it.lines ++ post), pre.length, start⟩ st acc loose =
      tokLoop cfg (g + 11) ⟨(pre ++ numbered k it.lines) ++ post, (pre ++ numbered k it.lines).length, start⟩ st
        (itemEntry (start + pre.length) (k + 1) it :: acc) loose := by
  cases it with
  | para q =>
    have f := itemParaFacts_of q hok
    cases q with
    | nil => exact absurd rfl f.ne
    | cons s q' =>
      simp only [Blk.lines, numbered_cons]
      have hq : ∀ x ∈ numbered (k + 1) q', Quiet x.s :=
        fun x hx => Mistletoe.Props.C14.inertLine_quiet _ (f.inert _ (List.mem_cons_of_mem _ (numbered_mem _ _ _ hx)))
      have h1 := tokLoop_para_step cfg (mdTypes_par cfg hty) (g + 11) (by rw [mdTypes_len cfg hty]; omega)
        { s := s, origin := k + 1 } (numbered (k + 1) q') pre post start st acc loose
        (Mistletoe.Props.C14.inertLine_quiet _ (f.inert s (by simp))) hq
        (by intro b hb'; rw [hb b hb']; decide)
      simp only [List.cons_append] at h1 ⊢
      rw [h1]
      simp only [itemEntry, List.map_cons, numbered_s]
  | heading lv t =>
    have hk := headOk_of lv t hok
    have h1 := tokLoop_heading_step cfg hty (g + 6) { s := hashes lv ++ ' ' :: t ++ ['\n'], origin := k + 1 } lv t rfl hk
      pre post start st acc loose
    simp only [Blk.lines, Mistletoe.Props.C14.numbered, itemEntry] at h1 ⊢
    exact h1
  | hr c =>
    have hc := hrOk_of c hok
    have h1 := tokLoop_hr_step cfg hty (g + 3) { s := [c, c, c, '\n'], origin := k + 1 } c rfl hc
      pre post start st acc loose
    simp only [Blk.lines, Mistletoe.Props.C14.numbered, itemEntry] at h1 ⊢
    exact h1

/-! ### The claims -/

/-- the first line of a list of another marker type than `o`, `mk`: it begins with a marker character, carries a marker
    that `List.same_marker_type` tells apart from every marker of the list, and is no thematic break -/
def OtherList (o : Bool) (mk : Char) (s : Str) : Prop :=
  ∃ c r mm, s = c :: r ∧ LeadChar c ∧ parseMarker s = some mm ∧ Scan.thematicBreak s = false ∧
    ∀ n0, leaderOk o (leaderOf o n0 mk) = true → sameMarkerType (leaderOf o n0 mk) mm.2.2.1 = false

/-- what follows the lines of a list in its buffer: `trail` — the marker line of a list of another type (the list's own
    lines end with the "\n" line); otherwise `ComposeL.PostOk` -/
def PostI : Bool → Bool → Char → List Line → Prop
  | true, o, mk, post => ∃ l' post', post = l' :: post' ∧ OtherList o mk l'.s
  | false, _, _, post => PostOk post

/-- what may follow the lines of a block in its buffer: nothing, or a "\n" line — and behind a list that line is
    followed by nothing or by a line that neither continues the last item nor carries a marker; with `trail`: the marker
    line of a list of another type -/
def PostM : Bool → MB → List Line → Prop
  | true, .list o _ mk _ _ _, post => PostI true o mk post
  | true, .leaf _, _ => False
  | false, t, post =>
    post = [] ∨ ∃ nlL rest, post = nlL :: rest ∧ nlL.s = ['\n'] ∧ (isListM t = true → ∀ s, rest.head? = some s → StopLine s.s)

/-- one iteration of the dispatch loop on the first line of a written block, anywhere in a buffer: exactly the block's
    lines are consumed, exactly its entry is appended, the state is unchanged -/
def StepClaim (cfg : Cfg) (trail : Bool) (t : MB) : Prop :=
  ∀ (pre post : List Line) (start k : Nat) (st : St) (g : Nat) (acc : List Entry) (lo : Bool),
    start + pre.length = k + 1 → needM t ≤ g → PostM trail t post →
    tokLoop cfg (g + 1) ⟨pre ++ (numbered k (wr trail t) ++ post), pre.length, start⟩ st acc lo =
      tokLoop cfg g ⟨(pre ++ numbered k (wr trail t)) ++ post, (pre ++ numbered k (wr trail t)).length, start⟩ st
        (ent trail (k + 1) t :: acc) lo

/-- siblings at the end of a buffer, with or without a final "\n" line (the buffer of an item that is not the last one
    of a loose list ends in one) -/
def NodesClaimM (cfg : Cfg) (ts : List MB) : Prop :=
  ∀ (tail : Bool) (pre : List Line) (start k : Nat) (st : St) (gas : Nat) (acc : List Entry) (lo : Bool),
    start + pre.length = k + 1 → needsM ts ≤ gas →
    tokLoop cfg gas ⟨pre ++ numbered k (wrs ts ++ sepS tail), pre.length, start⟩ st acc lo =
      .ok ({ entries := acc.reverse ++ (ents (k + 1) ts ++ blankIf tail (k + 1 + (wrs ts).length)), loose := lo }, st)

def firstLn (items : List (List MB)) : Str :=
  match items with
  | it :: _ => (wrs it).headD []
  | [] => []

/-- `List.read` entered on the first item, or re-entered on a later item (as `ComposeL.LdNm`) -/
def LdNmM (o : Bool) (mk : Char) (pad n : Nat) (items : List (List MB)) (ld : Option Str) (nm : Option (Nat × Nat × Str × Str)) : Prop :=
  (ld = none ∧ nm = none) ∨
  (∃ n0, ld = some (leaderOf o n0 mk) ∧ leaderOk o (leaderOf o n0 mk) = true ∧
    nm = some (0, (leaderOf o n mk).length + pad, leaderOf o n mk, firstLn items))

/-- `List.read` over the written items, anywhere in a buffer -/
def ItemsClaimM (cfg : Cfg) (trail : Bool) (o : Bool) (mk : Char) (pad : Nat) (loose : Bool) (n : Nat) (items : List (List MB)) : Prop :=
  ∀ (pre post : List Line) (start k : Nat) (st : St) (gas : Nat) (acc : List Item) ld nm,
    start + pre.length = k + 1 → needItemsM items ≤ gas → PostI trail o mk post → LdNmM o mk pad n items ld nm →
    readList cfg gas ⟨pre ++ numbered k (wrItems trail o mk pad loose n items) ++ post, pre.length, start⟩ st ld nm acc =
      .ok (acc.reverse ++ itms trail o mk pad loose n (k + 1) items,
           ⟨pre ++ numbered k (wrItems trail o mk pad loose n items) ++ post,
            pre.length + (wrItems trail o mk pad loose n items).length, start⟩, st)

theorem otherMarkerM (o : Bool) (mk : Char) (pad n : Nat) (items : List (List MB)) (ld nm)
    (h : LdNmM o mk pad n items ld nm) (hok : leaderOk o (leaderOf o n mk) = true) : otherMarkerType ld nm = false := by
  apply Mistletoe.ComposeL.otherMarker_of_ldnm o mk pad n [[.para [firstLn items]]] ld nm ?_ hok
  rcases h with h | ⟨n0, h1, h2, h3⟩
  · exact Or.inl h
  · refine Or.inr ⟨n0, h1, h2, ?_⟩
    rw [h3]
    simp [Mistletoe.ComposeL.firstLine, Mistletoe.ComposeL.writes2, Mistletoe.ComposeL.write2]

/-- the nested `tokenize_block` of an item -/
theorem nodes_tokenize (cfg : Cfg) (ts : List MB) (hN : NodesClaimM cfg ts) (tail : Bool) (k : Nat) (st : St) (g : Nat)
    (hg : needsM ts + 1 ≤ g) :
    tokenizeBlock cfg g (numbered k (wrs ts ++ sepS tail)) (k + 1) st =
      .ok ({ entries := ents (k + 1) ts ++ blankIf tail (k + 1 + (wrs ts).length), loose := false }, st) := by
  obtain ⟨g', rfl⟩ : ∃ g', g = g' + 1 := ⟨g - 1, by omega⟩
  have := hN tail [] (k + 1) k st g' [] false (by simp) (by omega)
  simpa [tokenizeBlock] using this

/-! ### `List.read` over the written items -/

/-- the last item, followed by nothing, or by a "\n" line that `ListItem.read` steps back over -/
theorem items_lastM (cfg : Cfg) (nw o : Bool) (mk : Char) (pad : Nat) (loose : Bool) (n : Nat) (it : List MB)
    (h1 : 1 ≤ pad) (h4 : pad ≤ 4) (hok : MB.okItems nw o mk pad n [it] = true) (hN : NodesClaimM cfg it) :
    ItemsClaimM cfg false o mk pad loose n [it] := by
  intro pre post start k st gas acc ld nm hk hg hpost hln
  obtain ⟨_, _, hlead, hdoc, _, _⟩ := okItemsM_cons nw o mk pad n it [] hok
  have hm := listLeader_of o _ hlead
  obtain ⟨c0, cs, hw⟩ := wrs_cons_of_doc it hdoc
  rw [hw] at hdoc
  obtain ⟨g, rfl⟩ : ∃ g, gas = g + 1 := ⟨gas - 1, by rw [needItemsM_cons] at hg; omega⟩
  have hg' : needsM it + 1 ≤ g := by rw [needItemsM_cons] at hg; omega
  have hprev : nm = none ∨ nm = some (0, (leaderOf o n mk).length + pad, leaderOf o n mk, c0) := by
    rcases hln with ⟨_, h⟩ | ⟨_, _, _, h⟩
    · exact Or.inl h
    · right; rw [h]; simp [firstLn, hw]
  have hil := item_lines_last cfg _ hm pad h1 h4 c0 cs hdoc pre post start k hk hpost nm hprev
  have htok := nodes_tokenize cfg it hN false k st g hg'
  simp only [sepS, Bool.false_eq_true, if_false, List.append_nil, hw, blankIf] at htok
  have hom := otherMarkerM o mk pad n [it] ld nm hln hlead
  rw [wrItems_single, hw]
  simp only [sepS, Bool.false_eq_true, if_false, List.append_nil]
  rw [readList_step_stop cfg g _ st ld nm acc _ _ _ _ _ _ _ _ _ _ hom hil htok]
  simp only [itms, List.isEmpty_nil, Bool.not_true, Bool.and_false, Bool.false_and, Bool.or_self, blankIf, Bool.false_eq_true,
    if_false, List.append_nil, indentDoc, List.length_cons, List.length_map]

/-- the last item, followed by a "\n" line and the marker line of a list of another type: the "\n" line stays in the item,
    `List.read` stops at the foreign marker -/
theorem items_lastT (cfg : Cfg) (nw o : Bool) (mk : Char) (pad : Nat) (loose : Bool) (n : Nat) (it : List MB)
    (h1 : 1 ≤ pad) (h4 : pad ≤ 4) (hok : MB.okItems nw o mk pad n [it] = true) (hN : NodesClaimM cfg it) :
    ItemsClaimM cfg true o mk pad loose n [it] := by
  intro pre post start k st gas acc ld nm hk hg hpost hln
  obtain ⟨l', post', rfl, c, r, mm, hl's, hc, hpm', htb', hother⟩ := hpost
  obtain ⟨_, _, hlead, hdoc, _, _⟩ := okItemsM_cons nw o mk pad n it [] hok
  have hm := listLeader_of o _ hlead
  obtain ⟨c0, cs, hw⟩ := wrs_cons_of_doc it hdoc
  rw [hw] at hdoc
  obtain ⟨g, rfl⟩ : ∃ g, gas = g + 1 := ⟨gas - 1, by rw [needItemsM_cons] at hg; omega⟩
  have hg' : needsM it + 1 ≤ g := by rw [needItemsM_cons] at hg; omega
  have hprev : nm = none ∨ nm = some (0, (leaderOf o n mk).length + pad, leaderOf o n mk, c0) := by
    rcases hln with ⟨_, h⟩ | ⟨_, _, _, h⟩
    · exact Or.inl h
    · right; rw [h]; simp [firstLn, hw]
  have hnc : parseContinuation l'.s ((leaderOf o n mk).length + pad) = none := by
    rw [hl's]
    exact parseContinuation_lead c _ _ (by omega) hc.n_sp hc.n_tab (by rintro rfl; exact absurd hc.nsp (by decide))
  have hne : NoEarly l'.s := by
    rw [hl's]
    refine lead_noEarly hc _ ?_
    rw [← hl's]
    exact htb'
  have hil := item_lines_next cfg _ hm pad h1 h4 c0 cs hdoc true pre post' l' start k hk mm hnc hpm' hne nm hprev
  have htok := nodes_tokenize cfg it hN true k st g hg'
  rw [hw] at htok
  have hom := otherMarkerM o mk pad n [it] ld nm hln hlead
  rw [wrItems_single, hw]
  rw [readList_step_next cfg g _ st ld nm acc _ _ _ _ _ _ _ _ _ _ _ hom hil htok]
  obtain ⟨g', rfl⟩ : ∃ g', g = g' + 1 := ⟨g - 1, by omega⟩
  have hot : otherMarkerType (some (ld.getD (leaderOf o n mk))) (some mm) = true := by
    simp only [otherMarkerType, Bool.not_eq_eq_eq_not, Bool.not_true]
    rcases hln with ⟨rfl, _⟩ | ⟨n0, rfl, h0, _⟩
    · exact hother n hlead
    · exact hother n0 h0
  simp only [readList, hot, if_true]
  simp only [itms, List.isEmpty_nil, Bool.not_true, Bool.and_false, Bool.true_and, Bool.false_or, Bool.and_false, blankIf,
    if_true, sepS, indentDoc, List.length_cons, List.length_map, List.length_append, List.length_nil, List.reverse_cons, hw]

/-- an item and the items behind it -/
theorem items_consM (cfg : Cfg) (trail : Bool) (nw o : Bool) (mk : Char) (pad : Nat) (loose : Bool) (n : Nat) (it it' : List MB) (r : List (List MB))
    (h1 : 1 ≤ pad) (h4 : pad ≤ 4) (hok : MB.okItems nw o mk pad n (it :: it' :: r) = true) (hN : NodesClaimM cfg it)
    (hR : ItemsClaimM cfg trail o mk pad loose (n + 1) (it' :: r)) :
    ItemsClaimM cfg trail o mk pad loose n (it :: it' :: r) := by
  intro pre post start k st gas acc ld nm hk hg hpost hln
  obtain ⟨_, _, hlead, hdoc, _, hok'⟩ := okItemsM_cons nw o mk pad n it (it' :: r) hok
  obtain ⟨_, _, hlead', hdoc', htb', _⟩ := okItemsM_cons nw o mk pad (n + 1) it' r hok'
  have hm := listLeader_of o _ hlead
  have hm' := listLeader_of o _ hlead'
  obtain ⟨c0, cs, hw⟩ := wrs_cons_of_doc it hdoc
  obtain ⟨c0', cs', hw'⟩ := wrs_cons_of_doc it' hdoc'
  rw [hw] at hdoc
  rw [hw'] at hdoc' htb'
  simp only [List.headD_cons] at htb'
  obtain ⟨⟨ch', r0', rfl, hch'⟩, _, _⟩ := itemDoc_facts c0' cs' hdoc'
  obtain ⟨g, rfl⟩ : ∃ g, gas = g + 1 := ⟨gas - 1, by rw [needItemsM_cons] at hg; omega⟩
  have hg1 : needsM it + 1 ≤ g := by rw [needItemsM_cons] at hg; omega
  have hg2 : needItemsM (it' :: r) ≤ g := by rw [needItemsM_cons] at hg; omega
  have hprev : nm = none ∨ nm = some (0, (leaderOf o n mk).length + pad, leaderOf o n mk, c0) := by
    rcases hln with ⟨_, h⟩ | ⟨_, _, _, h⟩
    · exact Or.inl h
    · right; rw [h]; simp [firstLn, hw]
  -- the lines of the list, split behind the first item
  obtain ⟨tl, htl⟩ := wrItems_head trail o mk pad loose (n + 1) it' r (ch' :: r0') cs' hw'
  let k2 := k + (cs.length + 1 + (sepS loose).length)
  have hlen : (indentDoc (leaderOf o n mk) pad (c0 :: cs) ++ sepS loose).length = cs.length + 1 + (sepS loose).length := by
    simp [indentDoc]; omega
  have hsplit : numbered k (wrItems trail o mk pad loose n (it :: it' :: r)) =
      numbered k (indentDoc (leaderOf o n mk) pad (c0 :: cs) ++ sepS loose) ++
        numbered k2 (wrItems trail o mk pad loose (n + 1) (it' :: r)) := by
    rw [wrItems_cons2, hw, ← List.append_assoc, numbered_append, hlen]
  -- the marker line of the next item
  obtain ⟨c, m'', hmc, hc⟩ := hm'.lead
  let l' : Line := { s := leaderOf o (n + 1) mk ++ List.replicate pad ' ' ++ ch' :: r0', origin := k2 + 1 }
  have hl's : l'.s = c :: (m'' ++ List.replicate pad ' ' ++ ch' :: r0') := by
    show leaderOf o (n + 1) mk ++ List.replicate pad ' ' ++ ch' :: r0' = _
    rw [hmc]; simp
  have hnext : numbered k2 (wrItems trail o mk pad loose (n + 1) (it' :: r)) = l' :: numbered (k2 + 1) tl := by
    rw [htl, numbered_cons]
  have hnc : parseContinuation l'.s ((leaderOf o n mk).length + pad) = none := by
    rw [hl's]
    exact parseContinuation_lead c _ _ (by omega) hc.n_sp hc.n_tab (by rintro rfl; exact absurd hc.nsp (by decide))
  have hpm' : parseMarker l'.s = some (0, (leaderOf o (n + 1) mk).length + pad, leaderOf o (n + 1) mk, ch' :: r0') :=
    parseMarker_first _ hm' pad h1 h4 ch' r0' hch'
  have hne : NoEarly l'.s := by
    rw [hl's]
    refine lead_noEarly hc _ ?_
    rw [← hl's]
    exact htb'
  have hil := item_lines_next cfg _ hm pad h1 h4 c0 cs hdoc loose pre (numbered (k2 + 1) tl ++ post) l' start k hk _ hnc hpm' hne nm hprev
  have htok := nodes_tokenize cfg it hN loose k st g hg1
  rw [hw] at htok
  have hom := otherMarkerM o mk pad n (it :: it' :: r) ld nm hln hlead
  have hbuf : pre ++ numbered k (wrItems trail o mk pad loose n (it :: it' :: r)) ++ post =
      pre ++ numbered k (indentDoc (leaderOf o n mk) pad (c0 :: cs) ++ sepS loose) ++ l' :: (numbered (k2 + 1) tl ++ post) := by
    rw [hsplit, hnext]; simp
  rw [hbuf, readList_step_next cfg g _ st ld nm acc _ _ _ _ _ _ _ _ _ _ _ hom hil htok]
  -- the items behind
  have hbuf2 : pre ++ numbered k (indentDoc (leaderOf o n mk) pad (c0 :: cs) ++ sepS loose) ++ l' :: (numbered (k2 + 1) tl ++ post) =
      (pre ++ numbered k (indentDoc (leaderOf o n mk) pad (c0 :: cs) ++ sepS loose)) ++
        numbered k2 (wrItems trail o mk pad loose (n + 1) (it' :: r)) ++ post := by
    rw [hnext]; simp
  have hpos : pre.length + (cs.length + 1 + (sepS loose).length) =
      (pre ++ numbered k (indentDoc (leaderOf o n mk) pad (c0 :: cs) ++ sepS loose)).length := by
    rw [List.length_append, numbered_length, hlen]
  have hln' : LdNmM o mk pad (n + 1) (it' :: r) (some (ld.getD (leaderOf o n mk)))
      (some (0, (leaderOf o (n + 1) mk).length + pad, leaderOf o (n + 1) mk, ch' :: r0')) := by
    right
    rcases hln with ⟨rfl, _⟩ | ⟨n0, rfl, h0, _⟩
    · exact ⟨n, rfl, hlead, by simp [firstLn, hw']⟩
    · exact ⟨n0, rfl, h0, by simp [firstLn, hw']⟩
  rw [hbuf2, hpos]
  rw [hR _ post start k2 _ g _ _ _ (by rw [← hpos]; omega) hg2 hpost hln']
  simp only [itms, hw, List.length_cons, List.isEmpty_cons, Bool.not_false, Bool.and_true, Bool.and_false, Bool.or_false,
    List.reverse_cons, List.append_assoc, List.singleton_append, List.length_append, numbered_length, hlen]
  have e1 : k2 + 1 = k + 1 + (cs.length + 1) + (sepS loose).length := by show k + _ + 1 = _; omega
  have e2 : (wrItems trail o mk pad loose n (it :: it' :: r)).length =
      cs.length + 1 + (sepS loose).length + (wrItems trail o mk pad loose (n + 1) (it' :: r)).length := by
    rw [wrItems_cons2, hw, ← List.append_assoc, List.length_append, hlen]
  rw [e1, e2]
  simp only [← Nat.add_assoc, hnext, List.cons_append]

/-! ### A list among the siblings -/

theorem needM_list (o : Bool) (n : Nat) (mk : Char) (pad : Nat) (loose : Bool) (items : List (List MB)) :
    needM (.list o n mk pad loose items) = needItemsM items + 9 := by simp [needM]

/-- the dispatch loop on the first line of a written list: one `List` entry, the cursor on the line behind the list -/
theorem step_list (cfg : Cfg) (hty : cfg.types = markdownTypes) (nw trail o : Bool) (n : Nat) (mk : Char) (pad : Nat) (loose : Bool)
    (items : List (List MB)) (hok : (MB.list o n mk pad loose items).ok nw = true) (hI : ItemsClaimM cfg trail o mk pad loose n items) :
    StepClaim cfg trail (.list o n mk pad loose items) := by
  intro pre post start k st G acc lo hk hg hpost
  have hl := listOkM_of nw o n mk pad loose items hok
  rw [needM_list] at hg
  obtain ⟨g, rfl⟩ : ∃ g, G = g + 9 := ⟨G - 9, by omega⟩
  have hgi : needItemsM items ≤ g := by omega
  have hpost' : PostI trail o mk post := by
    cases trail with
    | true => exact hpost
    | false =>
      rcases hpost with h | ⟨nlL, rest, h1, h2, h3⟩
      · exact Or.inl h
      · exact Or.inr ⟨nlL, rest, h1, h2, h3 rfl⟩
  cases items with
  | nil => exact absurd rfl hl.ne
  | cons it rest =>
    obtain ⟨_, _, hlead, hdoc, htb, _⟩ := okItemsM_cons nw o mk pad n it rest hl.its
    have hm := listLeader_of o _ hlead
    obtain ⟨c0, cs, hw⟩ := wrs_cons_of_doc it hdoc
    rw [hw] at htb
    simp only [List.headD_cons] at htb
    obtain ⟨tl, htl⟩ := wrItems_head trail o mk pad loose n it rest c0 cs hw
    obtain ⟨c, m'', hmc, hc⟩ := hm.lead
    have hrl := hI pre post start k st g [] none none hk hgi hpost' (Or.inl ⟨rfl, rfl⟩)
    simp only [List.reverse_nil, List.nil_append] at hrl
    simp only [wr, ent]
    generalize hL : wrItems trail o mk pad loose n (it :: rest) = L at hrl htl ⊢
    subst htl
    rw [numbered_cons] at hrl ⊢
    have hls0 : ({ s := leaderOf o n mk ++ List.replicate pad ' ' ++ c0, origin := k + 1 } : Line).s =
        c :: (m'' ++ List.replicate pad ' ' ++ c0) := by
      show leaderOf o n mk ++ List.replicate pad ' ' ++ c0 = _
      rw [hmc]; simp
    have hstart0 : listStart ({ s := leaderOf o n mk ++ List.replicate pad ' ' ++ c0, origin := k + 1 } : Line).s = true :=
      listStart_first _ hm pad hl.p1 _
    have htb0 : Scan.thematicBreak ({ s := leaderOf o n mk ++ List.replicate pad ' ' ++ c0, origin := k + 1 } : Line).s = false := htb
    have ho0 : ({ s := leaderOf o n mk ++ List.replicate pad ' ' ++ c0, origin := k + 1 } : Line).origin = k + 1 := rfl
    generalize ({ s := leaderOf o n mk ++ List.replicate pad ' ' ++ c0, origin := k + 1 } : Line) = l0 at hrl hls0 hstart0 htb0 ho0 ⊢
    have hp := peek_at pre l0 (numbered (k + 1) tl ++ post) start
    have hty' := tryTypes_lead cfg
      ⟨pre ++ l0 :: (numbered (k + 1) tl ++ post), pre.length, start⟩ st
      l0 c _ hls0 hc htb0 [.table, .paragraph] g
      [.linkRefDefBlock, .blankLine, .htmlBlock, .blockCode, .heading, .quote, .codeFence, .thematicBreak]
      (by decide) (by decide) (by decide)
    have hT : cfg.types = [.linkRefDefBlock, .blankLine, .htmlBlock, .blockCode, .heading, .quote, .codeFence, .thematicBreak]
        ++ .list :: [.table, .paragraph] := by rw [hty]; rfl
    simp only [List.length_cons, List.length_nil, Nat.zero_add] at hty'
    have hbuf : pre ++ (l0 :: numbered (k + 1) tl ++ post) = pre ++ l0 :: (numbered (k + 1) tl ++ post) := by simp
    have hbuf2 : pre ++ l0 :: numbered (k + 1) tl ++ post = pre ++ l0 :: (numbered (k + 1) tl ++ post) := by simp
    have hbuf3 : (pre ++ l0 :: numbered (k + 1) tl) ++ post = pre ++ l0 :: (numbered (k + 1) tl ++ post) := by simp
    rw [hbuf2] at hrl
    rw [hbuf, hbuf3]
    generalize hG : g + 9 = G'
    simp only [tokLoop, hp]
    subst hG
    rw [hT]
    have e2 : g + 9 = g + 1 + (1 + 1 + 1 + 1 + 1 + 1 + 1 + 1) := by omega
    rw [e2, hty']
    simp only [tryTypes, hstart0, if_true]
    rw [hrl]
    simp only [List.length_append, numbered_length, List.length_cons, hk, ho0]

/-! ### Siblings -/

/-- a block, then nothing, a final "\n" line, a "\n" line and further siblings — or, behind a list, a list of another type -/
theorem nodes_stepM (cfg : Cfg) (hty : cfg.types = markdownTypes) (t : MB) (rest : List MB)
    (hsep : ∀ t' r (tail : Bool) (k' : Nat) (b : Line), rest = t' :: r → adj t t' = false → b.s = ['\n'] →
      PostM false t (b :: numbered k' (wrs (t' :: r) ++ sepS tail)))
    (hadj : ∀ t' r (tail : Bool) (k' : Nat), rest = t' :: r → adj t t' = true →
      PostM true t (numbered k' (wrs (t' :: r) ++ sepS tail)))
    (hT : ∀ tr, StepClaim cfg tr t) (hR : rest ≠ [] → NodesClaimM cfg rest) : NodesClaimM cfg (t :: rest) := by
  intro tail pre start k st gas acc lo hk hg
  rw [needsM_cons] at hg
  obtain ⟨G, rfl⟩ : ∃ G, gas = G + 1 := ⟨gas - 1, by omega⟩
  have hmt := mdTypes_len cfg hty
  have hbl := mdTypes_bl cfg hty
  cases rest with
  | nil =>
    let n := (wr false t).length
    let b : Line := { s := ['\n'], origin := k + n + 1 }
    rw [wrs_single, ents_single]
    cases tail with
    | false =>
      have h := hT false pre [] start k st G acc lo hk (by omega) (Or.inl rfl)
      simp only [sepS, Bool.false_eq_true, if_false, List.append_nil, blankIf] at h ⊢
      rw [h]
      obtain ⟨G', rfl⟩ : ∃ G', G = G' + 1 := ⟨G - 1, by omega⟩
      rw [tokLoop_end]
      simp
    | true =>
      have hbuf : numbered k (wr false t ++ sepS true) = numbered k (wr false t) ++ [b] := by rw [numbered_append]; rfl
      have h := hT false pre [b] start k st G acc lo hk (by omega) (Or.inr ⟨b, [], rfl, rfl, by simp⟩)
      rw [hbuf, h]
      obtain ⟨G', rfl⟩ : ∃ G', G = G' + 1 := ⟨G - 1, by omega⟩
      have h2 := tokLoop_nl_step cfg G' (by rw [hmt]; omega) b (pre ++ numbered k (wr false t)) [] start st (ent false (k + 1) t :: acc) lo rfl
      rw [hbl] at h2
      simp only [if_true] at h2
      rw [h2]
      obtain ⟨G'', rfl⟩ : ∃ G'', G' = G'' + 1 := ⟨G' - 1, by omega⟩
      rw [List.append_nil, tokLoop_end]
      simp only [List.reverse_cons, List.append_assoc, List.singleton_append, List.length_append, numbered_length, blankIf, if_true]
      have e1 : start + (pre.length + (wr false t).length) = k + 1 + (wr false t).length := by omega
      have e2 : b.origin = k + 1 + (wr false t).length := by show k + n + 1 = _; omega
      rw [e1, e2]
  | cons t' r =>
    cases ha : adj t t' with
    | false =>
      let n := (wr false t).length
      let b : Line := { s := ['\n'], origin := k + n + 1 }
      rw [wrs_cons_sep t t' r ha, ents_cons_sep _ t t' r ha]
      have hlines : numbered k (wr false t ++ ['\n'] :: wrs (t' :: r) ++ sepS tail) =
          numbered k (wr false t) ++ b :: numbered (k + n + 1) (wrs (t' :: r) ++ sepS tail) := by
        rw [List.append_assoc, numbered_append, List.cons_append, numbered_cons]
      have h := hT false pre _ start k st G acc lo hk (by omega) (hsep t' r tail (k + n + 1) b rfl ha rfl)
      rw [hlines, h]
      obtain ⟨G', rfl⟩ : ∃ G', G = G' + 1 := ⟨G - 1, by omega⟩
      have h2 := tokLoop_nl_step cfg G' (by rw [hmt]; omega) b (pre ++ numbered k (wr false t))
        (numbered (k + n + 1) (wrs (t' :: r) ++ sepS tail)) start st (ent false (k + 1) t :: acc) lo rfl
      rw [hbl] at h2
      simp only [if_true] at h2
      rw [h2]
      have hlen : (pre ++ numbered k (wr false t) ++ [b]).length = pre.length + n + 1 := by
        simp only [List.length_append, numbered_length, List.length_cons, List.length_nil]; rfl
      have ih := hR (by simp) tail (pre ++ numbered k (wr false t) ++ [b]) start (k + n + 1) st G'
        (.blankLine (start + (pre ++ numbered k (wr false t)).length) b.origin :: ent false (k + 1) t :: acc) lo
        (by rw [hlen]; omega) (by omega)
      rw [ih]
      simp only [List.reverse_cons, List.append_assoc, List.singleton_append, List.length_append, numbered_length, List.length_cons]
      have e1 : start + (pre.length + (wr false t).length) = k + 1 + (wr false t).length := by omega
      have e2 : b.origin = k + 1 + (wr false t).length := by show k + n + 1 = _; omega
      have e3 : k + n + 1 + 1 = k + 1 + (wr false t).length + 1 := by show k + (wr false t).length + 1 + 1 = _; omega
      have e4 : k + 1 + (wr false t).length + 1 + (wrs (t' :: r)).length =
          k + 1 + ((wr false t).length + ((wrs (t' :: r)).length + 1)) := by omega
      rw [e1, e2, e3, e4]
      simp
    | true =>
      let n := (wr true t).length
      rw [wrs_cons_adj t t' r ha, ents_cons_adj _ t t' r ha]
      have hlines : numbered k (wr true t ++ wrs (t' :: r) ++ sepS tail) =
          numbered k (wr true t) ++ numbered (k + n) (wrs (t' :: r) ++ sepS tail) := by
        rw [List.append_assoc, numbered_append]
      have h := hT true pre _ start k st G acc lo hk (by omega) (hadj t' r tail (k + n) rfl ha)
      rw [hlines, h]
      have hlen : (pre ++ numbered k (wr true t)).length = pre.length + n := by
        simp only [List.length_append, numbered_length]; rfl
      have ih := hR (by simp) tail (pre ++ numbered k (wr true t)) start (k + n) st G (ent true (k + 1) t :: acc) lo
        (by rw [hlen]; omega) (by omega)
      rw [ih]
      simp only [List.reverse_cons, List.append_assoc, List.singleton_append, List.length_append]
      have e3 : k + n + 1 = k + 1 + (wr true t).length := by show k + (wr true t).length + 1 = _; omega
      have e4 : k + 1 + (wr true t).length + (wrs (t' :: r)).length = k + 1 + ((wr true t).length + (wrs (t' :: r)).length) := by omega
      rw [e3, e4]
      simp

theorem step_leaf (cfg : Cfg) (hty : cfg.types = markdownTypes) (tr : Bool) (b : Blk) (hok : b.ok = true) : StepClaim cfg tr (.leaf b) := by
  intro pre post start k st G acc lo hk hg hpost
  cases tr with
  | true => exact absurd hpost (by simp [PostM])
  | false =>
    obtain ⟨g, rfl⟩ : ∃ g, G = g + 11 := ⟨G - 11, by simp only [needM] at hg; omega⟩
    have hb : ∀ x, post.head? = some x → x.s = ['\n'] := by
      rcases hpost with rfl | ⟨nlL, rest, rfl, h, _⟩
      · simp
      · intro x hx
        simp only [List.head?_cons, Option.some.injEq] at hx
        subst hx; exact h
    have := tokLoop_leaf_step cfg hty b hok g pre post k hb start st acc lo
    simp only [wr, ent]
    rw [this, hk]

/-- behind a list, after the "\n" line: a block that is no list -/
theorem postM_sep (nw : Bool) (t t' : MB) (r : List MB) (hli : isListM t = true) (hsep : sepOkM t t' = true)
    (hok' : MB.oks nw (t' :: r) = true) (ha : adj t t' = false) (tail : Bool) (k' : Nat) (b : Line) (hb : b.s = ['\n']) :
    PostM false t (b :: numbered k' (wrs (t' :: r) ++ sepS tail)) := by
  refine Or.inr ⟨b, _, rfl, hb, ?_⟩
  intro _ s hs
  have hnl : isListM t' = false := by simpa [adj, hli] using ha
  simp only [sepOkM, hli, Bool.not_true, Bool.false_or, hnl, Bool.false_eq_true, if_false] at hsep
  have hok1 := (oksM_cons nw _ _ hok').1
  obtain ⟨ss, hss⟩ := wrs_head nw t' r hok1 tail
  rw [hss, numbered_cons] at hs
  simp only [List.head?_cons, Option.some.injEq] at hs
  subst hs
  cases t' with
  | list => simp [isListM] at hnl
  | leaf bl =>
    have hbok : bl.ok = true := by simpa [MB.ok] using hok1
    have hne := item_lines_len_pos bl hbok
    cases hbl : bl.lines with
    | nil => exact absurd hbl hne
    | cons s0 ss0 =>
      have hf : firstOf (.leaf bl) = s0 := by simp [firstOf, wr, hbl]
      simp only [wr, hbl, List.headD_cons] at hsep
      show StopLine (firstOf (.leaf bl))
      rw [hf]
      exact stopLine_ofM s0 hsep (nlEnd_of_oneLine s0 (item_oneLine bl hbok s0 (by rw [hbl]; simp)))

/-- behind a list, directly: a list of another type -/
theorem postM_adj (nw : Bool) (o : Bool) (n : Nat) (mk : Char) (pad : Nat) (loose : Bool) (items : List (List MB))
    (t' : MB) (r : List MB) (hsep : sepOkM (.list o n mk pad loose items) t' = true)
    (hok' : MB.oks nw (t' :: r) = true) (ha : adj (.list o n mk pad loose items) t' = true) (tail : Bool) (k' : Nat) :
    PostM true (.list o n mk pad loose items) (numbered k' (wrs (t' :: r) ++ sepS tail)) := by
  have hli : isListM t' = true := by simpa [adj, isListM] using ha
  have hok1 := (oksM_cons nw _ _ hok').1
  obtain ⟨ss, hss⟩ := wrs_head nw t' r hok1 tail
  rw [hss, numbered_cons]
  refine ⟨_, _, rfl, ?_⟩
  cases t' with
  | leaf => simp [isListM] at hli
  | list o' n' mk' pad' loose' items' =>
    have hl' := listOkM_of nw o' n' mk' pad' loose' items' hok1
    cases items' with
    | nil => exact absurd rfl hl'.ne
    | cons it' r' =>
      obtain ⟨_, _, hlead', hdoc', htb', _⟩ := okItemsM_cons nw o' mk' pad' n' it' r' hl'.its
      have hm' := listLeader_of o' _ hlead'
      obtain ⟨c0', cs', hw'⟩ := wrs_cons_of_doc it' hdoc'
      rw [hw'] at hdoc' htb'
      simp only [List.headD_cons] at htb'
      obtain ⟨⟨ch', r0', rfl, hch'⟩, _, _⟩ := itemDoc_facts c0' cs' hdoc'
      obtain ⟨tl, htl⟩ := wrItems_head false o' mk' pad' loose' n' it' r' (ch' :: r0') cs' hw'
      have hf : firstOf (.list o' n' mk' pad' loose' (it' :: r')) = leaderOf o' n' mk' ++ List.replicate pad' ' ' ++ ch' :: r0' := by
        simp [firstOf, wr, htl]
      obtain ⟨c, m'', hmc, hc⟩ := hm'.lead
      show OtherList o mk (firstOf (.list o' n' mk' pad' loose' (it' :: r')))
      rw [hf]
      refine ⟨c, m'' ++ List.replicate pad' ' ' ++ ch' :: r0', _, by rw [hmc]; simp, hc,
        parseMarker_first _ hm' pad' hl'.p1 hl'.p4 ch' r0' hch', htb', ?_⟩
      intro n0 h0
      exact otherType_marker o o' mk mk' n0 n' (by simpa [sepOkM, isListM, otherTypeB] using hsep) h0 hlead'

/-! ### The induction over the tree -/

theorem items_stepM (cfg : Cfg) (trail nw o : Bool) (mk : Char) (pad : Nat) (loose : Bool) (n : Nat) (it : List MB) (rest : List (List MB))
    (h1 : 1 ≤ pad) (h4 : pad ≤ 4) (hok : MB.okItems nw o mk pad n (it :: rest) = true) (hN : NodesClaimM cfg it)
    (hR : rest ≠ [] → ItemsClaimM cfg trail o mk pad loose (n + 1) rest) : ItemsClaimM cfg trail o mk pad loose n (it :: rest) := by
  cases rest with
  | nil =>
    cases trail with
    | false => exact items_lastM cfg nw o mk pad loose n it h1 h4 hok hN
    | true => exact items_lastT cfg nw o mk pad loose n it h1 h4 hok hN
  | cons it' r => exact items_consM cfg trail nw o mk pad loose n it it' r h1 h4 hok hN (hR (by simp))

mutual
/-- **siblings** (any blocks of the fragment), at the end of a buffer -/
theorem nodes_claimM (cfg : Cfg) (hty : cfg.types = markdownTypes) (nw : Bool) :
    ∀ (ts : List MB), MB.oks nw ts = true → ts ≠ [] → NodesClaimM cfg ts
  | [], _, hne => absurd rfl hne
  | .leaf b :: rest, h, _ =>
    nodes_stepM cfg hty _ rest
      (fun t' r tail k' b' _ _ hb => Or.inr ⟨b', _, rfl, hb, by intro hli; simp [isListM] at hli⟩)
      (fun t' r tail k' _ ha => by simp [adj, isListM] at ha)
      (fun tr => step_leaf cfg hty tr b (by simpa [MB.ok] using (oksM_cons nw _ _ h).1))
      (fun hne => nodes_claimM cfg hty nw rest (oksM_cons nw _ _ h).2.1 hne)
  | .list o n mk pad loose items :: rest, h, _ =>
    have hl := listOkM_of nw o n mk pad loose items (oksM_cons nw _ _ h).1
    nodes_stepM cfg hty _ rest
      (fun t' r tail k' b' e ha hb =>
        postM_sep nw _ t' r rfl ((oksM_cons nw _ _ h).2.2 t' r e) (by rw [← e]; exact (oksM_cons nw _ _ h).2.1) ha tail k' b' hb)
      (fun t' r tail k' e ha =>
        postM_adj nw o n mk pad loose items t' r ((oksM_cons nw _ _ h).2.2 t' r e) (by rw [← e]; exact (oksM_cons nw _ _ h).2.1) ha tail k')
      (fun tr => step_list cfg hty nw tr o n mk pad loose items (oksM_cons nw _ _ h).1
        (items_claimM cfg hty nw tr o mk pad loose hl.p1 hl.p4 n items hl.its hl.ne))
      (fun hne => nodes_claimM cfg hty nw rest (oksM_cons nw _ _ h).2.1 hne)
/-- **the items of a list**, anywhere in a buffer -/
theorem items_claimM (cfg : Cfg) (hty : cfg.types = markdownTypes) (nw trail o : Bool) (mk : Char) (pad : Nat) (loose : Bool)
    (h1 : 1 ≤ pad) (h4 : pad ≤ 4) :
    ∀ (n : Nat) (items : List (List MB)), MB.okItems nw o mk pad n items = true → items ≠ [] →
      ItemsClaimM cfg trail o mk pad loose n items
  | _, [], _, hne => absurd rfl hne
  | n, it :: rest, h, _ =>
    items_stepM cfg trail nw o mk pad loose n it rest h1 h4 h
      (nodes_claimM cfg hty nw it (okItemsM_cons nw o mk pad n it rest h).2.1 (okItemsM_cons nw o mk pad n it rest h).1)
      (fun hne => items_claimM cfg hty nw trail o mk pad loose h1 h4 (n + 1) rest (okItemsM_cons nw o mk pad n it rest h).2.2.2.2.2 hne)
end

/-- **the block parse of a written forest, in every parser state**: one entry per block, one `BlankLine` per separator
    line (between two lists: inside the last item of the first); the buffer is not loose; the state is unchanged (no
    definitions, `parse_setext` untouched) -/
theorem tokenize_nodes (cfg : Cfg) (hty : cfg.types = markdownTypes) (nw : Bool) (ts : List MB) (hok : MB.oks nw ts = true)
    (hne : ts ≠ []) (gas : Nat) (st : St) :
    tokenizeBlock cfg (gas + (needsM ts + 1)) (numbered 0 (wrs ts)) 1 st =
      .ok ({ entries := ents 1 ts, loose := false }, st) := by
  have := nodes_tokenize cfg ts (nodes_claimM cfg hty nw ts hok hne) false 0 st (gas + (needsM ts + 1)) (by omega)
  simpa [sepS, blankIf] using this

end Mistletoe.MdRound
