/-
  C03 with tables and indented code blocks (`Proofs/ComposeTable.lean`): non-vacuity.  A sample forest - a three-column
  table using every alignment with a short and a long body row, a table and a code block inside a quote, a table and a code
  block inside a list item, a fence, an indented code block with interior blank lines - is well-formed by kernel
  evaluation; the theorems apply to it; evaluating the model on the written text in the kernel, independently of the
  theorems, gives the same HTML; the real `mistletoe.markdown` returns this string for this text.  Then what the predicate
  rejects and accepts, and the inputs on which model and implementation differ from the GFM / CommonMark documents.
-/
import Mistletoe.Proofs.ComposeTable
namespace Mistletoe.ComposeT
open Mistletoe Mistletoe.Py Mistletoe.Scan Mistletoe.Compose
open Mistletoe.Block hiding numbered numbered_cons numbered_append
open Mistletoe.Html

/-! ### Non-vacuity -/

def L (s : String) : Str := s.toList
/-- several string literals joined (the kernel evaluates short literals much faster than long ones) -/
def LL (ss : List String) : Str := (ss.map String.toList).flatten

/-- * a table with three columns `:--` (left), ` :-: ` (centre), `---:` (right), cells with characters to escape; a short
      body row, a long one written without outer pipes, one with an empty cell and no trailing pipe;
    * a quote holding a table written without outer pipes (its body row with them) and an indented code block;
    * a loose list whose item holds a paragraph, a one-column table without body rows and an indented code block with a
      blank line inside;
    * a fence; an indented code block with interior lines "\n", "  \n" and "      \n" and a deeper indented line; a
      paragraph. -/
def sampleT : List T4 := [
  .leaf (.table ⟨true, true, [L " a ", L " b & 1 < 2 ", L " d "]⟩
      ⟨true, true, [⟨0, true, 2, false, 0⟩, ⟨1, true, 1, true, 1⟩, ⟨0, false, 3, true, 0⟩]⟩
      [⟨true, true, [L " 1 "]⟩,
       ⟨false, false, [L "1 ", L " 2 ", L " 3 ", L " 4"]⟩,
       ⟨true, false, [L " ", L " \"x\""]⟩]),
  .quote false [
    .leaf (.table ⟨false, false, [L "h1 ", L " h2"]⟩ ⟨false, false, [⟨0, false, 3, false, 1⟩, ⟨1, false, 3, false, 0⟩]⟩
      [⟨true, true, [L "q"]⟩]),
    .leaf (.icode [L "    quoted code\n"])],
  .list false 0 '-' 1 true [[.para [L "item\n"],
    .leaf (.table ⟨true, true, [L "k"]⟩ ⟨true, true, [⟨0, false, 1, false, 0⟩]⟩ []),
    .leaf (.icode [L "    in item\n", L "\n", L "     deeper\n"])]],
  .fence 0 (L "```") (L "") [L "x\n"] (L "```\n"),
  .leaf (.icode [L "    code <1>\n", L "\n", L "      more  \n", L "  \n", L "      \n", L "    last\n"]),
  .para [L "after\n"]]

theorem sampleT_ok : T4.oks sampleT = true := by decide +kernel

/-- what the writer produces -/
def textT : Str := LL [
  "| a | b & 1 < 2 | d |\n|:--| :-: |---:|\n| 1 |\n1 | 2 | 3 | 4\n",
  "| | \"x\"\n\n> h1 | h2\n> --- | ---\n> |q|\n> \n>     quoted code\n\n",
  "- item\n\n  |k|\n  |-|\n\n      in item\n\n       deeper\n\n```\nx\n",
  "```\n\n    code <1>\n\n      more  \n  \n      \n    last\n\nafter\n"]

example : (writes4 sampleT).flatten = textT := by decide +kernel

/-- the HTML written directly from the tree; `mistletoe.markdown` returns this string for the text above (checked with
    /repo: `mistletoe.markdown(textT) == htmlT`) -/
def htmlT : Str := LL [
  "<table>\n<thead>\n<tr>\n<th align=\"left\">a</th>\n",
  "<th align=\"center\">b &amp; 1 &lt; 2</th>\n",
  "<th align=\"right\">d</th>\n</tr>\n</thead>\n<tbody>\n<tr>\n",
  "<td align=\"left\">1</td>\n<td align=\"center\"></td>\n",
  "<td align=\"right\"></td>\n</tr>\n<tr>\n<td align=\"left\">1</td>\n",
  "<td align=\"center\">2</td>\n<td align=\"right\">3</td>\n",
  "<td align=\"left\">4</td>\n</tr>\n<tr>\n<td align=\"left\"></td>\n",
  "<td align=\"center\">\"x\"</td>\n<td align=\"right\"></td>\n</tr>\n",
  "</tbody>\n</table>\n<blockquote>\n<table>\n<thead>\n<tr>\n",
  "<th align=\"left\">h1</th>\n<th align=\"left\">h2</th>\n</tr>\n",
  "</thead>\n<tbody>\n<tr>\n<td align=\"left\">q</td>\n",
  "<td align=\"left\"></td>\n</tr>\n</tbody>\n</table>\n",
  "<pre><code>quoted code\n</code></pre>\n</blockquote>\n<ul>\n",
  "<li>\n<p>item</p>\n<table>\n<thead>\n<tr>\n",
  "<th align=\"left\">k</th>\n</tr>\n</thead>\n<tbody>\n</tbody>\n",
  "</table>\n<pre><code>in item\n\n deeper\n</code></pre>\n</li>\n",
  "</ul>\n<pre><code>x\n</code></pre>\n<pre><code>code &lt;1&gt;\n\n",
  "  more  \n\n  \nlast\n</code></pre>\n<p>after</p>\n"]

example : htmlOf4 {} sampleT = htmlT := by decide +kernel
example : needs4 sampleT = 285 := by decide +kernel

/-- an instance of `C03_table_html_partial` -/
example : Config.renderHtml {} 285 textT = some htmlT := by
  have e : textT = (writes4 sampleT).flatten := by decide +kernel
  rw [e, C03_table_html_partial {} sampleT sampleT_ok (by decide) 285 (by decide +kernel)]
  decide +kernel

/-- the same fact by evaluating the model on the text, without the theorem -/
example : Config.renderHtml {} 285 textT = some htmlT := by decide +kernel

/-- an instance of `C03_table_document_partial`, for the token lists of the HTML renderer -/
example (cfg : Document.Cfg) (h : Config.html = some cfg) :
    Document.parse cfg 285 (writes4 sampleT).flatten = .ok { kids := blocks4 1 sampleT, footnotes := [] } := by
  obtain ⟨hb, ht, hc⟩ := Compose.html_config cfg h
  exact (C03_table_document_partial cfg _ hb ht hc sampleT sampleT_ok (by decide) 285 (by decide +kernel)).2

/-- the line numbers of the top-level tokens of the sample: the real `Document(textT)` reports 1, 7, 13, 22, 26, 33 -/
def lnOf : Mistletoe.Block → Nat
  | .table _ _ _ n => n
  | .quote _ n => n
  | .list _ _ _ n => n
  | .codeFence _ _ _ _ _ n => n
  | .blockCode _ n => n
  | .paragraph _ n => n
  | _ => 0
example : (blocks4 1 sampleT).map lnOf = [1, 7, 13, 22, 26, 33] := by decide +kernel

/-- **what the tree of a table looks like**: `column_align` from the delimiter row; the header `TableRow`; a short body row
    filled up with empty cells carrying the columns' alignments; a long body row with ALL its cells, the fourth with
    alignment `None`; header on the table's line, body rows two lines further down.  (The real code: `column_align`
    `[None, 0, 1]`, row line numbers 1, 3, 4, cells as here.) -/
example : blocks4 1 [.leaf (.table ⟨true, true, [L " a ", L " b ", L " c "]⟩
      ⟨true, true, [⟨0, true, 2, false, 0⟩, ⟨1, true, 1, true, 1⟩, ⟨0, false, 3, true, 0⟩]⟩
      [⟨true, true, [L " 1 "]⟩, ⟨false, false, [L "1 ", L " 2 ", L " 3 ", L " 4"]⟩])] =
    [.table [none, some 0, some 1]
      [.tableRow [none, some 0, some 1]
        [.tableCell none [.rawText (L "a")] 1, .tableCell (some 0) [.rawText (L "b")] 1, .tableCell (some 1) [.rawText (L "c")] 1] 1]
      [.tableRow [none, some 0, some 1]
        [.tableCell none [.rawText (L "1")] 3, .tableCell (some 0) [] 3, .tableCell (some 1) [] 3] 3,
       .tableRow [none, some 0, some 1]
        [.tableCell none [.rawText (L "1")] 4, .tableCell (some 0) [.rawText (L "2")] 4, .tableCell (some 1) [.rawText (L "3")] 4,
         .tableCell none [.rawText (L "4")] 4] 4] 1] := rfl

/-- the content of the last code block of the sample: every line minus four columns; "  \n" gives "\n" -/
example : blocks4 26 [.leaf (.icode [L "    code <1>\n", L "\n", L "      more  \n", L "  \n", L "      \n", L "    last\n"])] =
    [.blockCode (L "code <1>\n\n  more  \n\n  \nlast\n") 26] := rfl

/-! ### What the predicate rejects -/

def okT (h : Row) (d : DRow) (rows : List Row) : Bool := (Leaf.table h d rows).ok
def d1 : DRow := ⟨true, true, [⟨0, false, 3, false, 0⟩]⟩

/-- a cell with a pipe, with a backslash, with a code span; an empty cell string; a header that does not begin with a pipe
    and is a list item / a quote; a row without any pipe; a delimiter cell without a hyphen; a delimiter row without a
    pipe; header and delimiter row of different lengths; a row that begins with a space; a tab -/
example : [okT ⟨true, true, [L "a|b"]⟩ d1 [], okT ⟨true, true, [L "a\\"]⟩ d1 [], okT ⟨true, true, [L "`a`"]⟩ d1 [],
    okT ⟨true, true, [L ""]⟩ d1 [], okT ⟨false, true, [L "- a"]⟩ d1 [], okT ⟨false, true, [L "> a"]⟩ d1 [],
    okT ⟨true, true, [L "a"]⟩ d1 [⟨false, false, [L "b"]⟩], okT ⟨true, true, [L "a"]⟩ ⟨true, true, [⟨0, true, 0, true, 0⟩]⟩ [],
    okT ⟨true, true, [L "a"]⟩ ⟨false, false, [⟨0, false, 3, false, 0⟩]⟩ [], okT ⟨true, true, [L "a", L "b"]⟩ d1 [],
    okT ⟨false, true, [L " a"]⟩ d1 [], okT ⟨true, true, [L "a\tb"]⟩ d1 []] = List.replicate 12 false := by
  decide +kernel

/-- … and accepts: header without a leading pipe; one-column rows with one pipe only; wide padding; body rows of every
    spelling -/
example : [okT ⟨false, true, [L "a"]⟩ d1 [], okT ⟨true, false, [L "a"]⟩ ⟨false, true, [⟨2, true, 5, true, 3⟩]⟩ [],
    okT ⟨true, true, [L "   a   b   "]⟩ d1 [⟨true, false, [L "x"]⟩, ⟨false, true, [L "x"]⟩, ⟨false, false, [L "x", L "y"]⟩, ⟨true, true, [L "  "]⟩]] =
    List.replicate 3 true := by
  decide +kernel

/-- indented code: a first or last line of whitespace, a line indented by three spaces, a tab, an empty block are
    rejected; two code blocks in a row are rejected (they would be one block), as is a code block as the first block of a
    list item or directly behind a list -/
example : [(Leaf.icode [L "    \n", L "    a\n"]).ok, (Leaf.icode [L "    a\n", L "\n"]).ok, (Leaf.icode [L "    a\n", L "   b\n"]).ok,
    (Leaf.icode [L "    a\tb\n"]).ok, (Leaf.icode []).ok,
    T4.oks [.leaf (.icode [L "    a\n"]), .leaf (.icode [L "    b\n"])],
    T4.ok (.list false 0 '-' 1 false [[.leaf (.icode [L "    a\n"])]]),
    T4.oks [.list false 0 '-' 1 false [[.para [L "a\n"]]], .leaf (.icode [L "    b\n"])]] = List.replicate 8 false := by
  decide +kernel

/-- inside a list item an interior line of spaces is rejected (`itemDocOk`), "\n" is accepted -/
example : T4.ok (.list false 0 '-' 1 true [[.para [L "a\n"], .leaf (.icode [L "    a\n", L "  \n", L "    b\n"])]]) = false ∧
    T4.ok (.list false 0 '-' 1 true [[.para [L "a\n"], .leaf (.icode [L "    a\n", L "\n", L "    b\n"])]]) = true := by
  refine ⟨?_, ?_⟩ <;> decide +kernel

/-! ### The delimiter row

  `drowOk` asks only for the shape; that the scanners accept every row of the shape is proved in `Proofs/ComposeTable.lean`
  (`delimiterRow_line`, `findAligns_line`, `mapRes_cores`).  Instances: -/

example : (DRow.mk true false [⟨3, true, 1, false, 0⟩, ⟨0, false, 4, true, 2⟩, ⟨0, true, 2, true, 0⟩]).line = L "|   :-|----:  |:--:\n" := by
  decide +kernel
example : delimiterRow (L "|   :-|----:  |:--:\n") = true ∧ findAligns (L "|   :-|----:  |:--:\n") = [L ":-", L "----:", L ":--:"] ∧
    (DRow.mk true false [⟨3, true, 1, false, 0⟩, ⟨0, false, 4, true, 2⟩, ⟨0, true, 2, true, 0⟩]).aligns = [none, some 1, some 0] := by
  decide +kernel

/-! ### Findings: where implementation (and model) leave the GFM / CommonMark documents

  Each input was run on /repo (`mistletoe.markdown`); the model returns the same string. -/

/-- **A body row with more cells than columns keeps its excess cells.**  GFM (tables extension): "The remainder of the
    table's rows may vary in the number of cells. … If there are greater, the excess is ignored".  `TableRow.__init__` pairs
    cells and alignments with `zip_longest`, so the extra cell is kept, with alignment `None`: two `<td>` in a one-column
    table.  The real code returns the same. -/
example : Config.renderHtml {} 100 (L "| a |\n|---|\n| 1 | 2 |\n") =
    some (L "<table>\n<thead>\n<tr>\n<th align=\"left\">a</th>\n</tr>\n</thead>\n<tbody>\n<tr>\n<td align=\"left\">1</td>\n<td align=\"left\">2</td>\n</tr>\n</tbody>\n</table>\n") := by
  decide +kernel

/-- **A header with more cells than the delimiter row still starts a table.**  GFM: "The header row must match the
    delimiter row in the number of cells.  If not, a table will not be recognized."  `Table.read` only tests the delimiter
    row.  (`Leaf.ok` asks for equal lengths, so the theorem does not speak about this input.) -/
example : Config.renderHtml {} 100 (L "| a | b |\n|---|\n") =
    some (L "<table>\n<thead>\n<tr>\n<th align=\"left\">a</th>\n<th align=\"left\">b</th>\n</tr>\n</thead>\n<tbody>\n</tbody>\n</table>\n") := by
  decide +kernel

/-- **A body row without a pipe ends the table.**  GFM example 201: "| abc | def |", "| --- | --- |", "| bar | baz |",
    "bar" - the line "bar" is a further row (the table is broken only at an empty line or at the beginning of another
    block).  `Table.read` collects lines only while they contain a `|`: the line becomes a paragraph.  (`rowOk` asks
    for a pipe in every row.) -/
example : Config.renderHtml {} 100 (L "| a |\n|---|\nbar\n") =
    some (L "<table>\n<thead>\n<tr>\n<th align=\"left\">a</th>\n</tr>\n</thead>\n<tbody>\n</tbody>\n</table>\n<p>bar</p>\n") := by
  decide +kernel

/-- **A line of four or more spaces between blank lines is a blank line** (repaired in /repo by 0b09465).  CommonMark: an
    indented code block is made of indented chunks separated by blank lines, a chunk being a sequence of NON-BLANK lines; a
    whitespace-only line is a blank line and is ignored here (`<p>a</p>`, `<p>b</p>`).  The pinned `BlockCode.start` only
    asked for four leading spaces, so the line opened a code block whose content is "\n" (`<pre><code>\n</code></pre>`
    between the two paragraphs: this example used to record that finding); it now asks for a visible character as well, and
    model and implementation return the two paragraphs. -/
example : Config.renderHtml {} 100 (L "a\n\n    \n\nb\n") = some (L "<p>a</p>\n<p>b</p>\n") := by
  decide +kernel

#print axioms C03_table_block_phase_partial
#print axioms C03_table_tokenize_partial
#print axioms C03_table_document_partial
#print axioms C03_table_render_partial
#print axioms C03_table_html_partial
#print axioms codeContent_eq

end Mistletoe.ComposeT
