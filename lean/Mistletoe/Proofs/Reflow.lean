/-
  C10 (reflow), prose fragment — the Markdown renderer WITH a line limit (`max_line_length = L`) on documents made
  of paragraphs of plain words.

  Fragment: paragraphs are lists of lines, lines are lists of `plainWord`s (non-empty, no whitespace, no
  inline-active character, first character unable to begin a block construct), written joined by single spaces +
  "\n", paragraphs separated by one empty line.  Such a document is in the normal form of C09 (`normalPara_of_plain`),
  so the C14 / C09 lemmas give its tree (`parse_plain`, `parse_plain_any`).  New here:

  * `makeWords_prose`   — `make_words` on the fragments of such a paragraph (word-wrappable `RawText` fragments, the
                          "\n" fragment of a soft `LineBreak`) yields all the words of the paragraph, in order;
  * `spanToLines_wrap`, `renderBlocks_wrap`, `reflow_render` (a) — the renderer's output is `Wrap.fill L words`
                          per paragraph;
  * `reflowFacts`, `reflow_same_words`, `reflow_text` (b) — the output is the text of a document of the same
                          fragment (`reflowG`) with the same word sequence per paragraph;
  * `reflow_meaning` (c) — HTML of output and original agree after "\n" ↦ " " (`nlToSp`), under every covered
                          token configuration (tree `proseBlocksB`, HTML in closed form `render_proseB`);
  * `reflowG_idem`, `fill_idem`, `reflow_idempotent` (d) — reflowing again changes nothing;
  * `reflow_bound` (e)  — a line longer than `L` is a single word without whitespace (from `C10_bound`).

  Final theorems: `C10_prose_reflow_partial` (a + b + e), `C10_prose_reflow_meaning_partial` (c),
  `C10_prose_reflow_idempotent_partial` (d); for the token lists of the working tree: `C10_prose_reflow_markdown`,
  `C10_prose_reflow_meaning_configs`, `C10_prose_reflow_html`.  Nothing in (a)–(e) turned out false on the model.
  Not covered: paragraphs inside containers (block quotes, list items: prefix and child budget), hard line breaks,
  inline markup, and words that could be mistaken for block markers (excluded by `plainWord`).
-/
import Mistletoe.Props.C09
import Mistletoe.Props.C10
namespace Mistletoe.Reflow
open Mistletoe Mistletoe.Py Mistletoe.Wrap Mistletoe.Markdown Mistletoe.InertInline Mistletoe.MdRound
open Mistletoe.Block (plainStart)
open Mistletoe.Props.C10 (joinWords fillG joinWords_snoc joinWords_ne_nil fillAux_eq_fillG fillG_flatten)
open Mistletoe.Props.C14 (inertLine joinBlank)
open Mistletoe.Props.C09 (normalPara docLines docText ParaFacts)

/-! ### the fragment -/

/-- a character of a plain word: not whitespace (`str.isspace`), and without inline meaning anywhere
    (`plainInline`: none of ``\ ` < & ~ [ * _`` and newline) -/
def wordChar (c : Char) : Bool := !pyIsSpace c && plainInline c

/-- **plain word** (decidable): non-empty; the first character can begin no block construct
    (`plainStart`: not a digit and none of ``# > ` ~ - _ * + = < [ | :``, e.g. any letter); every character is
    a `wordChar`. -/
def plainWord : Str → Bool
  | [] => false
  | c :: r => plainStart c && (c :: r).all wordChar

/-- the words of one line: at least one, all plain -/
def plainWords (ws : List Str) : Bool := !ws.isEmpty && ws.all plainWord

/-- a paragraph given as lines of words: at least one line, every line `plainWords` -/
def plainPara (g : List (List Str)) : Bool := !g.isEmpty && g.all plainWords

/-- the source line of the words `ws`: joined by single spaces, then "\n" -/
def lineOf (ws : List Str) : Str := joinWords ws ++ ['\n']

/-- the source lines of a paragraph -/
def paraLines (g : List (List Str)) : List Str := g.map lineOf

structure WordFacts (w : Str) : Prop where
  ne : w ≠ []
  start : ∀ c r, w = c :: r → plainStart c = true
  chars : ∀ c ∈ w, wordChar c = true

theorem plainWord_facts (w : Str) (h : plainWord w = true) : WordFacts w := by
  cases w with
  | nil => cases h
  | cons c r =>
    simp only [plainWord, Bool.and_eq_true, List.all_eq_true] at h
    refine ⟨by simp, ?_, h.2⟩
    intro c' r' e
    simp only [List.cons.injEq] at e
    rw [← e.1]; exact h.1

theorem plainWords_facts (ws : List Str) (h : plainWords ws = true) : ws ≠ [] ∧ ∀ w ∈ ws, WordFacts w := by
  simp only [plainWords, Bool.and_eq_true, Bool.not_eq_eq_eq_not, Bool.not_true, List.all_eq_true] at h
  exact ⟨(by intro e; rw [e] at h; cases h.1), fun w hw => plainWord_facts w (h.2 w hw)⟩

theorem plainPara_facts (g : List (List Str)) (h : plainPara g = true) : g ≠ [] ∧ ∀ ws ∈ g, plainWords ws = true := by
  simp only [plainPara, Bool.and_eq_true, Bool.not_eq_eq_eq_not, Bool.not_true, List.all_eq_true] at h
  exact ⟨(by intro e; rw [e] at h; cases h.1), h.2⟩

theorem wordChar_nsp (c : Char) (h : wordChar c = true) : pyIsSpace c = false := by
  simp only [wordChar, Bool.and_eq_true, Bool.not_eq_eq_eq_not, Bool.not_true] at h
  exact h.1

theorem wordChar_plain (c : Char) (h : wordChar c = true) : plainInline c = true := by
  simp only [wordChar, Bool.and_eq_true] at h
  exact h.2

/-! ### `re.split(r"\s+", line)` gives back the words -/

theorem splitWsAux_word (s : Str) : ∀ (w : Str) (c : Char) (cur : Str) (b : Bool),
    (∀ x ∈ c :: w, pyIsSpace x = false) →
    Wrap.splitWsAux (c :: w ++ s) cur b = Wrap.splitWsAux s ((c :: w).reverse ++ cur) false
  | [], c, cur, b, h => by
    simp [Wrap.splitWsAux, h c (by simp)]
  | d :: w, c, cur, b, h => by
    have ih := splitWsAux_word s w d (c :: cur) false (fun x hx => h x (List.mem_cons_of_mem _ hx))
    simp only [List.cons_append, Wrap.splitWsAux, h c (by simp), Bool.false_eq_true, if_false] at ih ⊢
    rw [ih]
    simp

theorem splitWsAux_nil_word (w : Str) (hne : w ≠ []) (h : ∀ x ∈ w, pyIsSpace x = false) (b : Bool) :
    Wrap.splitWsAux w [] b = [w] := by
  cases w with
  | nil => exact absurd rfl hne
  | cons c r =>
    have := splitWsAux_word [] r c [] b h
    simp only [List.append_nil] at this
    rw [this]
    simp [Wrap.splitWsAux]

theorem splitWs_joinWords : ∀ (ws : List Str) (b : Bool), ws ≠ [] → (∀ w ∈ ws, w ≠ [] ∧ ∀ x ∈ w, pyIsSpace x = false) →
    Wrap.splitWsAux (joinWords ws) [] b = ws
  | [], _, h, _ => absurd rfl h
  | [w], b, _, h => by
    simp only [joinWords]
    exact splitWsAux_nil_word w (h w (by simp)).1 (h w (by simp)).2 b
  | w :: y :: ys, b, _, h => by
    have ih := splitWs_joinWords (y :: ys) true (by simp) (fun x hx => h x (List.mem_cons_of_mem _ hx))
    obtain ⟨hne, hw⟩ := h w (by simp)
    cases w with
    | nil => exact absurd rfl hne
    | cons c r =>
      simp only [joinWords]
      have e : (c :: r) ++ [' '] ++ joinWords (y :: ys) = c :: r ++ (' ' :: joinWords (y :: ys)) := by simp
      rw [e, splitWsAux_word _ r c [] b hw]
      have hs : pyIsSpace ' ' = true := by decide
      simp only [Wrap.splitWsAux, hs, if_true, Bool.false_eq_true, if_false, ih]
      simp

/-! ### `make_words` on the fragments of a prose paragraph -/

theorem feedItems_false : ∀ (items : List Str) (word : Str), word ≠ [] → (∀ x ∈ items, x ≠ []) →
    (feedItems items false word).1 ++ [(feedItems items false word).2] = word :: items
  | [], word, _, _ => by simp [feedItems]
  | it :: rest, word, hw, h => by
    have ih := feedItems_false rest it (h it (by simp)) (fun x hx => h x (List.mem_cons_of_mem _ hx))
    have e : word.isEmpty = false := by cases word with | nil => exact absurd rfl hw | cons _ _ => rfl
    simp only [feedItems, Bool.false_eq_true, if_false, e]
    simp only [List.cons_append, List.nil_append, ih]

theorem splitWs_nl : Wrap.splitWs ['\n'] = [[], []] := by decide

/-- one line as a word-wrappable fragment, no pending word: all its words but the last are yielded, the last
    one is pending -/
theorem makeWordsAux_line (ws : List Str) (hne : ws ≠ []) (hw : ∀ w ∈ ws, w ≠ [] ∧ ∀ x ∈ w, pyIsSpace x = false) :
    ∃ ys w, ys ++ [w] = ws ∧ w ≠ [] ∧
      ∀ rest, makeWordsAux (fragW (joinWords ws) :: rest) [] = ys ++ makeWordsAux rest w := by
  have hsplit : Wrap.splitWs (joinWords ws) = ws := splitWs_joinWords ws false hne hw
  cases ws with
  | nil => exact absurd rfl hne
  | cons w1 ws' =>
    have hf := feedItems_false ws' w1 (hw w1 (by simp)).1 (fun x hx => (hw x (List.mem_cons_of_mem _ hx)).1)
    refine ⟨(feedItems ws' false w1).1, (feedItems ws' false w1).2, hf, ?_, ?_⟩
    · have hm : (feedItems ws' false w1).2 ∈ w1 :: ws' := by rw [← hf]; simp
      exact (hw _ hm).1
    · intro rest
      simp only [makeWordsAux, fragW, if_true, hsplit, feedItems, List.nil_append]

/-- the fragment "\n" of a soft line break: the pending word is yielded, as at a space -/
theorem makeWordsAux_soft (w : Str) (hw : w ≠ []) (rest : List Fragment) :
    makeWordsAux ({ text := ['\n'], wordwrap := true, hardLineBreak := false } :: rest) w = w :: makeWordsAux rest [] := by
  have e : w.isEmpty = false := by cases w with | nil => exact absurd rfl hw | cons _ _ => rfl
  simp only [makeWordsAux, if_true, splitWs_nl, feedItems, List.append_nil, e, Bool.false_eq_true, if_false]
  simp

/-- the words `make_words` yields for the fragments of a paragraph of inert lines that are words joined by
    single spaces: all the words, in order (a soft line break separates words like a space) -/
theorem makeWords_prose : ∀ (g : List (List Str)),
    (∀ ws ∈ g, ws ≠ [] ∧ ∀ w ∈ ws, w ≠ [] ∧ ∀ x ∈ w, pyIsSpace x = false) →
    makeWordsAux (proseFrags (g.map joinWords)) [] = g.flatten
  | [], _ => by simp [proseFrags, makeWordsAux]
  | [ws], h => by
    obtain ⟨ys, w, e, hw, hm⟩ := makeWordsAux_line ws (h ws (by simp)).1 (h ws (by simp)).2
    have e2 : w.isEmpty = false := by cases w with | nil => exact absurd rfl hw | cons _ _ => rfl
    simp only [List.map_cons, List.map_nil, proseFrags, hm, makeWordsAux, e2, Bool.false_eq_true, if_false, e,
      List.flatten_cons, List.flatten_nil, List.append_nil]
  | ws :: ws2 :: g', h => by
    have ih := makeWords_prose (ws2 :: g') (fun x hx => h x (List.mem_cons_of_mem _ hx))
    obtain ⟨ys, w, e, hw, hm⟩ := makeWordsAux_line ws (h ws (by simp)).1 (h ws (by simp)).2
    rw [List.map_cons, List.map_cons, proseFrags_cons2, ← List.map_cons, hm, makeWordsAux_soft w hw, ih, List.flatten_cons, ← e]
    simp

/-! ### a line of plain words is a normal-form prose line -/

theorem joinWords_mem : ∀ (ws : List Str) (x : Char), x ∈ joinWords ws → x = ' ' ∨ ∃ w ∈ ws, x ∈ w
  | [], x, h => by simp [joinWords] at h
  | [w], x, h => by simp only [joinWords] at h; exact Or.inr ⟨w, by simp, h⟩
  | w :: y :: ys, x, h => by
    simp only [joinWords, List.mem_append, List.mem_singleton] at h
    rcases h with (h | h) | h
    · exact Or.inr ⟨w, by simp, h⟩
    · exact Or.inl h
    · rcases joinWords_mem (y :: ys) x h with h | ⟨w', hw', hx⟩
      · exact Or.inl h
      · exact Or.inr ⟨w', List.mem_cons_of_mem _ hw', hx⟩

theorem joinWords_head (w : Str) (ws : List Str) (c : Char) (r : Str) (hw : w = c :: r) :
    ∃ r', joinWords (w :: ws) = c :: r' := by
  subst hw
  cases ws with
  | nil => exact ⟨r, rfl⟩
  | cons y ys => exact ⟨r ++ [' '] ++ joinWords (y :: ys), by simp [joinWords]⟩

theorem joinWords_last : ∀ (ws : List Str), ws ≠ [] → (∀ w ∈ ws, w ≠ []) →
    ∃ w ∈ ws, (joinWords ws).getLast? = w.getLast?
  | [], h, _ => absurd rfl h
  | [w], _, _ => ⟨w, by simp, rfl⟩
  | w :: y :: ys, _, h => by
    obtain ⟨w', hw', e⟩ := joinWords_last (y :: ys) (by simp) (fun x hx => h x (List.mem_cons_of_mem _ hx))
    refine ⟨w', List.mem_cons_of_mem _ hw', ?_⟩
    have hne := joinWords_ne_nil (y :: ys) (by simp) (fun x hx => h x (List.mem_cons_of_mem _ hx))
    simp only [joinWords]
    rw [List.getLast?_append, ← e]
    cases hl : (joinWords (y :: ys)).getLast? with
    | none => exact absurd (List.getLast?_eq_none_iff.mp hl) hne
    | some d => rfl

theorem lineSep_space (c : Char) (h : isLineSep c = true) : pyIsSpace c = true := by
  simp only [isLineSep, pyIsSpace, inRanges, Gen.Python.lineSeparators, Gen.Python.isspace, List.any_cons, List.any_nil,
    Bool.or_false, Bool.or_eq_true, Bool.and_eq_true, decide_eq_true_eq] at h ⊢
  omega

/-- what a line of plain words satisfies (everything `normalPara` asks of a line) -/
structure LineFacts (ws : List Str) : Prop where
  inert : inertLine (lineOf ws) = true
  prose : proseLine (lineOf ws) = true
  flush : lstrip (lineOf ws) = lineOf ws
  one : oneLine (lineOf ws) = true
  strip : strip (lineOf ws) = joinWords ws
  chars : ∀ x ∈ joinWords ws, plainInline x = true

theorem lineFacts (ws : List Str) (h : plainWords ws = true) : LineFacts ws := by
  obtain ⟨hne, hw⟩ := plainWords_facts ws h
  have hchars : ∀ x ∈ joinWords ws, x = ' ' ∨ wordChar x = true := by
    intro x hx
    rcases joinWords_mem ws x hx with h | ⟨w, hw', hxw⟩
    · exact Or.inl h
    · exact Or.inr ((hw w hw').chars x hxw)
  have hplain : ∀ x ∈ joinWords ws, plainInline x = true := by
    intro x hx
    rcases hchars x hx with rfl | h
    · decide
    · exact wordChar_plain x h
  have hnl : '\n' ∉ joinWords ws := by
    intro hm
    have := hplain _ hm
    revert this; decide
  have hnosep : ∀ x ∈ joinWords ws, isLineSep x = false := by
    intro x hx
    rcases hchars x hx with rfl | h
    · decide
    · cases hs : isLineSep x with
      | false => rfl
      | true =>
        have h1 := lineSep_space x hs
        rw [wordChar_nsp x h] at h1
        cases h1
  cases ws with
  | nil => exact absurd rfl hne
  | cons w ws' =>
    have fw := hw w (by simp)
    cases hwc : w with
    | nil => exact absurd hwc fw.ne
    | cons c r =>
      obtain ⟨r', hj⟩ := joinWords_head w ws' c r hwc
      have hc : plainStart c = true := fw.start c r hwc
      have hcs : pyIsSpace c = false := wordChar_nsp c (fw.chars c (by rw [hwc]; simp))
      have hlast : ∀ d, (joinWords (w :: ws')).getLast? = some d → pyIsSpace d = false := by
        intro d hd
        obtain ⟨w', hw', e⟩ := joinWords_last (w :: ws') (by simp) (fun x hx => (hw x hx).ne)
        rw [e] at hd
        exact wordChar_nsp d ((hw w' hw').chars d (List.mem_of_getLast? hd))
      have hflush : lstrip (lineOf (w :: ws')) = lineOf (w :: ws') := by
        simp only [lineOf, hj, List.cons_append]
        exact lstrip_of_head c _ hcs
      have hstrip : strip (lineOf (w :: ws')) = joinWords (w :: ws') := by
        have e : strip (lineOf (w :: ws')) = rstrip (lstrip (lineOf (w :: ws'))) := rfl
        rw [e, hflush]
        have e2 : rstrip (lineOf (w :: ws')) = rstrip (joinWords (w :: ws')) := by
          simp only [rstrip, lineOf, List.reverse_append, List.reverse_cons, List.reverse_nil, List.nil_append,
            List.singleton_append, lstrip, show pyIsSpace '\n' = true by decide, if_true]
        rw [e2, rstrip_of_last _ hlast]
      subst hwc
      refine ⟨?_, ?_, hflush, ?_, hstrip, hplain⟩
      · have := Mistletoe.Props.C14.C14_inert_of_plainStart 0 c (r' ++ ['\n']) (by omega) hc
        simpa [lineOf, hj] using this
      · simp only [proseLine, hflush, hstrip, Bool.and_eq_true, beq_iff_eq, Bool.not_eq_eq_eq_not, Bool.not_true]
        exact ⟨rfl, by simpa using hnl⟩
      · simp only [oneLine, lineOf, Bool.and_eq_true, beq_iff_eq, List.all_eq_true, Bool.not_eq_eq_eq_not, Bool.not_true]
        refine ⟨by simp, ?_⟩
        intro x hx
        rw [List.dropLast_concat] at hx
        exact hnosep x hx

/-! ### a paragraph of plain words is a normal-form prose paragraph (the C09 / C14 fragment) -/

theorem joinNl_mem : ∀ (ts : List Str) (x : Char), x ∈ Document.joinNl ts → x = '\n' ∨ ∃ t ∈ ts, x ∈ t
  | [], x, h => by simp [Document.joinNl] at h
  | [t], x, h => by simp only [Document.joinNl] at h; exact Or.inr ⟨t, by simp, h⟩
  | t :: y :: ys, x, h => by
    simp only [Document.joinNl, List.mem_append, List.mem_singleton] at h
    rcases h with (h | h) | h
    · exact Or.inr ⟨t, by simp, h⟩
    · exact Or.inl h
    · rcases joinNl_mem (y :: ys) x h with h | ⟨t', ht', hx⟩
      · exact Or.inl h
      · exact Or.inr ⟨t', List.mem_cons_of_mem _ ht', hx⟩

/-- text made of characters without inline meaning and newlines is inline-inert -/
theorem inertBody_of_plain (s : Str) (h : ∀ c ∈ s, c = '\n' ∨ plainInline c = true) : inertBody s = true := by
  have hp : ∀ c ∈ s, c ≠ '\\' ∧ c ≠ '`' ∧ c ≠ '<' ∧ c ≠ '&' ∧ c ≠ '~' ∧ c ≠ '[' ∧ c ≠ '*' ∧ c ≠ '_' := by
    intro c hc
    rcases h c hc with rfl | h
    · decide
    · obtain ⟨h1, h2, h3, h4, h5, h6, h7, h8, _⟩ := plainInline_of c h
      exact ⟨h1, h2, h3, h4, h5, h6, h7, h8⟩
  have hall : s.all okChar = true := by
    rw [List.all_eq_true]; intro c hc
    obtain ⟨h1, h2, _⟩ := hp c hc
    simp [okChar, h1, h2]
  simp [inertBody, hall, ltOk_plain s (fun c hc => (hp c hc).2.2.1),
    ampOk_plain s (fun c hc => (hp c hc).2.2.2.1), tildeOk_plain s (fun c hc => (hp c hc).2.2.2.2.1),
    bracketsOk_plain s (fun c hc => (hp c hc).2.2.2.2.2.1),
    emphOk_plain s ' ' (fun c hc => ⟨(hp c hc).2.2.2.2.2.2.1, (hp c hc).2.2.2.2.2.2.2⟩)]

theorem paraLines_strip (g : List (List Str)) (h : ∀ ws ∈ g, plainWords ws = true) :
    (paraLines g).map strip = g.map joinWords := by
  rw [paraLines, List.map_map]
  exact List.map_congr_left (fun ws hws => (lineFacts ws (h ws hws)).strip)

/-- **a paragraph of plain words is in the normal form of C09** (`normalPara`: block-inert lines, text + "\n"
    without whitespace at either end, one line each, inline-inert when joined) -/
theorem normalPara_of_plain (g : List (List Str)) (h : plainPara g = true) : normalPara (paraLines g) = true := by
  obtain ⟨hne, hg⟩ := plainPara_facts g h
  have hbody : inertBody (Document.joinNl ((paraLines g).map strip)) = true := by
    rw [paraLines_strip g hg]
    apply inertBody_of_plain
    intro c hc
    rcases joinNl_mem _ c hc with h | ⟨t, ht, hx⟩
    · exact Or.inl h
    · obtain ⟨ws, hws, rfl⟩ := List.mem_map.mp ht
      exact Or.inr ((lineFacts ws (hg ws hws)).chars c hx)
  simp only [normalPara, Bool.and_eq_true, Bool.not_eq_eq_eq_not, Bool.not_true, List.all_eq_true, beq_iff_eq, hbody, and_true]
  constructor
  · cases g with
    | nil => exact absurd rfl hne
    | cons _ _ => rfl
  · intro l hl
    obtain ⟨ws, hws, rfl⟩ := List.mem_map.mp hl
    have f := lineFacts ws (hg ws hws)
    exact ⟨⟨⟨f.inert, f.prose⟩, f.flush⟩, f.one⟩

/-! ### the renderer with a line limit on the tree of such a document -/

theorem words_ok (g : List (List Str)) (hg : ∀ ws ∈ g, plainWords ws = true) :
    ∀ ws ∈ g, ws ≠ [] ∧ ∀ w ∈ ws, w ≠ [] ∧ ∀ x ∈ w, pyIsSpace x = false := by
  intro ws hws
  obtain ⟨hne, hw⟩ := plainWords_facts ws (hg ws hws)
  exact ⟨hne, fun w hw' => ⟨(hw w hw').ne, fun x hx => wordChar_nsp x ((hw w hw').chars x hx)⟩⟩

/-- **`span_to_lines` in word-wrap mode on a paragraph of plain words**: the fill loop over all the words of
    the paragraph, in order (`n` is `max_line_length`, truthy; a negative limit behaves like 0) -/
theorem spanToLines_wrap (g : List (List Str)) (hg : ∀ ws ∈ g, plainWords ws = true) (n : Int) (hn : n ≠ 0) :
    spanToLines (proseInlines (g.map joinWords)) (some n) = .ok (fill n.toNat g.flatten) := by
  unfold spanToLines
  rw [renderInlines_prose]
  simp only [fragmentsToLines, hn, if_false, makeWords, makeWords_prose g (words_ok g hg)]

/-- the lines the renderer writes with limit `L`: every paragraph refilled, one empty line between paragraphs -/
def wrapOut (L : Nat) : List (List Str) → List (List (List Str)) → List Str
  | p, [] => fill L p.flatten
  | p, q :: rest => fill L p.flatten ++ [] :: wrapOut L q rest

theorem renderBlocks_wrap (o : Opts) (n : Int) (hn : n ≠ 0) : ∀ (rest : List (List (List Str))) (p : List (List Str)) (k : Nat),
    (∀ ws ∈ p, plainWords ws = true) → (∀ q ∈ rest, ∀ ws ∈ q, plainWords ws = true) →
    renderBlocks o (some n) (proseBlocks k (paraLines p) (rest.map paraLines)) = .ok (wrapOut n.toNat p rest)
  | [], p, k, hp, _ => by
    simp only [List.map_nil, proseBlocks, wrapOut, renderBlocks, renderBlock, paraLines_strip p hp, spanToLines_wrap p hp n hn]
    simp
  | q :: rest, p, k, hp, hr => by
    have ih := renderBlocks_wrap o n hn rest q (k + (paraLines p).length + 1) (hr q (by simp))
      (fun x hx => hr x (List.mem_cons_of_mem _ hx))
    simp only [List.map_cons, proseBlocks, wrapOut, renderBlocks, renderBlock, paraLines_strip p hp,
      spanToLines_wrap p hp n hn, ih]
    simp

/-- the re-broken lines of one paragraph, each with its "\n" -/
def reflowLines (L : Nat) (g : List (List Str)) : List Str := (fill L g.flatten).map (· ++ ['\n'])

theorem joinLines_wrapOut (L : Nat) : ∀ (rest : List (List (List Str))) (p : List (List Str)),
    joinLines (wrapOut L p rest) = docText (reflowLines L p) (rest.map (reflowLines L))
  | [], p => by simp [wrapOut, joinLines_eq, docText, joinBlank, reflowLines]
  | q :: rest, p => by
    have ih := joinLines_wrapOut L rest q
    simp only [wrapOut, joinLines_append, joinLines, ih]
    simp [docText, joinBlank, joinLines_eq, reflowLines]

/-! ### the fill loop as a regrouping of the words -/

/-- the paragraph after refilling, as lines of words -/
def reflowG (L : Nat) (g : List (List Str)) : List (List Str) := fillG L g.flatten []

theorem plainWord_ne_brk (w : Str) (h : plainWord w = true) : w ≠ brk := by
  intro e; rw [e] at h; revert h; decide

theorem fillG_groups_ne (L : Nat) : ∀ (ws cur : List Str), (∀ w ∈ ws, w ≠ brk) → ∀ grp ∈ fillG L ws cur, grp ≠ []
  | [], cur, _, grp, hg => by
    simp only [fillG] at hg
    split at hg
    · simp at hg
    · rename_i hc
      simp only [List.mem_singleton] at hg
      subst hg
      intro e
      have : cur = [] := by simpa using e
      rw [this] at hc; exact hc rfl
  | w :: rest, cur, h, grp, hg => by
    have hr : ∀ x ∈ rest, x ≠ brk := fun x hx => h x (List.mem_cons_of_mem _ hx)
    simp only [fillG, h w (by simp), if_false] at hg
    split at hg
    · exact fillG_groups_ne L rest [w] hr grp hg
    · rename_i hc
      split at hg
      · exact fillG_groups_ne L rest (w :: cur) hr grp hg
      · rcases List.mem_cons.mp hg with rfl | hg
        · intro e
          have : cur = [] := by simpa using e
          rw [this] at hc; exact hc rfl
        · exact fillG_groups_ne L rest [w] hr grp hg

structure ReflowFacts (L : Nat) (g : List (List Str)) : Prop where
  /-- the output lines are the groups joined by single spaces -/
  lines : fill L g.flatten = (reflowG L g).map joinWords
  /-- nothing dropped, added or reordered -/
  words : (reflowG L g).flatten = g.flatten
  /-- the output is again a paragraph of plain words -/
  plain : plainPara (reflowG L g) = true

theorem reflowFacts (L : Nat) (g : List (List Str)) (h : plainPara g = true) : ReflowFacts L g := by
  obtain ⟨hne, hg⟩ := plainPara_facts g h
  have hpw : ∀ w ∈ g.flatten, plainWord w = true := by
    intro w hw
    obtain ⟨ws, hws, hww⟩ := List.mem_flatten.mp hw
    have := hg ws hws
    simp only [plainWords, Bool.and_eq_true, List.all_eq_true] at this
    exact this.2 w hww
  have hnb : ∀ w ∈ g.flatten, w ≠ brk := fun w hw => plainWord_ne_brk w (hpw w hw)
  have hflat : (reflowG L g).flatten = g.flatten := by
    have := fillG_flatten L g.flatten []
    simp only [List.reverse_nil, List.nil_append] at this
    rw [reflowG, this, List.filter_eq_self]
    intro w hw
    simpa using hnb w hw
  refine ⟨?_, hflat, ?_⟩
  · have := fillAux_eq_fillG L g.flatten [] (fun w hw => (plainWord_facts w (hpw w hw)).ne) (by simp)
    simpa [fill, joinWords, reflowG] using this
  · simp only [plainPara, plainWords, Bool.and_eq_true, Bool.not_eq_eq_eq_not, Bool.not_true, List.all_eq_true]
    constructor
    · cases hr : reflowG L g with
      | nil =>
        exfalso
        rw [hr] at hflat
        cases g with
        | nil => exact hne rfl
        | cons ws g' =>
          obtain ⟨hwne, _⟩ := plainWords_facts ws (hg ws (by simp))
          cases ws with
          | nil => exact hwne rfl
          | cons w ws' => simp at hflat
      | cons _ _ => rfl
    · intro grp hgrp
      constructor
      · have := fillG_groups_ne L g.flatten [] hnb grp hgrp
        cases grp with
        | nil => exact absurd rfl this
        | cons _ _ => rfl
      · intro w hw
        exact hpw w (by rw [← hflat]; exact List.mem_flatten.mpr ⟨grp, hgrp, hw⟩)

theorem reflowLines_eq (L : Nat) (g : List (List Str)) (h : plainPara g = true) :
    reflowLines L g = paraLines (reflowG L g) := by
  rw [reflowLines, (reflowFacts L g h).lines, paraLines, List.map_map]
  rfl

/-- **greedy fill is idempotent on its own output**: refilling the words of the refilled lines gives the same lines
    (the word sequence is the same, and the fill loop is a function of the word sequence) -/
theorem reflowG_idem (L : Nat) (g : List (List Str)) (h : plainPara g = true) :
    reflowG L (reflowG L g) = reflowG L g := by
  rw [reflowG, (reflowFacts L g h).words]
  rfl

theorem fill_idem (L : Nat) (ws : List Str) (h : ∀ w ∈ ws, plainWord w = true) :
    ∃ groups : List (List Str), fill L ws = groups.map joinWords ∧ fill L groups.flatten = fill L ws := by
  refine ⟨fillG L ws [], ?_, ?_⟩
  · have := fillAux_eq_fillG L ws [] (fun w hw => (plainWord_facts w (h w hw)).ne) (by simp)
    simpa [fill, joinWords] using this
  · have := fillG_flatten L ws []
    simp only [List.reverse_nil, List.nil_append] at this
    rw [this, List.filter_eq_self.mpr]
    intro w hw
    simpa using plainWord_ne_brk w (h w hw)

/-! ### (a) parse, then render with a line limit -/

/-- the text of a document: paragraphs `p, q₁, q₂, …` (lines of words), one empty line between consecutive ones -/
abbrev textOf (p : List (List Str)) (rest : List (List (List Str))) : Str := docText (paraLines p) (rest.map paraLines)

theorem oneLine_textOf (p : List (List Str)) (rest : List (List (List Str))) (hp : plainPara p = true)
    (hrest : ∀ q ∈ rest, plainPara q = true) : ∀ l ∈ joinBlank (paraLines p) (rest.map paraLines), oneLine l = true := by
  apply Mistletoe.Props.C09.oneLine_joinBlank
  · exact (Mistletoe.Props.C09.normalPara_facts _ (normalPara_of_plain p hp)).one
  · intro q hq
    obtain ⟨q', hq', rfl⟩ := List.mem_map.mp hq
    exact (Mistletoe.Props.C09.normalPara_facts _ (normalPara_of_plain q' (hrest q' hq'))).one

/-- **`Document(text)` on a document of plain-word paragraphs** (token lists with `Paragraph` and `BlankLine`,
    covered span classes with `LineBreak` once — the Markdown renderer's lists): `Paragraph`s holding the lines as
    `RawText`s with soft `LineBreak`s, `BlankLine`s between them; no link definitions -/
theorem parse_plain (cfg : Document.Cfg) (hpar : .paragraph ∈ cfg.block.types) (hbl : .blankLine ∈ cfg.block.types)
    (ht : ∀ t ∈ cfg.span, inertClass t = true) (hc : cfg.span.count .lineBreak = 1)
    (p : List (List Str)) (rest : List (List (List Str))) (hp : plainPara p = true) (hrest : ∀ q ∈ rest, plainPara q = true)
    (gas : Nat) :
    Document.parse cfg (gas + (2 * rest.length + cfg.block.types.length + 4)) (textOf p rest) =
      .ok { kids := proseBlocks 1 (paraLines p) (rest.map paraLines), footnotes := Document.footnotesOf [] } := by
  have np := normalPara_of_plain p hp
  have fp := Mistletoe.Props.C09.normalPara_facts _ np
  have fr : ∀ q ∈ rest.map paraLines, ParaFacts q := by
    intro q hq
    obtain ⟨q', hq', rfl⟩ := List.mem_map.mp hq
    exact Mistletoe.Props.C09.normalPara_facts _ (normalPara_of_plain q' (hrest q' hq'))
  have hb : cfg.block.types.contains .blankLine = true := by simpa using hbl
  have hphase := Mistletoe.Props.C14.C14_blank_separated_phase cfg.block hpar (paraLines p) (rest.map paraLines)
    ⟨fp.ne, fp.inert⟩ (fun q hq => ⟨(fr q hq).ne, (fr q hq).inert⟩) gas
  rw [hb, List.length_map] at hphase
  have hmk := mkBlocks_paraEntries cfg (Document.footnotesOf []) ht hc (rest.map paraLines) (paraLines p) 1 fp.para
    (fun q hq => (fr q hq).para)
  rw [show textOf p rest = (joinBlank (paraLines p) (rest.map paraLines)).flatten from rfl,
    parse_lines cfg _ _ (oneLine_textOf p rest hp hrest)]
  unfold Document.parseLines
  rw [hphase]
  simp only
  rw [hmk]

/-- **(a) the renderer with a line limit refills every paragraph.**  `n` = `max_line_length` (truthy: `n ≠ 0`);
    the output is, paragraph by paragraph, the lines the fill loop `Wrap.fill n` makes of ALL the words of the
    paragraph in order (each + "\n"), with one empty line between paragraphs. -/
theorem reflow_render (cfg : Document.Cfg) (hpar : .paragraph ∈ cfg.block.types) (hbl : .blankLine ∈ cfg.block.types)
    (ht : ∀ t ∈ cfg.span, inertClass t = true) (hc : cfg.span.count .lineBreak = 1)
    (p : List (List Str)) (rest : List (List (List Str))) (hp : plainPara p = true) (hrest : ∀ q ∈ rest, plainPara q = true)
    (o : Opts) (n : Int) (hn : n ≠ 0) (ho : o.maxLineLength = some n) (gas : Nat) :
    ∃ d, Document.parse cfg (gas + (2 * rest.length + cfg.block.types.length + 4)) (textOf p rest) = .ok d ∧
      renderRes o d = .ok (docText (reflowLines n.toNat p) (rest.map (reflowLines n.toNat))) := by
  refine ⟨_, parse_plain cfg hpar hbl ht hc p rest hp hrest gas, ?_⟩
  simp only [renderRes, ho]
  rw [renderBlocks_wrap o n hn rest p 1 (plainPara_facts p hp).2 (fun q hq => (plainPara_facts q (hrest q hq)).2)]
  simp only [joinLines_wrapOut]

/-- the output text is the text of the regrouped document -/
theorem reflow_text (L : Nat) (p : List (List Str)) (rest : List (List (List Str))) (hp : plainPara p = true)
    (hrest : ∀ q ∈ rest, plainPara q = true) :
    docText (reflowLines L p) (rest.map (reflowLines L)) = textOf (reflowG L p) (rest.map (reflowG L)) := by
  have e : rest.map (reflowLines L) = (rest.map (reflowG L)).map paraLines := by
    rw [List.map_map]
    exact List.map_congr_left (fun q hq => reflowLines_eq L q (hrest q hq))
  rw [textOf, reflowLines_eq L p hp, e]

/-- **(b) same words**: the refilled paragraph is again a paragraph of plain words (every line a non-empty sequence
    of plain words joined by single spaces), its lines are the lines of the fill loop, and the concatenation of the
    lines' words is the original word sequence.  (`Props.C10.C10_words` gives the grouping for arbitrary word lists;
    here the groups are moreover non-empty, `fillG_groups_ne`, because there is no hard break.) -/
theorem reflow_same_words (L : Nat) (g : List (List Str)) (h : plainPara g = true) :
    plainPara (reflowG L g) = true ∧ (reflowG L g).flatten = g.flatten ∧
      fill L g.flatten = (reflowG L g).map joinWords ∧ reflowLines L g = paraLines (reflowG L g) :=
  ⟨(reflowFacts L g h).plain, (reflowFacts L g h).words, (reflowFacts L g h).lines, reflowLines_eq L g h⟩

/-! ### (c) meaning: the HTML up to the position of the soft line breaks

  Formulation.  `nlToSp` replaces every "\n" of a string by a space.  For the documents of the fragment the HTML is
  `<p>`text`</p>` per paragraph with "\n" (or "\n\n", when `BlankLine` is a token type) between paragraphs, and the
  only "\n" inside `<p>…</p>` are the soft line breaks.  `reflow_meaning` says that the HTML of the re-broken text and
  the HTML of the original text are equal after `nlToSp` — hence equal after any whitespace normalisation that does
  not distinguish "\n" from a space (e.g. collapsing whitespace runs) — and gives the common value in closed form:
  per paragraph, `<p>` + all the words joined by single spaces, HTML-escaped + `</p>`. -/

/-- every "\n" replaced by a space -/
def nlToSp (s : Str) : Str := s.map (fun c => if c = '\n' then ' ' else c)

theorem nlToSp_append (a b : Str) : nlToSp (a ++ b) = nlToSp a ++ nlToSp b := by simp [nlToSp]

theorem nlToSp_id (s : Str) (h : '\n' ∉ s) : nlToSp s = s := by
  induction s with
  | nil => rfl
  | cons c r ih =>
    have hc : c ≠ '\n' := fun e => h (by simp [e])
    simp only [nlToSp, List.map_cons, hc, if_false] at ih ⊢
    rw [ih (fun hm => h (List.mem_cons_of_mem _ hm))]

theorem nlToSp_nonl (s : Str) : '\n' ∉ nlToSp s := by
  intro h
  simp only [nlToSp, List.mem_map] at h
  obtain ⟨c, _, hc⟩ := h
  split at hc
  · cases hc
  · rename_i hne; exact hne hc

theorem nlToSp_idem (s : Str) : nlToSp (nlToSp s) = nlToSp s := nlToSp_id _ (nlToSp_nonl s)

/-- what the commutation needs of an escape table: 128 entries; "\n" and " " are mapped to themselves; no other
    entry contains a "\n" -/
def tableOk (tbl : List Str) : Prop :=
  tbl.length = 128 ∧ (∀ i, i < 128 → i ≠ 10 → '\n' ∉ tbl.getD i []) ∧ tbl.getD 10 [] = ['\n'] ∧ tbl.getD 32 [] = [' ']

theorem getD_indep (tbl : List Str) (i : Nat) (h : i < tbl.length) (d d' : Str) : tbl.getD i d = tbl.getD i d' := by
  simp [List.getD_eq_getElem?_getD, List.getElem?_eq_getElem h]

theorem nlToSp_mapChars (tbl : List Str) (ht : tableOk tbl) (s : Str) :
    nlToSp (Escape.mapChars tbl Escape.ident s) = Escape.mapChars tbl Escape.ident (nlToSp s) := by
  obtain ⟨hlen, hno, h10, h32⟩ := ht
  induction s with
  | nil => rfl
  | cons c r ih =>
    have e1 : Escape.mapChars tbl Escape.ident (c :: r) =
        (if c.toNat < 128 then tbl.getD c.toNat [c] else Escape.ident c) ++ Escape.mapChars tbl Escape.ident r := by
      simp [Escape.mapChars]
    have e2 : nlToSp (c :: r) = (if c = '\n' then ' ' else c) :: nlToSp r := by simp [nlToSp]
    have e3 : ∀ d, Escape.mapChars tbl Escape.ident (d :: nlToSp r) =
        (if d.toNat < 128 then tbl.getD d.toNat [d] else Escape.ident d) ++ Escape.mapChars tbl Escape.ident (nlToSp r) := by
      intro d; simp [Escape.mapChars]
    rw [e1, nlToSp_append, ih, e2, e3]
    congr 1
    by_cases hc : c = '\n'
    · subst hc
      have a : ('\n' : Char).toNat = 10 := by decide
      have b : (' ' : Char).toNat = 32 := by decide
      simp only [if_true, a, b, show (10 : Nat) < 128 by omega, show (32 : Nat) < 128 by omega]
      rw [getD_indep tbl 10 (by omega) _ [], getD_indep tbl 32 (by omega) _ [], h10, h32]
      rfl
    · simp only [hc, if_false]
      apply nlToSp_id
      split
      · rename_i hlt
        rw [getD_indep tbl c.toNat (by omega) _ []]
        apply hno _ hlt
        intro e
        apply hc
        have : c = Char.ofNat c.toNat := by simp
        rw [this, e]
      · simp [Escape.ident, Ne.symm hc]

def tableOkB (tbl : List Str) : Bool :=
  tbl.length == 128 && (List.range 128).all (fun i => i == 10 || !(tbl.getD i []).contains '\n')
    && tbl.getD 10 [] == ['\n'] && tbl.getD 32 [] == [' ']

theorem tableOk_of (tbl : List Str) (h : tableOkB tbl = true) : tableOk tbl := by
  simp only [tableOkB, Bool.and_eq_true, beq_iff_eq, List.all_eq_true, List.mem_range, Bool.or_eq_true,
    Bool.not_eq_eq_eq_not, Bool.not_true] at h
  obtain ⟨⟨⟨h1, h2⟩, h3⟩, h4⟩ := h
  refine ⟨h1, ?_, h3, h4⟩
  intro i hi hne
  rcases h2 i hi with h | h
  · exact absurd h hne
  · simpa using h

theorem tables_ok : tableOk Gen.Chains.escapeHtmlText_nodq_nosq ∧ tableOk Gen.Chains.escapeHtmlText_nodq_sq ∧
    tableOk Gen.Chains.escapeHtmlText_dq_nosq ∧ tableOk Gen.Chains.escapeHtmlText_dq_sq :=
  ⟨tableOk_of _ (by decide +kernel), tableOk_of _ (by decide +kernel), tableOk_of _ (by decide +kernel),
    tableOk_of _ (by decide +kernel)⟩

/-- `escape_html_text` commutes with replacing "\n" by a space -/
theorem nlToSp_escape (dq sq : Bool) (s : Str) :
    nlToSp (Escape.escapeHtmlText dq sq s) = Escape.escapeHtmlText dq sq (nlToSp s) := by
  obtain ⟨t1, t2, t3, t4⟩ := tables_ok
  cases dq <;> cases sq <;> simp only [Escape.escapeHtmlText] <;> apply nlToSp_mapChars <;> assumption

/-- the children of `Document` for a prose document under ANY token list with `Paragraph`: as `proseBlocks`, with the
    `BlankLine` tokens only when `BlankLine` is a token type (`bl`) -/
def proseBlocksB (bl : Bool) : Nat → List Str → List (List Str) → List Mistletoe.Block
  | n, p, [] => [.paragraph (proseInlines (p.map strip)) n]
  | n, p, q :: rest =>
    .paragraph (proseInlines (p.map strip)) n ::
      ((if bl then [.blankLine (n + p.length)] else []) ++ proseBlocksB bl (n + p.length + 1) q rest)

theorem mkBlocks_paraEntriesB (cfg : Document.Cfg) (fn : Footnotes.Table)
    (ht : ∀ t ∈ cfg.span, inertClass t = true) (hc : cfg.span.count .lineBreak = 1) (bl : Bool) :
    ∀ (rest : List (List Str)) (p : List Str) (n : Nat), ProsePara p → (∀ q ∈ rest, ProsePara q) →
    Document.mkBlocks cfg fn (Mistletoe.Props.C14.paraEntries bl n p rest) = .ok (proseBlocksB bl n p rest)
  | [], p, n, hp, _ => by
    simp only [Mistletoe.Props.C14.paraEntries, proseBlocksB, Document.mkBlocks, mkBlock_prose cfg fn p n n ht hc hp]
  | q :: rest, p, n, hp, hr => by
    have ih := mkBlocks_paraEntriesB cfg fn ht hc bl rest q (n + p.length + 1) (hr q (by simp))
      (fun x hx => hr x (List.mem_cons_of_mem _ hx))
    cases bl with
    | true =>
      simp only [Mistletoe.Props.C14.paraEntries, proseBlocksB, if_true, List.cons_append, List.nil_append, Document.mkBlocks]
      rw [mkBlock_prose cfg fn p n n ht hc hp]
      simp only [Document.mkBlock, ih]
    | false =>
      simp only [Mistletoe.Props.C14.paraEntries, proseBlocksB, Bool.false_eq_true, if_false, List.nil_append, Document.mkBlocks]
      rw [mkBlock_prose cfg fn p n n ht hc hp]
      simp only [ih]

/-- `Document(text)` on a document of plain-word paragraphs under any token lists with `Paragraph`, covered span
    classes and `LineBreak` once (the HTML renderer's, the Markdown renderer's, the default lists) -/
theorem parse_plain_any (cfg : Document.Cfg) (hpar : .paragraph ∈ cfg.block.types)
    (ht : ∀ t ∈ cfg.span, inertClass t = true) (hc : cfg.span.count .lineBreak = 1)
    (p : List (List Str)) (rest : List (List (List Str))) (hp : plainPara p = true) (hrest : ∀ q ∈ rest, plainPara q = true)
    (gas : Nat) :
    Document.parse cfg (gas + (2 * rest.length + cfg.block.types.length + 4)) (textOf p rest) =
      .ok { kids := proseBlocksB (cfg.block.types.contains .blankLine) 1 (paraLines p) (rest.map paraLines),
            footnotes := Document.footnotesOf [] } := by
  have np := normalPara_of_plain p hp
  have fp := Mistletoe.Props.C09.normalPara_facts _ np
  have fr : ∀ q ∈ rest.map paraLines, ParaFacts q := by
    intro q hq
    obtain ⟨q', hq', rfl⟩ := List.mem_map.mp hq
    exact Mistletoe.Props.C09.normalPara_facts _ (normalPara_of_plain q' (hrest q' hq'))
  have hphase := Mistletoe.Props.C14.C14_blank_separated_phase cfg.block hpar (paraLines p) (rest.map paraLines)
    ⟨fp.ne, fp.inert⟩ (fun q hq => ⟨(fr q hq).ne, (fr q hq).inert⟩) gas
  rw [List.length_map] at hphase
  have hmk := mkBlocks_paraEntriesB cfg (Document.footnotesOf []) ht hc (cfg.block.types.contains .blankLine)
    (rest.map paraLines) (paraLines p) 1 fp.para (fun q hq => (fr q hq).para)
  rw [show textOf p rest = (joinBlank (paraLines p) (rest.map paraLines)).flatten from rfl,
    parse_lines cfg _ _ (oneLine_textOf p rest hp hrest)]
  unfold Document.parseLines
  rw [hphase]
  simp only
  rw [hmk]

/-- the HTML of paragraphs with texts `t, u₁, u₂, …`: `<p>`text`</p>`, `sep` between paragraphs, "\n" at the end -/
def htmlParas (dq sq : Bool) (sep : Str) : Str → List Str → Str
  | t, [] => "<p>".toList ++ Escape.escapeHtmlText dq sq t ++ "</p>\n".toList
  | t, u :: rest => "<p>".toList ++ Escape.escapeHtmlText dq sq t ++ "</p>".toList ++ sep ++ htmlParas dq sq sep u rest

/-- what `'\n'.join(...)` puts between two paragraphs: one "\n" per block boundary (a `BlankLine` renders as "") -/
def paraSep (bl : Bool) : Str := if bl then ['\n', '\n'] else ['\n']

theorem flat_para (q : Html.Quotes) (ts : List Str) (ln : Nat) :
    Html.flat (Html.renderBlock q false (.paragraph (proseInlines ts) ln)) =
      "<p>".toList ++ Escape.escapeHtmlText q.dq q.sq (Document.joinNl ts) ++ "</p>".toList := by
  simp only [Html.renderBlock, Bool.false_eq_true, if_false, flat_append, flat_prose]
  simp [Html.flat, Html.flatEv, Html.flatAttrs]

theorem renderSep_cons (q : Html.Quotes) (b : Mistletoe.Block) (bs : List Mistletoe.Block) (h : bs ≠ []) :
    Html.renderSep q false (b :: bs) = Html.renderBlock q false b ++ [Html.nl] ++ Html.renderSep q false bs := by
  cases bs with
  | nil => exact absurd rfl h
  | cons c cs => simp only [Html.renderSep]

theorem proseBlocksB_ne (bl : Bool) (n : Nat) (p : List Str) (rest : List (List Str)) : proseBlocksB bl n p rest ≠ [] := by
  cases rest <;> simp [proseBlocksB]

theorem flat_sep (q : Html.Quotes) (bl : Bool) : ∀ (rest : List (List Str)) (p : List Str) (n : Nat),
    Html.flat (Html.renderSep q false (proseBlocksB bl n p rest)) ++ ['\n'] =
      htmlParas q.dq q.sq (paraSep bl) (Document.joinNl (p.map strip)) (rest.map (fun x => Document.joinNl (x.map strip)))
  | [], p, n => by
    simp only [proseBlocksB, Html.renderSep, flat_para, List.map_nil, htmlParas]
    simp
  | x :: rest, p, n => by
    have ih := flat_sep q bl rest x (n + p.length + 1)
    cases bl with
    | true =>
      simp only [proseBlocksB, if_true, List.cons_append, List.nil_append, List.map_cons, htmlParas, paraSep]
      rw [renderSep_cons _ _ _ (by simp), renderSep_cons _ _ _ (proseBlocksB_ne _ _ _ _)]
      simp only [flat_append, flat_para, List.append_assoc, ih]
      simp [Html.flat, Html.flatEv, Html.nl, Html.renderBlock, paraSep]
    | false =>
      simp only [proseBlocksB, Bool.false_eq_true, if_false, List.nil_append, List.map_cons, htmlParas, paraSep]
      rw [renderSep_cons _ _ _ (proseBlocksB_ne _ _ _ _)]
      simp only [flat_append, flat_para, List.append_assoc, ih]
      simp [Html.flat, Html.flatEv, Html.nl, paraSep]

/-- **the HTML of a prose document**, whatever the token lists it was parsed under -/
theorem render_proseB (o : Html.Opts) (bl : Bool) (n : Nat) (p : List Str) (rest : List (List Str)) (fn : Footnotes.Table) :
    Html.render o { kids := proseBlocksB bl n p rest, footnotes := fn } =
      htmlParas o.dq o.sq (paraSep bl) (Document.joinNl (p.map strip)) (rest.map (fun x => Document.joinNl (x.map strip))) := by
  have h : Html.flat (Html.renderSep o.q false (proseBlocksB bl n p rest)) ++ ['\n'] =
      htmlParas o.dq o.sq (paraSep bl) (Document.joinNl (p.map strip)) (rest.map (fun x => Document.joinNl (x.map strip))) :=
    flat_sep o.q bl rest p n
  have hne : (Html.flat (Html.renderSep o.q false (proseBlocksB bl n p rest))).isEmpty = false := by
    cases rest with
    | nil => simp only [proseBlocksB, Html.renderSep, flat_para]; rfl
    | cons x rest =>
      cases bl
      · simp only [proseBlocksB, Bool.false_eq_true, if_false, List.nil_append]
        rw [renderSep_cons _ _ _ (proseBlocksB_ne _ _ _ _)]
        simp only [flat_append, flat_para]; rfl
      · simp only [proseBlocksB, if_true, List.cons_append, List.nil_append]
        rw [renderSep_cons _ _ _ (by simp)]
        simp only [flat_append, flat_para]; rfl
  rw [← h]
  simp only [Html.render, Html.renderDoc]
  cases hk : proseBlocksB bl n p rest with
  | nil => exact absurd hk (proseBlocksB_ne _ _ _ _)
  | cons b bs =>
    rw [hk] at hne
    simp only [hne, Bool.false_eq_true, if_false, flat_append]
    simp [Html.flat, Html.flatEv, Html.nl]

theorem nlToSp_htmlParas (dq sq : Bool) (sep : Str) : ∀ (ts : List Str) (t : Str),
    nlToSp (htmlParas dq sq sep t ts) = nlToSp (htmlParas dq sq sep (nlToSp t) (ts.map nlToSp))
  | [], t => by
    simp only [htmlParas, List.map_nil, nlToSp_append, nlToSp_escape, nlToSp_idem]
  | u :: ts, t => by
    have ih := nlToSp_htmlParas dq sq sep ts u
    simp only [htmlParas, List.map_cons, nlToSp_append, nlToSp_escape, nlToSp_idem, ih]

theorem joinWords_append : ∀ (a b : List Str), a ≠ [] → b ≠ [] → joinWords (a ++ b) = joinWords a ++ [' '] ++ joinWords b
  | [], _, h, _ => absurd rfl h
  | [w], b, _, hb => by
    cases b with
    | nil => exact absurd rfl hb
    | cons y ys => simp [joinWords]
  | w :: x :: xs, b, _, hb => by
    have ih := joinWords_append (x :: xs) b (by simp) hb
    simp only [List.cons_append, joinWords] at ih ⊢
    rw [ih]
    simp

/-- the text of a paragraph with its soft line breaks turned into spaces: all the words joined by single spaces -/
theorem nlToSp_paraText : ∀ (g : List (List Str)), g ≠ [] → (∀ ws ∈ g, plainWords ws = true) →
    nlToSp (Document.joinNl (g.map joinWords)) = joinWords g.flatten
  | [], h, _ => absurd rfl h
  | [ws], _, hg => by
    have f := lineFacts ws (hg ws (by simp))
    simp only [List.map_cons, List.map_nil, Document.joinNl, List.flatten_cons, List.flatten_nil, List.append_nil]
    apply nlToSp_id
    intro hm
    have := f.chars _ hm
    revert this; decide
  | ws :: ws2 :: g', _, hg => by
    have ih := nlToSp_paraText (ws2 :: g') (by simp) (fun x hx => hg x (List.mem_cons_of_mem _ hx))
    have f := lineFacts ws (hg ws (by simp))
    have hnl : '\n' ∉ joinWords ws := by
      intro hm
      have := f.chars _ hm
      revert this; decide
    have hne1 : ws ≠ [] := (plainWords_facts ws (hg ws (by simp))).1
    have hne2 : (ws2 :: g').flatten ≠ [] := by
      have := (plainWords_facts ws2 (hg ws2 (by simp))).1
      cases ws2 with
      | nil => exact absurd rfl this
      | cons _ _ => simp
    rw [List.map_cons, List.map_cons, joinNl_cons2, ← List.map_cons, List.flatten_cons, joinWords_append _ _ hne1 hne2, ← ih]
    have e : joinWords ws ++ '\n' :: Document.joinNl ((ws2 :: g').map joinWords) =
        joinWords ws ++ (['\n'] ++ Document.joinNl ((ws2 :: g').map joinWords)) := by simp
    rw [e, nlToSp_append, nlToSp_append, nlToSp_id _ hnl]
    simp [nlToSp]

/-- the HTML of a plain-word document with "\n" → " ": that of the same paragraphs written on one line each -/
theorem html_norm (o : Html.Opts) (bl : Bool) (n : Nat) (fn : Footnotes.Table)
    (p : List (List Str)) (rest : List (List (List Str))) (hp : plainPara p = true) (hrest : ∀ q ∈ rest, plainPara q = true) :
    nlToSp (Html.render o { kids := proseBlocksB bl n (paraLines p) (rest.map paraLines), footnotes := fn }) =
      nlToSp (htmlParas o.dq o.sq (paraSep bl) (joinWords p.flatten) (rest.map (fun q => joinWords q.flatten))) := by
  obtain ⟨hne, hg⟩ := plainPara_facts p hp
  rw [render_proseB, nlToSp_htmlParas, paraLines_strip p hg, nlToSp_paraText p hne hg]
  congr 2
  rw [List.map_map, List.map_map]
  apply List.map_congr_left
  intro q hq
  obtain ⟨hqne, hqg⟩ := plainPara_facts q (hrest q hq)
  simp only [Function.comp, paraLines_strip q hqg, nlToSp_paraText q hqne hqg]

theorem reflow_plain (L : Nat) (rest : List (List (List Str))) (hrest : ∀ q ∈ rest, plainPara q = true) :
    ∀ q ∈ rest.map (reflowG L), plainPara q = true := by
  intro q hq
  obtain ⟨q', hq', rfl⟩ := List.mem_map.mp hq
  exact (reflowFacts L q' (hrest q' hq')).plain

/-- **(c) same meaning.**  Under every token configuration with `Paragraph`, covered span classes and `LineBreak`
    once, both the original text and the re-broken text parse, and their HTML (every quote option) is equal once
    every "\n" is replaced by a space; the common value is the HTML of the paragraphs written on one line each. -/
theorem reflow_meaning (cfg : Document.Cfg) (hpar : .paragraph ∈ cfg.block.types)
    (ht : ∀ t ∈ cfg.span, inertClass t = true) (hc : cfg.span.count .lineBreak = 1)
    (p : List (List Str)) (rest : List (List (List Str))) (hp : plainPara p = true) (hrest : ∀ q ∈ rest, plainPara q = true)
    (L : Nat) (gas : Nat) :
    ∃ d d', Document.parse cfg (gas + (2 * rest.length + cfg.block.types.length + 4)) (textOf p rest) = .ok d ∧
      Document.parse cfg (gas + (2 * rest.length + cfg.block.types.length + 4)) (textOf (reflowG L p) (rest.map (reflowG L))) = .ok d' ∧
      ∀ o : Html.Opts, nlToSp (Html.render o d') = nlToSp (Html.render o d) ∧
        nlToSp (Html.render o d) = nlToSp (htmlParas o.dq o.sq (paraSep (cfg.block.types.contains .blankLine))
          (joinWords p.flatten) (rest.map (fun q => joinWords q.flatten))) := by
  have h1 := parse_plain_any cfg hpar ht hc p rest hp hrest gas
  have h2 := parse_plain_any cfg hpar ht hc (reflowG L p) (rest.map (reflowG L)) (reflowFacts L p hp).plain
    (reflow_plain L rest hrest) gas
  rw [List.length_map] at h2
  refine ⟨_, _, h1, h2, ?_⟩
  intro o
  have e1 := html_norm o (cfg.block.types.contains .blankLine) 1 (Document.footnotesOf []) p rest hp hrest
  have e2 := html_norm o (cfg.block.types.contains .blankLine) 1 (Document.footnotesOf []) (reflowG L p) (rest.map (reflowG L))
    (reflowFacts L p hp).plain (reflow_plain L rest hrest)
  have e3 : (rest.map (reflowG L)).map (fun q => joinWords q.flatten) = rest.map (fun q => joinWords q.flatten) := by
    rw [List.map_map]
    exact List.map_congr_left (fun q hq => by simp only [Function.comp, (reflowFacts L q (hrest q hq)).words])
  rw [(reflowFacts L p hp).words, e3] at e2
  exact ⟨by rw [e2, e1], e1⟩

/-! ### (e) the limit -/

/-- **(e)** every output line longer than `L` is one single word of the paragraph: it contains no whitespace at all,
    so no breakable space (from `C10_bound`, through the fragments of the parsed paragraph) -/
theorem reflow_bound (L : Nat) (g : List (List Str)) (hg : plainPara g = true) :
    ∀ l ∈ fill L g.flatten, L < l.length → l ∈ g.flatten ∧ ∀ c ∈ l, pyIsSpace c = false := by
  intro l hl hlong
  have hw := words_ok g (plainPara_facts g hg).2
  have hm : makeWords (proseFrags (g.map joinWords)) = g.flatten := makeWords_prose g hw
  have := Mistletoe.Props.C10.C10_bound L (proseFrags (g.map joinWords)) l (by rw [hm]; exact hl)
  rw [hm] at this
  rcases this with h | h
  · omega
  · refine ⟨h, ?_⟩
    obtain ⟨ws, hws, hlw⟩ := List.mem_flatten.mp h
    exact ((hw ws hws).2 l hlw).2

/-! ### (d) idempotence -/

/-- **(d) reflowing the output again with the same limit changes nothing**: the output is in the fragment, its words
    are the same sequence, and the fill loop is a function of the word sequence. -/
theorem reflow_idempotent (cfg : Document.Cfg) (hpar : .paragraph ∈ cfg.block.types) (hbl : .blankLine ∈ cfg.block.types)
    (ht : ∀ t ∈ cfg.span, inertClass t = true) (hc : cfg.span.count .lineBreak = 1)
    (p : List (List Str)) (rest : List (List (List Str))) (hp : plainPara p = true) (hrest : ∀ q ∈ rest, plainPara q = true)
    (o : Opts) (n : Int) (hn : n ≠ 0) (ho : o.maxLineLength = some n) (gas : Nat) :
    ∃ d out, Document.parse cfg (gas + (2 * rest.length + cfg.block.types.length + 4)) (textOf p rest) = .ok d ∧
      renderRes o d = .ok out ∧
      ∃ d', Document.parse cfg (gas + (2 * rest.length + cfg.block.types.length + 4)) out = .ok d' ∧
        renderRes o d' = .ok out := by
  obtain ⟨d, h1, h2⟩ := reflow_render cfg hpar hbl ht hc p rest hp hrest o n hn ho gas
  have ht' := reflow_text n.toNat p rest hp hrest
  obtain ⟨d', h3, h4⟩ := reflow_render cfg hpar hbl ht hc (reflowG n.toNat p) (rest.map (reflowG n.toNat))
    (reflowFacts n.toNat p hp).plain (reflow_plain n.toNat rest hrest) o n hn ho gas
  rw [List.length_map] at h3
  have ht'' := reflow_text n.toNat (reflowG n.toNat p) (rest.map (reflowG n.toNat)) (reflowFacts n.toNat p hp).plain
    (reflow_plain n.toNat rest hrest)
  have e : (rest.map (reflowG n.toNat)).map (reflowG n.toNat) = rest.map (reflowG n.toNat) := by
    rw [List.map_map]
    exact List.map_congr_left (fun q hq => reflowG_idem n.toNat q (hrest q hq))
  rw [ht'', reflowG_idem n.toNat p hp, e] at h4
  refine ⟨d, _, h1, h2, d', ?_, ?_⟩
  · rw [ht']; exact h3
  · rw [ht']; exact h4

/-! ## The theorems -/

/-- **C10 for the prose fragment: what the renderer does with a line limit, that nothing is lost, and the limit**
    (clauses a, b, e).

    Fragment (`_partial`: it is a hypothesis).  The document is given as paragraphs `p, q₁, q₂, …`; a paragraph is a
    non-empty list of lines; a line is a non-empty list of words; the source line is the words joined by single
    spaces + "\n" (`lineOf`), consecutive paragraphs are separated by one empty line (`textOf`).  Every word is a
    `plainWord`: non-empty, no whitespace, none of the inline-active characters ``\ ` < & ~ [ * _``, and its first
    character cannot begin a block construct (`plainStart`: not a digit, none of ``# > ` ~ - _ * + = < [ | :``) —
    "documents whose prose words cannot be mistaken for block markers at the start of a line": after re-breaking,
    ANY word may come first on a line.  Token lists: `Paragraph` and `BlankLine` are block types, the span classes
    are covered ones with `LineBreak` once (the Markdown renderer's lists: `C10_prose_reflow_markdown`).
    `MarkdownRenderer(max_line_length=L)`, `L ≥ 1`, either `normalize_whitespace`.

    Then `Document(text)` succeeds and
    * (a) the renderer does not raise and its output is, paragraph by paragraph, the lines `Wrap.fill L words` of ALL
      the words of the paragraph in order, each + "\n", one empty line between paragraphs;
    * (b) that output is the text of the document `reflowG L p, reflowG L q₁, …` of the same fragment, and every
      paragraph has exactly the same word sequence as before (nothing dropped, added, reordered, split or merged);
    * (e) every output line longer than `L` is one single word: it contains no whitespace, hence no breakable space. -/
theorem C10_prose_reflow_partial (cfg : Document.Cfg) (hpar : .paragraph ∈ cfg.block.types) (hbl : .blankLine ∈ cfg.block.types)
    (ht : ∀ t ∈ cfg.span, inertClass t = true) (hc : cfg.span.count .lineBreak = 1)
    (p : List (List Str)) (rest : List (List (List Str))) (hp : plainPara p = true) (hrest : ∀ q ∈ rest, plainPara q = true)
    (o : Opts) (L : Nat) (hL : 1 ≤ L) (ho : o.maxLineLength = some (L : Int)) (gas : Nat) :
    ∃ d, Document.parse cfg (gas + (2 * rest.length + cfg.block.types.length + 4)) (textOf p rest) = .ok d ∧
      renderRes o d = .ok (docText ((fill L p.flatten).map (· ++ ['\n'])) (rest.map (fun q => (fill L q.flatten).map (· ++ ['\n'])))) ∧
      render o d = textOf (reflowG L p) (rest.map (reflowG L)) ∧
      (∀ q ∈ p :: rest, plainPara (reflowG L q) = true ∧ (reflowG L q).flatten = q.flatten ∧
        fill L q.flatten = (reflowG L q).map joinWords) ∧
      (∀ q ∈ p :: rest, ∀ l ∈ fill L q.flatten, L < l.length → l ∈ q.flatten ∧ ∀ c ∈ l, pyIsSpace c = false) := by
  have hn : (L : Int) ≠ 0 := by omega
  obtain ⟨d, h1, h2⟩ := reflow_render cfg hpar hbl ht hc p rest hp hrest o (L : Int) hn ho gas
  rw [Int.toNat_natCast] at h2
  have hall : ∀ q ∈ p :: rest, plainPara q = true := by
    intro q hq
    rcases List.mem_cons.mp hq with rfl | hq
    · exact hp
    · exact hrest q hq
  refine ⟨d, h1, h2, ?_, ?_, ?_⟩
  · simp only [render, h2]
    exact reflow_text L p rest hp hrest
  · intro q hq
    have f := reflowFacts L q (hall q hq)
    exact ⟨f.plain, f.words, f.lines⟩
  · intro q hq
    exact reflow_bound L q (hall q hq)

/-- **C10 for the prose fragment: the re-broken text means the same** (clause c).  Same fragment; ANY token
    configuration with `Paragraph`, covered span classes and `LineBreak` once (the HTML renderer's, the Markdown
    renderer's and the default lists: `C10_prose_reflow_meaning_configs`).  The original text and the re-broken text
    (the renderer's output by `C10_prose_reflow_partial`) both parse, and their HTML — every quote option — is equal
    once every "\n" is replaced by a space (`nlToSp`), i.e. up to the position of the soft line breaks; the common
    value is the HTML of the paragraphs written on one line each. -/
theorem C10_prose_reflow_meaning_partial (cfg : Document.Cfg) (hpar : .paragraph ∈ cfg.block.types)
    (ht : ∀ t ∈ cfg.span, inertClass t = true) (hc : cfg.span.count .lineBreak = 1)
    (p : List (List Str)) (rest : List (List (List Str))) (hp : plainPara p = true) (hrest : ∀ q ∈ rest, plainPara q = true)
    (L : Nat) (gas : Nat) :
    ∃ d d', Document.parse cfg (gas + (2 * rest.length + cfg.block.types.length + 4)) (textOf p rest) = .ok d ∧
      Document.parse cfg (gas + (2 * rest.length + cfg.block.types.length + 4)) (textOf (reflowG L p) (rest.map (reflowG L))) = .ok d' ∧
      ∀ o : Html.Opts, nlToSp (Html.render o d') = nlToSp (Html.render o d) ∧
        nlToSp (Html.render o d) = nlToSp (htmlParas o.dq o.sq (paraSep (cfg.block.types.contains .blankLine))
          (joinWords p.flatten) (rest.map (fun q => joinWords q.flatten))) :=
  reflow_meaning cfg hpar ht hc p rest hp hrest L gas

/-- **C10 for the prose fragment: reflowing again changes nothing** (clause d).  Same fragment and token lists as
    `C10_prose_reflow_partial`: `render(Document(render(Document(text))))`, same `max_line_length = L ≥ 1`, is
    `render(Document(text))`, and neither parse nor render raises. -/
theorem C10_prose_reflow_idempotent_partial (cfg : Document.Cfg) (hpar : .paragraph ∈ cfg.block.types)
    (hbl : .blankLine ∈ cfg.block.types)
    (ht : ∀ t ∈ cfg.span, inertClass t = true) (hc : cfg.span.count .lineBreak = 1)
    (p : List (List Str)) (rest : List (List (List Str))) (hp : plainPara p = true) (hrest : ∀ q ∈ rest, plainPara q = true)
    (o : Opts) (L : Nat) (hL : 1 ≤ L) (ho : o.maxLineLength = some (L : Int)) (gas : Nat) :
    ∃ d, Document.parse cfg (gas + (2 * rest.length + cfg.block.types.length + 4)) (textOf p rest) = .ok d ∧
      ∃ d', Document.parse cfg (gas + (2 * rest.length + cfg.block.types.length + 4)) (render o d) = .ok d' ∧
        renderRes o d' = renderRes o d ∧ render o d' = render o d := by
  obtain ⟨d, out, h1, h2, d', h3, h4⟩ := reflow_idempotent cfg hpar hbl ht hc p rest hp hrest o (L : Int) (by omega) ho gas
  refine ⟨d, h1, d', ?_, by rw [h2, h4], by simp only [render, h2, h4]⟩
  simp only [render, h2]; exact h3

/-! ### the token lists of the working tree -/

/-- **For the lists `MarkdownRenderer` installs in the working tree** (`Config.markdown`, regenerated from /repo):
    the hypotheses on the token lists hold, so (a), (b), (e) and (d) hold for
    `MarkdownRenderer(max_line_length=L).render(Document(text))` on every plain-word document. -/
theorem C10_prose_reflow_markdown (cfg : Document.Cfg) (hcfg : Config.markdown = some cfg)
    (p : List (List Str)) (rest : List (List (List Str))) (hp : plainPara p = true) (hrest : ∀ q ∈ rest, plainPara q = true)
    (o : Opts) (L : Nat) (hL : 1 ≤ L) (ho : o.maxLineLength = some (L : Int)) (gas : Nat) :
    ∃ d, Document.parse cfg (gas + (2 * rest.length + 15)) (textOf p rest) = .ok d ∧
      render o d = textOf (reflowG L p) (rest.map (reflowG L)) ∧
      (∀ q ∈ p :: rest, plainPara (reflowG L q) = true ∧ (reflowG L q).flatten = q.flatten ∧
        fill L q.flatten = (reflowG L q).map joinWords) ∧
      (∀ q ∈ p :: rest, ∀ l ∈ fill L q.flatten, L < l.length → l ∈ q.flatten ∧ ∀ c ∈ l, pyIsSpace c = false) ∧
      ∃ d', Document.parse cfg (gas + (2 * rest.length + 15)) (render o d) = .ok d' ∧ render o d' = render o d := by
  obtain ⟨hpar, ht, hc⟩ := Mistletoe.Props.C14.C14_config_covered cfg (Or.inr (Or.inl hcfg))
  have hty : cfg.block.types = Mistletoe.Props.C14.markdownTypes := by
    have := Mistletoe.Props.C14.C14_config_current.2
    rw [hcfg] at this
    simpa using this
  have hbl : Block.BTok.blankLine ∈ cfg.block.types := by rw [hty]; decide
  obtain ⟨d, h1, _, h3, h4, h5⟩ := C10_prose_reflow_partial cfg hpar hbl ht hc p rest hp hrest o L hL ho gas
  obtain ⟨d0, g1, d', g2, _, g4⟩ := C10_prose_reflow_idempotent_partial cfg hpar hbl ht hc p rest hp hrest o L hL ho gas
  have e : d0 = d := by
    rw [h1] at g1
    cases g1; rfl
  subst e
  rw [hty] at h1 g2
  exact ⟨d0, h1, h3, h4, h5, d', g2, g4⟩

/-- **(c) for the token lists of the working tree**: under the HTML renderer's, the Markdown renderer's and the
    default lists, the hypotheses of `C10_prose_reflow_meaning_partial` hold. -/
theorem C10_prose_reflow_meaning_configs (cfg : Document.Cfg)
    (hcfg : Config.html = some cfg ∨ Config.markdown = some cfg ∨ Config.default = some cfg)
    (p : List (List Str)) (rest : List (List (List Str))) (hp : plainPara p = true) (hrest : ∀ q ∈ rest, plainPara q = true)
    (L : Nat) (gas : Nat) :
    ∃ d d', Document.parse cfg (gas + (2 * rest.length + cfg.block.types.length + 4)) (textOf p rest) = .ok d ∧
      Document.parse cfg (gas + (2 * rest.length + cfg.block.types.length + 4)) (textOf (reflowG L p) (rest.map (reflowG L))) = .ok d' ∧
      ∀ o : Html.Opts, nlToSp (Html.render o d') = nlToSp (Html.render o d) := by
  obtain ⟨hpar, ht, hc⟩ := Mistletoe.Props.C14.C14_config_covered cfg hcfg
  obtain ⟨d, d', h1, h2, h3⟩ := C10_prose_reflow_meaning_partial cfg hpar ht hc p rest hp hrest L gas
  exact ⟨d, d', h1, h2, fun o => (h3 o).1⟩

/-- **(c) end to end**: `HtmlRenderer(**opts).render(Document(·))` of the re-broken text and of the original text
    both succeed and agree up to "\n" ↔ " ". -/
theorem C10_prose_reflow_html (p : List (List Str)) (rest : List (List (List Str))) (hp : plainPara p = true)
    (hrest : ∀ q ∈ rest, plainPara q = true) (L : Nat) (o : Html.Opts) (gas : Nat) :
    ∃ h h', Config.renderHtml o (gas + (2 * rest.length + 14)) (textOf p rest) = some h ∧
      Config.renderHtml o (gas + (2 * rest.length + 14)) (textOf (reflowG L p) (rest.map (reflowG L))) = some h' ∧
      nlToSp h' = nlToSp h := by
  have hcur := Mistletoe.Props.C14.C14_config_current.1
  cases hcfg : Config.html with
  | none => rw [hcfg] at hcur; cases hcur
  | some cfg =>
    have hty : cfg.block.types = Mistletoe.Props.C14.defaultTypes := by
      rw [hcfg] at hcur
      simpa using hcur
    obtain ⟨d, d', h1, h2, h3⟩ := C10_prose_reflow_meaning_configs cfg (Or.inl hcfg) p rest hp hrest L gas
    rw [hty] at h1 h2
    refine ⟨Html.render o d, Html.render o d', ?_, ?_, h3 o⟩
    · simp only [Config.renderHtml, hcfg]
      rw [show gas + (2 * rest.length + 14) = gas + (2 * rest.length + Mistletoe.Props.C14.defaultTypes.length + 4) from rfl, h1]
    · simp only [Config.renderHtml, hcfg]
      rw [show gas + (2 * rest.length + 14) = gas + (2 * rest.length + Mistletoe.Props.C14.defaultTypes.length + 4) from rfl, h2]

/-! ### Non-vacuity -/

def W (s : String) : Str := s.toList

def para1 : List (List Str) := [[W "an", W "extraordinarily", W "long"], [W "word", W "here"]]
def para2 : List (List Str) := [[W "the", W "quick", W "brown"], [W "fox", W "jumps", W "over", W "it."]]

theorem paras_plain : plainPara para1 = true ∧ plainPara para2 = true := by decide +kernel

/-- the source text of the two-line paragraph, and of the two-paragraph document -/
example : textOf para1 [] = W "an extraordinarily long\nword here\n" := by decide +kernel
example : textOf para1 [para2] = W "an extraordinarily long\nword here\n\nthe quick brown\nfox jumps over it.\n" := by
  decide +kernel

open Mistletoe.Props.C09 (mdCfg mdCfg_ok) in
/-- the theorem applies to the two-line paragraph with L = 12 … -/
example : ∃ d, Document.parse mdCfg 15 (textOf para1 []) = .ok d ∧
    render { maxLineLength := some 12 } d = textOf (reflowG 12 para1) [] := by
  obtain ⟨d, h1, _, h3, _⟩ := C10_prose_reflow_partial mdCfg mdCfg_ok.1 mdCfg_ok.2.1 mdCfg_ok.2.2.1 mdCfg_ok.2.2.2
    para1 [] paras_plain.1 (by simp) { maxLineLength := some 12 } 12 (by omega) rfl 0
  exact ⟨d, h1, h3⟩

/-- … the re-broken paragraph is (the 15-character word stands alone on a line longer than 12) … -/
example : reflowG 12 para1 = [[W "an"], [W "extraordinarily"], [W "long", W "word"], [W "here"]] := by decide +kernel
example : textOf (reflowG 12 para1) [] = W "an\nextraordinarily\nlong word\nhere\n" := by decide +kernel

open Mistletoe.Props.C09 (mdCfg) in
/-- … and evaluating parser and renderer in the kernel on that text gives the same answer -/
example : (Document.parse mdCfg 15 (W "an extraordinarily long\nword here\n")).bind
    (fun d => renderRes { maxLineLength := some 12 } d) = .ok (W "an\nextraordinarily\nlong word\nhere\n") := by decide +kernel

open Mistletoe.Props.C09 (mdCfg mdCfg_ok) in
/-- two paragraphs, idempotence: the theorem applies, and the kernel evaluation of parse + render on the output
    reproduces the output -/
example : ∃ d, Document.parse mdCfg 17 (textOf para1 [para2]) = .ok d ∧
    ∃ d', Document.parse mdCfg 17 (render { maxLineLength := some 12 } d) = .ok d' ∧
      render { maxLineLength := some 12 } d' = render { maxLineLength := some 12 } d := by
  obtain ⟨d, h1, d', h2, _, h4⟩ := C10_prose_reflow_idempotent_partial mdCfg mdCfg_ok.1 mdCfg_ok.2.1 mdCfg_ok.2.2.1
    mdCfg_ok.2.2.2 para1 [para2] paras_plain.1 (by simp [paras_plain.2]) { maxLineLength := some 12 } 12 (by omega) rfl 0
  exact ⟨d, h1, d', h2, h4⟩

open Mistletoe.Props.C09 (mdCfg) in
example : (Document.parse mdCfg 17 (W "an extraordinarily long\nword here\n\nthe quick brown\nfox jumps over it.\n")).bind
    (fun d => renderRes { maxLineLength := some 12 } d) =
      .ok (W "an\nextraordinarily\nlong word\nhere\n\nthe quick\nbrown fox\njumps over\nit.\n") := by decide +kernel
open Mistletoe.Props.C09 (mdCfg) in
example : (Document.parse mdCfg 17 (W "an\nextraordinarily\nlong word\nhere\n\nthe quick\nbrown fox\njumps over\nit.\n")).bind
    (fun d => renderRes { maxLineLength := some 12 } d) =
      .ok (W "an\nextraordinarily\nlong word\nhere\n\nthe quick\nbrown fox\njumps over\nit.\n") := by decide +kernel

/-- meaning: the theorem applies under the HTML renderer's lists, and the two HTML strings (kernel evaluation) differ
    only in "\n" versus " " -/
example : ∃ h h', Config.renderHtml {} 16 (textOf para1 [para2]) = some h ∧
    Config.renderHtml {} 16 (textOf (reflowG 12 para1) [reflowG 12 para2]) = some h' ∧ nlToSp h' = nlToSp h :=
  C10_prose_reflow_html para1 [para2] paras_plain.1 (by simp [paras_plain.2]) 12 {} 0

example : Config.renderHtml {} 16 (W "an extraordinarily long\nword here\n\nthe quick brown\nfox jumps over it.\n") =
    some (W "<p>an extraordinarily long\nword here</p>\n<p>the quick brown\nfox jumps over it.</p>\n") := by decide +kernel
example : Config.renderHtml {} 16 (W "an\nextraordinarily\nlong word\nhere\n\nthe quick\nbrown fox\njumps over\nit.\n") =
    some (W "<p>an\nextraordinarily\nlong word\nhere</p>\n<p>the quick\nbrown fox\njumps over\nit.</p>\n") := by decide +kernel

/-- the predicate is not trivially true: words that could be mistaken for markers or markup are excluded -/
example : [W "", W "a b", W "1.", W "-", W "#tag", W ">", W "a*b", W "snake_case", W "x[1]", W "AT&T", W "`c`", W "a\\b",
    W "~x", W "<b>", W "=", W "+", W "|", W ":x"].map plainWord = List.replicate 18 false := by decide +kernel
example : [W "word", W "Word,", W "(see", W "p.3)", W "it's", W "\"q\"", W "é", W "日本", W "a-b", W "x=1", W "a#b", W "u:v",
    W "what?!", W "$5", W "%d"].map plainWord = List.replicate 15 true := by decide +kernel

end Mistletoe.Reflow
