/-
  C14, inline half, a `<` that starts neither a tag nor an autolink.

  `inertBody4` (Proofs/InertInline3.lean) rejects every text in which a `<` stands directly before an ASCII letter, `/`,
  `!` or `?` (`ltNext2`), and every `<` followed by a run of e-mail local-part characters and `@`.  Each alternative of
  `HtmlSpan.pattern` (open tag, closing tag, comment, processing instruction, declaration, CDATA section) and both
  alternatives of `AutoLink.pattern` end with a literal `>`; a match starting at a `<` therefore needs a `>` later in
  the text.  `inertBody5` is `inertBody4` with the `<` condition weakened to `ltNext5`: after a `<`
    * the old condition `ltNext2` holds, or
    * there is no `>` in the rest of the text (lines joined by "\n" - a tag may span lines): `a <b c`, `x<y z`,
      `1 <a href`, a final `<b`, `a<=/...@home` (`noGt`), or
    * a letter follows and (`ltWord`) after its tag name `[A-Za-z0-9-]*` and the whitespace behind it neither `>` nor
      `/>` follows, nor - if there is whitespace - a character that can begin an attribute name (`[A-Za-z_:]`); the
      run of scheme characters `[A-Za-z0-9+.-]*` is not followed by `:` and the run of e-mail local-part characters
      is not followed by `@`: `if i<n; then j>0`, `a <b, c> d`, `a<b 50% > c`, or
    * `/` follows, not followed by a letter, and the run of e-mail local-part characters is not followed by `@`
      (`ltSlash`): `</3 > x`.
  What is NOT accepted, rightly: `x<y and y>z` (`<y and y>` is an open tag with the attributes `and`, `y`).

  The other two gaps named in the task are already inside `inertBody3` / `inertBody4`, shown below by evaluation
  (`C14_bracket_amp_covered`, end of the file): a `]` with no `[` before it (`brOkG` looks at `(` / `[` after a `]` only once a `[` was seen:
  `a] (b)`, `x](y)`), and a `&` that begins no character reference or an unknown named one (`ampOk2`: `AT&T`, `a & b`,
  `&x;`).

  End to end: `C14_prose_text5` and `C14_prose_html5` (namespace `Mistletoe.Props.C14`, end of the file).
-/
import Mistletoe.Proofs.InertInline3
namespace Mistletoe.InertInline5
open Mistletoe Mistletoe.Py Mistletoe.Scan Mistletoe.InlineScan Mistletoe.Core Mistletoe.Inline Mistletoe.InertInline
open Mistletoe.InertInline2 Mistletoe.InertInline3

/-! ## every HTML-span / autolink match contains a `>` after its `<` -/

theorem span_snd_subset (p : Char → Bool) (s : Str) : (span p s).2 ⊆ s := by
  intro x hx
  have e := (span_eq p s _ _ rfl).1
  have : x ∈ (span p s).1 ++ (span p s).2 := List.mem_append_right _ hx
  rwa [← e] at this

theorem span_eq_snd (p : Char → Bool) (s a b : Str) (h : span p s = (a, b)) : b ⊆ s := by
  have := span_snd_subset p s
  rw [h] at this; exact this

theorem tl {c : Char} {r s : Str} (h : c :: r ⊆ s) : r ⊆ s := (List.cons_subset.mp h).2

theorem attrValue_subset (s : Str) : attrValue s ⊆ s := by
  unfold attrValue
  split
  rename_i w r h1
  have s1 := span_eq_snd _ _ _ _ h1
  split
  · rename_i r1
    split
    rename_i w2 r2 h2
    have s2 := span_eq_snd _ _ _ _ h2
    split
    · rename_i r3
      split
      rename_i w4 r4 h4
      have s4 := span_eq_snd _ _ _ _ h4
      split
      · exact ((tl s4).trans (tl s2)).trans (tl s1)
      · exact List.Subset.refl _
    · rename_i r3
      split
      rename_i w4 r4 h4
      have s4 := span_eq_snd _ _ _ _ h4
      split
      · exact ((tl s4).trans (tl s2)).trans (tl s1)
      · exact List.Subset.refl _
    · split
      rename_i w4 r4 h4
      have s4 := span_eq_snd _ _ _ _ h4
      split
      · exact List.Subset.refl _
      · exact (s4.trans s2).trans (tl s1)
  · exact List.Subset.refl _

theorem attrs_subset : ∀ (fuel : Nat) (s : Str), attrs fuel s ⊆ s
  | 0, s => by simp [attrs]
  | fuel + 1, s => by
    unfold attrs
    split
    rename_i w r h1
    have s1 := span_eq_snd _ _ _ _ h1
    split
    · exact List.Subset.refl _
    · split
      · split
        · split
          rename_i w2 r2 h2
          have s2 := span_eq_snd _ _ _ _ h2
          exact (((attrs_subset fuel _).trans (attrValue_subset _)).trans s2).trans s1
        · exact List.Subset.refl _
      · exact List.Subset.refl _

theorem openTag_gt (rest r : Str) (h : openTag ('<' :: rest) = some r) : '>' ∈ rest := by
  unfold openTag at h
  split at h
  · rename_i c r0 heq
    simp only [List.cons.injEq, true_and] at heq
    subst heq
    split at h
    · cases h
    · split at h
      rename_i w1 r1 h1
      have s1 := span_eq_snd _ _ _ _ h1
      dsimp only at h
      have s13 : (span ws (attrs (('<' :: c :: r0).length + 1) r1)).2 ⊆ c :: r0 :=
        (((span_snd_subset _ _).trans (attrs_subset _ _)).trans s1).trans (List.subset_cons_self _ _)
      split at h
      · rename_i r5 heq5
        apply s13
        split at heq5
        · rename_i x hx
          rw [hx, heq5]; simp
        · rw [heq5]; simp
      · cases h
  · cases h

theorem closingTag_gt (rest r : Str) (h : closingTag ('<' :: rest) = some r) : '>' ∈ rest := by
  unfold closingTag at h
  split at h
  · rename_i c r0 heq
    simp only [List.cons.injEq, true_and] at heq
    subst heq
    split at h
    · cases h
    · split at h
      rename_i w1 r1 h1
      have s1 := span_eq_snd _ _ _ _ h1
      split at h
      rename_i w3 r3 h3
      have s3 := span_eq_snd _ _ _ _ h3
      split at h
      · have : '>' ∈ r0 := (s3.trans s1) (by simp)
        simp [this]
      · cases h
  · cases h

theorem findFrom_startsWith (pat : Str) : ∀ (s : Str) (j k : Nat), findFrom (fun t => startsWith pat t) j s = some k → pat ⊆ s
  | [], _, _, h => by simp [findFrom] at h
  | c :: rest, j, k, h => by
    simp only [findFrom] at h
    split at h
    · rename_i hp
      simp only [startsWith] at hp
      exact (List.isPrefixOf_iff_prefix.mp hp).subset
    · exact (findFrom_startsWith pat rest _ _ h).trans (List.subset_cons_self _ _)

theorem commentBody_gt : ∀ (fuel n : Nat) (prev : Option Char) (s : Str) (k : Nat), commentBody fuel n prev s = some k → '>' ∈ s
  | 0, _, _, _, _, h => by simp [commentBody] at h
  | _ + 1, _, _, [], _, h => by simp [commentBody] at h
  | fuel + 1, n, prev, c :: rest, k, h => by
    simp only [commentBody] at h
    split at h
    · rename_i hp
      simp only [Bool.and_eq_true, startsWith] at hp
      exact (List.isPrefixOf_iff_prefix.mp hp.2).subset (by simp)
    · split at h
      · cases h
      · exact List.mem_cons_of_mem _ (commentBody_gt fuel _ _ rest k h)

theorem commentAt_gt (r : Str) (n : Nat) (h : commentAt r = some n) : '>' ∈ r := by
  unfold commentAt at h
  split at h
  · cases h
  · dsimp only at h
    split at h
    · cases h
    · split at h
      · rename_i k hk
        exact List.mem_of_mem_drop (commentBody_gt _ _ _ _ _ hk)
      · cases h

theorem instructionAt_gt (r : Str) (n : Nat) (h : instructionAt r = some n) : '>' ∈ r := by
  unfold instructionAt at h
  split at h
  · split at h
    · rename_i j hj
      have := findFrom_startsWith _ _ _ _ hj
      have : '>' ∈ _ := this (by simp)
      simp [this]
    · cases h
  · cases h

theorem declarationAt_gt (r : Str) (n : Nat) (h : declarationAt r = some n) : '>' ∈ r := by
  unfold declarationAt at h
  split at h
  · split at h
    · split at h
      · rename_i j hj
        have := findFrom_startsWith _ _ _ _ hj
        have : '>' ∈ _ := this (by simp)
        simp [this]
      · cases h
    · cases h
  · cases h

theorem cdataAt_gt (r : Str) (n : Nat) (h : cdataAt r = some n) : '>' ∈ r := by
  unfold cdataAt at h
  split at h
  · cases h
  · split at h
    · rename_i x body1 heq
      split at h
      · rename_i j hj
        have := findFrom_startsWith _ _ _ _ hj
        have h1 : '>' ∈ body1 := this (by simp)
        have h2 : '>' ∈ r.drop 8 := by rw [heq]; exact List.mem_cons_of_mem _ h1
        exact List.mem_of_mem_drop h2
      · cases h
    · cases h


/-- every alternative of `HtmlSpan.pattern` ends with `>` -/
theorem htmlSpanAt_gt (prev : Option Char) (rest : Str) (h : '>' ∉ rest) : htmlSpanAt prev ('<' :: rest) = none := by
  have hn : '>' ∉ '<' :: rest := by
    intro hm
    rcases List.mem_cons.mp hm with e | hm
    · cases e
    · exact h hm
  have h1 : openTag ('<' :: rest) = none := by
    cases e : openTag ('<' :: rest) with
    | none => rfl
    | some r => exact absurd (openTag_gt rest r e) h
  have h2 : closingTag ('<' :: rest) = none := by
    cases e : closingTag ('<' :: rest) with
    | none => rfl
    | some r => exact absurd (closingTag_gt rest r e) h
  have h3 : commentAt ('<' :: rest) = none := by
    cases e : commentAt ('<' :: rest) with
    | none => rfl
    | some r => exact absurd (commentAt_gt _ r e) hn
  have h4 : instructionAt ('<' :: rest) = none := by
    cases e : instructionAt ('<' :: rest) with
    | none => rfl
    | some r => exact absurd (instructionAt_gt _ r e) hn
  have h5 : declarationAt ('<' :: rest) = none := by
    cases e : declarationAt ('<' :: rest) with
    | none => rfl
    | some r => exact absurd (declarationAt_gt _ r e) hn
  have h6 : cdataAt ('<' :: rest) = none := by
    cases e : cdataAt ('<' :: rest) with
    | none => rfl
    | some r => exact absurd (cdataAt_gt _ r e) hn
  unfold htmlSpanAt
  split
  · rfl
  · simp only [h1, h2, h3, h4, h5, h6]

/-- both alternatives of `AutoLink.pattern` end with `>` -/
theorem autoLinkBody_gt (r : Str) (h : '>' ∉ r) : autoLinkBody r = none := by
  cases e : autoLinkBody r with
  | none => rfl
  | some n =>
    exfalso
    unfold autoLinkBody at e
    dsimp only at e
    split at e
    · rename_i n' hs
      split at hs
      · rename_i c r1
        split at hs
        · cases hs
        · split at hs
          · cases hs
          · split at hs
            · rename_i r3 h3
              split at hs
              · rename_i tl h4
                have : '>' ∈ (span (fun d => d != ' ' && d != '<' && d != '>') r3).snd := by rw [h4]; simp
                have := span_snd_subset _ _ this
                have : '>' ∈ (span schemeChar r1).snd := by rw [h3]; exact List.mem_cons_of_mem _ this
                exact h (List.mem_cons_of_mem _ (span_snd_subset _ _ this))
              · cases hs
            · cases hs
      · cases hs
    · split at e
      · cases e
      · split at e
        · rename_i r2 h2
          split at e
          · rename_i tl h3
            have : '>' ∈ (span (fun d => domChar d || d == '.') r2).snd := by rw [h3]; simp
            have := span_snd_subset _ _ this
            have : '>' ∈ (span localChar r).snd := by rw [h2]; exact List.mem_cons_of_mem _ this
            exact h (span_snd_subset _ _ this)
          · cases e
        · cases e

/-- first character of a text, if any, is no attribute-name start `[A-Za-z_:]` -/
def noAttrStart : Str → Bool
  | [] => true
  | d :: _ => !nameStart d

/-- the text does not begin with `>` or `/>` -/
def noTagEnd : Str → Bool
  | [] => true
  | d :: x => if d == '/' then x.head? != some '>' else d != '>'

/-- what follows the tag name `[A-Za-z][A-Za-z0-9-]*` lets `(?:\s+attribute)*\s*/?>` fail at once: after the run of
    whitespace (if it is empty no attribute can follow; otherwise the next character must not start an attribute
    name) neither `>` nor `/>` follows -/
def afterTagName (r1 : Str) : Bool :=
  ((span ws r1).1.isEmpty || noAttrStart (span ws r1).2) && noTagEnd (span ws r1).2

/-- `<` + letter, and neither a tag nor an autolink can follow: what follows the tag name satisfies `afterTagName`;
    the run of scheme characters is not followed by `:`; the run of e-mail local-part characters is not followed by `@` -/
def ltWord : Str → Bool
  | [] => false
  | c :: r => isAlpha c && afterTagName (span (fun d => isAlnum d || d == '-') r).2 &&
      (span schemeChar r).2.head? != some ':' && (span localChar (c :: r)).2.head? != some '@'

theorem attrs_stop (fuel : Nat) (r : Str) (h : ((span ws r).1.isEmpty || noAttrStart (span ws r).2) = true) :
    attrs fuel r = r := by
  cases fuel with
  | zero => rfl
  | succ f =>
    unfold attrs
    split
    rename_i w r' h1
    rw [h1] at h
    simp only at h
    split
    · rfl
    · rename_i hw
      split
      · rename_i c x
        split
        · rename_i hn
          simp [hw, noAttrStart, hn] at h
        · rfl
      · rfl

theorem openTag_word (c : Char) (r : Str) (h : afterTagName (span (fun d => isAlnum d || d == '-') r).2 = true) :
    openTag ('<' :: c :: r) = none := by
  unfold openTag
  simp only
  split
  · rfl
  · generalize (span (fun d => isAlnum d || d == '-') r).2 = r1 at h
    simp only [afterTagName, Bool.and_eq_true] at h
    rw [attrs_stop _ _ h.1]
    have h2 := h.2
    generalize (span ws r1).2 = r3 at h2
    cases r3 with
    | nil => rfl
    | cons d x =>
      simp only [noTagEnd] at h2
      split at h2
      · rename_i hd
        simp only [beq_iff_eq] at hd
        subst hd
        cases x with
        | nil => rfl
        | cons e y =>
          have : e ≠ '>' := by simpa using h2
          simp [this]
      · rename_i hd
        have hd' : d ≠ '/' := by simpa using hd
        have hd2 : d ≠ '>' := by simpa using h2
        split
        · rename_i y heq
          split at heq
          · rename_i z hz
            simp only [List.cons.injEq] at hz
            exact absurd hz.1 hd'
          · simp only [List.cons.injEq] at heq
            exact absurd heq.1 hd2
        · rfl
theorem autoLinkBody_word (c : Char) (r : Str) (h1 : (span schemeChar r).2.head? ≠ some ':')
    (h2 : (span localChar (c :: r)).2.head? ≠ some '@') : autoLinkBody (c :: r) = none := by
  cases e : autoLinkBody (c :: r) with
  | none => rfl
  | some n =>
    exfalso
    unfold autoLinkBody at e
    dsimp only at e
    split at e
    · rename_i n' hs
      split at hs
      · cases hs
      · split at hs
        · cases hs
        · split at hs
          · rename_i r3 h3
            rw [h3] at h1; simp at h1
          · cases hs
    · split at e
      · cases e
      · split at e
        · rename_i r2 h3
          rw [h3] at h2; simp at h2
        · cases e

theorem ltWord_of (rest : Str) (h : ltWord rest = true) : ∃ c r, rest = c :: r ∧ isAlpha c = true ∧
    afterTagName (span (fun d => isAlnum d || d == '-') r).2 = true ∧ (span schemeChar r).2.head? ≠ some ':' ∧
    (span localChar (c :: r)).2.head? ≠ some '@' := by
  cases rest with
  | nil => simp [ltWord] at h
  | cons c r =>
    simp only [ltWord, Bool.and_eq_true, bne_iff_ne, ne_eq] at h
    exact ⟨c, r, rfl, h.1.1.1, h.1.1.2, h.1.2, h.2⟩

theorem isAlpha_ne (c : Char) (h : isAlpha c = true) : c ≠ '/' ∧ c ≠ '!' ∧ c ≠ '?' := by
  refine ⟨?_, ?_, ?_⟩ <;> (intro e; subst e; revert h; decide)

theorem htmlSpanAt_word (prev : Option Char) (rest : Str) (h : ltWord rest = true) : htmlSpanAt prev ('<' :: rest) = none := by
  have e4 : "<!--".toList = ['<', '!', '-', '-'] := by decide
  have e8 : "<![CDATA".toList = ['<', '!', '[', 'C', 'D', 'A', 'T', 'A'] := by decide
  obtain ⟨c, r, rfl, ha, ht, _, _⟩ := ltWord_of rest h
  obtain ⟨h1, h2, h3⟩ := isAlpha_ne c ha
  unfold htmlSpanAt
  split
  · rfl
  · rw [openTag_word c r ht]
    simp [closingTag, commentAt, instructionAt, declarationAt, cdataAt, startsWith, e4, e8, h1, h2, h3,
      Block.isPrefix_ne '!' c _ r h2]

/-- `</` not followed by a letter (no closing tag), the run of e-mail local-part characters not followed by `@` -/
def ltSlash : Str → Bool
  | [] => false
  | c :: r => c == '/' && (match r with | [] => true | d :: _ => !isAlpha d) &&
      (span localChar (c :: r)).2.head? != some '@'

theorem htmlSpanAt_slash (prev : Option Char) (rest : Str) (h : ltSlash rest = true) : htmlSpanAt prev ('<' :: rest) = none := by
  have e4 : "<!--".toList = ['<', '!', '-', '-'] := by decide
  have e8 : "<![CDATA".toList = ['<', '!', '[', 'C', 'D', 'A', 'T', 'A'] := by decide
  cases rest with
  | nil => simp [ltSlash] at h
  | cons c r =>
    simp only [ltSlash, Bool.and_eq_true, beq_iff_eq] at h
    obtain ⟨⟨rfl, h2⟩, _⟩ := h
    unfold htmlSpanAt
    split
    · rfl
    · cases r with
      | nil => simp [openTag, closingTag, commentAt, instructionAt, declarationAt, cdataAt, startsWith, e4, e8, isAlpha,
          Block.isPrefix_ne '!' '/' _ [] (by decide)]
      | cons d x =>
        have hd : isAlpha d = false := by simpa using h2
        have ha : isAlpha '/' = false := by decide
        simp [openTag, closingTag, commentAt, instructionAt, declarationAt, cdataAt, startsWith, e4, e8, ha, hd,
          Block.isPrefix_ne '!' '/' _ (d :: x) (by decide)]

theorem autoLinkBody_slash (rest : Str) (h : ltSlash rest = true) : autoLinkBody rest = none := by
  cases rest with
  | nil => simp [ltSlash] at h
  | cons c r =>
    simp only [ltSlash, Bool.and_eq_true, beq_iff_eq, bne_iff_ne, ne_eq] at h
    obtain ⟨⟨rfl, _⟩, h3⟩ := h
    cases e : autoLinkBody ('/' :: r) with
    | none => rfl
    | some n =>
      exfalso
      unfold autoLinkBody at e
      dsimp only at e
      have ha : isAlpha '/' = false := by decide
      simp only [ha, Bool.not_false, if_true] at e
      split at e
      · cases e
      · split at e
        · rename_i r2 h2
          rw [h2] at h3; simp at h3
        · cases e

/-! ## the predicate -/

/-- there is no `>` in the text -/
def noGt (rest : Str) : Bool := !rest.contains '>'

/-- after a `<`: the condition of `inertBody4`, or no `>` in the rest of the text, or a word / a slash that completes
    neither a tag nor an autolink -/
def ltNext5 (rest : Str) : Bool := ltNext2 rest || noGt rest || ltWord rest || ltSlash rest

def ltOk5 : Str → Bool
  | [] => true
  | c :: rest => (c != '<' || ltNext5 rest) && ltOk5 rest

/-- **`inertBody4` with `<` allowed wherever no tag and no autolink can be completed** -/
def inertBody5 (s : Str) : Bool :=
  bsOk s && ltOk5 s && ampOk2 s && tildeOk s && brOkG false false s && emphOk2 false false ' ' s

theorem ltOk2_ltOk5 : ∀ (s : Str), ltOk2 s = true → ltOk5 s = true
  | [], _ => rfl
  | c :: rest, h => by
    simp only [ltOk2, Bool.and_eq_true, Bool.or_eq_true] at h
    simp only [ltOk5, ltNext5, Bool.and_eq_true, Bool.or_eq_true]
    refine ⟨?_, ltOk2_ltOk5 rest h.2⟩
    rcases h.1 with h1 | h1
    · exact Or.inl h1
    · exact Or.inr (Or.inl (Or.inl (Or.inl h1)))

/-- **`inertBody4` implies `inertBody5`** -/
theorem inertBody4_inertBody5 (s : Str) (h : inertBody4 s = true) : inertBody5 s = true := by
  simp only [inertBody4, Bool.and_eq_true] at h
  simp only [inertBody5, Bool.and_eq_true]
  obtain ⟨⟨⟨⟨⟨h1, h2⟩, h3⟩, h4⟩, h5⟩, h6⟩ := h
  exact ⟨⟨⟨⟨⟨h1, ltOk2_ltOk5 s h2⟩, h3⟩, h4⟩, h5⟩, h6⟩

/-! ## the two scanners that look at `<` -/

theorem ltNext5_cases (rest : Str) (h : ltNext5 rest = true) :
    ltNext2 rest = true ∨ '>' ∉ rest ∨ ltWord rest = true ∨ ltSlash rest = true := by
  simp only [ltNext5, noGt, Bool.or_eq_true, Bool.not_eq_eq_eq_not, Bool.not_true, List.contains_eq_mem,
    decide_eq_false_iff_not] at h
  rcases h with ((h | h) | h) | h
  · exact Or.inl h
  · exact Or.inr (Or.inl h)
  · exact Or.inr (Or.inr (Or.inl h))
  · exact Or.inr (Or.inr (Or.inr h))

/-- **`HtmlSpan.pattern` does not match at a `<` satisfying `ltNext5`** -/
theorem htmlSpanAt_lt5 (prev : Option Char) (rest : Str) (h : ltNext5 rest = true) : htmlSpanAt prev ('<' :: rest) = none := by
  rcases ltNext5_cases rest h with h | h | h | h
  · exact htmlSpanAt_none2 prev '<' rest (by simpa using h)
  · exact htmlSpanAt_gt prev rest h
  · exact htmlSpanAt_word prev rest h
  · exact htmlSpanAt_slash prev rest h

/-- **`AutoLink.pattern` does not match at a `<` satisfying `ltNext5`** -/
theorem autoLinkBody_lt5 (rest : Str) (h : ltNext5 rest = true) : autoLinkBody rest = none := by
  rcases ltNext5_cases rest h with h | h | h | h
  · exact autoLinkBody_none2 rest h
  · exact autoLinkBody_gt rest h
  · obtain ⟨c, r, rfl, _, _, h1, h2⟩ := ltWord_of rest h
    exact autoLinkBody_word c r h1 h2
  · exact autoLinkBody_slash rest h

theorem htmlSpanAt_none5 (prev : Option Char) (c : Char) (rest : Str)
    (hl : (c != '<' || ltNext5 rest) = true) : htmlSpanAt prev (c :: rest) = none := by
  by_cases hc : c = '<'
  · subst hc
    exact htmlSpanAt_lt5 prev rest (by simpa using hl)
  · exact htmlSpanAt_none2 prev c rest (by simp [hc])

theorem autoLinkAt_none5 (prev : Option Char) (c : Char) (rest : Str) (h : bsOk (c :: rest) = true)
    (hl : (c != '<' || ltNext5 rest) = true) : autoLinkAt prev (c :: rest) = none := by
  by_cases hc : c = '<'
  · subst hc
    have hb := autoLinkBody_lt5 rest (by simpa using hl)
    unfold autoLinkAt
    split
    · rfl
    · simp only [leadingBackslashes, countLeading_ne _ _ _ (show '<' ≠ '\\' by decide), List.drop_zero]
      split
      · rfl
      · simp only [hb]
  · exact autoLinkAt_none4 prev c rest h (by simp [hc])

/-- what the regex scanners need of the text -/
structure ScanOk5 (s : Str) : Prop where
  bs : bsOk s = true
  lt : ltOk5 s = true
  tilde : tildeOk s = true

theorem ScanOk5.tail {c : Char} {rest : Str} (h : ScanOk5 (c :: rest)) : ScanOk5 rest := by
  obtain ⟨h1, h2, h3⟩ := h
  simp only [ltOk5, tildeOk, Bool.and_eq_true] at h2 h3
  exact ⟨bsOk_tail c rest h1, h2.2, h3.2⟩

theorem ScanOk5.head_lt {c : Char} {rest : Str} (h : ScanOk5 (c :: rest)) : (c != '<' || ltNext5 rest) = true := by
  have := h.lt
  simp only [ltOk5, Bool.and_eq_true] at this
  exact this.1

theorem ScanOk5.head_tilde {c : Char} {rest : Str} (h : ScanOk5 (c :: rest)) : (c == '~' && rest.head? == some '~') = false := by
  have := h.tilde
  simp only [tildeOk, Bool.and_eq_true, Bool.not_eq_eq_eq_not, Bool.not_true] at this
  exact this.1

/-- except for `LineBreak`, no covered class finds anything -/
theorem findOne_scan5 (s : Str) (h : ScanOk5 s) (t : STok) (ht : inertClass t = true) (hlb : t ≠ .lineBreak) :
    findOne s [] [] t = [] := by
  cases t with
  | escapeSequence =>
    simp only [findOne, List.map_eq_nil_iff]
    exact findIter_nil _ ScanOk5 (fun _ _ => ScanOk5.tail) (fun p c r hq => escapeAt_none4 p c r hq.bs) s h
  | htmlSpan =>
    simp only [findOne, List.map_eq_nil_iff]
    exact findIter_nil _ ScanOk5 (fun _ _ => ScanOk5.tail) (fun p c r hq => htmlSpanAt_none5 p c r hq.head_lt) s h
  | strikethrough =>
    simp only [findOne, List.map_eq_nil_iff]
    exact findIter_nil _ ScanOk5 (fun _ _ => ScanOk5.tail)
      (fun p c r hq => strikeAt_none4 p c r hq.bs hq.head_tilde) s h
  | autoLink =>
    simp only [findOne, List.map_eq_nil_iff]
    exact findIter_nil _ ScanOk5 (fun _ _ => ScanOk5.tail)
      (fun p c r hq => autoLinkAt_none5 p c r hq.bs hq.head_lt) s h
  | coreTokens => rfl
  | inlineCode => rfl
  | lineBreak => exact absurd rfl hlb
  | math => cases ht
  | githubWiki => cases ht
  | xwikiMacroStart => cases ht
  | xwikiMacroEnd => cases ht

theorem findAll_gen5 (s : Str) (types : List STok) (fn : Footnotes.Table) (ht : ∀ t ∈ types, inertClass t = true)
    (hs : ScanOk5 s) (hcore : findCoreTokens s fn = .ok ([], [])) (hnl : '\n' ∉ s) : findAll s types fn = .ok [] := by
  rw [findAll_core_gen s types fn hcore]
  congr 1
  rw [List.flatMap_eq_nil_iff]
  intro t htm
  by_cases hlb : t = .lineBreak
  · subst hlb; exact findOne_lineBreak s hnl
  · exact findOne_scan5 s hs t (ht t htm) hlb

/-! ## `tokenize_inner` -/

theorem inertBody5_parts (s : Str) (h : inertBody5 s = true) :
    ScanOk5 s ∧ ampOk2 s = true ∧ brOkG false false s = true ∧ emphOk2 false false ' ' s = true := by
  simp only [inertBody5, Bool.and_eq_true] at h
  obtain ⟨⟨⟨⟨⟨h1, h2⟩, h3⟩, h4⟩, h5⟩, h6⟩ := h
  exact ⟨⟨h1, h2, h4⟩, h3, h5, h6⟩

/-- `find_core_tokens` does not look at `<` or `>` -/
theorem findCoreTokens_inertBody5 (s : Str) (h : inertBody5 s = true) : findCoreTokens s [] = .ok ([], []) := by
  obtain ⟨hs, _, hb, he⟩ := inertBody5_parts s h
  exact findCoreTokens_inert4 false s [] hs.bs (fun _ => rfl) hb he

/-- one line: no class finds anything, `html.unescape` is the identity, one `RawText` -/
theorem inline_inert5 (types : List STok) (s : Str) (ht : ∀ t ∈ types, inertClass t = true)
    (h : inertBody5 s = true) (hnl : '\n' ∉ s) :
    findAll s types [] = .ok [] ∧ Unescape.unescape true s = s ∧
      (s ≠ [] → tokenizeInner types [] s = .ok [.rawText s]) := by
  have hp := inertBody5_parts s h
  have h1 := findAll_gen5 s types [] ht hp.1 (findCoreTokens_inertBody5 s h) hnl
  have h2 := unescape_inert2 s hp.2.1
  refine ⟨h1, h2, fun hne => ?_⟩
  rw [tokenizeInner_no_candidates types [] s h1 hne, h2]

open Mistletoe.Document in
/-- several lines -/
theorem tokenizeInner_lines5 (types : List STok) (ts : List Str)
    (ht : ∀ t ∈ types, inertClass t = true) (hc : types.count .lineBreak = 1) (hne : ts ≠ [])
    (hl : ∀ t ∈ ts, LineOk4 t) (hb : inertBody5 (joinNl ts) = true) :
    tokenizeInner types [] (joinNl ts) = .ok (proseInlines ts) := by
  have hp := inertBody5_parts _ hb
  exact tokenizeInner_lines_gen4 types [] ts hc hne (fun t htm => (hl t htm).ne)
    (fun t htm hne' => findOne_scan5 _ hp.1 t (ht t htm) hne')
    (findIter_joinNl4 ts hl hp.1.bs) (findCoreTokens_inertBody5 _ hb)
    (fun t htm => unescape_inert2 t (ampOk2_lines ts hp.2.1 t htm))

open Mistletoe.Document in
/-- the `Paragraph` constructor on lines whose joined text satisfies `inertBody5` -/
theorem mkBlocks_prose5 (cfg : Document.Cfg) (ls : List Str) (ln o : Nat)
    (ht : ∀ t ∈ cfg.span, inertClass t = true) (hc : cfg.span.count .lineBreak = 1) (hne : ls ≠ [])
    (h : ∀ l ∈ ls, proseLine l = true) (hb : inertBody5 (joinNl (ls.map strip)) = true) :
    mkBlocks cfg [] [.paragraph ls ln o] = .ok [.paragraph (proseInlines (ls.map strip)) ln] := by
  have hin : inl cfg [] (strip (ls.map lstrip).flatten) = .ok (proseInlines (ls.map strip)) := by
    unfold inl
    rw [paragraph_content ls hne h]
    exact tokenizeInner_lines5 cfg.span _ ht hc (by simpa using hne) (lineOk_of_prose4 ls h) hb
  simp only [mkBlocks, mkBlock, hin]

end Mistletoe.InertInline5

/-! ## C14 with `<` before a word that completes no tag -/

namespace Mistletoe.Props.C14
open Mistletoe Mistletoe.Py Mistletoe.Scan Mistletoe.Block Mistletoe.Inline Mistletoe.InertInline Mistletoe.InertInline2
open Mistletoe.InertInline3 Mistletoe.InertInline5
open Mistletoe.Html Mistletoe.Escape

/-- inert text on one line, `<` allowed where no tag and no autolink can be completed -/
def inertText5 (s : Str) : Bool := inertBody5 s && !s.contains '\n'

/-- **`inertBody5` is weaker than `inertBody4`** -/
theorem C14_inertBody5_weaker (s : Str) (h : inertBody4 s = true) : inertBody5 s = true :=
  inertBody4_inertBody5 s h

/-- **No `>`, no HTML span and no autolink.**  Every alternative of `HtmlSpan.pattern` (open tag, closing tag, comment,
    processing instruction, declaration, CDATA section) and both alternatives of `AutoLink.pattern` need a `>` after
    the `<` they start at (`prev`: the character before the `<`, for the look-behinds). -/
theorem C14_lt_needs_gt (prev : Option Char) (rest : Str) (h : '>' ∉ rest) :
    InlineScan.htmlSpanAt prev ('<' :: rest) = none ∧ InlineScan.autoLinkAt prev ('<' :: rest) = none := by
  refine ⟨htmlSpanAt_gt prev rest h, ?_⟩
  have hb := autoLinkBody_gt rest h
  unfold InlineScan.autoLinkAt
  split
  · rfl
  · simp only [InlineScan.leadingBackslashes, countLeading_ne _ _ _ (show '<' ≠ '\\' by decide), List.drop_zero]
    split
    · rfl
    · simp only [hb]

/-- **`<` + word that is no tag name in tag position and no autolink start**: the scanners fail at it although a `>` may
    follow (`if i<n; then j>0`) -/
theorem C14_lt_word (prev : Option Char) (rest : Str) (h : ltWord rest = true) :
    InlineScan.htmlSpanAt prev ('<' :: rest) = none ∧ InlineScan.autoLinkBody rest = none := by
  refine ⟨htmlSpanAt_word prev rest h, ?_⟩
  obtain ⟨c, r, rfl, _, _, h1, h2⟩ := ltWord_of rest h
  exact autoLinkBody_word c r h1 h2

/-- **`find_core_tokens` finds nothing under `inertBody5`** (empty table of definitions) -/
theorem C14_core_inert5 (s : Str) (h : inertBody5 s = true) : Core.findCoreTokens s [] = .ok ([], []) :=
  findCoreTokens_inertBody5 s h

/-- **The analogue of `C14_inline_inert4` for `inertBody5`**: for every list of covered classes, no class finds a
    match, `html.unescape` is the identity on the text, and `tokenize_inner` returns `[RawText(text)]`. -/
theorem C14_inline_inert5 (types : List STok) (s : Str)
    (ht : ∀ t ∈ types, inertClass t = true) (h : inertText5 s = true) :
    findAll s types [] = .ok [] ∧ Unescape.unescape true s = s ∧
      (s ≠ [] → tokenizeInner types [] s = .ok [.rawText s]) := by
  simp only [inertText5, Bool.and_eq_true, Bool.not_eq_eq_eq_not, Bool.not_true, List.contains_eq_mem,
    decide_eq_false_iff_not] at h
  exact inline_inert5 types s ht h.1 h.2

/-- **Several lines** (the analogue of `C14_inline_lines4`): only raw text and soft line breaks -/
theorem C14_inline_lines5 (types : List STok) (ts : List Str)
    (ht : ∀ t ∈ types, inertClass t = true) (hc : types.count .lineBreak = 1) (hne : ts ≠ [])
    (hl : ∀ t ∈ ts, t ≠ [] ∧ '\n' ∉ t ∧ t.getLast? ≠ some ' ')
    (hb : inertBody5 (Document.joinNl ts) = true) :
    tokenizeInner types [] (Document.joinNl ts) = .ok (proseInlines ts) :=
  tokenizeInner_lines5 types ts ht hc hne (fun t htm => ⟨(hl t htm).1, (hl t htm).2.1, (hl t htm).2.2⟩) hb

theorem C14_prose5 (cfg : Document.Cfg) (hpar : .paragraph ∈ cfg.block.types)
    (ht : ∀ t ∈ cfg.span, inertClass t = true) (hc : cfg.span.count .lineBreak = 1)
    (ls : List Str) (hne : ls ≠ []) (hl : ∀ l ∈ ls, inertLine l = true ∧ proseLine l = true)
    (hi : inertBody5 (Document.joinNl (ls.map strip)) = true) (gas : Nat) :
    Document.parseLines cfg (gas + (cfg.block.types.length + 4)) ls =
        .ok { kids := [.paragraph (proseInlines (ls.map strip)) 1], footnotes := [] } ∧
    ∀ o : Opts, render o { kids := [.paragraph (proseInlines (ls.map strip)) 1], footnotes := [] } =
        "<p>".toList ++ escapeHtmlText o.dq o.sq (Document.joinNl (ls.map strip)) ++ "</p>\n".toList := by
  constructor
  · unfold Document.parseLines
    rw [C14_block_phase cfg.block hpar ls hne (fun s hs => (hl s hs).1) gas]
    simp only
    have e : Document.footnotesOf [] = [] := rfl
    rw [e, mkBlocks_prose5 cfg ls 1 1 ht hc hne (fun s hs => (hl s hs).2) hi]
  · intro o
    exact render_prose o (ls.map strip) 1 []

/-- **`C14_prose_text4` with `inertBody5`** (a `<` allowed wherever no tag and no autolink can be completed - in
    particular wherever no `>` follows in the paragraph): `Document(text)` for the text `l₁ ++ … ++ lₙ` of
    "\n"-terminated, block-inert prose lines whose stripped lines joined by "\n" satisfy `inertBody5` is one `Paragraph`
    holding the lines as `RawText`s separated by soft `LineBreak`s, and the HTML renderer gives `<p>`, the HTML-escaped
    text (every `<` as `&lt;`, every `>` as `&gt;`), `</p>` and a newline, for every option set; for every configuration
    with `Paragraph` among the block types and covered span classes. -/
theorem C14_prose_text5 (cfg : Document.Cfg) (hpar : .paragraph ∈ cfg.block.types)
    (ht : ∀ t ∈ cfg.span, inertClass t = true) (hc : cfg.span.count .lineBreak = 1)
    (ls : List Str) (hne : ls ≠ []) (h1 : ∀ l ∈ ls, oneLine l = true)
    (hl : ∀ l ∈ ls, inertLine l = true ∧ proseLine l = true)
    (hi : inertBody5 (Document.joinNl (ls.map strip)) = true) (gas : Nat) :
    Document.parse cfg (gas + (cfg.block.types.length + 4)) ls.flatten =
        .ok { kids := [.paragraph (proseInlines (ls.map strip)) 1], footnotes := [] } ∧
    ∀ o : Opts, render o { kids := [.paragraph (proseInlines (ls.map strip)) 1], footnotes := [] } =
        "<p>".toList ++ escapeHtmlText o.dq o.sq (Document.joinNl (ls.map strip)) ++ "</p>\n".toList := by
  rw [parse_lines cfg _ ls h1]
  exact C14_prose5 cfg hpar ht hc ls hne hl hi gas

/-- **… for the regenerated configurations**: the token lists that `HtmlRenderer`, `MarkdownRenderer` and no renderer
    install in the working tree (`Model/Config.lean` over `Gen/RenderMaps.lean`) meet the hypotheses `hpar`, `ht`, `hc`
    (`C14_config_covered`) -/
theorem C14_prose_text5_config (cfg : Document.Cfg)
    (hcfg : Config.html = some cfg ∨ Config.markdown = some cfg ∨ Config.default = some cfg)
    (ls : List Str) (hne : ls ≠ []) (h1 : ∀ l ∈ ls, oneLine l = true)
    (hl : ∀ l ∈ ls, inertLine l = true ∧ proseLine l = true)
    (hi : inertBody5 (Document.joinNl (ls.map strip)) = true) (gas : Nat) :
    Document.parse cfg (gas + (cfg.block.types.length + 4)) ls.flatten =
        .ok { kids := [.paragraph (proseInlines (ls.map strip)) 1], footnotes := [] } ∧
    ∀ o : Opts, render o { kids := [.paragraph (proseInlines (ls.map strip)) 1], footnotes := [] } =
        "<p>".toList ++ escapeHtmlText o.dq o.sq (Document.joinNl (ls.map strip)) ++ "</p>\n".toList := by
  obtain ⟨hpar, ht, hc⟩ := C14_config_covered cfg hcfg
  exact C14_prose_text5 cfg hpar ht hc ls hne h1 hl hi gas

/-- **`HtmlRenderer(**opts).render(Document(text))` on such prose**: with the token lists the HTML renderer installs in
    the working tree and 14 or more units of gas, `Config.renderHtml` returns `<p>` + escaped text + `</p>` + newline,
    for every option set -/
theorem C14_prose_html5 (ls : List Str) (hne : ls ≠ []) (h1 : ∀ l ∈ ls, oneLine l = true)
    (hl : ∀ l ∈ ls, inertLine l = true ∧ proseLine l = true)
    (hi : inertBody5 (Document.joinNl (ls.map strip)) = true) (o : Opts) (gas : Nat) :
    Config.renderHtml o (gas + 14) ls.flatten =
      some ("<p>".toList ++ escapeHtmlText o.dq o.sq (Document.joinNl (ls.map strip)) ++ "</p>\n".toList) := by
  have hb := C14_config_current.1
  cases hcfg : Config.html with
  | none => rw [hcfg] at hb; cases hb
  | some cfg =>
    rw [hcfg] at hb
    simp only [Option.map_some, Option.some.injEq] at hb
    have hlen : cfg.block.types.length + 4 = 14 := by rw [hb]; decide
    obtain ⟨hp, hr⟩ := C14_prose_text5_config cfg (Or.inl hcfg) ls hne h1 hl hi gas
    rw [hlen] at hp
    simp only [Config.renderHtml, hcfg, hp, hr o]

/-! ### the other two gaps of the task are inside `inertBody3` / `inertBody4` already -/

/-- a `]` with no `[` before it, although `(` or `[` follows (no bracket delimiter is on the stack: `brOkG` tests what
    follows a `]` only after a `[` was seen); a `&` that begins no character reference (`AT&T`, `a & b`, `k=v&w=z`,
    `&copy` without `;`) or an unknown named one (`&x;` - a known name such as `&amp;` is rejected) -/
theorem C14_bracket_amp_covered :
    [L "a] (b)", L "x](y)", L "a] [b", L "a][b] c", L "AT&T", L "a & b", L "&x;", L "k=v&w=z", L "&copy 5 < 6 & 7 > 2"].map
      (fun s => (inertBody3 s, inertBody4 s)) = List.replicate 9 (true, true) ∧
    inertBody5 (L "&amp;") = false ∧ inertBody5 (L "[a](b)") = false := by decide +kernel

/-! ### Non-vacuity -/

/-- accepted by `inertBody5`, rejected by `inertBody4`: a `<` directly before a letter, `/`, `!`, `?` or an e-mail
    local part, when no `>` follows; a word after `<` that cannot be a tag in spite of a later `>`; `</3` -/
example : [L "a <b c", L "x<y z", L "1 <a href", L "a <b", L "see <http://x.y and <!-- or <?php", L "a<=/...@home1)x",
    L "if i<n; then j>0", L "a <b, c> d", L "x </3 > y", L "a <b\nc d", L "a<b 50% > c", L "a <b\n-> c"].map
    (fun s => (inertBody5 s, inertBody4 s)) = List.replicate 12 (true, false) := by decide +kernel

/-- rejected: tags, autolinks, comments, and `x<y and y>z` (`<y and y>` IS an open tag with the attributes `and`,
    `y`); a tag spanning two lines; what `inertBody4` rejects for another reason stays rejected -/
example : [L "x<y and y>z", L "a <b> c", L "a </b> c", L "<http://x.y>", L "<a@b.c>", L "a <!-- x --> b", L "a <?x?> b",
    L "a <!X y> b", L "a <b c='x<y' d> e", L "a <b\nc d> e", L "x <b/> y", L "x <b /> y", L "a <b c > d", L "*a <b*", L "a <b `c`",
    L "a <b &amp;"].map inertBody5 = List.replicate 16 false := by decide +kernel

example : htmlOf (L "a <b c\n") = .ok (L "<p>a &lt;b c</p>\n") := by decide +kernel
example : htmlOf (L "1 <a href\n") = .ok (L "<p>1 &lt;a href</p>\n") := by decide +kernel
example : htmlOf (L "a] (b)\n") = .ok (L "<p>a] (b)</p>\n") := by decide +kernel
example : htmlOf (L "5 < 6 & 7 > 2\n") = .ok (L "<p>5 &lt; 6 &amp; 7 &gt; 2</p>\n") := by decide +kernel
example : htmlOf (L "if i<n; then j>0\n") = .ok (L "<p>if i&lt;n; then j&gt;0</p>\n") := by decide +kernel
example : htmlOf (L "a<b 50% > c\n") = .ok (L "<p>a&lt;b 50% &gt; c</p>\n") := by decide +kernel
/-- … whereas these are markup (raw HTML passes through; an autolink becomes a link) -/
example : htmlOf (L "x<y and y>z\n") = .ok (L "<p>x<y and y>z</p>\n") := by decide +kernel
example : htmlOf (L "a <b\nc d> e\n") = .ok (L "<p>a <b\nc d> e</p>\n") := by decide +kernel
example : htmlOf (L "a <b@c.d> e\n") = .ok (L "<p>a <a href=\"mailto:b@c.d\">b@c.d</a> e</p>\n") := by decide +kernel

/-- through the theorem: one `RawText` holding exactly the text -/
example : tokenizeInner htmlSpanTypes [] (L "a <b c and x<y z") = .ok [.rawText (L "a <b c and x<y z")] :=
  (C14_inline_inert5 htmlSpanTypes _ htmlSpanTypes_inert (by decide +kernel)).2.2 (by decide)
example : tokenizeInner htmlSpanTypes [] (L "if i<n; then j>0") = .ok [.rawText (L "if i<n; then j>0")] :=
  (C14_inline_inert5 htmlSpanTypes _ htmlSpanTypes_inert (by decide +kernel)).2.2 (by decide)

def prose5 : List Str := [L "  5 < 6 & 7 > 2, a] (b) and x](y)\n", L "if i<n; then j>0, AT&T </3\n", L "a <b c, x<y z, 1 <a href\n"]

theorem prose5_lines_ok : ∀ l ∈ prose5, inertLine l = true ∧ proseLine l = true := by decide +kernel
theorem prose5_text_ok : inertBody5 (Document.joinNl (prose5.map strip)) = true := by decide +kernel
example : inertBody4 (Document.joinNl (prose5.map strip)) = false := by decide +kernel

/-- instance of `C14_prose_text5` (the right-hand sides are literal) -/
example : Document.parse cfgHtml 14 (L "  5 < 6 & 7 > 2, a] (b) and x](y)\nif i<n; then j>0, AT&T </3\na <b c, x<y z, 1 <a href\n") =
    .ok { kids := [.paragraph [.rawText (L "5 < 6 & 7 > 2, a] (b) and x](y)"), .lineBreak [] true,
                               .rawText (L "if i<n; then j>0, AT&T </3"), .lineBreak [] true,
                               .rawText (L "a <b c, x<y z, 1 <a href")] 1], footnotes := [] } :=
  (C14_prose_text5 cfgHtml (by decide) htmlSpanTypes_inert (by decide) prose5 (by decide) (by decide +kernel)
    prose5_lines_ok prose5_text_ok 0).1

/-- instance of `C14_prose_html5`: the regenerated HTML configuration, default options -/
example : Config.renderHtml {} 14 prose5.flatten =
    some (L "<p>5 &lt; 6 &amp; 7 &gt; 2, a] (b) and x](y)\nif i&lt;n; then j&gt;0, AT&amp;T &lt;/3\na &lt;b c, x&lt;y z, 1 &lt;a href</p>\n") := by
  rw [C14_prose_html5 prose5 (by decide) (by decide +kernel) prose5_lines_ok prose5_text_ok {} 0]
  decide +kernel

end Mistletoe.Props.C14
