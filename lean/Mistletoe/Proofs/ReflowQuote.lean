/-
  C10 (reflow), prose inside block quotes — the Markdown renderer WITH a line limit (`max_line_length = L`) on
  documents made of paragraphs of plain words inside `k` nested block quotes written with "> " markers.

  Fragment: as in Proofs/Reflow.lean (`plainPara`: lines of `plainWord`s joined by single spaces), every line of the
  document — the empty separator lines included — behind `k` markers "> " (`linesQ`, `textOfQ`; this is how the
  renderer itself writes quotes, C09).  The mechanism of the property: `render_quote` hands
  `max(max_line_length - 2, 1)` to its children, so at depth `k` the paragraphs are filled with the budget
  `qBudget L k = max (L - 2k) 1` (`qBud`, `qBud_eq`): the prefix width is taken off the limit, and the clamp keeps
  the budget truthy (wrapping never switches off inside a container, `C10_wrapping_stays_on`).

  * `parse_quoted`      — `Document(text)` under any token lists `pre ++ Quote :: post` (C04's hypothesis) with
                          `Paragraph`: `k` nested `Quote`s around the paragraphs (`BlankLine`s when a token type);
                          for that, `tokenize_qLinesL`: C04 iterated, the inner buffer may be loose;
  * `renderBlocks_qBlocks_wrap`, `reflowQ_render` (1) — the output is `k` markers before the paragraphs re-filled
                          with `Wrap.fill (qBudget L k)`;
  * `reflowQ_bound`, `reflowQ_line_bound` (2) — a body longer than the budget is a single word; a whole line longer
                          than `L` has a body that is a single word (no whitespace after the container prefix);
  * `reflowQ_meaning` (3) — the output is in the fragment, same words per paragraph, its parse is `k` quotes around
                          the re-broken paragraphs, HTML equal after "\n" ↦ " " (`nlToSp`), closed form `qHtml`;
  * `reflowQ_idempotent` (4) — reflowing again with the same `L` changes nothing.

  Final theorems: `C10_quoted_reflow_partial`, `C10_quoted_reflow_meaning_partial`,
  `C10_quoted_reflow_idempotent_partial` (`Config.markdown`; `Config.html` for the meaning).  Nothing in (1)–(4)
  turned out false on the model: the clamp does not break idempotence, because the budget is a function of `L` and
  `k` only and the output has the same depth `k`.
-/
import Mistletoe.Proofs.Reflow
namespace Mistletoe.ReflowQuote
open Mistletoe Mistletoe.Py Mistletoe.Wrap Mistletoe.Markdown Mistletoe.InertInline Mistletoe.MdRound Mistletoe.Reflow
open Mistletoe.Block (Line Entry Buf St tokenizeBlock quoteSp BTok blockPhase)
open Mistletoe.Props.C10 (joinWords fillG)
open Mistletoe.Props.C14 (inertLine joinBlank numbered paraEntries)
open Mistletoe.Props.C09 (normalPara ParaFacts normalPara_facts)

/-! ### block phase: `k` markers around lines whose own buffer may be loose -/

/-- looseness of the buffer at depth `k` counted from the inside: the innermost one is the document's, every
    buffer holding just a `Quote` is not loose -/
def qLoose (lo : Bool) : Nat → Bool
  | 0 => lo
  | _ + 1 => false

/-- `k` nested `Quote` entries around the entries `E` of a buffer with looseness `lo` -/
def qEntriesL (start o : Nat) (E : List Entry) (lo : Bool) : Nat → List Entry
  | 0 => E
  | k + 1 => [.quote (qEntriesL start o E lo k) (qLoose lo k) start o]

/-- `tokenize_qLines` of C09 without the restriction that the inner buffer is not loose (under the HTML renderer's
    token lists `BlankLine` is not a token type, and a document of several paragraphs is a loose buffer) -/
theorem tokenize_qLinesL (cfg : Block.Cfg) (pre post : List BTok) (hty : cfg.types = pre ++ .quote :: post)
    (hnq : .quote ∉ pre) (hnp : .paragraph ∉ pre) (l0 : Line) (ls : List Line) (hnt : ∀ l ∈ l0 :: ls, '\t' ∉ l.s)
    (start : Nat) (E : List Entry) (lo : Bool) (G : Nat)
    (h0 : ∀ st, tokenizeBlock cfg G (l0 :: ls) start st = .ok ({ entries := E, loose := lo }, st)) :
    ∀ (k : Nat) (st : St), ∃ st', tokenizeBlock cfg (G + k * (pre.length + 3)) (qLines k (l0 :: ls)) start st =
        .ok ({ entries := qEntriesL start l0.origin E lo k, loose := qLoose lo k }, st') ∧ st'.defs = st.defs
  | 0, st => ⟨st, by simpa [qLines, qEntriesL, qLoose] using h0 st, rfl⟩
  | k + 1, st => by
    obtain ⟨st1, h1, hd⟩ := tokenize_qLinesL cfg pre post hty hnq hnp l0 ls hnt start E lo G h0 k { st with setext := false }
    rw [qLines_cons] at h1
    have hk := qLines_notab k (l0 :: ls) hnt
    rw [qLines_cons] at hk
    have := Mistletoe.Props.C04.C04_quote_wraps cfg pre post hty hnq hnp (qLine k l0) (qLines k ls) hk start st st1 _ _ h1
    refine ⟨{ st1 with setext := true }, ?_, hd⟩
    have e : G + (k + 1) * (pre.length + 3) = G + k * (pre.length + 3) + (pre.length + 3) := by rw [Nat.succ_mul]; omega
    simp only [qLines, qEntriesL]
    rw [e, qLines_cons, this, qLine_origin]
    rfl

theorem mkBlocks_qEntriesL (cfg : Document.Cfg) (fn : Footnotes.Table) (start o : Nat) (E : List Entry) (lo : Bool)
    (B : List Mistletoe.Block) (h : Document.mkBlocks cfg fn E = .ok B) :
    ∀ k, Document.mkBlocks cfg fn (qEntriesL start o E lo k) = .ok (qBlocks start B k)
  | 0 => h
  | k + 1 => by
    simp only [qEntriesL, qBlocks, Document.mkBlocks, Document.mkBlock, mkBlocks_qEntriesL cfg fn start o E lo B h k]

/-! ### the fragment -/

/-- the lines of the document: paragraphs `p, q₁, q₂, …` (lines of words), one empty line between consecutive ones,
    every line behind `k` markers "> " (the separators become "> … > \n") -/
abbrev linesQ (k : Nat) (p : List (List Str)) (rest : List (List (List Str))) : List Str :=
  qStrs k (joinBlank (paraLines p) (rest.map paraLines))

/-- the document as a `str` -/
abbrev textOfQ (k : Nat) (p : List (List Str)) (rest : List (List (List Str))) : Str := (linesQ k p rest).flatten

/-- the container prefix at depth `k`: `"> " * k` -/
def qPre : Nat → Str
  | 0 => []
  | k + 1 => '>' :: ' ' :: qPre k

theorem qPre_length : ∀ k, (qPre k).length = 2 * k
  | 0 => rfl
  | k + 1 => by simp only [qPre, List.length_cons, qPre_length k]; omega

theorem qStrs_eq_map : ∀ (k : Nat) (ss : List Str), qStrs k ss = ss.map (qPre k ++ ·)
  | 0, ss => by simp [qStrs, qPre]
  | k + 1, ss => by simp [qStrs, qPre, qStrs_eq_map k ss]

theorem joinBlank_all (P : Str → Prop) (hnl : P ['\n']) : ∀ (rest : List (List Str)) (p : List Str),
    (∀ l ∈ p, P l) → (∀ q ∈ rest, ∀ l ∈ q, P l) → ∀ l ∈ joinBlank p rest, P l
  | [], p, hp, _ => by simpa [joinBlank] using hp
  | q :: rest, p, hp, hr => by
    have ih := joinBlank_all P hnl rest q (hr q (by simp)) (fun x hx => hr x (List.mem_cons_of_mem _ hx))
    intro l hl
    simp only [joinBlank, List.mem_append, List.mem_cons] at hl
    rcases hl with hl | rfl | hl
    · exact hp l hl
    · exact hnl
    · exact ih l hl

theorem lineOf_notab (ws : List Str) (h : plainWords ws = true) : '\t' ∉ lineOf ws := by
  obtain ⟨_, hw⟩ := plainWords_facts ws h
  intro hm
  simp only [lineOf, List.mem_append, List.mem_singleton] at hm
  rcases hm with hm | hm
  · rcases joinWords_mem ws _ hm with h | ⟨w, hw', hx⟩
    · revert h; decide
    · have := wordChar_nsp _ ((hw w hw').chars _ hx)
      revert this; decide
  · revert hm; decide

theorem linesQ_notab (p : List (List Str)) (rest : List (List (List Str))) (hp : plainPara p = true)
    (hrest : ∀ q ∈ rest, plainPara q = true) : ∀ l ∈ joinBlank (paraLines p) (rest.map paraLines), '\t' ∉ l := by
  apply joinBlank_all (fun l => '\t' ∉ l) (by decide)
  · intro l hl
    obtain ⟨ws, hws, rfl⟩ := List.mem_map.mp hl
    exact lineOf_notab ws ((plainPara_facts p hp).2 ws hws)
  · intro q hq l hl
    obtain ⟨q', hq', rfl⟩ := List.mem_map.mp hq
    obtain ⟨ws, hws, rfl⟩ := List.mem_map.mp hl
    exact lineOf_notab ws ((plainPara_facts q' (hrest q' hq')).2 ws hws)

/-! ### `Document(text)` -/

/-- **`Document(text)` on plain-word paragraphs inside `k` nested block quotes.**  `cfg.block.types = pre ++ Quote ::
    post` with neither `Quote` nor `Paragraph` in `pre` (C04), `Paragraph` a block type, covered span classes with
    `LineBreak` once: the tree is `k` nested `Quote`s around the `Paragraph`s (lines as `RawText`s with soft
    `LineBreak`s; `BlankLine`s between them iff `BlankLine` is a token type); no link definitions. -/
theorem parse_quoted (cfg : Document.Cfg) (pre post : List BTok)
    (hty : cfg.block.types = pre ++ .quote :: post) (hnq : .quote ∉ pre) (hnp : .paragraph ∉ pre)
    (hpar : .paragraph ∈ cfg.block.types)
    (ht : ∀ t ∈ cfg.span, inertClass t = true) (hc : cfg.span.count .lineBreak = 1)
    (p : List (List Str)) (rest : List (List (List Str))) (hp : plainPara p = true) (hrest : ∀ q ∈ rest, plainPara q = true)
    (k : Nat) (gas : Nat) :
    Document.parse cfg (gas + (2 * rest.length + cfg.block.types.length + 4) + k * (pre.length + 3)) (textOfQ k p rest) =
      .ok { kids := qBlocks 1 (proseBlocksB (cfg.block.types.contains .blankLine) 1 (paraLines p) (rest.map paraLines)) k,
            footnotes := Document.footnotesOf [] } := by
  have np := normalPara_of_plain p hp
  have fp := normalPara_facts _ np
  have fr : ∀ q ∈ rest.map paraLines, ParaFacts q := by
    intro q hq
    obtain ⟨q', hq', rfl⟩ := List.mem_map.mp hq
    exact normalPara_facts _ (normalPara_of_plain q' (hrest q' hq'))
  obtain ⟨s, ss', hss⟩ : ∃ s ss', joinBlank (paraLines p) (rest.map paraLines) = s :: ss' := by
    cases hj : joinBlank (paraLines p) (rest.map paraLines) with
    | nil =>
      exfalso
      cases hpl : paraLines p with
      | nil => exact fp.ne hpl
      | cons a p' => rw [hpl] at hj; cases hr : rest.map paraLines <;> rw [hr] at hj <;> simp [joinBlank] at hj
    | cons s ss' => exact ⟨s, ss', rfl⟩
  have hnum : numbered 0 (joinBlank (paraLines p) (rest.map paraLines)) = { s := s, origin := 1 } :: numbered 1 ss' := by
    rw [hss, Mistletoe.Props.C14.numbered_cons]
  have h0 : ∀ st, tokenizeBlock cfg.block (gas + (2 * rest.length + cfg.block.types.length + 4))
      ({ s := s, origin := 1 } :: numbered 1 ss') 1 st =
        .ok ({ entries := paraEntries (cfg.block.types.contains .blankLine) 1 (paraLines p) (rest.map paraLines),
               loose := !cfg.block.types.contains .blankLine && !(rest.map paraLines).isEmpty }, st) := by
    intro st
    have := tokenize_prose_doc cfg.block hpar (paraLines p) (rest.map paraLines) ⟨fp.ne, fp.inert⟩
      (fun q hq => ⟨(fr q hq).ne, (fr q hq).inert⟩) gas st
    rw [hnum, List.length_map] at this
    exact this
  have hnt' : ∀ l ∈ ({ s := s, origin := 1 } : Line) :: numbered 1 ss', '\t' ∉ l.s := by
    intro l hl
    rw [← hnum] at hl
    exact linesQ_notab p rest hp hrest _ (Mistletoe.Props.C14.numbered_mem _ _ _ hl)
  obtain ⟨st', hq, hd⟩ := tokenize_qLinesL cfg.block pre post hty hnq hnp _ _ hnt' 1 _ _ _ h0 k {}
  have hphase : blockPhase cfg.block (gas + (2 * rest.length + cfg.block.types.length + 4) + k * (pre.length + 3))
      (qStrs k (joinBlank (paraLines p) (rest.map paraLines))) =
        .ok ({ entries := qEntriesL 1 1 (paraEntries (cfg.block.types.contains .blankLine) 1 (paraLines p) (rest.map paraLines))
                (!cfg.block.types.contains .blankLine && !(rest.map paraLines).isEmpty) k,
               loose := qLoose (!cfg.block.types.contains .blankLine && !(rest.map paraLines).isEmpty) k }, st') := by
    have e : ∀ g ls, blockPhase cfg.block g ls = tokenizeBlock cfg.block g (numbered 0 ls) 1 {} := fun _ _ => rfl
    rw [e, numbered_qStrs, hnum]
    exact hq
  have hdefs : st'.defs = [] := hd
  have hmk := mkBlocks_qEntriesL cfg (Document.footnotesOf []) 1 1 _
    (!cfg.block.types.contains .blankLine && !(rest.map paraLines).isEmpty) _
    (mkBlocks_paraEntriesB cfg (Document.footnotesOf []) ht hc (cfg.block.types.contains .blankLine)
      (rest.map paraLines) (paraLines p) 1 fp.para (fun q hq => (fr q hq).para)) k
  have h1 := qStrs_oneLine k _ (oneLine_textOf p rest hp hrest)
  rw [show textOfQ k p rest = (qStrs k (joinBlank (paraLines p) (rest.map paraLines))).flatten from rfl,
    parse_lines cfg _ _ h1]
  unfold Document.parseLines
  rw [hphase]
  simp only [hdefs]
  rw [hmk]

/-! ### the budget at depth `k` -/

/-- the limit the model hands down through `k` quotes: `max(· - 2, 1)` at every level (`render_quote`) -/
def qBud : Int → Nat → Int
  | n, 0 => n
  | n, k + 1 => qBud (max (n - 2) 1) k

theorem qBud_ne : ∀ (k : Nat) (n : Int), n ≠ 0 → qBud n k ≠ 0
  | 0, _, h => h
  | k + 1, n, _ => qBud_ne k (max (n - 2) 1) (by omega)

/-- closed form: the prefix width `2k` is taken off the limit, never below 1 -/
theorem qBud_eq : ∀ (k : Nat) (n : Int), 1 ≤ n → qBud n k = max (n - 2 * k) 1
  | 0, n, h => by simp only [qBud]; omega
  | k + 1, n, h => by
    simp only [qBud]
    rw [qBud_eq k (max (n - 2) 1) (by omega)]
    omega

/-- **the fill budget at depth `k`** for `max_line_length = L` -/
def qBudget (L k : Nat) : Nat := max (L - 2 * k) 1

theorem qBud_toNat (L k : Nat) (hL : 1 ≤ L) : (qBud (L : Int) k).toNat = qBudget L k := by
  rw [qBud_eq k L (by omega)]
  simp only [qBudget]
  omega

/-! ### the renderer -/

theorem childBudget_quote (n : Int) (hn : n ≠ 0) : childBudget (some n) 2 = some (max (n - 2) 1) := by
  simp [childBudget, hn]

/-- **`render_quote` with a line limit, iterated**: `k` quotes around blocks `B` render to `k` markers before what
    `B` renders to under the budget handed down (`qBud n k`) -/
theorem renderBlocks_qBlocks_wrap (o : Opts) (ln : Nat) (B : List Mistletoe.Block) (f : Int → List Str)
    (h : ∀ m : Int, m ≠ 0 → renderBlocks o (some m) B = .ok (f m)) :
    ∀ (k : Nat) (n : Int), n ≠ 0 → renderBlocks o (some n) (qBlocks ln B k) = .ok (qStrs k (f (qBud n k)))
  | 0, n, hn => h n hn
  | k + 1, n, hn => by
    have ih := renderBlocks_qBlocks_wrap o ln B f h k (max (n - 2) 1) (by omega)
    simp only [qBlocks, qStrs, qBud, renderBlocks, renderBlock, childBudget_quote n hn, ih, prefixLines_quote,
      List.append_nil]

theorem proseBlocksB_true : ∀ (rest : List (List Str)) (p : List Str) (n : Nat),
    proseBlocksB true n p rest = proseBlocks n p rest
  | [], _, _ => rfl
  | q :: rest, p, n => by
    simp only [proseBlocksB, proseBlocks, if_true, List.cons_append, List.nil_append,
      proseBlocksB_true rest q (n + p.length + 1)]

theorem wrapOut_lines (L : Nat) : ∀ (rest : List (List (List Str))) (p : List (List Str)),
    (wrapOut L p rest).map (· ++ ['\n']) = joinBlank (reflowLines L p) (rest.map (reflowLines L))
  | [], p => by simp [wrapOut, joinBlank, reflowLines]
  | q :: rest, p => by
    simp only [wrapOut, List.map_append, List.map_cons, wrapOut_lines L rest q, joinBlank, reflowLines, List.nil_append]

/-- the lines of the re-broken document are the lines of the regrouped document -/
theorem reflowQ_lines_eq (L : Nat) (p : List (List Str)) (rest : List (List (List Str))) (hp : plainPara p = true)
    (hrest : ∀ q ∈ rest, plainPara q = true) :
    joinBlank (reflowLines L p) (rest.map (reflowLines L)) =
      joinBlank (paraLines (reflowG L p)) ((rest.map (reflowG L)).map paraLines) := by
  have e : rest.map (reflowLines L) = (rest.map (reflowG L)).map paraLines := by
    rw [List.map_map]
    exact List.map_congr_left (fun q hq => reflowLines_eq L q (hrest q hq))
  rw [reflowLines_eq L p hp, e]

/-- **(1) the renderer with a line limit refills every paragraph inside the quotes with the budget of its depth.**
    `n` = `max_line_length` (truthy); the output is the text of the same fragment at the same depth whose
    paragraphs are regrouped by the greedy fill with the limit `qBud n k` handed down through `k` quotes. -/
theorem reflowQ_render (cfg : Document.Cfg) (pre post : List BTok)
    (hty : cfg.block.types = pre ++ .quote :: post) (hnq : .quote ∉ pre) (hnp : .paragraph ∉ pre)
    (hpar : .paragraph ∈ cfg.block.types) (hbl : .blankLine ∈ cfg.block.types)
    (ht : ∀ t ∈ cfg.span, inertClass t = true) (hc : cfg.span.count .lineBreak = 1)
    (p : List (List Str)) (rest : List (List (List Str))) (hp : plainPara p = true) (hrest : ∀ q ∈ rest, plainPara q = true)
    (k : Nat) (o : Opts) (n : Int) (hn : n ≠ 0) (ho : o.maxLineLength = some n) (gas : Nat) :
    ∃ d, Document.parse cfg (gas + (2 * rest.length + cfg.block.types.length + 4) + k * (pre.length + 3)) (textOfQ k p rest) = .ok d ∧
      d.kids = qBlocks 1 (proseBlocks 1 (paraLines p) (rest.map paraLines)) k ∧
      renderRes o d = .ok (textOfQ k (reflowG (qBud n k).toNat p) (rest.map (reflowG (qBud n k).toNat))) := by
  have hb : cfg.block.types.contains .blankLine = true := by simpa using hbl
  have hparse := parse_quoted cfg pre post hty hnq hnp hpar ht hc p rest hp hrest k gas
  rw [hb, proseBlocksB_true] at hparse
  refine ⟨_, hparse, rfl, ?_⟩
  have hr := renderBlocks_qBlocks_wrap o 1 (proseBlocks 1 (paraLines p) (rest.map paraLines))
    (fun m => wrapOut m.toNat p rest)
    (fun m hm => renderBlocks_wrap o m hm rest p 1 (plainPara_facts p hp).2 (fun q hq => (plainPara_facts q (hrest q hq)).2))
    k n hn
  simp only [renderRes, ho, hr]
  rw [joinLines_eq, qStrs_nl, wrapOut_lines, reflowQ_lines_eq _ p rest hp hrest]

/-! ### (2) the limit, after the container prefix -/

theorem joinWords_two_le (w y : Str) (ys : List Str) (hw : w ≠ []) : 2 ≤ (joinWords (w :: y :: ys)).length := by
  cases w with
  | nil => exact absurd rfl hw
  | cons c r => simp only [joinWords, List.length_append, List.length_cons, List.length_nil]; omega

/-- **(2) the bound at depth `k`.**  `body` is an output line of a paragraph without its `k` markers.  If it is
    longer than the budget of its depth it is one single word of the paragraph — no whitespace, so no breakable
    space after the container prefix.  In terms of the whole line `"> " * k ++ body`: if THAT is longer than `L`, the
    body is one single word as well (when the budget is clamped to 1 — `L ≤ 2k` — every line holds exactly one word,
    and every line is longer than `L`). -/
theorem reflowQ_bound (L k : Nat) (g : List (List Str)) (hg : plainPara g = true) :
    ∀ body ∈ fill (qBudget L k) g.flatten,
      (qBudget L k < body.length ∨ L < (qPre k ++ body).length) → body ∈ g.flatten ∧ ∀ c ∈ body, pyIsSpace c = false := by
  intro body hb hlong
  have hbound := reflow_bound (qBudget L k) g hg body hb
  by_cases h1 : qBudget L k < body.length
  · exact hbound h1
  · have h2 : L < (qPre k ++ body).length := by
      rcases hlong with h | h
      · exact absurd h h1
      · exact h
    rw [List.length_append, qPre_length] at h2
    -- the budget is clamped: 1; a line of at most one character is one word
    have hB : qBudget L k = 1 := by simp only [qBudget] at h1 ⊢; omega
    have hlen : body.length ≤ 1 := by omega
    have f := reflowFacts (qBudget L k) g hg
    rw [f.lines] at hb
    obtain ⟨grp, hgrp, rfl⟩ := List.mem_map.mp hb
    obtain ⟨_, hpl⟩ := plainPara_facts _ f.plain
    obtain ⟨hne, hw⟩ := plainWords_facts grp (hpl grp hgrp)
    have hmem : ∀ w ∈ grp, w ∈ g.flatten := by
      intro w hw'
      rw [← f.words]
      exact List.mem_flatten.mpr ⟨grp, hgrp, hw'⟩
    cases grp with
    | nil => exact absurd rfl hne
    | cons w ws =>
      cases ws with
      | nil =>
        simp only [joinWords]
        exact ⟨hmem w (by simp), fun c hc => wordChar_nsp c ((hw w (by simp)).chars c hc)⟩
      | cons y ys =>
        have := joinWords_two_le w y ys (hw w (by simp)).ne
        omega

/-- the lines of the output, one by one: `k` markers, a body, "\n"; the body is empty (separator) or a line the
    fill loop made of the words of one of the paragraphs -/
theorem reflowQ_lines (B k : Nat) (p : List (List Str)) (rest : List (List (List Str))) (hp : plainPara p = true)
    (hrest : ∀ q ∈ rest, plainPara q = true) :
    ∀ l ∈ linesQ k (reflowG B p) (rest.map (reflowG B)),
      ∃ body, l = qPre k ++ body ++ ['\n'] ∧ (body = [] ∨ ∃ q ∈ p :: rest, body ∈ fill B q.flatten) := by
  intro l hl
  rw [linesQ, qStrs_eq_map] at hl
  obtain ⟨x, hx, rfl⟩ := List.mem_map.mp hl
  rw [← reflowQ_lines_eq B p rest hp hrest] at hx
  have key : ∀ l ∈ joinBlank (reflowLines B p) (rest.map (reflowLines B)),
      ∃ body, l = body ++ ['\n'] ∧ (body = [] ∨ ∃ q ∈ p :: rest, body ∈ fill B q.flatten) := by
    apply joinBlank_all (fun l => ∃ body, l = body ++ ['\n'] ∧ (body = [] ∨ ∃ q ∈ p :: rest, body ∈ fill B q.flatten))
    · exact ⟨[], rfl, Or.inl rfl⟩
    · intro l hl
      obtain ⟨b, hb, rfl⟩ := List.mem_map.mp hl
      exact ⟨b, rfl, Or.inr ⟨p, by simp, hb⟩⟩
    · intro q hq l hl
      obtain ⟨q', hq', rfl⟩ := List.mem_map.mp hq
      obtain ⟨b, hb, rfl⟩ := List.mem_map.mp hl
      exact ⟨b, rfl, Or.inr ⟨q', List.mem_cons_of_mem _ hq', hb⟩⟩
  obtain ⟨body, rfl, h⟩ := key x hx
  exact ⟨body, by simp, h⟩

/-- **(2) for the lines of the output text**: every line of the rendered document is `"> " * k ++ body ++ "\n"`,
    where the body is empty (a separator line) or a line the fill loop made of one paragraph's words; and if the
    line without its "\n" is longer than `L`, or the body longer than the budget of depth `k`, then the body
    contains no whitespace — there is no breakable space after the container prefix. -/
theorem reflowQ_line_bound (L k : Nat) (p : List (List Str)) (rest : List (List (List Str))) (hp : plainPara p = true)
    (hrest : ∀ q ∈ rest, plainPara q = true) :
    ∀ l ∈ linesQ k (reflowG (qBudget L k) p) (rest.map (reflowG (qBudget L k))),
      ∃ body, l = qPre k ++ body ++ ['\n'] ∧ (body = [] ∨ ∃ q ∈ p :: rest, body ∈ fill (qBudget L k) q.flatten) ∧
        ((qBudget L k < body.length ∨ L < (qPre k ++ body).length) → ∀ c ∈ body, pyIsSpace c = false) := by
  intro l hl
  obtain ⟨body, e, h⟩ := reflowQ_lines (qBudget L k) k p rest hp hrest l hl
  refine ⟨body, e, h, ?_⟩
  intro hlong
  rcases h with rfl | ⟨q, hq, hb⟩
  · intro c hc; cases hc
  · have hq' : plainPara q = true := by
      rcases List.mem_cons.mp hq with rfl | hq
      · exact hp
      · exact hrest q hq
    exact (reflowQ_bound L k q hq' body hb hlong).2

/-! ### (3) same words, same meaning -/

/-- the HTML of `k` nested block quotes around content whose HTML (every child followed by "\n") is `s` -/
def bqOpen : Str := ['<', 'b', 'l', 'o', 'c', 'k', 'q', 'u', 'o', 't', 'e', '>', '\n']
def bqClose : Str := ['<', '/', 'b', 'l', 'o', 'c', 'k', 'q', 'u', 'o', 't', 'e', '>']

def qHtml : Nat → Str → Str
  | 0, s => s
  | k + 1, s => bqOpen ++ qHtml k s ++ bqClose ++ ['\n']

theorem flat_nl : Html.flat [Html.nl] = ['\n'] := rfl
theorem flat_nil' : Html.flat [] = [] := rfl
theorem flat_open : Html.flat [Html.Ev.otag "blockquote".toList [], Html.nl] = bqOpen := by decide
theorem flat_close : Html.flat [Html.Ev.ctag "blockquote".toList] = bqClose := by decide

theorem afterEach_eq (q : Html.Quotes) : ∀ (B : List Mistletoe.Block), B ≠ [] →
    Html.flat (Html.renderAfterEach q false B) = Html.flat (Html.renderSep q false B) ++ ['\n']
  | [], h => absurd rfl h
  | [b], _ => by
    simp only [Html.renderAfterEach, Html.renderSep, flat_append, flat_nl, List.append_nil]
  | b :: c :: cs, _ => by
    have ih := afterEach_eq q (c :: cs) (by simp)
    rw [Html.renderAfterEach, renderSep_cons q b (c :: cs) (by simp), flat_append, flat_append, flat_append, flat_append, ih]
    simp

theorem flat_quote (q : Html.Quotes) (K : List Mistletoe.Block) (ln : Nat) :
    Html.flat (Html.renderBlock q false (.quote K ln)) =
      bqOpen ++ Html.flat (Html.renderAfterEach q false K) ++ bqClose := by
  simp only [Html.renderBlock, flat_append, flat_open, flat_close]

theorem flat_afterEach_one (q : Html.Quotes) (K : List Mistletoe.Block) (ln : Nat) :
    Html.flat (Html.renderAfterEach q false [.quote K ln]) =
      bqOpen ++ Html.flat (Html.renderAfterEach q false K) ++ bqClose ++ ['\n'] := by
  simp only [Html.renderAfterEach, flat_append, flat_quote, flat_nl, List.append_nil]

theorem flat_afterEach_q (q : Html.Quotes) (ln : Nat) (B : List Mistletoe.Block) : ∀ k,
    Html.flat (Html.renderAfterEach q false (qBlocks ln B k)) = qHtml k (Html.flat (Html.renderAfterEach q false B))
  | 0 => by rw [qBlocks, qHtml]
  | k + 1 => by
    rw [qBlocks, qHtml, flat_afterEach_one, flat_afterEach_q q ln B k]

theorem flat_afterEach_prose (q : Html.Quotes) (bl : Bool) (n : Nat) (p : List Str) (rest : List (List Str)) :
    Html.flat (Html.renderAfterEach q false (proseBlocksB bl n p rest)) =
      htmlParas q.dq q.sq (paraSep bl) (Document.joinNl (p.map strip)) (rest.map (fun x => Document.joinNl (x.map strip))) := by
  rw [afterEach_eq q _ (proseBlocksB_ne bl n p rest), flat_sep]

/-- the document consisting of one block quote -/
theorem render_one_quote (o : Html.Opts) (K : List Mistletoe.Block) (ln : Nat) (fn : Footnotes.Table) :
    Html.render o { kids := [.quote K ln], footnotes := fn } = Html.flat (Html.renderAfterEach o.q false [.quote K ln]) := by
  have hne : (Html.flat (Html.renderBlock o.q false (.quote K ln))).isEmpty = false := by
    rw [flat_quote]; rfl
  simp only [Html.render, Html.renderDoc, Html.renderSep, hne, Bool.false_eq_true, if_false, Html.renderAfterEach,
    flat_append, flat_nl, List.append_nil]

/-- **the HTML of a prose document inside `k` block quotes**: `qHtml k` of the HTML of the prose document -/
theorem render_qProse (o : Html.Opts) (bl : Bool) (n : Nat) (p : List Str) (rest : List (List Str)) (fn : Footnotes.Table) :
    ∀ k, Html.render o { kids := qBlocks n (proseBlocksB bl n p rest) k, footnotes := fn } =
      qHtml k (htmlParas o.dq o.sq (paraSep bl) (Document.joinNl (p.map strip))
        (rest.map (fun x => Document.joinNl (x.map strip))))
  | 0 => render_proseB o bl n p rest fn
  | k + 1 => by
    have h := flat_afterEach_q o.q n (proseBlocksB bl n p rest) (k + 1)
    rw [flat_afterEach_prose] at h
    simp only [qBlocks] at h ⊢
    rw [render_one_quote, h]
    rfl

theorem nlToSp_qHtml (s s' : Str) (h : nlToSp s = nlToSp s') : ∀ k, nlToSp (qHtml k s) = nlToSp (qHtml k s')
  | 0 => by rw [qHtml, qHtml]; exact h
  | k + 1 => by simp only [qHtml, nlToSp_append, nlToSp_qHtml s s' h k]

/-- the HTML of a quoted plain-word document with "\n" → " ": that of the same paragraphs written on one line each -/
theorem html_normQ (o : Html.Opts) (bl : Bool) (fn : Footnotes.Table) (k : Nat)
    (p : List (List Str)) (rest : List (List (List Str))) (hp : plainPara p = true) (hrest : ∀ q ∈ rest, plainPara q = true) :
    nlToSp (Html.render o { kids := qBlocks 1 (proseBlocksB bl 1 (paraLines p) (rest.map paraLines)) k, footnotes := fn }) =
      nlToSp (qHtml k (htmlParas o.dq o.sq (paraSep bl) (joinWords p.flatten) (rest.map (fun q => joinWords q.flatten)))) := by
  have e := html_norm o bl 1 fn p rest hp hrest
  rw [render_proseB] at e
  rw [render_qProse]
  exact nlToSp_qHtml _ _ e k

/-- **(3) same words, same meaning.**  Under every token configuration `pre ++ Quote :: post` with `Paragraph`,
    covered span classes and `LineBreak` once, and for every fill limit `B`: the re-broken text is again in the
    fragment at the same depth with the same word sequence per paragraph; both texts parse, to `k` nested `Quote`s
    around their paragraphs; and their HTML (every quote option) is equal once every "\n" is replaced by a space,
    the common value being `k` `<blockquote>`s around the paragraphs written on one line each. -/
theorem reflowQ_meaning (cfg : Document.Cfg) (pre post : List BTok)
    (hty : cfg.block.types = pre ++ .quote :: post) (hnq : .quote ∉ pre) (hnp : .paragraph ∉ pre)
    (hpar : .paragraph ∈ cfg.block.types)
    (ht : ∀ t ∈ cfg.span, inertClass t = true) (hc : cfg.span.count .lineBreak = 1)
    (p : List (List Str)) (rest : List (List (List Str))) (hp : plainPara p = true) (hrest : ∀ q ∈ rest, plainPara q = true)
    (k : Nat) (B : Nat) (gas : Nat) :
    (∀ q ∈ p :: rest, plainPara (reflowG B q) = true ∧ (reflowG B q).flatten = q.flatten) ∧
    ∃ d d', Document.parse cfg (gas + (2 * rest.length + cfg.block.types.length + 4) + k * (pre.length + 3)) (textOfQ k p rest) = .ok d ∧
      Document.parse cfg (gas + (2 * rest.length + cfg.block.types.length + 4) + k * (pre.length + 3))
        (textOfQ k (reflowG B p) (rest.map (reflowG B))) = .ok d' ∧
      d.kids = qBlocks 1 (proseBlocksB (cfg.block.types.contains .blankLine) 1 (paraLines p) (rest.map paraLines)) k ∧
      d'.kids = qBlocks 1 (proseBlocksB (cfg.block.types.contains .blankLine) 1 (paraLines (reflowG B p))
        ((rest.map (reflowG B)).map paraLines)) k ∧
      ∀ o : Html.Opts, nlToSp (Html.render o d') = nlToSp (Html.render o d) ∧
        nlToSp (Html.render o d) = nlToSp (qHtml k (htmlParas o.dq o.sq (paraSep (cfg.block.types.contains .blankLine))
          (joinWords p.flatten) (rest.map (fun q => joinWords q.flatten)))) := by
  constructor
  · intro q hq
    have hq' : plainPara q = true := by
      rcases List.mem_cons.mp hq with rfl | hq
      · exact hp
      · exact hrest q hq
    exact ⟨(reflowFacts B q hq').plain, (reflowFacts B q hq').words⟩
  have h1 := parse_quoted cfg pre post hty hnq hnp hpar ht hc p rest hp hrest k gas
  have h2 := parse_quoted cfg pre post hty hnq hnp hpar ht hc (reflowG B p) (rest.map (reflowG B)) (reflowFacts B p hp).plain
    (reflow_plain B rest hrest) k gas
  rw [List.length_map] at h2
  refine ⟨_, _, h1, h2, rfl, rfl, ?_⟩
  intro o
  have e1 := html_normQ o (cfg.block.types.contains .blankLine) (Document.footnotesOf []) k p rest hp hrest
  have e2 := html_normQ o (cfg.block.types.contains .blankLine) (Document.footnotesOf []) k (reflowG B p) (rest.map (reflowG B))
    (reflowFacts B p hp).plain (reflow_plain B rest hrest)
  have e3 : (rest.map (reflowG B)).map (fun q => joinWords q.flatten) = rest.map (fun q => joinWords q.flatten) := by
    rw [List.map_map]
    exact List.map_congr_left (fun q hq => by simp only [Function.comp, (reflowFacts B q (hrest q hq)).words])
  rw [(reflowFacts B p hp).words, e3] at e2
  exact ⟨by rw [e2, e1], e1⟩

/-! ### (4) idempotence -/

/-- **(4) reflowing the output again with the same limit changes nothing**: the output is in the fragment at the
    same depth, so the budget is the same; its words are the same sequence; the fill loop is a function of the word
    sequence. -/
theorem reflowQ_idempotent (cfg : Document.Cfg) (pre post : List BTok)
    (hty : cfg.block.types = pre ++ .quote :: post) (hnq : .quote ∉ pre) (hnp : .paragraph ∉ pre)
    (hpar : .paragraph ∈ cfg.block.types) (hbl : .blankLine ∈ cfg.block.types)
    (ht : ∀ t ∈ cfg.span, inertClass t = true) (hc : cfg.span.count .lineBreak = 1)
    (p : List (List Str)) (rest : List (List (List Str))) (hp : plainPara p = true) (hrest : ∀ q ∈ rest, plainPara q = true)
    (k : Nat) (o : Opts) (n : Int) (hn : n ≠ 0) (ho : o.maxLineLength = some n) (gas : Nat) :
    ∃ d out, Document.parse cfg (gas + (2 * rest.length + cfg.block.types.length + 4) + k * (pre.length + 3)) (textOfQ k p rest) = .ok d ∧
      renderRes o d = .ok out ∧
      ∃ d', Document.parse cfg (gas + (2 * rest.length + cfg.block.types.length + 4) + k * (pre.length + 3)) out = .ok d' ∧
        renderRes o d' = .ok out := by
  obtain ⟨d, h1, _, h2⟩ := reflowQ_render cfg pre post hty hnq hnp hpar hbl ht hc p rest hp hrest k o n hn ho gas
  obtain ⟨d', h3, _, h4⟩ := reflowQ_render cfg pre post hty hnq hnp hpar hbl ht hc (reflowG (qBud n k).toNat p)
    (rest.map (reflowG (qBud n k).toNat)) (reflowFacts _ p hp).plain (reflow_plain _ rest hrest) k o n hn ho gas
  rw [List.length_map] at h3
  have e : (rest.map (reflowG (qBud n k).toNat)).map (reflowG (qBud n k).toNat) = rest.map (reflowG (qBud n k).toNat) := by
    rw [List.map_map]
    exact List.map_congr_left (fun q hq => reflowG_idem _ q (hrest q hq))
  rw [reflowG_idem _ p hp, e] at h4
  exact ⟨d, _, h1, h2, d', h3, h4⟩

/-! ## The theorems -/

/-- clauses (1), (2) and the word part of (3) for any covered configuration and `max_line_length = L ≥ 1` -/
theorem reflowQ_all (cfg : Document.Cfg) (pre post : List BTok)
    (hty : cfg.block.types = pre ++ .quote :: post) (hnq : .quote ∉ pre) (hnp : .paragraph ∉ pre)
    (hpar : .paragraph ∈ cfg.block.types) (hbl : .blankLine ∈ cfg.block.types)
    (ht : ∀ t ∈ cfg.span, inertClass t = true) (hc : cfg.span.count .lineBreak = 1)
    (p : List (List Str)) (rest : List (List (List Str))) (hp : plainPara p = true) (hrest : ∀ q ∈ rest, plainPara q = true)
    (k : Nat) (o : Opts) (L : Nat) (hL : 1 ≤ L) (ho : o.maxLineLength = some (L : Int)) (gas : Nat) :
    ∃ d, Document.parse cfg (gas + (2 * rest.length + cfg.block.types.length + 4) + k * (pre.length + 3)) (textOfQ k p rest) = .ok d ∧
      d.kids = qBlocks 1 (proseBlocks 1 (paraLines p) (rest.map paraLines)) k ∧
      renderRes o d = .ok (textOfQ k (reflowG (qBudget L k) p) (rest.map (reflowG (qBudget L k)))) ∧
      render o d = textOfQ k (reflowG (qBudget L k) p) (rest.map (reflowG (qBudget L k))) ∧
      (∀ q ∈ p :: rest, plainPara (reflowG (qBudget L k) q) = true ∧ (reflowG (qBudget L k) q).flatten = q.flatten ∧
        fill (qBudget L k) q.flatten = (reflowG (qBudget L k) q).map joinWords) ∧
      (∀ l ∈ linesQ k (reflowG (qBudget L k) p) (rest.map (reflowG (qBudget L k))),
        ∃ body, l = qPre k ++ body ++ ['\n'] ∧ (body = [] ∨ ∃ q ∈ p :: rest, body ∈ fill (qBudget L k) q.flatten) ∧
          ((qBudget L k < body.length ∨ L < (qPre k ++ body).length) → ∀ c ∈ body, pyIsSpace c = false)) ∧
      (∀ q ∈ p :: rest, ∀ body ∈ fill (qBudget L k) q.flatten,
        (qBudget L k < body.length ∨ L < (qPre k ++ body).length) → body ∈ q.flatten ∧ ∀ c ∈ body, pyIsSpace c = false) := by
  obtain ⟨d, h1, h2, h3⟩ := reflowQ_render cfg pre post hty hnq hnp hpar hbl ht hc p rest hp hrest k o (L : Int) (by omega) ho gas
  rw [qBud_toNat L k hL] at h3
  have hall : ∀ q ∈ p :: rest, plainPara q = true := by
    intro q hq
    rcases List.mem_cons.mp hq with rfl | hq
    · exact hp
    · exact hrest q hq
  refine ⟨d, h1, h2, h3, by simp only [render, h3], ?_, reflowQ_line_bound L k p rest hp hrest, ?_⟩
  · intro q hq
    have f := reflowFacts (qBudget L k) q (hall q hq)
    exact ⟨f.plain, f.words, f.lines⟩
  · intro q hq
    exact reflowQ_bound L k q (hall q hq)

theorem markdown_types (cfg : Document.Cfg) (hcfg : Config.markdown = some cfg) :
    cfg.block.types = Mistletoe.Props.C14.markdownTypes := by
  have := Mistletoe.Props.C14.C14_config_current.2
  rw [hcfg] at this
  simpa using this

theorem html_types (cfg : Document.Cfg) (hcfg : Config.html = some cfg) :
    cfg.block.types = Mistletoe.Props.C14.defaultTypes := by
  have := Mistletoe.Props.C14.C14_config_current.1
  rw [hcfg] at this
  simpa using this

/-- **C10 inside block quotes: what the renderer does with a line limit, that nothing is lost, and the limit after
    the container prefix** (clauses 1, 2 and the word part of 3), for the token lists `MarkdownRenderer` installs in
    the working tree (`Config.markdown`).

    Fragment (`_partial`: it is a hypothesis).  Paragraphs `p, q₁, q₂, …` of plain words as in
    `C10_prose_reflow_partial` (`plainPara`), one empty line between consecutive paragraphs, and EVERY line —
    separators included — behind `k` markers "> " (`textOfQ k`; `k = 0` is the top-level theorem).
    `MarkdownRenderer(max_line_length=L)`, `L ≥ 1`, either `normalize_whitespace`.

    Then `Document(text)` succeeds, it is `k` nested `Quote`s around the `Paragraph`s and `BlankLine`s, and
    * (1) the renderer does not raise; its output is the text of the same fragment at the same depth `k` whose
      paragraphs are `reflowG B q`: ALL the words of the paragraph re-filled by the greedy loop with the budget
      `B = qBudget L k = max (L - 2k) 1` — each `render_quote` takes the width 2 of its prefix off the limit, and the
      clamp keeps the budget truthy so that wrapping never switches off;
    * (3, words) every re-filled paragraph is a paragraph of plain words with exactly the same word sequence;
    * (2) every output line is `"> " * k ++ body ++ "\n"`, the body empty (separator) or a line of the fill loop; a
      body longer than the budget `B`, and likewise the body of a line (without "\n") longer than `L`, is one single
      word of the paragraph — it contains no whitespace, hence no breakable space after the container prefix. -/
theorem C10_quoted_reflow_partial (cfg : Document.Cfg) (hcfg : Config.markdown = some cfg)
    (p : List (List Str)) (rest : List (List (List Str))) (hp : plainPara p = true) (hrest : ∀ q ∈ rest, plainPara q = true)
    (k : Nat) (o : Opts) (L : Nat) (hL : 1 ≤ L) (ho : o.maxLineLength = some (L : Int)) (gas : Nat) :
    ∃ d, Document.parse cfg (gas + (2 * rest.length + 15) + k * 8) (textOfQ k p rest) = .ok d ∧
      d.kids = qBlocks 1 (proseBlocks 1 (paraLines p) (rest.map paraLines)) k ∧
      renderRes o d = .ok (textOfQ k (reflowG (qBudget L k) p) (rest.map (reflowG (qBudget L k)))) ∧
      render o d = textOfQ k (reflowG (qBudget L k) p) (rest.map (reflowG (qBudget L k))) ∧
      (∀ q ∈ p :: rest, plainPara (reflowG (qBudget L k) q) = true ∧ (reflowG (qBudget L k) q).flatten = q.flatten ∧
        fill (qBudget L k) q.flatten = (reflowG (qBudget L k) q).map joinWords) ∧
      (∀ l ∈ linesQ k (reflowG (qBudget L k) p) (rest.map (reflowG (qBudget L k))),
        ∃ body, l = qPre k ++ body ++ ['\n'] ∧ (body = [] ∨ ∃ q ∈ p :: rest, body ∈ fill (qBudget L k) q.flatten) ∧
          ((qBudget L k < body.length ∨ L < (qPre k ++ body).length) → ∀ c ∈ body, pyIsSpace c = false)) ∧
      (∀ q ∈ p :: rest, ∀ body ∈ fill (qBudget L k) q.flatten,
        (qBudget L k < body.length ∨ L < (qPre k ++ body).length) → body ∈ q.flatten ∧ ∀ c ∈ body, pyIsSpace c = false) := by
  obtain ⟨hpar, ht, hc⟩ := Mistletoe.Props.C14.C14_config_covered cfg (Or.inr (Or.inl hcfg))
  have hty := markdown_types cfg hcfg
  have hbl : BTok.blankLine ∈ cfg.block.types := by rw [hty]; decide
  have := reflowQ_all cfg [.linkRefDefBlock, .blankLine, .htmlBlock, .blockCode, .heading]
    [.codeFence, .thematicBreak, .list, .table, .paragraph] (by rw [hty]; rfl) (by decide) (by decide) hpar hbl ht hc
    p rest hp hrest k o L hL ho gas
  rw [hty] at this
  exact this

/-- **C10 inside block quotes: the re-broken text means the same** (clause 3).  Same fragment.  With the parse under
    the Markdown renderer's lists and `render o d` the output of `MarkdownRenderer(max_line_length=L)`:
    `HtmlRenderer(**opts).render(Document(·))` (`Config.html`, every HTML option set) succeeds on the original text
    and on the output, and the two HTML strings are equal once every "\n" is replaced by a space (`nlToSp`), i.e. up
    to the position of the soft line breaks; the common value is `k` nested `<blockquote>`s around the paragraphs
    written on one line each.  Moreover the output parses (Markdown lists) to `k` nested `Quote`s around the
    re-broken paragraphs, which have the same word sequences. -/
theorem C10_quoted_reflow_meaning_partial (cfg : Document.Cfg) (hcfg : Config.markdown = some cfg)
    (p : List (List Str)) (rest : List (List (List Str))) (hp : plainPara p = true) (hrest : ∀ q ∈ rest, plainPara q = true)
    (k : Nat) (o : Opts) (L : Nat) (hL : 1 ≤ L) (ho : o.maxLineLength = some (L : Int)) (hopts : Html.Opts) (gas : Nat) :
    ∃ d d', Document.parse cfg (gas + (2 * rest.length + 15) + k * 8) (textOfQ k p rest) = .ok d ∧
      Document.parse cfg (gas + (2 * rest.length + 15) + k * 8) (render o d) = .ok d' ∧
      d'.kids = qBlocks 1 (proseBlocks 1 (paraLines (reflowG (qBudget L k) p))
        ((rest.map (reflowG (qBudget L k))).map paraLines)) k ∧
      (∀ q ∈ p :: rest, plainPara (reflowG (qBudget L k) q) = true ∧ (reflowG (qBudget L k) q).flatten = q.flatten) ∧
      ∃ h h', Config.renderHtml hopts (gas + (2 * rest.length + 14) + k * 6) (textOfQ k p rest) = some h ∧
        Config.renderHtml hopts (gas + (2 * rest.length + 14) + k * 6) (render o d) = some h' ∧
        nlToSp h' = nlToSp h ∧
        nlToSp h = nlToSp (qHtml k (htmlParas hopts.dq hopts.sq ['\n'] (joinWords p.flatten)
          (rest.map (fun q => joinWords q.flatten)))) := by
  obtain ⟨d, h1, _, _, h4, _⟩ := C10_quoted_reflow_partial cfg hcfg p rest hp hrest k o L hL ho gas
  -- the output under the Markdown lists
  obtain ⟨hpar, ht, hc⟩ := Mistletoe.Props.C14.C14_config_covered cfg (Or.inr (Or.inl hcfg))
  have hty := markdown_types cfg hcfg
  have hb : cfg.block.types.contains .blankLine = true := by rw [hty]; decide
  obtain ⟨hw, _, d', _, g2, _, g4, _⟩ := reflowQ_meaning cfg [.linkRefDefBlock, .blankLine, .htmlBlock, .blockCode, .heading]
    [.codeFence, .thematicBreak, .list, .table, .paragraph] (by rw [hty]; rfl) (by decide) (by decide) hpar ht hc
    p rest hp hrest k (qBudget L k) gas
  rw [hb, proseBlocksB_true] at g4
  rw [hty] at g2
  -- the HTML renderer's lists
  have hcur := Mistletoe.Props.C14.C14_config_current.1
  cases hh : Config.html with
  | none => rw [hh] at hcur; cases hcur
  | some hcfg' =>
    obtain ⟨hpar', ht', hc'⟩ := Mistletoe.Props.C14.C14_config_covered hcfg' (Or.inl hh)
    have hty' := html_types hcfg' hh
    have hb' : hcfg'.block.types.contains .blankLine = false := by rw [hty']; decide
    obtain ⟨_, e, e', m1, m2, _, _, m5⟩ := reflowQ_meaning hcfg' [.htmlBlock, .blockCode, .heading]
      [.codeFence, .thematicBreak, .list, .table, .footnote, .paragraph] (by rw [hty']; rfl) (by decide) (by decide)
      hpar' ht' hc' p rest hp hrest k (qBudget L k) gas
    rw [hty'] at m1 m2
    rw [hb'] at m5
    refine ⟨d, d', h1, by rw [h4]; exact g2, g4, hw, Html.render hopts e, Html.render hopts e', ?_, ?_, (m5 hopts).1, (m5 hopts).2⟩
    · simp only [Config.renderHtml, hh]
      rw [show gas + (2 * rest.length + 14) + k * 6 =
        gas + (2 * rest.length + Mistletoe.Props.C14.defaultTypes.length + 4) + k * ([BTok.htmlBlock, .blockCode, .heading].length + 3) from rfl, m1]
    · simp only [Config.renderHtml, hh, h4]
      rw [show gas + (2 * rest.length + 14) + k * 6 =
        gas + (2 * rest.length + Mistletoe.Props.C14.defaultTypes.length + 4) + k * ([BTok.htmlBlock, .blockCode, .heading].length + 3) from rfl, m2]

/-- **C10 inside block quotes: reflowing again changes nothing** (clause 4).  Same fragment and token lists as
    `C10_quoted_reflow_partial`: `render(Document(render(Document(text))))`, same `max_line_length = L ≥ 1`, is
    `render(Document(text))`, and neither parse nor render raises — for every depth `k` and every `L`, also where the
    budget is clamped (`L ≤ 2k`): the output has the same depth, hence the same budget. -/
theorem C10_quoted_reflow_idempotent_partial (cfg : Document.Cfg) (hcfg : Config.markdown = some cfg)
    (p : List (List Str)) (rest : List (List (List Str))) (hp : plainPara p = true) (hrest : ∀ q ∈ rest, plainPara q = true)
    (k : Nat) (o : Opts) (L : Nat) (hL : 1 ≤ L) (ho : o.maxLineLength = some (L : Int)) (gas : Nat) :
    ∃ d, Document.parse cfg (gas + (2 * rest.length + 15) + k * 8) (textOfQ k p rest) = .ok d ∧
      ∃ d', Document.parse cfg (gas + (2 * rest.length + 15) + k * 8) (render o d) = .ok d' ∧
        renderRes o d' = renderRes o d ∧ render o d' = render o d := by
  obtain ⟨hpar, ht, hc⟩ := Mistletoe.Props.C14.C14_config_covered cfg (Or.inr (Or.inl hcfg))
  have hty := markdown_types cfg hcfg
  have hbl : BTok.blankLine ∈ cfg.block.types := by rw [hty]; decide
  obtain ⟨d, out, h1, h2, d', h3, h4⟩ := reflowQ_idempotent cfg [.linkRefDefBlock, .blankLine, .htmlBlock, .blockCode, .heading]
    [.codeFence, .thematicBreak, .list, .table, .paragraph] (by rw [hty]; rfl) (by decide) (by decide) hpar hbl ht hc
    p rest hp hrest k o (L : Int) (by omega) ho gas
  rw [hty] at h1 h3
  refine ⟨d, h1, d', ?_, by rw [h2, h4], by simp only [render, h2, h4]⟩
  simp only [render, h2]; exact h3

/-! ### Non-vacuity -/

/-- six words, one of them 15 letters long -/
def paraQ : List (List Str) := [[W "an", W "extraordinarily", W "long"], [W "word", W "here", W "today"]]
def paraQ2 : List (List Str) := [[W "the", W "quick", W "brown"], [W "fox", W "jumps", W "over", W "it."]]

theorem parasQ_plain : plainPara paraQ = true ∧ plainPara paraQ2 = true := by decide +kernel

/-- the source text at depth 2, and the budget for L = 14 there -/
example : textOfQ 2 paraQ [] = W "> > an extraordinarily long\n> > word here today\n" := by decide +kernel
example : textOfQ 2 paraQ [paraQ2] =
    W "> > an extraordinarily long\n> > word here today\n> > \n> > the quick brown\n> > fox jumps over it.\n" := by decide +kernel
example : qBudget 14 2 = 10 ∧ qBudget 14 7 = 1 ∧ qBudget 14 9 = 1 ∧ qBudget 14 0 = 14 := by decide
example : qBud 14 2 = 10 ∧ qBud 3 2 = 1 ∧ qBud (-5) 1 = 1 := by decide

/-- the re-broken paragraph: budget 10 after the prefix "> > "; the 15-letter word stands alone -/
example : reflowG 10 paraQ = [[W "an"], [W "extraordinarily"], [W "long", W "word"], [W "here", W "today"]] := by decide +kernel
example : textOfQ 2 (reflowG 10 paraQ) [] = W "> > an\n> > extraordinarily\n> > long word\n> > here today\n" := by decide +kernel

/-- the working tree's Markdown configuration exists, so the final theorems are not vacuous in `hcfg` -/
theorem markdown_cfg_exists : ∃ cfg, Config.markdown = some cfg := by
  have := Mistletoe.Props.C14.C14_config_current.2
  cases h : Config.markdown with
  | none => rw [h] at this; cases this
  | some cfg => exact ⟨cfg, rfl⟩

/-- the theorem applies: two-level quote, L = 14 -/
example : ∃ cfg d, Config.markdown = some cfg ∧ Document.parse cfg 31 (textOfQ 2 paraQ []) = .ok d ∧
    render { maxLineLength := some 14 } d = textOfQ 2 (reflowG 10 paraQ) [] := by
  obtain ⟨cfg, hcfg⟩ := markdown_cfg_exists
  obtain ⟨d, h1, _, _, h4, _⟩ := C10_quoted_reflow_partial cfg hcfg paraQ [] parasQ_plain.1 (by simp) 2
    { maxLineLength := some 14 } 14 (by omega) rfl 0
  exact ⟨cfg, d, hcfg, h1, h4⟩

open Mistletoe.Props.C09 (mdCfg) in
/-- … and evaluating parser and renderer in the kernel on that text gives the same answer; the line
    "> > extraordinarily" (19 > 14) has a body without a space, every other line is within 14 -/
example : (Document.parse mdCfg 31 (W "> > an extraordinarily long\n> > word here today\n")).bind
    (fun d => renderRes { maxLineLength := some 14 } d) =
      .ok (W "> > an\n> > extraordinarily\n> > long word\n> > here today\n") := by decide +kernel

open Mistletoe.Props.C09 (mdCfg) in
/-- idempotence in the kernel: the output is reproduced -/
example : (Document.parse mdCfg 31 (W "> > an\n> > extraordinarily\n> > long word\n> > here today\n")).bind
    (fun d => renderRes { maxLineLength := some 14 } d) =
      .ok (W "> > an\n> > extraordinarily\n> > long word\n> > here today\n") := by decide +kernel

open Mistletoe.Props.C09 (mdCfg) in
/-- two paragraphs, clamped budget (L = 3 at depth 2: budget 1, one word per line), separator line "> > " -/
example : (Document.parse mdCfg 33 (W "> > an extraordinarily long\n> > word here today\n> > \n> > the quick brown\n")).bind
    (fun d => renderRes { maxLineLength := some 3 } d) =
      .ok (W "> > an\n> > extraordinarily\n> > long\n> > word\n> > here\n> > today\n> > \n> > the\n> > quick\n> > brown\n") := by
  decide +kernel

/-- idempotence: the theorem applies (two paragraphs) -/
example : ∃ cfg d, Config.markdown = some cfg ∧ Document.parse cfg 33 (textOfQ 2 paraQ [paraQ2]) = .ok d ∧
    ∃ d', Document.parse cfg 33 (render { maxLineLength := some 14 } d) = .ok d' ∧
      render { maxLineLength := some 14 } d' = render { maxLineLength := some 14 } d := by
  obtain ⟨cfg, hcfg⟩ := markdown_cfg_exists
  obtain ⟨d, h1, d', h2, _, h4⟩ := C10_quoted_reflow_idempotent_partial cfg hcfg paraQ [paraQ2] parasQ_plain.1
    (by simp [parasQ_plain.2]) 2 { maxLineLength := some 14 } 14 (by omega) rfl 0
  exact ⟨cfg, d, hcfg, h1, d', h2, h4⟩

/-- meaning: the theorem applies, and the two HTML strings (kernel evaluation) differ only in "\n" versus " " -/
example : ∃ cfg d, Config.markdown = some cfg ∧ Document.parse cfg 31 (textOfQ 2 paraQ []) = .ok d ∧
    ∃ h h', Config.renderHtml {} 26 (textOfQ 2 paraQ []) = some h ∧
      Config.renderHtml {} 26 (render { maxLineLength := some 14 } d) = some h' ∧ nlToSp h' = nlToSp h := by
  obtain ⟨cfg, hcfg⟩ := markdown_cfg_exists
  obtain ⟨d, _, h1, _, _, _, h, h', g1, g2, g3, _⟩ := C10_quoted_reflow_meaning_partial cfg hcfg paraQ [] parasQ_plain.1
    (by simp) 2 { maxLineLength := some 14 } 14 (by omega) rfl {} 0
  exact ⟨cfg, d, hcfg, h1, h, h', g1, g2, g3⟩

example : Config.renderHtml {} 26 (W "> > an extraordinarily long\n> > word here today\n") =
    some (W "<blockquote>\n<blockquote>\n<p>an extraordinarily long\nword here today</p>\n</blockquote>\n</blockquote>\n") := by
  decide +kernel
example : Config.renderHtml {} 26 (W "> > an\n> > extraordinarily\n> > long word\n> > here today\n") =
    some (W "<blockquote>\n<blockquote>\n<p>an\nextraordinarily\nlong word\nhere today</p>\n</blockquote>\n</blockquote>\n") := by
  decide +kernel

end Mistletoe.ReflowQuote
