/-
  Lemmas for C09, second fragment: documents made of prose paragraphs, ATX headings "# text" and thematic
  breaks ("***", "---", "___"), separated by single empty lines, under the Markdown renderer's token list
  (`markdownTypes`: `LinkReferenceDefinitionBlock`, `BlankLine`, … — every "\n" line is a `BlankLine` token).

  The dispatch facts about a `#` line (`hash_*`, `heading_line`, `readHeading_line`) are copies of the lemmas
  of the same names in `Proofs/Compose.lean` (C03, under construction in parallel; copied so that this file
  does not depend on it).  The composition itself is different here: C05's concatenation theorem needs
  `BlankLine ∉ types`, so the `while line is not None` loop is followed directly, as in `tokLoop_doc`
  (`Proofs/Inert.lean`).
-/
import Mistletoe.Proofs.MdRound
namespace Mistletoe.MdRound
open Mistletoe Mistletoe.Py Mistletoe.Scan Mistletoe.Block Mistletoe.Wrap Mistletoe.Markdown Mistletoe.InertInline
open Mistletoe.Props.C14 (inertLine markdownTypes numbered numbered_cons numbered_append numbered_length numbered_s numbered_mem)

/-! ### the dispatch on a `#` line (as in Proofs/Compose.lean) -/

def hashes (n : Nat) : Str := List.replicate n '#'

theorem hash_lstrip (s : Str) : lstrip ('#' :: s) = '#' :: s := by
  simp [lstrip, show pyIsSpace '#' = false by decide]

theorem hash_blockCode (s : Str) : blockCodeStart ('#' :: s) = false := by
  simp [blockCodeStart, replaceTab1, replaceFirst, startsWith, isPrefix_ne]

theorem hash_html (s : Str) : htmlBlockStart ('#' :: s) = .ok none := by
  unfold htmlBlockStart
  simp only [hash_lstrip]
  have hlen : ¬ (('#' :: s).length - ('#' :: s).length ≥ 4) := by simp
  simp only [hlen, if_false]
  have hm : multiblock ('#' :: s) = none := by unfold multiblock; simp
  have hs : ∀ p : Str, startsWith ('<' :: p) ('#' :: s) = false := by
    intro p; simp [startsWith, isPrefix_ne]
  have hr : htmlRest ('#' :: s) = none := by
    unfold htmlRest
    have h1 : predefined ('#' :: s) = none := by unfold predefined; simp
    have h2 : customTag ('#' :: s) = false := by
      unfold customTag
      have a : openTag ('#' :: s) = none := by unfold openTag; simp
      have b : closingTag ('#' :: s) = none := by unfold closingTag; simp
      simp [a, b]
    simp [h1, h2]
  have e1 : "<!--".toList = '<' :: ['!', '-', '-'] := by decide
  have e2 : "<?".toList = '<' :: ['?'] := by decide
  have e3 : "<!".toList = '<' :: ['!'] := by decide
  simp only [hm, e1, e2, e3, hs, hr, Bool.false_eq_true, if_false]

theorem span_hashes (n : Nat) (rest : Str) (h : rest.head? ≠ some '#') :
    span (· == '#') (hashes n ++ rest) = (hashes n, rest) := by
  induction n with
  | zero =>
    cases rest with
    | nil => rfl
    | cons c r =>
      have : c ≠ '#' := fun e => h (by simp [e])
      simp [hashes, span, this]
  | succ k ih =>
    simp only [hashes, List.replicate_succ, List.cons_append, span] at ih ⊢
    simp [ih]

theorem closingSeq_noHash (q : Str) (h : '#' ∉ q) : closingSeq q = none := by
  unfold closingSeq
  simp only
  split
  · rfl
  · have hsuf := span_suffix ws q
    have hq : '#' ∉ (span ws q).2 := fun e => h (hsuf.subset e)
    have : (span (· == '#') (span ws q).2).1 = [] := by
      cases hr : (span ws q).2 with
      | nil => rfl
      | cons c r =>
        have : c ≠ '#' := fun e => hq (by rw [hr, e]; simp)
        simp [span, this]
    simp [this]

/-- `(.*?)(\n|\s+?#+\s*?$)` on a text without `#` and without newline: the whole text, then "\n" -/
theorem headingTail_plain : ∀ (t acc : Str), '#' ∉ t → '\n' ∉ t →
    headingTail (t ++ ['\n']) acc = some (acc.reverse ++ t, ['\n'])
  | [], acc, _, _ => by simp [headingTail]
  | c :: rest, acc, h1, h2 => by
    have hc : c ≠ '\n' := fun e => h2 (by simp [e])
    have hcs : closingSeq (c :: (rest ++ ['\n'])) = none := by
      apply closingSeq_noHash
      intro e
      rcases List.mem_cons.mp e with e | e
      · exact h1 (by rw [← e]; simp)
      · rcases List.mem_append.mp e with e | e
        · exact h1 (List.mem_cons_of_mem _ e)
        · simp at e
    simp only [List.cons_append, headingTail, hc, if_false, hcs]
    rw [headingTail_plain rest (c :: acc) (fun e => h1 (List.mem_cons_of_mem _ e)) (fun e => h2 (List.mem_cons_of_mem _ e))]
    simp

theorem heading_line (lv : Nat) (t : Str) (h1 : 1 ≤ lv) (h6 : lv ≤ 6) (hh : '#' ∉ t) (hn : '\n' ∉ t) :
    Scan.heading (hashes lv ++ ' ' :: t ++ ['\n']) = some { level := lv, g2 := some t, g3 := some ['\n'] } := by
  obtain ⟨m, rfl⟩ : ∃ m, lv = m + 1 := ⟨lv - 1, by omega⟩
  have hup : upTo3Spaces (hashes (m + 1) ++ ' ' :: t ++ ['\n']) = some (0, hashes (m + 1) ++ ' ' :: t ++ ['\n']) := by
    simp [upTo3Spaces, hashes, List.replicate_succ, countLeading]
  unfold Scan.heading
  rw [hup]
  have hsp : span (· == '#') (hashes (m + 1) ++ ' ' :: t ++ ['\n']) = (hashes (m + 1), ' ' :: (t ++ ['\n'])) := by
    have := span_hashes (m + 1) (' ' :: (t ++ ['\n'])) (by simp)
    simpa using this
  simp only [hsp]
  have hl : (hashes (m + 1)).length = m + 1 := by simp [hashes]
  have hc : ¬ ((hashes (m + 1)).length < 1 || (hashes (m + 1)).length > 6) = true := by
    rw [hl]; simp; omega
  rw [if_neg hc]
  have hws : ws ' ' = true := by decide
  simp only [hl]
  simp
  exact ⟨hws, by rw [headingTail_plain t [] hh hn]; simp⟩

theorem strip_nl : strip ['\n'] = [] := by decide

theorem readHeading_line (fw : FW) (lv : Nat) (t : Str) (h1 : 1 ≤ lv) (h6 : lv ≤ 6) (hh : '#' ∉ t) (hn : '\n' ∉ t)
    (hs : strip t = t) (hne : t ≠ []) :
    readHeading fw (hashes lv ++ ' ' :: t ++ ['\n']) = some (lv, t, [], fw.next) := by
  unfold readHeading
  rw [heading_line lv t h1 h6 hh hn]
  simp only [Option.getD_some, hs, strip_nl]
  have : (!t.isEmpty && t.all (· == '#')) = false := by
    cases t with
    | nil => exact absurd rfl hne
    | cons c r =>
      have : c ≠ '#' := fun e => hh (by simp [e])
      simp [this]
  simp [this]

/-- the facts `Item.ok` packs for a heading -/
structure HeadOk (lv : Nat) (t : Str) : Prop where
  h1 : 1 ≤ lv
  h6 : lv ≤ 6
  ne : t ≠ []
  inert : inertText t = true
  nohash : '#' ∉ t
  stripped : strip t = t
  notab : '\t' ∉ t
  nosep : ∀ c ∈ t, isLineSep c = false

theorem headOk_nonl {lv : Nat} {t : Str} (h : HeadOk lv t) : '\n' ∉ t := by
  intro hm
  have := h.nosep _ hm
  revert this; decide

theorem hr_facts (c : Char) (hc : c = '*' ∨ c = '-' ∨ c = '_') :
    htmlBlockStart [c, c, c, '\n'] = .ok none ∧ blockCodeStart [c, c, c, '\n'] = false ∧ Scan.heading [c, c, c, '\n'] = none ∧
    quoteStart [c, c, c, '\n'] = false ∧ codeFenceStart [c, c, c, '\n'] = none ∧ Scan.thematicBreak [c, c, c, '\n'] = true := by
  rcases hc with rfl | rfl | rfl <;> decide

/-! ### the fragment -/

inductive Item where
  | para (lines : List Str)
  | heading (level : Nat) (text : Str)
  | hr (c : Char)

/-- the source lines of one block, as the renderer writes them -/
def Item.lines : Item → List Str
  | .para ls => ls
  | .heading lv t => [hashes lv ++ ' ' :: t ++ ['\n']]
  | .hr c => [[c, c, c, '\n']]

/-- blocks separated by exactly one "\n" line -/
def itemsLines : Item → List Item → List Str
  | it, [] => it.lines
  | it, it' :: rest => it.lines ++ ['\n'] :: itemsLines it' rest

/-- normal form (decidable).  Paragraph: as `normalPara` (Props/C09.lean).  Heading: level 1…6; the text is
    non-empty, inline-inert on one line, without `#`, without whitespace at either end, without tab or
    line-boundary character.  Thematic break: three `*`, `-` or `_`. -/
def Item.ok : Item → Bool
  | .para q => !q.isEmpty && q.all (fun l => inertLine l && proseLine l && lstrip l == l && oneLine l)
      && inertBody (Document.joinNl (q.map strip))
  | .heading lv t => decide (1 ≤ lv) && decide (lv ≤ 6) && !t.isEmpty && inertText t && !t.contains '#' && strip t == t
      && !t.contains '\t' && t.all (fun c => !isLineSep c)
  | .hr c => c == '*' || c == '-' || c == '_'

structure ParaFacts (q : List Str) : Prop where
  ne : q ≠ []
  inert : ∀ l ∈ q, inertLine l = true
  prose : ∀ l ∈ q, proseLine l = true
  flush : ∀ l ∈ q, lstrip l = l
  one : ∀ l ∈ q, oneLine l = true
  body : inertBody (Document.joinNl (q.map strip)) = true

theorem paraFacts_of (q : List Str) (h : (Item.para q).ok = true) : ParaFacts q := by
  simp only [Item.ok, Bool.and_eq_true, Bool.not_eq_eq_eq_not, Bool.not_true, List.all_eq_true, beq_iff_eq] at h
  obtain ⟨⟨h1, h2⟩, h3⟩ := h
  exact ⟨(by intro e; rw [e] at h1; cases h1), fun l hl => (h2 l hl).1.1.1, fun l hl => (h2 l hl).1.1.2,
    fun l hl => (h2 l hl).1.2, fun l hl => (h2 l hl).2, h3⟩

theorem ParaFacts.para {q : List Str} (f : ParaFacts q) : ProsePara q := ⟨f.ne, f.prose, f.body⟩

theorem headOk_of (lv : Nat) (t : Str) (h : (Item.heading lv t).ok = true) : HeadOk lv t := by
  simp only [Item.ok, Bool.and_eq_true, decide_eq_true_eq, Bool.not_eq_eq_eq_not, Bool.not_true, beq_iff_eq,
    List.all_eq_true, List.isEmpty_eq_false_iff] at h
  obtain ⟨⟨⟨⟨⟨⟨⟨a, b⟩, c⟩, d⟩, e⟩, f⟩, g⟩, i⟩ := h
  exact ⟨a, b, c, d, by simpa using e, f, by simpa using g, i⟩

theorem hrOk_of (c : Char) (h : (Item.hr c).ok = true) : c = '*' ∨ c = '-' ∨ c = '_' := by
  simpa [Item.ok, or_assoc] using h

/-! ### one step of the loop per block -/

theorem fw_next (pre : List Line) (l : Line) (post : List Line) (start : Nat) :
    FW.next ⟨pre ++ l :: post, pre.length, start⟩ = ⟨(pre ++ [l]) ++ post, (pre ++ [l]).length, start⟩ := by
  simp [FW.next]

/-- a heading line: `Heading` is the first type of the Markdown renderer's list that starts on it -/
theorem tokLoop_heading_step (cfg : Cfg) (hty : cfg.types = markdownTypes) (g : Nat) (l : Line) (lv : Nat) (t : Str)
    (hl : l.s = hashes lv ++ ' ' :: t ++ ['\n']) (hk : HeadOk lv t)
    (pre post : List Line) (start : Nat) (st : St) (acc : List Entry) (loose : Bool) :
    tokLoop cfg (g + 6) ⟨pre ++ l :: post, pre.length, start⟩ st acc loose =
      tokLoop cfg (g + 5) ⟨(pre ++ [l]) ++ post, (pre ++ [l]).length, start⟩ st
        (.heading lv t [] (start + pre.length) l.origin :: acc) loose := by
  obtain ⟨m, rfl⟩ : ∃ m, lv = m + 1 := ⟨lv - 1, by have := hk.h1; omega⟩
  have hs : l.s = '#' :: (hashes m ++ ' ' :: t ++ ['\n']) := by
    rw [hl]; simp [hashes, List.replicate_succ]
  have hr := readHeading_line ⟨pre ++ l :: post, pre.length, start⟩ (m + 1) t hk.h1 hk.h6 hk.nohash
    (headOk_nonl hk) hk.stripped hk.ne
  rw [← hl] at hr
  have h1 : startsWith ['['] (lstrip l.s) = false := by
    rw [hs, hash_lstrip]; simp [startsWith, isPrefix_ne]
  have h2 : Scan.blankLine l.s = false := by
    rw [hs]; simp [Scan.blankLine, show ws '#' = false by decide]
  have h3 : htmlBlockStart l.s = .ok none := by rw [hs]; exact hash_html _
  have h4 : blockCodeStart l.s = false := by rw [hs]; exact hash_blockCode _
  have e : g + 6 = (((((g + 1) + 1) + 1) + 1) + 1) + 1 := by omega
  rw [e]
  simp only [tokLoop, peek_at, hty, markdownTypes, tryTypes, h1, h2, h3, h4, hr, Bool.false_eq_true, if_false, fw_next]

theorem hr_more (c : Char) (hc : c = '*' ∨ c = '-' ∨ c = '_') :
    startsWith ['['] (lstrip [c, c, c, '\n']) = false ∧ Scan.blankLine [c, c, c, '\n'] = false := by
  rcases hc with rfl | rfl | rfl <;> decide

/-- a thematic-break line -/
theorem tokLoop_hr_step (cfg : Cfg) (hty : cfg.types = markdownTypes) (g : Nat) (l : Line) (c : Char)
    (hl : l.s = [c, c, c, '\n']) (hc : c = '*' ∨ c = '-' ∨ c = '_')
    (pre post : List Line) (start : Nat) (st : St) (acc : List Entry) (loose : Bool) :
    tokLoop cfg (g + 9) ⟨pre ++ l :: post, pre.length, start⟩ st acc loose =
      tokLoop cfg (g + 8) ⟨(pre ++ [l]) ++ post, (pre ++ [l]).length, start⟩ st
        (.thematicBreak [c, c, c, '\n'] (start + pre.length) l.origin :: acc) loose := by
  obtain ⟨f1, f2, f3, f4, f5, f6⟩ := hr_facts c hc
  obtain ⟨f7, f8⟩ := hr_more c hc
  have e : g + 9 = ((((((((g + 1) + 1) + 1) + 1) + 1) + 1) + 1) + 1) + 1 := by omega
  rw [e]
  simp only [tokLoop, peek_at, hty, markdownTypes, tryTypes, readHeading, hl, f1, f2, f3, f4, f5, f6, f7, f8,
    Bool.false_eq_true, if_false, if_true, fw_next]

end Mistletoe.MdRound
