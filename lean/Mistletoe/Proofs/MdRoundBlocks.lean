/-
  Lemmas for C09, second fragment: documents made of prose paragraphs, ATX headings "# text" and thematic
  breaks ("***", "---", "___"), separated by single empty lines, under the Markdown renderer's token list
  (`markdownTypes`: `LinkReferenceDefinitionBlock`, `BlankLine`, … — every "\n" line is a `BlankLine` token).

  The dispatch facts about a `#` line (`hash_*`, `heading_line`, `readHeading_line`) are copies of the lemmas
  of the same names in `Proofs/Compose.lean` (C03, under construction in parallel; copied so that this file
  does not depend on it).  The composition itself is different here: C05's concatenation theorem needs
  `BlankLine ∉ types`, so the `while line is not None` loop is followed directly, as in `tokLoop_doc`
  (`Proofs/Inert.lean`).
-/
import Mistletoe.Proofs.MdRound
namespace Mistletoe.MdRound
open Mistletoe Mistletoe.Py Mistletoe.Scan Mistletoe.Block Mistletoe.Wrap Mistletoe.Markdown Mistletoe.InertInline
open Mistletoe.Props.C14 (inertLine markdownTypes numbered numbered_cons numbered_append numbered_length numbered_s numbered_mem)

/-! ### the dispatch on a `#` line (as in Proofs/Compose.lean) -/

def hashes (n : Nat) : Str := List.replicate n '#'

theorem hash_lstrip (s : Str) : lstrip ('#' :: s) = '#' :: s := by
  simp [lstrip, show pyIsSpace '#' = false by decide]

theorem hash_blockCode (s : Str) : blockCodeStart ('#' :: s) = false := by
  simp [blockCodeStart, replaceTab1, replaceFirst, startsWith, isPrefix_ne]

theorem hash_html (s : Str) : htmlBlockStart ('#' :: s) = .ok none := by
  unfold htmlBlockStart
  simp only [hash_lstrip]
  have hlen : ¬ (('#' :: s).length - ('#' :: s).length ≥ 4) := by simp
  simp only [hlen, if_false]
  have hm : multiblock ('#' :: s) = none := by unfold multiblock; simp
  have hs : ∀ p : Str, startsWith ('<' :: p) ('#' :: s) = false := by
    intro p; simp [startsWith, isPrefix_ne]
  have hr : htmlRest ('#' :: s) = none := by
    unfold htmlRest
    have h1 : predefined ('#' :: s) = none := by unfold predefined; simp
    have h2 : customTag ('#' :: s) = false := by
      unfold customTag
      have a : openTag ('#' :: s) = none := by unfold openTag; simp
      have b : closingTag ('#' :: s) = none := by unfold closingTag; simp
      simp [a, b]
    simp [h1, h2]
  have e1 : "<!--".toList = '<' :: ['!', '-', '-'] := by decide
  have e2 : "<?".toList = '<' :: ['?'] := by decide
  have e3 : "<!".toList = '<' :: ['!'] := by decide
  simp only [hm, e1, e2, e3, hs, hr, Bool.false_eq_true, if_false]

theorem span_hashes (n : Nat) (rest : Str) (h : rest.head? ≠ some '#') :
    span (· == '#') (hashes n ++ rest) = (hashes n, rest) := by
  induction n with
  | zero =>
    cases rest with
    | nil => rfl
    | cons c r =>
      have : c ≠ '#' := fun e => h (by simp [e])
      simp [hashes, span, this]
  | succ k ih =>
    simp only [hashes, List.replicate_succ, List.cons_append, span] at ih ⊢
    simp [ih]

theorem closingSeq_noHash (q : Str) (h : '#' ∉ q) : closingSeq q = none := by
  unfold closingSeq
  simp only
  split
  · rfl
  · have hsuf := span_suffix ws q
    have hq : '#' ∉ (span ws q).2 := fun e => h (hsuf.subset e)
    have : (span (· == '#') (span ws q).2).1 = [] := by
      cases hr : (span ws q).2 with
      | nil => rfl
      | cons c r =>
        have : c ≠ '#' := fun e => hq (by rw [hr, e]; simp)
        simp [span, this]
    simp [this]

/-- `(.*?)(\n|\s+?#+\s*?$)` on a text without `#` and without newline: the whole text, then "\n" -/
theorem headingTail_plain : ∀ (t acc : Str), '#' ∉ t → '\n' ∉ t →
    headingTail (t ++ ['\n']) acc = some (acc.reverse ++ t, ['\n'])
  | [], acc, _, _ => by simp [headingTail]
  | c :: rest, acc, h1, h2 => by
    have hc : c ≠ '\n' := fun e => h2 (by simp [e])
    have hcs : closingSeq (c :: (rest ++ ['\n'])) = none := by
      apply closingSeq_noHash
      intro e
      rcases List.mem_cons.mp e with e | e
      · exact h1 (by rw [← e]; simp)
      · rcases List.mem_append.mp e with e | e
        · exact h1 (List.mem_cons_of_mem _ e)
        · simp at e
    simp only [List.cons_append, headingTail, hc, if_false, hcs]
    rw [headingTail_plain rest (c :: acc) (fun e => h1 (List.mem_cons_of_mem _ e)) (fun e => h2 (List.mem_cons_of_mem _ e))]
    simp

theorem heading_line (lv : Nat) (t : Str) (h1 : 1 ≤ lv) (h6 : lv ≤ 6) (hh : '#' ∉ t) (hn : '\n' ∉ t) :
    Scan.heading (hashes lv ++ ' ' :: t ++ ['\n']) = some { level := lv, g2 := some t, g3 := some ['\n'] } := by
  obtain ⟨m, rfl⟩ : ∃ m, lv = m + 1 := ⟨lv - 1, by omega⟩
  have hup : upTo3Spaces (hashes (m + 1) ++ ' ' :: t ++ ['\n']) = some (0, hashes (m + 1) ++ ' ' :: t ++ ['\n']) := by
    simp [upTo3Spaces, hashes, List.replicate_succ, countLeading]
  unfold Scan.heading
  rw [hup]
  have hsp : span (· == '#') (hashes (m + 1) ++ ' ' :: t ++ ['\n']) = (hashes (m + 1), ' ' :: (t ++ ['\n'])) := by
    have := span_hashes (m + 1) (' ' :: (t ++ ['\n'])) (by simp)
    simpa using this
  simp only [hsp]
  have hl : (hashes (m + 1)).length = m + 1 := by simp [hashes]
  have hc : ¬ ((hashes (m + 1)).length < 1 || (hashes (m + 1)).length > 6) = true := by
    rw [hl]; simp; omega
  rw [if_neg hc]
  have hws : ws ' ' = true := by decide
  simp only [hl]
  simp
  exact ⟨hws, by rw [headingTail_plain t [] hh hn]; simp⟩

theorem strip_nl : strip ['\n'] = [] := by decide

theorem readHeading_line (fw : FW) (lv : Nat) (t : Str) (h1 : 1 ≤ lv) (h6 : lv ≤ 6) (hh : '#' ∉ t) (hn : '\n' ∉ t)
    (hs : strip t = t) (hne : t ≠ []) :
    readHeading fw (hashes lv ++ ' ' :: t ++ ['\n']) = some (lv, t, [], fw.next) := by
  unfold readHeading
  rw [heading_line lv t h1 h6 hh hn]
  simp only [Option.getD_some, hs, strip_nl]
  have : (!t.isEmpty && t.all (· == '#')) = false := by
    cases t with
    | nil => exact absurd rfl hne
    | cons c r =>
      have : c ≠ '#' := fun e => hh (by simp [e])
      simp [this]
  simp [this]

/-- the facts `Blk.ok` packs for a heading -/
structure HeadOk (lv : Nat) (t : Str) : Prop where
  h1 : 1 ≤ lv
  h6 : lv ≤ 6
  ne : t ≠ []
  inert : inertText t = true
  nohash : '#' ∉ t
  stripped : strip t = t
  notab : '\t' ∉ t
  nosep : ∀ c ∈ t, isLineSep c = false

theorem headOk_nonl {lv : Nat} {t : Str} (h : HeadOk lv t) : '\n' ∉ t := by
  intro hm
  have := h.nosep _ hm
  revert this; decide

theorem hr_facts (c : Char) (hc : c = '*' ∨ c = '-' ∨ c = '_') :
    htmlBlockStart [c, c, c, '\n'] = .ok none ∧ blockCodeStart [c, c, c, '\n'] = false ∧ Scan.heading [c, c, c, '\n'] = none ∧
    quoteStart [c, c, c, '\n'] = false ∧ codeFenceStart [c, c, c, '\n'] = none ∧ Scan.thematicBreak [c, c, c, '\n'] = true := by
  rcases hc with rfl | rfl | rfl <;> decide

/-! ### the fragment -/

inductive Blk where
  | para (lines : List Str)
  | heading (level : Nat) (text : Str)
  | hr (c : Char)

/-- the source lines of one block, as the renderer writes them -/
def Blk.lines : Blk → List Str
  | .para ls => ls
  | .heading lv t => [hashes lv ++ ' ' :: t ++ ['\n']]
  | .hr c => [[c, c, c, '\n']]

/-- blocks separated by exactly one "\n" line -/
def itemsLines : Blk → List Blk → List Str
  | it, [] => it.lines
  | it, it' :: rest => it.lines ++ ['\n'] :: itemsLines it' rest

/-- normal form (decidable).  Paragraph: as `normalPara` (Props/C09.lean).  Heading: level 1…6; the text is
    non-empty, inline-inert on one line, without `#`, without whitespace at either end, without tab or
    line-boundary character.  Thematic break: three `*`, `-` or `_`. -/
def Blk.ok : Blk → Bool
  | .para q => !q.isEmpty && q.all (fun l => inertLine l && proseLine l && lstrip l == l && oneLine l)
      && inertBody (Document.joinNl (q.map strip))
  | .heading lv t => decide (1 ≤ lv) && decide (lv ≤ 6) && !t.isEmpty && inertText t && !t.contains '#' && strip t == t
      && !t.contains '\t' && t.all (fun c => !isLineSep c)
  | .hr c => c == '*' || c == '-' || c == '_'

structure BlkParaFacts (q : List Str) : Prop where
  ne : q ≠ []
  inert : ∀ l ∈ q, inertLine l = true
  prose : ∀ l ∈ q, proseLine l = true
  flush : ∀ l ∈ q, lstrip l = l
  one : ∀ l ∈ q, oneLine l = true
  body : inertBody (Document.joinNl (q.map strip)) = true

theorem itemParaFacts_of (q : List Str) (h : (Blk.para q).ok = true) : BlkParaFacts q := by
  simp only [Blk.ok, Bool.and_eq_true, Bool.not_eq_eq_eq_not, Bool.not_true, List.all_eq_true, beq_iff_eq] at h
  obtain ⟨⟨h1, h2⟩, h3⟩ := h
  exact ⟨(by intro e; rw [e] at h1; cases h1), fun l hl => (h2 l hl).1.1.1, fun l hl => (h2 l hl).1.1.2,
    fun l hl => (h2 l hl).1.2, fun l hl => (h2 l hl).2, h3⟩

theorem BlkParaFacts.para {q : List Str} (f : BlkParaFacts q) : ProsePara q := ⟨f.ne, f.prose, f.body⟩

theorem headOk_of (lv : Nat) (t : Str) (h : (Blk.heading lv t).ok = true) : HeadOk lv t := by
  simp only [Blk.ok, Bool.and_eq_true, decide_eq_true_eq, Bool.not_eq_eq_eq_not, Bool.not_true, beq_iff_eq,
    List.all_eq_true, List.isEmpty_eq_false_iff] at h
  obtain ⟨⟨⟨⟨⟨⟨⟨a, b⟩, c⟩, d⟩, e⟩, f⟩, g⟩, i⟩ := h
  exact ⟨a, b, c, d, by simpa using e, f, by simpa using g, i⟩

theorem hrOk_of (c : Char) (h : (Blk.hr c).ok = true) : c = '*' ∨ c = '-' ∨ c = '_' := by
  simpa [Blk.ok, or_assoc] using h

/-! ### one step of the loop per block -/

theorem fw_next (pre : List Line) (l : Line) (post : List Line) (start : Nat) :
    FW.next ⟨pre ++ l :: post, pre.length, start⟩ = ⟨(pre ++ [l]) ++ post, (pre ++ [l]).length, start⟩ := by
  simp [FW.next]

/-- a heading line: `Heading` is the first type of the Markdown renderer's list that starts on it -/
theorem tokLoop_heading_step (cfg : Cfg) (hty : cfg.types = markdownTypes) (g : Nat) (l : Line) (lv : Nat) (t : Str)
    (hl : l.s = hashes lv ++ ' ' :: t ++ ['\n']) (hk : HeadOk lv t)
    (pre post : List Line) (start : Nat) (st : St) (acc : List Entry) (loose : Bool) :
    tokLoop cfg (g + 6) ⟨pre ++ l :: post, pre.length, start⟩ st acc loose =
      tokLoop cfg (g + 5) ⟨(pre ++ [l]) ++ post, (pre ++ [l]).length, start⟩ st
        (.heading lv t [] (start + pre.length) l.origin :: acc) loose := by
  obtain ⟨m, rfl⟩ : ∃ m, lv = m + 1 := ⟨lv - 1, by have := hk.h1; omega⟩
  have hs : l.s = '#' :: (hashes m ++ ' ' :: t ++ ['\n']) := by
    rw [hl]; simp [hashes, List.replicate_succ]
  have hr := readHeading_line ⟨pre ++ l :: post, pre.length, start⟩ (m + 1) t hk.h1 hk.h6 hk.nohash
    (headOk_nonl hk) hk.stripped hk.ne
  rw [← hl] at hr
  have h1 : startsWith ['['] (lstrip l.s) = false := by
    rw [hs, hash_lstrip]; simp [startsWith, isPrefix_ne]
  have h2 : Scan.blankLine l.s = false := by
    rw [hs]; simp [Scan.blankLine, show ws '#' = false by decide]
  have h3 : htmlBlockStart l.s = .ok none := by rw [hs]; exact hash_html _
  have h4 : blockCodeStart l.s = false := by rw [hs]; exact hash_blockCode _
  have e : g + 6 = (((((g + 1) + 1) + 1) + 1) + 1) + 1 := by omega
  rw [e]
  simp only [tokLoop, peek_at, hty, markdownTypes, tryTypes, h1, h2, h3, h4, hr, Bool.false_eq_true, if_false, fw_next]

theorem hr_more (c : Char) (hc : c = '*' ∨ c = '-' ∨ c = '_') :
    startsWith ['['] (lstrip [c, c, c, '\n']) = false ∧ Scan.blankLine [c, c, c, '\n'] = false := by
  rcases hc with rfl | rfl | rfl <;> decide

/-- a thematic-break line -/
theorem tokLoop_hr_step (cfg : Cfg) (hty : cfg.types = markdownTypes) (g : Nat) (l : Line) (c : Char)
    (hl : l.s = [c, c, c, '\n']) (hc : c = '*' ∨ c = '-' ∨ c = '_')
    (pre post : List Line) (start : Nat) (st : St) (acc : List Entry) (loose : Bool) :
    tokLoop cfg (g + 9) ⟨pre ++ l :: post, pre.length, start⟩ st acc loose =
      tokLoop cfg (g + 8) ⟨(pre ++ [l]) ++ post, (pre ++ [l]).length, start⟩ st
        (.thematicBreak [c, c, c, '\n'] (start + pre.length) l.origin :: acc) loose := by
  obtain ⟨f1, f2, f3, f4, f5, f6⟩ := hr_facts c hc
  obtain ⟨f7, f8⟩ := hr_more c hc
  have e : g + 9 = ((((((((g + 1) + 1) + 1) + 1) + 1) + 1) + 1) + 1) + 1 := by omega
  rw [e]
  simp only [tokLoop, peek_at, hty, markdownTypes, tryTypes, readHeading, hl, f1, f2, f3, f4, f5, f6, f7, f8,
    Bool.false_eq_true, if_false, if_true, fw_next]

/-! ### the loop over a document of blocks -/

/-- the parse-buffer entry of a block whose first line is line `ln` (ghost origin `og`) -/
def itemEntry (ln og : Nat) : Blk → Entry
  | .para ls => .paragraph ls ln og
  | .heading lv t => .heading lv t [] ln og
  | .hr c => .thematicBreak [c, c, c, '\n'] ln og

/-- the entries of a document: one per block, one `BlankLine` per separator -/
def itemEntries (ln og : Nat) : Blk → List Blk → List Entry
  | it, [] => [itemEntry ln og it]
  | it, it' :: rest =>
    itemEntry ln og it :: .blankLine (ln + it.lines.length) (og + it.lines.length) ::
      itemEntries (ln + it.lines.length + 1) (og + it.lines.length + 1) it' rest

theorem mdTypes_par (cfg : Cfg) (hty : cfg.types = markdownTypes) : BTok.paragraph ∈ cfg.types := by rw [hty]; decide
theorem mdTypes_len (cfg : Cfg) (hty : cfg.types = markdownTypes) : cfg.types.length = 11 := by rw [hty]; rfl
theorem mdTypes_bl (cfg : Cfg) (hty : cfg.types = markdownTypes) : cfg.types.contains .blankLine = true := by rw [hty]; decide

theorem item_lines_len_pos (it : Blk) (hok : it.ok = true) : it.lines ≠ [] := by
  cases it with
  | para q => exact (itemParaFacts_of q hok).ne
  | heading lv t => simp [Blk.lines]
  | hr c => simp [Blk.lines]

/-- one block: the loop consumes exactly its lines and appends exactly its entry -/
theorem tokLoop_item_step (cfg : Cfg) (hty : cfg.types = markdownTypes) (it : Blk) (hok : it.ok = true) (g : Nat)
    (pre post : List Line) (hb : ∀ b, post.head? = some b → b.s = ['\n'])
    (start : Nat) (st : St) (acc : List Entry) (loose : Bool) :
    tokLoop cfg (g + 12) ⟨pre ++ (numbered pre.length it.lines ++ post), pre.length, start⟩ st acc loose =
      tokLoop cfg (g + 11) ⟨(pre ++ numbered pre.length it.lines) ++ post, (pre ++ numbered pre.length it.lines).length, start⟩ st
        (itemEntry (start + pre.length) (pre.length + 1) it :: acc) loose := by
  cases it with
  | para q =>
    have f := itemParaFacts_of q hok
    cases q with
    | nil => exact absurd rfl f.ne
    | cons s q' =>
      simp only [Blk.lines, numbered_cons]
      have hq : ∀ x ∈ numbered (pre.length + 1) q', Quiet x.s :=
        fun x hx => Mistletoe.Props.C14.inertLine_quiet _ (f.inert _ (List.mem_cons_of_mem _ (numbered_mem _ _ _ hx)))
      have h1 := tokLoop_para_step cfg (mdTypes_par cfg hty) (g + 11) (by rw [mdTypes_len cfg hty]; omega)
        { s := s, origin := pre.length + 1 } (numbered (pre.length + 1) q') pre post start st acc loose
        (Mistletoe.Props.C14.inertLine_quiet _ (f.inert s (by simp))) hq
        (by intro b hb'; rw [hb b hb']; decide)
      simp only [List.cons_append] at h1 ⊢
      rw [h1]
      simp only [itemEntry, List.map_cons, numbered_s]
  | heading lv t =>
    have hk := headOk_of lv t hok
    have h1 := tokLoop_heading_step cfg hty (g + 6) { s := hashes lv ++ ' ' :: t ++ ['\n'], origin := pre.length + 1 } lv t rfl hk
      pre post start st acc loose
    simp only [Blk.lines, Mistletoe.Props.C14.numbered, itemEntry] at h1 ⊢
    exact h1
  | hr c =>
    have hc := hrOk_of c hok
    have h1 := tokLoop_hr_step cfg hty (g + 3) { s := [c, c, c, '\n'], origin := pre.length + 1 } c rfl hc
      pre post start st acc loose
    simp only [Blk.lines, Mistletoe.Props.C14.numbered, itemEntry] at h1 ⊢
    exact h1

theorem tokLoop_items (cfg : Cfg) (hty : cfg.types = markdownTypes) (start : Nat) (st : St) :
    ∀ (rest : List Blk) (it : Blk) (pre : List Line) (acc : List Entry) (loose : Bool) (gas : Nat),
      it.ok = true → (∀ x ∈ rest, x.ok = true) → 2 * rest.length + 13 ≤ gas →
      tokLoop cfg gas ⟨pre ++ numbered pre.length (itemsLines it rest), pre.length, start⟩ st acc loose =
        .ok ({ entries := acc.reverse ++ itemEntries (start + pre.length) (pre.length + 1) it rest, loose := loose }, st)
  | [], it, pre, acc, loose, gas, hok, _, hg => by
    obtain ⟨g, rfl⟩ : ∃ g, gas = g + 12 := ⟨gas - 12, by simp only [List.length_nil] at hg; omega⟩
    have h1 := tokLoop_item_step cfg hty it hok g pre [] (by simp) start st acc loose
    simp only [List.append_nil] at h1
    simp only [itemsLines, itemEntries]
    rw [h1, tokLoop_end]
    simp
  | it' :: rest, it, pre, acc, loose, gas, hok, hr, hg => by
    simp only [List.length_cons] at hg
    obtain ⟨g, rfl⟩ : ∃ g, gas = g + 12 := ⟨gas - 12, by omega⟩
    let n := it.lines.length
    let b : Line := { s := ['\n'], origin := pre.length + n + 1 }
    have hlines : numbered pre.length (itemsLines it (it' :: rest)) =
        numbered pre.length it.lines ++ b :: numbered (pre.length + n + 1) (itemsLines it' rest) := by
      simp only [itemsLines, numbered_append, numbered_cons]
      rfl
    have h1 := tokLoop_item_step cfg hty it hok g pre (b :: numbered (pre.length + n + 1) (itemsLines it' rest))
      (by intro b' hb'; simp only [List.head?_cons, Option.some.injEq] at hb'; subst hb'; rfl) start st acc loose
    obtain ⟨g', rfl⟩ : ∃ g', g = g' + 2 := ⟨g - 2, by omega⟩
    have h2 := tokLoop_nl_step cfg (g' + 12) (by rw [mdTypes_len cfg hty]; omega) b (pre ++ numbered pre.length it.lines)
      (numbered (pre.length + n + 1) (itemsLines it' rest)) start st
      (itemEntry (start + pre.length) (pre.length + 1) it :: acc) loose rfl
    rw [mdTypes_bl cfg hty] at h2
    simp only [if_true] at h2
    have hlen : (pre ++ numbered pre.length it.lines ++ [b]).length = pre.length + n + 1 := by
      simp only [List.length_append, numbered_length, List.length_cons, List.length_nil]; rfl
    have ih := tokLoop_items cfg hty start st rest it' (pre ++ numbered pre.length it.lines ++ [b])
      (.blankLine (start + (pre ++ numbered pre.length it.lines).length) b.origin ::
        itemEntry (start + pre.length) (pre.length + 1) it :: acc) loose (g' + 12)
      (hr it' (by simp)) (fun x hx => hr x (List.mem_cons_of_mem _ hx)) (by omega)
    rw [hlines, h1]
    have e : g' + 2 + 11 = g' + 12 + 1 := by omega
    rw [e, h2, ← hlen, ih, hlen]
    simp only [itemEntries, List.reverse_cons, List.append_assoc, List.singleton_append, List.length_append, numbered_length]
    have e1 : start + (pre.length + it.lines.length) = start + pre.length + it.lines.length := by omega
    have e2 : start + (pre.length + n + 1) = start + pre.length + it.lines.length + 1 := by omega
    have e3 : pre.length + n + 1 + 1 = pre.length + 1 + it.lines.length + 1 := by omega
    have e4 : b.origin = pre.length + 1 + it.lines.length := by show pre.length + n + 1 = _; omega
    rw [e1, e2, e3, e4]
    simp

/-- **the block parse of a document of blocks, in every parser state** -/
theorem tokenize_items (cfg : Cfg) (hty : cfg.types = markdownTypes) (it : Blk) (rest : List Blk)
    (hok : it.ok = true) (hr : ∀ x ∈ rest, x.ok = true) (gas : Nat) (st : St) :
    tokenizeBlock cfg (gas + (2 * rest.length + 14)) (numbered 0 (itemsLines it rest)) 1 st =
      .ok ({ entries := itemEntries 1 1 it rest, loose := false }, st) := by
  have e : gas + (2 * rest.length + 14) = (gas + (2 * rest.length + 13)) + 1 := by omega
  rw [e]
  have := tokLoop_items cfg hty 1 st rest it [] [] false (gas + (2 * rest.length + 13)) hok hr (by omega)
  simpa [tokenizeBlock] using this

/-! ### the token constructors -/

open Mistletoe.Document (mkBlock mkBlocks inl stripNl)

/-- the block token of one block of the fragment -/
def itemBlock (ln : Nat) : Blk → Mistletoe.Block
  | .para ls => .paragraph (proseInlines (ls.map strip)) ln
  | .heading lv t => .heading lv [] [.rawText t] ln
  | .hr c => .thematicBreak [c, c, c] ln

/-- the children of `Document`: the blocks with `BlankLine` tokens between them -/
def itemBlocks (ln : Nat) : Blk → List Blk → List Mistletoe.Block
  | it, [] => [itemBlock ln it]
  | it, it' :: rest =>
    itemBlock ln it :: .blankLine (ln + it.lines.length) :: itemBlocks (ln + it.lines.length + 1) it' rest

theorem stripNl_hr (c : Char) (hc : c = '*' ∨ c = '-' ∨ c = '_') : stripNl [c, c, c, '\n'] = [c, c, c] := by
  rcases hc with rfl | rfl | rfl <;> decide

theorem mkBlock_item (cfg : Document.Cfg) (fn : Footnotes.Table)
    (ht : ∀ t ∈ cfg.span, inertClass t = true) (hc : cfg.span.count .lineBreak = 1)
    (it : Blk) (hok : it.ok = true) (ln og : Nat) :
    mkBlock cfg fn (itemEntry ln og it) = .ok (some (itemBlock ln it)) := by
  cases it with
  | para q => exact mkBlock_prose cfg fn q ln og ht hc (itemParaFacts_of q hok).para
  | heading lv t =>
    have hk := headOk_of lv t hok
    have hin : inl cfg fn t = .ok [.rawText t] := tokenizeInner_inert cfg.span fn t ht hk.inert hk.ne
    simp only [itemEntry, itemBlock, mkBlock, hin]
  | hr c =>
    simp only [itemEntry, itemBlock, mkBlock, stripNl_hr c (hrOk_of c hok)]

theorem mkBlocks_itemEntries (cfg : Document.Cfg) (fn : Footnotes.Table)
    (ht : ∀ t ∈ cfg.span, inertClass t = true) (hc : cfg.span.count .lineBreak = 1) :
    ∀ (rest : List Blk) (it : Blk) (ln og : Nat), it.ok = true → (∀ x ∈ rest, x.ok = true) →
    mkBlocks cfg fn (itemEntries ln og it rest) = .ok (itemBlocks ln it rest)
  | [], it, ln, og, hok, _ => by
    simp only [itemEntries, itemBlocks, mkBlocks, mkBlock_item cfg fn ht hc it hok ln og]
  | it' :: rest, it, ln, og, hok, hr => by
    have ih := mkBlocks_itemEntries cfg fn ht hc rest it' (ln + it.lines.length + 1) (og + it.lines.length + 1)
      (hr it' (by simp)) (fun x hx => hr x (List.mem_cons_of_mem _ hx))
    simp only [itemEntries, itemBlocks, mkBlocks]
    rw [mkBlock_item cfg fn ht hc it hok ln og]
    simp only [mkBlock, ih]

/-! ### the renderer -/

/-- the lines the renderer writes for one block -/
def itemOut : Blk → List Str
  | .para ls => ls.map strip
  | .heading lv t => [hashes lv ++ ' ' :: t]
  | .hr c => [[c, c, c]]

def itemsOut : Blk → List Blk → List Str
  | it, [] => itemOut it
  | it, it' :: rest => itemOut it ++ [] :: itemsOut it' rest

theorem renderBlock_item (o : Opts) (it : Blk) (hok : it.ok = true) (ln : Nat) :
    renderBlock o none (itemBlock ln it) = .ok (itemOut it) := by
  cases it with
  | para q =>
    simp only [itemBlock, itemOut, renderBlock, spanToLines_prose _ (strip_lines_ok q (itemParaFacts_of q hok).prose)]
  | heading lv t =>
    have hk := headOk_of lv t hok
    have h1 : spanToLines [.rawText t] none = .ok [t] := by
      have := spanToLines_prose [t] (by intro x hx; simp only [List.mem_singleton] at hx; subst hx; exact ⟨hk.ne, headOk_nonl hk⟩)
      simpa [proseInlines] using this
    have hne : t.isEmpty = false := by cases t with | nil => exact absurd rfl hk.ne | cons _ _ => rfl
    simp only [itemBlock, itemOut, renderBlock, firstLine, h1, hne, hashes]
    simp
  | hr c => simp only [itemBlock, itemOut, renderBlock]

theorem renderBlocks_items (o : Opts) : ∀ (rest : List Blk) (it : Blk) (ln : Nat),
    it.ok = true → (∀ x ∈ rest, x.ok = true) →
    renderBlocks o none (itemBlocks ln it rest) = .ok (itemsOut it rest)
  | [], it, ln, hok, _ => by
    simp only [itemBlocks, itemsOut, renderBlocks, renderBlock_item o it hok ln]
    simp
  | it' :: rest, it, ln, hok, hr => by
    have ih := renderBlocks_items o rest it' (ln + it.lines.length + 1) (hr it' (by simp)) (fun x hx => hr x (List.mem_cons_of_mem _ hx))
    simp only [itemBlocks, itemsOut, renderBlocks, renderBlock_item o it hok ln, renderBlock, ih]
    simp

/-! ### the text -/

theorem itemOut_lines (it : Blk) (hok : it.ok = true) : (itemOut it).map (· ++ ['\n']) = it.lines := by
  cases it with
  | para q =>
    have f := itemParaFacts_of q hok
    exact strip_nl_lines q (fun l hl => ⟨f.prose l hl, f.flush l hl⟩)
  | heading lv t => simp [itemOut, Blk.lines]
  | hr c => simp [itemOut, Blk.lines]

theorem itemsOut_lines : ∀ (rest : List Blk) (it : Blk), it.ok = true → (∀ x ∈ rest, x.ok = true) →
    (itemsOut it rest).map (· ++ ['\n']) = itemsLines it rest
  | [], it, hok, _ => by simp only [itemsOut, itemsLines, itemOut_lines it hok]
  | it' :: rest, it, hok, hr => by
    have ih := itemsOut_lines rest it' (hr it' (by simp)) (fun x hx => hr x (List.mem_cons_of_mem _ hx))
    simp only [itemsOut, itemsLines, List.map_append, List.map_cons, itemOut_lines it hok, ih, List.nil_append]

theorem item_oneLine (it : Blk) (hok : it.ok = true) : ∀ l ∈ it.lines, oneLine l = true := by
  cases it with
  | para q => exact (itemParaFacts_of q hok).one
  | heading lv t =>
    have hk := headOk_of lv t hok
    intro l hl
    simp only [Blk.lines, List.mem_singleton] at hl
    subst hl
    simp only [oneLine, Bool.and_eq_true, beq_iff_eq, List.all_eq_true, Bool.not_eq_eq_eq_not, Bool.not_true]
    constructor
    · have : hashes lv ++ ' ' :: t ++ ['\n'] = (hashes lv ++ ' ' :: t) ++ ['\n'] := by simp
      rw [this, List.getLast?_append]; rfl
    · intro c hc
      have e : (hashes lv ++ ' ' :: t ++ ['\n']).dropLast = hashes lv ++ ' ' :: t := by
        rw [List.dropLast_append_of_ne_nil (by simp)]; simp
      rw [e] at hc
      rcases List.mem_append.mp hc with hc | hc
      · simp only [hashes, List.mem_replicate] at hc
        rw [hc.2]; decide
      · rcases List.mem_cons.mp hc with hc | hc
        · rw [hc]; decide
        · exact hk.nosep c hc
  | hr c =>
    intro l hl
    simp only [Blk.lines, List.mem_singleton] at hl
    subst hl
    rcases hrOk_of c hok with rfl | rfl | rfl <;> decide

theorem items_oneLine : ∀ (rest : List Blk) (it : Blk), it.ok = true → (∀ x ∈ rest, x.ok = true) →
    ∀ l ∈ itemsLines it rest, oneLine l = true
  | [], it, hok, _ => by simpa [itemsLines] using item_oneLine it hok
  | it' :: rest, it, hok, hr => by
    have ih := items_oneLine rest it' (hr it' (by simp)) (fun x hx => hr x (List.mem_cons_of_mem _ hx))
    intro l hl
    simp only [itemsLines, List.mem_append, List.mem_cons] at hl
    rcases hl with hl | rfl | hl
    · exact item_oneLine it hok l hl
    · decide
    · exact ih l hl

theorem itemsLines_ne (it : Blk) (rest : List Blk) (hok : it.ok = true) : itemsLines it rest ≠ [] := by
  have := item_lines_len_pos it hok
  cases rest <;> simp [itemsLines, this]

end Mistletoe.MdRound
