/-
  C07, the step from a reference written in the TEXT to the table lookup.

  Props/C07.lean, Props/C07_Order.lean and Proofs/DefOrder.lean prove everything about the TABLE of link reference
  definitions (first definition in document order wins, labels compared after `normalize_label`, one table for
  the whole document).  Here: the inline parser (`find_core_tokens` / `find_link_image` / `match_link_image` /
  `get_link_label` / `match_link_label` of core_tokens.py, then `tokenize_inner`), meeting a reference in
  otherwise plain text, calls exactly `Footnotes.lookup fn (normalizeLabel lbl)` - the function
  `Footnotes.resolve` of the C07 theorems - and

  * when the lookup succeeds produces exactly one match, hence one `Link` (`Image` for `![…]`) token carrying the
    looked-up destination and title, with the reference text as its only child;
  * when it fails produces no match at all: the text stays one literal `RawText`.

  Setting (`RefText`): `pre`, `lbl`, `post` consist of `plainCh` characters (anything but `` \ ` < & ~ [ ] * _ ! ``
  and newline: letters, digits, spaces, most punctuation, non-ASCII), `lbl` not blank, `post` not beginning
  with `(`; the span-token list consists of covered classes (`inertClass`) and contains `CoreTokens` once
  (`C07_config_covered`: true of the lists of the bundled renderers).

  Forms (`img = true`: image):   shortcut  `[lbl]`        `ref_shortcut_resolves`  / `ref_shortcut_unresolved`
                                 collapsed `[lbl][]`      `ref_collapsed_resolves` / `ref_collapsed_unresolved`
                                 full      `[text][lbl]`  `ref_full_resolves`      / `ref_full_unresolved`
  spelled out for links: `shortcut_resolves`, `shortcut_unresolved`, `image_shortcut_resolves`,
  `collapsed_resolves`, `full_resolves`.

  Document level: `C07_shortcut_document` (parse buffer = one definition entry + one paragraph entry, as a hypothesis
  about `blockPhase`; the table then comes from `blockPhase_defs`, i.e. document order) and
  `C07_shortcut_document_text` for the text `[defLbl]: dest`, blank line, `pre[lbl]post` under `Config.html`, with
  the block-phase hypothesis as a Boolean (`blockPhaseIs`) that a concrete instance discharges by kernel evaluation.
  The general behaviour of the block phase on a definition line (`readFootnote`) is NOT proved here.
-/
import Mistletoe.Proofs.InertInline2
import Mistletoe.Props.C07_Order
namespace Mistletoe.RefResolve
open Mistletoe Mistletoe.Py Mistletoe.Scan Mistletoe.InlineScan Mistletoe.Core Mistletoe.Inline Mistletoe.InertInline
open Mistletoe.InertInline2

/-! ## the characters -/

/-- a character with no inline meaning at all, not even as part of a bracket pair or `![` -/
def plainCh (c : Char) : Bool :=
  c != '\\' && c != '`' && c != '<' && c != '&' && c != '~' && c != '[' && c != ']' && c != '*' && c != '_' &&
    c != '!' && c != '\n'

theorem plainCh_of (c : Char) (h : plainCh c = true) :
    c ≠ '\\' ∧ c ≠ '`' ∧ c ≠ '<' ∧ c ≠ '&' ∧ c ≠ '~' ∧ c ≠ '[' ∧ c ≠ ']' ∧ c ≠ '*' ∧ c ≠ '_' ∧ c ≠ '!' ∧ c ≠ '\n' := by
  simp only [plainCh, Bool.and_eq_true, bne_iff_ne, ne_eq] at h
  obtain ⟨⟨⟨⟨⟨⟨⟨⟨⟨⟨h1, h2⟩, h3⟩, h4⟩, h5⟩, h6⟩, h7⟩, h8⟩, h9⟩, h10⟩, h11⟩ := h
  exact ⟨h1, h2, h3, h4, h5, h6, h7, h8, h9, h10, h11⟩

def plainStr (s : Str) : Bool := s.all plainCh

/-- the loop state between tokens: nothing pending -/
structure Neutral (st : FState) : Prop where
  esc : st.escaped = false
  run : st.inRun = none
  img : st.inImage = false
  code : st.code = none

theorem coreLoop_plain_step (s : Str) (fn : Footnotes.Table) (i : Nat) (c : Char) (hi : s[i]? = some c)
    (hc : plainCh c = true) (st : FState) (hn : Neutral st) (fuel : Nat) :
    coreLoop s fn (fuel + 1) i st = coreLoop s fn fuel (i + 1) st := by
  obtain ⟨ds, ms, codes, escaped, inRun, inImage, start, code⟩ := st
  obtain ⟨h1, h2, h3, h4⟩ := hn
  simp only at h1 h2 h3 h4
  subst h1 h2 h3 h4
  obtain ⟨c1, c2, c3, c4, c5, c6, c7, c8, c9, c10, c11⟩ := plainCh_of c hc
  simp [coreLoop, hi, c1, c6, c7, c8, c9, c10]

theorem coreLoop_plain_run (s : Str) (fn : Footnotes.Table) (st : FState) (hn : Neutral st) :
    ∀ (mid a b : Str) (fuel : Nat), s = a ++ mid ++ b → plainStr mid = true →
      coreLoop s fn (mid.length + fuel) a.length st = coreLoop s fn fuel (a.length + mid.length) st
  | [], a, b, fuel, _, _ => by simp
  | c :: mid, a, b, fuel, hs, hp => by
    simp only [plainStr, List.all_cons, Bool.and_eq_true] at hp
    have hi : s[a.length]? = some c := by rw [hs]; simp
    have e : (c :: mid).length + fuel = (mid.length + fuel) + 1 := by simp <;> omega
    rw [e, coreLoop_plain_step s fn a.length c hi hp.1 st hn]
    have := coreLoop_plain_run s fn st hn mid (a ++ [c]) b fuel (by rw [hs]; simp) hp.2
    simp only [List.length_append, List.length_singleton] at this
    rw [this]
    congr 1
    simp <;> omega

/-! ## the bracket delimiter -/

/-- the text of the opening delimiter: `[` or `![` -/
def opener (img : Bool) : Str := if img then ['!', '['] else ['[']

/-- the `Delimiter` object pushed for it at position `p` -/
def brDelim (img : Bool) (p : Nat) : Delim :=
  { type := opener img, number := (opener img).length, runLength := (opener img).length, active := true, start := p,
    stop := p + (opener img).length, emph := false, opens := false, closes := false }

theorem slice_mid {α} (a m b : List α) : slice (a ++ m ++ b) a.length (a.length + m.length) = m := by
  simp [slice]

theorem mkDelim_opener (img : Bool) (s a b : Str) (hs : s = a ++ opener img ++ b) :
    mkDelim a.length (a.length + (opener img).length) s = brDelim img a.length := by
  have hsl := slice_mid a (opener img) b
  rw [← hs] at hsl
  unfold mkDelim brDelim
  simp only [hsl]
  cases img <;> simp [opener]

/-- the loop over the opening delimiter -/
theorem coreLoop_open (img : Bool) (s : Str) (fn : Footnotes.Table) (a b : Str) (hs : s = a ++ opener img ++ b)
    (st : FState) (hn : Neutral st) (fuel : Nat) :
    coreLoop s fn ((opener img).length + fuel) a.length st =
      coreLoop s fn fuel (a.length + (opener img).length) (pushDelim st (brDelim img a.length)) := by
  obtain ⟨ds, ms, codes, escaped, inRun, inImage, start, code⟩ := st
  obtain ⟨h1, h2, h3, h4⟩ := hn
  simp only at h1 h2 h3 h4
  subst h1 h2 h3 h4
  have hD := mkDelim_opener img s a b hs
  cases img with
  | false =>
    have hi : s[a.length]? = some '[' := by rw [hs]; simp [opener]
    simp only [opener, List.length_singleton, Bool.false_eq_true, if_false] at hD ⊢
    rw [Nat.add_comm 1 fuel]
    simp [coreLoop, hi, pushDelim, hD]
  | true =>
    have hi : s[a.length]? = some '!' := by rw [hs]; simp [opener]
    have hi2 : s[a.length + 1]? = some '[' := by
      rw [hs]; simp [opener]
    simp only [opener, if_true, List.length_cons, List.length_nil] at hD ⊢
    have e : 0 + 1 + 1 + fuel = (fuel + 1) + 1 := by omega
    rw [e]
    simp [coreLoop, hi, hi2, pushDelim, hD]

/-! ## `find_link_image` with exactly one bracket delimiter on the stack -/

theorem processEmphasis_single (s : Str) (img : Bool) (p : Nat) (ms : List CoreM) :
    processEmphasis s (some 0) [brDelim img p] ms = .ok ([], ms) := by
  unfold processEmphasis
  have : nextCloser ((some 0 : Option Nat).getD 0) [brDelim img p] = none := by
    simp [nextCloser, nextCloser.go, brDelim]
  rw [this]
  have e : 2 * s.length + 2 * [brDelim img p].length + 4 = (2 * s.length + 2 * [brDelim img p].length + 3) + 1 := by omega
  rw [e]
  simp [emphLoop]

theorem findLinkImage_single (s : Str) (q : Nat) (img : Bool) (p : Nat) (ms : List CoreM) (fn : Footnotes.Table) :
    findLinkImage s q [brDelim img p] ms fn =
      match matchLinkImage s q (brDelim img p) fn with
      | none => .ok (q, [], ms)
      | some m => .ok (m.stop - 1, [], m :: ms) := by
  unfold findLinkImage
  have hl : lastBracket [brDelim img p] 0 none = some 0 := by
    cases img <;> simp [lastBracket, brDelim, opener]
  rw [hl]
  simp only [List.getElem?_cons_zero]
  have ha : (brDelim img p).active = true := rfl
  simp only [ha, Bool.not_true, Bool.false_eq_true, if_false]
  cases hm : matchLinkImage s q (brDelim img p) fn with
  | none => simp
  | some m =>
    simp only [processEmphasis_single]
    cases img <;> simp [brDelim, opener]

/-- the loop at the `]`: the outcome of `match_link_image` decides -/
theorem coreLoop_close (s : Str) (fn : Footnotes.Table) (q : Nat) (hq : s[q]? = some ']') (hbt : '`' ∉ s)
    (img : Bool) (p : Nat) (st : FState) (hn : Neutral st) (hds : st.ds = [brDelim img p]) (fuel : Nat) :
    coreLoop s fn (fuel + 1) q st =
      match matchLinkImage s q (brDelim img p) fn with
      | none => coreLoop s fn fuel (q + 1) { st with ds := [] }
      | some m => coreLoop s fn fuel (m.stop - 1 + 1) { st with ds := [], ms := m :: st.ms } := by
  obtain ⟨ds, ms, codes, escaped, inRun, inImage, start, code⟩ := st
  obtain ⟨h1, h2, h3, h4⟩ := hn
  simp only at h1 h2 h3 h4 hds
  subst h1 h2 h3 h4 hds
  simp only [coreLoop, hq]
  simp only [Char.reduceEq, decide_false, Bool.false_and, Bool.false_eq_true, if_false, Option.isSome_none,
    Option.isNone_none, Bool.true_and, Bool.or_self, Bool.not_false, if_true]
  rw [findLinkImage_single]
  cases hm : matchLinkImage s q (brDelim img p) fn with
  | none => simp [codeSearch_none s _ hbt]
  | some m => simp [codeSearch_none s _ hbt]

/-- **one bracket pair** met in a neutral state with an empty delimiter stack: opening delimiter, plain text, `]`.
    Whatever `match_link_image` answers at the `]` is recorded; the stack is empty again afterwards. -/
theorem coreLoop_segment (img : Bool) (s : Str) (fn : Footnotes.Table) (a text b : Str)
    (hs : s = a ++ opener img ++ text ++ ']' :: b) (hbt : '`' ∉ s) (htext : plainStr text = true)
    (st : FState) (hn : Neutral st) (hds : st.ds = []) (fuel : Nat) :
    coreLoop s fn ((opener img).length + (text.length + (fuel + 1))) a.length st =
      match matchLinkImage s (a.length + (opener img).length + text.length) (brDelim img a.length) fn with
      | none => coreLoop s fn fuel (a.length + (opener img).length + text.length + 1) st
      | some m => coreLoop s fn fuel (m.stop - 1 + 1) { st with ms := m :: st.ms } := by
  rw [coreLoop_open img s fn a (text ++ ']' :: b) (by rw [hs]; simp) st hn]
  have hn1 : Neutral (pushDelim st (brDelim img a.length)) := ⟨hn.esc, hn.run, hn.img, hn.code⟩
  have r3 := coreLoop_plain_run s fn _ hn1 text (a ++ opener img) (']' :: b) (fuel + 1) (by rw [hs]; try simp) htext
  simp only [List.length_append] at r3
  rw [r3]
  have hq : s[a.length + (opener img).length + text.length]? = some ']' := by
    rw [hs]
    have : a.length + (opener img).length + text.length = (a ++ opener img ++ text).length := by
      simp only [List.length_append]
    rw [this]; simp
  rw [coreLoop_close s fn _ hq hbt img a.length _ hn1 (by simp [pushDelim, hds])]
  obtain ⟨ds, ms, codes, escaped, inRun, inImage, start, code⟩ := st
  simp only at hds
  subst hds
  cases matchLinkImage s (a.length + (opener img).length + text.length) (brDelim img a.length) fn <;> rfl

theorem coreLoop_end (s : Str) (fn : Footnotes.Table) (i : Nat) (hi : s.length ≤ i) (st : FState) (fuel : Nat) :
    coreLoop s fn (fuel + 1) i st = .ok (i, st) := by
  have : s[i]? = none := by simp [hi]
  simp [coreLoop, this]

/-- the plain text after the last bracket pair, up to the end of the string -/
theorem coreLoop_tail (s : Str) (fn : Footnotes.Table) (a post : Str) (hs : s = a ++ post) (hpost : plainStr post = true)
    (st : FState) (hn : Neutral st) (k : Nat) (hk : 0 < k) :
    coreLoop s fn (post.length + k) a.length st = .ok (s.length, st) := by
  obtain ⟨k, rfl⟩ : ∃ j, k = j + 1 := ⟨k - 1, by omega⟩
  rw [coreLoop_plain_run s fn st hn post a [] (k + 1) (by rw [hs]; simp) hpost]
  have e : a.length + post.length = s.length := by rw [hs]; simp
  rw [e]
  exact coreLoop_end s fn _ (Nat.le_refl _) st k

def st0 : FState := { code := none }
theorem st0_neutral : Neutral st0 := ⟨rfl, rfl, rfl, rfl⟩

theorem coreLoop_plain_run0 (s : Str) (fn : Footnotes.Table) (st : FState) (hn : Neutral st) (mid b : Str) (fuel : Nat)
    (hs : s = mid ++ b) (hp : plainStr mid = true) :
    coreLoop s fn (mid.length + fuel) 0 st = coreLoop s fn fuel mid.length st := by
  have := coreLoop_plain_run s fn st hn mid [] b fuel (by simpa using hs) hp
  simpa using this

/-- `find_core_tokens` once the loop has ended in a neutral state with an empty delimiter stack -/
theorem findCoreTokens_of_loop (s : Str) (fn : Footnotes.Table) (i : Nat) (st : FState) (hn : Neutral st)
    (hds : st.ds = []) (hcodes : st.codes = []) (hbt : '`' ∉ s)
    (h : coreLoop s fn (s.length + 2) 0 st0 = .ok (i, st)) :
    findCoreTokens s fn = .ok (st.ms.reverse, []) := by
  unfold findCoreTokens
  rw [codeSearch_none s 0 hbt]
  show (match coreLoop s fn (s.length + 2) 0 st0 with | Res.err e => Res.err e | Res.ok (i, st) => _) = _
  rw [h]
  simp only [hn.run, Option.isSome_none, Bool.false_eq_true, if_false, hds, hcodes, List.reverse_nil]
  rw [processEmphasis_none s [] st.ms (by simp)]

/-- **the general step**: `pre`, `text`, `post` plain; whatever `match_link_image` answers at the first `]`
    is the whole result.  `skip` is what a successful match consumes after the `]`. -/
theorem findCoreTokens_bracket (img : Bool) (s pre text skip post : Str) (fn : Footnotes.Table)
    (hs : s = pre ++ opener img ++ text ++ ']' :: (skip ++ post)) (hbt : '`' ∉ s)
    (hpre : plainStr pre = true) (htext : plainStr text = true) (hpost : plainStr post = true) (m : CoreM)
    (hm : matchLinkImage s (pre.length + (opener img).length + text.length) (brDelim img pre.length) fn = some m)
    (hstop : m.stop = pre.length + (opener img).length + text.length + 1 + skip.length) :
    findCoreTokens s fn = .ok ([m], []) := by
  have hlen : s.length + 2 = pre.length + ((opener img).length + (text.length + ((post.length + (skip.length + 2)) + 1))) := by
    rw [hs]; simp only [List.length_append, List.length_cons]; omega
  refine findCoreTokens_of_loop s fn s.length { st0 with ms := [m] } ⟨rfl, rfl, rfl, rfl⟩ rfl rfl hbt ?_
  rw [hlen]
  rw [coreLoop_plain_run0 s fn st0 st0_neutral pre (opener img ++ text ++ ']' :: (skip ++ post)) _ (by rw [hs]; simp) hpre,
    coreLoop_segment img s fn pre text (skip ++ post) hs hbt htext st0 st0_neutral rfl, hm]
  simp only
  have e1 : m.stop - 1 + 1 = (pre ++ opener img ++ text ++ ']' :: skip).length := by
    rw [hstop]; simp <;> omega
  rw [e1]
  exact coreLoop_tail s fn _ post (by rw [hs]; simp) hpost _ ⟨rfl, rfl, rfl, rfl⟩ (skip.length + 2) (by omega)

/-- the same when `match_link_image` fails and `post` follows the `]` directly: nothing is found -/
theorem findCoreTokens_bracket_none (img : Bool) (s pre text post : Str) (fn : Footnotes.Table)
    (hs : s = pre ++ opener img ++ text ++ ']' :: post) (hbt : '`' ∉ s)
    (hpre : plainStr pre = true) (htext : plainStr text = true) (hpost : plainStr post = true)
    (hm : matchLinkImage s (pre.length + (opener img).length + text.length) (brDelim img pre.length) fn = none) :
    findCoreTokens s fn = .ok ([], []) := by
  have hlen : s.length + 2 = pre.length + ((opener img).length + (text.length + ((post.length + 2) + 1))) := by
    rw [hs]; simp only [List.length_append, List.length_cons]; omega
  refine findCoreTokens_of_loop s fn s.length st0 st0_neutral rfl rfl hbt ?_
  rw [hlen]
  rw [coreLoop_plain_run0 s fn st0 st0_neutral pre (opener img ++ text ++ ']' :: post) _ (by rw [hs]; simp) hpre,
    coreLoop_segment img s fn pre text post hs hbt htext st0 st0_neutral rfl, hm]
  simp only
  have e1 : pre.length + (opener img).length + text.length + 1 = (pre ++ opener img ++ text ++ [']']).length := by
    simp <;> omega
  rw [e1]
  exact coreLoop_tail s fn _ post (by rw [hs]; simp) hpost _ st0_neutral 2 (by omega)

/-- two bracket pairs in a row, `match_link_image` failing at both `]`: nothing is found -/
theorem findCoreTokens_two_none (img : Bool) (s pre text text2 post : Str) (fn : Footnotes.Table)
    (hs : s = pre ++ opener img ++ text ++ ']' :: '[' :: (text2 ++ ']' :: post)) (hbt : '`' ∉ s)
    (hpre : plainStr pre = true) (htext : plainStr text = true) (htext2 : plainStr text2 = true)
    (hpost : plainStr post = true)
    (hm : matchLinkImage s (pre.length + (opener img).length + text.length) (brDelim img pre.length) fn = none)
    (hm2 : matchLinkImage s (pre.length + (opener img).length + text.length + 1 + 1 + text2.length)
      (brDelim false (pre.length + (opener img).length + text.length + 1)) fn = none) :
    findCoreTokens s fn = .ok ([], []) := by
  have hlen : s.length + 2 = pre.length + ((opener img).length + (text.length +
      (((opener false).length + (text2.length + ((post.length + 2) + 1))) + 1))) := by
    rw [hs]; simp only [List.length_append, List.length_cons, opener, Bool.false_eq_true, if_false, List.length_nil]; omega
  refine findCoreTokens_of_loop s fn s.length st0 st0_neutral rfl rfl hbt ?_
  rw [hlen]
  rw [coreLoop_plain_run0 s fn st0 st0_neutral pre (opener img ++ text ++ ']' :: '[' :: (text2 ++ ']' :: post)) _
      (by rw [hs]; simp) hpre,
    coreLoop_segment img s fn pre text ('[' :: (text2 ++ ']' :: post)) hs hbt htext st0 st0_neutral rfl, hm]
  simp only
  have e1 : pre.length + (opener img).length + text.length + 1 = (pre ++ opener img ++ text ++ [']']).length := by
    simp <;> omega
  have hs2 : s = (pre ++ opener img ++ text ++ [']']) ++ opener false ++ text2 ++ ']' :: post := by
    rw [hs]; simp [opener]
  rw [e1, coreLoop_segment false s fn _ text2 post hs2 hbt htext2 st0 st0_neutral rfl]
  have e2 : (pre ++ opener img ++ text ++ [']']).length + (opener false).length + text2.length =
      pre.length + (opener img).length + text.length + 1 + 1 + text2.length := by
    simp [opener] <;> omega
  rw [e2, ← e1, hm2]
  simp only
  have e3 : pre.length + (opener img).length + text.length + 1 + 1 + text2.length + 1 =
      (pre ++ opener img ++ text ++ ']' :: '[' :: text2 ++ [']']).length := by
    simp <;> omega
  rw [e3]
  exact coreLoop_tail s fn _ post (by rw [hs]; simp) hpost _ st0_neutral 2 (by omega)

/-! ## `match_link_image` on the three reference forms -/

theorem bad_plain : ∀ (t : Str), plainStr t = true → getLinkLabel.bad t false = false
  | [], _ => rfl
  | c :: rest, h => by
    simp only [plainStr, List.all_cons, Bool.and_eq_true] at h
    obtain ⟨c1, _, _, _, _, c6, c7, _⟩ := plainCh_of c h.1
    simp only [getLinkLabel.bad, c1, c6, c7, decide_false, Bool.false_and, Bool.false_eq_true, if_false, Bool.or_self]
    exact bad_plain rest h.2

/-- `get_link_label` on a plain, non-blank text is the table lookup of its normalised form -/
theorem getLinkLabel_plain (text : Str) (fn : Footnotes.Table) (hp : plainStr text = true) (hb : isBlank text = false) :
    getLinkLabel text fn = Footnotes.lookup fn (Footnotes.normalizeLabel text) := by
  unfold getLinkLabel
  simp [bad_plain text hp, hb]

theorem getLinkLabel_blank (text : Str) (fn : Footnotes.Table) (hb : isBlank text = true) : getLinkLabel text fn = none := by
  unfold getLinkLabel
  simp [hb]

/-- the match object of a reference whose opening delimiter is at `p` and whose text has length `n` -/
def refMatch (img : Bool) (p n stop : Nat) (dest title : Str) (destType : String) (label : Option Str) : CoreM :=
  { start := p, stop := stop, kind := if img then .image else .link, ts := p + (opener img).length,
    te := p + (opener img).length + n, dest := dest, title := title, destType := destType.toList, label := label }

theorem follows_mid (a : Str) (c : Char) (rest : Str) (x : Char) :
    follows (a ++ c :: rest) a.length x = (rest.head? == some x) := by
  unfold follows
  have := getElem?_after a c rest 0
  simp only [Nat.add_zero, List.drop_zero] at this
  rw [this]

theorem slice_text (pre op text rest : Str) :
    slice (pre ++ op ++ text ++ rest) (pre.length + op.length) (pre.length + op.length + text.length) = text := by
  have := slice_mid (pre ++ op) text rest
  simpa using this

theorem opener_beq (img : Bool) : (opener img == ['!', '[']) = img := by cases img <;> rfl

/-- **shortcut form** `[text]` / `![text]`: `match_link_image` looks `normalize_label(text)` up in the table -/
theorem matchLinkImage_shortcut (img : Bool) (s pre text post : Str) (fn : Footnotes.Table)
    (hs : s = pre ++ opener img ++ text ++ ']' :: post)
    (htext : plainStr text = true) (hb : isBlank text = false)
    (h1 : post.head? ≠ some '(') (h2 : post.head? ≠ some '[') :
    matchLinkImage s (pre.length + (opener img).length + text.length) (brDelim img pre.length) fn =
      (Footnotes.lookup fn (Footnotes.normalizeLabel text)).map (fun r =>
        refMatch img pre.length text.length (pre.length + (opener img).length + text.length + 1) r.1 r.2 "shortcut" none) := by
  have hq : pre.length + (opener img).length + text.length = (pre ++ opener img ++ text).length := by
    simp only [List.length_append]
  have f1 : follows s (pre.length + (opener img).length + text.length) '(' = false := by
    rw [hs, hq, follows_mid]; simpa using h1
  have f2 : follows s (pre.length + (opener img).length + text.length) '[' = false := by
    rw [hs, hq, follows_mid]; simpa using h2
  have hsl : slice s (pre.length + (opener img).length) (pre.length + (opener img).length + text.length) = text := by
    rw [hs]; exact slice_text pre (opener img) text (']' :: post)
  unfold matchLinkImage
  simp only [f1, f2, Bool.false_eq_true, if_false]
  have e1 : (brDelim img pre.length).start = pre.length := rfl
  have e2 : (brDelim img pre.length).number = (opener img).length := rfl
  have e3 : (brDelim img pre.length).type = opener img := rfl
  simp only [e1, e2, e3, hsl, getLinkLabel_plain text fn htext hb, opener_beq]
  cases Footnotes.lookup fn (Footnotes.normalizeLabel text) with
  | none => rfl
  | some r => obtain ⟨d, t⟩ := r; rfl

theorem drop_at {α} (a b : List α) : (a ++ b).drop a.length = b := by simp

theorem slice_empty {α} (s : List α) (a : Nat) : slice s a a = [] := by simp [slice]

/-- **collapsed form** `[text][]` / `![text][]` -/
theorem matchLinkImage_collapsed (img : Bool) (s pre text post : Str) (fn : Footnotes.Table)
    (hs : s = pre ++ opener img ++ text ++ ']' :: '[' :: ']' :: post)
    (htext : plainStr text = true) (hb : isBlank text = false) :
    matchLinkImage s (pre.length + (opener img).length + text.length) (brDelim img pre.length) fn =
      (Footnotes.lookup fn (Footnotes.normalizeLabel text)).map (fun r =>
        refMatch img pre.length text.length (pre.length + (opener img).length + text.length + 3) r.1 r.2 "collapsed" none) := by
  have hq : pre.length + (opener img).length + text.length = (pre ++ opener img ++ text).length := by
    simp only [List.length_append]
  have hq1 : pre.length + (opener img).length + text.length + 1 = (pre ++ opener img ++ text ++ [']']).length := by
    simp only [List.length_append, List.length_singleton]
  have hs1 : s = (pre ++ opener img ++ text ++ [']']) ++ '[' :: ']' :: post := by rw [hs]; simp
  have f1 : follows s (pre.length + (opener img).length + text.length) '(' = false := by
    rw [hs, hq, follows_mid]; rfl
  have f2 : follows s (pre.length + (opener img).length + text.length) '[' = true := by
    rw [hs, hq, follows_mid]; rfl
  have f3 : follows s (pre.length + (opener img).length + text.length + 1) ']' = true := by
    rw [hq1, hs1, follows_mid]; rfl
  have hml : matchLinkLabel s (pre.length + (opener img).length + text.length + 1) fn = none := by
    unfold matchLinkLabel
    rw [hq1]
    conv => lhs; arg 3; rw [hs1, drop_at]
    simp [labelGo, slice_empty, isBlank]
  have hsl : slice s (pre.length + (opener img).length) (pre.length + (opener img).length + text.length) = text := by
    rw [hs]; exact slice_text pre (opener img) text _
  unfold matchLinkImage
  simp only [f1, f2, f3, hml, Bool.false_eq_true, if_false, if_true]
  have e1 : (brDelim img pre.length).start = pre.length := rfl
  have e2 : (brDelim img pre.length).number = (opener img).length := rfl
  have e3 : (brDelim img pre.length).type = opener img := rfl
  simp only [e1, e2, e3, hsl, getLinkLabel_plain text fn htext hb, opener_beq]
  cases Footnotes.lookup fn (Footnotes.normalizeLabel text) with
  | none => rfl
  | some r => obtain ⟨d, t⟩ := r; rfl

theorem labelGo_plain (s : Str) (fn : Footnotes.Table) : ∀ (lbl rest : Str) (i : Nat) (st : Option Nat),
    plainStr lbl = true → labelGo s fn (lbl ++ rest) i st false = labelGo s fn rest (i + lbl.length) st false
  | [], _, _, _, _ => by simp
  | c :: lbl, rest, i, st, h => by
    simp only [plainStr, List.all_cons, Bool.and_eq_true] at h
    obtain ⟨c1, _, _, _, _, c6, c7, _⟩ := plainCh_of c h.1
    have ih := labelGo_plain s fn lbl rest (i + 1) st h.2
    simp only [List.cons_append, labelGo, c1, c6, c7, decide_false, Bool.false_and, Bool.false_eq_true, if_false]
    rw [ih]
    congr 1
    simp <;> omega

/-- `match_link_label` at the `[` after the first `]` of `…][lbl]…` -/
theorem matchLinkLabel_full (s a lbl post : Str) (fn : Footnotes.Table) (hs : s = a ++ '[' :: (lbl ++ ']' :: post))
    (hl : plainStr lbl = true) (hb : isBlank lbl = false) :
    matchLinkLabel s a.length fn =
      (Footnotes.lookup fn (Footnotes.normalizeLabel lbl)).map (fun r => ((a.length + 1 + lbl.length + 1, lbl), r)) := by
  unfold matchLinkLabel
  conv => lhs; arg 3; rw [hs, drop_at]
  have hsl : slice s (a.length + 1) (a.length + 1 + lbl.length) = lbl := by
    have := slice_mid (a ++ ['[']) lbl (']' :: post)
    have e : a ++ ['['] ++ lbl ++ ']' :: post = s := by rw [hs]; simp
    rw [e] at this
    simpa using this
  simp only [labelGo, Char.reduceEq, decide_false, decide_true, Bool.false_and, Bool.true_and,
    Bool.not_false, Bool.false_eq_true, if_false, if_true]
  rw [labelGo_plain s fn lbl (']' :: post) (a.length + 1) (some a.length) hl]
  simp only [labelGo, Char.reduceEq, decide_false, decide_true, Bool.false_and, Bool.true_and,
    Bool.not_false, Bool.false_eq_true, if_false, if_true, hsl, hb]
  cases Footnotes.lookup fn (Footnotes.normalizeLabel lbl) with
  | none => rfl
  | some r => rfl

/-- **full form** `[text][lbl]` / `![text][lbl]`: the lookup is done with `lbl`; `text` is only the link text.
    (When `lbl` is not defined the match fails even if `text` is.) -/
theorem matchLinkImage_full (img : Bool) (s pre text lbl post : Str) (fn : Footnotes.Table)
    (hs : s = pre ++ opener img ++ text ++ ']' :: '[' :: (lbl ++ ']' :: post))
    (hl : plainStr lbl = true) (hb : isBlank lbl = false) :
    matchLinkImage s (pre.length + (opener img).length + text.length) (brDelim img pre.length) fn =
      (Footnotes.lookup fn (Footnotes.normalizeLabel lbl)).map (fun r =>
        refMatch img pre.length text.length (pre.length + (opener img).length + text.length + 1 + (1 + lbl.length + 1))
          r.1 r.2 "full" (some lbl)) := by
  have hq : pre.length + (opener img).length + text.length = (pre ++ opener img ++ text).length := by
    simp only [List.length_append]
  have hq1 : pre.length + (opener img).length + text.length + 1 = (pre ++ opener img ++ text ++ [']']).length := by
    simp only [List.length_append, List.length_singleton]
  have hs1 : s = (pre ++ opener img ++ text ++ [']']) ++ '[' :: (lbl ++ ']' :: post) := by rw [hs]; simp
  have f1 : follows s (pre.length + (opener img).length + text.length) '(' = false := by
    rw [hs, hq, follows_mid]; rfl
  have f2 : follows s (pre.length + (opener img).length + text.length) '[' = true := by
    rw [hs, hq, follows_mid]; rfl
  have f3 : follows s (pre.length + (opener img).length + text.length + 1) ']' = false := by
    rw [hq1, hs1, follows_mid]
    cases lbl with
    | nil => simp [isBlank] at hb
    | cons c r =>
      simp only [plainStr, List.all_cons, Bool.and_eq_true] at hl
      have := (plainCh_of c hl.1).2.2.2.2.2.2.1
      simpa using this
  have hml := matchLinkLabel_full s (pre ++ opener img ++ text ++ [']']) lbl post fn hs1 hl hb
  rw [← hq1] at hml
  unfold matchLinkImage
  simp only [f1, f2, f3, hml, Bool.false_eq_true, if_false, if_true]
  have e1 : (brDelim img pre.length).start = pre.length := rfl
  have e2 : (brDelim img pre.length).number = (opener img).length := rfl
  have e3 : (brDelim img pre.length).type = opener img := rfl
  simp only [e1, e2, e3, opener_beq]
  cases Footnotes.lookup fn (Footnotes.normalizeLabel lbl) with
  | none =>
    simp only [Option.map_none]
    cases getLinkLabel (slice s (pre.length + (opener img).length) (pre.length + (opener img).length + text.length)) fn with
    | none => rfl
    | some r => rfl
  | some r =>
    obtain ⟨d, t⟩ := r
    simp only [Option.map_some, refMatch]
    congr 2
    omega

/-- a bracket pair around blank (e.g. empty) text, not followed by `(` or `[`, is no reference -/
theorem matchLinkImage_blank (img : Bool) (s pre text post : Str) (fn : Footnotes.Table)
    (hs : s = pre ++ opener img ++ text ++ ']' :: post) (hb : isBlank text = true)
    (h1 : post.head? ≠ some '(') (h2 : post.head? ≠ some '[') :
    matchLinkImage s (pre.length + (opener img).length + text.length) (brDelim img pre.length) fn = none := by
  have hq : pre.length + (opener img).length + text.length = (pre ++ opener img ++ text).length := by
    simp only [List.length_append]
  have f1 : follows s (pre.length + (opener img).length + text.length) '(' = false := by
    rw [hs, hq, follows_mid]; simpa using h1
  have f2 : follows s (pre.length + (opener img).length + text.length) '[' = false := by
    rw [hs, hq, follows_mid]; simpa using h2
  have hsl : slice s (pre.length + (opener img).length) (pre.length + (opener img).length + text.length) = text := by
    rw [hs]; exact slice_text pre (opener img) text (']' :: post)
  unfold matchLinkImage
  simp only [f1, f2, Bool.false_eq_true, if_false]
  have e1 : (brDelim img pre.length).start = pre.length := rfl
  have e2 : (brDelim img pre.length).number = (opener img).length := rfl
  simp only [e1, e2, hsl, getLinkLabel_blank text fn hb]

/-! ## the other span classes find nothing -/

/-- a character on which no regex scanner of the covered classes can start or that `html.unescape` changes -/
def quietCh (c : Char) : Bool := c != '\\' && c != '`' && c != '<' && c != '&' && c != '~' && c != '\n'

def quietStr (s : Str) : Bool := s.all quietCh

theorem quietCh_of (c : Char) (h : quietCh c = true) : c ≠ '\\' ∧ c ≠ '`' ∧ c ≠ '<' ∧ c ≠ '&' ∧ c ≠ '~' ∧ c ≠ '\n' := by
  simp only [quietCh, Bool.and_eq_true, bne_iff_ne, ne_eq] at h
  obtain ⟨⟨⟨⟨⟨h1, h2⟩, h3⟩, h4⟩, h5⟩, h6⟩ := h
  exact ⟨h1, h2, h3, h4, h5, h6⟩

theorem plainCh_quiet (c : Char) (h : plainCh c = true) : quietCh c = true := by
  obtain ⟨c1, c2, c3, c4, c5, _, _, _, _, _, c11⟩ := plainCh_of c h
  simp [quietCh, c1, c2, c3, c4, c5, c11]

theorem plainStr_quiet (s : Str) (h : plainStr s = true) : quietStr s = true := by
  simp only [plainStr, quietStr, List.all_eq_true] at h ⊢
  exact fun c hc => plainCh_quiet c (h c hc)

theorem quietStr_append (a b : Str) : quietStr (a ++ b) = (quietStr a && quietStr b) := by
  simp [quietStr]

theorem opener_quiet (img : Bool) : quietStr (opener img) = true := by cases img <;> decide

theorem quiet_parts : ∀ (s : Str), quietStr s = true →
    ltOk s = true ∧ tildeOk s = true ∧ ampOk s = true
  | [], _ => ⟨rfl, rfl, rfl⟩
  | c :: rest, h => by
    simp only [quietStr, List.all_cons, Bool.and_eq_true] at h
    obtain ⟨_, _, c3, c4, c5, _⟩ := quietCh_of c h.1
    obtain ⟨i1, i2, i3⟩ := quiet_parts rest h.2
    refine ⟨?_, ?_, ?_⟩
    · simp [ltOk, c3, i1]
    · simp [tildeOk, c5, i2]
    · simp [ampOk, c4, i3]

theorem quiet_scanOk (s : Str) (h : quietStr s = true) : ScanOk s := by
  obtain ⟨h1, h2, _⟩ := quiet_parts s h
  refine ⟨?_, h1, h2⟩
  intro c hc
  simp only [quietStr, List.all_eq_true] at h
  obtain ⟨c1, c2, _⟩ := quietCh_of c (h c hc)
  exact ⟨c1, c2⟩

theorem quiet_no_nl (s : Str) (h : quietStr s = true) : '\n' ∉ s := by
  intro hm
  simp only [quietStr, List.all_eq_true] at h
  exact (quietCh_of _ (h _ hm)).2.2.2.2.2 rfl

theorem quiet_no_bt (s : Str) (h : quietStr s = true) : '`' ∉ s := by
  intro hm
  simp only [quietStr, List.all_eq_true] at h
  exact (quietCh_of _ (h _ hm)).2.1 rfl

theorem quiet_unescape (s : Str) (h : quietStr s = true) : Unescape.unescape true s = s :=
  unescape_inert s (quiet_parts s h).2.2

/-- classes other than `CoreTokens` do not look at the core matches -/
theorem findOne_other (s : Str) (core : List CoreM) (t : STok) (ht : t ≠ .coreTokens) :
    findOne s core [] t = findOne s [] [] t := by
  cases t <;> first | rfl | exact absurd rfl ht

def foundOf (m : CoreM) : Found :=
  { cls := .coreTokens, start := m.start, stop := m.stop, pstart := m.ts, pend := m.te, payload := .core m }

/-- with one core match in a quiet text, the candidates are that match once per occurrence of `CoreTokens` in the list -/
theorem flatMap_findOne (s : Str) (hq : quietStr s = true) (m : CoreM) : ∀ (types : List STok),
    (∀ t ∈ types, inertClass t = true) →
    types.flatMap (findOne s [m] []) = List.replicate (types.count .coreTokens) (foundOf m)
  | [], _ => rfl
  | t :: rest, h => by
    have ih := flatMap_findOne s hq m rest (fun x hx => h x (List.mem_cons_of_mem _ hx))
    rw [List.flatMap_cons, ih]
    by_cases hc : t = .coreTokens
    · subst hc
      simp [findOne, foundOf, List.replicate_succ]
    · have hne : (t == STok.coreTokens) = false := by simpa using hc
      rw [List.count_cons, hne]
      rw [findOne_other s [m] t hc]
      by_cases hlb : t = .lineBreak
      · subst hlb; rw [findOne_lineBreak s (quiet_no_nl s hq)]; simp
      · rw [findOne_inertBody s (quiet_scanOk s hq) t (h t (by simp)) hlb]; simp

theorem findAll_one (s : Str) (types : List STok) (fn : Footnotes.Table) (hq : quietStr s = true)
    (ht : ∀ t ∈ types, inertClass t = true) (hc : types.count .coreTokens = 1) (m : CoreM)
    (h : findCoreTokens s fn = .ok ([m], [])) : findAll s types fn = .ok [foundOf m] := by
  unfold findAll
  have : types.contains .coreTokens = true := by
    rw [List.contains_iff_mem]
    exact List.count_pos_iff.1 (by omega)
  simp only [this, if_true, h]
  rw [flatMap_findOne s hq m types ht, hc]
  rfl

theorem findAll_zero (s : Str) (types : List STok) (fn : Footnotes.Table) (hq : quietStr s = true)
    (ht : ∀ t ∈ types, inertClass t = true)
    (h : findCoreTokens s fn = .ok ([], [])) : findAll s types fn = .ok [] := by
  unfold findAll
  have e : (if types.contains .coreTokens = true then findCoreTokens s fn else .ok ([], [])) = .ok ([], []) := by
    split
    · exact h
    · rfl
  rw [e]
  simp only
  congr 1
  rw [List.flatMap_eq_nil_iff]
  intro t htm
  by_cases hlb : t = .lineBreak
  · subst hlb; exact findOne_lineBreak s (quiet_no_nl s hq)
  · exact findOne_inertBody s (quiet_scanOk s hq) t (ht t htm) hlb

/-! ## `tokenize_inner` with exactly one core candidate -/

/-- `RawText(t)` unless `t` is empty (`make_tokens` adds no empty token) -/
def rawOf (t : Str) : List Inline := if t = [] then [] else [.rawText t]

theorem tokenize_one (c : Span.Cand) (n : Nat) (hi : c.inner = true) :
    Span.tokenize [c] n =
      (if c.start > 0 then [.raw 0 c.start] else []) ++
        [.tok c (if c.pstart ≠ c.pend then [.raw c.pstart c.pend] else [])] ++
        (if c.stop ≠ n then [.raw c.stop n] else []) := by
  by_cases h : c.stop = n <;>
  simp [Span.tokenize, Span.resolve, Span.sortByStart, Span.insertByStart, Span.resolveSorted, Span.makeTokensRev,
    Span.makeBefore, Span.make, Span.PTok.c, hi, h]

/-- the token `ParseToken.make` builds from a link / image match -/
def refToken (img : Bool) (dest title : Str) (destType : String) (label : Option Str) (kids : List Inline) : Inline :=
  if img then .image (Unescape.escStrip true (strip dest)) (Unescape.escStrip true title) (DestTypeOf destType.toList) label none kids
  else .link (Unescape.escStrip true (strip dest)) (Unescape.escStrip true title) (DestTypeOf destType.toList) label none kids

theorem builds_raw (S : Str) (F : List Found) (a b : Nat) :
    builds S F [.raw a b] = [.rawText (Unescape.unescape true (slice S a b))] := by
  simp [builds, build]

theorem slice_prefix {α} (a b : List α) : slice (a ++ b) 0 a.length = a := by
  simp [slice]

theorem slice_suffix {α} (a b : List α) : slice (a ++ b) a.length (a ++ b).length = b := by
  simp [slice]

/-- one reference match covering `[p, stop)` with text `[p + |opener|, p + |opener| + n)` in a quiet text -/
theorem tokenizeInner_ref (types : List STok) (fn : Footnotes.Table) (img : Bool) (pre text mid post : Str)
    (dest title : Str) (destType : String) (label : Option Str)
    (hq : quietStr (pre ++ opener img ++ text ++ mid ++ post) = true) (hne : text ≠ [])
    (hf : findAll (pre ++ opener img ++ text ++ mid ++ post) types fn =
      .ok [foundOf (refMatch img pre.length text.length (pre.length + (opener img).length + text.length + mid.length)
        dest title destType label)]) :
    tokenizeInner types fn (pre ++ opener img ++ text ++ mid ++ post) =
      .ok (rawOf pre ++ [refToken img dest title destType label [.rawText text]] ++ rawOf post) := by
  unfold tokenizeInner
  rw [hf]
  simp only [List.zipIdx_cons, List.zipIdx_nil, List.map_cons, List.map_nil, foundOf, refMatch, parseInner]
  rw [tokenize_one _ _ rfl]
  simp only [builds_append]
  have htl : 0 < text.length := List.length_pos_iff.2 hne
  simp only [quietStr_append, Bool.and_eq_true] at hq
  obtain ⟨⟨⟨⟨q1, _⟩, q3⟩, _⟩, q5⟩ := hq
  congr 1
  congr 1
  · congr 1
    · -- the text before
      by_cases hp : pre = []
      · subst hp; simp [rawOf, builds]
      · have : pre.length > 0 := List.length_pos_iff.2 hp
        rw [if_pos this, builds_raw]
        have e : pre ++ opener img ++ text ++ mid ++ post = pre ++ (opener img ++ text ++ mid ++ post) := by simp
        rw [e, slice_prefix, quiet_unescape pre q1]
        simp [rawOf, hp]
    · -- the token
      have hk : (List.length pre + List.length (opener img) ≠ List.length pre + List.length (opener img) + List.length text) := by
        omega
      rw [if_pos hk]
      simp only [builds, build, List.getElem?_cons_zero]
      have e : pre ++ opener img ++ text ++ mid ++ post = pre ++ opener img ++ text ++ (mid ++ post) := by simp
      rw [e, slice_text, quiet_unescape text q3]
      cases img <;> simp [refToken]
  · -- the text after
    by_cases hp : post = []
    · subst hp
      have : ¬ (List.length pre + List.length (opener img) + List.length text + List.length mid ≠
          List.length (pre ++ opener img ++ text ++ mid ++ [])) := by
        simp only [List.length_append, List.length_nil]; omega
      rw [if_neg this]; simp [rawOf, builds]
    · have : List.length pre + List.length (opener img) + List.length text + List.length mid ≠
          List.length (pre ++ opener img ++ text ++ mid ++ post) := by
        have := List.length_pos_iff.2 hp
        simp only [List.length_append]; omega
      rw [if_pos this, builds_raw]
      have e : List.length pre + List.length (opener img) + List.length text + List.length mid =
          (pre ++ opener img ++ text ++ mid).length := by simp only [List.length_append]
      rw [e, slice_suffix, quiet_unescape post q5]
      simp [rawOf, hp]

/-! ## the two outcomes, for any of the forms -/

theorem quiet_ref (img : Bool) (pre text rest : Str) (hpre : plainStr pre = true) (htext : plainStr text = true)
    (hrest : quietStr rest = true) : quietStr (pre ++ opener img ++ text ++ ']' :: rest) = true := by
  have : quietStr (']' :: rest) = true := by
    simp only [quietStr, List.all_cons, Bool.and_eq_true] at hrest ⊢
    exact ⟨by decide, hrest⟩
  simp only [quietStr_append, Bool.and_eq_true]
  exact ⟨⟨⟨plainStr_quiet pre hpre, opener_quiet img⟩, plainStr_quiet text htext⟩, this⟩

/-- a successful match at the first `]`: exactly one core match, and `tokenize_inner` returns the text before, the
    link / image token with the reference text as its only child, and the text after -/
theorem ref_tokens (img : Bool) (types : List STok) (fn : Footnotes.Table) (pre text skip post : Str)
    (dest title : Str) (destType : String) (label : Option Str)
    (hpre : plainStr pre = true) (htext : plainStr text = true) (hne : text ≠ []) (hskip : quietStr skip = true)
    (hpost : plainStr post = true)
    (ht : ∀ t ∈ types, inertClass t = true) (hc : types.count .coreTokens = 1)
    (hm : matchLinkImage (pre ++ opener img ++ text ++ ']' :: (skip ++ post))
        (pre.length + (opener img).length + text.length) (brDelim img pre.length) fn =
      some (refMatch img pre.length text.length (pre.length + (opener img).length + text.length + 1 + skip.length)
        dest title destType label)) :
    findCoreTokens (pre ++ opener img ++ text ++ ']' :: (skip ++ post)) fn =
        .ok ([refMatch img pre.length text.length (pre.length + (opener img).length + text.length + 1 + skip.length)
          dest title destType label], []) ∧
      tokenizeInner types fn (pre ++ opener img ++ text ++ ']' :: (skip ++ post)) =
        .ok (rawOf pre ++ [refToken img dest title destType label [.rawText text]] ++ rawOf post) := by
  have hq : quietStr (pre ++ opener img ++ text ++ ']' :: (skip ++ post)) = true :=
    quiet_ref img pre text _ hpre htext (by rw [quietStr_append, hskip, plainStr_quiet post hpost]; rfl)
  have hfc := findCoreTokens_bracket img _ pre text skip post fn rfl (quiet_no_bt _ hq) hpre htext hpost _ hm rfl
  refine ⟨hfc, ?_⟩
  have hfa := findAll_one _ types fn hq ht hc _ hfc
  have e : pre ++ opener img ++ text ++ ']' :: (skip ++ post) = pre ++ opener img ++ text ++ (']' :: skip) ++ post := by
    simp
  rw [e] at hq hfa ⊢
  have e2 : pre.length + (opener img).length + text.length + 1 + skip.length =
      pre.length + (opener img).length + text.length + (']' :: skip).length := by
    simp only [List.length_cons]; omega
  rw [e2] at hfa
  exact tokenizeInner_ref types fn img pre text (']' :: skip) post dest title destType label hq hne hfa

/-- no core match in a quiet text: the whole text is one `RawText` -/
theorem literal_tokens (types : List STok) (fn : Footnotes.Table) (s : Str) (hq : quietStr s = true) (hne : s ≠ [])
    (ht : ∀ t ∈ types, inertClass t = true) (h : findCoreTokens s fn = .ok ([], [])) :
    tokenizeInner types fn s = .ok [.rawText s] := by
  rw [tokenizeInner_no_candidates types fn s (findAll_zero s types fn hq ht h) hne, quiet_unescape s hq]

theorem nonblank_ne (t : Str) (h : isBlank t = false) : t ≠ [] := by
  intro e; subst e; simp [isBlank] at h

theorem plain_head_ne (post : Str) (h : plainStr post = true) : post.head? ≠ some '[' := by
  cases post with
  | nil => simp
  | cons c r =>
    simp only [plainStr, List.all_cons, Bool.and_eq_true] at h
    have := (plainCh_of c h.1).2.2.2.2.2.1
    simpa using this

/-! ## The reference forms

  Setting: `pre`, `lbl`, `post` consist of characters with no inline meaning (`plainCh`: anything but
  `` \ ` < & ~ [ ] * _ ! `` and newline - letters, digits, spaces, most punctuation, non-ASCII text);
  `lbl` is not blank; `post` does not begin with `(` (it cannot begin with `[`).  `img = true` is the image form
  `![…]`.  The token lists are those of the covered classes (`inertClass`) with `CoreTokens` exactly once. -/

structure RefText (pre lbl post : Str) : Prop where
  hpre : plainStr pre = true
  hlbl : plainStr lbl = true
  nonblank : isBlank lbl = false
  hpost : plainStr post = true
  noParen : post.head? ≠ some '('

/-- **shortcut reference, resolved** (`[lbl]`, `![lbl]`) -/
theorem ref_shortcut_resolves (img : Bool) (types : List STok) (fn : Footnotes.Table) (pre lbl post dest title : Str)
    (h : RefText pre lbl post) (ht : ∀ t ∈ types, inertClass t = true) (hc : types.count .coreTokens = 1)
    (hl : Footnotes.lookup fn (Footnotes.normalizeLabel lbl) = some (dest, title)) :
    findCoreTokens (pre ++ opener img ++ lbl ++ ']' :: post) fn =
        .ok ([refMatch img pre.length lbl.length (pre.length + (opener img).length + lbl.length + 1)
          dest title "shortcut" none], []) ∧
      tokenizeInner types fn (pre ++ opener img ++ lbl ++ ']' :: post) =
        .ok (rawOf pre ++ [refToken img dest title "shortcut" none [.rawText lbl]] ++ rawOf post) := by
  have hm := matchLinkImage_shortcut img _ pre lbl post fn rfl h.hlbl h.nonblank h.noParen (plain_head_ne post h.hpost)
  rw [hl] at hm
  have := ref_tokens img types fn pre lbl [] post dest title "shortcut" none h.hpre h.hlbl (nonblank_ne lbl h.nonblank) rfl
    h.hpost ht hc (by simpa using hm)
  simpa using this

/-- **shortcut reference, unresolved**: no match at all, the text stays literal -/
theorem ref_shortcut_unresolved (img : Bool) (types : List STok) (fn : Footnotes.Table) (pre lbl post : Str)
    (h : RefText pre lbl post) (ht : ∀ t ∈ types, inertClass t = true)
    (hl : Footnotes.lookup fn (Footnotes.normalizeLabel lbl) = none) :
    findCoreTokens (pre ++ opener img ++ lbl ++ ']' :: post) fn = .ok ([], []) ∧
      tokenizeInner types fn (pre ++ opener img ++ lbl ++ ']' :: post) =
        .ok [.rawText (pre ++ opener img ++ lbl ++ ']' :: post)] := by
  have hm := matchLinkImage_shortcut img _ pre lbl post fn rfl h.hlbl h.nonblank h.noParen (plain_head_ne post h.hpost)
  rw [hl] at hm
  have hq := quiet_ref img pre lbl post h.hpre h.hlbl (plainStr_quiet post h.hpost)
  have hfc := findCoreTokens_bracket_none img _ pre lbl post fn rfl (quiet_no_bt _ hq) h.hpre h.hlbl h.hpost hm
  exact ⟨hfc, literal_tokens types fn _ hq (by simp) ht hfc⟩

/-- **collapsed reference, resolved** (`[lbl][]`, `![lbl][]`); `post` may begin with `(` here -/
theorem ref_collapsed_resolves (img : Bool) (types : List STok) (fn : Footnotes.Table) (pre lbl post dest title : Str)
    (hpre : plainStr pre = true) (hlbl : plainStr lbl = true) (hb : isBlank lbl = false) (hpost : plainStr post = true)
    (ht : ∀ t ∈ types, inertClass t = true) (hc : types.count .coreTokens = 1)
    (hl : Footnotes.lookup fn (Footnotes.normalizeLabel lbl) = some (dest, title)) :
    findCoreTokens (pre ++ opener img ++ lbl ++ ']' :: '[' :: ']' :: post) fn =
        .ok ([refMatch img pre.length lbl.length (pre.length + (opener img).length + lbl.length + 3)
          dest title "collapsed" none], []) ∧
      tokenizeInner types fn (pre ++ opener img ++ lbl ++ ']' :: '[' :: ']' :: post) =
        .ok (rawOf pre ++ [refToken img dest title "collapsed" none [.rawText lbl]] ++ rawOf post) := by
  have hm := matchLinkImage_collapsed img _ pre lbl post fn rfl hlbl hb
  rw [hl] at hm
  have := ref_tokens img types fn pre lbl ['[', ']'] post dest title "collapsed" none hpre hlbl (nonblank_ne lbl hb)
    (by decide) hpost ht hc (by simpa using hm)
  simpa using this

/-- **collapsed reference, unresolved**: literal text -/
theorem ref_collapsed_unresolved (img : Bool) (types : List STok) (fn : Footnotes.Table) (pre lbl post : Str)
    (h : RefText pre lbl post) (ht : ∀ t ∈ types, inertClass t = true)
    (hl : Footnotes.lookup fn (Footnotes.normalizeLabel lbl) = none) :
    findCoreTokens (pre ++ opener img ++ lbl ++ ']' :: '[' :: ']' :: post) fn = .ok ([], []) ∧
      tokenizeInner types fn (pre ++ opener img ++ lbl ++ ']' :: '[' :: ']' :: post) =
        .ok [.rawText (pre ++ opener img ++ lbl ++ ']' :: '[' :: ']' :: post)] := by
  have hm := matchLinkImage_collapsed img _ pre lbl post fn rfl h.hlbl h.nonblank
  rw [hl] at hm
  have hm2 := matchLinkImage_blank false (pre ++ opener img ++ lbl ++ ']' :: '[' :: ']' :: post)
    (pre ++ opener img ++ lbl ++ [']']) [] post fn (by simp [opener]) rfl h.noParen (plain_head_ne post h.hpost)
  have hq := quiet_ref img pre lbl ('[' :: ']' :: post) h.hpre h.hlbl (by
    have := plainStr_quiet post h.hpost
    simp only [quietStr, List.all_cons, Bool.and_eq_true] at this ⊢
    exact ⟨by decide, by decide, this⟩)
  have hfc := findCoreTokens_two_none img _ pre lbl [] post fn (by simp) (quiet_no_bt _ hq) h.hpre h.hlbl rfl h.hpost hm
    (by simpa [opener, Nat.add_assoc] using hm2)
  exact ⟨hfc, literal_tokens types fn _ hq (by simp) ht hfc⟩

/-- **full reference, resolved** (`[text][lbl]`, `![text][lbl]`): the lookup is done with `lbl`; the token's child is
    `text`, its `label` attribute is `lbl` as written.  `text` is any non-empty plain text; `post` may begin with `(`. -/
theorem ref_full_resolves (img : Bool) (types : List STok) (fn : Footnotes.Table) (pre text lbl post dest title : Str)
    (hpre : plainStr pre = true) (htext : plainStr text = true) (hne : text ≠ [])
    (hlbl : plainStr lbl = true) (hb : isBlank lbl = false) (hpost : plainStr post = true)
    (ht : ∀ t ∈ types, inertClass t = true) (hc : types.count .coreTokens = 1)
    (hl : Footnotes.lookup fn (Footnotes.normalizeLabel lbl) = some (dest, title)) :
    findCoreTokens (pre ++ opener img ++ text ++ ']' :: '[' :: (lbl ++ ']' :: post)) fn =
        .ok ([refMatch img pre.length text.length (pre.length + (opener img).length + text.length + 1 + (1 + lbl.length + 1))
          dest title "full" (some lbl)], []) ∧
      tokenizeInner types fn (pre ++ opener img ++ text ++ ']' :: '[' :: (lbl ++ ']' :: post)) =
        .ok (rawOf pre ++ [refToken img dest title "full" (some lbl) [.rawText text]] ++ rawOf post) := by
  have hm := matchLinkImage_full img _ pre text lbl post fn rfl hlbl hb
  rw [hl] at hm
  have hsk : quietStr ('[' :: (lbl ++ [']'])) = true := by
    have := plainStr_quiet lbl hlbl
    simp only [quietStr, List.all_cons, List.all_append, Bool.and_eq_true, List.all_nil] at this ⊢
    exact ⟨by decide, this, by decide, trivial⟩
  have e : pre ++ opener img ++ text ++ ']' :: '[' :: (lbl ++ ']' :: post) =
      pre ++ opener img ++ text ++ ']' :: (('[' :: (lbl ++ [']'])) ++ post) := by simp
  have e2 : 1 + lbl.length + 1 = ('[' :: (lbl ++ [']'])).length := by simp <;> omega
  rw [e, e2] at hm ⊢
  exact ref_tokens img types fn pre text ('[' :: (lbl ++ [']'])) post dest title "full" (some lbl) hpre htext hne hsk
    hpost ht hc hm

/-- **full reference, unresolved**: when `lbl` has no definition the text stays literal — even if `text` itself
    is a defined label (as in CommonMark: `[text][lbl]` is then not a shortcut reference `[text]`) -/
theorem ref_full_unresolved (img : Bool) (types : List STok) (fn : Footnotes.Table) (pre text lbl post : Str)
    (htext : plainStr text = true) (h : RefText pre lbl post) (ht : ∀ t ∈ types, inertClass t = true)
    (hl : Footnotes.lookup fn (Footnotes.normalizeLabel lbl) = none) :
    findCoreTokens (pre ++ opener img ++ text ++ ']' :: '[' :: (lbl ++ ']' :: post)) fn = .ok ([], []) ∧
      tokenizeInner types fn (pre ++ opener img ++ text ++ ']' :: '[' :: (lbl ++ ']' :: post)) =
        .ok [.rawText (pre ++ opener img ++ text ++ ']' :: '[' :: (lbl ++ ']' :: post))] := by
  have hm := matchLinkImage_full img _ pre text lbl post fn rfl h.hlbl h.nonblank
  rw [hl] at hm
  have hm2 := matchLinkImage_shortcut false (pre ++ opener img ++ text ++ ']' :: '[' :: (lbl ++ ']' :: post))
    (pre ++ opener img ++ text ++ [']']) lbl post fn (by simp [opener]) h.hlbl h.nonblank h.noParen
    (plain_head_ne post h.hpost)
  rw [hl] at hm2
  have hq := quiet_ref img pre text ('[' :: (lbl ++ ']' :: post)) h.hpre htext (by
    have h1 := plainStr_quiet post h.hpost
    have h2 := plainStr_quiet lbl h.hlbl
    simp only [quietStr, List.all_cons, List.all_append, Bool.and_eq_true] at h1 h2 ⊢
    exact ⟨by decide, h2, by decide, h1⟩)
  have hfc := findCoreTokens_two_none img _ pre text lbl post fn rfl (quiet_no_bt _ hq) h.hpre htext h.hlbl h.hpost hm
    (by simpa [opener, Nat.add_assoc] using hm2)
  exact ⟨hfc, literal_tokens types fn _ hq (by simp) ht hfc⟩

/-! ## The link form, spelled out -/

theorem destType_names : DestTypeOf ['s', 'h', 'o', 'r', 't', 'c', 'u', 't'] = .shortcut ∧
    DestTypeOf ['c', 'o', 'l', 'l', 'a', 'p', 's', 'e', 'd'] = .collapsed ∧ DestTypeOf ['f', 'u', 'l', 'l'] = .full := by
  decide

/-- **`[lbl]` resolves.**  If the table has an entry for `normalize_label(lbl)`, `find_core_tokens` returns exactly
    one match — a link from the `[` to the `]` whose text span is `lbl`, with the looked-up destination and title,
    `dest_type = "shortcut"`, no `label` — and `tokenize_inner` returns the text before (if any), the `Link` token
    (`target`/`title` as `Link.__init__` post-processes them) with `RawText(lbl)` as only child, the text after (if any). -/
theorem shortcut_resolves (types : List STok) (fn : Footnotes.Table) (pre lbl post dest title : Str)
    (h : RefText pre lbl post) (ht : ∀ t ∈ types, inertClass t = true) (hc : types.count .coreTokens = 1)
    (hl : Footnotes.lookup fn (Footnotes.normalizeLabel lbl) = some (dest, title)) :
    findCoreTokens (pre ++ ['['] ++ lbl ++ [']'] ++ post) fn =
        .ok ([{ start := pre.length, stop := pre.length + 1 + lbl.length + 1, kind := .link, ts := pre.length + 1,
                te := pre.length + 1 + lbl.length, dest := dest, title := title, destType := "shortcut".toList,
                label := none }], []) ∧
      tokenizeInner types fn (pre ++ ['['] ++ lbl ++ [']'] ++ post) =
        .ok (rawOf pre ++ [.link (Unescape.escStrip true (strip dest)) (Unescape.escStrip true title) .shortcut none none
          [.rawText lbl]] ++ rawOf post) := by
  have := ref_shortcut_resolves false types fn pre lbl post dest title h ht hc hl
  simpa [opener, refMatch, refToken, destType_names.1] using this

/-- **`[lbl]` without a matching definition stays literal text**: no core match, one `RawText` with the whole text -/
theorem shortcut_unresolved (types : List STok) (fn : Footnotes.Table) (pre lbl post : Str)
    (h : RefText pre lbl post) (ht : ∀ t ∈ types, inertClass t = true)
    (hl : Footnotes.lookup fn (Footnotes.normalizeLabel lbl) = none) :
    findCoreTokens (pre ++ ['['] ++ lbl ++ [']'] ++ post) fn = .ok ([], []) ∧
      tokenizeInner types fn (pre ++ ['['] ++ lbl ++ [']'] ++ post) = .ok [.rawText (pre ++ ['['] ++ lbl ++ [']'] ++ post)] := by
  have := ref_shortcut_unresolved false types fn pre lbl post h ht hl
  simpa [opener] using this

/-- **`![lbl]` resolves** to an `Image` token (same lookup) -/
theorem image_shortcut_resolves (types : List STok) (fn : Footnotes.Table) (pre lbl post dest title : Str)
    (h : RefText pre lbl post) (ht : ∀ t ∈ types, inertClass t = true) (hc : types.count .coreTokens = 1)
    (hl : Footnotes.lookup fn (Footnotes.normalizeLabel lbl) = some (dest, title)) :
    tokenizeInner types fn (pre ++ ['!', '['] ++ lbl ++ [']'] ++ post) =
        .ok (rawOf pre ++ [.image (Unescape.escStrip true (strip dest)) (Unescape.escStrip true title) .shortcut none none
          [.rawText lbl]] ++ rawOf post) := by
  have := (ref_shortcut_resolves true types fn pre lbl post dest title h ht hc hl).2
  simpa [opener, refToken, destType_names.1] using this

/-- **`[lbl][]` resolves** (collapsed form) -/
theorem collapsed_resolves (types : List STok) (fn : Footnotes.Table) (pre lbl post dest title : Str)
    (h : RefText pre lbl post) (ht : ∀ t ∈ types, inertClass t = true) (hc : types.count .coreTokens = 1)
    (hl : Footnotes.lookup fn (Footnotes.normalizeLabel lbl) = some (dest, title)) :
    tokenizeInner types fn (pre ++ ['['] ++ lbl ++ [']', '[', ']'] ++ post) =
        .ok (rawOf pre ++ [.link (Unescape.escStrip true (strip dest)) (Unescape.escStrip true title) .collapsed none none
          [.rawText lbl]] ++ rawOf post) := by
  have := (ref_collapsed_resolves false types fn pre lbl post dest title h.hpre h.hlbl h.nonblank h.hpost ht hc hl).2
  simpa [opener, refToken, destType_names.2.1] using this

/-- **`[text][lbl]` resolves** (full form): the lookup uses `lbl`, the link text is `text`, the token keeps `lbl` -/
theorem full_resolves (types : List STok) (fn : Footnotes.Table) (pre text lbl post dest title : Str)
    (htext : plainStr text = true) (hne : text ≠ [])
    (h : RefText pre lbl post) (ht : ∀ t ∈ types, inertClass t = true) (hc : types.count .coreTokens = 1)
    (hl : Footnotes.lookup fn (Footnotes.normalizeLabel lbl) = some (dest, title)) :
    tokenizeInner types fn (pre ++ ['['] ++ text ++ [']', '['] ++ lbl ++ [']'] ++ post) =
        .ok (rawOf pre ++ [.link (Unescape.escStrip true (strip dest)) (Unescape.escStrip true title) .full (some lbl) none
          [.rawText text]] ++ rawOf post) := by
  have := (ref_full_resolves false types fn pre text lbl post dest title h.hpre htext hne h.hlbl h.nonblank h.hpost ht hc hl).2
  simpa [opener, refToken, destType_names.2.2] using this

/-! ## Document level -/

open Mistletoe.Document Mistletoe.Html Mistletoe.Escape

/-- characters of the destination: ASCII letters, digits, `/`, `.` (nothing any escaper touches) -/
def urlCh (c : Char) : Bool := decide (c.toNat < 128) && (isAlnum c || c == '/' || c == '.')

/-- characters of the paragraph text: `plainCh` minus the remaining HTML specials `> " '` -/
def textCh (c : Char) : Bool := plainCh c && c != '>' && c != '"' && c != '\''

theorem urlCh_facts (c : Char) (h : urlCh c = true) :
    pyIsSpace c = false ∧ c ≠ '\\' ∧ c ≠ '&' ∧ htmlEscapeUrl [c] = [c] := by
  have key : ∀ n : Fin 128, urlCh (Char.ofNat n) = true →
      pyIsSpace (Char.ofNat n) = false ∧ Char.ofNat n ≠ '\\' ∧ Char.ofNat n ≠ '&' ∧
        Gen.Chains.htmlEscapeUrl.getD n [Char.ofNat n] = [Char.ofNat n] := by decide +kernel
  have hlt : c.toNat < 128 := by
    simp only [urlCh, Bool.and_eq_true, decide_eq_true_eq] at h; exact h.1
  have k := key ⟨c.toNat, hlt⟩
  simp only [Char.ofNat_toNat] at k
  obtain ⟨k1, k2, k3, k4⟩ := k h
  refine ⟨k1, k2, k3, ?_⟩
  simp only [List.getD_eq_getElem?_getD] at k4
  simp [htmlEscapeUrl, mapChars, hlt, k4]

theorem htmlEscapeUrl_safe : ∀ (s : Str), (∀ c ∈ s, urlCh c = true) → htmlEscapeUrl s = s
  | [], _ => by simp [htmlEscapeUrl, mapChars]
  | c :: s, h => by
    have e : htmlEscapeUrl (c :: s) = htmlEscapeUrl [c] ++ htmlEscapeUrl s := by simp [htmlEscapeUrl, mapChars]
    rw [e, (urlCh_facts c (h c (by simp))).2.2.2, htmlEscapeUrl_safe s (fun x hx => h x (List.mem_cons_of_mem _ hx))]
    rfl

theorem stripBackslashes_id : ∀ (s : Str), '\\' ∉ s → Unescape.stripBackslashes s = s
  | [], _ => rfl
  | c :: rest, h => by
    have hc : c ≠ '\\' := fun e => h (by simp [e])
    have ih := stripBackslashes_id rest (fun hm => h (List.mem_cons_of_mem _ hm))
    unfold Unescape.stripBackslashes
    split
    · rename_i heq; simp only [List.cons.injEq] at heq; exact absurd heq.1 hc
    · rename_i heq; simp only [List.cons.injEq] at heq; obtain ⟨rfl, rfl⟩ := heq; rw [ih]
    · rename_i heq; cases heq

theorem unescapeAux_noamp (md : Bool) : ∀ (fuel : Nat) (s : Str), '&' ∉ s → Unescape.unescapeAux md fuel s = s
  | 0, _, _ => rfl
  | _ + 1, [], _ => rfl
  | fuel + 1, c :: rest, h => by
    have hc : (c == '&') = false := by
      have : c ≠ '&' := fun e => h (by simp [e])
      simpa using this
    simp only [Unescape.unescapeAux, hc, Bool.false_eq_true, if_false]
    rw [unescapeAux_noamp md fuel rest (fun hm => h (List.mem_cons_of_mem _ hm))]

theorem escStrip_id (md : Bool) (s : Str) (h1 : '\\' ∉ s) (h2 : '&' ∉ s) : Unescape.escStrip md s = s := by
  unfold Unescape.escStrip Unescape.unescape
  rw [stripBackslashes_id s h1, unescapeAux_noamp md _ s h2]

theorem strip_id (s : Str) (h : ∀ c ∈ s, pyIsSpace c = false) : strip s = s := by
  cases s with
  | nil => rfl
  | cons c r =>
    unfold strip
    rw [lstrip_of_head c r (h c (by simp))]
    apply rstrip_of_last
    intro d hd
    exact h d (List.mem_of_getLast? hd)

/-- a URL-safe destination goes through `strip`, `EscapeSequence.strip` (either regex) and `escape_url` unchanged -/
theorem dest_id (dest : Str) (h : ∀ c ∈ dest, urlCh c = true) :
    strip dest = dest ∧ (∀ md, Unescape.escStrip md dest = dest) ∧ htmlEscapeUrl dest = dest := by
  refine ⟨strip_id dest (fun c hc => (urlCh_facts c (h c hc)).1), ?_, htmlEscapeUrl_safe dest h⟩
  intro md
  exact escStrip_id md dest (fun hm => (urlCh_facts _ (h _ hm)).2.1 rfl) (fun hm => (urlCh_facts _ (h _ hm)).2.2.1 rfl)

theorem textCh_plain (s : Str) (h : s.all textCh = true) : plainStr s = true := by
  simp only [plainStr, List.all_eq_true] at h ⊢
  intro c hc
  have := h c hc
  simp only [textCh, Bool.and_eq_true] at this
  exact this.1.1.1

theorem textCh_escape (dq sq : Bool) (s : Str) (h : s.all textCh = true) : escapeHtmlText dq sq s = s := by
  apply escape_plain
  intro c hc
  simp only [List.all_eq_true] at h
  have := h c hc
  simp only [textCh, Bool.and_eq_true, bne_iff_ne, ne_eq] at this
  obtain ⟨⟨⟨hp, h1⟩, h2⟩, h3⟩ := this
  obtain ⟨_, _, c3, c4, _⟩ := plainCh_of c hp
  exact ⟨c4, c3, h1, h2, h3⟩

theorem flat_rawOf (q : Quotes) (s : Str) (h : s.all textCh = true) : flat (renderInlines q (rawOf s)) = s := by
  unfold rawOf
  split
  · rename_i e; subst e; rfl
  · simp [renderInlines, renderInline, flat, flatEv, textCh_escape _ _ s h]

theorem renderInlines_append (q : Quotes) : ∀ (a b : List Inline),
    renderInlines q (a ++ b) = renderInlines q a ++ renderInlines q b
  | [], b => rfl
  | i :: a, b => by simp [renderInlines, renderInlines_append q a b]

/-- the HTML of a document consisting of one paragraph -/
theorem render_one_paragraph (o : Opts) (kids : List Inline) (ln : Nat) (fn : Footnotes.Table) :
    render o { kids := [.paragraph kids ln], footnotes := fn } =
      "<p>".toList ++ flat (renderInlines o.q kids) ++ "</p>\n".toList := by
  have hp : flat (renderBlock o.q false (.paragraph kids ln)) =
      "<p>".toList ++ flat (renderInlines o.q kids) ++ "</p>".toList := by
    simp only [renderBlock, Bool.false_eq_true, if_false, flat_append]
    simp [flat, flatEv, flatAttrs]
  have hne : (flat (renderBlock o.q false (.paragraph kids ln))).isEmpty = false := by
    rw [hp]; rfl
  have hd : renderDoc o.q { kids := [.paragraph kids ln], footnotes := fn } =
      renderBlock o.q false (.paragraph kids ln) ++ [nl] := by
    simp only [renderDoc, renderSep, hne, Bool.false_eq_true, if_false]
  rw [render, hd, flat_append, hp]
  simp [flat, flatEv, nl]

/-- the table built from one definition `[defLbl]: dest` (no title) with a URL-safe destination -/
theorem footnotesOf_one (m : Block.FnMatch) (hd : ∀ c ∈ m.dest, urlCh c = true) (ht : m.title = []) :
    Document.footnotesOf [m] = [(Footnotes.normalizeLabel m.label, m.dest, [])] := by
  obtain ⟨d1, d2, _⟩ := dest_id m.dest hd
  have e0 : Unescape.escStrip false [] = [] := by decide
  simp [Document.footnotesOf, Footnotes.footnotesOf, Footnotes.addDef, Footnotes.lookup, d1, d2 false, ht, e0]

theorem lookup_one (k dest lbl : Str) :
    Footnotes.lookup [(k, dest, [])] lbl = if k = lbl then some (dest, []) else none := by
  simp only [Footnotes.lookup, List.find?_cons, List.find?_nil]
  by_cases h : k = lbl
  · simp [h]
  · have : (k == lbl) = false := by simpa using h
    simp [this, h]

/-- the hypotheses on the paragraph text at document level: `RefText` with the stricter alphabet `textCh` -/
structure DocText (pre lbl post : Str) : Prop where
  hpre : pre.all textCh = true
  hlbl : lbl.all textCh = true
  nonblank : isBlank lbl = false
  hpost : post.all textCh = true
  noParen : post.head? ≠ some '('

theorem DocText.ref {pre lbl post : Str} (h : DocText pre lbl post) : RefText pre lbl post :=
  ⟨textCh_plain pre h.hpre, textCh_plain lbl h.hlbl, h.nonblank, textCh_plain post h.hpost, h.noParen⟩

/-- **C07 at document level, shortcut reference.**  `Document(lines)` under a configuration whose span-token list
    consists of covered classes with `CoreTokens` once (the bundled renderers: `C07_config_covered`).
    Hypothesis about the block phase: it produced one definition entry with the single definition `m`
    (`[m.label]: m.dest`, URL-safe destination, no title) followed by one paragraph entry with the single line `line`,
    whose stripped text is `pre[lbl]post`.  Then the table is the one built from `m` (that `st.defs` is `[m]`, i.e.
    the definitions of the buffer in document order, is `blockPhase_defs`), the document is that one paragraph
    (the definition produces no token), and the HTML is
    `<p>pre<a href="dest">lbl</a>post</p>` when `normalize_label(lbl) = normalize_label(m.label)`, and
    `<p>pre[lbl]post</p>` otherwise. -/
theorem C07_shortcut_document (cfg : Document.Cfg)
    (ht : ∀ t ∈ cfg.span, inertClass t = true) (hc : cfg.span.count .coreTokens = 1)
    (gas : Nat) (lines : List Str) (buf : Block.Buf) (st : Block.St)
    (hb : Block.blockPhase cfg.block gas lines = .ok (buf, st))
    (m : Block.FnMatch) (ln og ln' og' : Nat) (line : Str)
    (hent : buf.entries = [.footnote [m] ln og, .paragraph [line] ln' og'])
    (hd : ∀ c ∈ m.dest, urlCh c = true) (htitle : m.title = [])
    (pre lbl post : Str) (hline : strip line = pre ++ ['['] ++ lbl ++ [']'] ++ post)
    (htext : DocText pre lbl post) (o : Opts) :
    ∃ d, Document.parseLines cfg gas lines = .ok d ∧
      d.footnotes = [(Footnotes.normalizeLabel m.label, m.dest, [])] ∧
      d.kids = [.paragraph (if Footnotes.normalizeLabel m.label = Footnotes.normalizeLabel lbl
          then rawOf pre ++ [.link m.dest [] .shortcut none none [.rawText lbl]] ++ rawOf post
          else [.rawText (pre ++ ['['] ++ lbl ++ [']'] ++ post)]) ln'] ∧
      render o d =
        if Footnotes.normalizeLabel m.label = Footnotes.normalizeLabel lbl
        then "<p>".toList ++ pre ++ "<a href=\"".toList ++ m.dest ++ "\">".toList ++ lbl ++ "</a>".toList ++ post ++ "</p>\n".toList
        else "<p>".toList ++ pre ++ ['['] ++ lbl ++ [']'] ++ post ++ "</p>\n".toList := by
  have hdefs : st.defs = [m] := by
    rw [Block.blockPhase_defs cfg.block gas lines buf st hb, hent]
    simp [Block.defsOfEntries, Block.defsOfEntry]
  obtain ⟨d1, d2, d3⟩ := dest_id m.dest hd
  have e0 : Unescape.escStrip true [] = [] := by decide
  have hfn := footnotesOf_one m hd htitle
  have href := htext.ref
  unfold Document.parseLines
  rw [hb]
  simp only [hdefs, hfn, hent]
  by_cases hk : Footnotes.normalizeLabel m.label = Footnotes.normalizeLabel lbl
  · have hl : Footnotes.lookup [(Footnotes.normalizeLabel m.label, m.dest, [])] (Footnotes.normalizeLabel lbl) =
        some (m.dest, []) := by rw [lookup_one, if_pos hk]
    have hin := (shortcut_resolves cfg.span _ pre lbl post m.dest [] href ht hc hl).2
    rw [d1, d2 true, e0] at hin
    have hmk : mkBlocks cfg [(Footnotes.normalizeLabel m.label, m.dest, [])]
        [.footnote [m] ln og, .paragraph [line] ln' og'] =
        .ok [.paragraph (rawOf pre ++ [.link m.dest [] .shortcut none none [.rawText lbl]] ++ rawOf post) ln'] := by
      simp only [mkBlocks, mkBlock, inl, paragraph_content_one, hline, hin]
    rw [hmk]
    refine ⟨_, rfl, rfl, by simp only [if_pos hk], ?_⟩
    rw [if_pos hk, render_one_paragraph]
    simp only [renderInlines_append, flat_append, flat_rawOf _ _ htext.hpre, flat_rawOf _ _ htext.hpost]
    simp [renderInlines, renderInline, flat, flatEv, flatAttrs, titleAttr, d3, textCh_escape _ _ lbl htext.hlbl]
  · have hl : Footnotes.lookup [(Footnotes.normalizeLabel m.label, m.dest, [])] (Footnotes.normalizeLabel lbl) = none := by
      rw [lookup_one, if_neg hk]
    have hin := (shortcut_unresolved cfg.span _ pre lbl post href ht hl).2
    have hmk : mkBlocks cfg [(Footnotes.normalizeLabel m.label, m.dest, [])]
        [.footnote [m] ln og, .paragraph [line] ln' og'] =
        .ok [.paragraph [.rawText (pre ++ ['['] ++ lbl ++ [']'] ++ post)] ln'] := by
      simp only [mkBlocks, mkBlock, inl, paragraph_content_one, hline, hin]
    rw [hmk]
    refine ⟨_, rfl, rfl, by simp only [if_neg hk], ?_⟩
    rw [if_neg hk, render_one_paragraph]
    have eb : ∀ dq sq, escapeHtmlText dq sq ['['] = ['['] ∧ escapeHtmlText dq sq [']'] = [']'] := by
      intro dq sq; cases dq <;> cases sq <;> decide
    simp only [renderInlines, renderInline, flat, flatEv, List.flatMap_cons, List.flatMap_nil, List.append_nil,
      escape_append, textCh_escape _ _ pre htext.hpre, textCh_escape _ _ lbl htext.hlbl,
      textCh_escape _ _ post htext.hpost, (eb _ _).1, (eb _ _).2]
    simp only [List.append_assoc]

/-! ### from the text of the document -/

/-- the span-token lists the bundled renderers install consist of covered classes, with `CoreTokens` exactly once
    (re-checked against the lists regenerated from the working tree) -/
theorem C07_config_covered : ∀ cfg, (Config.html = some cfg ∨ Config.markdown = some cfg ∨ Config.default = some cfg) →
    (∀ t ∈ cfg.span, inertClass t = true) ∧ cfg.span.count .coreTokens = 1 := by
  have h : ∀ o ∈ [Config.html, Config.markdown, Config.default], ∀ cfg, o = some cfg →
      (cfg.span.all inertClass && cfg.span.count .coreTokens == 1) = true := by
    decide +kernel
  intro cfg hc
  have := h (some cfg) (by rcases hc with hc | hc | hc <;> simp [hc]) cfg rfl
  simp only [Bool.and_eq_true, List.all_eq_true, beq_iff_eq] at this
  exact this

/-- the parse buffer is: one definition entry holding exactly `m`, then one paragraph entry holding exactly `line` -/
def isDefPara (es : List Block.Entry) (m : Block.FnMatch) (line : Str) : Bool :=
  match es with
  | [.footnote [m'] _ _, .paragraph [l] _ _] => m' == m && l == line
  | _ => false

theorem isDefPara_spec (es : List Block.Entry) (m : Block.FnMatch) (line : Str) (h : isDefPara es m line = true) :
    ∃ ln og ln' og', es = [.footnote [m] ln og, .paragraph [line] ln' og'] := by
  unfold isDefPara at h
  split at h
  · rename_i m' ln og l ln' og'
    simp only [Bool.and_eq_true, beq_iff_eq] at h
    exact ⟨ln, og, ln', og', by rw [h.1, h.2]⟩
  · cases h

/-- the block phase succeeds with such a buffer (a Boolean, so that a concrete instance is a kernel evaluation) -/
def blockPhaseIs (cfg : Block.Cfg) (gas : Nat) (lines : List Str) (m : Block.FnMatch) (line : Str) : Bool :=
  match Block.blockPhase cfg gas lines with
  | .ok (buf, _) => isDefPara buf.entries m line
  | .err _ => false

/-- the document: one definition, a blank line, one paragraph line -/
def docText (defLbl dest pre lbl post : Str) : Str :=
  ['['] ++ defLbl ++ "]: ".toList ++ dest ++ "\n\n".toList ++ (pre ++ ['['] ++ lbl ++ [']'] ++ post ++ ['\n'])

theorem strip_line (c : Char) (r : Str) (hc : pyIsSpace c = false)
    (hl : ∀ d, (c :: r).getLast? = some d → pyIsSpace d = false) : strip ((c :: r) ++ ['\n']) = c :: r := by
  unfold strip
  rw [List.cons_append, lstrip_of_head c _ hc]
  have e : rstrip (c :: (r ++ ['\n'])) = rstrip (c :: r) := by
    unfold rstrip
    have : (c :: (r ++ ['\n'])).reverse = '\n' :: (c :: r).reverse := by simp
    rw [this]
    have hnl : pyIsSpace '\n' = true := by decide
    simp only [lstrip, hnl, if_true]
  rw [e, rstrip_of_last (c :: r) hl]

theorem strip_ref_line (pre lbl post : Str) (hh : ∀ c, pre.head? = some c → pyIsSpace c = false)
    (hl : ∀ c, post.getLast? = some c → pyIsSpace c = false) :
    strip (pre ++ ['['] ++ lbl ++ [']'] ++ post ++ ['\n']) = pre ++ ['['] ++ lbl ++ [']'] ++ post := by
  have hlast : ∀ d, (pre ++ ['['] ++ lbl ++ [']'] ++ post).getLast? = some d → pyIsSpace d = false := by
    intro d hd
    rw [List.getLast?_append] at hd
    cases hp : post.getLast? with
    | some x => rw [hp] at hd; simp only [Option.some_or, Option.some.injEq] at hd; subst hd; exact hl x hp
    | none =>
      rw [hp, Option.none_or, List.getLast?_append] at hd
      simp only [List.getLast?_singleton, Option.some_or, Option.some.injEq] at hd
      subst hd; decide
  cases pre with
  | nil =>
    have := strip_line '[' (lbl ++ [']'] ++ post) (by decide) (by simpa using hlast)
    simpa using this
  | cons c r =>
    have := strip_line c (r ++ ['['] ++ lbl ++ [']'] ++ post) (hh c rfl) (by simpa using hlast)
    simpa using this

/-- **C07 for the document `[defLbl]: dest`, blank line, `pre[lbl]post`** under the HTML renderer's configuration.
    `hbp` is the hypothesis about the block phase (the definition line is read as one definition, the last line as one
    paragraph); everything after it is proved: the table, the lookup with `normalize_label(lbl)`, the `Link` token or
    the literal text, the HTML. -/
theorem C07_shortcut_document_text (cfg : Document.Cfg) (hcfg : Config.html = some cfg) (gas : Nat)
    (defLbl dest pre lbl post : Str) (hd : ∀ c ∈ dest, urlCh c = true) (htext : DocText pre lbl post)
    (hh : ∀ c, pre.head? = some c → pyIsSpace c = false) (hl : ∀ c, post.getLast? = some c → pyIsSpace c = false)
    (hbp : blockPhaseIs cfg.block gas (Lines.normalize (.str (docText defLbl dest pre lbl post)))
      { label := defLbl, dest := dest, title := [], destType := "uri".toList, titleDelim := none }
      (pre ++ ['['] ++ lbl ++ [']'] ++ post ++ ['\n']) = true) (o : Opts) :
    Config.renderHtml o gas (docText defLbl dest pre lbl post) =
      some (if Footnotes.normalizeLabel defLbl = Footnotes.normalizeLabel lbl
        then "<p>".toList ++ pre ++ "<a href=\"".toList ++ dest ++ "\">".toList ++ lbl ++ "</a>".toList ++ post ++ "</p>\n".toList
        else "<p>".toList ++ pre ++ ['['] ++ lbl ++ [']'] ++ post ++ "</p>\n".toList) := by
  obtain ⟨ht, hc⟩ := C07_config_covered cfg (Or.inl hcfg)
  unfold blockPhaseIs at hbp
  cases hb : Block.blockPhase cfg.block gas (Lines.normalize (.str (docText defLbl dest pre lbl post))) with
  | err e => rw [hb] at hbp; cases hbp
  | ok r =>
    obtain ⟨buf, st⟩ := r
    rw [hb] at hbp
    obtain ⟨ln, og, ln', og', hent⟩ := isDefPara_spec _ _ _ hbp
    obtain ⟨d, hp, _, _, hr⟩ := C07_shortcut_document cfg ht hc gas _ buf st hb _ ln og ln' og' _ hent hd rfl pre lbl post
      (strip_ref_line pre lbl post hh hl) htext o
    unfold Config.renderHtml
    rw [hcfg]
    simp only [Document.parse, hp, hr]

/-! ## Non-vacuity -/

section Examples
open Mistletoe.Props.C14 (htmlSpanTypes htmlSpanTypes_inert)

def L (s : String) : Str := s.toList

/-- the table of the document `[foo bar]: /u "T"` -/
def tbl : Footnotes.Table := [(L "foo bar", L "/u", L "T")]

theorem demo_text : RefText (L "see ") (L "Foo  Bar") (L " here") :=
  ⟨by decide, by decide, by decide +kernel, by decide, by decide⟩

/-- `see [Foo  Bar] here`: the label is folded to `foo bar` (case, inner whitespace) and found -/
example : Footnotes.lookup tbl (Footnotes.normalizeLabel (L "Foo  Bar")) = some (L "/u", L "T") := by decide +kernel

/-- instance of `shortcut_resolves`: one match, the link from offset 4 to 14 with text span 5…13 -/
example : findCoreTokens (L "see " ++ ['['] ++ L "Foo  Bar" ++ [']'] ++ L " here") tbl =
    .ok ([{ start := 4, stop := 14, kind := .link, ts := 5, te := 13, dest := L "/u", title := L "T",
            destType := L "shortcut", label := none }], []) :=
  (shortcut_resolves htmlSpanTypes tbl (L "see ") (L "Foo  Bar") (L " here") (L "/u") (L "T") demo_text
    htmlSpanTypes_inert (by decide) (by decide +kernel)).1

example : tokenizeInner htmlSpanTypes tbl (L "see " ++ ['['] ++ L "Foo  Bar" ++ [']'] ++ L " here") =
    .ok [.rawText (L "see "), .link (L "/u") (L "T") .shortcut none none [.rawText (L "Foo  Bar")], .rawText (L " here")] := by
  have h := (shortcut_resolves htmlSpanTypes tbl (L "see ") (L "Foo  Bar") (L " here") (L "/u") (L "T") demo_text
    htmlSpanTypes_inert (by decide) (by decide +kernel)).2
  have e1 : Unescape.escStrip true (strip (L "/u")) = L "/u" := by decide +kernel
  have e2 : Unescape.escStrip true (L "T") = L "T" := by decide +kernel
  rw [e1, e2] at h
  exact h

/-- with the empty table (instance of `shortcut_unresolved`): nothing is found, the text is one `RawText` -/
example : findCoreTokens (L "see " ++ ['['] ++ L "Foo  Bar" ++ [']'] ++ L " here") [] = .ok ([], []) ∧
    tokenizeInner htmlSpanTypes [] (L "see " ++ ['['] ++ L "Foo  Bar" ++ [']'] ++ L " here") =
      .ok [.rawText (L "see " ++ ['['] ++ L "Foo  Bar" ++ [']'] ++ L " here")] :=
  shortcut_unresolved htmlSpanTypes [] (L "see ") (L "Foo  Bar") (L " here") demo_text htmlSpanTypes_inert rfl

/-- the same four facts by evaluating the model (rendered, since `Inline` has no decidable equality) -/
def inlineHtml (fn : Footnotes.Table) (s : Str) : Res Str :=
  (tokenizeInner htmlSpanTypes fn s).bind (fun k => .ok (flat (renderInlines ⟨false, false⟩ k)))

example : inlineHtml tbl (L "see [Foo  Bar] here") = .ok (L "see <a href=\"/u\" title=\"T\">Foo  Bar</a> here") := by
  decide +kernel
example : inlineHtml [] (L "see [Foo  Bar] here") = .ok (L "see [Foo  Bar] here") := by decide +kernel
example : inlineHtml tbl (L "a ![Foo  Bar] b") = .ok (L "a <img src=\"/u\" alt=\"Foo  Bar\" title=\"T\" /> b") := by
  decide +kernel
example : inlineHtml tbl (L "a [foo BAR][] b") = .ok (L "a <a href=\"/u\" title=\"T\">foo BAR</a> b") := by decide +kernel
example : inlineHtml tbl (L "a [text][FOO bar].") = .ok (L "a <a href=\"/u\" title=\"T\">text</a>.") := by decide +kernel
/-- `[text][lbl]` with `lbl` undefined stays literal although `text` is defined (`ref_full_unresolved`) -/
example : inlineHtml tbl (L "a [foo bar][nope] b") = .ok (L "a [foo bar][nope] b") := by decide +kernel

/-- instances of the image, collapsed and full theorems -/
example : ∃ d t, tokenizeInner htmlSpanTypes tbl (L "see " ++ ['!', '['] ++ L "Foo  Bar" ++ [']'] ++ L " here") =
    .ok [.rawText (L "see "), .image d t .shortcut none none [.rawText (L "Foo  Bar")], .rawText (L " here")] :=
  ⟨_, _, image_shortcut_resolves htmlSpanTypes tbl (L "see ") (L "Foo  Bar") (L " here") (L "/u") (L "T") demo_text
    htmlSpanTypes_inert (by decide) (by decide +kernel)⟩
example : ∃ d t, tokenizeInner htmlSpanTypes tbl (L "see " ++ ['['] ++ L "Foo  Bar" ++ [']', '[', ']'] ++ L " here") =
    .ok [.rawText (L "see "), .link d t .collapsed none none [.rawText (L "Foo  Bar")], .rawText (L " here")] :=
  ⟨_, _, collapsed_resolves htmlSpanTypes tbl (L "see ") (L "Foo  Bar") (L " here") (L "/u") (L "T") demo_text
    htmlSpanTypes_inert (by decide) (by decide +kernel)⟩
example : ∃ d t, tokenizeInner htmlSpanTypes tbl (L "see " ++ ['['] ++ L "the text" ++ [']', '['] ++ L "Foo  Bar" ++ [']'] ++ L " here") =
    .ok [.rawText (L "see "), .link d t .full (some (L "Foo  Bar")) none [.rawText (L "the text")], .rawText (L " here")] :=
  ⟨_, _, full_resolves htmlSpanTypes tbl (L "see ") (L "the text") (L "Foo  Bar") (L " here") (L "/u") (L "T") (by decide)
    (by decide) demo_text htmlSpanTypes_inert (by decide) (by decide +kernel)⟩

/-! ### the document -/

theorem demo_doc_text : DocText (L "see ") (L "Foo  Bar") (L " here") ∧ DocText (L "see ") (L "Foo  Baz") (L " here") :=
  ⟨⟨by decide, by decide, by decide +kernel, by decide, by decide⟩,
   ⟨by decide, by decide, by decide +kernel, by decide, by decide⟩⟩

/-- `"[foo bar]: /u\n\nsee [Foo  Bar] here\n"`: instance of `C07_shortcut_document_text`; the hypothesis about the
    block phase is discharged by kernel evaluation -/
example : ∀ cfg, Config.html = some cfg → ∀ o : Opts,
    Config.renderHtml o 30 (L "[foo bar]: /u\n\nsee [Foo  Bar] here\n") =
      some (L "<p>see <a href=\"/u\">Foo  Bar</a> here</p>\n") := by
  intro cfg hcfg o
  have hbp : ∀ c, Config.html = some c → blockPhaseIs c.block 30
      (Lines.normalize (.str (docText (L "foo bar") (L "/u") (L "see ") (L "Foo  Bar") (L " here"))))
      { label := L "foo bar", dest := L "/u", title := [], destType := "uri".toList, titleDelim := none }
      (L "see " ++ ['['] ++ L "Foo  Bar" ++ [']'] ++ L " here" ++ ['\n']) = true := by decide +kernel
  have h := C07_shortcut_document_text cfg hcfg 30 (L "foo bar") (L "/u") (L "see ") (L "Foo  Bar") (L " here")
    (by decide) demo_doc_text.1 (by decide +kernel) (by decide +kernel) (hbp cfg hcfg) o
  have hk : Footnotes.normalizeLabel (L "foo bar") = Footnotes.normalizeLabel (L "Foo  Bar") := by decide +kernel
  rw [if_pos hk] at h
  exact h

/-- `[Foo  Baz]` has no definition: literal -/
example : ∀ cfg, Config.html = some cfg → ∀ o : Opts,
    Config.renderHtml o 30 (L "[foo bar]: /u\n\nsee [Foo  Baz] here\n") = some (L "<p>see [Foo  Baz] here</p>\n") := by
  intro cfg hcfg o
  have hbp : ∀ c, Config.html = some c → blockPhaseIs c.block 30
      (Lines.normalize (.str (docText (L "foo bar") (L "/u") (L "see ") (L "Foo  Baz") (L " here"))))
      { label := L "foo bar", dest := L "/u", title := [], destType := "uri".toList, titleDelim := none }
      (L "see " ++ ['['] ++ L "Foo  Baz" ++ [']'] ++ L " here" ++ ['\n']) = true := by decide +kernel
  have h := C07_shortcut_document_text cfg hcfg 30 (L "foo bar") (L "/u") (L "see ") (L "Foo  Baz") (L " here")
    (by decide) demo_doc_text.2 (by decide +kernel) (by decide +kernel) (hbp cfg hcfg) o
  have hk : ¬ Footnotes.normalizeLabel (L "foo bar") = Footnotes.normalizeLabel (L "Foo  Baz") := by decide +kernel
  rw [if_neg hk] at h
  exact h

/-- (the real `mistletoe.markdown` returns the same two strings for these two documents) -/
example : docText (L "foo bar") (L "/u") (L "see ") (L "Foo  Bar") (L " here") = L "[foo bar]: /u\n\nsee [Foo  Bar] here\n" := by
  decide

end Examples

end Mistletoe.RefResolve
