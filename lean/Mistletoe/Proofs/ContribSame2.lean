/-
  C18 for GithubWikiRenderer under the property's OWN side condition ("the document does not use `[[..|..]]`"), not the
  stronger "no `[[`" of Proofs/ContribSame.lean.

  Side condition (decidable, on the text):  `noWikiLine t` — `GithubWiki.pattern` = `\[\[ *(.+?) *\| *(.+?) *\]\]`, as the
  model scans it (`wikiFindAux`, what `findOne … .githubWiki` uses), has no match in any line of `t` (`t.split('\n')`).
  Equivalent forms, all proved:  `noWikiText t` (no match in the text as a whole: `.` does not match '\n'),
  `noWikiLine_iff_decl` (the text is not `a ++ "[[" ++ x ++ "|" ++ y ++ "]]" ++ b` with `x`, `y` non-empty and without
  newline — the ` *` of the pattern are absorbed by `.+?`, so this is exactly when `re` matches), and `NoW t` (an
  8-state recogniser rejects `t`).

  Part 1  the recogniser `run` (states ordered by a simulation order, `stepK_mono`), and `qw_inv : LineInv QW NoW`: the
          invariant machinery of ContribSame.lean (`LineInv`, `blockPhase_inv`, `parse_insert`) is already stated for
          abstract predicates, so only a new instance is needed: `QW l` = the recogniser rejects `l` and `l` has no '['
          or ends with '\n' (so appending another line cannot complete a match), `NoW u` for the inline texts.  Closure
          under suffix / indentation / the quote marker / ">\t" → "   " / cutting at '\n' / concatenation of lines /
          join with "\n" / infix (table cells, heading contents) / `unescapePipes` (`\|` → `|` in a cell: the deleted
          backslashes stand before a '|', which cannot make a match appear: `unesc_run`).
  Part 2  recogniser = declarative reading (`noW_iff_decl`), model's matcher sound and complete for the declarative
          reading (`wikiAt_sound`, `wikiAt_complete`, incl. the backtracking `downFrom` and the lazy `lazyUntil`), hence
          `wikiFind_nil_iff : wikiFind s = [] ↔ NoW s`.
  Part 3  the lines of a text (`normalize_qw`), `parse_insert_githubWiki_noW`.
  Part 4  `noWikiLine`, `noWikiText`, the equivalences, `C18_githubwiki_same_text_nomatch`,
          `C18_githubwiki_same_output_nomatch`, `C18_githubwiki_same_output_nosearch`; the old hypothesis implies the new
          one (`noWikiLine_of_noBB`).
  Part 5  non-vacuity (texts with "[[" inside the property and outside the old theorem), sharpness (`[[a|b]]`, and
          `[[a\|b]]` in a table cell, where the outputs differ), the condition is not necessary (`[[a\r|b]]`).
  html.unescape plays no role: character references are resolved when RawText is built, after `find_tokens`
  (`build … .raw`), and `parse_insert` is about `findAll` on the very strings the constructors tokenize.
  MathJax under "at most one '$'" is NOT proved (see the end of the file for the reason).
-/
import Mistletoe.Proofs.ContribSame

namespace Mistletoe.ContribSame2
open Mistletoe Mistletoe.Py Mistletoe.Scan Mistletoe.InlineScan Mistletoe.Inline Mistletoe.Block Mistletoe.Document
open Mistletoe.ContribSame

/-! ## Part 1: the recogniser -/

/-- the five character classes the GithubWiki pattern distinguishes -/
inductive CK | nl | lb | rb | pipe | other
  deriving DecidableEq, Repr

def ck (c : Char) : CK :=
  if c = '\n' then .nl else if c = '[' then .lb else if c = ']' then .rb else if c = '|' then .pipe else .other

/-- states: 0 nothing, 1 after "[", 2 after "[[", 3 inside group 1 (non-empty), 4 after the "|", 5 inside group 2
    (non-empty), 6 inside group 2 after a "]" that has a character of group 2 before it, 7 matched (absorbing).
    The order 0 < 1 < … < 7 is a simulation order: `stepK_mono`. -/
def stepK (q : Fin 8) (k : CK) : Fin 8 :=
  match q.val, k with
  | 7, _ => 7
  | _, .nl => 0
  | 0, .lb => 1 | 0, _ => 0
  | 1, .lb => 2 | 1, _ => 0
  | 2, _ => 3
  | 3, .pipe => 4 | 3, _ => 3
  | 4, _ => 5
  | 5, .rb => 6 | 5, _ => 5
  | 6, .rb => 7 | 6, _ => 5
  | _, _ => 7

def step (q : Fin 8) (c : Char) : Fin 8 := stepK q (ck c)
def run (q : Fin 8) (s : Str) : Fin 8 := s.foldl step q

/-- the recogniser does not reach the accepting state: no line of `s` contains "[[", a character, later "|", a character,
    later "]]" (`noW_iff_decl`) -/
def NoW (s : Str) : Prop := run 0 s ≠ 7

instance : DecidablePred NoW := fun s => inferInstanceAs (Decidable (run 0 s ≠ 7))

theorem stepK_mono : ∀ (k : CK) (q q' : Fin 8), q ≤ q' → stepK q k ≤ stepK q' k := by
  intro k; cases k <;> decide
theorem stepK_acc : ∀ (k : CK), stepK 7 k = 7 := by intro k; cases k <;> decide
theorem le7 : ∀ (q : Fin 8), q ≤ 7 := by decide
theorem eq7 : ∀ (q : Fin 8), 7 ≤ q → q = 7 := by decide

@[simp] theorem run_nil (q : Fin 8) : run q [] = q := rfl
@[simp] theorem run_cons (q : Fin 8) (c : Char) (s : Str) : run q (c :: s) = run (step q c) s := rfl
theorem run_append (q : Fin 8) (a b : Str) : run q (a ++ b) = run (run q a) b := by
  simp [run, List.foldl_append]

theorem run_mono : ∀ (s : Str) (q q' : Fin 8), q ≤ q' → run q s ≤ run q' s
  | [], _, _, h => h
  | c :: s, q, q', h => run_mono s _ _ (stepK_mono (ck c) q q' h)

theorem run_acc : ∀ (s : Str), run 7 s = 7
  | [] => rfl
  | c :: s => by rw [run_cons, step, stepK_acc]; exact run_acc s

theorem acc_infix (u s : Str) (hi : u <:+: s) (h : run 0 u = 7) : run 0 s = 7 := by
  obtain ⟨p, r, rfl⟩ := hi
  rw [run_append, run_append]
  have : run (run 0 p) u = 7 := eq7 _ (h ▸ run_mono u 0 _ (Fin.zero_le _))
  rw [this, run_acc]

theorem noW_infix (u s : Str) (h : NoW s) (hi : u <:+: s) : NoW u := fun hu => h (acc_infix u s hi hu)

theorem ck_lb (c : Char) (h : c ≠ '[') : ck c ≠ .lb := by
  unfold ck; (repeat' split) <;> simp_all

theorem ck_nl (c : Char) (h : c ≠ '\n') : ck c ≠ .nl := by
  unfold ck; (repeat' split) <;> simp_all

theorem stepK0 : ∀ (k : CK), k ≠ .lb → stepK 0 k = 0 := by intro k; cases k <;> decide

theorem run0_noLb : ∀ (p : Str), '[' ∉ p → run 0 p = 0
  | [], _ => rfl
  | c :: p, h => by
    have hc : c ≠ '[' := fun e => h (by simp [e])
    rw [run_cons, step, stepK0 _ (ck_lb c hc)]
    exact run0_noLb p (fun e => h (List.mem_cons_of_mem _ e))

theorem stepK_nl : ∀ (q : Fin 8), stepK q .nl = 7 ∨ stepK q .nl = 0 := by decide
theorem stepK_nl0 : ∀ (q : Fin 8), q ≠ 7 → stepK q .nl = 0 := by decide

theorem run_endNl (q : Fin 8) (s : Str) (h : s.getLast? = some '\n') : run q s = 7 ∨ run q s = 0 := by
  obtain ⟨s', rfl⟩ := List.getLast?_eq_some_iff.mp h
  rw [run_append]
  exact stepK_nl _

theorem getLast?_append_cons {α} (p : List α) (x : α) (xs : List α) : (p ++ x :: xs).getLast? = (x :: xs).getLast? := by
  rw [List.getLast?_append]
  cases h : (x :: xs).getLast? with
  | none => simp at h
  | some z => rfl

/-- the line either has no '[' or ends with a newline -/
def EndOk (s : Str) : Prop := '[' ∉ s ∨ s.getLast? = some '\n'

/-- the line invariant: no match inside, and none can arise by appending another line -/
def QW (s : Str) : Prop := NoW s ∧ EndOk s

theorem qw_run0 (s : Str) (h : QW s) : run 0 s = 0 := by
  rcases h.2 with h2 | h2
  · exact run0_noLb s h2
  · rcases run_endNl 0 s h2 with e | e
    · exact absurd e h.1
    · exact e

theorem noW_append (a b : Str) (ha : QW a) (hb : NoW b) : NoW (a ++ b) := by
  unfold NoW
  rw [run_append, qw_run0 a ha]
  exact hb

theorem endOk_suffix (s t : Str) (hs : t <:+ s) (h : EndOk s) : EndOk t := by
  rcases h with h | h
  · exact Or.inl (fun hm => h (hs.subset hm))
  · obtain ⟨p, rfl⟩ := hs
    cases t with
    | nil => exact Or.inl (by simp)
    | cons x xs =>
      right
      rw [List.getLast?_append] at h
      simpa using h

theorem qw_prepend (p s : Str) (hp : '[' ∉ p) (h : QW s) : QW (p ++ s) := by
  refine ⟨?_, ?_⟩
  · unfold NoW
    rw [run_append, run0_noLb p hp]
    exact h.1
  · rcases h.2 with h2 | h2
    · left
      intro hm
      rcases List.mem_append.mp hm with e | e
      · exact hp e
      · exact h2 e
    · right
      rw [List.getLast?_append, h2]; rfl

theorem tab_run : ∀ (q : Fin 8), run q [' ', ' ', ' '] = run q ['>', '\t'] := by decide

theorem stepK_other_idem : ∀ (q : Fin 8), stepK (stepK q .other) .other = stepK q .other := by decide
theorem stepK_pipe_other : ∀ (q : Fin 8), stepK q .pipe ≤ stepK (stepK q .other) .pipe := by decide

theorem run_bs : ∀ (k : Nat) (q : Fin 8), run q (List.replicate (k + 1) '\\') = stepK q .other
  | 0, q => rfl
  | k + 1, q => by
    rw [List.replicate_succ, run_cons, run_bs k]
    exact stepK_other_idem q

theorem countLeading_spec (ch : Char) : ∀ (s : Str),
    s = List.replicate (countLeading ch s) ch ++ s.drop (countLeading ch s)
  | [] => rfl
  | c :: rest => by
    simp only [countLeading]
    split
    · rename_i e
      subst e
      simp only [List.replicate_succ, List.drop_succ_cons, List.cons_append]
      rw [← countLeading_spec c rest]
    · rfl

theorem drop_head (s : Str) (k : Nat) (c : Char) (h : (s.drop k).head? = some c) : s.drop k = c :: s.drop (k + 1) := by
  cases hd : s.drop k with
  | nil => rw [hd] at h; cases h
  | cons x xs =>
    rw [hd] at h
    simp only [List.head?_cons, Option.some.injEq] at h
    subst h
    have : s.drop (k + 1) = (s.drop k).drop 1 := by simp [List.drop_drop]
    rw [this, hd]; rfl

/-- unescaping `\|` inside a table cell cannot create a match -/
theorem unesc_run : ∀ (n : Nat) (p : Option Char) (t : Str) (q : Fin 8), run q (unescapePipes n p t) ≤ run q t
  | 0, _, _, _ => by simp only [unescapePipes]; exact Fin.le_refl _
  | _ + 1, _, [], _ => by simp only [unescapePipes]; exact Fin.le_refl _
  | n + 1, p, c :: rest, q => by
    simp only [unescapePipes]
    split
    · rename_i hc
      simp only [Bool.and_eq_true, beq_iff_eq] at hc
      obtain ⟨⟨_, hk⟩, hh⟩ := hc
      generalize hK : countLeading '\\' (c :: rest) = k at hk hh
      have e1 := countLeading_spec '\\' (c :: rest)
      rw [hK, drop_head _ _ _ hh] at e1
      obtain ⟨j, rfl⟩ : ∃ j, k = j + 1 := ⟨k - 1, by omega⟩
      have ih := unesc_run n (some '|') ((c :: rest).drop (j + 1 + 1))
      conv => rhs; rw [e1]
      rw [run_append, run_append, run_append, run_bs, run_cons, run_cons, run_nil]
      refine Fin.le_trans (ih _) (run_mono _ _ _ ?_)
      split
      · have : run q ['\\', '\\'] = stepK q .other := run_bs 1 q
        rw [this]; exact Fin.le_refl _
      · exact stepK_pipe_other q
    · rw [run_cons, run_cons]
      exact unesc_run n (some c) rest _

theorem qw_inv : LineInv QW NoW where
  suffix := fun s t h hs => ⟨noW_infix t s h.1 hs.isInfix, endOk_suffix s t hs h.2⟩
  spaces := fun s n h => qw_prepend _ s (fun hm => absurd (List.eq_of_mem_replicate hm) (by decide)) h
  gt := fun s h => qw_prepend ['>'] s (by simp) h
  tab := fun s h => by
    rcases replaceFirst_spec ['>', '\t'] [' ', ' ', ' '] s with e | ⟨a, b, h1, h2⟩
    · rw [e]; exact h
    · rw [h2]
      subst h1
      refine ⟨?_, ?_⟩
      · have := h.1
        unfold NoW at this ⊢
        rw [run_append, run_append] at this ⊢
        rw [tab_run]; exact this
      · rcases h.2 with h3 | h3
        · left
          intro hm
          apply h3
          simp only [List.mem_append, List.mem_cons, List.not_mem_nil, or_false] at hm ⊢
          rcases hm with (hm | hm) | hm
          · exact Or.inl (Or.inl hm)
          · rcases hm with e | e | e <;> exact absurd e (by decide)
          · exact Or.inr hm
        · right
          cases b with
          | nil => simp at h3
          | cons x xs =>
            rw [getLast?_append_cons] at h3 ⊢
            exact h3
  nl := ⟨by decide, Or.inr rfl⟩
  nlcut := fun a b h => ⟨noW_infix _ _ h.1 ⟨[], b, by simp⟩, Or.inr (by simp)⟩
  toR := fun s u h hs => noW_infix u s h.1 hs
  flat := fun ls h => by
    induction ls with
    | nil => simp only [List.flatten_nil]; decide
    | cons l rest ih =>
      rw [List.flatten_cons]
      exact noW_append l _ (h l (List.mem_cons_self ..)) (ih (fun x hx => h x (List.mem_cons_of_mem _ hx)))
  rinfix := fun s u h hs => noW_infix u s h hs
  rnil := by decide
  join := fun ls h => by
    induction ls with
    | nil => simp only [joinNl]; decide
    | cons x rest ih =>
      cases rest with
      | nil => simpa [joinNl] using h x (List.mem_cons_self ..)
      | cons y ys =>
        simp only [joinNl]
        have hx := h x (List.mem_cons_self ..)
        have hr := ih (fun l hl => h l (List.mem_cons_of_mem _ hl))
        unfold NoW at hx hr ⊢
        rw [run_append, run_append, run_cons, run_nil]
        have : step (run 0 x) '\n' = 0 := stepK_nl0 _ hx
        rw [this]; exact hr
  unesc := fun n p t h he => h (eq7 _ (he ▸ unesc_run n p t 0))

/-! ## Part 2: the recogniser, the declarative reading of the pattern and the model's scanner agree -/

/-- the declarative reading of `\[\[ *(.+?) *\| *(.+?) *\]\]` starting at the head of `r`: "[[", a non-empty stretch without
    newline, "|", a non-empty stretch without newline, "]]" (the ` *` are absorbed by the stretches) -/
def DeclAt (r : Str) : Prop :=
  ∃ x y b, r = '[' :: '[' :: (x ++ '|' :: (y ++ ']' :: ']' :: b)) ∧ x ≠ [] ∧ y ≠ [] ∧ '\n' ∉ x ∧ '\n' ∉ y

/-- … somewhere in `s` -/
def Decl (s : Str) : Prop := ∃ a r, s = a ++ r ∧ DeclAt r

/-! ### declarative ⇒ recogniser -/

theorem run_lb (lo : Fin 8) (hstep : ∀ k, k ≠ .nl → ∀ q, lo ≤ q → lo ≤ stepK q k) :
    ∀ (x : Str) (q : Fin 8), '\n' ∉ x → lo ≤ q → lo ≤ run q x
  | [], _, _, h => h
  | c :: x, q, hn, h => by
    have hc : c ≠ '\n' := fun e => hn (by simp [e])
    exact run_lb lo hstep x _ (fun e => hn (List.mem_cons_of_mem _ e)) (hstep _ (ck_nl c hc) q h)

theorem keep3 : ∀ k, k ≠ CK.nl → ∀ q : Fin 8, 3 ≤ q → 3 ≤ stepK q k := by intro k; cases k <;> decide
theorem keep5 : ∀ k, k ≠ CK.nl → ∀ q : Fin 8, 5 ≤ q → 5 ≤ stepK q k := by intro k; cases k <;> decide
theorem up23 : ∀ k, k ≠ CK.nl → ∀ q : Fin 8, 2 ≤ q → 3 ≤ stepK q k := by intro k; cases k <;> decide
theorem up45 : ∀ k, k ≠ CK.nl → ∀ q : Fin 8, 4 ≤ q → 5 ≤ stepK q k := by intro k; cases k <;> decide
theorem up34 : ∀ q : Fin 8, 3 ≤ q → 4 ≤ stepK q .pipe := by decide
theorem up56 : ∀ q : Fin 8, 5 ≤ q → 6 ≤ stepK q .rb := by decide
theorem up67 : ∀ q : Fin 8, 6 ≤ q → stepK q .rb = 7 := by decide

theorem run_ne (lo hi : Fin 8) (hup : ∀ k, k ≠ .nl → ∀ q, lo ≤ q → hi ≤ stepK q k)
    (hkeep : ∀ k, k ≠ .nl → ∀ q, hi ≤ q → hi ≤ stepK q k) (x : Str) (q : Fin 8) (hx : x ≠ []) (hn : '\n' ∉ x)
    (h : lo ≤ q) : hi ≤ run q x := by
  cases x with
  | nil => exact absurd rfl hx
  | cons c x =>
    have hc : c ≠ '\n' := fun e => hn (by simp [e])
    exact run_lb hi hkeep x _ (fun e => hn (List.mem_cons_of_mem _ e)) (hup _ (ck_nl c hc) q h)

theorem declAt_acc (r : Str) (h : DeclAt r) : run 0 r = 7 := by
  obtain ⟨x, y, b, rfl, hx, hy, hxn, hyn⟩ := h
  rw [run_cons, run_cons, run_append, run_cons, run_append, run_cons, run_cons]
  have h2 : step (step 0 '[') '[' = 2 := by decide
  rw [h2]
  have h3 := run_ne 2 3 up23 keep3 x 2 hx hxn (Fin.le_refl _)
  have h4 : (4 : Fin 8) ≤ step (run 2 x) '|' := up34 _ h3
  have h5 := run_ne 4 5 up45 keep5 y _ hy hyn h4
  have h6 : (6 : Fin 8) ≤ step (run (step (run 2 x) '|') y) ']' := up56 _ h5
  have h7 : step (step (run (step (run 2 x) '|') y) ']') ']' = 7 := up67 _ h6
  rw [h7, run_acc]

theorem decl_acc (s : Str) (h : Decl s) : run 0 s = 7 := by
  obtain ⟨a, r, rfl, hr⟩ := h
  exact acc_infix r _ (List.suffix_append a r).isInfix (declAt_acc r hr)

/-! ### recogniser ⇒ declarative -/

/-- what the recogniser knows about the consumed prefix in each state -/
def Inv : Nat → Str → Prop
  | 0, _ => True
  | 1, p => ∃ a, p = a ++ ['[']
  | 2, p => ∃ a, p = a ++ ['[', '[']
  | 3, p => ∃ a x, p = a ++ '[' :: '[' :: x ∧ x ≠ [] ∧ '\n' ∉ x
  | 4, p => ∃ a x, p = a ++ '[' :: '[' :: (x ++ ['|']) ∧ x ≠ [] ∧ '\n' ∉ x
  | 5, p => ∃ a x y, p = a ++ '[' :: '[' :: (x ++ '|' :: y) ∧ x ≠ [] ∧ y ≠ [] ∧ '\n' ∉ x ∧ '\n' ∉ y
  | 6, p => ∃ a x y, p = a ++ '[' :: '[' :: (x ++ '|' :: (y ++ [']'])) ∧ x ≠ [] ∧ y ≠ [] ∧ '\n' ∉ x ∧ '\n' ∉ y
  | _, p => Decl p

theorem ck_cases (c : Char) : (c = '\n' ∧ ck c = .nl) ∨ (c = '[' ∧ ck c = .lb) ∨ (c = ']' ∧ ck c = .rb) ∨
    (c = '|' ∧ ck c = .pipe) ∨ (c ≠ '\n' ∧ ck c = .other) := by
  unfold ck; (repeat' split) <;> simp_all

theorem mem_snoc_nl (x : Str) (c : Char) (hx : '\n' ∉ x) (hc : c ≠ '\n') : '\n' ∉ x ++ [c] := by
  intro h
  rcases List.mem_append.mp h with e | e
  · exact hx e
  · simp only [List.mem_singleton] at e; exact hc e.symm

theorem decl_snoc (p : Str) (c : Char) (h : Decl p) : Decl (p ++ [c]) := by
  obtain ⟨a, r, rfl, x, y, b, rfl, hx⟩ := h
  exact ⟨a, '[' :: '[' :: (x ++ '|' :: (y ++ ']' :: ']' :: (b ++ [c]))), by simp, x, y, b ++ [c], rfl, hx⟩

theorem inv_step (q : Fin 8) (p : Str) (c : Char) (h : Inv q.val p) : Inv (step q c).val (p ++ [c]) := by
  have hnl : ∀ d : Char, d = '[' ∨ d = ']' ∨ d = '|' → d ≠ '\n' := by
    intro d hd; rcases hd with rfl | rfl | rfl <;> decide
  obtain ⟨v, hv⟩ := q
  have hck := ck_cases c
  match v, hv, h with
  | 0, _, _ =>
    rcases hck with ⟨rfl, hk⟩ | ⟨rfl, hk⟩ | ⟨rfl, hk⟩ | ⟨rfl, hk⟩ | ⟨hc, hk⟩ <;> simp only [step, hk]
    · trivial
    · exact ⟨p, rfl⟩
    · trivial
    · trivial
    · trivial
  | 1, _, h =>
    obtain ⟨a, rfl⟩ := h
    rcases hck with ⟨rfl, hk⟩ | ⟨rfl, hk⟩ | ⟨rfl, hk⟩ | ⟨rfl, hk⟩ | ⟨hc, hk⟩ <;> simp only [step, hk]
    · trivial
    · exact ⟨a, by simp⟩
    · trivial
    · trivial
    · trivial
  | 2, _, h =>
    obtain ⟨a, rfl⟩ := h
    have key : c ≠ '\n' → Inv 3 (a ++ ['[', '['] ++ [c]) := fun hc => ⟨a, [c], by simp, by simp, by simpa using hc.symm⟩
    rcases hck with ⟨rfl, hk⟩ | ⟨rfl, hk⟩ | ⟨rfl, hk⟩ | ⟨rfl, hk⟩ | ⟨hc, hk⟩ <;> simp only [step, hk]
    · trivial
    · exact key (by decide)
    · exact key (by decide)
    · exact key (by decide)
    · exact key hc
  | 3, _, h =>
    obtain ⟨a, x, rfl, hx, hxn⟩ := h
    have key : c ≠ '\n' → Inv 3 (a ++ '[' :: '[' :: x ++ [c]) := fun hc =>
      ⟨a, x ++ [c], by simp, by simp, mem_snoc_nl x c hxn hc⟩
    rcases hck with ⟨rfl, hk⟩ | ⟨rfl, hk⟩ | ⟨rfl, hk⟩ | ⟨rfl, hk⟩ | ⟨hc, hk⟩ <;> simp only [step, hk]
    · trivial
    · exact key (by decide)
    · exact key (by decide)
    · exact ⟨a, x, by simp, hx, hxn⟩
    · exact key hc
  | 4, _, h =>
    obtain ⟨a, x, rfl, hx, hxn⟩ := h
    have key : c ≠ '\n' → Inv 5 (a ++ '[' :: '[' :: (x ++ ['|']) ++ [c]) := fun hc =>
      ⟨a, x, [c], by simp, hx, by simp, hxn, by simpa using hc.symm⟩
    rcases hck with ⟨rfl, hk⟩ | ⟨rfl, hk⟩ | ⟨rfl, hk⟩ | ⟨rfl, hk⟩ | ⟨hc, hk⟩ <;> simp only [step, hk]
    · trivial
    · exact key (by decide)
    · exact key (by decide)
    · exact key (by decide)
    · exact key hc
  | 5, _, h =>
    obtain ⟨a, x, y, rfl, hx, hy, hxn, hyn⟩ := h
    have key : c ≠ '\n' → Inv 5 (a ++ '[' :: '[' :: (x ++ '|' :: y) ++ [c]) := fun hc =>
      ⟨a, x, y ++ [c], by simp, hx, by simp, hxn, mem_snoc_nl y c hyn hc⟩
    rcases hck with ⟨rfl, hk⟩ | ⟨rfl, hk⟩ | ⟨rfl, hk⟩ | ⟨rfl, hk⟩ | ⟨hc, hk⟩ <;> simp only [step, hk]
    · trivial
    · exact key (by decide)
    · exact ⟨a, x, y, by simp, hx, hy, hxn, hyn⟩
    · exact key (by decide)
    · exact key hc
  | 6, _, h =>
    obtain ⟨a, x, y, rfl, hx, hy, hxn, hyn⟩ := h
    have key : c ≠ '\n' → Inv 5 (a ++ '[' :: '[' :: (x ++ '|' :: (y ++ [']'])) ++ [c]) := fun hc =>
      ⟨a, x, y ++ [']'] ++ [c], by simp, hx, by simp, hxn, mem_snoc_nl _ c (mem_snoc_nl y ']' hyn (by decide)) hc⟩
    rcases hck with ⟨rfl, hk⟩ | ⟨rfl, hk⟩ | ⟨rfl, hk⟩ | ⟨rfl, hk⟩ | ⟨hc, hk⟩ <;> simp only [step, hk]
    · trivial
    · exact key (by decide)
    · exact ⟨a, '[' :: '[' :: (x ++ '|' :: (y ++ ']' :: ']' :: [])), by simp, x, y, [], rfl, hx, hy, hxn, hyn⟩
    · exact key (by decide)
    · exact key hc
  | 7, hv, h =>
    have : step ⟨7, hv⟩ c = 7 := stepK_acc _
    rw [this]
    exact decl_snoc p c h
  | n + 8, hv, _ => exact absurd hv (by omega)

theorem run_inv : ∀ (s : Str) (q : Fin 8) (p : Str), Inv q.val p → Inv (run q s).val (p ++ s)
  | [], q, p, h => by simpa using h
  | c :: s, q, p, h => by
    have := run_inv s (step q c) (p ++ [c]) (inv_step q p c h)
    simpa using this

theorem acc_decl (s : Str) (h : run 0 s = 7) : Decl s := by
  have := run_inv s 0 [] trivial
  rw [h] at this
  simpa [Inv] using this

/-- **the recogniser is the declarative reading of the pattern** -/
theorem noW_iff_decl (s : Str) : NoW s ↔ ¬ Decl s :=
  ⟨fun h hd => h (decl_acc s hd), fun h ha => h (acc_decl s ha)⟩

theorem mem_replicate_sp (k : Nat) : '\n' ∉ List.replicate k ' ' :=
  fun hm => absurd (List.eq_of_mem_replicate hm) (by decide)

theorem lazy_sound (lit : Str) : ∀ (fuel n : Nat) (s : Str) (g used : Nat),
    lazyUntil lit fuel n s = some (g, used) →
    ∃ X rest, s = X ++ lit ++ rest ∧ used = n + X.length + lit.length ∧ '\n' ∉ X ∧ 1 ≤ n + X.length
  | 0, _, _, _, _, h => by simp [lazyUntil] at h
  | _ + 1, _, [], _, _, h => by simp [lazyUntil] at h
  | fuel + 1, n, c :: rest, g, used, h => by
    simp only [lazyUntil] at h
    split at h
    · rename_i r heq
      split at heq
      · cases heq
      · split at heq
        · rename_i hn hs
          cases heq
          cases h
          obtain ⟨rest', hr⟩ := List.isPrefixOf_iff_prefix.mp hs
          refine ⟨List.replicate (countLeading ' ' (c :: rest)) ' ', rest', ?_, by simp, mem_replicate_sp _, by simp; omega⟩
          rw [List.append_assoc, hr]
          exact countLeading_spec ' ' (c :: rest)
        · cases heq
    · split at h
      · cases h
      · rename_i hc
        obtain ⟨X, rest', h1, h2, h3, h4⟩ := lazy_sound lit fuel (n + 1) rest g used h
        refine ⟨c :: X, rest', by simp [h1], by simp [h2]; omega, ?_, by simp; omega⟩
        intro hm
        rcases List.mem_cons.mp hm with e | e
        · exact hc (by simp [← e])
        · exact h3 e

theorem downFrom_some {α} (f : Nat → Option α) (v : α) : ∀ (n : Nat), downFrom f n = some v → ∃ k, k ≤ n ∧ f k = some v
  | 0, h => ⟨0, Nat.le_refl _, h⟩
  | n + 1, h => by
    simp only [downFrom] at h
    split at h
    · rename_i r hr
      cases h
      exact ⟨n + 1, Nat.le_refl _, hr⟩
    · obtain ⟨k, hk, hf⟩ := downFrom_some f v n h
      exact ⟨k, by omega, hf⟩

theorem downFrom_isSome {α} (f : Nat → Option α) (h0 : (f 0).isSome) : ∀ (n : Nat), (downFrom f n).isSome
  | 0 => h0
  | n + 1 => by
    simp only [downFrom]
    split
    · rfl
    · exact downFrom_isSome f h0 n

theorem take_countLeading (s : Str) (k : Nat) (hk : k ≤ countLeading ' ' s) : '\n' ∉ s.take k := by
  have e := countLeading_spec ' ' s
  intro hm
  rw [e, List.take_append_of_le_length (by simpa using hk)] at hm
  exact mem_replicate_sp _ (List.mem_of_mem_take hm)

theorem wikiAt_sound (r : Str) (v) (h : wikiAt r = some v) : DeclAt r := by
  unfold wikiAt at h
  split at h
  · cases h
  · rename_i hs
    simp only [Bool.not_eq_true, Bool.not_eq_false'] at hs
    obtain ⟨k, hk, hf⟩ := downFrom_some _ _ _ h
    simp only at hf
    split at hf
    · cases hf
    · rename_i g1 used1 hl1
      obtain ⟨k2, hk2, hf2⟩ := downFrom_some _ _ _ hf
      split at hf2
      · cases hf2
      · rename_i g2 used2 hl2
        clear hf2 hf h
        obtain ⟨r2, rfl⟩ := List.isPrefixOf_iff_prefix.mp hs
        have d1 : List.drop (2 + k) (['[', '['] ++ r2) = r2.drop k := by
          rw [Nat.add_comm 2 k]; rfl
        have d0 : List.drop 2 (['[', '['] ++ r2) = r2 := rfl
        rw [d0] at hk
        rw [d1] at hl1
        obtain ⟨X, rest1, e1, u1, n1, l1⟩ := lazy_sound _ _ _ _ _ _ hl1
        have d2 : List.drop (2 + k + used1) (['[', '['] ++ r2) = rest1 := by
          rw [← List.drop_drop, d1, e1, u1]
          exact List.drop_left' (by simp)
        rw [d2] at hk2
        have d3 : List.drop (2 + k + used1 + k2) (['[', '['] ++ r2) = rest1.drop k2 := by
          rw [← List.drop_drop, d2]
        rw [d3] at hl2
        obtain ⟨X2, b, e2, u2, n2, l2⟩ := lazy_sound _ _ _ _ _ _ hl2
        have m1 := take_countLeading r2 k hk
        have m2 := take_countLeading rest1 k2 hk2
        have t1 := List.take_append_drop k r2
        have t2 := List.take_append_drop k2 rest1
        rw [e2] at t2
        rw [e1] at t1
        generalize r2.take k = T1 at t1 m1
        generalize rest1.take k2 = T2 at t2 m2
        subst t2
        subst t1
        refine ⟨T1 ++ X, T2 ++ X2, b, by simp, ?_, ?_, ?_, ?_⟩
        · intro e
          have := (List.append_eq_nil_iff.mp e).2
          rw [this] at l1; simp at l1
        · intro e
          have := (List.append_eq_nil_iff.mp e).2
          rw [this] at l2; simp at l2
        · intro hm
          rcases List.mem_append.mp hm with e | e
          · exact m1 e
          · exact n1 e
        · intro hm
          rcases List.mem_append.mp hm with e | e
          · exact m2 e
          · exact n2 e
theorem countLeading_le (lit rest : Str) (hl : lit ≠ []) (hh : lit.head? ≠ some ' ') : ∀ (z : Str),
    countLeading ' ' (z ++ lit ++ rest) ≤ z.length
  | [] => by
    cases lit with
    | nil => exact absurd rfl hl
    | cons d ds =>
      have : d ≠ ' ' := fun e => hh (by simp [e])
      simp [countLeading, this]
  | c :: z => by
    simp only [List.cons_append, countLeading]
    split
    · have := countLeading_le lit rest hl hh z
      simp only [List.length_cons]; omega
    · omega

theorem lazy_exists (lit rest : Str) (hl : lit ≠ []) (hh : lit.head? ≠ some ' ') : ∀ (z : Str) (n fuel : Nat),
    '\n' ∉ z → 1 ≤ n + z.length → z.length < fuel →
    ∃ g used, lazyUntil lit fuel n (z ++ lit ++ rest) = some (g, used) ∧ used ≤ n + z.length + lit.length ∧ lit.length ≤ used
  | [], n, fuel, _, hn, hf => by
    obtain ⟨f, rfl⟩ : ∃ f, fuel = f + 1 := ⟨fuel - 1, by simp at hf; omega⟩
    cases lit with
    | nil => exact absurd rfl hl
    | cons d ds =>
      have hd : d ≠ ' ' := fun e => hh (by simp [e])
      have hn0 : n ≠ 0 := by simp at hn; omega
      refine ⟨n, n + 0 + (d :: ds).length, ?_, by simp, by simp⟩
      simp only [List.nil_append, List.cons_append, lazyUntil, hn0, if_false, countLeading, hd, List.drop_zero]
      simp [startsWith]
  | c :: z, n, fuel, hz, hn, hf => by
    obtain ⟨f, rfl⟩ : ∃ f, fuel = f + 1 := ⟨fuel - 1, by simp at hf; omega⟩
    have hc : c ≠ '\n' := fun e => hz (by simp [e])
    have hz' : '\n' ∉ z := fun e => hz (List.mem_cons_of_mem _ e)
    obtain ⟨g, used, ih, hb, hb2⟩ := lazy_exists lit rest hl hh z (n + 1) f hz' (by omega) (by simp at hf; omega)
    have hcl := countLeading_le lit rest hl hh (c :: z)
    simp only [List.cons_append, lazyUntil]
    split
    · rename_i r heq
      split at heq
      · cases heq
      · split at heq
        · cases heq
          refine ⟨_, _, rfl, ?_, by omega⟩
          simp only [List.cons_append] at hcl
          omega
        · cases heq
    · have : (c == '\n') = false := by simp [hc]
      simp only [this]
      refine ⟨g, used, ih, by simp only [List.length_cons]; omega, hb2⟩

theorem mem_drop_snoc (x : Str) (k : Nat) (c : Char) (hx : '\n' ∉ x) (hc : c ≠ '\n') : '\n' ∉ (x ++ [c]).drop k :=
  fun hm => mem_snoc_nl x c hx hc (List.mem_of_mem_drop hm)

/-- the model's matcher succeeds wherever the declarative reading holds -/
theorem wikiAt_complete (r : Str) (h : DeclAt r) : (wikiAt r).isSome := by
  obtain ⟨x, y, b, rfl, hx, hy, hxn, hyn⟩ := h
  unfold wikiAt
  have hs : startsWith ['[', '['] ('[' :: '[' :: (x ++ '|' :: (y ++ ']' :: ']' :: b))) = true := by
    simp [startsWith]
  simp only [hs, Bool.not_true, Bool.false_eq_true, if_false]
  apply downFrom_isSome
  simp only [Nat.add_zero, List.drop_succ_cons, List.drop_zero]
  have e0 : x ++ '|' :: (y ++ ']' :: ']' :: b) = x ++ ['|'] ++ (y ++ ']' :: ']' :: b) := by simp
  obtain ⟨g1, used1, h1, hb1, hb1'⟩ := lazy_exists ['|'] (y ++ ']' :: ']' :: b) (by simp) (by simp) x 0
    ((x ++ '|' :: (y ++ ']' :: ']' :: b)).length + 1) hxn (by cases x with | nil => exact absurd rfl hx | cons _ _ => simp)
    (by simp; omega)
  rw [← e0] at h1
  rw [h1]
  simp only
  apply downFrom_isSome
  simp only [Nat.add_zero]
  -- the rest after the first stage
  have hle : used1 ≤ (x ++ ['|']).length := by simpa using hb1
  have d : List.drop (2 + used1) ('[' :: '[' :: (x ++ '|' :: (y ++ ']' :: ']' :: b))) =
      ((x ++ ['|']).drop used1 ++ y) ++ [']', ']'] ++ b := by
    rw [Nat.add_comm 2 used1]
    simp only [List.drop_succ_cons]
    rw [e0, List.drop_append_of_le_length hle]
    simp
  rw [d]
  have hz : '\n' ∉ (x ++ ['|']).drop used1 ++ y := by
    intro hm
    rcases List.mem_append.mp hm with e | e
    · exact mem_drop_snoc x used1 '|' hxn (by decide) e
    · exact hyn e
  obtain ⟨g2, used2, h2, _, _⟩ := lazy_exists [']', ']'] b (by simp) (by simp) ((x ++ ['|']).drop used1 ++ y) 0
    ((((x ++ ['|']).drop used1 ++ y) ++ [']', ']'] ++ b).length + 1) hz
    (by cases y with | nil => exact absurd rfl hy | cons _ _ => simp; omega) (by simp; omega)
  rw [h2]
  rfl
/-- `GithubWiki.find(s)`: the matches of the pattern in `s` (what `findOne … .githubWiki` maps over) -/
def wikiFind (s : Str) : List WikiM := wikiFindAux (s.length + 1) 0 s

theorem wikiFindAux_noW : ∀ (fuel pos : Nat) (s : Str), NoW s → wikiFindAux fuel pos s = []
  | 0, _, _, _ => by simp [wikiFindAux]
  | _ + 1, _, [], _ => by simp [wikiFindAux]
  | fuel + 1, pos, c :: rest, h => by
    have hw : wikiAt (c :: rest) = none := by
      cases hv : wikiAt (c :: rest) with
      | none => rfl
      | some v => exact absurd (declAt_acc _ (wikiAt_sound _ v hv)) h
    simp only [wikiFindAux, hw]
    exact wikiFindAux_noW fuel _ rest (noW_infix rest _ h (List.suffix_cons c rest).isInfix)

theorem wikiFindAux_ne (r : Str) (hr : DeclAt r) : ∀ (a : Str) (fuel pos : Nat), a.length < fuel →
    wikiFindAux fuel pos (a ++ r) ≠ []
  | [], fuel, pos, hf => by
    obtain ⟨f, rfl⟩ : ∃ f, fuel = f + 1 := ⟨fuel - 1, by omega⟩
    have hs := wikiAt_complete r hr
    obtain ⟨x, y, b, rfl, _⟩ := hr
    simp only [List.nil_append, wikiFindAux]
    split
    · simp
    · rename_i hn; rw [hn] at hs; cases hs
  | c :: a, fuel, pos, hf => by
    obtain ⟨f, rfl⟩ : ∃ f, fuel = f + 1 := ⟨fuel - 1, by omega⟩
    simp only [List.cons_append, wikiFindAux]
    split
    · simp
    · exact wikiFindAux_ne r hr a f _ (by simp at hf; omega)

/-- **the model's `GithubWiki.find` returns nothing on `s` exactly when the recogniser rejects `s`**, i.e. exactly when no
    line of `s` has the shape "[[" x "|" y "]]" with `x`, `y` non-empty -/
theorem wikiFind_nil_iff (s : Str) : wikiFind s = [] ↔ NoW s := by
  constructor
  · intro h ha
    obtain ⟨a, r, rfl, hr⟩ := acc_decl s ha
    exact wikiFindAux_ne r hr a _ 0 (by simp; omega) h
  · exact wikiFindAux_noW _ _ s

theorem findOne_githubWiki_noW (s : Str) (core : List Core.CoreM) (codes : List CodeM) (h : NoW s) :
    findOne s core codes .githubWiki = [] := by
  simp [findOne, wikiFindAux_noW _ _ s h]

/-! ## Part 3: the lines of a text, the parse -/

theorem normalize_qw (t : Str) (h : NoW t) : ∀ l ∈ Lines.normalize (.str t), QW l := by
  intro l hl
  simp only [Lines.normalize, List.mem_map] at hl
  obtain ⟨l0, hl0, rfl⟩ := hl
  have h0 : NoW l0 := noW_infix l0 t h (pySplitlines_infix t l0 hl0)
  unfold Lines.complete
  split
  · rename_i he
    exact ⟨h0, Or.inr (endsWithNl_getLast l0 he)⟩
  · refine ⟨?_, Or.inr (by simp)⟩
    unfold NoW
    rw [run_append, run_cons, run_nil]
    have : step (run 0 l0) '\n' = 0 := stepK_nl0 _ h0
    rw [this]; decide

/-- inserting `.githubWiki` anywhere in the span list changes nothing on a text in which the pattern has no match -/
theorem parse_insert_githubWiki_noW (cfg' cfg : Document.Cfg) (pre post : List STok)
    (hb : cfg'.block = cfg.block) (hs' : cfg'.span = pre ++ .githubWiki :: post) (hs : cfg.span = pre ++ post)
    (gas : Nat) (t : Str) (ht : NoW t) : Document.parse cfg' gas t = Document.parse cfg gas t :=
  parse_insert qw_inv cfg' cfg pre post .githubWiki hb hs' hs
    (fun u hu core codes => findOne_githubWiki_noW u core codes hu) gas t (normalize_qw t ht)

/-! ## Part 4: the side conditions as decidable text-level predicates, the theorems -/

/-- first line and remaining lines of `t` split at '\n' (`t.split('\n')`) -/
def linesNl : Str → Str × List Str
  | [] => ([], [])
  | c :: r => if c = '\n' then ([], (linesNl r).1 :: (linesNl r).2) else (c :: (linesNl r).1, (linesNl r).2)

/-- `t.split('\n')` -/
def textLines (t : Str) : List Str := (linesNl t).1 :: (linesNl t).2

/-- **the side condition of C18 for GithubWiki, line by line**: `GithubWiki.pattern` (`\[\[ *(.+?) *\| *(.+?) *\]\]`, as
    modelled by `wikiFindAux`) has no match in any line of the text -/
def noWikiLine (t : Str) : Bool := (textLines t).all (fun l => (wikiFind l).isEmpty)

/-- the same for the text as a whole: `GithubWiki.pattern.search(t) is None` (`.` does not match '\n', so this is the same
    condition: `noWikiLine_eq_noWikiText`) -/
def noWikiText (t : Str) : Bool := (wikiFind t).isEmpty

theorem run_lines : ∀ (t : Str) (q : Fin 8), run q t = 7 → run q (linesNl t).1 = 7 ∨ ∃ l ∈ (linesNl t).2, run 0 l = 7
  | [], _, h => Or.inl h
  | c :: r, q, h => by
    rw [run_cons] at h
    simp only [linesNl]
    split
    · rename_i hc
      subst hc
      by_cases hq : q = 7
      · left; exact hq
      · right
        have e : step q '\n' = 0 := stepK_nl0 q hq
        rw [e] at h
        rcases run_lines r 0 h with h1 | ⟨l, hl, h1⟩
        · exact ⟨_, List.mem_cons_self .., h1⟩
        · exact ⟨l, List.mem_cons_of_mem _ hl, h1⟩
    · rcases run_lines r _ h with h1 | h1
      · left; rw [run_cons]; exact h1
      · right; exact h1

theorem joinNl_lines : ∀ (t : Str), joinNl (textLines t) = t
  | [] => rfl
  | c :: r => by
    have ih := joinNl_lines r
    simp only [textLines, linesNl] at ih ⊢
    split
    · rename_i hc
      subst hc
      simp only [joinNl, List.nil_append, List.singleton_append]
      rw [ih]
    · cases h2 : (linesNl r).2 with
      | nil => rw [h2] at ih; simp only [joinNl] at ih ⊢; rw [ih]
      | cons y ys => rw [h2] at ih; simp only [joinNl] at ih ⊢; simp only [List.cons_append]; rw [ih]

theorem textLines_infix (t : Str) : ∀ l ∈ textLines t, l <:+: t := by
  have key : ∀ (ls : List Str), ∀ l ∈ ls, l <:+: joinNl ls := by
    intro ls
    induction ls with
    | nil => intro l hl; cases hl
    | cons x rest ih =>
      intro l hl
      cases rest with
      | nil =>
        simp only [List.mem_singleton] at hl
        subst hl; exact List.infix_refl _
      | cons y ys =>
        simp only [joinNl]
        rcases List.mem_cons.mp hl with rfl | hl
        · exact ⟨[], ['\n'] ++ joinNl (y :: ys), by simp⟩
        · exact (ih l hl).trans (List.suffix_append _ _).isInfix
  intro l hl
  have := key (textLines t) l hl
  rwa [joinNl_lines] at this

theorem noWikiText_iff (t : Str) : noWikiText t = true ↔ NoW t := by
  simp only [noWikiText, List.isEmpty_iff]
  exact wikiFind_nil_iff t

theorem noWikiLine_iff (t : Str) : noWikiLine t = true ↔ NoW t := by
  simp only [noWikiLine, List.all_eq_true, List.isEmpty_iff, wikiFind_nil_iff]
  constructor
  · intro h ha
    rcases run_lines t 0 ha with h1 | ⟨l, hl, h1⟩
    · exact h _ (List.mem_cons_self ..) h1
    · exact h l (List.mem_cons_of_mem _ hl) h1
  · intro h l hl
    exact noW_infix l t h (textLines_infix t l hl)

/-- scanning line by line and scanning the whole text are the same condition -/
theorem noWikiLine_eq_noWikiText (t : Str) : noWikiLine t = noWikiText t := by
  rw [Bool.eq_iff_iff, noWikiLine_iff, noWikiText_iff]

/-- the condition in words: no line of `t` contains "[[", then a non-empty stretch, then "|", then a non-empty stretch,
    then "]]" -/
theorem noWikiLine_iff_decl (t : Str) : noWikiLine t = true ↔
    ¬ ∃ a x y b, t = a ++ '[' :: '[' :: (x ++ '|' :: (y ++ ']' :: ']' :: b)) ∧ x ≠ [] ∧ y ≠ [] ∧ '\n' ∉ x ∧ '\n' ∉ y := by
  rw [noWikiLine_iff, noW_iff_decl]
  constructor
  · rintro h ⟨a, x, y, b, e, hx⟩
    exact h ⟨a, _, e, x, y, b, rfl, hx⟩
  · rintro h ⟨a, r, e, x, y, b, rfl, hx⟩
    exact h ⟨a, x, y, b, e, hx⟩

/-- the old hypothesis (no "[[" at all) is a special case -/
theorem noWikiLine_of_noBB (t : Str) (h : isInfix ['[', '['] t = false) : noWikiLine t = true := by
  rw [noWikiLine_iff_decl]
  rintro ⟨a, x, y, b, rfl, _⟩
  have : isInfix ['[', '['] (a ++ '[' :: '[' :: (x ++ '|' :: (y ++ ']' :: ']' :: b))) = true :=
    (isInfix_iff _ _).mpr ⟨a, x ++ '|' :: (y ++ ']' :: ']' :: b), by simp⟩
  rw [this] at h; cases h

/-- **C18, GithubWikiRenderer, text level, under the property's own side condition**: if the pattern has no match in any
    line of the text, the parse under GithubWikiRenderer's token lists is the parse under HtmlRenderer's lists -/
theorem C18_githubwiki_same_text_nomatch (cfgW cfgH : Document.Cfg) (hW : Config.githubWiki = some cfgW)
    (hH : Config.html = some cfgH) (gas : Nat) (t : Str) (ht : noWikiLine t = true) :
    Document.parse cfgW gas t = Document.parse cfgH gas t := by
  have h := C18_lists.1
  rw [hW, hH] at h
  obtain ⟨hb, pre, post, hs', hs⟩ := extendsBy_spec _ _ _ h
  exact parse_insert_githubWiki_noW cfgW cfgH pre post hb hs' hs gas t ((noWikiLine_iff t).mp ht)

open Mistletoe.Html in
/-- **C18, GithubWikiRenderer, end to end, under the property's own side condition** -/
theorem C18_githubwiki_same_output_nomatch (o : Opts) (gas : Nat) (t : Str) (ht : noWikiLine t = true) :
    Config.renderContrib Config.githubWiki { o with flavor := .githubWiki } gas t = Config.renderHtml o gas t := by
  obtain ⟨cH, cW, _, _, _, hH, hW, _, _, _⟩ := configs_some
  rw [renderContrib_eq _ cW cH hW hH o .githubWiki gas t (C18_githubwiki_same_text_nomatch cW cH hW hH gas t ht)]
  cases Config.renderHtml o gas t <;> simp [suffix]

open Mistletoe.Html in
/-- the same with the condition on the text as a whole (`GithubWiki.pattern.search(text) is None`) -/
theorem C18_githubwiki_same_output_nosearch (o : Opts) (gas : Nat) (t : Str) (ht : noWikiText t = true) :
    Config.renderContrib Config.githubWiki { o with flavor := .githubWiki } gas t = Config.renderHtml o gas t :=
  C18_githubwiki_same_output_nomatch o gas t (by rw [noWikiLine_eq_noWikiText]; exact ht)
/-! ## Part 5: non-vacuity, sharpness, what is not proved -/

/-- texts with "[[" that the old theorem (`isInfix "[[" t = false`) does not cover and the new one does -/
example : noWikiLine "a [[b c\n".toList = true ∧ isInfix ['[', '['] "a [[b c\n".toList = true := by decide +kernel
example : noWikiLine "x[[1]] y\n".toList = true := by decide +kernel
/-- the pipe outside the brackets: no match (real code: `GithubWiki.pattern.search` is None, both renderers give
    `<p>[[a]] | b</p>`) -/
example : noWikiLine "[[a]] | b\n".toList = true := by decide +kernel
/-- `.+?` needs a character: "[[|b]]" and "[[a|]]" do not match, "[[ |b]]" and "[[a|]]]" do (as `re` does) -/
example : noWikiLine "[[|b]]\n".toList = true ∧ noWikiLine "[[a|]]\n".toList = true ∧
    noWikiLine "[[ |b]]\n".toList = false ∧ noWikiLine "[[a|]]]\n".toList = false := by decide +kernel
/-- `.` does not match a newline: the three parts on different lines of one paragraph / quote / list item are not a match -/
example : noWikiLine "[[a\n|b]]\n".toList = true ∧ noWikiLine "> [[a\n> |b]]\n".toList = true ∧
    noWikiLine "[[a|b]\n]\n".toList = true := by decide +kernel
/-- an escaped pipe in a table cell is still a pipe for the pattern: the condition fails, and the outputs do differ
    (`|[[a\|b]]|` is unescaped to `[[a|b]]` before `tokenize_inner`; real code: `<td align="left"><a href="b">a</a></td>`
    against `<td align="left">[[a|b]]</td>`) -/
example : noWikiLine "|x|\n|-|\n|[[a\\|b]]|\n".toList = false := by decide +kernel

/-- a paragraph, a quote, a list item and a table, every one with "[[" and the table with "[[a|" and "b]]" in different
    cells on different lines -/
def sample2 : Str := "a [[b c\n> x[[1]] y\n\n- [[a]] | b\n\n|[[a|\n|-|\n|b]]|\n".toList

example : noWikiLine sample2 = true ∧ isInfix ['[', '['] sample2 = true := by decide +kernel

/-- the theorem applied to the sample -/
example : Config.renderContrib Config.githubWiki { flavor := .githubWiki } 200 sample2 = Config.renderHtml {} 200 sample2 :=
  C18_githubwiki_same_output_nomatch {} 200 sample2 (by decide +kernel)

/-- … and both sides are the real renderers' output (kernel evaluation of the model):
    `<p>a [[b c</p>`, `<blockquote>` `<p>x[[1]] y</p>`, `<ul><li>[[a]] | b</li>`, the table with `[[a` and `b]]` -/
example : Config.renderHtml {} 200 sample2 = some
    ("<p>a [[b c</p>\n<blockquote>\n<p>x[[1]] y</p>\n</blockquote>\n<ul>\n<li>[[a]] | b</li>\n</ul>\n".toList ++
     "<table>\n<thead>\n<tr>\n<th align=\"left\">[[a</th>\n</tr>\n</thead>\n".toList ++
     "<tbody>\n<tr>\n<td align=\"left\">b]]</td>\n</tr>\n</tbody>\n</table>\n".toList) := by decide +kernel

/-- sharpness: where the condition fails the outputs really differ -/
example : noWikiLine "[[a|b]]\n".toList = false ∧
    Config.renderContrib Config.githubWiki { flavor := .githubWiki } 50 "[[a|b]]\n".toList =
      some "<p><a href=\"b\">a</a></p>\n".toList ∧
    Config.renderHtml {} 50 "[[a|b]]\n".toList = some "<p>[[a|b]]</p>\n".toList := by decide +kernel

/-- the condition is sufficient, not necessary: `.` matches '\r' but `splitlines` cuts the line there, so the pattern
    matches the TEXT and never sees the match in a paragraph (both renderers: `<p>[[a\r\n|b]]</p>`) -/
example : noWikiLine "[[a\r|b]]\n".toList = false ∧
    Config.renderContrib Config.githubWiki { flavor := .githubWiki } 50 "[[a\r|b]]\n".toList =
      Config.renderHtml {} 50 "[[a\r|b]]\n".toList := by decide +kernel

/-! ### MathJax: NOT proved beyond "no '$'"

  `Math.pattern` is `(\${1,2})([^$]+?)\1` and `[^$]` matches a newline, so the natural weaker side condition is global
  ("at most one '$' in the text", or "all '$' of an inline text are adjacent"), not a condition on single lines: two lines
  with one '$' each are harmless in two paragraphs and a match inside one paragraph.  `LineInv` is an invariant of single
  lines closed under concatenation (`flat`, `join`), so it cannot carry "at most one '$' overall"; that needs a proof that
  the block phase uses every input line at most once, which the existing machinery does not provide.  The model agrees
  with the real code on the examples: -/
example : Config.renderContrib Config.mathjax { flavor := .mathjax } 50 "a $ b\n".toList =
      (Config.renderHtml {} 50 "a $ b\n".toList).map (· ++ Gen.RenderMaps.mathjaxSrc) ∧
    Config.renderContrib Config.mathjax { flavor := .mathjax } 50 "5$\n\n6$\n".toList =
      (Config.renderHtml {} 50 "5$\n\n6$\n".toList).map (· ++ Gen.RenderMaps.mathjaxSrc) ∧
    Config.renderContrib Config.mathjax { flavor := .mathjax } 50 "a $x\ny$ b\n".toList =
      some ("<p>a \\(x\ny\\) b</p>\n".toList ++ Gen.RenderMaps.mathjaxSrc) ∧
    Config.renderHtml {} 50 "a $x\ny$ b\n".toList = some "<p>a $x\ny$ b</p>\n".toList := by decide +kernel

end Mistletoe.ContribSame2
