/-
  Lemmas for C14, inline half: text in which no span pattern can fire ("inert text") yields no
  candidate for any span token class, so `tokenize_inner` returns one `RawText` holding exactly the
  text; several such lines joined by "\n" give `RawText, LineBreak(soft), RawText, …`.
-/
import Mistletoe.Model.Inline
import Mistletoe.Model.Document
import Mistletoe.Model.Html
import Mistletoe.Proofs.Span
import Mistletoe.Proofs.Inert
import Mistletoe.Proofs.Lines
namespace Mistletoe.InertInline
open Mistletoe Mistletoe.Py Mistletoe.Scan Mistletoe.InlineScan Mistletoe.Core Mistletoe.Inline

/-! ## (A) no candidates: one RawText -/

theorem tokenize_nil (n : Nat) : Span.tokenize [] n = if n = 0 then [] else [.raw 0 n] := by
  simp only [Span.tokenize, Span.resolve, Span.sortByStart, List.foldr_nil, Span.resolveSorted, List.reverse_nil,
    Span.makeTokensRev]
  by_cases h : n = 0
  · simp [h]
  · have : 0 ≠ n := fun e => h e.symm
    simp [h, this]

theorem tokenizeInner_no_candidates (types : List STok) (fn : Footnotes.Table) (s : Str)
    (h : findAll s types fn = .ok []) (hne : s ≠ []) :
    tokenizeInner types fn s = .ok [.rawText (Unescape.unescape true s)] := by
  unfold tokenizeInner
  rw [h]
  have hl : s.length ≠ 0 := by
    intro e; exact hne (List.eq_nil_of_length_eq_zero e)
  simp only [List.zipIdx_nil, List.map_nil, tokenize_nil, hl, if_false]
  simp only [builds, build, Span.slice_full]

theorem tokenizeInner_no_candidates_nil (types : List STok) (fn : Footnotes.Table)
    (h : findAll [] types fn = .ok []) : tokenizeInner types fn [] = .ok [] := by
  unfold tokenizeInner
  rw [h]
  simp [tokenize_nil, builds]

/-! ## (B) the predicate -/

/-- flanking tests of a delimiter run, in terms of the character before (`b`) and after (`a`) it
    (`' '` at either end of the text), as in `core_tokens.is_left_delimiter` / `is_right_delimiter` -/
def leftFl (b a : Char) : Bool := !uniWs a && (!punct a || punct b || uniWs b)
def rightFl (b a : Char) : Bool := !uniWs b && (!punct b || uniWs a || punct a)
/-- the run of `d`s can close emphasis (`Delimiter.close`) -/
def canClose (d b a : Char) : Bool :=
  if d == '*' then rightFl b a else rightFl b a && (!leftFl b a || (leftFl b a && punct a))

/-- no run of `*` / `_` can close emphasis.  `p` is the character before the text (`' '` at the start);
    a run begins at a `*`/`_` whose predecessor is a different character. -/
def emphOk : Char → Str → Bool
  | _, [] => true
  | p, c :: rest =>
    (if (c == '*' || c == '_') && p != c then
       !canClose c p (((rest.drop (countLeading c rest)).head?).getD ' ') else true)
    && emphOk c rest

/-- after the first `[` there is no `]` -/
def bracketsOk : Str → Bool
  | [] => true
  | c :: rest => if c == '[' then !rest.contains ']' else bracketsOk rest

/-- no `~~` -/
def tildeOk : Str → Bool
  | [] => true
  | c :: rest => !(c == '~' && rest.head? == some '~') && tildeOk rest

/-- every `<` is at the end of the text or followed by a character that can begin neither an
    autolink nor an HTML tag/comment/declaration: anything but ASCII letters, digits and
    ``.!#$%&'*+/=?^_`{|}~-`` -/
def ltNext : Str → Bool
  | [] => true
  | d :: _ => !localChar d
def ltOk : Str → Bool
  | [] => true
  | c :: rest => (c != '<' || ltNext rest) && ltOk rest

/-- `[^\t\n\f <&;]` -/
def refChar (c : Char) : Bool := !(c == '\t' || c == '\n' || c == '\x0c' || c == ' ' || c == '<' || c == '&' || c == ';')

/-- every `&` is followed by a (possibly empty) run of characters other than tab, newline, form feed,
    space, `<`, `&` that is not followed by `;` (so no character reference begins at it) -/
def ampOk : Str → Bool
  | [] => true
  | c :: rest => (c != '&' || (span refChar rest).2.head? != some ';') && ampOk rest

def okChar (c : Char) : Bool := c != '\\' && c != '`'

/-- inert text, newlines allowed -/
def inertBody (s : Str) : Bool :=
  s.all okChar && ltOk s && ampOk s && tildeOk s && bracketsOk s && emphOk ' ' s

/-- inert text on one line -/
def inertText (s : Str) : Bool := inertBody s && !s.contains '\n'

/-! ### the regex scanners find nothing -/

theorem findIterAux_nil (m : Option Char → Str → Option (Nat × Nat × Nat)) (Q : Str → Prop)
    (hstep : ∀ c rest, Q (c :: rest) → Q rest)
    (hm : ∀ prev c rest, Q (c :: rest) → m prev (c :: rest) = none) :
    ∀ (fuel pos : Nat) (prev : Option Char) (s : Str), Q s → findIterAux m fuel pos prev s = []
  | 0, _, _, _, _ => by simp [findIterAux]
  | _ + 1, _, _, [], _ => by simp [findIterAux]
  | fuel + 1, pos, prev, c :: rest, h => by
    simp only [findIterAux, hm prev c rest h]
    exact findIterAux_nil m Q hstep hm fuel (pos + 1) (some c) rest (hstep c rest h)

theorem findIter_nil (m : Option Char → Str → Option (Nat × Nat × Nat)) (Q : Str → Prop)
    (hstep : ∀ c rest, Q (c :: rest) → Q rest)
    (hm : ∀ prev c rest, Q (c :: rest) → m prev (c :: rest) = none) (s : Str) (h : Q s) : findIter m s = [] :=
  findIterAux_nil m Q hstep hm _ _ _ s h

theorem countLeading_ne (ch c : Char) (rest : Str) (h : c ≠ ch) : countLeading ch (c :: rest) = 0 := by
  simp [countLeading, h]

theorem escapeAt_none (prev : Option Char) (c : Char) (rest : Str) (h : c ≠ '\\') : escapeAt prev (c :: rest) = none := by
  unfold escapeAt
  split
  · rename_i heq; simp at heq; exact absurd heq.1 h
  · rfl

theorem lineBreakAt_none (prev : Option Char) (r : Str) (hn : '\n' ∉ r) : lineBreakAt prev r = none := by
  unfold lineBreakAt
  have h1 : (r[countLeading ' ' r]? == some '\n') = false := by
    cases h : r[countLeading ' ' r]? with
    | none => rfl
    | some a =>
      have := List.mem_of_getElem? h
      have : a ≠ '\n' := fun e => hn (e ▸ this)
      simp [this]
  simp only [h1, Bool.false_eq_true, if_false]
  split
  · simp at hn
  · rfl

theorem strikeAt_none (prev : Option Char) (c : Char) (rest : Str) (hc : c ≠ '\\')
    (ht : (c == '~' && rest.head? == some '~') = false) : strikeAt prev (c :: rest) = none := by
  unfold strikeAt
  split
  · rfl
  · simp only [leadingBackslashes, countLeading_ne _ _ _ hc, List.drop_zero]
    split
    · rfl
    · split
      · rename_i heq
        simp at heq
        simp [heq.1, heq.2] at ht
      · rfl

theorem autoLinkBody_none (r : Str) (h : ltNext r = true) : autoLinkBody r = none := by
  unfold autoLinkBody
  cases r with
  | nil => simp [span]
  | cons d r1 =>
    simp only [ltNext, Bool.not_eq_eq_eq_not, Bool.not_true] at h
    have ha : isAlpha d = false := by
      cases hd : isAlpha d with
      | false => rfl
      | true => simp [localChar, isAlnum, hd] at h
    simp [ha, span, h]

theorem autoLinkAt_none (prev : Option Char) (c : Char) (rest : Str) (hc : c ≠ '\\')
    (hl : (c != '<' || ltNext rest) = true) :
    autoLinkAt prev (c :: rest) = none := by
  unfold autoLinkAt
  split
  · rfl
  · simp only [leadingBackslashes, countLeading_ne _ _ _ hc, List.drop_zero]
    split
    · rfl
    · split
      · rename_i heq
        simp only [List.cons.injEq] at heq
        obtain ⟨rfl, rfl⟩ := heq
        simp only [bne_self_eq_false, Bool.false_or] at hl
        rw [autoLinkBody_none _ hl]
      · rfl

theorem localChar_of (d : Char) (h : localChar d = false) :
    isAlpha d = false ∧ d ≠ '/' ∧ d ≠ '!' ∧ d ≠ '?' := by
  refine ⟨?_, ?_, ?_, ?_⟩
  · cases hd : isAlpha d with
    | false => rfl
    | true => simp [localChar, isAlnum, hd] at h
  all_goals (intro e; subst e; revert h; decide)

theorem htmlSpanAt_none (prev : Option Char) (c : Char) (rest : Str)
    (hl : (c != '<' || ltNext rest) = true) : htmlSpanAt prev (c :: rest) = none := by
  have e4 : "<!--".toList = ['<', '!', '-', '-'] := by decide
  have e8 : "<![CDATA".toList = ['<', '!', '[', 'C', 'D', 'A', 'T', 'A'] := by decide
  unfold htmlSpanAt
  split
  · rfl
  · by_cases hc : c = '<'
    · subst hc
      simp only [bne_self_eq_false, Bool.false_or] at hl
      cases rest with
      | nil => simp [openTag, closingTag, commentAt, instructionAt, declarationAt, cdataAt, startsWith, e4, e8]
      | cons d r =>
        simp only [ltNext, Bool.not_eq_eq_eq_not, Bool.not_true] at hl
        obtain ⟨ha, h1, h2, h3⟩ := localChar_of d hl
        simp [openTag, closingTag, commentAt, instructionAt, declarationAt, cdataAt, startsWith, e4, e8, ha, h1, h2, h3,
          Block.isPrefix_ne '!' d _ r h2]
    · simp [openTag, closingTag, commentAt, instructionAt, declarationAt, cdataAt, startsWith, e4, e8, hc,
        Block.isPrefix_ne '<' c _ rest hc]

theorem countLeading_notin (ch : Char) : ∀ (s : Str), ch ∉ s → countLeading ch s = 0
  | [], _ => rfl
  | c :: rest, h => by
    have : c ≠ ch := fun e => h (by simp [e])
    simp [countLeading, this]

theorem codeAt_none (prev : Option Char) (r : Str) (h : '`' ∉ r) : codeAt prev r = none := by
  unfold codeAt
  have : countLeading '`' (r.drop (leadingBackslashes r)) = 0 :=
    countLeading_notin _ _ (fun hm => h (List.mem_of_mem_drop hm))
  simp [this]

theorem codeSearchAux_none : ∀ (fuel pos : Nat) (prev : Option Char) (s : Str), '`' ∉ s → codeSearchAux fuel pos prev s = none
  | 0, _, _, _, _ => by simp [codeSearchAux]
  | _ + 1, _, _, [], _ => by simp [codeSearchAux]
  | fuel + 1, pos, prev, c :: rest, h => by
    simp only [codeSearchAux, codeAt_none prev (c :: rest) h]
    exact codeSearchAux_none fuel (pos + 1) (some c) rest (fun hm => h (List.mem_cons_of_mem _ hm))

theorem codeSearch_none (s : Str) (pos : Nat) (h : '`' ∉ s) : codeSearch s pos = none :=
  codeSearchAux_none _ _ _ _ (fun hm => h (List.mem_of_mem_drop hm))

/-! ### `find_core_tokens` finds nothing -/

theorem slice_head {α} (s : List α) (a b : Nat) (h : a < b) : (slice s a b).head? = s[a]? := by
  unfold slice
  obtain ⟨n, hn⟩ : ∃ n, b - a = n + 1 := ⟨b - a - 1, by omega⟩
  rw [hn, List.head?_take]
  simp

theorem getElem?_at (pre : Str) (c : Char) (rest : Str) : (pre ++ c :: rest)[pre.length]? = some c := by
  simp

theorem getElem?_after (pre : Str) (c : Char) (rest : Str) (k : Nat) :
    (pre ++ c :: rest)[pre.length + 1 + k]? = (rest.drop k).head? := by
  rw [List.getElem?_append_right (by omega)]
  have : pre.length + 1 + k - pre.length = k + 1 := by omega
  rw [this, List.getElem?_cons_succ, List.head?_drop]

theorem getElem?_before (pre suf : Str) :
    (if pre.length > 0 then ((pre ++ suf)[pre.length - 1]?).getD ' ' else ' ') = pre.getLast?.getD ' ' := by
  cases hp : pre.length with
  | zero =>
    have := List.eq_nil_of_length_eq_zero hp
    subst this; rfl
  | succ n =>
    have hlt : pre.length - 1 < pre.length := by omega
    simp only [Nat.zero_lt_succ, if_true, Nat.add_sub_cancel]
    rw [List.getLast?_eq_getElem?, hp, Nat.add_sub_cancel, List.getElem?_append_left (by omega)]

theorem isCloser_at (pre : Str) (c : Char) (rest : Str) (k : Nat) :
    isCloser pre.length (pre.length + 1 + k) (pre ++ c :: rest) =
      canClose c (pre.getLast?.getD ' ') (((rest.drop k).head?).getD ' ') := by
  unfold isCloser isRightDelimiter isLeftDelimiter precededBy succeededBy canClose rightFl leftFl
  rw [getElem?_at, getElem?_after, getElem?_before]
  simp

theorem mkDelim_type (a b : Nat) (s : Str) : (mkDelim a b s).type = slice s a b := rfl

theorem mkDelim_ok_of_closer (a b : Nat) (s : Str) (h : isCloser a b s = false) :
    ((mkDelim a b s).emph && (mkDelim a b s).closes) = false := by
  simp [mkDelim, h]

theorem mkDelim_ok_of_head (a b : Nat) (s : Str) (c : Char) (hab : a < b) (hc : s[a]? = some c)
    (h1 : c ≠ '*') (h2 : c ≠ '_') : ((mkDelim a b s).emph && (mkDelim a b s).closes) = false := by
  simp [mkDelim, slice_head s a b hab, hc, h1, h2]

def isBr (d : Delim) : Bool := d.type == ['['] || d.type == ['!', '[']

theorem lastBracket_none : ∀ (ds : List Delim) (i : Nat), (∀ d ∈ ds, isBr d = false) → lastBracket ds i none = none
  | [], _, _ => rfl
  | d :: rest, i, h => by
    have hd := h d (by simp)
    simp only [isBr] at hd
    simp only [lastBracket, hd, Bool.false_eq_true, if_false]
    exact lastBracket_none rest (i + 1) (fun x hx => h x (List.mem_cons_of_mem _ hx))

theorem findLinkImage_none (s : Str) (i : Nat) (ds : List Delim) (ms : List CoreM) (fn : Footnotes.Table)
    (h : ∀ d ∈ ds, isBr d = false) : findLinkImage s i ds ms fn = .ok (i, ds, ms) := by
  unfold findLinkImage
  rw [lastBracket_none ds 0 h]

theorem nextCloser_go_none : ∀ (ds : List Delim) (i : Nat), (∀ d ∈ ds, (d.emph && d.closes) = false) →
    nextCloser.go ds i = none
  | [], _, _ => rfl
  | d :: rest, i, h => by
    simp only [nextCloser.go, h d (by simp), Bool.false_eq_true, if_false]
    exact nextCloser_go_none rest (i + 1) (fun x hx => h x (List.mem_cons_of_mem _ hx))

theorem processEmphasis_none (s : Str) (ds : List Delim) (ms : List CoreM)
    (h : ∀ d ∈ ds, (d.emph && d.closes) = false) : processEmphasis s none ds ms = .ok ([], ms) := by
  unfold processEmphasis
  have : nextCloser (Option.getD none 0) ds = none := by
    unfold nextCloser
    exact nextCloser_go_none _ _ (by simpa using h)
  rw [this]
  have e : 2 * s.length + 2 * ds.length + 4 = (2 * s.length + 2 * ds.length + 3) + 1 := by omega
  rw [e]
  simp [emphLoop]

structure Inv (s pre suf : Str) (st : FState) : Prop where
  ms : st.ms = []
  codes : st.codes = []
  code : st.code = none
  esc : st.escaped = false
  ds : ∀ d ∈ st.ds, (d.emph && d.closes) = false
  br : ((∀ d ∈ st.ds, isBr d = false) ∧ bracketsOk suf = true) ∨ ']' ∉ suf
  img : st.inImage = true → ∃ ch, pre.getLast? = some ch ∧ ch ≠ '*' ∧ ch ≠ '_'
  em : emphOk (pre.getLast?.getD ' ') suf = true
  runNone : st.inRun = none → pre.getLast?.getD ' ' ≠ '*' ∧ pre.getLast?.getD ' ' ≠ '_'
  runSome : ∀ ch, st.inRun = some ch → (ch = '*' ∨ ch = '_') ∧ pre.getLast? = some ch ∧ st.start < pre.length ∧
      s[st.start]? = some ch ∧ isCloser st.start (pre.length + countLeading ch suf) s = false

theorem em_tail (p c : Char) (rest : Str) (h : emphOk p (c :: rest) = true) : emphOk c rest = true := by
  simp only [emphOk, Bool.and_eq_true] at h; exact h.2

theorem em_head (p c : Char) (rest : Str) (h : emphOk p (c :: rest) = true) (hd : c = '*' ∨ c = '_') (hp : p ≠ c) :
    canClose c p (((rest.drop (countLeading c rest)).head?).getD ' ') = false := by
  simp only [emphOk, Bool.and_eq_true] at h
  have h1 := h.1
  have : (c == '*' || c == '_') = true ∧ (p != c) = true := by
    rcases hd with rfl | rfl <;> simp [hp]
  rw [if_pos this] at h1
  simpa using h1

theorem getLast_snoc (pre : Str) (c : Char) : (pre ++ [c]).getLast? = some c := by simp

theorem br_step (A : Prop) (c : Char) (rest : Str) (h1 : c ≠ '[')
    (h : (A ∧ bracketsOk (c :: rest) = true) ∨ ']' ∉ c :: rest) : (A ∧ bracketsOk rest = true) ∨ ']' ∉ rest := by
  rcases h with ⟨a, b⟩ | b
  · left; refine ⟨a, ?_⟩; simpa [bracketsOk, h1] using b
  · right; exact fun hm => b (List.mem_cons_of_mem _ hm)

theorem br_open (A : Prop) (rest : Str)
    (h : (A ∧ bracketsOk ('[' :: rest) = true) ∨ ']' ∉ '[' :: rest) : ']' ∉ rest := by
  rcases h with ⟨_, b⟩ | b
  · simpa [bracketsOk] using b
  · exact fun hm => b (List.mem_cons_of_mem _ hm)

theorem br_close (A : Prop) (rest : Str)
    (h : (A ∧ bracketsOk (']' :: rest) = true) ∨ ']' ∉ ']' :: rest) : A ∧ bracketsOk rest = true := by
  rcases h with ⟨a, b⟩ | b
  · refine ⟨a, ?_⟩; simpa [bracketsOk] using b
  · exact absurd (List.mem_cons_self ..) b

theorem isBr_of_head (a b : Nat) (s : Str) (ch : Char) (hab : a < b) (hc : s[a]? = some ch)
    (h1 : ch ≠ '[') (h2 : ch ≠ '!') : isBr (mkDelim a b s) = false := by
  have := slice_head s a b hab
  rw [hc] at this
  simp only [isBr, mkDelim_type]
  cases hsl : slice s a b with
  | nil => rfl
  | cons x xs =>
    rw [hsl] at this
    simp only [List.head?_cons, Option.some.injEq] at this
    subst this
    simp [h1, h2]

theorem coreLoop_step (s : Str) (fn : Footnotes.Table) (pre : Str) (c : Char) (rest : Str) (st : FState)
    (hs : s = pre ++ c :: rest) (hc : c ≠ '\\') (hbt : '`' ∉ s) (inv : Inv s pre (c :: rest) st) (fuel : Nat) :
    ∃ st', coreLoop s fn (fuel + 1) pre.length st = coreLoop s fn fuel (pre.length + 1) st' ∧
      Inv s (pre ++ [c]) rest st' := by
  obtain ⟨ds, ms, codes, escaped, inRun, inImage, start, code⟩ := st
  obtain ⟨h1, h2, h3, h4, hds, hbr, himg, hem, hrn, hrs⟩ := inv
  simp only at h1 h2 h3 h4 hds hbr himg hrn hrs
  subst h1 h2 h3 h4
  have hi : s[pre.length]? = some c := by rw [hs]; exact getElem?_at pre c rest
  have hlen : (pre ++ [c]).length = pre.length + 1 := by simp
  have hlast := getLast_snoc pre c
  have hem' := em_tail _ _ _ hem
  cases inRun with
  | none =>
    have hrn := hrn rfl
    by_cases hd : c = '*' ∨ c = '_'
    · have hb1 : c ≠ '[' := by rcases hd with rfl | rfl <;> decide
      have hb2 : c ≠ '!' := by rcases hd with rfl | rfl <;> decide
      have hb3 : c ≠ ']' := by rcases hd with rfl | rfl <;> decide
      have hp : (pre.getLast?.getD ' ') ≠ c := by rcases hd with rfl | rfl; exact hrn.1; exact hrn.2
      have hcl := em_head _ _ _ hem hd hp
      rw [← isCloser_at, ← hs] at hcl
      refine ⟨{ ds := ds, inRun := some c, inImage := false, start := pre.length }, ?_, ?_⟩
      · simp only [coreLoop, hi, hc, hd, hb1, hb2, hb3, Option.isSome_none, Option.isNone_none, Bool.false_and,
          Bool.false_eq_true, if_false, decide_false, Bool.not_false, Bool.and_true, Bool.true_and, if_true,
          Bool.or_eq_true, decide_eq_true_eq]
        cases inImage <;> simp
      · refine ⟨rfl, rfl, rfl, rfl, hds, br_step _ c rest hb1 hbr, by simp, by simpa [hlast] using hem', by simp, ?_⟩
        intro ch hch
        simp only [Option.some.injEq] at hch
        subst hch
        refine ⟨hd, hlast, by show pre.length < (pre ++ [c]).length; omega, hi, ?_⟩
        show isCloser pre.length ((pre ++ [c]).length + countLeading c rest) s = false
        rw [hlen]; exact hcl
    · have hd1 : c ≠ '*' := fun e => hd (Or.inl e)
      have hd2 : c ≠ '_' := fun e => hd (Or.inr e)
      have hrn' : (st' : FState) → st'.inRun = none → ((pre ++ [c]).getLast?.getD ' ' ≠ '*' ∧ (pre ++ [c]).getLast?.getD ' ' ≠ '_') := by
        intro _ _; rw [hlast]; exact ⟨hd1, hd2⟩
      by_cases hb1 : c = '['
      · subst hb1
        have hnr := br_open _ _ hbr
        have hok1 : ((mkDelim pre.length (pre.length + 1) s).emph && (mkDelim pre.length (pre.length + 1) s).closes) = false :=
          mkDelim_ok_of_head _ _ _ '[' (by omega) hi (by decide) (by decide)
        cases inImage with
        | false =>
          refine ⟨{ ds := ds ++ [mkDelim pre.length (pre.length + 1) s], inRun := none, inImage := false, start := start }, ?_, ?_⟩
          · simp [coreLoop, hi, pushDelim]
          · refine ⟨rfl, rfl, rfl, rfl, ?_, Or.inr hnr, by simp, by simpa [hlast] using hem', hrn' _, by simp⟩
            intro d hd'
            rcases List.mem_append.mp hd' with h | h
            · exact hds d h
            · simp only [List.mem_singleton] at h; subst h; exact hok1
        | true =>
          obtain ⟨b, hb, hbn1, hbn2⟩ := himg rfl
          have hpos : 0 < pre.length := by
            cases pre with
            | nil => simp at hb
            | cons _ _ => simp
          have hib : s[pre.length - 1]? = some b := by
            rw [hs, List.getElem?_append_left (by omega), ← List.getLast?_eq_getElem?, hb]
          have hok2 : ((mkDelim (pre.length - 1) (pre.length + 1) s).emph && (mkDelim (pre.length - 1) (pre.length + 1) s).closes) = false :=
            mkDelim_ok_of_head _ _ _ b (by omega) hib hbn1 hbn2
          refine ⟨{ ds := ds ++ [mkDelim (pre.length - 1) (pre.length + 1) s], inRun := none, inImage := false, start := start }, ?_, ?_⟩
          · simp [coreLoop, hi, pushDelim]
          · refine ⟨rfl, rfl, rfl, rfl, ?_, Or.inr hnr, by simp, by simpa [hlast] using hem', hrn' _, by simp⟩
            intro d hd'
            rcases List.mem_append.mp hd' with h | h
            · exact hds d h
            · simp only [List.mem_singleton] at h; subst h; exact hok2
      · by_cases hb2 : c = '!'
        · subst hb2
          refine ⟨{ ds := ds, inRun := none, inImage := true, start := start }, ?_, ?_⟩
          · simp [coreLoop, hi]
          · refine ⟨rfl, rfl, rfl, rfl, hds, br_step _ _ rest hb1 hbr, ?_, by simpa [hlast] using hem', hrn' _, by simp⟩
            intro _; exact ⟨'!', hlast, by decide, by decide⟩
        · by_cases hb3 : c = ']'
          · subst hb3
            have hbc := br_close _ _ hbr
            refine ⟨{ ds := ds, inRun := none, inImage := inImage, start := start }, ?_, ?_⟩
            · simp [coreLoop, hi, findLinkImage_none s pre.length ds [] fn hbc.1, codeSearch_none s pre.length hbt]
            · refine ⟨rfl, rfl, rfl, rfl, hds, Or.inl hbc, ?_, by simpa [hlast] using hem', hrn' _, by simp⟩
              intro _; exact ⟨']', hlast, by decide, by decide⟩
          · refine ⟨{ ds := ds, inRun := none, inImage := false, start := start }, ?_, ?_⟩
            · simp only [coreLoop, hi, hc, hd1, hd2, hb1, hb2, hb3, Option.isSome_none, Option.isNone_none, Bool.false_and,
                Bool.false_eq_true, if_false, decide_false, Bool.not_false, Bool.and_true, if_true,
                Bool.or_self, Bool.and_false]
              cases inImage <;> simp
            · exact ⟨rfl, rfl, rfl, rfl, hds, br_step _ c rest hb1 hbr, by simp, by simpa [hlast] using hem', hrn' _, by simp⟩
  | some ch =>
    obtain ⟨hdel, hlastp, hst, hsa, hcl⟩ := hrs ch rfl
    have hch1 : ch ≠ '[' := by rcases hdel with rfl | rfl <;> decide
    have hch2 : ch ≠ '!' := by rcases hdel with rfl | rfl <;> decide
    have hch3 : ch ≠ ']' := by rcases hdel with rfl | rfl <;> decide
    have himf : inImage = false := by
      cases inImage with
      | false => rfl
      | true =>
        obtain ⟨b, hb, hbn1, hbn2⟩ := himg rfl
        rw [hlastp] at hb
        simp only [Option.some.injEq] at hb
        subst hb
        rcases hdel with h | h
        · exact absurd h hbn1
        · exact absurd h hbn2
    subst himf
    by_cases hcc : c = ch
    · subst hcc
      refine ⟨{ ds := ds, inRun := some c, inImage := false, start := start }, ?_, ?_⟩
      · simp [coreLoop, hi, hc, hch1, hch2, hch3]
      · refine ⟨rfl, rfl, rfl, rfl, hds, br_step _ c rest hch1 hbr, by simp, by simpa [hlast] using hem', by simp, ?_⟩
        intro ch' hch'
        simp only [Option.some.injEq] at hch'
        subst hch'
        refine ⟨hdel, hlast, by show start < (pre ++ [c]).length; omega, hsa, ?_⟩
        have e : (pre ++ [c]).length + countLeading c rest = pre.length + countLeading c (c :: rest) := by
          simp [countLeading]; omega
        show isCloser start ((pre ++ [c]).length + countLeading c rest) s = false
        rw [e]; exact hcl
    · rw [countLeading_ne _ _ _ hcc, Nat.add_zero] at hcl
      have hokD := mkDelim_ok_of_closer _ _ _ hcl
      have hbrD := isBr_of_head start pre.length s ch hst hsa hch1 hch2
      have hds' : ∀ d ∈ ds ++ [mkDelim start pre.length s], (d.emph && d.closes) = false := by
        intro d hd'
        rcases List.mem_append.mp hd' with h | h
        · exact hds d h
        · simp only [List.mem_singleton] at h; subst h; exact hokD
      have hbr' : ((∀ d ∈ ds ++ [mkDelim start pre.length s], isBr d = false) ∧ bracketsOk (c :: rest) = true) ∨ ']' ∉ c :: rest := by
        rcases hbr with ⟨a, b⟩ | b
        · left
          refine ⟨?_, b⟩
          intro d hd'
          rcases List.mem_append.mp hd' with h | h
          · exact a d h
          · simp only [List.mem_singleton] at h; subst h; exact hbrD
        · exact Or.inr b
      have hne : (some c != some ch) = true := by simp [hcc]
      by_cases hd : c = '*' ∨ c = '_'
      · have hb1 : c ≠ '[' := by rcases hd with rfl | rfl <;> decide
        have hb2 : c ≠ '!' := by rcases hd with rfl | rfl <;> decide
        have hb3 : c ≠ ']' := by rcases hd with rfl | rfl <;> decide
        have hp : (pre.getLast?.getD ' ') ≠ c := by rw [hlastp]; exact fun e => hcc e.symm
        have hcl2 := em_head _ _ _ hem hd hp
        rw [← isCloser_at, ← hs] at hcl2
        refine ⟨{ ds := ds ++ [mkDelim start pre.length s], inRun := some c, inImage := false, start := pre.length }, ?_, ?_⟩
        · simp [coreLoop, hi, hc, hd, hb1, hb2, hb3, hne, pushDelim]
        · refine ⟨rfl, rfl, rfl, rfl, hds', br_step _ c rest hb1 hbr', by simp, by simpa [hlast] using hem', by simp, ?_⟩
          intro ch' hch'
          simp only [Option.some.injEq] at hch'
          subst hch'
          refine ⟨hd, hlast, by show pre.length < (pre ++ [c]).length; omega, hi, ?_⟩
          show isCloser pre.length ((pre ++ [c]).length + countLeading c rest) s = false
          rw [hlen]; exact hcl2
      · have hd1 : c ≠ '*' := fun e => hd (Or.inl e)
        have hd2 : c ≠ '_' := fun e => hd (Or.inr e)
        have hrn' : (st' : FState) → st'.inRun = none → ((pre ++ [c]).getLast?.getD ' ' ≠ '*' ∧ (pre ++ [c]).getLast?.getD ' ' ≠ '_') := by
          intro _ _; rw [hlast]; exact ⟨hd1, hd2⟩
        by_cases hb1 : c = '['
        · subst hb1
          have hnr := br_open _ _ hbr
          have hok1 : ((mkDelim pre.length (pre.length + 1) s).emph && (mkDelim pre.length (pre.length + 1) s).closes) = false :=
            mkDelim_ok_of_head _ _ _ '[' (by omega) hi (by decide) (by decide)
          refine ⟨{ ds := ds ++ [mkDelim start pre.length s] ++ [mkDelim pre.length (pre.length + 1) s], inRun := none, inImage := false, start := start }, ?_, ?_⟩
          · simp [coreLoop, hi, hne, pushDelim]
          · refine ⟨rfl, rfl, rfl, rfl, ?_, Or.inr hnr, by simp, by simpa [hlast] using hem', hrn' _, by simp⟩
            intro d hd'
            rcases List.mem_append.mp hd' with h | h
            · exact hds' d h
            · simp only [List.mem_singleton] at h; subst h; exact hok1
        · by_cases hb2 : c = '!'
          · subst hb2
            refine ⟨{ ds := ds ++ [mkDelim start pre.length s], inRun := none, inImage := true, start := start }, ?_, ?_⟩
            · simp [coreLoop, hi, hne, pushDelim]
            · refine ⟨rfl, rfl, rfl, rfl, hds', br_step _ _ rest hb1 hbr', ?_, by simpa [hlast] using hem', hrn' _, by simp⟩
              intro _; exact ⟨'!', hlast, by decide, by decide⟩
          · by_cases hb3 : c = ']'
            · subst hb3
              have hbc := br_close _ _ hbr'
              refine ⟨{ ds := ds ++ [mkDelim start pre.length s], inRun := none, inImage := false, start := start }, ?_, ?_⟩
              · simp [coreLoop, hi, hne, pushDelim, findLinkImage_none s pre.length _ [] fn hbc.1, codeSearch_none s pre.length hbt]
              · exact ⟨rfl, rfl, rfl, rfl, hds', Or.inl hbc, by simp, by simpa [hlast] using hem', hrn' _, by simp⟩
            · refine ⟨{ ds := ds ++ [mkDelim start pre.length s], inRun := none, inImage := false, start := start }, ?_, ?_⟩
              · simp [coreLoop, hi, hc, hd1, hd2, hb1, hb2, hb3, hne, pushDelim]
              · exact ⟨rfl, rfl, rfl, rfl, hds', br_step _ c rest hb1 hbr', by simp, by simpa [hlast] using hem', hrn' _, by simp⟩

theorem coreLoop_inert (s : Str) (fn : Footnotes.Table) (hok : ∀ c ∈ s, c ≠ '\\') (hbt : '`' ∉ s) :
    ∀ (suf pre : Str) (st : FState) (fuel : Nat), s = pre ++ suf → Inv s pre suf st → suf.length < fuel →
      ∃ st', coreLoop s fn fuel pre.length st = .ok (s.length, st') ∧ Inv s s [] st'
  | [], pre, st, fuel, hs, inv, hf => by
    obtain ⟨f, rfl⟩ : ∃ f, fuel = f + 1 := ⟨fuel - 1, by simp at hf; omega⟩
    simp only [List.append_nil] at hs
    subst hs
    refine ⟨st, ?_, inv⟩
    simp [coreLoop]
  | c :: rest, pre, st, fuel, hs, inv, hf => by
    obtain ⟨f, rfl⟩ : ∃ f, fuel = f + 1 := ⟨fuel - 1, by simp at hf; omega⟩
    have hc : c ≠ '\\' := hok c (by rw [hs]; simp)
    obtain ⟨st1, e1, inv1⟩ := coreLoop_step s fn pre c rest st hs hc hbt inv f
    have hs' : s = (pre ++ [c]) ++ rest := by rw [hs]; simp
    obtain ⟨st2, e2, inv2⟩ := coreLoop_inert s fn hok hbt rest (pre ++ [c]) st1 f hs' inv1 (by simp at hf; omega)
    refine ⟨st2, ?_, inv2⟩
    rw [e1]
    have : (pre ++ [c]).length = pre.length + 1 := by simp
    rw [← this]; exact e2

theorem findCoreTokens_inert (s : Str) (fn : Footnotes.Table) (hok : ∀ c ∈ s, c ≠ '\\' ∧ c ≠ '`')
    (hbr : bracketsOk s = true) (hem : emphOk ' ' s = true) : findCoreTokens s fn = .ok ([], []) := by
  have hbt : '`' ∉ s := fun h => (hok _ h).2 rfl
  have inv0 : Inv s [] s { code := codeSearch s 0 } := by
    refine ⟨rfl, rfl, codeSearch_none s 0 hbt, rfl, by simp, Or.inl ⟨by simp, hbr⟩, by simp, hem, ?_, by simp⟩
    intro _; exact ⟨by decide, by decide⟩
  obtain ⟨st, e, inv⟩ := coreLoop_inert s fn (fun c h => (hok c h).1) hbt s [] _ (s.length + 2) rfl inv0 (by omega)
  unfold findCoreTokens
  simp only [List.length_nil] at e
  rw [e]
  simp only [inv.esc, Bool.not_false, if_true]
  have hds : ∀ d ∈ (if st.inRun.isSome then pushDelim st (mkDelim st.start s.length s) else st).ds,
      (d.emph && d.closes) = false := by
    cases hr : st.inRun with
    | none => simpa using inv.ds
    | some ch =>
      obtain ⟨_, _, _, _, hcl⟩ := inv.runSome ch hr
      simp only [countLeading, Nat.add_zero] at hcl
      simp only [Option.isSome_some, if_true, pushDelim]
      intro d hd
      rcases List.mem_append.mp hd with h | h
      · exact inv.ds d h
      · simp only [List.mem_singleton] at h; subst h; exact mkDelim_ok_of_closer _ _ _ hcl
  rw [processEmphasis_none s _ _ hds]
  have hms : (if st.inRun.isSome then pushDelim st (mkDelim st.start s.length s) else st).ms = [] := by
    split <;> simp [pushDelim, inv.ms]
  have hcs : (if st.inRun.isSome then pushDelim st (mkDelim st.start s.length s) else st).codes = [] := by
    split <;> simp [pushDelim, inv.codes]
  simp [hms, hcs]

/-! ### all classes together -/

/-- what the regex scanners need of the text -/
structure ScanOk (s : Str) : Prop where
  ok : ∀ c ∈ s, c ≠ '\\' ∧ c ≠ '`'
  lt : ltOk s = true
  tilde : tildeOk s = true

theorem ScanOk.tail {c : Char} {rest : Str} (h : ScanOk (c :: rest)) : ScanOk rest := by
  obtain ⟨h1, h2, h3⟩ := h
  simp only [ltOk, tildeOk, Bool.and_eq_true] at h2 h3
  exact ⟨fun x hx => h1 x (List.mem_cons_of_mem _ hx), h2.2, h3.2⟩

theorem ScanOk.head_lt {c : Char} {rest : Str} (h : ScanOk (c :: rest)) : (c != '<' || ltNext rest) = true := by
  have := h.lt
  simp only [ltOk, Bool.and_eq_true] at this
  exact this.1

theorem ScanOk.head_tilde {c : Char} {rest : Str} (h : ScanOk (c :: rest)) : (c == '~' && rest.head? == some '~') = false := by
  have := h.tilde
  simp only [tildeOk, Bool.and_eq_true, Bool.not_eq_eq_eq_not, Bool.not_true] at this
  exact this.1

theorem inertBody_parts (s : Str) (h : inertBody s = true) :
    ScanOk s ∧ ampOk s = true ∧ bracketsOk s = true ∧ emphOk ' ' s = true := by
  simp only [inertBody, Bool.and_eq_true, List.all_eq_true] at h
  obtain ⟨⟨⟨⟨⟨h1, h2⟩, h3⟩, h4⟩, h5⟩, h6⟩ := h
  refine ⟨⟨?_, h2, h4⟩, h3, h5, h6⟩
  intro c hc
  have := h1 c hc
  simpa [okChar] using this

/-- the span token classes covered: every class except `Math`, `GithubWiki` and the two XWiki macro
    classes (`XWikiBlockMacroStart` / `XWikiBlockMacroEnd` fire on `{{name}}` lines, which inert text may contain) -/
def inertClass : STok → Bool
  | .math | .githubWiki | .xwikiMacroStart | .xwikiMacroEnd => false
  | _ => true

/-- except for `LineBreak`, no class finds anything in inert text (newlines allowed) -/
theorem findOne_inertBody (s : Str) (h : ScanOk s) (t : STok) (ht : inertClass t = true) (hlb : t ≠ .lineBreak) :
    findOne s [] [] t = [] := by
  cases t with
  | escapeSequence =>
    simp only [findOne, List.map_eq_nil_iff]
    exact findIter_nil _ ScanOk (fun _ _ => ScanOk.tail) (fun p c r hq => escapeAt_none p c r (hq.ok c (by simp)).1) s h
  | htmlSpan =>
    simp only [findOne, List.map_eq_nil_iff]
    exact findIter_nil _ ScanOk (fun _ _ => ScanOk.tail) (fun p c r hq => htmlSpanAt_none p c r hq.head_lt) s h
  | strikethrough =>
    simp only [findOne, List.map_eq_nil_iff]
    exact findIter_nil _ ScanOk (fun _ _ => ScanOk.tail)
      (fun p c r hq => strikeAt_none p c r (hq.ok c (by simp)).1 hq.head_tilde) s h
  | autoLink =>
    simp only [findOne, List.map_eq_nil_iff]
    exact findIter_nil _ ScanOk (fun _ _ => ScanOk.tail)
      (fun p c r hq => autoLinkAt_none p c r (hq.ok c (by simp)).1 hq.head_lt) s h
  | coreTokens => rfl
  | inlineCode => rfl
  | lineBreak => exact absurd rfl hlb
  | math => cases ht
  | githubWiki => cases ht
  | xwikiMacroStart => cases ht
  | xwikiMacroEnd => cases ht

theorem findOne_lineBreak (s : Str) (hn : '\n' ∉ s) : findOne s [] [] .lineBreak = [] := by
  simp only [findOne, List.map_eq_nil_iff]
  exact findIter_nil _ (fun s => '\n' ∉ s) (fun _ _ hq hm => hq (List.mem_cons_of_mem _ hm))
    (fun p c r hq => lineBreakAt_none p (c :: r) hq) s hn

theorem findAll_core (s : Str) (types : List STok) (fn : Footnotes.Table) (h : inertBody s = true) :
    findAll s types fn = .ok (types.flatMap (findOne s [] [])) := by
  obtain ⟨hs, _, hb, he⟩ := inertBody_parts s h
  unfold findAll
  split
  · simp only [findCoreTokens_inert s fn hs.ok hb he]
  · rfl

/-- **inert one-line text yields no candidate** for any list of the covered classes -/
theorem findAll_inert (s : Str) (types : List STok) (fn : Footnotes.Table) (ht : ∀ t ∈ types, inertClass t = true)
    (h : inertText s = true) : findAll s types fn = .ok [] := by
  simp only [inertText, Bool.and_eq_true, Bool.not_eq_eq_eq_not, Bool.not_true, List.contains_eq_mem,
    decide_eq_false_iff_not] at h
  rw [findAll_core s types fn h.1]
  congr 1
  rw [List.flatMap_eq_nil_iff]
  intro t htm
  by_cases hlb : t = .lineBreak
  · subst hlb; exact findOne_lineBreak s h.2
  · exact findOne_inertBody s (inertBody_parts s h.1).1 t (ht t htm) hlb

/-! ### `html.unescape` leaves inert text alone -/

theorem span_eq (p : Char → Bool) : ∀ (r a b : Str), span p r = (a, b) → r = a ++ b ∧ ∀ c ∈ a, p c = true
  | [], a, b, h => by
    simp only [span, Prod.mk.injEq] at h
    obtain ⟨rfl, rfl⟩ := h
    simp
  | c :: rest, a, b, h => by
    simp only [span] at h
    split at h
    · rename_i hp
      obtain ⟨ih1, ih2⟩ := span_eq p rest (span p rest).1 (span p rest).2 rfl
      simp only [Prod.mk.injEq] at h
      obtain ⟨rfl, rfl⟩ := h
      refine ⟨by rw [List.cons_append, ← ih1], ?_⟩
      intro x hx
      rcases List.mem_cons.mp hx with rfl | hx
      · exact hp
      · exact ih2 x hx
    · simp only [Prod.mk.injEq] at h
      obtain ⟨rfl, rfl⟩ := h
      simp

theorem span_append_stop (q : Char → Bool) (d : Char) (hd : q d = false) : ∀ (a b : Str), (∀ c ∈ a, q c = true) →
    span q (a ++ d :: b) = (a, d :: b)
  | [], b, _ => by simp [span, hd]
  | c :: a, b, h => by
    simp [span, h c (by simp), span_append_stop q d hd a b (fun x hx => h x (List.mem_cons_of_mem _ hx))]

/-- if a `p`-run of `r` is followed by `;` and `p ⊆ q`, `q ';' = false`, the `q`-run is the same -/
theorem span_semi (p q : Char → Bool) (hpq : ∀ c, p c = true → q c = true) (hq : q ';' = false) (r : Str)
    (h : (span p r).2.head? = some ';') : (span q r).2.head? = some ';' := by
  obtain ⟨e, ha⟩ := span_eq p r _ _ rfl
  cases hb : (span p r).2 with
  | nil => rw [hb] at h; simp at h
  | cons d b =>
    rw [hb] at h e
    simp only [List.head?_cons, Option.some.injEq] at h
    subst h
    rw [e, span_append_stop q ';' hq _ b (fun c hc => hpq c (ha c hc))]
    rfl

open Mistletoe.Unescape in
theorem refChar_cases (c : Char) (h : refChar c = false) :
    c = '\t' ∨ c = '\n' ∨ c = '\x0c' ∨ c = ' ' ∨ c = '<' ∨ c = '&' ∨ c = ';' := by
  simp only [refChar, Bool.not_eq_eq_eq_not, Bool.not_false, Bool.or_eq_true, beq_iff_eq] at h
  rcases h with (((((h | h) | h) | h) | h) | h) | h <;> simp [h]

open Mistletoe.Unescape in
theorem refChar_of (p : Char → Bool) (hp : p '\t' = false ∧ p '\n' = false ∧ p '\x0c' = false ∧ p ' ' = false ∧
    p '<' = false ∧ p '&' = false ∧ p ';' = false) (c : Char) (h : p c = true) : refChar c = true := by
  cases hr : refChar c with
  | true => rfl
  | false =>
    obtain ⟨h1, h2, h3, h4, h5, h6, h7⟩ := hp
    rcases refChar_cases c hr with rfl | rfl | rfl | rfl | rfl | rfl | rfl <;> simp_all

open Mistletoe.Unescape in
theorem charrefAt_none (r : Str) (h : ((span refChar r).2.head? != some ';') = true) : charrefAt true r = none := by
  have hsemi : ∀ (p : Char → Bool) (r' : Str), (∀ c, p c = true → refChar c = true) →
      ((span refChar r').2.head? != some ';') = true → ((span p r').2.head? == some ';') = false := by
    intro p r' hp hr
    cases hh : ((span p r').2.head? == some ';') with
    | false => rfl
    | true =>
      have := span_semi p refChar hp (by decide) r' (by simpa using hh)
      simp [this] at hr
  have hhex : ∀ c, hexDigitC c = true → refChar c = true := refChar_of _ (by decide)
  have hdig : ∀ c, asciiDigit c = true → refChar c = true := refChar_of _ (by decide)
  have hname : ∀ c, Unescape.nameChar c = true → refChar c = true := refChar_of _ (by decide)
  unfold charrefAt
  split
  · rename_i r1
    have h1 : ((span refChar r1).2.head? != some ';') = true := by
      have : refChar '#' = true := by decide
      simpa [span, this] using h
    split
    · rename_i x r2
      split
      · rename_i hx
        have h2 : ((span refChar r2).2.head? != some ';') = true := by
          have : refChar x = true := by
            simp only [Bool.or_eq_true, beq_iff_eq] at hx
            rcases hx with rfl | rfl <;> decide
          simpa [span, this] using h1
        have := hsemi hexDigitC r2 hhex h2
        simp [this]
      · have := hsemi asciiDigit (x :: r2) hdig h1
        simp [this]
    · rfl
  · have := hsemi Unescape.nameChar r hname h
    simp [this]

open Mistletoe.Unescape in
theorem unescapeAux_inert : ∀ (fuel : Nat) (s : Str), ampOk s = true → unescapeAux true fuel s = s
  | 0, _, _ => rfl
  | _ + 1, [], _ => rfl
  | fuel + 1, c :: rest, h => by
    simp only [ampOk, Bool.and_eq_true, Bool.or_eq_true] at h
    have ih := unescapeAux_inert fuel rest h.2
    simp only [unescapeAux]
    split
    · rename_i hc
      simp only [beq_iff_eq] at hc
      subst hc
      have := charrefAt_none rest (by simpa using h.1)
      rw [this, ih]
    · rw [ih]

/-- `html.unescape` (Markdown character-reference regex) is the identity on text in which no `&`
    begins a character reference -/
theorem unescape_inert (s : Str) (h : ampOk s = true) : Unescape.unescape true s = s :=
  unescapeAux_inert _ s h

/-- **(B)** inert one-line text is tokenized to exactly one `RawText` holding exactly the text -/
theorem tokenizeInner_inert (types : List STok) (fn : Footnotes.Table) (s : Str)
    (ht : ∀ t ∈ types, inertClass t = true) (h : inertText s = true) (hne : s ≠ []) :
    tokenizeInner types fn s = .ok [.rawText s] := by
  rw [tokenizeInner_no_candidates types fn s (findAll_inert s types fn ht h) hne]
  simp only [inertText, Bool.and_eq_true] at h
  rw [unescape_inert s (inertBody_parts s h.1).2.1]

/-! ## (C) several lines: the span resolver on separated, childless candidates -/

open Mistletoe.Span in
/-- candidates in source order, each starting at or after the end of the previous one (and after `lo`) -/
def Sep : Nat → List Span.Cand → Prop
  | _, [] => True
  | lo, c :: cs => lo ≤ c.start ∧ c.start ≤ c.stop ∧ c.inner = false ∧ Sep c.stop cs

/-- `make_tokens` on such a list, left to right: the gap before each token (if non-empty), the token,
    and the final gap -/
def fwdE : Nat → List Span.Cand → Nat → List Span.Out
  | s, [], e => if s ≠ e then [.raw s e] else []
  | s, c :: cs, e => (if c.start > s then [.raw s c.start] else []) ++ [.tok c []] ++ fwdE c.stop cs e

def fwdB : Nat → List Span.Cand → Nat → List Span.Out
  | s, [], upto => if upto > s then [.raw s upto] else []
  | s, c :: cs, upto => (if c.start > s then [.raw s c.start] else []) ++ [.tok c []] ++ fwdB c.stop cs upto

theorem Sep_head_le : ∀ (cs : List Span.Cand) (lo : Nat), Sep lo cs → ∀ c ∈ cs, lo ≤ c.start
  | [], _, _, _, h => by simp at h
  | x :: cs, lo, hs, c, h => by
    obtain ⟨h1, h2, _, h4⟩ := hs
    rcases List.mem_cons.mp h with rfl | h
    · exact h1
    · have := Sep_head_le cs x.stop h4 c h; omega

theorem sortByStart_sep : ∀ (cs : List Span.Cand) (lo : Nat), Sep lo cs → Span.sortByStart cs = cs
  | [], _, _ => rfl
  | c :: cs, lo, hs => by
    obtain ⟨h1, h2, _, h4⟩ := hs
    have ih := sortByStart_sep cs c.stop h4
    simp only [Span.sortByStart, List.foldr_cons] at ih ⊢
    rw [ih]
    cases cs with
    | nil => rfl
    | cons d ds =>
      have := h4.1
      have : c.start ≤ d.start := by omega
      simp [Span.insertByStart, this]

theorem PTok_c_mk (c : Span.Cand) (k : List Span.PTok) : (Span.PTok.mk c k).c = c := rfl

theorem fold_sep : ∀ (cs : List Span.Cand) (acc : List Span.PTok) (lo : Nat),
    (∀ p, acc.head? = some p → p.c.stop ≤ lo) → Sep lo cs →
    (cs.map (fun c => Span.PTok.mk c [])).foldl Span.evalNewChild acc = (cs.map (fun c => Span.PTok.mk c [])).reverse ++ acc
  | [], _, _, _, _ => by simp
  | c :: cs, acc, lo, ha, hs => by
    obtain ⟨h1, h2, _, h4⟩ := hs
    simp only [List.map_cons, List.foldl_cons, List.reverse_cons, List.append_assoc, List.singleton_append]
    have step : Span.evalNewChild acc (Span.PTok.mk c []) = Span.PTok.mk c [] :: acc := by
      cases acc with
      | nil => rfl
      | cons last rest =>
        have hl := ha last rfl
        have : Span.relation last.c (Span.PTok.mk c []).c = 0 := by
          have : last.c.stop ≤ c.start := by omega
          simp [Span.relation, PTok_c_mk, this]
        simp only [Span.evalNewChild, this]
    rw [step]
    exact fold_sep cs _ c.stop (by intro p hp; simp at hp; subst hp; exact Nat.le_refl _) h4

theorem fwdB_snoc : ∀ (cs : List Span.Cand) (s : Nat) (c : Span.Cand) (upto : Nat),
    fwdB s (cs ++ [c]) upto = fwdB s cs c.start ++ [.tok c []] ++ (if upto > c.stop then [.raw c.stop upto] else [])
  | [], s, c, upto => by simp [fwdB]
  | d :: cs, s, c, upto => by
    simp only [List.cons_append, fwdB, fwdB_snoc cs d.stop c upto, List.append_assoc]

theorem fwdE_snoc : ∀ (cs : List Span.Cand) (s : Nat) (c : Span.Cand) (e : Nat),
    fwdE s (cs ++ [c]) e = fwdB s cs c.start ++ [.tok c []] ++ (if c.stop ≠ e then [.raw c.stop e] else [])
  | [], s, c, e => by simp [fwdB, fwdE]
  | d :: cs, s, c, e => by
    simp only [List.cons_append, fwdB, fwdE, fwdE_snoc cs d.stop c e, List.append_assoc]

theorem make_leaf (c : Span.Cand) (h : c.inner = false) : Span.make (.mk c []) = .tok c [] := by
  simp [Span.make, h]

theorem makeBefore_rev (s : Nat) : ∀ (rcs : List Span.Cand) (upto : Nat), (∀ c ∈ rcs, c.inner = false) →
    Span.makeBefore (rcs.map (fun c => Span.PTok.mk c [])) s upto = fwdB s rcs.reverse upto
  | [], upto, _ => by simp [Span.makeBefore, fwdB]
  | c :: rcs, upto, h => by
    have ih := makeBefore_rev s rcs c.start (fun x hx => h x (List.mem_cons_of_mem _ hx))
    simp only [List.map_cons, Span.makeBefore, List.reverse_cons, fwdB_snoc, make_leaf c (h c (by simp)), PTok_c_mk, ih]
    rfl

theorem makeTokensRev_rev (s e : Nat) (cs : List Span.Cand) (h : ∀ c ∈ cs, c.inner = false) :
    Span.makeTokensRev ((cs.map (fun c => Span.PTok.mk c [])).reverse) s e = fwdE s cs e := by
  rw [← List.map_reverse]
  obtain ⟨rcs, hr⟩ : ∃ rcs, rcs = cs.reverse := ⟨_, rfl⟩
  have hcs : cs = rcs.reverse := by rw [hr, List.reverse_reverse]
  rw [← hr, hcs]
  have h' : ∀ c ∈ rcs, c.inner = false := fun c hc => h c (by rw [hcs]; simpa using hc)
  cases rcs with
  | nil => simp [Span.makeTokensRev, fwdE]
  | cons c rcs =>
    simp only [List.map_cons, Span.makeTokensRev, List.reverse_cons, fwdE_snoc,
      make_leaf c (h' c (by simp)), PTok_c_mk, makeBefore_rev s rcs c.start (fun x hx => h' x (List.mem_cons_of_mem _ hx))]
    rfl

theorem Sep_inner : ∀ (cs : List Span.Cand) (lo : Nat), Sep lo cs → ∀ c ∈ cs, c.inner = false
  | [], _, _, _, h => by simp at h
  | x :: cs, lo, hs, c, h => by
    obtain ⟨_, _, h3, h4⟩ := hs
    rcases List.mem_cons.mp h with rfl | h
    · exact h3
    · exact Sep_inner cs x.stop h4 c h

/-- the span resolver on separated childless candidates: gaps and tokens alternate, nothing is dropped -/
theorem tokenize_sep (cs : List Span.Cand) (n : Nat) (h : Sep 0 cs) : Span.tokenize cs n = fwdE 0 cs n := by
  unfold Span.tokenize Span.resolve
  rw [sortByStart_sep cs 0 h, Span.resolveSorted_reverse, fold_sep cs [] 0 (by simp) h, List.append_nil]
  exact makeTokensRev_rev 0 n cs (Sep_inner cs 0 h)

/-! ### `LineBreak.find` on lines joined by "\n" -/

open Mistletoe.Document in
/-- the `LineBreak.pattern` matches in `'\n'.join(ts)` when no line ends in a space or backslash:
    exactly the "\n" characters, each with an empty group 1 -/
def nlMatches : Nat → List Str → List M
  | _, [] => []
  | pos, t :: rest =>
    match rest with
    | [] => []
    | _ :: _ => { start := pos + t.length, stop := pos + t.length + 1, gs := pos + t.length, ge := pos + t.length } ::
        nlMatches (pos + t.length + 1) rest

theorem nl_idx (x : Str) : ∀ (t : Str), t ≠ [] → '\n' ∉ t → t.getLast? ≠ some ' ' →
    ∃ d, (t ++ x)[countLeading ' ' (t ++ x)]? = some d ∧ d ≠ '\n'
  | [], h, _, _ => absurd rfl h
  | [c], _, hn, hl => by
    have hc : c ≠ ' ' := by simpa using hl
    refine ⟨c, by simp [countLeading, hc], fun e => hn (by simp [e])⟩
  | c :: c' :: t, _, hn, hl => by
    by_cases hc : c = ' '
    · subst hc
      obtain ⟨d, h1, h2⟩ := nl_idx x (c' :: t) (by simp) (fun hm => hn (List.mem_cons_of_mem _ hm))
        (by simpa [List.getLast?_cons_cons] using hl)
      refine ⟨d, ?_, h2⟩
      have e : countLeading ' ' (' ' :: (c' :: t ++ x)) = countLeading ' ' (c' :: t ++ x) + 1 := by
        simp [countLeading]
      show (' ' :: (c' :: t ++ x))[countLeading ' ' (' ' :: (c' :: t ++ x))]? = some d
      rw [e, List.getElem?_cons_succ]; exact h1
    · exact ⟨c, by simp [countLeading, hc], fun e => hn (by simp [e])⟩

theorem lineBreakAt_mid (prev : Option Char) (t x : Str) (hne : t ≠ []) (hn : '\n' ∉ t) (hb : '\\' ∉ t)
    (hl : t.getLast? ≠ some ' ') : lineBreakAt prev (t ++ x) = none := by
  obtain ⟨d, h1, h2⟩ := nl_idx x t hne hn hl
  unfold lineBreakAt
  simp only [h1]
  have : (some d == some '\n') = false := by simp [h2]
  simp only [this, Bool.false_eq_true, if_false]
  cases t with
  | nil => exact absurd rfl hne
  | cons c t' =>
    have hc : c ≠ '\\' := fun e => hb (by simp [e])
    split
    · rename_i heq
      simp only [List.cons_append, List.cons.injEq] at heq
      exact absurd heq.1 hc
    · rfl

theorem scanLine (more : Str) (f : Nat) : ∀ (t : Str) (pos : Nat) (prev : Option Char), '\n' ∉ t → '\\' ∉ t →
    (t ≠ [] → t.getLast? ≠ some ' ') →
    findIterAux lineBreakAt (t.length + 1 + f) pos prev (t ++ '\n' :: more) =
      { start := pos + t.length, stop := pos + t.length + 1, gs := pos + t.length, ge := pos + t.length } ::
        findIterAux lineBreakAt f (pos + t.length + 1) (some '\n') more
  | [], pos, prev, _, _, _ => by
    have e : lineBreakAt prev ('\n' :: more) = some (1, 0, 0) := by
      simp [lineBreakAt, countLeading]
    have e2 : ([] : Str).length + 1 + f = f + 1 := by simp; omega
    rw [e2]
    simp [findIterAux, e]
  | c :: t, pos, prev, hn, hb, hl => by
    have hnone := lineBreakAt_mid prev (c :: t) ('\n' :: more) (by simp) hn hb (hl (by simp))
    have e2 : (c :: t).length + 1 + f = (t.length + 1 + f) + 1 := by simp; omega
    rw [e2]
    simp only [List.cons_append] at hnone ⊢
    simp only [findIterAux, hnone]
    rw [scanLine more f t (pos + 1) (some c) (fun hm => hn (List.mem_cons_of_mem _ hm))
      (fun hm => hb (List.mem_cons_of_mem _ hm))
      (by
        intro hne
        cases t with
        | nil => exact absurd rfl hne
        | cons d t' => simpa [List.getLast?_cons_cons] using hl (by simp))]
    simp only [List.length_cons]
    have a1 : pos + 1 + t.length = pos + (t.length + 1) := by omega
    rw [a1]

/-- the shape of a paragraph line: non-empty, no newline or backslash, not ending in a space -/
structure LineOk (t : Str) : Prop where
  ne : t ≠ []
  nl : '\n' ∉ t
  bs : '\\' ∉ t
  sp : t.getLast? ≠ some ' '

open Mistletoe.Document in
theorem joinNl_cons2 (t t' : Str) (rest : List Str) : joinNl (t :: t' :: rest) = t ++ '\n' :: joinNl (t' :: rest) := by
  simp [joinNl]

open Mistletoe.Document in
theorem findIter_lines : ∀ (ts : List Str) (pos : Nat) (prev : Option Char) (f : Nat), (∀ t ∈ ts, LineOk t) →
    findIterAux lineBreakAt ((joinNl ts).length + 1 + f) pos prev (joinNl ts) = nlMatches pos ts
  | [], pos, prev, f, _ => by simp [joinNl, findIterAux, nlMatches]
  | [t], pos, prev, f, h => by
    simp only [joinNl, nlMatches]
    exact findIterAux_nil _ (fun s => '\n' ∉ s) (fun _ _ hq hm => hq (List.mem_cons_of_mem _ hm))
      (fun p c r hq => lineBreakAt_none p (c :: r) hq) _ _ _ t (h t (by simp)).nl
  | t :: t' :: rest, pos, prev, f, h => by
    have ht := h t (by simp)
    rw [joinNl_cons2]
    have e : (t ++ '\n' :: joinNl (t' :: rest)).length + 1 + f = t.length + 1 + ((joinNl (t' :: rest)).length + 1 + f) := by
      simp; omega
    rw [e, scanLine _ _ t pos prev ht.nl ht.bs (fun _ => ht.sp)]
    rw [findIter_lines (t' :: rest) _ _ f (fun x hx => h x (List.mem_cons_of_mem _ hx))]
    simp [nlMatches]

open Mistletoe.Document in
theorem findIter_joinNl (ts : List Str) (h : ∀ t ∈ ts, LineOk t) : findIter lineBreakAt (joinNl ts) = nlMatches 0 ts := by
  have := findIter_lines ts 0 none 0 h
  simpa [findIter] using this

/-! ### assembling (C) -/

/-- the inline tokens of a paragraph of inert lines: the lines as `RawText`, soft `LineBreak`s between -/
def proseInlines : List Str → List Inline
  | [] => []
  | t :: rest =>
    match rest with
    | [] => [.rawText t]
    | _ :: _ => .rawText t :: .lineBreak [] true :: proseInlines rest

def lbCand (k : Nat) (p : M × Nat) : Span.Cand :=
  { start := p.1.start, stop := p.1.stop, pstart := p.1.start, pend := p.1.stop, prec := 5, inner := false, cls := k, ord := p.2 }

theorem flatMap_one {α β} [DecidableEq α] (f : α → List β) (x : α) : ∀ (l : List α), (∀ t ∈ l, t ≠ x → f t = []) →
    l.count x = 1 → l.flatMap f = f x
  | [], _, hc => by simp at hc
  | t :: l, h, hc => by
    by_cases ht : t = x
    · subst ht
      have hc0 : l.count t = 0 := by simpa [List.count_cons] using hc
      have hnot : t ∉ l := List.count_eq_zero.mp hc0
      have : l.flatMap f = [] := by
        rw [List.flatMap_eq_nil_iff]
        intro y hy
        exact h y (List.mem_cons_of_mem _ hy) (fun e => hnot (e ▸ hy))
      simp [List.flatMap_cons, this]
    · have hc' : l.count x = 1 := by
        have : (t == x) = false := by simpa using ht
        simpa [List.count_cons, this] using hc
      rw [List.flatMap_cons, h t (by simp) ht, List.nil_append]
      exact flatMap_one f x l (fun y hy => h y (List.mem_cons_of_mem _ hy)) hc'

theorem builds_append (s : Str) (found : List Found) : ∀ (a b : List Span.Out),
    builds s found (a ++ b) = builds s found a ++ builds s found b
  | [], _ => rfl
  | o :: a, b => by simp [builds, builds_append s found a b]

theorem slice_mid (pre t more : Str) : slice (pre ++ (t ++ more)) pre.length (pre.length + t.length) = t := by
  simp [slice]

theorem build_lb (s : Str) (found : List Found) (c : Span.Cand) (m : M)
    (hf : found[c.ord]? = some (ofRe .lineBreak true m)) (hm : m.gs = m.ge) :
    build s found (.tok c []) = .lineBreak [] true := by
  simp only [build, hf, ofRe, hm, Span.slice_self]
  simp [startsWith]

theorem nlMatches_cons2 (pos : Nat) (t t' : Str) (rest : List Str) :
    nlMatches pos (t :: t' :: rest) =
      { start := pos + t.length, stop := pos + t.length + 1, gs := pos + t.length, ge := pos + t.length } ::
        nlMatches (pos + t.length + 1) (t' :: rest) := by
  simp [nlMatches]

theorem proseInlines_cons2 (t t' : Str) (rest : List Str) :
    proseInlines (t :: t' :: rest) = .rawText t :: .lineBreak [] true :: proseInlines (t' :: rest) := by
  simp [proseInlines]

open Mistletoe.Document in
theorem builds_lines (s : Str) (found : List Found) (cls : Nat) : ∀ (ts : List Str) (pre : Str) (k : Nat),
    s = pre ++ joinNl ts → ts ≠ [] → (∀ t ∈ ts, t ≠ [] ∧ ampOk t = true) →
    (∀ i, k ≤ i → i < k + (nlMatches pre.length ts).length →
      ∃ m, found[i]? = some (ofRe .lineBreak true m) ∧ m.gs = m.ge) →
    builds s found (fwdE pre.length (((nlMatches pre.length ts).zipIdx k).map (lbCand cls)) (pre.length + (joinNl ts).length)) =
      proseInlines ts
  | [], _, _, _, hne, _, _ => absurd rfl hne
  | [t], pre, k, hs, _, ht, _ => by
    obtain ⟨htne, hta⟩ := ht t (by simp)
    have hl : pre.length ≠ pre.length + t.length := by
      have : t.length ≠ 0 := fun e => htne (List.eq_nil_of_length_eq_zero e)
      omega
    have hsl : slice s pre.length (pre.length + t.length) = t := by
      have := slice_mid pre t []
      simpa [hs, joinNl] using this
    simp [nlMatches, fwdE, joinNl, htne, builds, build, hsl, unescape_inert t hta, proseInlines]
  | t :: t' :: rest, pre, k, hs, _, ht, hf => by
    obtain ⟨htne, hta⟩ := ht t (by simp)
    have hpos : pre.length + t.length > pre.length := by
      have : t.length ≠ 0 := fun e => htne (List.eq_nil_of_length_eq_zero e)
      omega
    rw [joinNl_cons2] at hs
    have hsl : slice s pre.length (pre.length + t.length) = t := by
      rw [hs]; exact slice_mid pre t _
    have hs' : s = (pre ++ (t ++ ['\n'])) ++ joinNl (t' :: rest) := by rw [hs]; simp
    have hlen : (pre ++ (t ++ ['\n'])).length = pre.length + t.length + 1 := by simp; omega
    have ih := builds_lines s found cls (t' :: rest) (pre ++ (t ++ ['\n'])) (k + 1) hs' (by simp)
      (fun x hx => ht x (List.mem_cons_of_mem _ hx))
      (by
        intro i hi1 hi2
        refine hf i (by omega) ?_
        rw [nlMatches_cons2]
        rw [hlen] at hi2
        simp only [List.length_cons]; omega)
    rw [hlen] at ih
    obtain ⟨m, hm1, hm2⟩ := hf k (Nat.le_refl _) (by rw [nlMatches_cons2]; simp)
    rw [nlMatches_cons2, List.zipIdx_cons, List.map_cons, joinNl_cons2, proseInlines_cons2]
    have e : pre.length + (t ++ '\n' :: joinNl (t' :: rest)).length = pre.length + t.length + 1 + (joinNl (t' :: rest)).length := by
      simp; omega
    rw [e]
    have hb := build_lb s found (lbCand cls ({ start := pre.length + t.length, stop := pre.length + t.length + 1, gs := pre.length + t.length, ge := pre.length + t.length }, k)) m hm1 hm2
    have hraw : build s found (.raw pre.length (pre.length + t.length)) = .rawText t := by
      simp only [build, hsl, unescape_inert t hta]
    have hst : (lbCand cls ({ start := pre.length + t.length, stop := pre.length + t.length + 1, gs := pre.length + t.length, ge := pre.length + t.length }, k)).stop = pre.length + t.length + 1 := rfl
    have hstart : (lbCand cls ({ start := pre.length + t.length, stop := pre.length + t.length + 1, gs := pre.length + t.length, ge := pre.length + t.length }, k)).start = pre.length + t.length := rfl
    simp only [fwdE, hst, hstart, hpos, if_true, builds_append, builds, hb, hraw, ih]
    rfl

theorem sep_lines (cls : Nat) : ∀ (ts : List Str) (pos k lo : Nat), lo ≤ pos →
    Sep lo (((nlMatches pos ts).zipIdx k).map (lbCand cls))
  | [], _, _, _, _ => by simp [nlMatches, Sep]
  | [t], _, _, _, _ => by simp [nlMatches, Sep]
  | t :: t' :: rest, pos, k, lo, h => by
    rw [nlMatches_cons2, List.zipIdx_cons, List.map_cons]
    refine ⟨?_, ?_, rfl, ?_⟩
    · show lo ≤ pos + t.length; omega
    · show pos + t.length ≤ pos + t.length + 1; omega
    · exact sep_lines cls (t' :: rest) (pos + t.length + 1) (k + 1) _ (Nat.le_refl _)

theorem nlMatches_empty_group : ∀ (ts : List Str) (pos : Nat), ∀ m ∈ nlMatches pos ts, m.gs = m.ge
  | [], _, _, h => by simp [nlMatches] at h
  | [t], _, _, h => by simp [nlMatches] at h
  | t :: t' :: rest, pos, m, h => by
    rw [nlMatches_cons2] at h
    rcases List.mem_cons.mp h with rfl | h
    · rfl
    · exact nlMatches_empty_group (t' :: rest) _ m h

theorem ampOk_append_right : ∀ (a b : Str), ampOk (a ++ b) = true → ampOk b = true
  | [], _, h => h
  | c :: a, b, h => by
    simp only [List.cons_append, ampOk, Bool.and_eq_true] at h
    exact ampOk_append_right a b h.2

theorem span_nl (more : Str) (x : Str) (h : (span refChar x).2.head? = some ';') :
    (span refChar (x ++ '\n' :: more)).2.head? = some ';' := by
  obtain ⟨e, ha⟩ := span_eq refChar x _ _ rfl
  cases hb : (span refChar x).2 with
  | nil => rw [hb] at h; simp at h
  | cons d b =>
    rw [hb] at h e
    simp only [List.head?_cons, Option.some.injEq] at h
    subst h
    have e2 : x ++ '\n' :: more = (span refChar x).1 ++ ';' :: (b ++ '\n' :: more) := by
      conv => lhs; rw [e]
      simp
    rw [e2, span_append_stop refChar ';' (by decide) _ _ ha]
    rfl

theorem ampOk_prefix_nl (more : Str) : ∀ (t : Str), ampOk (t ++ '\n' :: more) = true → ampOk t = true
  | [], _ => rfl
  | c :: t, h => by
    simp only [List.cons_append, ampOk, Bool.and_eq_true, Bool.or_eq_true] at h ⊢
    refine ⟨?_, ampOk_prefix_nl more t h.2⟩
    rcases h.1 with h1 | h1
    · exact Or.inl h1
    · right
      cases hh : ((span refChar t).2.head? != some ';') with
      | true => rfl
      | false =>
        have := span_nl more t (by simpa using hh)
        simp [this] at h1

open Mistletoe.Document in
theorem ampOk_lines : ∀ (ts : List Str), ampOk (joinNl ts) = true → ∀ t ∈ ts, ampOk t = true
  | [], _, _, h => by simp at h
  | [t], h, x, hx => by
    simp only [List.mem_singleton] at hx
    subst hx
    simpa [joinNl] using h
  | t :: t' :: rest, h, x, hx => by
    rw [joinNl_cons2] at h
    rcases List.mem_cons.mp hx with rfl | hx
    · exact ampOk_prefix_nl _ _ h
    · have h2 : ampOk (joinNl (t' :: rest)) = true := by
        have := ampOk_append_right (t ++ ['\n']) (joinNl (t' :: rest)) (by simpa using h)
        exact this
      exact ampOk_lines (t' :: rest) h2 x hx

open Mistletoe.Document in
/-- **(C)** inert lines joined by "\n": each line becomes one `RawText` holding exactly the line,
    with a soft `LineBreak` between consecutive lines -/
theorem tokenizeInner_lines (types : List STok) (fn : Footnotes.Table) (ts : List Str)
    (ht : ∀ t ∈ types, inertClass t = true) (hc : types.count .lineBreak = 1) (hne : ts ≠ [])
    (hl : ∀ t ∈ ts, LineOk t) (hb : inertBody (joinNl ts) = true) :
    tokenizeInner types fn (joinNl ts) = .ok (proseInlines ts) := by
  obtain ⟨hs, ha, _, _⟩ := inertBody_parts _ hb
  have hfm : types.flatMap (findOne (joinNl ts) [] []) = (nlMatches 0 ts).map (ofRe .lineBreak true) := by
    rw [flatMap_one _ .lineBreak types (fun t htm hne => findOne_inertBody _ hs t (ht t htm) hne) hc]
    simp only [findOne, findIter_joinNl ts hl]
  unfold tokenizeInner
  rw [findAll_core _ _ _ hb, hfm]
  simp only
  have hcs : ((nlMatches 0 ts).map (ofRe .lineBreak true)).zipIdx.map (fun (f, i) =>
      ({ start := f.start, stop := f.stop, pstart := f.pstart, pend := f.pend, prec := prec f.cls,
         inner := parseInner f.cls, cls := clsIndex types f.cls, ord := i } : Span.Cand)) =
      ((nlMatches 0 ts).zipIdx 0).map (lbCand (clsIndex types .lineBreak)) := by
    rw [List.zipIdx_map, List.map_map]
    apply List.map_congr_left
    intro ⟨m, i⟩ _
    rfl
  rw [hcs, tokenize_sep _ _ (sep_lines _ ts 0 0 0 (Nat.le_refl _))]
  have := builds_lines (joinNl ts) ((nlMatches 0 ts).map (ofRe .lineBreak true)) (clsIndex types .lineBreak) ts [] 0
    rfl hne (fun t htm => ⟨(hl t htm).ne, ampOk_lines ts ha t htm⟩)
    (by
      intro i _ hi
      simp only [List.length_nil, Nat.zero_add] at hi
      have hm : (nlMatches 0 ts)[i]? = some ((nlMatches 0 ts)[i]) := List.getElem?_eq_getElem hi
      refine ⟨(nlMatches 0 ts)[i], by rw [List.getElem?_map, hm]; rfl, ?_⟩
      exact nlMatches_empty_group ts 0 _ (List.getElem_mem hi))
  simp only [List.length_nil, Nat.zero_add] at this
  rw [this]

/-! ## (D) the paragraph constructor and the HTML renderer -/

/-- the shape `Document.__init__` gives a paragraph line: after the indentation, the text (`strip l`,
    containing no newline) and one final "\n" — no trailing whitespace before it -/
def proseLine (l : Str) : Bool := lstrip l == strip l ++ ['\n'] && !(strip l).contains '\n'

theorem lstrip_head : ∀ (s : Str) (c : Char) (r : Str), lstrip s = c :: r → pyIsSpace c = false
  | [], _, _, h => by simp [lstrip] at h
  | d :: s, c, r, h => by
    simp only [lstrip] at h
    split at h
    · exact lstrip_head s c r h
    · rename_i hd
      simp only [List.cons.injEq] at h
      rw [← h.1]; simpa using hd

theorem lstrip_of_head (c : Char) (r : Str) (h : pyIsSpace c = false) : lstrip (c :: r) = c :: r := by
  simp [lstrip, h]

structure ProseFacts (l : Str) : Prop where
  eq : lstrip l = strip l ++ ['\n']
  ne : strip l ≠ []
  nl : '\n' ∉ strip l
  hd : ∀ c r, strip l = c :: r → pyIsSpace c = false
  last : ∀ c, (strip l).getLast? = some c → pyIsSpace c = false

theorem proseLine_facts (l : Str) (h : proseLine l = true) : ProseFacts l := by
  simp only [proseLine, Bool.and_eq_true, beq_iff_eq, Bool.not_eq_eq_eq_not, Bool.not_true, List.contains_eq_mem,
    decide_eq_false_iff_not] at h
  obtain ⟨h1, h2⟩ := h
  have hne : strip l ≠ [] := by
    intro e
    rw [e] at h1
    have := lstrip_head l '\n' [] (by simpa using h1)
    revert this; decide
  refine ⟨h1, hne, h2, ?_, ?_⟩
  · intro c r e
    rw [e] at h1
    exact lstrip_head l c (r ++ ['\n']) (by simpa using h1)
  · intro c hc
    have e : strip l = (lstrip (lstrip l).reverse).reverse := rfl
    rw [e, List.getLast?_reverse] at hc
    cases hh : lstrip (lstrip l).reverse with
    | nil => rw [hh] at hc; simp at hc
    | cons d r =>
      rw [hh] at hc
      simp only [List.head?_cons, Option.some.injEq] at hc
      subst hc
      exact lstrip_head _ _ _ hh

open Mistletoe.Document in
theorem flatten_nl : ∀ (ts : List Str), ts ≠ [] → (ts.map (· ++ ['\n'])).flatten = joinNl ts ++ ['\n']
  | [], h => absurd rfl h
  | [t], _ => by simp [joinNl]
  | t :: t' :: rest, _ => by
    have ih := flatten_nl (t' :: rest) (by simp)
    rw [joinNl_cons2, List.map_cons, List.flatten_cons, ih]
    simp

open Mistletoe.Document in
theorem joinNl_getLast : ∀ (ts : List Str) (t : Str), ts.getLast? = some t → t ≠ [] → (joinNl ts).getLast? = t.getLast?
  | [], _, h, _ => by simp at h
  | [x], t, h, _ => by
    simp only [List.getLast?_singleton, Option.some.injEq] at h
    subst h; simp [joinNl]
  | x :: x' :: rest, t, h, hne => by
    rw [List.getLast?_cons_cons] at h
    have ih := joinNl_getLast (x' :: rest) t h hne
    rw [joinNl_cons2]
    have hj : joinNl (x' :: rest) ≠ [] := by
      intro e
      rw [e] at ih
      exact hne (List.getLast?_eq_none_iff.mp ih.symm)
    have : x ++ '\n' :: joinNl (x' :: rest) = (x ++ ['\n']) ++ joinNl (x' :: rest) := by simp
    rw [this, List.getLast?_append, ih]
    cases hh : t.getLast? with
    | none => exact absurd (List.getLast?_eq_none_iff.mp hh) hne
    | some d => rfl

theorem rstrip_of_last (x : Str) (h : ∀ c, x.getLast? = some c → pyIsSpace c = false) : rstrip x = x := by
  unfold rstrip
  cases hx : x.reverse with
  | nil => simp [lstrip, List.reverse_eq_nil_iff.mp hx]
  | cons d r =>
    have : x.getLast? = some d := by
      rw [← List.head?_reverse, hx]; rfl
    rw [lstrip_of_head d r (h d this), ← hx, List.reverse_reverse]

open Mistletoe.Document in
/-- `Paragraph.__init__`'s `''.join(line.lstrip() for line in lines).strip()` on lines of that shape is
    the stripped lines joined by "\n" -/
theorem paragraph_content (ls : List Str) (hne : ls ≠ []) (h : ∀ l ∈ ls, proseLine l = true) :
    strip (ls.map lstrip).flatten = joinNl (ls.map strip) := by
  have e1 : ls.map lstrip = (ls.map strip).map (· ++ ['\n']) := by
    rw [List.map_map]
    apply List.map_congr_left
    intro l hl
    exact (proseLine_facts l (h l hl)).eq
  have hne' : ls.map strip ≠ [] := by simpa using hne
  rw [e1, flatten_nl _ hne']
  -- the first character is not whitespace
  obtain ⟨l0, rest, rfl⟩ : ∃ l0 rest, ls = l0 :: rest := by
    cases ls with
    | nil => exact absurd rfl hne
    | cons a b => exact ⟨a, b, rfl⟩
  have f0 := proseLine_facts l0 (h l0 (by simp))
  obtain ⟨c, r, hc⟩ : ∃ c r, strip l0 = c :: r := by
    cases hh : strip l0 with
    | nil => exact absurd hh f0.ne
    | cons a b => exact ⟨a, b, rfl⟩
  have hsp := f0.hd c r hc
  have hhead : ∃ r', joinNl ((l0 :: rest).map strip) = c :: r' := by
    cases rest with
    | nil => exact ⟨r, by simp [joinNl, hc]⟩
    | cons a b => exact ⟨_, by rw [List.map_cons, List.map_cons, joinNl_cons2, hc]; rfl⟩
  obtain ⟨r', hr'⟩ := hhead
  -- the last character is not whitespace
  obtain ⟨ll, hll⟩ : ∃ ll, (l0 :: rest).getLast? = some ll := by
    cases hh : (l0 :: rest).getLast? with
    | none => simp at hh
    | some x => exact ⟨x, rfl⟩
  have fl := proseLine_facts ll (h ll (List.mem_of_getLast? hll))
  have hlast : (joinNl ((l0 :: rest).map strip)).getLast? = (strip ll).getLast? :=
    joinNl_getLast _ _ (by rw [List.getLast?_map, hll]; rfl) fl.ne
  have hstrip : ∀ y, strip y = rstrip (lstrip y) := fun _ => rfl
  rw [hstrip (joinNl _ ++ ['\n'])]
  rw [hr', List.cons_append, lstrip_of_head c _ hsp, ← List.cons_append, ← hr']
  unfold rstrip
  have hnl : pyIsSpace '\n' = true := by decide
  rw [List.reverse_append, List.reverse_singleton, List.singleton_append, lstrip, if_pos hnl]
  exact rstrip_of_last _ (fun d hd => fl.last d (by rw [← hlast]; exact hd))

open Mistletoe.Document in
theorem mem_joinNl : ∀ (ts : List Str) (t : Str), t ∈ ts → ∀ c ∈ t, c ∈ joinNl ts
  | [], _, h, _, _ => by simp at h
  | [x], t, h, c, hc => by
    simp only [List.mem_singleton] at h
    subst h; simpa [joinNl] using hc
  | x :: x' :: rest, t, h, c, hc => by
    rw [joinNl_cons2]
    rcases List.mem_cons.mp h with rfl | h
    · exact List.mem_append_left _ hc
    · exact List.mem_append_right _ (List.mem_cons_of_mem _ (mem_joinNl (x' :: rest) t h c hc))

open Mistletoe.Document in
/-- the stripped lines of a paragraph of `proseLine`s whose joined text is inert have the shape (C) needs -/
theorem lineOk_of_prose (ls : List Str) (h : ∀ l ∈ ls, proseLine l = true)
    (hb : inertBody (joinNl (ls.map strip)) = true) : ∀ t ∈ ls.map strip, LineOk t := by
  intro t ht
  obtain ⟨l, hl, rfl⟩ := List.mem_map.mp ht
  have f := proseLine_facts l (h l hl)
  refine ⟨f.ne, f.nl, ?_, ?_⟩
  · intro hm
    have := ((inertBody_parts _ hb).1.ok '\\' (mem_joinNl _ _ ht _ hm)).1
    exact this rfl
  · intro e
    have := f.last ' ' e
    revert this; decide

open Mistletoe.Document in
/-- **the `Paragraph` constructor on inert lines**: the children are the stripped lines as `RawText`
    with soft `LineBreak`s between them -/
theorem mkBlocks_prose (cfg : Document.Cfg) (fn : Footnotes.Table) (ls : List Str) (ln o : Nat)
    (ht : ∀ t ∈ cfg.span, inertClass t = true) (hc : cfg.span.count .lineBreak = 1) (hne : ls ≠ [])
    (h : ∀ l ∈ ls, proseLine l = true) (hb : inertBody (joinNl (ls.map strip)) = true) :
    mkBlocks cfg fn [.paragraph ls ln o] = .ok [.paragraph (proseInlines (ls.map strip)) ln] := by
  have hin : inl cfg fn (strip (ls.map lstrip).flatten) = .ok (proseInlines (ls.map strip)) := by
    unfold inl
    rw [paragraph_content ls hne h]
    exact tokenizeInner_lines cfg.span fn _ ht hc (by simpa using hne) (lineOk_of_prose ls h hb) hb
  simp only [mkBlocks, mkBlock, hin]

/-! ### rendering -/

open Mistletoe.Html Mistletoe.Escape

theorem escape_append (dq sq : Bool) (a b : Str) :
    escapeHtmlText dq sq (a ++ b) = escapeHtmlText dq sq a ++ escapeHtmlText dq sq b := by
  simp [escapeHtmlText, mapChars]

theorem escape_nl (dq sq : Bool) : escapeHtmlText dq sq ['\n'] = ['\n'] := by
  cases dq <;> cases sq <;> decide

theorem flat_append (a b : List Ev) : flat (a ++ b) = flat a ++ flat b := by simp [flat]

open Mistletoe.Document in
theorem flat_prose (q : Quotes) : ∀ (ts : List Str),
    flat (renderInlines q (proseInlines ts)) = escapeHtmlText q.dq q.sq (joinNl ts)
  | [] => by simp [proseInlines, renderInlines, flat, joinNl, escapeHtmlText, mapChars]
  | [t] => by simp [proseInlines, renderInlines, renderInline, flat, flatEv, joinNl]
  | t :: t' :: rest => by
    have ih := flat_prose q (t' :: rest)
    rw [proseInlines_cons2, joinNl_cons2]
    have e : t ++ '\n' :: joinNl (t' :: rest) = t ++ (['\n'] ++ joinNl (t' :: rest)) := by simp
    rw [e, escape_append, escape_append, escape_nl]
    simp only [renderInlines, renderInline, if_true, flat_append, ih]
    simp [flat, flatEv, nl]

open Mistletoe.Document in
/-- **the HTML of one paragraph of inert lines**: `<p>`, the text HTML-escaped, `</p>` and a newline -/
theorem render_prose (o : Opts) (ts : List Str) (ln : Nat) (fn : List (Str × Str × Str)) :
    render o { kids := [.paragraph (proseInlines ts) ln], footnotes := fn } =
      "<p>".toList ++ escapeHtmlText o.dq o.sq (joinNl ts) ++ "</p>\n".toList := by
  have hp : flat (renderBlock o.q false (.paragraph (proseInlines ts) ln)) =
      "<p>".toList ++ escapeHtmlText o.dq o.sq (joinNl ts) ++ "</p>".toList := by
    simp only [renderBlock, Bool.false_eq_true, if_false, flat_append, flat_prose]
    simp [flat, flatEv, flatAttrs, Opts.q]
  have hne : (flat (renderBlock o.q false (.paragraph (proseInlines ts) ln))).isEmpty = false := by
    rw [hp]; rfl
  have hd : renderDoc o.q { kids := [.paragraph (proseInlines ts) ln], footnotes := fn } =
      renderBlock o.q false (.paragraph (proseInlines ts) ln) ++ [nl] := by
    simp only [renderDoc, renderSep, hne, Bool.false_eq_true, if_false]
  rw [render, hd, flat_append, hp]
  simp [flat, flatEv, nl]

/-! ### small facts for the single-line statement -/

theorem lstrip_idem (s : Str) : lstrip (lstrip s) = lstrip s := by
  cases h : lstrip s with
  | nil => rfl
  | cons c r => exact lstrip_of_head c r (lstrip_head s c r h)

theorem lstrip_nil : ∀ (s : Str), lstrip s = [] → isBlank s = true
  | [], _ => rfl
  | c :: s, h => by
    simp only [lstrip] at h
    split at h
    · rename_i hc
      have := lstrip_nil s h
      simp only [isBlank, List.all_cons, Bool.and_eq_true] at this ⊢
      exact ⟨hc, this⟩
    · cases h

theorem strip_ne_nil (s : Str) (h : isBlank s = false) : strip s ≠ [] := by
  intro e
  have e' : (lstrip (lstrip s).reverse).reverse = [] := e
  have h1 := lstrip_nil _ (List.reverse_eq_nil_iff.mp e')
  have h2 : isBlank (lstrip s) = true := by
    simp only [isBlank, List.all_reverse] at h1 ⊢
    exact h1
  cases hl : lstrip s with
  | nil => rw [lstrip_nil s hl] at h; cases h
  | cons c r =>
    have := lstrip_head s c r hl
    rw [hl] at h2
    simp [isBlank, this] at h2

/-- `Paragraph.__init__`'s content for a single line -/
theorem paragraph_content_one (l : Str) : strip ([l].map lstrip).flatten = strip l := by
  have : strip (lstrip l) = strip l := by
    show rstrip (lstrip (lstrip l)) = rstrip (lstrip l)
    rw [lstrip_idem]
  simpa using this

theorem mkBlocks_prose_line (cfg : Document.Cfg) (fn : Footnotes.Table) (l : Str) (ln o : Nat)
    (ht : ∀ t ∈ cfg.span, inertClass t = true) (hb : isBlank l = false) (h : inertText (strip l) = true) :
    Document.mkBlocks cfg fn [.paragraph [l] ln o] = .ok [.paragraph [.rawText (strip l)] ln] := by
  have hin : Document.inl cfg fn (strip ([l].map lstrip).flatten) = .ok [.rawText (strip l)] := by
    unfold Document.inl
    rw [paragraph_content_one]
    exact tokenizeInner_inert cfg.span fn _ ht h (strip_ne_nil l hb)
  simp only [Document.mkBlocks, Document.mkBlock, hin]

/-- text without `& < > " '` is its own HTML escape -/
theorem escape_plain (dq sq : Bool) (s : Str)
    (h : ∀ c ∈ s, c ≠ '&' ∧ c ≠ '<' ∧ c ≠ '>' ∧ c ≠ '"' ∧ c ≠ '\'') : escapeHtmlText dq sq s = s := by
  have key : ∀ n : Fin 128, Char.ofNat n ≠ '&' → Char.ofNat n ≠ '<' → Char.ofNat n ≠ '>' → Char.ofNat n ≠ '"' →
      Char.ofNat n ≠ '\'' →
      (Gen.Chains.escapeHtmlText_nodq_nosq.getD n [Char.ofNat n] = [Char.ofNat n] ∧
       Gen.Chains.escapeHtmlText_nodq_sq.getD n [Char.ofNat n] = [Char.ofNat n] ∧
       Gen.Chains.escapeHtmlText_dq_nosq.getD n [Char.ofNat n] = [Char.ofNat n] ∧
       Gen.Chains.escapeHtmlText_dq_sq.getD n [Char.ofNat n] = [Char.ofNat n]) := by decide +kernel
  have one : ∀ c ∈ s, escapeHtmlText dq sq [c] = [c] := by
    intro c hc
    obtain ⟨h1, h2, h3, h4, h5⟩ := h c hc
    by_cases hlt : c.toNat < 128
    · have k := key ⟨c.toNat, hlt⟩
      simp only [Char.ofNat_toNat] at k
      obtain ⟨k1, k2, k3, k4⟩ := k h1 h2 h3 h4 h5
      simp only [List.getD_eq_getElem?_getD] at k1 k2 k3 k4
      cases dq <;> cases sq <;> simp [escapeHtmlText, mapChars, hlt, k1, k2, k3, k4]
    · cases dq <;> cases sq <;> simp [escapeHtmlText, mapChars, hlt, ident]
  induction s with
  | nil => simp [escapeHtmlText, mapChars]
  | cons c s ih =>
    have e : c :: s = [c] ++ s := rfl
    rw [e, escape_append, one c (by simp), ih (fun x hx => h x (List.mem_cons_of_mem _ hx))
      (fun x hx => one x (List.mem_cons_of_mem _ hx))]

/-! ## sufficient conditions in plain words -/

/-- characters with no inline meaning anywhere: everything except ``\ ` < & ~ [ * _`` and newline -/
def plainInline (c : Char) : Bool :=
  c != '\\' && c != '`' && c != '<' && c != '&' && c != '~' && c != '[' && c != '*' && c != '_' && c != '\n'

theorem plainInline_of (c : Char) (h : plainInline c = true) :
    c ≠ '\\' ∧ c ≠ '`' ∧ c ≠ '<' ∧ c ≠ '&' ∧ c ≠ '~' ∧ c ≠ '[' ∧ c ≠ '*' ∧ c ≠ '_' ∧ c ≠ '\n' := by
  simpa [plainInline, and_assoc] using h

theorem ltOk_plain : ∀ (s : Str), (∀ c ∈ s, c ≠ '<') → ltOk s = true
  | [], _ => rfl
  | c :: s, h => by simp [ltOk, h c (by simp), ltOk_plain s (fun x hx => h x (List.mem_cons_of_mem _ hx))]

theorem ampOk_plain : ∀ (s : Str), (∀ c ∈ s, c ≠ '&') → ampOk s = true
  | [], _ => rfl
  | c :: s, h => by simp [ampOk, h c (by simp), ampOk_plain s (fun x hx => h x (List.mem_cons_of_mem _ hx))]

theorem tildeOk_plain : ∀ (s : Str), (∀ c ∈ s, c ≠ '~') → tildeOk s = true
  | [], _ => rfl
  | c :: s, h => by simp [tildeOk, h c (by simp), tildeOk_plain s (fun x hx => h x (List.mem_cons_of_mem _ hx))]

theorem bracketsOk_plain : ∀ (s : Str), (∀ c ∈ s, c ≠ '[') → bracketsOk s = true
  | [], _ => rfl
  | c :: s, h => by simp [bracketsOk, h c (by simp), bracketsOk_plain s (fun x hx => h x (List.mem_cons_of_mem _ hx))]

theorem emphOk_plain : ∀ (s : Str) (p : Char), (∀ c ∈ s, c ≠ '*' ∧ c ≠ '_') → emphOk p s = true
  | [], _, _ => rfl
  | c :: s, p, h => by
    simp [emphOk, (h c (by simp)).1, (h c (by simp)).2, emphOk_plain s c (fun x hx => h x (List.mem_cons_of_mem _ hx))]

/-- **text made only of such characters is inert** (letters, digits, spaces, non-ASCII text and
    ``. , ; : ( ) - + = | # > / ' " ^ $ % @ ? ! ] { }``) -/
theorem inertText_of_plain (s : Str) (h : ∀ c ∈ s, plainInline c = true) : inertText s = true := by
  have hp := fun c hc => plainInline_of c (h c hc)
  have hall : s.all okChar = true := by
    rw [List.all_eq_true]; intro c hc
    obtain ⟨h1, h2, _⟩ := hp c hc
    simp [okChar, h1, h2]
  have hnl : s.contains '\n' = false := by
    cases hh : s.contains '\n' with
    | false => rfl
    | true =>
      have := (hp '\n' (by simpa using hh)).2.2.2.2.2.2.2.2
      exact absurd rfl this
  have hnl' : '\n' ∉ s := fun hm => (hp '\n' hm).2.2.2.2.2.2.2.2 rfl
  simp [inertText, inertBody, hall, hnl', ltOk_plain s (fun c hc => (hp c hc).2.2.1),
    ampOk_plain s (fun c hc => (hp c hc).2.2.2.1), tildeOk_plain s (fun c hc => (hp c hc).2.2.2.2.1),
    bracketsOk_plain s (fun c hc => (hp c hc).2.2.2.2.2.1),
    emphOk_plain s ' ' (fun c hc => ⟨(hp c hc).2.2.2.2.2.2.1, (hp c hc).2.2.2.2.2.2.2.1⟩)]

/-- a run of `*` or `_` preceded by whitespace (or at the start of the text) cannot close emphasis -/
theorem canClose_after_space (d b a : Char) (h : uniWs b = true) : canClose d b a = false := by
  simp [canClose, rightFl, h]

/-- an intraword `_` run (neither neighbour is whitespace or punctuation) cannot close emphasis -/
theorem canClose_intraword (b a : Char) (hb1 : uniWs b = false) (hb2 : punct b = false)
    (ha1 : uniWs a = false) (ha2 : punct a = false) : canClose '_' b a = false := by
  simp [canClose, rightFl, leftFl, hb1, hb2, ha1, ha2]

/-! ## all modelled classes, `Math` and `GithubWiki` included -/

/-- no `[[` -/
def wikiOk : Str → Bool
  | [] => true
  | c :: rest => !(c == '[' && rest.head? == some '[') && wikiOk rest

theorem wikiFindAux_nil : ∀ (fuel pos : Nat) (s : Str), wikiOk s = true → wikiFindAux fuel pos s = []
  | 0, _, _, _ => by simp [wikiFindAux]
  | _ + 1, _, [], _ => by simp [wikiFindAux]
  | fuel + 1, pos, c :: rest, h => by
    simp only [wikiOk, Bool.and_eq_true, Bool.not_eq_eq_eq_not, Bool.not_true] at h
    have hw : wikiAt (c :: rest) = none := by
      unfold wikiAt
      have : startsWith ['[', '['] (c :: rest) = false := by
        cases rest with
        | nil => simp [startsWith, List.isPrefixOf]
        | cons d r =>
          have h1 := h.1
          simp only [List.head?_cons, Bool.and_eq_false_imp, beq_iff_eq] at h1
          simp only [startsWith, List.isPrefixOf_cons_cons, List.isPrefixOf_nil_left, Bool.and_true,
            Bool.and_eq_false_imp, beq_iff_eq]
          intro e; subst e
          have := h1 rfl
          cases hh : ('[' == d) with
          | false => rfl
          | true =>
            have e2 : d = '[' := (beq_iff_eq.mp hh).symm
            subst e2
            simp at this
      simp [this]
    simp only [wikiFindAux, hw]
    exact wikiFindAux_nil fuel (pos + 1) rest h.2

theorem mathAt_none (prev : Option Char) (c : Char) (rest : Str) (h : c ≠ '$') : mathAt prev (c :: rest) = none := by
  unfold mathAt
  simp [countLeading_ne _ _ _ h]

/-! ### the two XWiki macro classes on one-line text

  `XWikiBlockMacroStart.pattern` ends in `\s*\n`: without a newline in the text it cannot match.
  `XWikiBlockMacroEnd.pattern` is anchored by `^` (re.MULTILINE): without a newline it can match at
  position 0 only, where it needs `\s*\{\{/`. -/

open Mistletoe.InlineScanX in
theorem wsNlAux_no_nl : ∀ (r : Str) (i : Nat) (last : Option Nat), '\n' ∉ r → wsNlAux r i last = last
  | [], _, _, _ => by simp [wsNlAux]
  | c :: rest, i, last, h => by
    have hc : c ≠ '\n' := fun e => h (by simp [e])
    have hr : '\n' ∉ rest := fun m => h (List.mem_cons_of_mem _ m)
    simp only [wsNlAux]
    split
    · rw [wsNlAux_no_nl rest (i + 1) _ hr]; simp [hc]
    · rfl

open Mistletoe.InlineScanX in
theorem startBody_no_nl : ∀ (r : Str) (i : Nat) (prev : Char), '\n' ∉ r → startBody r i prev = none
  | [], _, _, _ => by simp [startBody]
  | c :: rest, i, prev, h => by
    have hc : c ≠ '\n' := fun e => h (by simp [e])
    have hr : '\n' ∉ rest := fun m => h (List.mem_cons_of_mem _ m)
    have ih := startBody_no_nl rest (i + 1) c hr
    simp only [startBody]
    split
    · rename_i r heq
      split at heq
      · rename_i after
        have ha : '\n' ∉ after := fun m => hr (List.mem_cons_of_mem _ m)
        simp [wsNl, wsNlAux_no_nl after 0 none ha] at heq
      · cases heq
    · simp [hc, ih]

open Mistletoe.InlineScanX in
theorem xwikiStartAt_no_nl (prev : Option Char) (r : Str) (h : '\n' ∉ r) : xwikiStartAt prev r = none := by
  unfold xwikiStartAt
  split
  · rfl
  · split
    · rename_i body
      have hb : '\n' ∉ body := fun m => h (List.mem_cons_of_mem _ (List.mem_cons_of_mem _ m))
      cases hsp : Scan.span isWord body with
      | mk w r1 =>
        have hr1 : '\n' ∉ r1 := by
          intro m
          obtain ⟨e, _⟩ := span_eq isWord body w r1 hsp
          exact hb (by rw [e]; exact List.mem_append_right _ m)
        simp only
        split
        · rfl
        · rw [startBody_no_nl r1 _ _ hr1]
    · rfl

/-- `XWikiBlockMacroStart` finds nothing in a text without newline -/
theorem findOne_xwikiStart (s : Str) (hn : '\n' ∉ s) : findOne s [] [] .xwikiMacroStart = [] := by
  simp only [findOne, List.map_eq_nil_iff]
  exact findIter_nil _ (fun s => '\n' ∉ s) (fun _ _ hq hm => hq (List.mem_cons_of_mem _ hm))
    (fun p c r hq => xwikiStartAt_no_nl p (c :: r) hq) s hn

/-- the text does not begin with `\s*\{\{/` (the only place where `XWikiBlockMacroEnd` can fire on one-line text) -/
def xmacroOk (s : Str) : Bool :=
  match (Scan.span pyIsSpace s).2 with
  | '{' :: '{' :: '/' :: _ => false
  | _ => true

open Mistletoe.InlineScanX in
theorem xwikiEndAt_mid (c : Char) (r : Str) (h : c ≠ '\n') : xwikiEndAt (some c) r = none := by
  unfold xwikiEndAt
  simp [h]

open Mistletoe.InlineScanX in
theorem xwikiEndAt_head (s : Str) (h : xmacroOk s = true) : xwikiEndAt none s = none := by
  unfold xwikiEndAt
  unfold xmacroOk at h
  cases hsp : Scan.span pyIsSpace s with
  | mk ws r1 =>
    rw [hsp] at h
    simp only at h ⊢
    split
    · rename_i h0; simp at h0
    · split
      · simp at h
      · rfl

open Mistletoe.InlineScanX in
theorem findIterAux_xwikiEnd_mid : ∀ (fuel pos : Nat) (p : Char) (s : Str), p ≠ '\n' → '\n' ∉ s →
    findIterAux xwikiEndAt fuel pos (some p) s = []
  | 0, _, _, _, _, _ => by simp [findIterAux]
  | _ + 1, _, _, [], _, _ => by simp [findIterAux]
  | fuel + 1, pos, p, c :: rest, hp, h => by
    have hc : c ≠ '\n' := fun e => h (by simp [e])
    have hr : '\n' ∉ rest := fun m => h (List.mem_cons_of_mem _ m)
    simp only [findIterAux, xwikiEndAt_mid p (c :: rest) hp]
    exact findIterAux_xwikiEnd_mid fuel (pos + 1) c rest hc hr

/-- `XWikiBlockMacroEnd` finds nothing in a text without newline that does not begin with `\s*\{\{/` -/
theorem findOne_xwikiEnd (s : Str) (hn : '\n' ∉ s) (hx : xmacroOk s = true) : findOne s [] [] .xwikiMacroEnd = [] := by
  simp only [findOne, List.map_eq_nil_iff]
  unfold findIter
  cases s with
  | nil => simp [findIterAux]
  | cons c rest =>
    have hc : c ≠ '\n' := fun e => hn (by simp [e])
    have hr : '\n' ∉ rest := fun m => hn (List.mem_cons_of_mem _ m)
    simp only [List.length_cons, findIterAux, xwikiEndAt_head (c :: rest) hx]
    exact findIterAux_xwikiEnd_mid _ _ c rest hc hr

/-- with no `$`, no `[[` and no leading `{{/` in the text, `Math`, `GithubWiki` and the XWiki macro classes find
    nothing either: every class.  (`hx` is needed: under a token list with `XWikiBlockMacroEnd` the inert text
    `{{/info}}` is one `XWikiBlockMacroEnd` token, in the model as in the code.) -/
theorem findAll_inert_all (s : Str) (types : List STok) (fn : Footnotes.Table)
    (h : inertText s = true) (hd : '$' ∉ s) (hw : wikiOk s = true) (hx : xmacroOk s = true) : findAll s types fn = .ok [] := by
  have h' := h
  simp only [inertText, Bool.and_eq_true, Bool.not_eq_eq_eq_not, Bool.not_true, List.contains_eq_mem,
    decide_eq_false_iff_not] at h
  rw [findAll_core s types fn h.1]
  congr 1
  rw [List.flatMap_eq_nil_iff]
  intro t _
  by_cases hm : t = .math
  · subst hm
    simp only [findOne, List.map_eq_nil_iff]
    exact findIter_nil _ (fun s => '$' ∉ s) (fun _ _ hq hm => hq (List.mem_cons_of_mem _ hm))
      (fun p c r hq => mathAt_none p c r (fun e => hq (by simp [e]))) s hd
  · by_cases hg : t = .githubWiki
    · subst hg
      simp only [findOne, List.map_eq_nil_iff]
      exact wikiFindAux_nil _ _ s hw
    · by_cases hlb : t = .lineBreak
      · subst hlb; exact findOne_lineBreak s h.2
      · by_cases hxs : t = .xwikiMacroStart
        · subst hxs; exact findOne_xwikiStart s h.2
        · by_cases hxe : t = .xwikiMacroEnd
          · subst hxe; exact findOne_xwikiEnd s h.2 hx
          · refine findOne_inertBody s (inertBody_parts s h.1).1 t ?_ hlb
            cases t <;> simp_all [inertClass]

theorem tokenizeInner_inert_all (types : List STok) (fn : Footnotes.Table) (s : Str)
    (h : inertText s = true) (hd : '$' ∉ s) (hw : wikiOk s = true) (hx : xmacroOk s = true) (hne : s ≠ []) :
    tokenizeInner types fn s = .ok [.rawText s] := by
  rw [tokenizeInner_no_candidates types fn s (findAll_inert_all s types fn h hd hw hx) hne]
  simp only [inertText, Bool.and_eq_true] at h
  rw [unescape_inert s (inertBody_parts s h.1).2.1]

/-- the hypothesis `xmacroOk` cannot be dropped: the inert text `{{/info}}` is one macro token -/
example : inertText "{{/info}}".toList = true ∧ !"{{/info}}".toList.contains '$' ∧ wikiOk "{{/info}}".toList = true ∧
    (match tokenizeInner [.xwikiMacroEnd] [] "{{/info}}".toList with
     | .ok [.xwikiMacroEnd c] => c == "{{/info}}".toList
     | _ => false) = true := by decide +kernel

/-! ## `Document(text)` for a `str` made of "\n"-terminated lines -/

/-- a line as `str.splitlines(keepends=True)` returns it: ends in "\n", no other line boundary character -/
def oneLine (l : Str) : Bool := l.getLast? == some '\n' && l.dropLast.all (fun c => !isLineSep c)

open Mistletoe.Lines in
theorem splitlinesAux_cons (c : Char) (rest acc : Str) (h : c ≠ '\r') :
    splitlinesAux (c :: rest) acc =
      if isLineSep c then (c :: acc).reverse :: splitlinesAux rest [] else splitlinesAux rest (c :: acc) := by
  conv => lhs; rw [splitlinesAux.eq_def]
  simp [h]

open Mistletoe.Lines in
theorem splitlines_line (more : Str) : ∀ (body acc : Str), (∀ c ∈ body, isLineSep c = false) →
    splitlinesAux (body ++ '\n' :: more) acc = (acc.reverse ++ body ++ ['\n']) :: splitlinesAux more []
  | [], acc, _ => by
    have h2 : isLineSep '\n' = true := by decide
    rw [List.nil_append, splitlinesAux_cons _ _ _ (by decide), h2]
    simp
  | c :: body, acc, h => by
    have hc := h c (by simp)
    have h1 : c ≠ '\r' := by intro e; subst e; revert hc; decide
    rw [List.cons_append, splitlinesAux_cons _ _ _ h1, hc]
    simp only [Bool.false_eq_true, if_false]
    rw [splitlines_line more body (c :: acc) (fun x hx => h x (List.mem_cons_of_mem _ hx))]
    simp

open Mistletoe.Lines in
/-- **`Document.__init__` on such a text recovers exactly the lines** -/
theorem normalize_lines : ∀ (ls : List Str), (∀ l ∈ ls, oneLine l = true) → normalize (.str ls.flatten) = ls
  | [], _ => by simp [normalize, pySplitlines, splitlinesAux]
  | l :: rest, h => by
    have ih := normalize_lines rest (fun x hx => h x (List.mem_cons_of_mem _ hx))
    have hl := h l (by simp)
    simp only [oneLine, Bool.and_eq_true, beq_iff_eq, List.all_eq_true, Bool.not_eq_eq_eq_not, Bool.not_true] at hl
    obtain ⟨body, rfl⟩ := List.getLast?_eq_some_iff.mp hl.1
    have hb : ∀ c ∈ body, isLineSep c = false := by simpa using hl.2
    simp only [normalize, pySplitlines] at ih ⊢
    rw [List.flatten_cons, List.append_assoc, List.singleton_append, splitlines_line _ _ [] hb]
    simp only [List.reverse_nil, List.nil_append, List.map_cons, ih]
    have : complete (body ++ ['\n']) = body ++ ['\n'] := by
      unfold complete
      rw [endsWithNl_snoc]; rfl
    rw [this]

theorem parse_lines (cfg : Document.Cfg) (gas : Nat) (ls : List Str) (h : ∀ l ∈ ls, oneLine l = true) :
    Document.parse cfg gas ls.flatten = Document.parseLines cfg gas ls := by
  unfold Document.parse
  rw [normalize_lines ls h]

end Mistletoe.InertInline
