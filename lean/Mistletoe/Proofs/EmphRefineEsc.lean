/-
  The model of `core_tokens.find_core_tokens` refines the specification of emphasis with backslash
  escapes (Spec/EmphasisEsc.lean: CommonMark 0.30 sections 2.4 and 6.2, and *process emphasis*).

  The second half of Proofs/EmphRefine.lean (`processEmphasisNB_spec`: `process_emphasis` computes
  *process emphasis* of the specification on any stack of non-empty entries in text order) is used
  as it is.  What is new is the first half: on a text with backslashes the character loop pushes
  exactly one `Delimiter` per delimiter run of the specification (`coreLoopNB_esc`), where the
  invariant now carries the `escaped` flag of the loop.
-/
import Mistletoe.Proofs.EmphRefine
import Mistletoe.Spec.EmphasisEsc
namespace Mistletoe.EmphRefineEsc
open Mistletoe Mistletoe.Py Mistletoe.Scan Mistletoe.InlineScan Mistletoe.Core Mistletoe.Spec Mistletoe.EmphRefine
open Mistletoe.Spec.EmphasisEsc
set_option linter.unusedVariables false

/-! ### the delimiter characters of a text, computed with the loop's own flag -/

/-- `delims` with the escape flag threaded through: after an unescaped backslash the next character
    is never a delimiter character, whether it is punctuation (escaped) or not (then it is neither
    `*` nor `_`) -/
def delimsFrom : Bool → Str → List (Option Char)
  | _, [] => []
  | true, _ :: rest => none :: delimsFrom false rest
  | false, c :: rest => (if Emphasis.isDelimChar c then some c else none) :: delimsFrom (c == '\\') rest

theorem delim_is_punct (c : Char) (h : Emphasis.isDelimChar c = true) : isAsciiPunctuation c = true := by
  simp only [Emphasis.isDelimChar, Bool.or_eq_true, beq_iff_eq] at h
  rcases h with rfl | rfl <;> decide

theorem delims_from : ∀ (s : Str) (b : Bool), List.zipWith delimOf s (escMarks b s) = delimsFrom b s
  | [], b => by cases b <;> rfl
  | c :: rest, true => by
    simp only [escMarks, List.zipWith_cons_cons, delimsFrom, delims_from rest false]
    congr 1
    unfold delimOf
    cases hd : Emphasis.isDelimChar c with
    | false => simp
    | true => simp [delim_is_punct c hd]
  | c :: rest, false => by
    simp only [escMarks, List.zipWith_cons_cons, delimsFrom, delims_from rest (c == '\\')]
    congr 1
    unfold delimOf
    simp

theorem delims_eq (s : Str) : delims s = delimsFrom false s := delims_from s false

theorem delimsFrom_get : ∀ (s : Str) (b : Bool) (i : Nat) (c : Char), (delimsFrom b s)[i]? = some (some c) →
    s[i]? = some c ∧ Emphasis.isDelimChar c = true
  | [], b, i, c, h => by cases b <;> simp [delimsFrom] at h
  | d :: rest, true, 0, c, h => by simp [delimsFrom] at h
  | d :: rest, true, i + 1, c, h => by
    simp only [delimsFrom, List.getElem?_cons_succ] at h ⊢
    exact delimsFrom_get rest false i c h
  | d :: rest, false, 0, c, h => by
    simp only [delimsFrom, List.getElem?_cons_zero, Option.some.injEq] at h ⊢
    split at h
    · rename_i hd; cases h; exact ⟨rfl, hd⟩
    · cases h
  | d :: rest, false, i + 1, c, h => by
    simp only [delimsFrom, List.getElem?_cons_succ] at h ⊢
    exact delimsFrom_get rest _ i c h

/-! ### the delimiter runs -/

theorem countRunD_get (c : Char) : ∀ (l : List (Option Char)) (k : Nat), k < countRunD c l → l[k]? = some (some c)
  | [], k, h => by simp [countRunD] at h
  | none :: rest, k, h => by simp [countRunD] at h
  | some d :: rest, k, h => by
    simp only [countRunD] at h
    split at h
    · rename_i hdc; subst hdc
      cases k with
      | zero => rfl
      | succ k => simp only [List.getElem?_cons_succ]; exact countRunD_get d rest k (by omega)
    · omega

/-- every run found lies at or after `pos`, is not empty, and the sequence holds that many copies
    of the delimiter character there -/
theorem runSpansD_spec : ∀ (l : List (Option Char)) (prev : Option Char) (pos : Nat) (r : Char × Nat × Nat),
    r ∈ runSpansD prev pos l →
    pos ≤ r.2.1 ∧ 1 ≤ r.2.2 ∧ ∀ k, k < r.2.2 → l[r.2.1 - pos + k]? = some (some r.1)
  | [], _, _, _, h => by simp [runSpansD] at h
  | x :: rest, prev, pos, r, h => by
    have hrec : ∀ p, r ∈ runSpansD p (pos + 1) rest →
        pos ≤ r.2.1 ∧ 1 ≤ r.2.2 ∧ ∀ k, k < r.2.2 → (x :: rest)[r.2.1 - pos + k]? = some (some r.1) := by
      intro p h'
      obtain ⟨h1, h2, h3⟩ := runSpansD_spec rest p (pos + 1) r h'
      refine ⟨by omega, h2, fun k hk => ?_⟩
      have : r.2.1 - pos + k = (r.2.1 - (pos + 1) + k) + 1 := by omega
      rw [this, List.getElem?_cons_succ]
      exact h3 k hk
    cases x with
    | none => simp only [runSpansD] at h; exact hrec _ h
    | some c =>
      simp only [runSpansD] at h
      split at h
      · rcases List.mem_cons.1 h with rfl | h
        · refine ⟨Nat.le_refl _, Nat.le_add_left _ _, fun k hk => ?_⟩
          simp only [Nat.sub_self, Nat.zero_add]
          cases k with
          | zero => rfl
          | succ k => simp only [List.getElem?_cons_succ]; exact countRunD_get c rest k (by simp only at hk; omega)
        · exact hrec _ h
      · exact hrec _ h

theorem runSpansD_lb : ∀ (l : List (Option Char)) (prev : Option Char) (pos : Nat) (r : Char × Nat × Nat),
    r ∈ runSpansD prev pos l → pos ≤ r.2.1 := fun l prev pos r h => (runSpansD_spec l prev pos r h).1

/-- after a delimiter character `c`, the next runs start after the copies of `c` that follow -/
theorem runSpansD_after : ∀ (rest : List (Option Char)) (c : Char) (pos : Nat) (r : Char × Nat × Nat),
    r ∈ runSpansD (some c) pos rest → pos + countRunD c rest ≤ r.2.1
  | [], _, _, _, h => by simp [runSpansD] at h
  | none :: rest, c, pos, r, h => by
    have := runSpansD_lb _ _ _ r h
    simp only [countRunD]; omega
  | some d :: rest, c, pos, r, h => by
    by_cases hdc : d = c
    · subst hdc
      simp only [runSpansD, bne_self_eq_false, Bool.false_eq_true, if_false] at h
      have := runSpansD_after rest d (pos + 1) r h
      simp only [countRunD, if_true]; omega
    · have := runSpansD_lb _ _ _ r h
      simp only [countRunD, hdc, if_false]; omega

/-- the runs are disjoint and in text order -/
theorem runSpansD_sorted : ∀ (l : List (Option Char)) (prev : Option Char) (pos : Nat),
    (runSpansD prev pos l).Pairwise (fun r1 r2 => r1.2.1 + r1.2.2 ≤ r2.2.1)
  | [], _, _ => by simp [runSpansD]
  | none :: rest, prev, pos => by simp only [runSpansD]; exact runSpansD_sorted rest _ _
  | some c :: rest, prev, pos => by
    simp only [runSpansD]
    split
    · refine List.pairwise_cons.2 ⟨fun r hr => ?_, runSpansD_sorted rest _ _⟩
      have := runSpansD_after rest c (pos + 1) r hr
      simp only; omega
    · exact runSpansD_sorted rest _ _

/-- what a run of the specification is, in terms of the text: a delimiter character, not empty,
    and the text holds that many copies of the character there -/
theorem runSpansEsc_spec (s : Str) (r : Char × Nat × Nat) (hr : r ∈ runSpansEsc s) :
    Emphasis.isDelimChar r.1 = true ∧ 1 ≤ r.2.2 ∧ s[r.2.1]? = some r.1 ∧
      slice s r.2.1 (r.2.1 + r.2.2) = List.replicate r.2.2 r.1 := by
  unfold runSpansEsc at hr
  rw [delims_eq] at hr
  obtain ⟨_, h2, h3⟩ := runSpansD_spec _ _ _ r hr
  simp only [Nat.sub_zero] at h3
  have hk : ∀ k, k < r.2.2 → s[r.2.1 + k]? = some r.1 := fun k hk => (delimsFrom_get s false _ r.1 (h3 k hk)).1
  have h0 := delimsFrom_get s false _ r.1 (h3 0 (by omega))
  simp only [Nat.add_zero] at h0
  refine ⟨h0.2, h2, h0.1, ?_⟩
  have hlast := hk (r.2.2 - 1) (by omega)
  have hlen : r.2.1 + (r.2.2 - 1) < s.length := (List.getElem?_eq_some_iff.1 hlast).1
  have := slice_eq_replicate s r.2.1 (r.2.1 + r.2.2) r.1 (by omega) (fun k h1 h2 => by
    have := hk (k - r.2.1) (by omega)
    rwa [show r.2.1 + (k - r.2.1) = k by omega] at this)
  rwa [Nat.add_sub_cancel_left] at this

/-! ### the character loop of `find_core_tokens` on a text with backslashes -/

/-- one iteration at a backslash that is not escaped: only the flag changes (the delimiter run in
    progress, if any, stays pending) -/
theorem coreLoopNB_bs (s : Str) (fn : Footnotes.Table) (fuel i : Nat) (st : FState)
    (hc : s[i]? = some '\\') (hcode : st.code = none) (hesc : st.escaped = false) :
    coreLoopNB s fn (fuel + 1) i st = coreLoopNB s fn fuel (i + 1) { st with escaped := true } := by
  obtain ⟨ds, ms, codes, escaped, inRun, inImage, start, code⟩ := st
  simp only at hesc hcode
  subst hesc hcode
  rw [coreLoopNB]
  simp only [hc, Bool.false_eq_true, if_false]
  unfold restExprNB
  simp

/-- the state after the character that follows an unescaped backslash: the pending run is closed
    before the backslash -/
def escSt (s : Str) (i : Nat) (st : FState) : FState :=
  { (if st.inRun.isSome then { pushDelim st (mkDelim st.start (i - 1) s) with inRun := none } else st) with
    escaped := false, inImage := false }

/-- one iteration at the character after an unescaped backslash, whatever the character -/
theorem coreLoopNB_escd (s : Str) (fn : Footnotes.Table) (fuel i : Nat) (c : Char) (st : FState)
    (hc : s[i]? = some c) (hcode : st.code = none) (hesc : st.escaped = true) :
    coreLoopNB s fn (fuel + 1) i st = coreLoopNB s fn fuel (i + 1) (escSt s i st) := by
  rw [coreLoopNB]
  simp only [hc, hcode, Bool.false_eq_true, if_false]
  obtain ⟨ds, ms, codes, escaped, inRun, inImage, start, code⟩ := st
  simp only at hesc
  subst hesc
  unfold restExprNB tailExprNB st2Of st1Of escSt
  cases inRun <;> simp [pushDelim]

/-- the delimiters handed to the final `process_emphasis` -/
def finalDsE (s : Str) (st : FState) : List Delim :=
  (if st.inRun.isSome then pushDelim st (mkDelim st.start (if !st.escaped then s.length else s.length - 1) s)
   else st).ds

/-- the delimiter of the run in progress at position `i`, when the rest of the text is `suf`: after
    an unescaped backslash it ends before the backslash -/
def pendingHeadE (s : Str) (st : FState) (i : Nat) (suf : Str) : List Delim :=
  match st.inRun with
  | none => []
  | some ch => [mkDelim st.start (if st.escaped then i - 1 else i + countRunD ch (delimsFrom false suf)) s]

/-- `in_delimiter_run` is the delimiter character before the current position (`prev`), except after
    an unescaped backslash, where the loop keeps a stale value until the next character -/
structure EscInv (st : FState) (prev : Option Char) : Prop where
  noesc : st.escaped = false → st.inRun = prev
  esc : st.escaped = true → prev = none
  delim : ∀ ch, prev = some ch → Emphasis.isDelimChar ch = true

theorem plainChar_of (c : Char) (h1 : plainEscChar c = true) (h2 : c ≠ '\\') : Emphasis.plainChar c = true := by
  simp only [plainEscChar, Bool.and_eq_true, bne_iff_ne, ne_eq] at h1
  simp only [Emphasis.plainChar, Bool.and_eq_true, bne_iff_ne, ne_eq]
  exact ⟨⟨⟨⟨⟨h2, h1.1.1.1.1⟩, h1.1.1.1.2⟩, h1.1.1.2⟩, h1.1.2⟩, h1.2⟩

theorem delimsFrom_cons_ne (c : Char) (rest : Str) (h : c ≠ '\\') :
    delimsFrom false (c :: rest) = (if Emphasis.isDelimChar c then some c else none) :: delimsFrom false rest := by
  have : (c == '\\') = false := by simpa using h
  simp [delimsFrom, this]

/-- **The character loop on a text with backslashes** pushes exactly one delimiter per delimiter
    run of the specification, in order, and nothing else; it finds no match and no code span. -/
theorem coreLoopNB_esc (s : Str) (fn : Footnotes.Table) (hp : ∀ c ∈ s, plainEscChar c = true) :
    ∀ (suf pre : Str) (st : FState) (prev : Option Char) (fuel : Nat), s = pre ++ suf → st.code = none →
      suf.length < fuel → EscInv st prev →
      ∃ st', coreLoopNB s fn fuel pre.length st = .ok (s.length, st') ∧ st'.ms = st.ms ∧ st'.codes = st.codes ∧
        finalDsE s st' = st.ds ++ pendingHeadE s st pre.length suf ++
          (runSpansD prev pre.length (delimsFrom st.escaped suf)).map (spanDelim s)
  | [], pre, st, prev, fuel, hs, hcode, hf, hinv => by
    obtain ⟨f, rfl⟩ : ∃ f, fuel = f + 1 := ⟨fuel - 1, by simp at hf; omega⟩
    simp only [List.append_nil] at hs
    subst hs
    refine ⟨st, by simp [coreLoopNB], rfl, rfl, ?_⟩
    unfold finalDsE pendingHeadE
    cases hr : st.inRun with
    | none => cases st.escaped <;> simp [delimsFrom, runSpansD]
    | some ch => cases st.escaped <;> simp [delimsFrom, runSpansD, pushDelim, countRunD]
  | c :: rest, pre, st, prev, fuel, hs, hcode, hf, hinv => by
    obtain ⟨f, rfl⟩ : ∃ f, fuel = f + 1 := ⟨fuel - 1, by simp at hf; omega⟩
    have hc : s[pre.length]? = some c := by rw [hs]; simp
    have hpc : plainEscChar c = true := hp c (by rw [hs]; simp)
    have hs' : s = (pre ++ [c]) ++ rest := by rw [hs]; simp
    have hlen : (pre ++ [c]).length = pre.length + 1 := by simp
    -- the common part: one iteration to `st1`, then the induction hypothesis
    have key : ∀ (st1 : FState) (prev1 : Option Char),
        coreLoopNB s fn (f + 1) pre.length st = coreLoopNB s fn f (pre.length + 1) st1 →
        st1.code = none → st1.ms = st.ms → st1.codes = st.codes → EscInv st1 prev1 →
        st1.ds ++ pendingHeadE s st1 (pre.length + 1) rest ++
            (runSpansD prev1 (pre.length + 1) (delimsFrom st1.escaped rest)).map (spanDelim s) =
          st.ds ++ pendingHeadE s st pre.length (c :: rest) ++
            (runSpansD prev pre.length (delimsFrom st.escaped (c :: rest))).map (spanDelim s) →
        ∃ st', coreLoopNB s fn (f + 1) pre.length st = .ok (s.length, st') ∧ st'.ms = st.ms ∧ st'.codes = st.codes ∧
          finalDsE s st' = st.ds ++ pendingHeadE s st pre.length (c :: rest) ++
            (runSpansD prev pre.length (delimsFrom st.escaped (c :: rest))).map (spanDelim s) := by
      intro st1 prev1 hstep hcode1 hms1 hcodes1 hinv1 heq
      obtain ⟨st', e1, e3, e4, e5⟩ := coreLoopNB_esc s fn hp rest (pre ++ [c]) st1 prev1 f hs' hcode1
        (by simp at hf; omega) hinv1
      rw [hlen] at e1 e5
      exact ⟨st', by rw [hstep, e1], by rw [e3, hms1], by rw [e4, hcodes1], by rw [e5, heq]⟩
    rcases Bool.eq_false_or_eq_true st.escaped with hesc | hesc
    · -- the character after an unescaped backslash
      have hprev : prev = none := hinv.esc hesc
      refine key (escSt s pre.length st) none (coreLoopNB_escd s fn f pre.length c st hc hcode hesc) ?_ ?_ ?_ ?_ ?_
      · unfold escSt; split <;> simp [pushDelim, hcode]
      · unfold escSt; split <;> simp [pushDelim]
      · unfold escSt; split <;> simp [pushDelim]
      · refine ⟨fun _ => ?_, fun h => rfl, fun ch h => (by cases h)⟩
        unfold escSt
        cases hr : st.inRun <;> simp [hr]
      · subst hprev
        rw [hesc]
        cases hr : st.inRun with
        | none => simp [escSt, pendingHeadE, hr, delimsFrom, runSpansD]
        | some ch => simp [escSt, pendingHeadE, hr, hesc, delimsFrom, runSpansD, pushDelim]
    · have hrun : st.inRun = prev := hinv.noesc hesc
      by_cases hbs : c = '\\'
      · -- an unescaped backslash
        subst hbs
        refine key { st with escaped := true } none (coreLoopNB_bs s fn f pre.length st hc hcode hesc) hcode rfl rfl
          ⟨fun h => (by simp at h), fun _ => rfl, fun ch h => (by cases h)⟩ ?_
        have hd : Emphasis.isDelimChar '\\' = false := by decide
        rw [hesc]
        cases hr : st.inRun with
        | none => simp [pendingHeadE, hr, delimsFrom, runSpansD, hd]
        | some ch => simp [pendingHeadE, hr, hesc, delimsFrom, runSpansD, hd, countRunD]
      · -- any other character: as on a plain text
        have hplain : Emphasis.plainChar c = true := plainChar_of c hpc hbs
        obtain ⟨n1, n2, n3, n4⟩ := nextSt_common s pre.length c st hesc
        have hstep := coreLoopNB_step s fn f pre.length c st hc hplain hcode hesc
        have hpe : pendingHeadE s st pre.length (c :: rest) =
            match st.inRun with
            | none => []
            | some ch => [mkDelim st.start (pre.length + countRunD ch
                ((if Emphasis.isDelimChar c then some c else none) :: delimsFrom false rest)) s] := by
          unfold pendingHeadE
          rw [delimsFrom_cons_ne c rest hbs, hesc]
          rfl
        have key' : ∀ (prev1 : Option Char), EscInv (nextSt s pre.length c st) prev1 →
            (nextSt s pre.length c st).ds ++ pendingHeadE s (nextSt s pre.length c st) (pre.length + 1) rest ++
                (runSpansD prev1 (pre.length + 1) (delimsFrom false rest)).map (spanDelim s) =
              st.ds ++ (match st.inRun with
                | none => []
                | some ch => [mkDelim st.start (pre.length + countRunD ch
                    ((if Emphasis.isDelimChar c then some c else none) :: delimsFrom false rest)) s]) ++
                (runSpansD prev pre.length ((if Emphasis.isDelimChar c then some c else none) ::
                  delimsFrom false rest)).map (spanDelim s) → _ := fun prev1 hinv1 heq =>
          key (nextSt s pre.length c st) prev1 hstep (by rw [n2, hcode]) n3 n4 hinv1
            (by rw [n1, hesc, delimsFrom_cons_ne c rest hbs, hpe]; exact heq)
        have mkinv : ∀ p, (nextSt s pre.length c st).inRun = p → (∀ ch, p = some ch → Emphasis.isDelimChar ch = true) →
            EscInv (nextSt s pre.length c st) p :=
          fun p h1 h2 => ⟨fun _ => h1, fun h => (by rw [n1] at h; cases h), h2⟩
        cases hr : st.inRun with
        | none =>
          have hprev : prev = none := by rw [← hrun, hr]
          subst hprev
          cases hd : Emphasis.isDelimChar c with
          | true =>
            obtain ⟨d1, d2, d3⟩ := nextSt_none_delim s pre.length c st hesc hr hd
            refine key' (some c) (mkinv _ d2 (fun ch h => by cases h; exact hd)) ?_
            simp only [pendingHeadE, d1, d2, d3, n1, hr, hd, if_true, runSpansD, List.append_nil,
              Bool.false_eq_true, if_false]
            simp [spanDelim, Nat.add_assoc, Nat.add_comm 1]
          | false =>
            obtain ⟨d1, d2⟩ := nextSt_none_other s pre.length c st hesc hr hd
            refine key' none (mkinv _ d2 (fun ch h => by cases h)) ?_
            simp only [pendingHeadE, d1, d2, hr, hd, runSpansD, Bool.false_eq_true, if_false]
        | some ch =>
          have hprev : prev = some ch := by rw [← hrun, hr]
          subst hprev
          by_cases hcc : c = ch
          · subst hcc
            have hdc : Emphasis.isDelimChar c = true := hinv.delim c rfl
            obtain ⟨d1, d2, d3⟩ := nextSt_same s pre.length c st hesc hr
            refine key' (some c) (mkinv _ d2 (fun ch h => by cases h; exact hdc)) ?_
            simp only [pendingHeadE, d1, d2, d3, n1, hr, hdc, if_true, runSpansD, bne_self_eq_false, Bool.false_eq_true,
              if_false, countRunD]
            simp [Nat.add_assoc, Nat.add_comm 1]
          · have hne : (some ch != some c) = true := by simpa using fun e => hcc e.symm
            have hne' : ¬ c = ch := hcc
            cases hd : Emphasis.isDelimChar c with
            | true =>
              obtain ⟨d1, d2, d3⟩ := nextSt_diff_delim s pre.length c ch st hesc hr hcc hd
              refine key' (some c) (mkinv _ d2 (fun ch h => by cases h; exact hd)) ?_
              simp only [pendingHeadE, d1, d2, d3, n1, hr, hd, if_true, runSpansD, hne, List.map_cons, spanDelim, countRunD,
                hcc, if_false, Nat.add_zero, Bool.false_eq_true]
              simp [Nat.add_assoc, Nat.add_comm 1]
            | false =>
              obtain ⟨d1, d2⟩ := nextSt_diff_other s pre.length c ch st hesc hr hcc hd
              refine key' none (mkinv _ d2 (fun ch h => by cases h)) ?_
              simp only [pendingHeadE, d1, d2, hr, hd, runSpansD, Bool.false_eq_true, if_false, countRunD, Nat.add_zero]
              simp

/-! ### `find_core_tokens` on a text with backslashes -/

theorem plainEsc_mem {s : Str} (hp : plainEsc s = true) : ∀ c ∈ s, plainEscChar c = true := by
  simpa [plainEsc] using hp

theorem plainEsc_no_backtick {s : Str} (hp : plainEsc s = true) : '`' ∉ s := by
  intro h
  have := plainEsc_mem hp _ h
  revert this; decide

/-- the delimiter runs of a text with backslashes, with mistletoe's classification -/
def runsME (s : Str) : List Emphasis.Run := (runSpansEsc s).map (fun r => mkRunM s r.1 r.2.1 r.2.2)

/-- they are the delimiter stack of the specification, when the text has none of the eight deviant
    whitespace characters: `is_opener` / `is_closer` look at the same two characters of the source
    as the specification, also next to a backslash or an escaped character -/
theorem runsME_eq (s : Str) (hw : StdWs s) : runsME s = runsEsc s := by
  unfold runsME runsEsc
  apply List.map_congr_left
  intro r hr
  obtain ⟨_, _, h3, _⟩ := runSpansEsc_spec s r hr
  exact mkRunM_eq s r.1 r.2.1 r.2.2 hw h3

/-- the delimiters of the runs, as the character loop builds them -/
theorem spanDelimsE_eq (s : Str) : (runSpansEsc s).map (spanDelim s) = (runsME s).map toDelim := by
  unfold runsME
  rw [List.map_map]
  apply List.map_congr_left
  intro r hr
  obtain ⟨h1, h2, _, h4⟩ := runSpansEsc_spec s r hr
  exact mkDelim_eq_toDelimM s r.1 r.2.1 r.2.2 h2 h1 h4

theorem runsME_pos (s : Str) : ∀ r ∈ runsME s, 1 ≤ r.count := by
  intro r hr
  obtain ⟨x, hx, rfl⟩ := List.mem_map.1 hr
  exact (runSpansEsc_spec s x hx).2.1

theorem runsME_sorted (s : Str) : (runsME s).Pairwise (fun a b => a.start + a.count ≤ b.start) :=
  List.pairwise_map.2 (runSpansD_sorted _ none 0)

/-- **`find_core_tokens` on a text with backslashes** = `process_emphasis` (without bottoms) on the
    delimiter runs of the text, with no previous match -/
theorem findCoreTokensNB_esc (s : Str) (fn : Footnotes.Table) (hp : plainEsc s = true) :
    findCoreTokensNB s fn =
      match processEmphasisNB s none ((runsME s).map toDelim) [] with
      | .err e => .err e
      | .ok (_, ms) => .ok (ms.reverse, []) := by
  obtain ⟨st', e1, e3, e4, e5⟩ := coreLoopNB_esc s fn (plainEsc_mem hp) s [] { code := codeSearch s 0 } none
    (s.length + 2) rfl (codeSearch_none s 0 (plainEsc_no_backtick hp)) (by omega)
    ⟨fun _ => rfl, fun _ => rfl, fun ch h => by cases h⟩
  simp only [List.length_nil] at e1
  unfold findCoreTokensNB
  rw [e1]
  simp only
  have hds : (if st'.inRun.isSome then
        pushDelim st' (mkDelim st'.start (if !st'.escaped then s.length else s.length - 1) s) else st').ds =
      (runsME s).map toDelim := by
    have := e5
    simp only [finalDsE, pendingHeadE, List.length_nil, List.nil_append, List.append_nil] at this
    rw [this, ← spanDelimsE_eq s, runSpansEsc, delims_eq]
  have hms : (if st'.inRun.isSome then
        pushDelim st' (mkDelim st'.start (if !st'.escaped then s.length else s.length - 1) s) else st').ms = [] := by
    split <;> simp [pushDelim, e3]
  have hcs : (if st'.inRun.isSome then
        pushDelim st' (mkDelim st'.start (if !st'.escaped then s.length else s.length - 1) s) else st').codes = [] := by
    split <;> simp [pushDelim, e4]
  rw [hds, hms, hcs]
  rfl

/-! ### the refinement theorems -/

/-- **Refinement, first form (every text of the fragment with backslashes).**  `find_core_tokens(s,
    root)` returns exactly the emphasis nodes that *process emphasis* of the specification computes
    on the delimiter runs of `s` (runs of unescaped `*` / `_`, section 2.4 and 6.2), classified as
    opener / closer by mistletoe's own `is_opener` / `is_closer`; and no code span. -/
theorem findCoreTokens_process_esc (s : Str) (fn : Footnotes.Table) (hp : plainEsc s = true) :
    findCoreTokens s fn = .ok ((Emphasis.process (runsME s)).map (toCoreM s), []) := by
  obtain ⟨r0, hr0⟩ := findCoreTokens_ok s fn
  rw [findCoreTokens_eq_noBottoms, findCoreTokensNB_esc s fn hp] at hr0 ⊢
  cases hpe : processEmphasisNB s none ((runsME s).map toDelim) [] with
  | err e => rw [hpe] at hr0; cases hr0
  | ok x =>
    obtain ⟨ds', ms'⟩ := x
    simp only
    rw [processEmphasisNB_spec s (runsME s) (runsME_pos s) (runsME_sorted s) ds' ms' hpe]

/-- **Refinement (main theorem, with backslash escapes).**  For every text `s` without backtick,
    `[`, `]`, `<`, `&` (backslashes allowed) that contains none of the eight code points which
    `core_tokens.unicode_whitespace` wrongly counts as Unicode whitespace (`StdWs s`), and every
    table of link reference definitions, `find_core_tokens(s, root)` returns exactly
    `Spec.EmphasisEsc.emphasisEsc s`, mapped to the model's match record: same
    `start`/`ts`/`te`/`stop`, same kind, same order; and no code span.

    `_partial`: the hypothesis `StdWs s` is the one of `findCoreTokens_refines_spec_partial`
    (`EmphRefine.not_refines_deviant`: the statement is false without it, on a text without
    backslash already). -/
theorem findCoreTokens_refines_spec_esc_partial (s : Str) (fn : Footnotes.Table) (hp : plainEsc s = true)
    (hw : StdWs s) :
    findCoreTokens s fn = .ok ((emphasisEsc s).map (toCoreM s), []) := by
  rw [findCoreTokens_process_esc s fn hp, runsME_eq s hw]
  rfl

/-! ### property level (C06, first clause, with backslash escapes) -/

/-- **C06: the emphasis structure is the specification's, backslash escapes included.**  For every
    inline text `s` without backtick, `[`, `]`, `<`, `&` (letters, spaces, punctuation, backslashes,
    runs of `*` and `_`, …) and without the eight deviant whitespace code points, and every table of
    link reference definitions: `find_core_tokens(s, root)` does not fail; it returns no code span;
    every match it returns is a `Strong` or an `Emphasis`; and the matches are, one for one and in
    the same order, the emphasis nodes that the CommonMark 0.30 delimiter algorithm computes for `s`
    (`Spec.EmphasisEsc.emphasisEsc`: backslash escapes of section 2.4, delimiter runs of unescaped
    `*` / `_`, left/right flanking from the neighbouring source characters, the restrictions on `_`,
    *process emphasis* with `openers_bottom`, the rule of three on original run lengths, strong iff
    both lengths ≥ 2): same opening delimiter `[start, ts)`, same closing delimiter `[te, stop)`,
    same kind.

    `_partial`: see `findCoreTokens_refines_spec_esc_partial` for the added hypothesis `StdWs s`. -/
theorem C06_emphasis_is_spec_esc_partial (s : Str) (fn : Footnotes.Table) (hp : plainEsc s = true) (hw : StdWs s) :
    ∃ ms, findCoreTokens s fn = .ok (ms, []) ∧
      ms = (emphasisEsc s).map (toCoreM s) ∧
      (∀ m ∈ ms, m.kind = .strong ∨ m.kind = .emphasis) ∧
      ms.map (fun m => (m.start, m.ts, m.te, m.stop, m.kind == .strong)) = spansEsc s := by
  refine ⟨_, findCoreTokens_refines_spec_esc_partial s fn hp hw, rfl, ?_, ?_⟩
  · intro m hm
    obtain ⟨x, _, rfl⟩ := List.mem_map.1 hm
    simp only [toCoreM]
    cases x.strong <;> simp
  · simp only [spansEsc, List.map_map]
    apply List.map_congr_left
    intro x _
    simp only [Function.comp, toCoreM]
    cases x.strong <;> rfl

/-- the same for every text of the fragment, with mistletoe's own opener / closer classification -/
theorem C06_emphasis_is_process_esc (s : Str) (fn : Footnotes.Table) (hp : plainEsc s = true) :
    findCoreTokens s fn = .ok ((Emphasis.process (runsME s)).map (toCoreM s), []) :=
  findCoreTokens_process_esc s fn hp

/-! ### the specification with escapes extends the one without -/

theorem countRunD_plain (c : Char) (hc : Emphasis.isDelimChar c = true) : ∀ (l : Str), '\\' ∉ l →
    countRunD c (delimsFrom false l) = Emphasis.countRun c l
  | [], _ => rfl
  | d :: rest, h => by
    have hd : d ≠ '\\' := fun e => h (by simp [e])
    rw [delimsFrom_cons_ne d rest hd]
    by_cases hdc : d = c
    · subst hdc
      simp only [hc, if_true, countRunD, Emphasis.countRun]
      rw [countRunD_plain d hc rest (fun hm => h (List.mem_cons_of_mem _ hm))]
    · cases hdd : Emphasis.isDelimChar d <;> simp [countRunD, Emphasis.countRun, hdc]

theorem runSpansD_plain : ∀ (l : Str) (prev : Option Char) (pos : Nat), '\\' ∉ l →
    runSpansD (prev.filter Emphasis.isDelimChar) pos (delimsFrom false l) = Emphasis.runSpans prev pos l
  | [], _, _, _ => rfl
  | c :: rest, prev, pos, h => by
    have hc : c ≠ '\\' := fun e => h (by simp [e])
    have hrest : '\\' ∉ rest := fun hm => h (List.mem_cons_of_mem _ hm)
    have ih := runSpansD_plain rest (some c) (pos + 1) hrest
    rw [delimsFrom_cons_ne c rest hc]
    cases hd : Emphasis.isDelimChar c with
    | false =>
      simp only [Option.filter, hd, Bool.false_eq_true, if_false] at ih
      simp only [Bool.false_eq_true, if_false, runSpansD, Emphasis.runSpans, hd, Bool.false_and, ih]
    | true =>
      simp only [Option.filter, hd, if_true] at ih
      have hne : (prev.filter Emphasis.isDelimChar != some c) = (prev != some c) := by
        cases prev with
        | none => rfl
        | some x =>
          by_cases hx : x = c
          · subst hx; simp [Option.filter, hd]
          · have h1 : (some x != some c) = true := by simpa using hx
            rw [h1]
            simp only [Option.filter]
            split <;> simp [hx]
      simp only [if_true, runSpansD, Emphasis.runSpans, hd, Bool.true_and, hne, ih, countRunD_plain c hd rest hrest]

/-- **On a text without backslash the two specifications coincide**: same delimiter runs, hence
    the same emphasis nodes. -/
theorem emphasisEsc_plain (s : Str) (hp : Emphasis.plain s = true) : emphasisEsc s = Emphasis.emphasis s := by
  have hbs : '\\' ∉ s := by
    intro h
    have := plain_mem hp _ h
    revert this; decide
  unfold emphasisEsc Emphasis.emphasis runsEsc Emphasis.runs runSpansEsc
  rw [delims_eq, ← runSpansD_plain s none 0 hbs]
  rfl

/-! non-vacuity -/

example : findCoreTokens "a \\*b* *c\\* d*".toList [] =
    .ok ((emphasisEsc "a \\*b* *c\\* d*".toList).map (toCoreM "a \\*b* *c\\* d*".toList), []) :=
  findCoreTokens_refines_spec_esc_partial _ _ (by decide +kernel) ((stdWs_iff _).1 (by decide +kernel))

example : spansEsc "a \\*b* *c\\* d*".toList = [(7, 8, 13, 14, false)] := by decide +kernel

/-- `\**a** _b\__ *c\`: an escaped `*` before a run, an escaped `_` inside, a final backslash -/
example : ∃ ms, findCoreTokens "\\**a** _b\\__ *c\\".toList [] = .ok (ms, []) ∧
    ms.map (fun m => (m.start, m.ts, m.te, m.stop, m.kind == .strong)) = [(2, 3, 4, 5, false), (7, 8, 11, 12, false)] := by
  obtain ⟨ms, h1, _, _, h4⟩ := C06_emphasis_is_spec_esc_partial "\\**a** _b\\__ *c\\".toList [] (by decide +kernel)
    ((stdWs_iff _).1 (by decide +kernel))
  refine ⟨ms, h1, ?_⟩
  rw [h4]
  decide +kernel

end Mistletoe.EmphRefineEsc
