/-
  C10, the clause "code blocks, HTML blocks, tables and ATX headings are NOT RE-BROKEN", for EVERY token
  tree (parsed or hand-made), every `max_line_length` (positive, zero, negative, `None`) and every option set.

  Which `render_*` methods of mistletoe/markdown_renderer.py look at their `max_line_length` argument?
  (read off the Python; the model `Markdown.renderBlock` agrees function for function)

    render_heading            NO   `span_to_lines(token.children, max_line_length=None)`, first line only
    render_block_code         NO   `token.content[:-1].split("\n")`, prefix "    "
    render_fenced_code_block  NO   fence line, content lines behind the indentation, fence line
    render_html_block         NO   `token.content.split("\n")`
    render_table              NO   `table_row_to_text` uses `span_to_lines(col.children, max_line_length=None)`
    render_thematic_break     NO   `[token.line]`
    render_blank_line         NO   `[""]`
    render_paragraph          YES  `span_to_lines(token.children, max_line_length=max_line_length)`
    render_setext_heading     YES  the same, then the underline
    render_link_reference_definition_block  YES  `span_to_lines([child], max_line_length=max_line_length)`
    render_quote / render_list_item         pass `max(max_line_length - k, 1)` down, prefix the lines (`prefix_lines`
                                            does not see the limit); render_list / render_document pass it unchanged
    (TableRow / TableCell through the render map: `TypeError` whatever the limit)

  * `rigid b`      — `b` is one of the seven kinds marked NO (the four the property names + thematic break + blank line);
  * `rigidDeep b`  — a rigid leaf, or a quote / list / list item all of whose leaves are rigid;
  * `C10_rigid_leaf`, `C10_rigid_deep` — the rendering (a `Res`: lines or the exception) of such a block is the same
    under any two budgets (in particular `some L` and `none`), for rigid LEAVES also under any two option sets;
  * `C10_errOf_any` — for an ARBITRARY block the exception (if any) does not depend on the limit;
  * `C10_mixed` — for an arbitrary list of sibling blocks `blocks_to_lines` is the concatenation of the per-block line
    lists, and the component of every `rigidDeep` sibling is the same with and without limit;
  * `C10_mixed_deep` — the same through any nesting of block quotes and lists (`pieces`): the output is the concatenation
    of pieces, one per leaf / list item reached through quotes and lists, the number and order of the pieces does not
    depend on the limit and the pieces of rigid blocks are equal.  (Through a NON-rigid list item the statement is false
    for hand-made trees: see `listItem_shift` below - a whitespace-only paragraph renders one line without limit and
    no line with a limit, which moves the item's leader onto the code block that follows.)
  * `C10_not_rebroken_leaf/_deep/_document` — the final statements; non-vacuity on a hand-made tree and on the parse of
    the text of the task (kernel evaluation), compared with the real code.
-/
import Mistletoe.Model.Markdown
import Mistletoe.Model.Config
namespace Mistletoe.Proofs.NoRebreak
open Mistletoe Mistletoe.Wrap Mistletoe.Markdown

/-! ## 1. Rigid blocks -/

/-- the block kinds whose `render_*` method never looks at `max_line_length` -/
def rigid : Block → Bool
  | .paragraph _ _ => false
  | .heading _ _ _ _ => true
  | .setextHeading _ _ _ _ => false
  | .quote _ _ => false
  | .blockCode _ _ => true
  | .codeFence _ _ _ _ _ _ => true
  | .list _ _ _ _ => false
  | .listItem _ _ _ _ _ _ => false
  | .table _ _ _ _ => true
  | .tableRow _ _ _ => false
  | .tableCell _ _ _ => false
  | .thematicBreak _ _ => true
  | .htmlBlock _ _ => true
  | .blankLine _ => true
  | .linkRefDefBlock _ _ => false

mutual
/-- a rigid leaf, or a quote / list / list item all of whose leaves are rigid -/
def rigidDeep : Block → Bool
  | .paragraph _ _ => false
  | .heading _ _ _ _ => true
  | .setextHeading _ _ _ _ => false
  | .quote kids _ => rigidDeepAll kids
  | .blockCode _ _ => true
  | .codeFence _ _ _ _ _ _ => true
  | .list _ _ items _ => rigidDeepAll items
  | .listItem _ _ _ _ kids _ => rigidDeepAll kids
  | .table _ _ _ _ => true
  | .tableRow _ _ _ => false
  | .tableCell _ _ _ => false
  | .thematicBreak _ _ => true
  | .htmlBlock _ _ => true
  | .blankLine _ => true
  | .linkRefDefBlock _ _ => false
def rigidDeepAll : List Block → Bool
  | [] => true
  | b :: bs => rigidDeep b && rigidDeepAll bs
end

theorem rigidDeep_of_rigid (b : Block) (h : rigid b = true) : rigidDeep b = true := by
  cases b <;> first | rfl | (simp [rigid] at h)

theorem rigidDeepAll_iff (bs : List Block) : rigidDeepAll bs = true ↔ ∀ b ∈ bs, rigidDeep b = true := by
  induction bs with
  | nil => simp [rigidDeepAll]
  | cons b bs ih => simp [rigidDeepAll, ih]

/-! ## 2. Rigid leaves: the limit (and the option set) is not looked at -/

/-- a rigid leaf renders the same under any two option sets and any two budgets -/
theorem renderBlock_rigid (o1 o2 : Opts) (m1 m2 : Option Int) (b : Block) (h : rigid b = true) :
    renderBlock o1 m1 b = renderBlock o2 m2 b := by
  cases b <;> first | (simp only [renderBlock]; done) | (simp [rigid] at h)

/-! ## 3. Rigid trees -/

mutual
theorem renderBlock_rigidDeep (o1 o2 : Opts) (hn : o1.normalizeWhitespace = o2.normalizeWhitespace) :
    ∀ (m1 m2 : Option Int) (b : Block), rigidDeep b = true → renderBlock o1 m1 b = renderBlock o2 m2 b
  | _, _, .paragraph _ _, h => by simp [rigidDeep] at h
  | _, _, .heading _ _ _ _, _ => by simp only [renderBlock]
  | _, _, .setextHeading _ _ _ _, h => by simp [rigidDeep] at h
  | m1, m2, .quote kids _, h => by
    simp only [rigidDeep] at h
    have ih := renderBlocks_rigidDeep o1 o2 hn (childBudget m1 2) (childBudget m2 2) kids h
    simp only [renderBlock]; rw [ih]
  | _, _, .blockCode _ _, _ => by simp only [renderBlock]
  | _, _, .codeFence _ _ _ _ _ _, _ => by simp only [renderBlock]
  | m1, m2, .list _ _ items _, h => by
    simp only [rigidDeep] at h
    simp only [renderBlock]; exact renderBlocks_rigidDeep o1 o2 hn m1 m2 items h
  | m1, m2, .listItem leader ind pre _ kids _, h => by
    simp only [rigidDeep] at h
    have ih := renderBlocks_rigidDeep o1 o2 hn
      (childBudget m1 (if o2.normalizeWhitespace then leader.length + 1 else pre))
      (childBudget m2 (if o2.normalizeWhitespace then leader.length + 1 else pre)) kids h
    simp only [renderBlock, hn]; rw [ih]
  | _, _, .table _ _ _ _, _ => by simp only [renderBlock]
  | _, _, .tableRow _ _ _, h => by simp [rigidDeep] at h
  | _, _, .tableCell _ _ _, h => by simp [rigidDeep] at h
  | _, _, .thematicBreak _ _, _ => by simp only [renderBlock]
  | _, _, .htmlBlock _ _, _ => by simp only [renderBlock]
  | _, _, .blankLine _, _ => by simp only [renderBlock]
  | _, _, .linkRefDefBlock _ _, h => by simp [rigidDeep] at h
theorem renderBlocks_rigidDeep (o1 o2 : Opts) (hn : o1.normalizeWhitespace = o2.normalizeWhitespace) :
    ∀ (m1 m2 : Option Int) (bs : List Block), rigidDeepAll bs = true → renderBlocks o1 m1 bs = renderBlocks o2 m2 bs
  | _, _, [], _ => by simp only [renderBlocks]
  | m1, m2, b :: bs, h => by
    simp only [rigidDeepAll, Bool.and_eq_true] at h
    have h1 := renderBlock_rigidDeep o1 o2 hn m1 m2 b h.1
    have h2 := renderBlocks_rigidDeep o1 o2 hn m1 m2 bs h.2
    simp only [renderBlocks]; rw [h1, h2]
end

/-! ## 4. The exception, if any, never depends on the limit (ARBITRARY blocks) -/

/-- the exception a result stands for -/
def errOf {α} : Res α → Option Err
  | .ok _ => none
  | .err e => some e

theorem spanToLines_errOf (k : List Inline) (m : Option Int) : errOf (spanToLines k m) = errOf (renderInlines k) := by
  unfold spanToLines; cases renderInlines k <;> rfl

theorem defLines_errOf (m1 m2 : Option Int) : ∀ (ds : List Inline), errOf (defLines m1 ds) = errOf (defLines m2 ds)
  | [] => rfl
  | d :: ds => by
    have h1 : errOf (spanToLines [d] m1) = errOf (spanToLines [d] m2) := by
      rw [spanToLines_errOf, spanToLines_errOf]
    have h3 := defLines_errOf m1 m2 ds
    simp only [defLines]
    cases hc1 : spanToLines [d] m1 <;> cases hc2 : spanToLines [d] m2 <;> cases hc3 : defLines m1 ds <;> cases hc4 : defLines m2 ds <;>
      simp_all [errOf]

mutual
theorem renderBlock_errOf (o1 o2 : Opts) (hn : o1.normalizeWhitespace = o2.normalizeWhitespace) :
    ∀ (m1 m2 : Option Int) (b : Block), errOf (renderBlock o1 m1 b) = errOf (renderBlock o2 m2 b)
  | m1, m2, .paragraph k _ => by
    simp only [renderBlock, spanToLines_errOf]
  | _, _, .heading _ _ _ _ => by simp only [renderBlock]
  | m1, m2, .setextHeading _ _ k _ => by
    have h1 : errOf (spanToLines k m1) = errOf (spanToLines k m2) := by
      rw [spanToLines_errOf, spanToLines_errOf]
    simp only [renderBlock]
    cases hc5 : spanToLines k m1 <;> cases hc6 : spanToLines k m2 <;> simp_all [errOf]
  | m1, m2, .quote kids _ => by
    have ih := renderBlocks_errOf o1 o2 hn (childBudget m1 2) (childBudget m2 2) kids
    simp only [renderBlock]
    cases hc7 : renderBlocks o1 (childBudget m1 2) kids <;> cases hc8 : renderBlocks o2 (childBudget m2 2) kids <;>
      simp_all [errOf]
  | _, _, .blockCode _ _ => by simp only [renderBlock]
  | _, _, .codeFence _ _ _ _ _ _ => by simp only [renderBlock]
  | m1, m2, .list _ _ items _ => by
    simp only [renderBlock]; exact renderBlocks_errOf o1 o2 hn m1 m2 items
  | m1, m2, .listItem leader ind pre _ kids _ => by
    have ih := renderBlocks_errOf o1 o2 hn
      (childBudget m1 (if o2.normalizeWhitespace then leader.length + 1 else pre))
      (childBudget m2 (if o2.normalizeWhitespace then leader.length + 1 else pre)) kids
    simp only [renderBlock, hn]
    cases hc9 : renderBlocks o1 (childBudget m1 (if o2.normalizeWhitespace then leader.length + 1 else pre)) kids <;>
      cases hc10 : renderBlocks o2 (childBudget m2 (if o2.normalizeWhitespace then leader.length + 1 else pre)) kids <;>
      simp_all [errOf]
  | _, _, .table _ _ _ _ => by simp only [renderBlock]
  | _, _, .tableRow _ _ _ => by simp only [renderBlock]
  | _, _, .tableCell _ _ _ => by simp only [renderBlock]
  | _, _, .thematicBreak _ _ => by simp only [renderBlock]
  | _, _, .htmlBlock _ _ => by simp only [renderBlock]
  | _, _, .blankLine _ => by simp only [renderBlock]
  | m1, m2, .linkRefDefBlock defs _ => by
    simp only [renderBlock]; exact defLines_errOf m1 m2 defs
theorem renderBlocks_errOf (o1 o2 : Opts) (hn : o1.normalizeWhitespace = o2.normalizeWhitespace) :
    ∀ (m1 m2 : Option Int) (bs : List Block), errOf (renderBlocks o1 m1 bs) = errOf (renderBlocks o2 m2 bs)
  | _, _, [] => by simp only [renderBlocks]
  | m1, m2, b :: bs => by
    have h1 := renderBlock_errOf o1 o2 hn m1 m2 b
    have h2 := renderBlocks_errOf o1 o2 hn m1 m2 bs
    simp only [renderBlocks]
    cases hc11 : renderBlock o1 m1 b <;> cases hc12 : renderBlock o2 m2 b <;> cases hc13 : renderBlocks o1 m1 bs <;>
      cases hc14 : renderBlocks o2 m2 bs <;> simp_all [errOf]
end

theorem errOf_none {α} {r : Res α} (h : errOf r = none) : ∃ a, r = .ok a := by
  cases r with
  | ok a => exact ⟨a, rfl⟩
  | err e => simp [errOf] at h

/-- **For every block, every two budgets and option sets with the same `normalize_whitespace`: the same exception or none.** -/
theorem C10_errOf_any (o : Opts) (m1 m2 : Option Int) (b : Block) :
    errOf (renderBlock o m1 b) = errOf (renderBlock o m2 b) := renderBlock_errOf o o rfl m1 m2 b

/-! ## 5. Mixed siblings: `blocks_to_lines` is the concatenation of the per-block line lists -/

/-- `yield from` over the per-block results: the first exception wins, otherwise the concatenation -/
def collect : List (Res (List Str)) → Res (List Str)
  | [] => .ok []
  | .err e :: _ => .err e
  | .ok ls :: rs =>
    match collect rs with
    | .err e => .err e
    | .ok more => .ok (ls ++ more)

/-- `blocks_to_lines` = the per-block renderings, concatenated -/
theorem renderBlocks_collect (o : Opts) (m : Option Int) :
    ∀ (bs : List Block), renderBlocks o m bs = collect (bs.map (renderBlock o m))
  | [] => by simp only [renderBlocks, List.map_nil, collect]
  | b :: bs => by
    have ih := renderBlocks_collect o m bs
    simp only [renderBlocks, List.map_cons]
    cases h : renderBlock o m b
    · simp only [collect, ih]
      cases collect (bs.map (renderBlock o m)) <;> rfl
    · simp only [collect]

theorem collect_ok : ∀ (rs : List (Res (List Str))) (ls : List Str), collect rs = .ok ls →
    ∃ segs : List (List Str), rs = segs.map Res.ok ∧ ls = segs.flatten
  | [], ls, h => by
    simp only [collect, Res.ok.injEq] at h
    exact ⟨[], rfl, h.symm⟩
  | .err e :: rs, ls, h => by simp [collect] at h
  | .ok l :: rs, ls, h => by
    simp only [collect] at h
    cases hc : collect rs with
    | err e => rw [hc] at h; simp at h
    | ok more =>
      rw [hc] at h
      simp only [Res.ok.injEq] at h
      obtain ⟨segs, h1, h2⟩ := collect_ok rs more hc
      exact ⟨l :: segs, by simp [h1], by simp [← h, h2]⟩

/-- **Mixed siblings.**  For an ARBITRARY list of blocks that renders under budget `m1` (it then renders under every budget):
    both outputs are the concatenation of one segment per block (`s1`, `s2`: the block's own rendering), and the segment
    of every `rigidDeep` sibling is the same under the two budgets - whatever the non-rigid siblings around it do. -/
theorem C10_mixed (o1 o2 : Opts) (hn : o1.normalizeWhitespace = o2.normalizeWhitespace)
    (m1 m2 : Option Int) (bs : List Block) (ls1 : List Str) (h1 : renderBlocks o1 m1 bs = .ok ls1) :
    ∃ (ls2 : List Str) (s1 s2 : List (List Str)),
      renderBlocks o2 m2 bs = .ok ls2 ∧
      bs.map (renderBlock o1 m1) = s1.map Res.ok ∧ bs.map (renderBlock o2 m2) = s2.map Res.ok ∧
      ls1 = s1.flatten ∧ ls2 = s2.flatten ∧ s1.length = bs.length ∧ s2.length = bs.length ∧
      ∀ (i : Nat) (b : Block), bs[i]? = some b → rigidDeep b = true → s1[i]? = s2[i]? := by
  have he := renderBlocks_errOf o2 o1 hn.symm m2 m1 bs
  rw [h1] at he
  obtain ⟨ls2, h2⟩ := errOf_none he
  have c1 := h1; have c2 := h2
  rw [renderBlocks_collect] at c1 c2
  obtain ⟨s1, hs1, hl1⟩ := collect_ok _ _ c1
  obtain ⟨s2, hs2, hl2⟩ := collect_ok _ _ c2
  refine ⟨ls2, s1, s2, h2, hs1, hs2, hl1, hl2, ?_, ?_, ?_⟩
  · have := congrArg List.length hs1; simpa using this.symm
  · have := congrArg List.length hs2; simpa using this.symm
  · intro i b hb hr
    have e1 := congrArg (·[i]?) hs1
    have e2 := congrArg (·[i]?) hs2
    simp only [List.getElem?_map, hb, Option.map_some] at e1 e2
    rw [renderBlock_rigidDeep o1 o2 hn m1 m2 b hr, e2] at e1
    cases h1 : s1[i]? <;> cases h2 : s2[i]? <;> simp_all

/-! ## 6. Mixed trees: through block quotes and lists -/

/-- one piece: a block reached through quotes and lists only; the tag says whether it is `rigidDeep` -/
def leafPiece (o : Opts) (m : Option Int) (b : Block) : Res (List (Bool × List Str)) :=
  match renderBlock o m b with
  | .err e => .err e
  | .ok ls => .ok [(rigidDeep b, ls)]

/-- a block quote prefixes every line of every piece -/
def tagPrefix (p : Str) (ps : List (Bool × List Str)) : List (Bool × List Str) :=
  ps.map fun x => (x.1, prefixLinesAux p x.2)

mutual
/-- the output of a block, cut into pieces: quotes and lists are transparent (a quote prefixes the pieces of its children
    with "> ", a list concatenates those of its items), every other block - leaves and list items - is one piece -/
def pieces (o : Opts) (m : Option Int) : Block → Res (List (Bool × List Str))
  | .paragraph k ln => leafPiece o m (.paragraph k ln)
  | .heading l c k ln => leafPiece o m (.heading l c k ln)
  | .setextHeading l u k ln => leafPiece o m (.setextHeading l u k ln)
  | .quote kids _ =>
    match piecesL o (childBudget m 2) kids with
    | .err e => .err e
    | .ok ps => .ok (tagPrefix ['>', ' '] ps)
  | .blockCode c ln => leafPiece o m (.blockCode c ln)
  | .codeFence a b c d e ln => leafPiece o m (.codeFence a b c d e ln)
  | .list _ _ items _ => piecesL o m items
  | .listItem a b c d kids ln => leafPiece o m (.listItem a b c d kids ln)
  | .table a h r ln => leafPiece o m (.table a h r ln)
  | .tableRow a c ln => leafPiece o m (.tableRow a c ln)
  | .tableCell a k ln => leafPiece o m (.tableCell a k ln)
  | .thematicBreak l ln => leafPiece o m (.thematicBreak l ln)
  | .htmlBlock c ln => leafPiece o m (.htmlBlock c ln)
  | .blankLine ln => leafPiece o m (.blankLine ln)
  | .linkRefDefBlock ds ln => leafPiece o m (.linkRefDefBlock ds ln)
def piecesL (o : Opts) (m : Option Int) : List Block → Res (List (Bool × List Str))
  | [] => .ok []
  | b :: bs =>
    match pieces o m b with
    | .err e => .err e
    | .ok ps =>
      match piecesL o m bs with
      | .err e => .err e
      | .ok more => .ok (ps ++ more)
end

/-- the lines of a sequence of pieces -/
def flat (ps : List (Bool × List Str)) : List Str := (ps.map Prod.snd).flatten

/-- what is kept of a piece when the non-rigid ones are blanked out -/
def mask (x : Bool × List Str) : Option (List Str) := if x.1 then some x.2 else none

def mapRes {α β} (f : α → β) : Res α → Res β
  | .ok a => .ok (f a)
  | .err e => .err e

theorem prefixLines_none (ls : List Str) (p : Str) : prefixLines ls p none = prefixLinesAux p ls := by
  cases ls <;> simp [prefixLines, prefixLinesAux]

theorem prefixLinesAux_append (p : Str) : ∀ (a b : List Str),
    prefixLinesAux p (a ++ b) = prefixLinesAux p a ++ prefixLinesAux p b
  | [], b => by simp [prefixLinesAux]
  | x :: a, b => by simp [prefixLinesAux, prefixLinesAux_append p a b]

theorem flat_tagPrefix (p : Str) : ∀ (ps : List (Bool × List Str)), flat (tagPrefix p ps) = prefixLinesAux p (flat ps)
  | [] => by simp [flat, tagPrefix, prefixLinesAux]
  | x :: ps => by
    have ih := flat_tagPrefix p ps
    simp only [flat, tagPrefix, List.map_cons, List.flatten_cons] at ih ⊢
    rw [prefixLinesAux_append, ih]

theorem mask_tagPrefix (p : Str) (ps : List (Bool × List Str)) :
    (tagPrefix p ps).map mask = (ps.map mask).map (Option.map (prefixLinesAux p)) := by
  simp only [tagPrefix, List.map_map]
  apply List.map_congr_left
  intro x _
  cases hx : x.1 <;> simp [mask, hx]

theorem leafPiece_flat (o : Opts) (m : Option Int) (b : Block) : renderBlock o m b = mapRes flat (leafPiece o m b) := by
  unfold leafPiece
  cases renderBlock o m b <;> simp [mapRes, flat]

theorem leafPiece_mask (o1 o2 : Opts) (hn : o1.normalizeWhitespace = o2.normalizeWhitespace)
    (m1 m2 : Option Int) (b : Block) :
    mapRes (List.map mask) (leafPiece o1 m1 b) = mapRes (List.map mask) (leafPiece o2 m2 b) := by
  unfold leafPiece
  cases hr : rigidDeep b with
  | true => rw [renderBlock_rigidDeep o1 o2 hn m1 m2 b hr]
  | false =>
    have he := renderBlock_errOf o1 o2 hn m1 m2 b
    cases h1 : renderBlock o1 m1 b <;> cases h2 : renderBlock o2 m2 b <;> simp_all [errOf, mapRes, mask]

mutual
theorem pieces_flat (o : Opts) : ∀ (m : Option Int) (b : Block), renderBlock o m b = mapRes flat (pieces o m b)
  | m, .paragraph k ln => by simp only [pieces]; exact leafPiece_flat o m _
  | m, .heading l c k ln => by simp only [pieces]; exact leafPiece_flat o m _
  | m, .setextHeading l u k ln => by simp only [pieces]; exact leafPiece_flat o m _
  | m, .quote kids _ => by
    have ih := piecesL_flat o (childBudget m 2) kids
    simp only [pieces, renderBlock, ih]
    cases piecesL o (childBudget m 2) kids <;> simp [mapRes, prefixLines_none, flat_tagPrefix]
  | m, .blockCode c ln => by simp only [pieces]; exact leafPiece_flat o m _
  | m, .codeFence a b c d e ln => by simp only [pieces]; exact leafPiece_flat o m _
  | m, .list _ _ items _ => by simp only [pieces, renderBlock]; exact piecesL_flat o m items
  | m, .listItem a b c d kids ln => by simp only [pieces]; exact leafPiece_flat o m _
  | m, .table a h r ln => by simp only [pieces]; exact leafPiece_flat o m _
  | m, .tableRow a c ln => by simp only [pieces]; exact leafPiece_flat o m _
  | m, .tableCell a k ln => by simp only [pieces]; exact leafPiece_flat o m _
  | m, .thematicBreak l ln => by simp only [pieces]; exact leafPiece_flat o m _
  | m, .htmlBlock c ln => by simp only [pieces]; exact leafPiece_flat o m _
  | m, .blankLine ln => by simp only [pieces]; exact leafPiece_flat o m _
  | m, .linkRefDefBlock ds ln => by simp only [pieces]; exact leafPiece_flat o m _
theorem piecesL_flat (o : Opts) : ∀ (m : Option Int) (bs : List Block), renderBlocks o m bs = mapRes flat (piecesL o m bs)
  | _, [] => by simp [renderBlocks, piecesL, mapRes, flat]
  | m, b :: bs => by
    have h1 := pieces_flat o m b
    have h2 := piecesL_flat o m bs
    simp only [renderBlocks, piecesL, h1, h2]
    cases pieces o m b <;> cases piecesL o m bs <;> simp [mapRes, flat]
end

mutual
theorem pieces_mask (o1 o2 : Opts) (hn : o1.normalizeWhitespace = o2.normalizeWhitespace) : ∀ (m1 m2 : Option Int) (b : Block),
    mapRes (List.map mask) (pieces o1 m1 b) = mapRes (List.map mask) (pieces o2 m2 b)
  | m1, m2, .paragraph k ln => by simp only [pieces]; exact leafPiece_mask o1 o2 hn m1 m2 _
  | m1, m2, .heading l c k ln => by simp only [pieces]; exact leafPiece_mask o1 o2 hn m1 m2 _
  | m1, m2, .setextHeading l u k ln => by simp only [pieces]; exact leafPiece_mask o1 o2 hn m1 m2 _
  | m1, m2, .quote kids _ => by
    have ih := piecesL_mask o1 o2 hn (childBudget m1 2) (childBudget m2 2) kids
    simp only [pieces]
    cases h1 : piecesL o1 (childBudget m1 2) kids <;> cases h2 : piecesL o2 (childBudget m2 2) kids <;>
      simp_all [mapRes, mask_tagPrefix]
  | m1, m2, .blockCode c ln => by simp only [pieces]; exact leafPiece_mask o1 o2 hn m1 m2 _
  | m1, m2, .codeFence a b c d e ln => by simp only [pieces]; exact leafPiece_mask o1 o2 hn m1 m2 _
  | m1, m2, .list _ _ items _ => by simp only [pieces]; exact piecesL_mask o1 o2 hn m1 m2 items
  | m1, m2, .listItem a b c d kids ln => by simp only [pieces]; exact leafPiece_mask o1 o2 hn m1 m2 _
  | m1, m2, .table a h r ln => by simp only [pieces]; exact leafPiece_mask o1 o2 hn m1 m2 _
  | m1, m2, .tableRow a c ln => by simp only [pieces]; exact leafPiece_mask o1 o2 hn m1 m2 _
  | m1, m2, .tableCell a k ln => by simp only [pieces]; exact leafPiece_mask o1 o2 hn m1 m2 _
  | m1, m2, .thematicBreak l ln => by simp only [pieces]; exact leafPiece_mask o1 o2 hn m1 m2 _
  | m1, m2, .htmlBlock c ln => by simp only [pieces]; exact leafPiece_mask o1 o2 hn m1 m2 _
  | m1, m2, .blankLine ln => by simp only [pieces]; exact leafPiece_mask o1 o2 hn m1 m2 _
  | m1, m2, .linkRefDefBlock ds ln => by simp only [pieces]; exact leafPiece_mask o1 o2 hn m1 m2 _
theorem piecesL_mask (o1 o2 : Opts) (hn : o1.normalizeWhitespace = o2.normalizeWhitespace) : ∀ (m1 m2 : Option Int) (bs : List Block),
    mapRes (List.map mask) (piecesL o1 m1 bs) = mapRes (List.map mask) (piecesL o2 m2 bs)
  | _, _, [] => by simp only [piecesL]
  | m1, m2, b :: bs => by
    have h1 := pieces_mask o1 o2 hn m1 m2 b
    have h2 := piecesL_mask o1 o2 hn m1 m2 bs
    simp only [piecesL]
    cases c1 : pieces o1 m1 b <;> cases c2 : pieces o2 m2 b <;> cases c3 : piecesL o1 m1 bs <;>
      cases c4 : piecesL o2 m2 bs <;> simp_all [mapRes]
end

/-- **Mixed trees.**  For an ARBITRARY list of blocks and any two budgets: each output is the concatenation of its pieces
    (one per leaf / list item reached through block quotes and lists, behind the quote markers), and after blanking out the
    pieces of non-rigid blocks the two piece sequences are EQUAL - the same number of pieces in the same order, the same
    exception if any, and every piece of a `rigidDeep` block identical, quote markers included. -/
theorem C10_mixed_deep (o1 o2 : Opts) (hn : o1.normalizeWhitespace = o2.normalizeWhitespace)
    (m1 m2 : Option Int) (bs : List Block) :
    renderBlocks o1 m1 bs = mapRes flat (piecesL o1 m1 bs) ∧ renderBlocks o2 m2 bs = mapRes flat (piecesL o2 m2 bs) ∧
    mapRes (List.map mask) (piecesL o1 m1 bs) = mapRes (List.map mask) (piecesL o2 m2 bs) :=
  ⟨piecesL_flat o1 m1 bs, piecesL_flat o2 m2 bs, piecesL_mask o1 o2 hn m1 m2 bs⟩

/-- the same, spelled out for a list of blocks that renders: position by position, a piece tagged rigid under one budget is
    the same piece under the other -/
theorem C10_mixed_deep_ok (o1 o2 : Opts) (hn : o1.normalizeWhitespace = o2.normalizeWhitespace)
    (m1 m2 : Option Int) (bs : List Block) (ls1 : List Str) (h1 : renderBlocks o1 m1 bs = .ok ls1) :
    ∃ (ls2 : List Str) (p1 p2 : List (Bool × List Str)),
      renderBlocks o2 m2 bs = .ok ls2 ∧ piecesL o1 m1 bs = .ok p1 ∧ piecesL o2 m2 bs = .ok p2 ∧
      ls1 = flat p1 ∧ ls2 = flat p2 ∧ p1.length = p2.length ∧
      ∀ (i : Nat) (ls : List Str), p1[i]? = some (true, ls) ↔ p2[i]? = some (true, ls) := by
  obtain ⟨f1, f2, hm⟩ := C10_mixed_deep o1 o2 hn m1 m2 bs
  have he := renderBlocks_errOf o2 o1 hn.symm m2 m1 bs
  rw [h1] at he
  obtain ⟨ls2, h2⟩ := errOf_none he
  rw [h1] at f1; rw [h2] at f2
  cases c1 : piecesL o1 m1 bs with
  | err e => rw [c1] at f1; simp [mapRes] at f1
  | ok p1 =>
    cases c2 : piecesL o2 m2 bs with
    | err e => rw [c2] at f2; simp [mapRes] at f2
    | ok p2 =>
      rw [c1] at f1 hm; rw [c2] at f2 hm
      simp only [mapRes, Res.ok.injEq] at f1 f2 hm
      refine ⟨ls2, p1, p2, h2, rfl, rfl, f1, f2, ?_, ?_⟩
      · have := congrArg List.length hm; simpa using this
      · intro i ls
        have e := congrArg (·[i]?) hm
        simp only [List.getElem?_map] at e
        cases a1 : p1[i]? with
        | none => cases a2 : p2[i]? <;> simp_all
        | some x =>
          cases a2 : p2[i]? with
          | none => simp_all
          | some y =>
            obtain ⟨x1, x2⟩ := x
            obtain ⟨y1, y2⟩ := y
            rw [a1, a2] at e
            cases x1 <;> cases y1 <;> simp_all [mask]

/-! ## 7. The clause -/

/-- **C10, "not re-broken", leaves.**  An ATX heading, an indented or fenced code block, an HTML block, a table, a thematic
    break or a blank line renders to the same lines - or raises the same exception (a table without header row / with
    malformed rows, a heading or cell holding a span token without render-map entry) - whatever `max_line_length` it is
    handed (`some L` for any integer `L`, or `None`) and whatever the option set.  Requested form: `o` with the limit
    set to `L` against `o` with no limit. -/
theorem C10_rigid_leaf (o : Opts) (L : Int) (b : Block) (h : rigid b = true) :
    renderBlock { o with maxLineLength := some L } (some L) b = renderBlock { o with maxLineLength := none } none b :=
  renderBlock_rigid _ _ _ _ b h

/-- **C10, "not re-broken", trees of rigid blocks.**  Block quotes, lists and list items pass a smaller budget down
    (`childBudget`), their rigid content ignores it, and `prefix_lines` does not see the limit. -/
theorem C10_rigid_deep (o : Opts) (L : Int) :
    (∀ b, rigidDeep b = true →
      renderBlock { o with maxLineLength := some L } (some L) b = renderBlock { o with maxLineLength := none } none b) ∧
    (∀ bs, rigidDeepAll bs = true →
      renderBlocks { o with maxLineLength := some L } (some L) bs = renderBlocks { o with maxLineLength := none } none bs) ∧
    (∀ d : Doc, rigidDeepAll d.kids = true →
      renderRes { o with maxLineLength := some L } d = renderRes { o with maxLineLength := none } d ∧
      render { o with maxLineLength := some L } d = render { o with maxLineLength := none } d) := by
  have hb := renderBlock_rigidDeep { o with maxLineLength := some L } { o with maxLineLength := none } rfl
  have hbs := renderBlocks_rigidDeep { o with maxLineLength := some L } { o with maxLineLength := none } rfl
  refine ⟨fun b h => hb _ _ b h, fun bs h => hbs _ _ bs h, fun d h => ?_⟩
  have hr : renderRes { o with maxLineLength := some L } d = renderRes { o with maxLineLength := none } d := by
    unfold renderRes; rw [hbs _ _ d.kids h]
  exact ⟨hr, by unfold render; rw [hr]⟩

/-- final form, leaves: any two option sets, any two budgets -/
theorem C10_not_rebroken_leaf (b : Block) (h : rigid b = true) (o1 o2 : Opts) (m1 m2 : Option Int) :
    renderBlock o1 m1 b = renderBlock o2 m2 b := renderBlock_rigid o1 o2 m1 m2 b h

/-- final form, rigid trees: any two budgets, any two option sets with the same `normalize_whitespace`
    (a list item's prefix depends on that option, nothing else does) -/
theorem C10_not_rebroken_deep (b : Block) (h : rigidDeep b = true) (o1 o2 : Opts)
    (hn : o1.normalizeWhitespace = o2.normalizeWhitespace) (m1 m2 : Option Int) :
    renderBlock o1 m1 b = renderBlock o2 m2 b := renderBlock_rigidDeep o1 o2 hn m1 m2 b h

/-- final form, documents: the output of `MarkdownRenderer(max_line_length=…, normalize_whitespace=…).render(doc)` for a
    document of rigid blocks (at any depth) - the string, or the exception - does not depend on `max_line_length` -/
theorem C10_not_rebroken_document (d : Doc) (h : rigidDeepAll d.kids = true) (o1 o2 : Opts)
    (hn : o1.normalizeWhitespace = o2.normalizeWhitespace) :
    renderRes o1 d = renderRes o2 d ∧ render o1 d = render o2 d := by
  have hr : renderRes o1 d = renderRes o2 d := by
    unfold renderRes; rw [renderBlocks_rigidDeep o1 o2 hn o1.maxLineLength o2.maxLineLength d.kids h]
  exact ⟨hr, by unfold render; rw [hr]⟩

/-- final form, arbitrary documents: whatever else the document holds, the rendering with limit `L` and without limit are
    the joined lines of two piece sequences that agree in length and on every piece of a rigid block -/
theorem C10_not_rebroken_mixed_document (d : Doc) (o : Opts) (L : Int) (s1 : Str)
    (h1 : renderRes { o with maxLineLength := some L } d = .ok s1) :
    ∃ (s2 : Str) (p1 p2 : List (Bool × List Str)),
      renderRes { o with maxLineLength := none } d = .ok s2 ∧
      s1 = joinLines (flat p1) ∧ s2 = joinLines (flat p2) ∧
      piecesL { o with maxLineLength := some L } (some L) d.kids = .ok p1 ∧
      piecesL { o with maxLineLength := none } none d.kids = .ok p2 ∧ p1.length = p2.length ∧
      ∀ (i : Nat) (ls : List Str), p1[i]? = some (true, ls) ↔ p2[i]? = some (true, ls) := by
  unfold renderRes at h1 ⊢
  cases hc : renderBlocks { o with maxLineLength := some L } (some L) d.kids with
  | err e => simp only [hc] at h1; cases h1
  | ok ls1 =>
    simp only [hc, Res.ok.injEq] at h1
    obtain ⟨ls2, p1, p2, h2, c1, c2, f1, f2, hl, hp⟩ :=
      C10_mixed_deep_ok { o with maxLineLength := some L } { o with maxLineLength := none } rfl (some L) none d.kids ls1 hc
    refine ⟨joinLines ls2, p1, p2, ?_, ?_, ?_, c1, c2, hl, hp⟩
    · simp only [h2]
    · rw [← h1, f1]
    · rw [f2]

/-! ## 8. Non-vacuity, exactness of the classification, comparison with the real code -/

/-- a hand-made document: ATX heading, fenced code, table, HTML block, a quote holding a fenced code block, a list whose
    item holds an indented code block and a thematic break - every line longer than 5 -/
def docH : Doc :=
  { kids :=
      [ .heading 1 [] [.rawText "a very long heading line that exceeds the limit".toList] 1,
        .blankLine 2,
        .codeFence [] 0 "```".toList [] "long code line here\n".toList 3,
        .table [none, none]
          [.tableRow [none, none] [.tableCell none [.rawText "a very long cell".toList] 7, .tableCell none [.rawText "b".toList] 7] 7]
          [] 7,
        .htmlBlock "<div>long html line here</div>".toList 10,
        .quote [.codeFence [] 0 "```".toList [] "quoted long code line\n".toList 12] 12,
        .list false none
          [.listItem "-".toList 0 2 false [.blockCode "indented code in an item\n".toList 15, .thematicBreak "* * * * *".toList 16] 15] 15 ],
    footnotes := [] }

example : rigidDeepAll docH.kids = true := by decide +kernel

/-- the theorem applies: limit 5 (and -3, and 0) against no limit, both values of `normalize_whitespace` -/
example (nw : Bool) (L : Int) :
    renderRes { maxLineLength := some L, normalizeWhitespace := nw } docH
      = renderRes { maxLineLength := none, normalizeWhitespace := nw } docH :=
  (C10_not_rebroken_document docH (by decide +kernel) _ _ rfl).1

/-- and by kernel evaluation: the rendering with L = 5 is this text, every line as long as it was -/
example : render { maxLineLength := some 5 } docH =
    ("# a very long heading line that exceeds the limit\n\n```\nlong code line here\n```\n" ++
     "| a very long cell | b   |\n| ---------------- | --- |\n<div>long html line here</div>\n" ++
     "> ```\n> quoted long code line\n> ```\n-     indented code in an item\n  * * * * *\n").toList := by decide +kernel

/-- the text of the task -/
def TEXT : Str :=
  ("# a very long heading line that exceeds the limit\n\n```\nlong code line here\n```\n\n" ++
   "| a very long cell | b |\n|---|---|\n\n<div>long html line here</div>\n\n> ```\n> quoted long code line\n> ```\n").toList

/-- what `MarkdownRenderer(max_line_length=L).render(Document(TEXT))` prints in the real code, for L = None and L = 5 -/
def OUT : Str :=
  ("# a very long heading line that exceeds the limit\n\n```\nlong code line here\n```\n\n" ++
   "| a very long cell | b   |\n| ---------------- | --- |\n\n<div>long html line here</div>\n\n" ++
   "> ```\n> quoted long code line\n> ```\n").toList

/-- a document of rigid blocks whose rendering under limit `L` is OUT -/
def checkDoc (L : Option Int) (d : Doc) : Bool :=
  rigidDeepAll d.kids && decide (renderRes { maxLineLength := L } d = .ok OUT)

/-- the parse of TEXT under the Markdown renderer's token lists is such a document -/
def checkParsed (L : Option Int) : Bool :=
  match Config.markdown with
  | none => false
  | some cfg =>
    match Document.parse cfg 100 TEXT with
    | .err _ => false
    | .ok d => checkDoc L d && checkDoc none d

/-- kernel evaluation: parse, test `rigidDeepAll`, render with L = 5 and without limit, compare both with OUT -/
theorem checkParsed_5 : checkParsed (some 5) = true := by decide +kernel

/-- the theorem's conclusion on the parsed document: for EVERY limit the output is OUT -/
example (cfg : Document.Cfg) (hcfg : Config.markdown = some cfg) (d : Doc) (hd : Document.parse cfg 100 TEXT = .ok d)
    (L : Int) : renderRes { maxLineLength := some L } d = .ok OUT ∧ render { maxLineLength := some L } d = OUT := by
  have h := checkParsed_5
  unfold checkParsed at h
  rw [hcfg] at h
  dsimp only at h
  rw [hd] at h
  dsimp only at h
  rw [Bool.and_eq_true] at h
  replace h := h.2
  unfold checkDoc at h
  rw [Bool.and_eq_true, decide_eq_true_eq] at h
  have hr := (C10_not_rebroken_document d h.1 { maxLineLength := some L } { maxLineLength := none } rfl).1
  have : renderRes { maxLineLength := some L } d = .ok OUT := hr.trans h.2
  exact ⟨this, by unfold render; rw [this]⟩

/-! ### The classification is exact: every other leaf kind IS re-broken -/

example : renderBlock {} (some 3) (.paragraph [.rawText "aaa bbb".toList] 1) = .ok ["aaa".toList, "bbb".toList]
    ∧ renderBlock {} none (.paragraph [.rawText "aaa bbb".toList] 1) = .ok ["aaa bbb".toList] := by decide +kernel
example : renderBlock {} (some 3) (.setextHeading 1 "===".toList [.rawText "aaa bbb".toList] 1)
      = .ok ["aaa".toList, "bbb".toList, "===".toList]
    ∧ renderBlock {} none (.setextHeading 1 "===".toList [.rawText "aaa bbb".toList] 1)
      = .ok ["aaa bbb".toList, "===".toList] := by decide +kernel
example : renderBlock {} (some 3) (.linkRefDefBlock [.linkRefDef "a".toList "/u".toList "t t".toList .uri (some "\"".toList)] 1)
      ≠ renderBlock {} none (.linkRefDefBlock [.linkRefDef "a".toList "/u".toList "t t".toList .uri (some "\"".toList)] 1) := by
  decide +kernel
/-- `TableRow` / `TableCell` outside a table: `TypeError` with and without limit -/
example : renderBlock {} (some 3) (.tableCell none [] 1) = .err .type ∧ renderBlock {} none (.tableCell none [] 1) = .err .type := by
  decide +kernel

/-! ### Mixed documents -/

/-- a paragraph, a fenced code block and a quote holding a paragraph and an indented code block -/
def mixedKids : List Block :=
  [ .paragraph [.rawText "aaa bbb ccc".toList] 1,
    .codeFence [] 0 "```".toList [] "long code line here\n".toList 3,
    .quote [.paragraph [.rawText "ddd eee fff".toList] 6, .blankLine 7, .blockCode "quoted code line\n".toList 8] 6 ]

example : piecesL {} (some 5) mixedKids = .ok
    [ (false, ["aaa".toList, "bbb".toList, "ccc".toList]),
      (true, ["```".toList, "long code line here".toList, "```".toList]),
      (false, ["> ddd".toList, "> eee".toList, "> fff".toList]), (true, ["> ".toList]),
      (true, [">     quoted code line".toList]) ] := by decide +kernel
example : piecesL {} none mixedKids = .ok
    [ (false, ["aaa bbb ccc".toList]),
      (true, ["```".toList, "long code line here".toList, "```".toList]),
      (false, ["> ddd eee fff".toList]), (true, ["> ".toList]),
      (true, [">     quoted code line".toList]) ] := by decide +kernel
def mixed5Lines : List Str :=
  [ "aaa".toList, "bbb".toList, "ccc".toList, "```".toList, "long code line here".toList, "```".toList,
    "> ddd".toList, "> eee".toList, "> fff".toList, "> ".toList, ">     quoted code line".toList ]
theorem mixed5 : renderBlocks {} (some 5) mixedKids = .ok mixed5Lines := by decide +kernel
example : ∃ (ls2 : List Str) (p1 p2 : List (Bool × List Str)),
    renderBlocks {} none mixedKids = .ok ls2 ∧ piecesL {} (some 5) mixedKids = .ok p1 ∧
    piecesL {} none mixedKids = .ok p2 ∧ mixed5Lines = flat p1 ∧ ls2 = flat p2 ∧ p1.length = p2.length ∧
    ∀ (i : Nat) (ls : List Str), p1[i]? = some (true, ls) ↔ p2[i]? = some (true, ls) :=
  C10_mixed_deep_ok {} {} rfl (some 5) none mixedKids _ mixed5

/-- Why the pieces stop at list items: a hand-made (never parsed) whitespace-only paragraph renders one line " " without
    limit and NO line with a limit (`make_words` yields nothing), so inside a list item the leader moves onto the first
    line of the code block that follows.  The code line is not re-broken, but the item's line list is not the same
    behind the leader.  Real code (the parsed tree of "- a\n\n      x\n" with the RawText content set to " " and the
    BlankLine deleted): '-  \n      x\n' without limit, '-     x\n' with max_line_length=5 - the same. -/
def listItem_shift : Block :=
  .listItem "-".toList 0 2 false [.paragraph [.rawText " ".toList] 1, .blockCode "x\n".toList 3] 1
example : renderBlock {} none listItem_shift = .ok ["-  ".toList, "      x".toList]
    ∧ renderBlock {} (some 5) listItem_shift = .ok ["-     x".toList] := by decide +kernel

end Mistletoe.Proofs.NoRebreak
