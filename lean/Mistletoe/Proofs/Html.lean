/-
  Helper lemmas for C08 (and C18/C19): balancedness and safety of the HTML renderer's events.
-/
import Mistletoe.Model.Pred
namespace Mistletoe.Html
open Mistletoe Mistletoe.Escape Mistletoe.Pred

/-! ### Balanced -/

theorem Balanced.append {a b : List Ev} (ha : Balanced a) (hb : Balanced b) : Balanced (a ++ b) := by
  induction ha with
  | nil => simpa using hb
  | vtag t as _ ih => exact Balanced.vtag t as ih
  | text s _ ih => exact Balanced.text s ih
  | raw s _ ih => exact Balanced.raw s ih
  | @wrap t as inner rest hi _ _ ih2 =>
    have : Ev.otag t as :: (inner ++ Ev.ctag t :: rest) ++ b = Ev.otag t as :: (inner ++ Ev.ctag t :: (rest ++ b)) := by
      simp
    rw [this]
    exact Balanced.wrap t as hi ih2

theorem Balanced.wrap1 (t as) {inner : List Ev} (h : Balanced inner) :
    Balanced ([Ev.otag t as] ++ inner ++ [Ev.ctag t]) := by
  have := Balanced.wrap t as h Balanced.nil
  simpa using this

theorem Balanced.nl : Balanced [nl] := Balanced.text _ Balanced.nil

/-! ### Character-level safety of the escapers -/

theorem getD_mem_of_lt {α} (l : List α) (i : Nat) (d : α) (h : i < l.length) : l.getD i d ∈ l := by
  rw [← List.getElem_eq_getD (h := h) d]; exact List.getElem_mem h

theorem hexDigit_mem (n : Nat) : hexDigit n ∈ hexDigits := by
  unfold hexDigit
  apply getD_mem_of_lt
  have : hexDigits.length = 16 := by decide
  omega

theorem decDigit_mem (n : Nat) : decDigit n ∈ decDigits := by
  unfold decDigit
  apply getD_mem_of_lt
  have : decDigits.length = 10 := by decide
  omega

theorem safeAttr_append (a b : Str) : safeAttr (a ++ b) = (safeAttr a && safeAttr b) := by
  simp [safeAttr, List.all_append]

theorem safeAttr_nil : safeAttr [] = true := rfl

theorem safeAttr_flatMap {α} (f : α → Str) (l : List α) (h : ∀ x ∈ l, safeAttr (f x) = true) :
    safeAttr (l.flatMap f) = true := by
  induction l with
  | nil => rfl
  | cons x xs ih =>
    rw [List.flatMap_cons, safeAttr_append, h x (List.mem_cons_self ..), ih (fun y hy => h y (List.mem_cons_of_mem _ hy))]
    rfl

theorem safeAttr_pctByte (b : Nat) : safeAttr (pctByte b) = true := by
  have h : ∀ c ∈ hexDigits, safeAttrChar c = true := by decide
  have h1 := h _ (hexDigit_mem (b / 16))
  have h2 := h _ (hexDigit_mem (b % 16))
  simp only [pctByte, safeAttr, List.all_cons, List.all_nil, h1, h2]
  decide

theorem safeAttr_pctUtf8 (c : Char) : safeAttr (pctUtf8 c) = true :=
  safeAttr_flatMap _ _ (fun b _ => safeAttr_pctByte b)

theorem safeAttr_mapChars (tbl : List Str) (above : Char → Str) (hlen : tbl.length = 128)
    (htbl : tbl.all safeAttr = true) (habove : ∀ c, safeAttr (above c) = true) (s : Str) :
    safeAttr (mapChars tbl above s) = true := by
  unfold mapChars
  apply safeAttr_flatMap
  intro c _
  split
  · rename_i h
    have hm := getD_mem_of_lt tbl c.toNat [c] (by omega)
    exact List.all_eq_true.mp htbl _ hm
  · exact habove c

theorem safeAttr_htmlEscapeUrl (s : Str) : safeAttr (htmlEscapeUrl s) = true :=
  safeAttr_mapChars _ _ (by decide +kernel) (by decide +kernel) safeAttr_pctUtf8 s

theorem safeAttrChar_of_ge (c : Char) (h : ¬ c.toNat < 128) : safeAttrChar c = true := by
  unfold safeAttrChar
  have h1 : c ≠ '"' := by intro e; subst e; exact h (by decide)
  have h2 : c ≠ '<' := by intro e; subst e; exact h (by decide)
  have h3 : c ≠ '>' := by intro e; subst e; exact h (by decide)
  simp [h1, h2, h3]

/-- `html.escape` output (quote=True) never contains `"`, `<` or `>`. -/
theorem safeAttr_htmlEscape (s : Str) : safeAttr (htmlEscape s) = true := by
  unfold htmlEscape mapChars
  apply safeAttr_flatMap
  intro c _
  split
  · rename_i h
    have hlen : Gen.Chains.htmlEscape.length = 128 := by decide +kernel
    have hm := getD_mem_of_lt Gen.Chains.htmlEscape c.toNat [c] (by omega)
    have hall : Gen.Chains.htmlEscape.all safeAttr = true := by decide +kernel
    exact List.all_eq_true.mp hall _ hm
  · rename_i h
    simp [ident, safeAttr, safeAttrChar_of_ge c h]

theorem safeAttr_natDigitsAux (fuel n : Nat) (acc : Str) (h : safeAttr acc = true) :
    safeAttr (natDigitsAux fuel n acc) = true := by
  have hd : ∀ c ∈ decDigits, safeAttrChar c = true := by decide
  have hcons : ∀ m, safeAttr (decDigit m :: acc) = true := by
    intro m; simp [safeAttr, hd _ (decDigit_mem m)]; simpa [safeAttr] using h
  induction fuel generalizing n acc with
  | zero => simpa [natDigitsAux] using hcons n
  | succ f ih =>
    simp only [natDigitsAux]
    split
    · exact hcons n
    · apply ih
      · simp [safeAttr, hd _ (decDigit_mem n)]; simpa [safeAttr] using h
      · intro m; simp [safeAttr, hd _ (decDigit_mem m), hd _ (decDigit_mem n)]; simpa [safeAttr] using h

theorem safeAttr_natDigits (n : Nat) : safeAttr (natDigits n) = true :=
  safeAttr_natDigitsAux n n [] rfl

mutual
theorem safeAttr_toPlain : ∀ (i : Inline), safeAttr (toPlain i) = true
  | .rawText c => by simp [toPlain, safeAttr_htmlEscape]
  | .strong _ k => by simp [toPlain, safeAttr_toPlains k]
  | .emphasis _ k => by simp [toPlain, safeAttr_toPlains k]
  | .inlineCode _ _ c => by simp [toPlain, safeAttr_htmlEscape]
  | .strikethrough k => by simp [toPlain, safeAttr_toPlains k]
  | .image _ _ _ _ _ k => by simp [toPlain, safeAttr_toPlains k]
  | .link _ _ _ _ _ k => by simp [toPlain, safeAttr_toPlains k]
  | .autoLink t _ => by simp [toPlain, safeAttr_htmlEscape]
  | .escapeSequence c => by simp [toPlain, safeAttr_htmlEscape]
  | .lineBreak c _ => by simp [toPlain, safeAttr_htmlEscape]
  | .htmlSpan c => by simp [toPlain, safeAttr_htmlEscape]
  | .math c => by simp [toPlain, safeAttr_htmlEscape]
  | .githubWiki _ k => by simp [toPlain, safeAttr_toPlains k]
  | .xwikiMacroStart c => by simp [toPlain, safeAttr_htmlEscape]
  | .xwikiMacroEnd c => by simp [toPlain, safeAttr_htmlEscape]
  | .linkRefDef .. => by simp [toPlain, safeAttr_nil]
theorem safeAttr_toPlains : ∀ (is : List Inline), safeAttr (toPlains is) = true
  | [] => rfl
  | i :: is => by simp [toPlains, safeAttr_append, safeAttr_toPlain i, safeAttr_toPlains is]
end

/-! ### Text safety -/

theorem isPrefixOf_append {a b : Str} (c : Str) (h : a.isPrefixOf b = true) : a.isPrefixOf (b ++ c) = true := by
  induction a generalizing b with
  | nil => simp
  | cons x xs ih =>
    cases b with
    | nil => simp at h
    | cons y ys =>
      simp only [List.isPrefixOf_cons_cons, Bool.and_eq_true, List.cons_append] at h ⊢
      exact ⟨h.1, ih h.2⟩

theorem safeText_append (a b : Str) (ha : safeText a = true) (hb : safeText b = true) :
    safeText (a ++ b) = true := by
  induction a with
  | nil => simpa using hb
  | cons c rest ih =>
    simp only [List.cons_append, safeText] at ha ⊢
    split
    · rename_i hc
      simp only [hc, if_true, Bool.and_eq_true, List.any_eq_true] at ha
      simp only [Bool.and_eq_true, List.any_eq_true]
      obtain ⟨⟨t, ht, hp⟩, hr⟩ := ha
      exact ⟨⟨t, ht, isPrefixOf_append b hp⟩, ih hr⟩
    · rename_i hc
      simp only [hc, if_false, Bool.and_eq_true] at ha
      simp only [Bool.and_eq_true]
      exact ⟨ha.1, ih ha.2⟩

theorem safeText_flatMap {α} (f : α → Str) (l : List α) (h : ∀ x ∈ l, safeText (f x) = true) :
    safeText (l.flatMap f) = true := by
  induction l with
  | nil => rfl
  | cons x xs ih =>
    rw [List.flatMap_cons]
    exact safeText_append _ _ (h x (List.mem_cons_self ..)) (ih (fun y hy => h y (List.mem_cons_of_mem _ hy)))

theorem safeText_single_of_ge (c : Char) (h : ¬ c.toNat < 128) : safeText [c] = true := by
  have h0 : c ≠ '&' := by intro e; subst e; exact h (by decide)
  have h2 : c ≠ '<' := by intro e; subst e; exact h (by decide)
  have h3 : c ≠ '>' := by intro e; subst e; exact h (by decide)
  simp [safeText, h0, h2, h3]

theorem safeText_mapChars_ident (tbl : List Str) (hlen : tbl.length = 128)
    (htbl : tbl.all safeText = true) (s : Str) : safeText (mapChars tbl ident s) = true := by
  unfold mapChars
  apply safeText_flatMap
  intro c _
  split
  · rename_i h
    exact List.all_eq_true.mp htbl _ (getD_mem_of_lt tbl c.toNat [c] (by omega))
  · rename_i h
    exact safeText_single_of_ge c h

/-- Whatever the options, `escape_html_text` yields safe text. -/
theorem safeText_escapeHtmlText (dq sq : Bool) (s : Str) : safeText (escapeHtmlText dq sq s) = true := by
  unfold escapeHtmlText
  cases dq <;> cases sq <;> exact safeText_mapChars_ident _ (by decide +kernel) (by decide +kernel) s


/-! ### Well-formed event lists: combinators -/

def allOk (evs : List Ev) : Bool := evs.all evOk

/-- Balanced and every event admissible. -/
def WF (evs : List Ev) : Prop := Balanced evs ∧ allOk evs = true

theorem WF.nil : WF [] := ⟨Balanced.nil, rfl⟩

theorem WF.append {a b : List Ev} (ha : WF a) (hb : WF b) : WF (a ++ b) :=
  ⟨Balanced.append ha.1 hb.1, by simp [allOk, List.all_append]; exact ⟨by simpa [allOk] using ha.2, by simpa [allOk] using hb.2⟩⟩

theorem WF.text (s : Str) (h : safeText s = true) : WF [Ev.text s] :=
  ⟨Balanced.text s Balanced.nil, by simp [allOk, evOk, h]⟩

theorem WF.nl : WF [nl] := WF.text _ (by decide)

theorem WF.raw (s : Str) : WF [Ev.raw s] := ⟨Balanced.raw s Balanced.nil, by simp [allOk, evOk]⟩

theorem WF.vtag (t : Str) (as : List (Str × Str)) (ht : htmlVocabulary.contains t = true)
    (ha : attrsOk as = true) : WF [Ev.vtag t as] :=
  ⟨Balanced.vtag t as Balanced.nil, by simp only [allOk, List.all_cons, List.all_nil, evOk, ht, ha]; rfl⟩

theorem WF.wrap (t : Str) (as : List (Str × Str)) {inner : List Ev} (ht : htmlVocabulary.contains t = true)
    (ha : attrsOk as = true) (hi : WF inner) : WF ([Ev.otag t as] ++ inner ++ [Ev.ctag t]) := by
  refine ⟨Balanced.wrap1 t as hi.1, ?_⟩
  have := hi.2
  simp only [allOk, List.all_append, List.all_cons, List.all_nil, evOk, ht, ha, Bool.and_true, Bool.true_and] at this ⊢
  exact this

theorem attrsOk_nil : attrsOk [] = true := rfl
theorem attrsOk_cons (k v : Str) (rest : List (Str × Str)) (hk : htmlAttrNames.contains k = true)
    (hv : safeAttr v = true) (hr : attrsOk rest = true) : attrsOk ((k, v) :: rest) = true := by
  simp only [attrsOk, List.all_cons, hk, hv, Bool.and_true, Bool.true_and]
  exact hr
theorem attrsOk_append (a b : List (Str × Str)) (ha : attrsOk a = true) (hb : attrsOk b = true) :
    attrsOk (a ++ b) = true := by
  simp only [attrsOk, List.all_append, Bool.and_eq_true]
  exact ⟨ha, hb⟩

theorem attrsOk_title (t : Str) : attrsOk (titleAttr t) = true := by
  unfold titleAttr
  split
  · rfl
  · exact attrsOk_cons _ _ _ (by decide) (safeAttr_htmlEscape t) rfl

theorem safeText_tail (c : Char) (rest : Str) (h : safeText (c :: rest) = true) : safeText rest = true := by
  simp only [safeText] at h
  split at h <;> simp only [Bool.and_eq_true] at h <;> exact h.2

theorem safeText_dropWhile (p : Char → Bool) (s : Str) (h : safeText s = true) :
    safeText (s.dropWhile p) = true := by
  induction s with
  | nil => rfl
  | cons c rest ih =>
    simp only [List.dropWhile_cons]
    split
    · exact ih (safeText_tail c rest h)
    · exact h

theorem isPrefixOf_rstripDollar (t rest : Str) (ht : t ≠ []) (hd : ∀ c ∈ t, c ≠ '$')
    (h : t.isPrefixOf rest = true) : t.isPrefixOf (rstripDollar rest) = true := by
  induction t generalizing rest with
  | nil => exact absurd rfl ht
  | cons x xs ih =>
    cases rest with
    | nil => simp at h
    | cons y ys =>
      simp only [List.isPrefixOf_cons_cons, Bool.and_eq_true, beq_iff_eq] at h
      obtain ⟨hxy, hp⟩ := h
      subst hxy
      have hx : x ≠ '$' := hd x (List.mem_cons_self ..)
      simp only [rstripDollar]
      cases xs with
      | nil =>
        split <;> simp [hx]
      | cons z zs =>
        have := ih ys (by simp) (fun c hc => hd c (List.mem_cons_of_mem _ hc)) hp
        split
        · rename_i heq; rw [heq] at this; simp at this
        · simp only [List.isPrefixOf_cons_cons, Bool.and_eq_true, beq_self_eq_true, true_and]
          exact this

theorem safeText_rstripDollar (s : Str) (h : safeText s = true) : safeText (rstripDollar s) = true := by
  induction s with
  | nil => rfl
  | cons c rest ih =>
    have hr := ih (safeText_tail c rest h)
    simp only [rstripDollar]
    by_cases hc : c = '&'
    · subst hc
      simp only [safeText, if_true, Bool.and_eq_true, List.any_eq_true] at h
      obtain ⟨⟨t, ht, hp⟩, _⟩ := h
      have hall : ∀ t ∈ entityTails, t ≠ [] ∧ ∀ c ∈ t, c ≠ '$' := by decide
      have hne : t ≠ [] := (hall t ht).1
      have hnd : ∀ c ∈ t, c ≠ '$' := (hall t ht).2
      have hp' := isPrefixOf_rstripDollar t rest hne hnd hp
      split
      · rename_i heq
        rw [heq] at hp'
        cases t with
        | nil => exact absurd rfl hne
        | cons _ _ => simp at hp'
      · simp only [safeText, if_true, Bool.and_eq_true, List.any_eq_true]
        exact ⟨⟨t, ht, hp'⟩, hr⟩
    · have hc' : safeText [c] = true := by
        simp only [safeText, hc, if_false] at h ⊢
        simp only [Bool.and_eq_true] at h
        simp [h.1.1, h.1.2]
      split
      · split
        · rfl
        · exact hc'
      · rename_i r _
        have : safeText (c :: rstripDollar rest) = true := by
          simp only [safeText, hc, if_false, Bool.and_eq_true] at h ⊢
          exact ⟨h.1, hr⟩
        exact this

theorem safeText_stripDollar (s : Str) (h : safeText s = true) : safeText (stripDollar s) = true :=
  safeText_rstripDollar _ (safeText_dropWhile _ s h)

/-! ### Every rendering function yields a well-formed event list -/

theorem v (t : String) (h : htmlVocabulary.contains t.toList = true := by decide) :
    htmlVocabulary.contains t.toList = true := h

mutual
theorem inline_wf (o : Quotes) : ∀ (i : Inline), WF (renderInline o i)
  | .rawText c => WF.text _ (safeText_escapeHtmlText ..)
  | .strong _ k => WF.wrap _ _ (v "strong") rfl (inlines_wf o k)
  | .emphasis _ k => WF.wrap _ _ (v "em") rfl (inlines_wf o k)
  | .inlineCode _ _ c => by
    have := WF.wrap "code".toList [] (v "code") rfl (WF.text _ (safeText_escapeHtmlText o.dq o.sq c))
    simpa [renderInline] using this
  | .strikethrough k => WF.wrap _ _ (v "del") rfl (inlines_wf o k)
  | .image src title _ _ _ k => by
    simp only [renderInline]
    refine WF.vtag _ _ (v "img") ?_
    exact attrsOk_append _ _
      (attrsOk_cons _ _ _ (by decide) (safeAttr_htmlEscapeUrl src)
        (attrsOk_cons _ _ _ (by decide) (safeAttr_toPlains k) rfl))
      (attrsOk_title title)
  | .link target title _ _ _ k => by
    simp only [renderInline]
    refine WF.wrap _ _ (v "a") ?_ (inlines_wf o k)
    exact attrsOk_append _ _ (attrsOk_cons _ _ _ (by decide) (safeAttr_htmlEscapeUrl target) rfl)
      (attrsOk_title title)
  | .autoLink target mailto => by
    have h : attrsOk [("href".toList, (if mailto then "mailto:".toList else []) ++ htmlEscapeUrl target)] = true := by
      refine attrsOk_cons _ _ _ (by decide) ?_ rfl
      rw [safeAttr_append, safeAttr_htmlEscapeUrl]
      cases mailto <;> decide
    have := WF.wrap "a".toList _ (v "a") h (WF.text _ (safeText_escapeHtmlText o.dq o.sq target))
    simpa [renderInline] using this
  | .escapeSequence c => WF.text _ (safeText_escapeHtmlText ..)
  | .lineBreak _ soft => by
    simp only [renderInline]
    split
    · exact WF.nl
    · exact WF.append (WF.vtag _ _ (v "br") rfl) WF.nl
  | .htmlSpan c => WF.raw c
  | .math c => by
    simp only [renderInline]
    split
    · exact WF.text _ (safeText_escapeHtmlText ..)
    · refine WF.text _ ?_
      exact safeText_append _ _ (safeText_append _ _ (by decide)
        (safeText_stripDollar _ (safeText_escapeHtmlText ..))) (by decide)
  | .githubWiki target k => by
    simp only [renderInline]
    exact WF.wrap _ _ (v "a") (attrsOk_cons _ _ _ (by decide) (safeAttr_htmlEscapeUrl target) rfl) (inlines_wf o k)
  | .xwikiMacroStart _ => WF.nil
  | .xwikiMacroEnd _ => WF.nil
  | .linkRefDef .. => WF.nil
theorem inlines_wf (o : Quotes) : ∀ (is : List Inline), WF (renderInlines o is)
  | [] => WF.nil
  | i :: is => WF.append (inline_wf o i) (inlines_wf o is)
end

theorem heading_tag (l : Nat) (h1 : 1 ≤ l) (h6 : l ≤ 6) :
    htmlVocabulary.contains ('h' :: natDigits l) = true := by
  have : l = 1 ∨ l = 2 ∨ l = 3 ∨ l = 4 ∨ l = 5 ∨ l = 6 := by omega
  rcases this with rfl | rfl | rfl | rfl | rfl | rfl <;> decide

theorem alignName_safe (a : Option Nat) : safeAttr (alignName a) = true := by
  unfold alignName
  split <;> decide

theorem langAttr_ok (lang : Str) :
    attrsOk (if lang.isEmpty then [] else [("class".toList, "language-".toList ++ htmlEscape lang)]) = true := by
  split
  · rfl
  · refine attrsOk_cons _ _ _ (by decide) ?_ rfl
    rw [safeAttr_append, safeAttr_htmlEscape]
    decide

theorem cell_wf (o : Quotes) (h : Bool) (c : Block) : WF (renderCell o h c) := by
  cases c <;> simp only [renderCell] <;> try exact WF.nil
  rename_i a k _
  have ht : htmlVocabulary.contains (if h = true then "th".toList else "td".toList) = true := by
    cases h <;> decide
  have := WF.append (WF.wrap _ [("align".toList, alignName a)] ht
    (attrsOk_cons _ _ _ (by decide) (alignName_safe a) rfl) (inlines_wf o k)) WF.nl
  simpa using this

theorem cells_wf (o : Quotes) (h : Bool) : ∀ (cs : List Block), WF (renderCells o h cs)
  | [] => WF.nil
  | c :: cs => by
    simp only [renderCells]
    exact WF.append (cell_wf o h c) (cells_wf o h cs)

theorem row_wf (o : Quotes) (s h : Bool) (r : Block) : WF (renderRow o s h r) := by
  cases r <;> simp only [renderRow] <;> try exact WF.nil
  rename_i a cells _
  have := WF.append (WF.wrap "tr".toList [] (v "tr") rfl (WF.append WF.nl (cells_wf o h cells))) WF.nl
  simpa using this

theorem li_wf (lead inner trail : List Ev) (hl : WF lead) (ht : WF trail) (hi : WF inner) :
    WF ([Ev.otag "li".toList []] ++ lead ++ inner ++ trail ++ [Ev.ctag "li".toList]) := by
  have := WF.wrap "li".toList [] (v "li") rfl (WF.append (WF.append hl hi) ht)
  simpa using this

theorem table_wf (head body : List Ev) (hh : WF head) (hb : WF body) :
    WF ([Ev.otag "table".toList [], nl] ++ head ++ [Ev.otag "tbody".toList [], nl] ++ body
      ++ [Ev.ctag "tbody".toList, nl] ++ [Ev.ctag "table".toList]) := by
  have hbody := WF.append (WF.wrap "tbody".toList [] (v "tbody") rfl (WF.append WF.nl hb)) WF.nl
  have := WF.wrap "table".toList [] (v "table") rfl (WF.append (WF.append WF.nl hh) hbody)
  simpa using this

mutual
theorem block_wf (o : Quotes) : ∀ (s : Bool) (b : Block), levelsOk b = true → WF (renderBlock o s b)
  | s, .paragraph k _, _ => by
    simp only [renderBlock]
    split
    · exact inlines_wf o k
    · exact WF.wrap _ _ (v "p") rfl (inlines_wf o k)
  | s, .heading l _ k _, h => by
    simp only [levelsOk, Bool.and_eq_true, decide_eq_true_eq] at h
    exact WF.wrap _ _ (heading_tag l h.1 h.2) rfl (inlines_wf o k)
  | s, .setextHeading l _ k _, h => by
    simp only [levelsOk, Bool.and_eq_true, decide_eq_true_eq] at h
    exact WF.wrap _ _ (heading_tag l h.1 h.2) rfl (inlines_wf o k)
  | s, .quote kids _, h => by
    simp only [levelsOk] at h
    have := WF.wrap "blockquote".toList [] (v "blockquote") rfl (WF.append WF.nl (afterEach_wf o false kids h))
    simpa [renderBlock] using this
  | s, .blockCode c _, _ => by
    have := WF.wrap "pre".toList [] (v "pre") rfl
      (WF.wrap "code".toList [] (v "code") rfl (WF.text _ (safeText_escapeHtmlText o.dq o.sq c)))
    simpa [renderBlock] using this
  | s, .codeFence lang _ _ _ c _, _ => by
    have := WF.wrap "pre".toList [] (v "pre") rfl
      (WF.wrap "code".toList _ (v "code") (langAttr_ok lang) (WF.text _ (safeText_escapeHtmlText o.dq o.sq c)))
    simp only [renderBlock]
    exact this
  | s, .list loose start items _, h => by
    simp only [levelsOk] at h
    simp only [renderBlock]
    have hin := WF.append (WF.append WF.nl (sep_wf o (!loose) items h)) WF.nl
    cases start with
    | none =>
      have := WF.wrap "ul".toList [] (v "ul") rfl hin
      simpa using this
    | some n =>
      have ha : attrsOk (if n != 1 then [("start".toList, natDigits n)] else []) = true := by
        split
        · exact attrsOk_cons _ _ _ (by decide) (safeAttr_natDigits n) rfl
        · rfl
      have := WF.wrap "ol".toList _ (v "ol") ha hin
      simpa using this
  | s, .listItem _ _ _ _ kids _, h => by
    simp only [levelsOk] at h
    simp only [renderBlock]
    cases kids with
    | nil => exact WF.wrap "li".toList [] (v "li") rfl WF.nil
    | cons first rest =>
      simp only
      have hl : ∀ (b : Bool), WF (if b = true then [] else [nl]) := by
        intro b; cases b
        · exact WF.nl
        · exact WF.nil
      exact li_wf _ _ _ (hl _) (hl _) (sep_wf o s (first :: rest) h)
  | s, .table _ header rows _, h => by
    simp only [levelsOk, Bool.and_eq_true] at h
    simp only [renderBlock]
    refine table_wf _ _ ?_ (cat_wf o s rows h.2)
    cases header with
    | nil => exact WF.nil
    | cons hr _ =>
      have := WF.append (WF.wrap "thead".toList [] (v "thead") rfl (WF.append WF.nl (row_wf o s true hr))) WF.nl
      simpa using this
  | s, .tableRow _ cells _, _ => by
    have := WF.append (WF.wrap "tr".toList [] (v "tr") rfl (WF.append WF.nl (cells_wf o false cells))) WF.nl
    simpa [renderBlock] using this
  | s, .tableCell a k _, _ => by
    simp only [renderBlock]
    have := WF.append (WF.wrap "td".toList [("align".toList, alignName a)] (v "td")
      (attrsOk_cons _ _ _ (by decide) (alignName_safe a) rfl) (inlines_wf o k)) WF.nl
    simpa using this
  | s, .thematicBreak _ _, _ => WF.vtag _ _ (v "hr") rfl
  | s, .htmlBlock c _, _ => WF.raw c
  | s, .blankLine _, _ => WF.nil
  | s, .linkRefDefBlock _ _, _ => WF.nil
theorem sep_wf (o : Quotes) : ∀ (s : Bool) (bs : List Block), levelsOks bs = true → WF (renderSep o s bs)
  | _, [], _ => WF.nil
  | s, [b], h => by
    simp only [levelsOks, Bool.and_true] at h
    simpa [renderSep] using block_wf o s b h
  | s, b :: b' :: rest, h => by
    simp only [levelsOks, Bool.and_eq_true] at h
    simp only [renderSep]
    exact WF.append (WF.append (block_wf o s b h.1) WF.nl)
      (sep_wf o s (b' :: rest) (by simp only [levelsOks, Bool.and_eq_true]; exact h.2))
theorem afterEach_wf (o : Quotes) : ∀ (s : Bool) (bs : List Block), levelsOks bs = true → WF (renderAfterEach o s bs)
  | _, [], _ => WF.nil
  | s, b :: rest, h => by
    simp only [levelsOks, Bool.and_eq_true] at h
    simp only [renderAfterEach]
    exact WF.append (WF.append (block_wf o s b h.1) WF.nl) (afterEach_wf o s rest h.2)
theorem cat_wf (o : Quotes) : ∀ (s : Bool) (bs : List Block), levelsOks bs = true → WF (renderCat o s bs)
  | _, [], _ => WF.nil
  | s, b :: rest, h => by
    simp only [levelsOks, Bool.and_eq_true] at h
    simp only [renderCat]
    exact WF.append (block_wf o s b h.1) (cat_wf o s rest h.2)
end

theorem doc_wf (o : Quotes) (d : Doc) (h : levelsOks d.kids = true) : WF (renderDoc o d) := by
  unfold renderDoc
  split
  · exact WF.nil
  · dsimp only
    split
    · exact WF.nil
    · exact WF.append (sep_wf o false _ h) WF.nl


/-! ### The raw leaves of the output are exactly the HTML tokens' contents, in order -/

def rawOf : Ev → Option Str
  | .raw s => some s
  | _ => none

def rawsOf (evs : List Ev) : List Str := evs.filterMap rawOf

@[simp] theorem rawsOf_append (a b : List Ev) : rawsOf (a ++ b) = rawsOf a ++ rawsOf b := by
  simp [rawsOf, List.filterMap_append]
@[simp] theorem rawsOf_nil : rawsOf [] = [] := rfl
@[simp] theorem rawsOf_cons_otag (t as rest) : rawsOf (Ev.otag t as :: rest) = rawsOf rest := rfl
@[simp] theorem rawsOf_cons_ctag (t rest) : rawsOf (Ev.ctag t :: rest) = rawsOf rest := rfl
@[simp] theorem rawsOf_cons_vtag (t as rest) : rawsOf (Ev.vtag t as :: rest) = rawsOf rest := rfl
@[simp] theorem rawsOf_cons_text (s rest) : rawsOf (Ev.text s :: rest) = rawsOf rest := rfl
@[simp] theorem rawsOf_cons_raw (s rest) : rawsOf (Ev.raw s :: rest) = s :: rawsOf rest := rfl
@[simp] theorem rawsOf_cons_nl (rest) : rawsOf (nl :: rest) = rawsOf rest := rfl

mutual
/-- Contents of the HtmlSpan tokens that reach the output, in rendering order. -/
def htmlSpans : Inline → List Str
  | .htmlSpan c => [c]
  | .strong _ k => htmlSpansL k
  | .emphasis _ k => htmlSpansL k
  | .strikethrough k => htmlSpansL k
  | .link _ _ _ _ _ k => htmlSpansL k
  | .githubWiki _ k => htmlSpansL k
  | _ => []
def htmlSpansL : List Inline → List Str
  | [] => []
  | i :: is => htmlSpans i ++ htmlSpansL is
end

mutual
theorem raws_inline (o : Quotes) : ∀ (i : Inline), rawsOf (renderInline o i) = htmlSpans i
  | .rawText _ => rfl
  | .strong _ k => by simp [renderInline, htmlSpans, raws_inlines o k]
  | .emphasis _ k => by simp [renderInline, htmlSpans, raws_inlines o k]
  | .inlineCode .. => rfl
  | .strikethrough k => by simp [renderInline, htmlSpans, raws_inlines o k]
  | .image .. => rfl
  | .link _ _ _ _ _ k => by simp [renderInline, htmlSpans, raws_inlines o k]
  | .autoLink .. => rfl
  | .escapeSequence _ => rfl
  | .lineBreak _ soft => by cases soft <;> rfl
  | .htmlSpan _ => rfl
  | .math c => by simp only [renderInline]; split <;> rfl
  | .githubWiki _ k => by simp [renderInline, htmlSpans, raws_inlines o k]
  | .xwikiMacroStart _ => rfl
  | .xwikiMacroEnd _ => rfl
  | .linkRefDef .. => rfl
theorem raws_inlines (o : Quotes) : ∀ (is : List Inline), rawsOf (renderInlines o is) = htmlSpansL is
  | [] => rfl
  | i :: is => by simp [renderInlines, htmlSpansL, raws_inline o i, raws_inlines o is]
end

def cellHtml : Block → List Str
  | .tableCell _ k _ => htmlSpansL k
  | _ => []
def cellsHtml : List Block → List Str
  | [] => []
  | c :: cs => cellHtml c ++ cellsHtml cs
def rowHtml : Block → List Str
  | .tableRow _ cells _ => cellsHtml cells
  | _ => []

mutual
/-- Contents of the HtmlBlock / HtmlSpan tokens that reach the output, in rendering order. -/
def htmlOf : Block → List Str
  | .htmlBlock c _ => [c]
  | .paragraph k _ => htmlSpansL k
  | .heading _ _ k _ => htmlSpansL k
  | .setextHeading _ _ k _ => htmlSpansL k
  | .quote kids _ => htmlOfL kids
  | .list _ _ items _ => htmlOfL items
  | .listItem _ _ _ _ kids _ => htmlOfL kids
  | .table _ header rows _ => (match header with | [] => [] | h :: _ => rowHtml h) ++ htmlOfL rows
  | .tableRow _ cells _ => cellsHtml cells
  | .tableCell _ k _ => htmlSpansL k
  | _ => []
def htmlOfL : List Block → List Str
  | [] => []
  | b :: bs => htmlOf b ++ htmlOfL bs
end

theorem raws_cell (o : Quotes) (h : Bool) (c : Block) : rawsOf (renderCell o h c) = cellHtml c := by
  cases c <;> simp [renderCell, cellHtml, raws_inlines]

theorem raws_cells (o : Quotes) (h : Bool) : ∀ cs, rawsOf (renderCells o h cs) = cellsHtml cs
  | [] => rfl
  | c :: cs => by simp [renderCells, cellsHtml, raws_cell, raws_cells o h cs]

theorem raws_row (o : Quotes) (s h : Bool) (r : Block) : rawsOf (renderRow o s h r) = rowHtml r := by
  cases r <;> simp [renderRow, rowHtml, raws_cells]

theorem rawsOf_ite_nl (p : Prop) [Decidable p] : rawsOf (if p then [] else [nl]) = [] := by
  split <;> rfl

mutual
theorem raws_block (o : Quotes) : ∀ (s : Bool) (b : Block), rawsOf (renderBlock o s b) = htmlOf b
  | s, .paragraph k _ => by simp only [renderBlock]; split <;> simp [htmlOf, raws_inlines]
  | s, .heading _ _ k _ => by simp [renderBlock, htmlOf, raws_inlines]
  | s, .setextHeading _ _ k _ => by simp [renderBlock, htmlOf, raws_inlines]
  | s, .quote kids _ => by simp [renderBlock, htmlOf, raws_afterEach o false kids]
  | s, .blockCode .. => rfl
  | s, .codeFence .. => rfl
  | s, .list loose start items _ => by simp [renderBlock, htmlOf, raws_sep o (!loose) items]
  | s, .listItem _ _ _ _ kids _ => by
    simp only [renderBlock]
    cases kids with
    | nil => rfl
    | cons first rest =>
      simp [htmlOf, raws_sep o s (first :: rest), rawsOf_ite_nl]
  | s, .table _ header rows _ => by
    simp only [renderBlock, htmlOf]
    cases header with
    | nil => simp [raws_cat o s rows]
    | cons hr _ => simp [raws_cat o s rows, raws_row]
  | s, .tableRow _ cells _ => by simp [renderBlock, htmlOf, raws_cells]
  | s, .tableCell _ k _ => by simp [renderBlock, htmlOf, raws_inlines]
  | s, .thematicBreak .. => rfl
  | s, .htmlBlock .. => rfl
  | s, .blankLine _ => rfl
  | s, .linkRefDefBlock .. => rfl
theorem raws_sep (o : Quotes) : ∀ (s : Bool) (bs : List Block), rawsOf (renderSep o s bs) = htmlOfL bs
  | _, [] => rfl
  | s, [b] => by simp [renderSep, htmlOfL, raws_block o s b]
  | s, b :: b' :: rest => by
    simp only [renderSep, htmlOfL, rawsOf_append, raws_block o s b, raws_sep o s (b' :: rest)]
    simp [htmlOfL]
theorem raws_afterEach (o : Quotes) : ∀ (s : Bool) (bs : List Block), rawsOf (renderAfterEach o s bs) = htmlOfL bs
  | _, [] => rfl
  | s, b :: rest => by simp [renderAfterEach, htmlOfL, raws_block o s b, raws_afterEach o s rest]
theorem raws_cat (o : Quotes) : ∀ (s : Bool) (bs : List Block), rawsOf (renderCat o s bs) = htmlOfL bs
  | _, [] => rfl
  | s, b :: rest => by simp [renderCat, htmlOfL, raws_block o s b, raws_cat o s rest]
end

/-- The raw leaves of a document's output are the HTML tokens' contents in document order
    (when the output is empty there are none). -/
theorem raws_doc (o : Quotes) (d : Doc) :
    rawsOf (renderDoc o d) = if (renderDoc o d).isEmpty then [] else htmlOfL d.kids := by
  unfold renderDoc
  split
  · rfl
  · dsimp only
    split
    · rfl
    · rename_i hne
      have : (renderSep o false d.kids ++ [nl]).isEmpty = false := by
        cases renderSep o false d.kids <;> rfl
      simp [this, raws_sep]

end Mistletoe.Html
