/-
  C10 (reflow), prose inside LIST ITEMS — the Markdown renderer WITH a line limit (`max_line_length = L`) on documents
  made of paragraphs of plain words and lists (bullet / ordered, padding 1…4, tight / loose, nested to any depth) whose
  items are made of such paragraphs and lists again.

  Fragment: a tree `PT` — `.para g` (`g`: lines of `plainWord`s, as in Proofs/Reflow.lean) or `.list ordered start mk pad
  loose items` — mapped by `PT.mb` into the tree `MdRound.MB` of the C09 list round trip, so writer (`wrs`), block phase
  (`tokenize_nodes`), token constructors (`mkBlocks_ents`) and the line shape of the renderer (`outs_lines`,
  `prefixLines_indentDoc`) are those of Proofs/MdRoundLists(2).lean.  The fragment predicate `oksP` asks nothing of the
  LINES: that the written lines are in the normal form `MB.oks` of C09 (item lines `itemDocOk`, marker + first line no
  thematic break, a paragraph behind a list is no marker line) is PROVED (`oks_mbs`, through the line shape `Good`) —
  this is what makes the fragment closed under re-filling (`oks_reflows`): after re-filling ANY word of a paragraph
  may stand first on a continuation line of an item, and `plainWord` (first character `plainStart`) is what keeps such
  a line from being read as a marker, a thematic break, a heading, … inside the item (`line_good`, `blk_ok_para`).

  The mechanism of the property: `render_list_item` hands `max(max_line_length - prepend, 1)` to its children
  (`childBudget`), so a paragraph whose enclosing items have prefixes of total width `w` is filled with the budget
  `bud L w = max (L − w) 1` (`childBudget_bud`: the budgets compose in closed form; the clamp keeps wrapping on).

  * `renderBlocks_wrapL`, `reflowL_render` (1) — the output is the text of the tree `reflows L 0 ts`: item structure
                          (markers, numbering, padding, looseness, `prepend` spaces before following lines) unchanged,
                          every paragraph `reflowG (bud L w) g`;
  * `reflowL_bound`, `reflowL_line_bound` (2) — every output line is "\n" or prefix (width `w`) ++ body ++ "\n"; a body
                          longer than its budget, or a line longer than `L`, has a body that is one single word;
  * `reflowL_same_words`, `reflowL_meaning` (3) — the output is in the fragment, same structure and same words per
                          paragraph (`norms`, `parasS`), parses to the C09 token tree of the re-filled tree, and the
                          HTML of the two token trees agrees after "\n" ↦ " " (`SoftEq`, `softEqs_blks`);
  * `reflowL_idempotent` (4) — reflowing again with the same `L` changes nothing (`reflows_idem`).

  Final theorems: `C10_list_reflow_partial`, `C10_list_reflow_meaning_partial`, `C10_list_reflow_idempotent_partial`
  (`Config.markdown`), and the same with `k` nested block quotes AROUND the document (`textLQ k`, budget
  `bud (qBudget L k) w = max (L − 2k − w) 1`): `C10_list_reflow_quoted_partial`, `…_quoted_meaning_partial`,
  `…_quoted_idempotent_partial`.  Stage reached: 3 (nested lists; ordered, padding 1–4, loose included).  Nothing in (1)–(4)
  turned out false on the model: clamping does not break idempotence (the output has the same item structure, hence
  the same prefix widths and budgets), and a re-filled line cannot change the structure (`plainWord`).  Not covered:
  block quotes INSIDE items; blocks of an item written WITHOUT an empty line between them (e.g. a nested list
  directly behind the paragraph: not the normal form `wrs` of C09 — the kernel evaluation at the end shows the model
  agreeing with the real code on such a text); the HTML comparison under the HTML renderer's own token list.
-/
import Mistletoe.Proofs.MdRoundLists2
import Mistletoe.Proofs.ReflowQuote
namespace Mistletoe.ReflowList
open Mistletoe Mistletoe.Py Mistletoe.Scan Mistletoe.Wrap Mistletoe.Markdown Mistletoe.InertInline Mistletoe.MdRound
open Mistletoe.Reflow
open Mistletoe.Block hiding numbered numbered_cons numbered_append
open Mistletoe.Props.C10 (joinWords fillG)
open Mistletoe.Props.C14 (inertLine markdownTypes)
open Mistletoe.Props.C04 (indentDoc itemDocOk)
open Mistletoe.ComposeL (leaderOf markerOk leaderOk_of_marker sepS itemDoc_facts stopLineB)

/-! ### The fragment -/

/-- a block of the fragment: a paragraph of plain words given as lines of words (as in `Proofs/Reflow.lean`), or a
    list as in `MdRound.MB` whose items are made of blocks of the fragment again -/
inductive PT where
  | para (g : List (List Str))
  | list (ordered : Bool) (start : Nat) (mk : Char) (pad : Nat) (loose : Bool) (items : List (List PT))

mutual
/-- the block of `MdRound.MB` (whose writer `wrs`, parse `ents`/`blks` and normal form `MB.oks` are those of C09) -/
def PT.mb : PT → MB
  | .para g => .leaf (.para (paraLines g))
  | .list o n mk pad loose items => .list o n mk pad loose (mbItems items)
def mbs : List PT → List MB
  | [] => []
  | t :: rest => t.mb :: mbs rest
def mbItems : List (List PT) → List (List MB)
  | [] => []
  | it :: rest => mbs it :: mbItems rest
end

def isListP : PT → Bool
  | .list .. => true
  | _ => false

def otherTypeP : PT → PT → Bool
  | .list o _ mk _ _ _, .list o' _ mk' _ _ _ => o != o' || mk != mk'
  | _, _ => false

/-- two consecutive siblings: behind a list comes a paragraph, or a list of another marker type -/
def sepOkP (t t' : PT) : Bool := !isListP t || !isListP t' || otherTypeP t t'

mutual
/-- **the fragment** (decidable): every paragraph is a `plainPara`; a list has padding 1…4 (1 under
    `normalize_whitespace=True`), at least one item, every item at least one block of the fragment, markers `-`, `+`,
    `*`, or a number below 10⁹ and `.` or `)`.  Nothing is asked of the LINES (unlike `MB.ok`): that they are in the
    normal form of C09 is proved (`oks_mbs`) — which is what makes the fragment closed under re-filling. -/
def PT.ok (nw : Bool) : PT → Bool
  | .para g => plainPara g
  | .list o n mk pad _ items =>
    decide (1 ≤ pad) && decide (pad ≤ 4) && (!nw || pad == 1) && !items.isEmpty && okItemsP nw o mk n items
def oksP (nw : Bool) : List PT → Bool
  | [] => true
  | t :: rest => t.ok nw && oksP nw rest && (match rest with | [] => true | t' :: _ => sepOkP t t')
def okItemsP (nw : Bool) (o : Bool) (mk : Char) (n : Nat) : List (List PT) → Bool
  | [] => true
  | it :: rest => !it.isEmpty && oksP nw it && markerOk o n mk && okItemsP nw o mk (n + 1) rest
end

theorem mbs_cons (t : PT) (r : List PT) : mbs (t :: r) = t.mb :: mbs r := by simp [mbs]
theorem mbItems_cons (it : List PT) (r : List (List PT)) : mbItems (it :: r) = mbs it :: mbItems r := by simp [mbItems]
theorem mbs_nil : mbs [] = [] := by simp [mbs]
theorem mbItems_nil : mbItems [] = [] := by simp [mbItems]

theorem isListM_mb (t : PT) : isListM t.mb = isListP t := by
  cases t <;> simp [PT.mb, isListM, isListP]

theorem oksP_cons (nw : Bool) (t : PT) (rest : List PT) (h : oksP nw (t :: rest) = true) :
    t.ok nw = true ∧ oksP nw rest = true ∧ ∀ t' r, rest = t' :: r → sepOkP t t' = true := by
  simp only [oksP, Bool.and_eq_true] at h
  refine ⟨h.1.1, h.1.2, ?_⟩
  rintro t' r rfl
  exact h.2

theorem oksP_cons2 (nw : Bool) (t t' : PT) (r : List PT) :
    oksP nw (t :: t' :: r) = (t.ok nw && oksP nw (t' :: r) && sepOkP t t') := by
  rw [oksP]

theorem okItemsP_cons (nw o : Bool) (mk : Char) (n : Nat) (it : List PT) (rest : List (List PT))
    (h : okItemsP nw o mk n (it :: rest) = true) :
    it ≠ [] ∧ oksP nw it = true ∧ markerOk o n mk = true ∧ okItemsP nw o mk (n + 1) rest = true := by
  simp only [okItemsP, Bool.and_eq_true, Bool.not_eq_eq_eq_not, Bool.not_true, List.isEmpty_eq_false_iff] at h
  obtain ⟨⟨⟨a, b⟩, c⟩, d⟩ := h
  exact ⟨a, b, c, d⟩

structure ListOkP (nw o : Bool) (n : Nat) (mk : Char) (pad : Nat) (items : List (List PT)) : Prop where
  p1 : 1 ≤ pad
  p4 : pad ≤ 4
  pnw : nw = true → pad = 1
  ne : items ≠ []
  its : okItemsP nw o mk n items = true

theorem listOkP_of (nw o : Bool) (n : Nat) (mk : Char) (pad : Nat) (loose : Bool) (items : List (List PT))
    (h : (PT.list o n mk pad loose items).ok nw = true) : ListOkP nw o n mk pad items := by
  simp only [PT.ok, Bool.and_eq_true, decide_eq_true_eq, Bool.not_eq_eq_eq_not, Bool.not_true, List.isEmpty_eq_false_iff,
    Bool.or_eq_true, beq_iff_eq] at h
  obtain ⟨⟨⟨⟨a, b⟩, c⟩, d⟩, e⟩ := h
  refine ⟨a, b, ?_, d, e⟩
  intro hn
  rcases c with c | c
  · rw [hn] at c; cases c
  · exact c

/-! ### The lines of the fragment are in the normal form of C09 -/

/-- a source line without indentation: a non-whitespace character, text without "\n", then "\n" -/
def Line0 (s : Str) : Prop := ∃ c body, s = c :: body ++ ['\n'] ∧ pyIsSpace c = false ∧ '\n' ∉ body

/-- the line holds a character that is neither whitespace nor one of `-`, `_`, `*` (so it is no thematic break) -/
def WordCh (s : Str) : Prop := ∃ x ∈ s, x ≠ '-' ∧ x ≠ '_' ∧ x ≠ '*' ∧ pyIsSpace x = false

/-- the lines of a block or of siblings: the first is flush, every other one is "\n" or has a non-whitespace
    character behind its spaces, the last one is not "\n" (what `itemDocOk` asks), and the first is no thematic break
    whatever marker is put before it -/
def Good (ls : List Str) : Prop :=
  ∃ s0 ss, ls = s0 :: ss ∧ Line0 s0 ∧ WordCh s0 ∧ (∀ s ∈ ss, s = ['\n'] ∨ ContLine s) ∧ ss.getLast? ≠ some ['\n']

theorem line0_cont (s : Str) (h : Line0 s) : ContLine s := by
  obtain ⟨c, body, rfl, hc, hb⟩ := h
  exact ⟨0, c, body, by simp, hc, hb⟩

theorem contLineB_of_cont (s : Str) (h : ContLine s) : contLineB s = true := by
  obtain ⟨n, c, body, rfl, hc, hb⟩ := h
  have hsp : c ≠ ' ' := by intro e; subst e; exact absurd hc (by decide)
  have e : List.replicate n ' ' ++ c :: body ++ ['\n'] = List.replicate n ' ' ++ c :: (body ++ ['\n']) := by simp
  unfold contLineB
  rw [e, countLeading_rep n c _ hsp, List.drop_left' (by simp)]
  simp only [hc, Bool.not_false, Bool.true_and, List.getLast?_concat, List.dropLast_concat, beq_self_eq_true]
  simpa using hb

theorem good_itemDocOk (ls : List Str) (h : Good ls) : itemDocOk ls = true := by
  obtain ⟨s0, ss, rfl, ⟨c, body, rfl, hc, _⟩, _, hall, hlast⟩ := h
  simp only [itemDocOk, List.cons_append, hc, Bool.not_false, Bool.true_and, Bool.and_eq_true, List.all_eq_true,
    Bool.or_eq_true, beq_iff_eq, bne_iff_ne, ne_eq]
  refine ⟨?_, hlast⟩
  intro s hs
  rcases hall s hs with h | h
  · exact Or.inl h
  · exact Or.inr (contLineB_of_cont s h)

theorem good_head (ls : List Str) (h : Good ls) : ∃ s0 ss, ls = s0 :: ss ∧ Line0 s0 ∧ WordCh s0 := by
  obtain ⟨s0, ss, e, h1, h2, _⟩ := h
  exact ⟨s0, ss, e, h1, h2⟩

theorem getLast?_cons_ne (a : Str) (ss : List Str) (ha : a ≠ ['\n']) (h : ss.getLast? ≠ some ['\n']) :
    (a :: ss).getLast? ≠ some ['\n'] := by
  cases ss with
  | nil => simpa using ha
  | cons b r => rw [List.getLast?_cons_cons]; exact h

theorem line0_ne_nl (s : Str) (h : Line0 s) : s ≠ ['\n'] := contLine_ne_nl s (line0_cont s h)

/-- siblings: a block, one "\n" line, further blocks -/
theorem good_append_sep (A B : List Str) (hA : Good A) (hB : Good B) : Good (A ++ ['\n'] :: B) := by
  obtain ⟨a0, as, rfl, ha0, hw, hall, _⟩ := hA
  obtain ⟨b0, bs, rfl, hb0, _, hallB, hlastB⟩ := hB
  refine ⟨a0, as ++ ['\n'] :: b0 :: bs, by simp, ha0, hw, ?_, ?_⟩
  · intro s hs
    simp only [List.mem_append, List.mem_cons] at hs
    rcases hs with hs | rfl | rfl | hs
    · exact hall s hs
    · exact Or.inl rfl
    · exact Or.inr (line0_cont _ hb0)
    · exact hallB s hs
  · rw [List.getLast?_append]
    have : (['\n'] :: b0 :: bs).getLast? = (b0 :: bs).getLast? := List.getLast?_cons_cons
    rw [this]
    have hne := getLast?_cons_ne b0 bs (line0_ne_nl _ hb0) hlastB
    cases hl : (b0 :: bs).getLast? with
    | none => simp at hl
    | some x => rw [hl] at hne; simpa using hne

/-- items of a tight list: no line between them -/
theorem good_append (A B : List Str) (hA : Good A) (hB : Good B) : Good (A ++ B) := by
  obtain ⟨a0, as, rfl, ha0, hw, hall, _⟩ := hA
  obtain ⟨b0, bs, rfl, hb0, _, hallB, hlastB⟩ := hB
  refine ⟨a0, as ++ b0 :: bs, by simp, ha0, hw, ?_, ?_⟩
  · intro s hs
    simp only [List.mem_append, List.mem_cons] at hs
    rcases hs with hs | rfl | hs
    · exact hall s hs
    · exact Or.inr (line0_cont _ hb0)
    · exact hallB s hs
  · rw [List.getLast?_append]
    have hne := getLast?_cons_ne b0 bs (line0_ne_nl _ hb0) hlastB
    cases hl : (b0 :: bs).getLast? with
    | none => simp at hl
    | some x => rw [hl] at hne; simpa using hne

theorem contLine_indent (W : Nat) (s : Str) (h : ContLine s) : ContLine (List.replicate W ' ' ++ s) := by
  obtain ⟨n, c, body, rfl, hc, hb⟩ := h
  refine ⟨W + n, c, body, ?_, hc, hb⟩
  simp only [List.append_assoc, List.cons_append]
  rw [← List.append_assoc, List.replicate_append_replicate]

/-- the lines of an item: marker and padding before the first, the content offset before the others -/
theorem good_indent (m : Str) (hm : ListLeader m) (pad : Nat) (ls : List Str) (h : Good ls) : Good (indentDoc m pad ls) := by
  obtain ⟨s0, ss, rfl, ⟨c0, body, rfl, hc0, hb⟩, ⟨x, hx, hx'⟩, hall, hlast⟩ := h
  obtain ⟨c, m', rfl, hc⟩ := hm.lead
  have hnl : '\n' ∉ m' := fun hmem => hm.noNl (List.mem_cons_of_mem _ hmem)
  have hc0nl : c0 ≠ '\n' := by intro e; subst e; exact absurd hc0 (by decide)
  have hxm : x ∈ (c :: m') ++ List.replicate pad ' ' ++ (c0 :: body ++ ['\n']) := List.mem_append_right _ hx
  refine ⟨_, _, rfl, ⟨c, m' ++ List.replicate pad ' ' ++ c0 :: body, by simp, hc.nsp, ?_⟩, ⟨x, hxm, hx'⟩, ?_, ?_⟩
  · simp only [List.mem_append, List.mem_cons, List.mem_replicate, not_or]
    refine ⟨⟨hnl, ?_⟩, Ne.symm hc0nl, hb⟩
    rintro ⟨_, e⟩; revert e; decide
  · intro s hs
    obtain ⟨y, hy, rfl⟩ := List.mem_map.mp hs
    by_cases e : y = ['\n']
    · simp [e]
    · simp only [e, if_false]
      rcases hall y hy with h | h
      · exact absurd h e
      · exact Or.inr (contLine_indent _ y h)
  · rw [List.getLast?_map]
    cases hl : ss.getLast? with
    | none => simp
    | some y =>
      rw [hl] at hlast
      have e : y ≠ ['\n'] := fun e => hlast (by rw [e])
      simp only [Option.map_some, e, if_false, ne_eq, Option.some.injEq]
      intro e2
      have hk : (c :: m').length + pad = (m'.length + pad) + 1 := by simp only [List.length_cons]; omega
      rw [hk] at e2
      simp [List.replicate_succ] at e2

/-- marker + first line is no thematic break: the line holds a character that is neither the marker nor whitespace -/
theorem tb_false (m : Str) (hm : ListLeader m) (pad : Nat) (s0 : Str) (h : WordCh s0) :
    Scan.thematicBreak (m ++ List.replicate pad ' ' ++ s0) = false := by
  obtain ⟨x, hx, h1, h2, h3, h4⟩ := h
  obtain ⟨c, m', rfl, hc⟩ := hm.lead
  unfold Scan.thematicBreak
  rw [List.append_assoc, List.cons_append, lead_upTo3 hc]
  simp only
  by_cases hcc : c = '-' ∨ c = '_' ∨ c = '*'
  · have hxc : x ≠ c := by
      rintro rfl
      rcases hcc with e | e | e
      · exact h1 e
      · exact h2 e
      · exact h3 e
    have hall : (c :: (m' ++ (List.replicate pad ' ' ++ s0))).all (fun d => d == c || ws d) = false := by
      rw [List.all_eq_false]
      exact ⟨x, by simp [hx], by simp [hxc, Scan.ws, h4]⟩
    rw [hall]
    simp
  · have h0 : (c == '-' || c == '_' || c == '*') = false := by
      simp only [Bool.or_eq_false_iff, beq_eq_false_iff_ne, ne_eq]
      exact ⟨⟨fun e => hcc (Or.inl e), fun e => hcc (Or.inr (Or.inl e))⟩, fun e => hcc (Or.inr (Or.inr e))⟩
    rw [h0]
    simp

/-- a line of plain words: flush, no "\n" inside, a character that is no `-`, `_`, `*`, and no list marker -/
theorem line_good (ws : List Str) (h : plainWords ws = true) :
    Line0 (lineOf ws) ∧ WordCh (lineOf ws) ∧ stopLineB (lineOf ws) = true := by
  obtain ⟨hne, hw⟩ := plainWords_facts ws h
  have f := lineFacts ws h
  cases ws with
  | nil => exact absurd rfl hne
  | cons w ws' =>
    have fw := hw w (by simp)
    cases hwc : w with
    | nil => exact absurd hwc fw.ne
    | cons c r =>
      obtain ⟨r', hj⟩ := joinWords_head w ws' c r hwc
      have pc := plainChar_of c (fw.start c r hwc)
      have hnl : '\n' ∉ r' := by
        intro hm
        have := f.chars '\n' (by rw [hj]; exact List.mem_cons_of_mem _ hm)
        revert this; decide
      have hli : Scan.listItem (lineOf (w :: ws')) = none := by
        have hi := f.inert
        simp only [inertLine, Bool.and_eq_true, Option.isNone_iff_eq_none] at hi
        exact hi.1.1.1.1.2
      subst hwc
      refine ⟨⟨c, r', by simp [lineOf, hj], pc.nsp, hnl⟩, ⟨c, by simp [lineOf, hj], pc.n_dash, pc.n_us, pc.n_star, pc.nsp⟩, ?_⟩
      simp only [stopLineB, parseMarker_none _ hli, Option.isNone_none, Bool.and_true]
      simp [lineOf, hj, pc.nsp]

theorem good_para (g : List (List Str)) (h : plainPara g = true) : Good (paraLines g) := by
  obtain ⟨hne, hg⟩ := plainPara_facts g h
  cases g with
  | nil => exact absurd rfl hne
  | cons ws g' =>
    have h0 := line_good ws (hg ws (by simp))
    refine ⟨lineOf ws, paraLines g', rfl, h0.1, h0.2.1, ?_, ?_⟩
    · intro s hs
      obtain ⟨ws', hws', rfl⟩ := List.mem_map.mp hs
      exact Or.inr (line0_cont _ (line_good ws' (hg ws' (List.mem_cons_of_mem _ hws'))).1)
    · cases hl : (paraLines g').getLast? with
      | none => simp
      | some y =>
        have hy : y ∈ paraLines g' := List.mem_of_getLast? hl
        obtain ⟨ws', hws', rfl⟩ := List.mem_map.mp hy
        have := line0_ne_nl _ (line_good ws' (hg ws' (List.mem_cons_of_mem _ hws'))).1
        simpa using this

theorem blk_ok_para (g : List (List Str)) (h : plainPara g = true) : (Blk.para (paraLines g)).ok = true :=
  normalPara_of_plain g h

theorem sepS_false : sepS false = [] := rfl
theorem sepS_true : sepS true = [['\n']] := rfl

theorem mbItems_ne (items : List (List PT)) (h : items ≠ []) : mbItems items ≠ [] := by
  cases items with
  | nil => exact absurd rfl h
  | cons a b => simp [mbItems]

theorem mbs_ne (ts : List PT) (h : ts ≠ []) : mbs ts ≠ [] := by
  cases ts with
  | nil => exact absurd rfl h
  | cons a b => simp [mbs]

mutual
/-- **the fragment lies in the normal form of C09** (`MB.ok`), and its lines have the shape `Good` -/
theorem ok_mb (nw : Bool) : ∀ (t : PT), t.ok nw = true → t.mb.ok nw = true ∧ Good (wr false t.mb)
  | .para g, h => by
    have hp : plainPara g = true := by simpa [PT.ok] using h
    refine ⟨by simpa [PT.mb, MB.ok] using blk_ok_para g hp, ?_⟩
    simpa [PT.mb, wr, Blk.lines] using good_para g hp
  | .list o n mk pad loose items, h => by
    have hl := listOkP_of nw o n mk pad loose items h
    have hi := okItems_mb nw o mk pad loose n items hl.its
    constructor
    · simp only [PT.mb, MB.ok, Bool.and_eq_true, decide_eq_true_eq, Bool.not_eq_eq_eq_not, Bool.not_true,
        List.isEmpty_eq_false_iff, Bool.or_eq_true, beq_iff_eq]
      refine ⟨⟨⟨⟨hl.p1, hl.p4⟩, ?_⟩, mbItems_ne items hl.ne⟩, hi.1⟩
      cases nw with
      | false => exact Or.inl rfl
      | true => exact Or.inr (hl.pnw rfl)
    · simpa [PT.mb, wr] using hi.2 hl.ne
theorem oks_mbs (nw : Bool) : ∀ (ts : List PT), oksP nw ts = true →
    MB.oks nw (mbs ts) = true ∧ (ts ≠ [] → Good (wrs (mbs ts)))
  | [], _ => ⟨by simp [mbs, MB.oks], fun h => absurd rfl h⟩
  | [t], h => by
    have h1 := ok_mb nw t (oksP_cons nw t [] h).1
    refine ⟨by simp [mbs, MB.oks, h1.1], fun _ => ?_⟩
    rw [mbs_cons, mbs_nil, wrs_single]
    exact h1.2
  | t :: t' :: r, h => by
    obtain ⟨ht, hr, hsep⟩ := oksP_cons nw t (t' :: r) h
    have h1 := ok_mb nw t ht
    have ih := oks_mbs nw (t' :: r) hr
    have h1' := ok_mb nw t' (oksP_cons nw t' r hr).1
    have hs := hsep t' r rfl
    have hsepM : sepOkM t.mb t'.mb = true := by
      cases t with
      | para g => simp [sepOkM, PT.mb, isListM]
      | list o n mk pad loose items =>
        cases t' with
        | para g' =>
          have hp : plainPara g' = true := by simpa [PT.ok] using (oksP_cons nw _ r hr).1
          obtain ⟨hne, hg⟩ := plainPara_facts g' hp
          cases g' with
          | nil => exact absurd rfl hne
          | cons ws g'' =>
            simp [sepOkM, PT.mb, isListM, wr, Blk.lines, paraLines, (line_good ws (hg ws (by simp))).2.2]
        | list o' n' mk' pad' loose' items' =>
          simpa [sepOkM, PT.mb, isListM, otherTypeB, sepOkP, isListP, otherTypeP] using hs
    constructor
    · simp only [mbs_cons] at ih ⊢
      simp only [MB.oks, Bool.and_eq_true] at ih ⊢
      exact ⟨⟨h1.1, ih.1⟩, hsepM⟩
    · intro _
      have ihg := ih.2 (by simp)
      simp only [mbs_cons] at ihg ⊢
      cases ha : adj t.mb t'.mb with
      | false =>
        rw [wrs_cons_sep _ _ _ ha]
        exact good_append_sep _ _ h1.2 ihg
      | true =>
        rw [wrs_cons_adj _ _ _ ha]
        cases t with
        | para g => simp [adj, PT.mb, isListM] at ha
        | list o n mk pad loose items =>
          have hl := listOkP_of nw o n mk pad loose items ht
          have e : wr true (PT.list o n mk pad loose items).mb = wr false (PT.list o n mk pad loose items).mb ++ [['\n']] := by
            simp only [PT.mb, wr]
            exact wrItems_trail o mk pad loose n _ (mbItems_ne items hl.ne)
          rw [e, List.append_assoc]
          exact good_append_sep _ _ h1.2 ihg
theorem okItems_mb (nw o : Bool) (mk : Char) (pad : Nat) (loose : Bool) : ∀ (n : Nat) (items : List (List PT)),
    okItemsP nw o mk n items = true →
    MB.okItems nw o mk pad n (mbItems items) = true ∧ (items ≠ [] → Good (wrItems false o mk pad loose n (mbItems items)))
  | _, [], _ => ⟨by simp [mbItems, MB.okItems], fun h => absurd rfl h⟩
  | n, it :: rest, h => by
    obtain ⟨hne, hit, hmk, hrest⟩ := okItemsP_cons nw o mk n it rest h
    have h1 := oks_mbs nw it hit
    have ih := okItems_mb nw o mk pad loose (n + 1) rest hrest
    have hg := h1.2 hne
    have hm := listLeader_of o _ (leaderOk_of_marker o n mk hmk)
    obtain ⟨s0, ss, hw, _, hwc⟩ := good_head _ hg
    have hgi := good_indent _ hm pad _ hg
    constructor
    · rw [mbItems_cons]
      simp only [MB.okItems, Bool.and_eq_true, Bool.not_eq_eq_eq_not, Bool.not_true, List.isEmpty_eq_false_iff]
      refine ⟨⟨⟨⟨⟨mbs_ne it hne, h1.1⟩, hmk⟩, good_itemDocOk _ hg⟩, ?_⟩, ih.1⟩
      rw [hw]
      exact tb_false _ hm pad s0 hwc
    · intro _
      rw [mbItems_cons]
      cases rest with
      | nil =>
        rw [mbItems_nil, wrItems_single, sepS_false, List.append_nil]
        exact hgi
      | cons it' r =>
        have ihg := ih.2 (by simp)
        rw [mbItems_cons] at ihg ⊢
        rw [wrItems_cons2]
        cases loose with
        | false => rw [sepS_false, List.nil_append]; exact good_append _ _ hgi ihg
        | true => rw [sepS_true]; exact good_append_sep _ _ hgi ihg
end

/-! ### Re-filling the tree -/

/-- **the fill budget** of a paragraph whose container prefixes (marker + padding of the enclosing items) have total
    width `w`, for `max_line_length = L`: `max (L − w) 1` -/
def bud (L w : Nat) : Nat := max (L - w) 1

/-- the same as the `int` the model computes -/
def budI (L w : Nat) : Int := max ((L : Int) - (w : Int)) 1

theorem budI_ne (L w : Nat) : budI L w ≠ 0 := by simp only [budI]; omega
theorem budI_toNat (L w : Nat) : (budI L w).toNat = bud L w := by simp only [budI, bud]; omega
theorem budI_zero (L : Nat) (hL : 1 ≤ L) : budI L 0 = (L : Int) := by simp only [budI]; omega

/-- **`render_list_item` shrinks the budget by its prefix width, never below 1** (`childBudget`), iterated: the
    budgets compose to `max (L − total width) 1` -/
theorem childBudget_bud (L w p : Nat) : childBudget (some (budI L w)) p = some (budI L (w + p)) := by
  have h := budI_ne L w
  simp only [childBudget, h, if_false]
  simp only [budI]
  congr 1
  omega

mutual
/-- the tree after rendering with `max_line_length = L`: every paragraph re-filled with the budget of its position
    (`w` = total prefix width of the enclosing items); markers, numbering, padding, looseness unchanged -/
def PT.reflow (L : Nat) (w : Nat) : PT → PT
  | .para g => .para (reflowG (bud L w) g)
  | .list o n mk pad loose items => .list o n mk pad loose (reflowItems L w o mk pad n items)
def reflows (L : Nat) (w : Nat) : List PT → List PT
  | [] => []
  | t :: rest => t.reflow L w :: reflows L w rest
def reflowItems (L : Nat) (w : Nat) (o : Bool) (mk : Char) (pad : Nat) (n : Nat) : List (List PT) → List (List PT)
  | [] => []
  | it :: rest => reflows L (w + ((leaderOf o n mk).length + pad)) it :: reflowItems L w o mk pad (n + 1) rest
end

theorem reflows_cons (L w : Nat) (t : PT) (r : List PT) : reflows L w (t :: r) = t.reflow L w :: reflows L w r := by
  simp [reflows]
theorem reflows_nil (L w : Nat) : reflows L w [] = [] := by simp [reflows]
theorem reflowItems_cons (L w : Nat) (o : Bool) (mk : Char) (pad n : Nat) (it : List PT) (r : List (List PT)) :
    reflowItems L w o mk pad n (it :: r) =
      reflows L (w + ((leaderOf o n mk).length + pad)) it :: reflowItems L w o mk pad (n + 1) r := by
  simp [reflowItems]
theorem reflowItems_nil (L w : Nat) (o : Bool) (mk : Char) (pad n : Nat) : reflowItems L w o mk pad n [] = [] := by
  simp [reflowItems]

theorem isListP_reflow (L w : Nat) (t : PT) : isListP (t.reflow L w) = isListP t := by
  cases t <;> simp [PT.reflow, isListP]

theorem sepOkP_reflow (L w : Nat) (t t' : PT) : sepOkP (t.reflow L w) (t'.reflow L w) = sepOkP t t' := by
  cases t <;> cases t' <;> simp [PT.reflow, sepOkP, isListP, otherTypeP]

theorem reflows_ne (L w : Nat) (ts : List PT) (h : ts ≠ []) : reflows L w ts ≠ [] := by
  cases ts with
  | nil => exact absurd rfl h
  | cons a b => simp [reflows]

theorem reflowItems_ne (L w : Nat) (o : Bool) (mk : Char) (pad n : Nat) (items : List (List PT)) (h : items ≠ []) :
    reflowItems L w o mk pad n items ≠ [] := by
  cases items with
  | nil => exact absurd rfl h
  | cons a b => simp [reflowItems]

mutual
/-- **the fragment is closed under re-filling** -/
theorem ok_reflow (nw : Bool) (L : Nat) : ∀ (t : PT) (w : Nat), t.ok nw = true → (t.reflow L w).ok nw = true
  | .para g, w, h => by
    have hp : plainPara g = true := by simpa [PT.ok] using h
    simpa [PT.reflow, PT.ok] using (reflowFacts (bud L w) g hp).plain
  | .list o n mk pad loose items, w, h => by
    have hl := listOkP_of nw o n mk pad loose items h
    have hi := okItems_reflow nw L o mk pad n items w hl.its
    simp only [PT.reflow, PT.ok, Bool.and_eq_true, decide_eq_true_eq, Bool.not_eq_eq_eq_not, Bool.not_true,
      List.isEmpty_eq_false_iff, Bool.or_eq_true, beq_iff_eq]
    refine ⟨⟨⟨⟨hl.p1, hl.p4⟩, ?_⟩, reflowItems_ne L w o mk pad n items hl.ne⟩, hi⟩
    cases nw with
    | false => exact Or.inl rfl
    | true => exact Or.inr (hl.pnw rfl)
theorem oks_reflows (nw : Bool) (L : Nat) : ∀ (ts : List PT) (w : Nat), oksP nw ts = true → oksP nw (reflows L w ts) = true
  | [], _, _ => by simp [reflows, oksP]
  | [t], w, h => by
    have h1 := ok_reflow nw L t w (oksP_cons nw t [] h).1
    simp [reflows, oksP, h1]
  | t :: t' :: r, w, h => by
    obtain ⟨ht, hr, hsep⟩ := oksP_cons nw t (t' :: r) h
    have h1 := ok_reflow nw L t w ht
    have ih := oks_reflows nw L (t' :: r) w hr
    simp only [reflows_cons] at ih ⊢
    rw [oksP_cons2, h1, ih, sepOkP_reflow, hsep t' r rfl]
    rfl
theorem okItems_reflow (nw : Bool) (L : Nat) (o : Bool) (mk : Char) (pad : Nat) : ∀ (n : Nat) (items : List (List PT)) (w : Nat),
    okItemsP nw o mk n items = true → okItemsP nw o mk n (reflowItems L w o mk pad n items) = true
  | _, [], _, _ => by simp [reflowItems, okItemsP]
  | n, it :: rest, w, h => by
    obtain ⟨hne, hit, hmk, hrest⟩ := okItemsP_cons nw o mk n it rest h
    have h1 := oks_reflows nw L it (w + ((leaderOf o n mk).length + pad)) hit
    have ih := okItems_reflow nw L o mk pad (n + 1) rest w hrest
    rw [reflowItems_cons]
    simp only [okItemsP, Bool.and_eq_true, Bool.not_eq_eq_eq_not, Bool.not_true, List.isEmpty_eq_false_iff]
    exact ⟨⟨⟨reflows_ne _ _ it hne, h1⟩, hmk⟩, ih⟩
end

/-! ### The renderer with a line limit on the tree -/

theorem renderBlocks_appendL (o : Opts) (ml : Option Int) : ∀ (A B : List Mistletoe.Block) (a b : List Str),
    renderBlocks o ml A = .ok a → renderBlocks o ml B = .ok b → renderBlocks o ml (A ++ B) = .ok (a ++ b)
  | [], _, _, _, h1, h2 => by
    simp only [renderBlocks, Res.ok.injEq] at h1
    subst h1
    simpa using h2
  | x :: A, B, a, b, h1, h2 => by
    simp only [List.cons_append, renderBlocks] at h1 ⊢
    cases hx : renderBlock o ml x with
    | err e => rw [hx] at h1; cases h1
    | ok xs =>
      rw [hx] at h1
      cases hA : renderBlocks o ml A with
      | err e => rw [hA] at h1; cases h1
      | ok as =>
        rw [hA] at h1
        simp only [Res.ok.injEq] at h1
        simp only [renderBlocks_appendL o ml A B as b hA h2]
        subst h1
        simp

theorem renderBlocks_blankBL (o : Opts) (ml : Option Int) (b : Bool) (n : Nat) :
    renderBlocks o ml (blankB b n) = .ok (sepOut b) := by
  cases b <;> simp [blankB, sepOut, renderBlocks, renderBlock]

/-- **`render_list_item` with a line limit**: the children are rendered with the budget `max (L − (w + prepend)) 1`,
    and come behind `leader + padding` (first line) and `prepend` spaces (other lines) -/
theorem renderBlock_listItemL (o : Opts) (L w : Nat) (m : Str) (pad : Nat) (hnw : o.normalizeWhitespace = true → pad = 1)
    (kids : List Mistletoe.Block) (ls : List Str) (hne : ls ≠ [])
    (h : renderBlocks o (some (budI L (w + (m.length + pad)))) kids = .ok ls) (n : Nat) :
    renderBlock o (some (budI L w)) (.listItem m 0 (m.length + pad) false kids n) =
      .ok (prefixLines ls (m ++ spaces pad) (some (spaces (m.length + pad)))) := by
  have hE : ls.isEmpty = false := by cases ls with | nil => exact absurd rfl hne | cons _ _ => rfl
  cases hn : o.normalizeWhitespace with
  | false =>
    simp only [renderBlock, hn, Bool.false_eq_true, if_false, childBudget_bud, h, hE]
    simp [spaces]
  | true =>
    have hp := hnw hn
    subst hp
    simp only [renderBlock, hn, if_true, childBudget_bud, h, hE, Bool.false_eq_true, if_false]
    simp [spaces]

theorem adj_mb (t t' : PT) : adj t.mb t'.mb = (isListP t && isListP t') := by
  simp [adj, isListM_mb]

theorem adj_reflow (L w : Nat) (t t' : PT) : adj (t.reflow L w).mb (t'.reflow L w).mb = adj t.mb t'.mb := by
  simp [adj_mb, isListP_reflow]

theorem reflows_isEmpty (L w : Nat) (ts : List PT) : (mbs (reflows L w ts)).isEmpty = ts.isEmpty := by
  cases ts <;> simp [reflows, mbs]

/-- the lines the renderer writes for the re-filled tree are not empty -/
theorem outs_reflows_ne (nw : Bool) (L w : Nat) (it : List PT) (hit : oksP nw it = true) (hne : it ≠ []) :
    outs (mbs (reflows L w it)) ≠ [] := by
  have h1 := oks_mbs nw (reflows L w it) (oks_reflows nw L it w hit)
  exact outs_ne nw _ h1.1 (good_itemDocOk _ (h1.2 (reflows_ne L w it hne)))

mutual
theorem renderBlock_wrapL (o : Opts) (L : Nat) : ∀ (t : PT) (tr : Bool) (k w : Nat), t.ok o.normalizeWhitespace = true →
    renderBlock o (some (budI L w)) (blk tr k t.mb) = .ok (outB tr (t.reflow L w).mb)
  | .para g, tr, k, w, h => by
    have hp : plainPara g = true := by simpa [PT.ok] using h
    have hg := (plainPara_facts g hp).2
    have f := reflowFacts (bud L w) g hp
    have hg' := (plainPara_facts _ f.plain).2
    simp only [PT.mb, PT.reflow, blk, itemBlock, outB, itemOut, renderBlock, paraLines_strip g hg,
      paraLines_strip _ hg', spanToLines_wrap g hg (budI L w) (budI_ne L w), budI_toNat, f.lines]
  | .list ord s mk pad loose items, tr, k, w, h => by
    have hl := listOkP_of _ ord s mk pad loose items h
    simp only [PT.mb, PT.reflow, blk, outB, renderBlock]
    exact renderBlocks_itemsL o L tr ord mk pad loose hl.pnw s k w items hl.its
theorem renderBlocks_wrapL (o : Opts) (L : Nat) : ∀ (ts : List PT) (k w : Nat), oksP o.normalizeWhitespace ts = true →
    renderBlocks o (some (budI L w)) (blks k (mbs ts)) = .ok (outs (mbs (reflows L w ts)))
  | [], _, _, _ => by simp [mbs, reflows, blks, outs, renderBlocks]
  | [t], k, w, h => by
    simp only [mbs, reflows, blks_single, outs_single, renderBlocks, renderBlock_wrapL o L t false k w (oksP_cons _ _ _ h).1]
    simp
  | t :: t' :: r, k, w, h => by
    have e1 : mbs (t :: t' :: r) = t.mb :: t'.mb :: mbs r := by simp [mbs]
    have e2 : mbs (reflows L w (t :: t' :: r)) = (t.reflow L w).mb :: (t'.reflow L w).mb :: mbs (reflows L w r) := by
      simp [mbs, reflows]
    have e3 : mbs (t' :: r) = t'.mb :: mbs r := by simp [mbs]
    have e4 : mbs (reflows L w (t' :: r)) = (t'.reflow L w).mb :: mbs (reflows L w r) := by simp [mbs, reflows]
    cases ha : adj t.mb t'.mb with
    | false =>
      have ha' : adj (t.reflow L w).mb (t'.reflow L w).mb = false := by rw [adj_reflow]; exact ha
      have ih := renderBlocks_wrapL o L (t' :: r) (k + (wr false t.mb).length + 1) w (oksP_cons _ _ _ h).2.1
      rw [e3, e4] at ih
      rw [e1, e2]
      simp only [blks_cons_sep k _ _ _ ha, outs_cons_sep _ _ _ ha', renderBlocks,
        renderBlock_wrapL o L t false k w (oksP_cons _ _ _ h).1, renderBlock, ih]
      simp
    | true =>
      have ha' : adj (t.reflow L w).mb (t'.reflow L w).mb = true := by rw [adj_reflow]; exact ha
      have ih := renderBlocks_wrapL o L (t' :: r) (k + (wr true t.mb).length) w (oksP_cons _ _ _ h).2.1
      rw [e3, e4] at ih
      rw [e1, e2]
      simp only [blks_cons_adj k _ _ _ ha, outs_cons_adj _ _ _ ha', renderBlocks,
        renderBlock_wrapL o L t true k w (oksP_cons _ _ _ h).1, ih]
theorem renderBlocks_itemsL (o : Opts) (L : Nat) (tr ord : Bool) (mk : Char) (pad : Nat) (loose : Bool)
    (hnw : o.normalizeWhitespace = true → pad = 1) :
    ∀ (s k w : Nat) (items : List (List PT)), okItemsP o.normalizeWhitespace ord mk s items = true →
      renderBlocks o (some (budI L w)) (blkItems tr ord mk pad loose s k (mbItems items)) =
        .ok (outItems tr ord mk pad loose s (mbItems (reflowItems L w ord mk pad s items)))
  | _, _, _, [], _ => by simp [mbItems, reflowItems, blkItems, outItems, renderBlocks]
  | s, k, w, it :: rest, h => by
    obtain ⟨hne, hit, _, hrest⟩ := okItemsP_cons _ ord mk s it rest h
    have hE : (mbItems (reflowItems L w ord mk pad (s + 1) rest)).isEmpty = (mbItems rest).isEmpty := by
      cases rest <;> simp [mbItems, reflowItems]
    have hk := renderBlocks_appendL o _ _ _ _ _
      (renderBlocks_wrapL o L it k (w + ((leaderOf ord s mk).length + pad)) hit)
      (renderBlocks_blankBL o (some (budI L (w + ((leaderOf ord s mk).length + pad))))
        ((loose && !(mbItems rest).isEmpty) || (tr && (mbItems rest).isEmpty)) (k + (wrs (mbs it)).length))
    have hne' : outs (mbs (reflows L (w + ((leaderOf ord s mk).length + pad)) it)) ++
        sepOut ((loose && !(mbItems rest).isEmpty) || (tr && (mbItems rest).isEmpty)) ≠ [] := by
      intro e
      exact outs_reflows_ne _ L _ it hit hne (List.append_eq_nil_iff.mp e).1
    have h1 := renderBlock_listItemL o L w (leaderOf ord s mk) pad hnw _ _ hne' hk k
    have h2 := renderBlocks_itemsL o L tr ord mk pad loose hnw (s + 1) (k + (wrs (mbs it)).length + (sepS loose).length) w rest hrest
    rw [mbItems_cons, reflowItems_cons, mbItems_cons]
    simp only [blkItems, outItems, renderBlocks, h1, h2, hE]
end

/-! ### `Document(text)` and the render with a limit -/

/-- the document as a `str`: the lines `MdRound.wrs` writes (blocks separated by single empty lines, items behind
    marker + padding and content-offset spaces) -/
abbrev textL (ts : List PT) : Str := (wrs (mbs ts)).flatten

mutual
theorem need_reflow (L : Nat) : ∀ (t : PT) (w : Nat), needM (t.reflow L w).mb = needM t.mb
  | .para g, w => by simp [PT.reflow, PT.mb, needM]
  | .list o n mk pad loose items, w => by
    simp only [PT.reflow, PT.mb, needM, needItems_reflow L o mk pad n items w]
theorem needs_reflows (L : Nat) : ∀ (ts : List PT) (w : Nat), needsM (mbs (reflows L w ts)) = needsM (mbs ts)
  | [], _ => by simp [reflows]
  | t :: r, w => by
    rw [reflows_cons, mbs_cons, mbs_cons, needsM_cons, needsM_cons, need_reflow L t w, needs_reflows L r w]
theorem needItems_reflow (L : Nat) (o : Bool) (mk : Char) (pad : Nat) : ∀ (n : Nat) (items : List (List PT)) (w : Nat),
    needItemsM (mbItems (reflowItems L w o mk pad n items)) = needItemsM (mbItems items)
  | _, [], _ => by simp [reflowItems]
  | n, it :: r, w => by
    rw [reflowItems_cons, mbItems_cons, mbItems_cons, needItemsM_cons, needItemsM_cons, needs_reflows L it _,
      needItems_reflow L o mk pad (n + 1) r w]
end

/-- **`Document(text)` on a document of the fragment** under the Markdown renderer's token list: the tokens
    `MdRound.blks` (C09): `Paragraph`s of `RawText`s and soft `LineBreak`s, `List`/`ListItem`s, `BlankLine`s -/
theorem parse_list (cfg : Document.Cfg) (hty : cfg.block.types = markdownTypes)
    (ht : ∀ t ∈ cfg.span, inertClass t = true) (hc : cfg.span.count .lineBreak = 1)
    (nw : Bool) (ts : List PT) (hne : ts ≠ []) (hok : oksP nw ts = true) (gas : Nat) :
    Document.parse cfg (gas + (needsM (mbs ts) + 1)) (textL ts) =
      .ok { kids := blks 1 (mbs ts), footnotes := Document.footnotesOf [] } := by
  have hm := (oks_mbs nw ts hok).1
  have hphase : blockPhase cfg.block (gas + (needsM (mbs ts) + 1)) (wrs (mbs ts)) =
      .ok ({ entries := ents 1 (mbs ts), loose := false }, {}) :=
    tokenize_nodes cfg.block hty nw (mbs ts) hm (mbs_ne ts hne) gas {}
  have hmk := mkBlocks_ents cfg (Document.footnotesOf []) ht hc nw (mbs ts) 1 hm
  rw [textL, parse_lines cfg _ _ (wrs_oneLine nw _ hm)]
  unfold Document.parseLines
  rw [hphase]
  simp only
  rw [hmk]

/-- **(1) the renderer with a line limit re-fills every paragraph with the budget of its position and leaves the item
    structure alone**: the output is the text of the tree `reflows L 0 ts` — same lists, markers, numbering, padding,
    looseness; the lines of an item behind marker + padding (first) and `prepend` spaces (others); every paragraph
    `reflowG (bud L w) g` where `w` is the sum of the `prepend`s of the enclosing items -/
theorem reflowL_render (cfg : Document.Cfg) (hty : cfg.block.types = markdownTypes)
    (ht : ∀ t ∈ cfg.span, inertClass t = true) (hc : cfg.span.count .lineBreak = 1)
    (o : Opts) (L : Nat) (hL : 1 ≤ L) (ho : o.maxLineLength = some (L : Int))
    (ts : List PT) (hne : ts ≠ []) (hok : oksP o.normalizeWhitespace ts = true) (gas : Nat) :
    ∃ d, Document.parse cfg (gas + (needsM (mbs ts) + 1)) (textL ts) = .ok d ∧ d.kids = blks 1 (mbs ts) ∧
      renderRes o d = .ok (textL (reflows L 0 ts)) := by
  refine ⟨_, parse_list cfg hty ht hc _ ts hne hok gas, rfl, ?_⟩
  have hr := renderBlocks_wrapL o L ts 1 0 hok
  rw [budI_zero L hL] at hr
  simp only [renderRes, ho, hr]
  rw [joinLines_eq, outs_lines _ _ (oks_mbs _ _ (oks_reflows _ L ts 0 hok)).1]

/-! ### (3) same structure, same words -/

mutual
/-- the tree with every paragraph written on ONE line (all its words in order): what is invariant under re-filling -/
def PT.norm : PT → PT
  | .para g => .para [g.flatten]
  | .list o n mk pad loose items => .list o n mk pad loose (normItems items)
def norms : List PT → List PT
  | [] => []
  | t :: rest => t.norm :: norms rest
def normItems : List (List PT) → List (List PT)
  | [] => []
  | it :: rest => norms it :: normItems rest
end

mutual
theorem norm_reflow (nw : Bool) (L : Nat) : ∀ (t : PT) (w : Nat), t.ok nw = true → (t.reflow L w).norm = t.norm
  | .para g, w, h => by
    have hp : plainPara g = true := by simpa [PT.ok] using h
    simp only [PT.reflow, PT.norm, (reflowFacts (bud L w) g hp).words]
  | .list o n mk pad loose items, w, h => by
    have hl := listOkP_of nw o n mk pad loose items h
    simp only [PT.reflow, PT.norm, normItems_reflow nw L o mk pad n items w hl.its]
theorem norms_reflows (nw : Bool) (L : Nat) : ∀ (ts : List PT) (w : Nat), oksP nw ts = true →
    norms (reflows L w ts) = norms ts
  | [], _, _ => by simp [reflows]
  | t :: r, w, h => by
    obtain ⟨ht, hr, _⟩ := oksP_cons nw t r h
    rw [reflows_cons]
    simp only [norms, norm_reflow nw L t w ht, norms_reflows nw L r w hr]
theorem normItems_reflow (nw : Bool) (L : Nat) (o : Bool) (mk : Char) (pad : Nat) : ∀ (n : Nat) (items : List (List PT)) (w : Nat),
    okItemsP nw o mk n items = true → normItems (reflowItems L w o mk pad n items) = normItems items
  | _, [], _, _ => by simp [reflowItems]
  | n, it :: r, w, h => by
    obtain ⟨_, hit, _, hrest⟩ := okItemsP_cons nw o mk n it r h
    rw [reflowItems_cons]
    simp only [normItems, norms_reflows nw L it _ hit, normItems_reflow nw L o mk pad (n + 1) r w hrest]
end

/-! ### (4) re-filling again changes nothing -/

mutual
theorem reflow_idem (nw : Bool) (L : Nat) : ∀ (t : PT) (w : Nat), t.ok nw = true → (t.reflow L w).reflow L w = t.reflow L w
  | .para g, w, h => by
    have hp : plainPara g = true := by simpa [PT.ok] using h
    simp only [PT.reflow, reflowG_idem (bud L w) g hp]
  | .list o n mk pad loose items, w, h => by
    have hl := listOkP_of nw o n mk pad loose items h
    simp only [PT.reflow, reflowItems_idem nw L o mk pad n items w hl.its]
theorem reflows_idem (nw : Bool) (L : Nat) : ∀ (ts : List PT) (w : Nat), oksP nw ts = true →
    reflows L w (reflows L w ts) = reflows L w ts
  | [], _, _ => by simp [reflows]
  | t :: r, w, h => by
    obtain ⟨ht, hr, _⟩ := oksP_cons nw t r h
    rw [reflows_cons, reflows_cons, reflow_idem nw L t w ht, reflows_idem nw L r w hr]
theorem reflowItems_idem (nw : Bool) (L : Nat) (o : Bool) (mk : Char) (pad : Nat) : ∀ (n : Nat) (items : List (List PT)) (w : Nat),
    okItemsP nw o mk n items = true →
    reflowItems L w o mk pad n (reflowItems L w o mk pad n items) = reflowItems L w o mk pad n items
  | _, [], _, _ => by simp [reflowItems]
  | n, it :: r, w, h => by
    obtain ⟨_, hit, _, hrest⟩ := okItemsP_cons nw o mk n it r h
    rw [reflowItems_cons, reflowItems_cons, reflows_idem nw L it _ hit, reflowItems_idem nw L o mk pad (n + 1) r w hrest]
end

/-! ### (2) the lines of the output, and the limit after the container prefix -/

mutual
/-- the paragraphs of the tree, each with the total width of the prefixes of the items around it (`w`: the width
    around the tree itself) -/
def PT.paras (w : Nat) : PT → List (Nat × List (List Str))
  | .para g => [(w, g)]
  | .list o n mk pad _ items => parasItems w o mk pad n items
def parasS (w : Nat) : List PT → List (Nat × List (List Str))
  | [] => []
  | t :: rest => t.paras w ++ parasS w rest
def parasItems (w : Nat) (o : Bool) (mk : Char) (pad : Nat) (n : Nat) : List (List PT) → List (Nat × List (List Str))
  | [] => []
  | it :: rest => parasS (w + ((leaderOf o n mk).length + pad)) it ++ parasItems w o mk pad (n + 1) rest
end

theorem parasS_cons (w : Nat) (t : PT) (r : List PT) : parasS w (t :: r) = t.paras w ++ parasS w r := by simp [parasS]
theorem parasItems_cons (w : Nat) (o : Bool) (mk : Char) (pad n : Nat) (it : List PT) (r : List (List PT)) :
    parasItems w o mk pad n (it :: r) = parasS (w + ((leaderOf o n mk).length + pad)) it ++ parasItems w o mk pad (n + 1) r := by
  simp [parasItems]

/-- the re-filled paragraph at prefix width `w` -/
def refillAt (L : Nat) (p : Nat × List (List Str)) : Nat × List (List Str) := (p.1, reflowG (bud L p.1) p.2)

mutual
theorem paras_reflow (L : Nat) : ∀ (t : PT) (w : Nat), (t.reflow L w).paras w = (t.paras w).map (refillAt L)
  | .para g, w => by simp [PT.reflow, PT.paras, refillAt]
  | .list o n mk pad loose items, w => by
    simp only [PT.reflow, PT.paras, parasItems_reflow L o mk pad n items w]
theorem parasS_reflows (L : Nat) : ∀ (ts : List PT) (w : Nat), parasS w (reflows L w ts) = (parasS w ts).map (refillAt L)
  | [], _ => by simp [reflows, parasS]
  | t :: r, w => by
    rw [reflows_cons, parasS_cons, parasS_cons, List.map_append, paras_reflow L t w, parasS_reflows L r w]
theorem parasItems_reflow (L : Nat) (o : Bool) (mk : Char) (pad : Nat) : ∀ (n : Nat) (items : List (List PT)) (w : Nat),
    parasItems w o mk pad n (reflowItems L w o mk pad n items) = (parasItems w o mk pad n items).map (refillAt L)
  | _, [], _ => by simp [reflowItems, parasItems]
  | n, it :: r, w => by
    rw [reflowItems_cons, parasItems_cons, parasItems_cons, List.map_append, parasS_reflows L it _,
      parasItems_reflow L o mk pad (n + 1) r w]
end

mutual
theorem paras_plain (nw : Bool) : ∀ (t : PT) (w : Nat), t.ok nw = true → ∀ p ∈ t.paras w, plainPara p.2 = true
  | .para g, w, h => by
    have hp : plainPara g = true := by simpa [PT.ok] using h
    intro p hm
    simp only [PT.paras, List.mem_singleton] at hm
    rw [hm]; exact hp
  | .list o n mk pad loose items, w, h => by
    have hl := listOkP_of nw o n mk pad loose items h
    simp only [PT.paras]
    exact parasItems_plain nw o mk pad n items w hl.its
theorem parasS_plain (nw : Bool) : ∀ (ts : List PT) (w : Nat), oksP nw ts = true → ∀ p ∈ parasS w ts, plainPara p.2 = true
  | [], _, _ => by simp [parasS]
  | t :: r, w, h => by
    obtain ⟨ht, hr, _⟩ := oksP_cons nw t r h
    intro p hm
    rw [parasS_cons] at hm
    rcases List.mem_append.mp hm with hm | hm
    · exact paras_plain nw t w ht p hm
    · exact parasS_plain nw r w hr p hm
theorem parasItems_plain (nw : Bool) (o : Bool) (mk : Char) (pad : Nat) : ∀ (n : Nat) (items : List (List PT)) (w : Nat),
    okItemsP nw o mk n items = true → ∀ p ∈ parasItems w o mk pad n items, plainPara p.2 = true
  | _, [], _, _ => by simp [parasItems]
  | n, it :: r, w, h => by
    obtain ⟨_, hit, _, hrest⟩ := okItemsP_cons nw o mk n it r h
    intro p hm
    rw [parasItems_cons] at hm
    rcases List.mem_append.mp hm with hm | hm
    · exact parasS_plain nw it _ hit p hm
    · exact parasItems_plain nw o mk pad (n + 1) r w hrest p hm
end

/-- a character of a container prefix: a space, or a character of a list marker -/
def preChar (c : Char) : Bool := c == ' ' || "-+*.)0123456789".toList.contains c

theorem leader_preChar (o : Bool) (n : Nat) (mk : Char) (h : markerOk o n mk = true) :
    ∀ c ∈ leaderOf o n mk, preChar c = true := by
  have hl := leaderOk_of_marker o n mk h
  cases o with
  | false =>
    simp only [markerOk, Bool.false_eq_true, if_false, Bool.or_eq_true, beq_iff_eq] at h
    rcases h with (rfl | rfl) | rfl <;> simp only [leaderOf, Bool.false_eq_true, if_false] <;> decide
  | true =>
    obtain ⟨d, e, hd, he, _, _, hdig⟩ := leaderOk_ordered _ hl
    have hdp : ∀ x ∈ asciiDigits, preChar x = true := by decide
    intro c hc
    rw [hd] at hc
    rcases List.mem_append.mp hc with hc | hc
    · exact hdp c (hdig c hc)
    · simp only [List.mem_singleton] at hc
      subst hc
      rcases he with rfl | rfl <;> decide

theorem spaces_preChar (k : Nat) : ∀ c ∈ List.replicate k ' ', preChar c = true := by
  intro c hc
  rw [(List.mem_replicate.mp hc).2]
  decide

/-- every line of `ls` is "\n", or `prefix ++ body ++ "\n"` where the body is a line of a paragraph of `P` and the
    prefix has the width recorded for that paragraph (`w` of it already accounted for outside `ls`) -/
def Cover (w : Nat) (P : List (Nat × List (List Str))) (ls : List Str) : Prop :=
  ∀ l ∈ ls, l = ['\n'] ∨ ∃ p ∈ P, ∃ pre body, l = pre ++ body ++ ['\n'] ∧ w + pre.length = p.1 ∧
    (∀ c ∈ pre, preChar c = true) ∧ body ∈ p.2.map joinWords

theorem cover_mono (w : Nat) (P P' : List (Nat × List (List Str))) (ls : List Str) (hP : ∀ p ∈ P, p ∈ P')
    (h : Cover w P ls) : Cover w P' ls := by
  intro l hl
  rcases h l hl with h | ⟨p, hp, pre, body, e1, e2, e3, e4⟩
  · exact Or.inl h
  · exact Or.inr ⟨p, hP p hp, pre, body, e1, e2, e3, e4⟩

theorem cover_append (w : Nat) (P Q : List (Nat × List (List Str))) (A B : List Str)
    (hA : Cover w P A) (hB : Cover w Q B) : Cover w (P ++ Q) (A ++ B) := by
  intro l hl
  rcases List.mem_append.mp hl with hl | hl
  · exact cover_mono w P _ A (fun p hp => List.mem_append_left _ hp) hA l hl
  · exact cover_mono w Q _ B (fun p hp => List.mem_append_right _ hp) hB l hl

theorem cover_sep (w : Nat) (P : List (Nat × List (List Str))) (b : Bool) : Cover w P (sepS b) := by
  intro l hl
  cases b with
  | false => simp [sepS] at hl
  | true => simp only [sepS, if_true, List.mem_singleton] at hl; exact Or.inl hl

theorem cover_indent (w : Nat) (P : List (Nat × List (List Str))) (m : Str) (hm : ∀ c ∈ m, preChar c = true)
    (pad : Nat) (ls : List Str)
    (h0 : ls.head? ≠ some ['\n']) (h : Cover (w + (m.length + pad)) P ls) : Cover w P (indentDoc m pad ls) := by
  cases ls with
  | nil => intro l hl; simp [indentDoc] at hl
  | cons s0 ss =>
    intro l hl
    simp only [indentDoc, List.mem_cons, List.mem_map] at hl
    rcases hl with rfl | ⟨y, hy, rfl⟩
    · rcases h s0 (by simp) with h1 | ⟨p, hp, pre, body, e1, e2, e3, e4⟩
      · exact absurd (by rw [h1]; rfl) h0
      · refine Or.inr ⟨p, hp, m ++ List.replicate pad ' ' ++ pre, body, by rw [e1]; simp, ?_, ?_, e4⟩
        · simp only [List.length_append, List.length_replicate]; omega
        · intro c hc
          rcases List.mem_append.mp hc with hc | hc
          · rcases List.mem_append.mp hc with hc | hc
            · exact hm c hc
            · exact spaces_preChar pad c hc
          · exact e3 c hc
    · by_cases e : y = ['\n']
      · simp [e]
      · simp only [e, if_false]
        rcases h y (List.mem_cons_of_mem _ hy) with h1 | ⟨p, hp, pre, body, e1, e2, e3, e4⟩
        · exact absurd h1 e
        · refine Or.inr ⟨p, hp, List.replicate (m.length + pad) ' ' ++ pre, body, by rw [e1]; simp, ?_, ?_, e4⟩
          · simp only [List.length_append, List.length_replicate]; omega
          · intro c hc
            rcases List.mem_append.mp hc with hc | hc
            · exact spaces_preChar _ c hc
            · exact e3 c hc

theorem good_head_ne (ls : List Str) (h : Good ls) : ls.head? ≠ some ['\n'] := by
  obtain ⟨s0, ss, rfl, h0, _⟩ := h
  simpa using line0_ne_nl s0 h0

mutual
theorem cover_wr (nw : Bool) : ∀ (t : PT) (tr : Bool) (w : Nat), t.ok nw = true → Cover w (t.paras w) (wr tr t.mb)
  | .para g, tr, w, _ => by
    intro l hl
    simp only [PT.mb, wr, Blk.lines, paraLines, List.mem_map] at hl
    obtain ⟨ws, hws, rfl⟩ := hl
    exact Or.inr ⟨(w, g), by simp [PT.paras], [], joinWords ws, by simp [lineOf], by simp, by simp, List.mem_map_of_mem hws⟩
  | .list o n mk pad loose items, tr, w, h => by
    have hl := listOkP_of nw o n mk pad loose items h
    simp only [PT.mb, wr, PT.paras]
    exact cover_items nw tr o mk pad loose n items w hl.its
theorem cover_wrs (nw : Bool) : ∀ (ts : List PT) (w : Nat), oksP nw ts = true → Cover w (parasS w ts) (wrs (mbs ts))
  | [], _, _ => by intro l hl; simp [mbs, wrs] at hl
  | [t], w, h => by
    rw [mbs_cons, mbs_nil, wrs_single, parasS_cons]
    exact cover_mono _ _ _ _ (fun p hp => List.mem_append_left _ hp) (cover_wr nw t false w (oksP_cons nw t [] h).1)
  | t :: t' :: r, w, h => by
    obtain ⟨ht, hr, _⟩ := oksP_cons nw t (t' :: r) h
    have ih := cover_wrs nw (t' :: r) w hr
    simp only [mbs_cons] at ih ⊢
    rw [parasS_cons]
    cases ha : adj t.mb t'.mb with
    | false =>
      rw [wrs_cons_sep _ _ _ ha]
      refine cover_append w _ _ _ _ (cover_wr nw t false w ht) ?_
      intro l hl
      rcases List.mem_cons.mp hl with rfl | hl
      · exact Or.inl rfl
      · exact ih l hl
    | true =>
      rw [wrs_cons_adj _ _ _ ha]
      exact cover_append w _ _ _ _ (cover_wr nw t true w ht) ih
theorem cover_items (nw : Bool) (tr o : Bool) (mk : Char) (pad : Nat) (loose : Bool) : ∀ (n : Nat) (items : List (List PT)) (w : Nat),
    okItemsP nw o mk n items = true → Cover w (parasItems w o mk pad n items) (wrItems tr o mk pad loose n (mbItems items))
  | _, [], _, _ => by intro l hl; simp [mbItems, wrItems] at hl
  | n, it :: rest, w, h => by
    obtain ⟨hne, hit, hmk, hrest⟩ := okItemsP_cons nw o mk n it rest h
    have h1 := cover_wrs nw it (w + ((leaderOf o n mk).length + pad)) hit
    have hg := (oks_mbs nw it hit).2 hne
    have hi := cover_indent w _ (leaderOf o n mk) (leader_preChar o n mk hmk) pad _ (good_head_ne _ hg) h1
    have ih := cover_items nw tr o mk pad loose (n + 1) rest w hrest
    rw [mbItems_cons, parasItems_cons]
    cases rest with
    | nil =>
      rw [mbItems_nil, wrItems_single]
      have := cover_append w _ (parasItems w o mk pad (n + 1) []) _ _ hi (cover_sep w _ tr)
      exact this
    | cons it' r =>
      rw [mbItems_cons] at ih ⊢
      rw [wrItems_cons2]
      refine cover_append w _ _ _ _ hi ?_
      intro l hl
      rcases List.mem_append.mp hl with hl | hl
      · exact cover_sep w _ loose l hl
      · exact ih l hl
end

/-- an output line of the fill loop that is longer than the budget `B`, or at most one character long, is one single
    word of the paragraph: no whitespace in it -/
theorem fill_single (B : Nat) (g : List (List Str)) (hg : plainPara g = true) :
    ∀ body ∈ fill B g.flatten, (B < body.length ∨ body.length ≤ 1) → body ∈ g.flatten ∧ ∀ c ∈ body, pyIsSpace c = false := by
  intro body hb hlong
  by_cases h1 : B < body.length
  · exact reflow_bound B g hg body hb h1
  · have hlen : body.length ≤ 1 := by
      rcases hlong with h | h
      · exact absurd h h1
      · exact h
    have f := reflowFacts B g hg
    rw [f.lines] at hb
    obtain ⟨grp, hgrp, rfl⟩ := List.mem_map.mp hb
    obtain ⟨_, hpl⟩ := plainPara_facts _ f.plain
    obtain ⟨hne, hw⟩ := plainWords_facts grp (hpl grp hgrp)
    have hmem : ∀ x ∈ grp, x ∈ g.flatten := by
      intro x hx
      rw [← f.words]
      exact List.mem_flatten.mpr ⟨grp, hgrp, hx⟩
    cases grp with
    | nil => exact absurd rfl hne
    | cons x xs =>
      cases xs with
      | nil =>
        simp only [joinWords]
        exact ⟨hmem x (by simp), fun c hc => wordChar_nsp c ((hw x (by simp)).chars c hc)⟩
      | cons y ys =>
        have := Mistletoe.ReflowQuote.joinWords_two_le x y ys (hw x (by simp)).ne
        omega

/-- **(2) the bound at prefix width `w`.**  `body` is an output line of a paragraph without the container prefix of
    width `w`.  If it is longer than the budget `bud L w = max (L − w) 1`, or if prefix + body is longer than `L`, it
    is one single word of the paragraph — no whitespace, so no breakable space after the container prefix (when the
    budget is clamped to 1 every line holds exactly one word). -/
theorem reflowL_bound (L w : Nat) (g : List (List Str)) (hg : plainPara g = true) :
    ∀ body ∈ fill (bud L w) g.flatten,
      (bud L w < body.length ∨ L < w + body.length) → body ∈ g.flatten ∧ ∀ c ∈ body, pyIsSpace c = false := by
  intro body hb hlong
  apply fill_single (bud L w) g hg body hb
  by_cases h1 : bud L w < body.length
  · exact Or.inl h1
  · right
    rcases hlong with h | h
    · exact absurd h h1
    · simp only [bud] at h1; omega

/-- **(2) for the lines of the output text**: every line of the rendered document is "\n" (between blocks, between
    the items of a loose list) or `prefix ++ body ++ "\n"`, where the body is a line the fill loop made of the words of
    ONE paragraph `g` of the document with the budget `bud L w` of its position, and the prefix — marker + padding of
    the enclosing items, or as many spaces: only spaces and marker characters (`preChar`) — has exactly the width `w`; and if the line (without "\n") is longer than
    `L`, or the body longer than its budget, the body is a single word of `g` without whitespace. -/
theorem reflowL_line_bound (nw : Bool) (L : Nat) (ts : List PT) (hok : oksP nw ts = true) :
    ∀ l ∈ wrs (mbs (reflows L 0 ts)), l = ['\n'] ∨ ∃ p ∈ parasS 0 ts, ∃ pre body, l = pre ++ body ++ ['\n'] ∧
      pre.length = p.1 ∧ (∀ c ∈ pre, preChar c = true) ∧ body ∈ fill (bud L p.1) p.2.flatten ∧
      ((bud L p.1 < body.length ∨ L < (pre ++ body).length) → body ∈ p.2.flatten ∧ ∀ c ∈ body, pyIsSpace c = false) := by
  intro l hl
  have hc := cover_wrs nw (reflows L 0 ts) 0 (oks_reflows nw L ts 0 hok) l hl
  rw [parasS_reflows] at hc
  rcases hc with h | ⟨p', hp', pre, body, e1, e2, e4, e3⟩
  · exact Or.inl h
  · obtain ⟨p, hp, rfl⟩ := List.mem_map.mp hp'
    have hpl := parasS_plain nw ts 0 hok p hp
    simp only [refillAt, Nat.zero_add] at e2 e3
    rw [← (reflowFacts (bud L p.1) p.2 hpl).lines] at e3
    refine Or.inr ⟨p, hp, pre, body, e1, e2, e4, e3, ?_⟩
    intro hlong
    rw [List.length_append, e2] at hlong
    exact reflowL_bound L p.1 p.2 hpl body e3 hlong

/-- **(3) same words.**  The re-filled tree is again in the fragment; it has the same lists, items, markers, numbering,
    padding and looseness, and every paragraph has exactly the same word sequence (`norms`: the tree with every
    paragraph on one line is unchanged); paragraph by paragraph, in document order and with the prefix width of its
    position: the new lines are the lines the fill loop makes of all its words with the budget of that position. -/
theorem reflowL_same_words (nw : Bool) (L : Nat) (ts : List PT) (hok : oksP nw ts = true) :
    oksP nw (reflows L 0 ts) = true ∧ norms (reflows L 0 ts) = norms ts ∧
    parasS 0 (reflows L 0 ts) = (parasS 0 ts).map (refillAt L) ∧
    ∀ p ∈ parasS 0 ts, plainPara p.2 = true ∧ plainPara (reflowG (bud L p.1) p.2) = true ∧
      (reflowG (bud L p.1) p.2).flatten = p.2.flatten ∧
      fill (bud L p.1) p.2.flatten = (reflowG (bud L p.1) p.2).map joinWords := by
  refine ⟨oks_reflows nw L ts 0 hok, norms_reflows nw L ts 0 hok, parasS_reflows L ts 0, ?_⟩
  intro p hp
  have hpl := parasS_plain nw ts 0 hok p hp
  have f := reflowFacts (bud L p.1) p.2 hpl
  exact ⟨hpl, f.plain, f.words, f.lines⟩

/-- **(4) reflowing the output again with the same limit changes nothing**: the output is the text of a tree of the
    fragment with the same item structure, so every paragraph has the same prefix width and hence the same budget —
    also where the budget is clamped to 1; its words are the same sequence; the fill loop is a function of the word
    sequence. -/
theorem reflowL_idempotent (cfg : Document.Cfg) (hty : cfg.block.types = markdownTypes)
    (ht : ∀ t ∈ cfg.span, inertClass t = true) (hc : cfg.span.count .lineBreak = 1)
    (o : Opts) (L : Nat) (hL : 1 ≤ L) (ho : o.maxLineLength = some (L : Int))
    (ts : List PT) (hne : ts ≠ []) (hok : oksP o.normalizeWhitespace ts = true) (gas : Nat) :
    ∃ d out, Document.parse cfg (gas + (needsM (mbs ts) + 1)) (textL ts) = .ok d ∧ renderRes o d = .ok out ∧
      ∃ d', Document.parse cfg (gas + (needsM (mbs ts) + 1)) out = .ok d' ∧ renderRes o d' = .ok out := by
  obtain ⟨d, h1, _, h2⟩ := reflowL_render cfg hty ht hc o L hL ho ts hne hok gas
  obtain ⟨d', h3, _, h4⟩ := reflowL_render cfg hty ht hc o L hL ho (reflows L 0 ts) (reflows_ne L 0 ts hne)
    (oks_reflows _ L ts 0 hok) gas
  rw [needs_reflows] at h3
  rw [reflows_idem _ L ts 0 hok] at h4
  exact ⟨d, _, h1, h2, d', h3, h4⟩

/-! ### (3) meaning: the HTML of the two trees up to the position of the soft line breaks -/

/-- two block tokens with the same HTML once every "\n" is replaced by a space (`nlToSp`), whether `<p>` tags are
    suppressed or not, and alike as to being a `Paragraph` -/
def SoftEq (b b' : Mistletoe.Block) : Prop :=
  (∀ (q : Html.Quotes) (s : Bool),
    nlToSp (Html.flat (Html.renderBlock q s b)) = nlToSp (Html.flat (Html.renderBlock q s b'))) ∧
  Html.isParagraph b = Html.isParagraph b'

inductive SoftEqs : List Mistletoe.Block → List Mistletoe.Block → Prop
  | nil : SoftEqs [] []
  | cons {b b' : Mistletoe.Block} {bs bs' : List Mistletoe.Block} : SoftEq b b' → SoftEqs bs bs' → SoftEqs (b :: bs) (b' :: bs')

theorem softEqs_append : ∀ (A A' B B' : List Mistletoe.Block), SoftEqs A A' → SoftEqs B B' → SoftEqs (A ++ B) (A' ++ B')
  | [], [], _, _, _, hB => hB
  | a :: A, a' :: A', B, B', hA, hB => by
    cases hA with
    | cons h1 h2 => exact .cons h1 (softEqs_append A A' B B' h2 hB)
  | [], _ :: _, _, _, hA, _ => by cases hA
  | _ :: _, [], _, _, hA, _ => by cases hA

theorem softEqs_sep (q : Html.Quotes) (s : Bool) : ∀ (ks ks' : List Mistletoe.Block), SoftEqs ks ks' →
    nlToSp (Html.flat (Html.renderSep q s ks)) = nlToSp (Html.flat (Html.renderSep q s ks'))
  | [], [], _ => rfl
  | [b], [b'], h => by
    cases h with
    | cons h1 _ => simp only [Html.renderSep]; exact h1.1 q s
  | b :: c :: cs, b' :: c' :: cs', h => by
    cases h with
    | cons h1 h2 =>
      have ih := softEqs_sep q s (c :: cs) (c' :: cs') h2
      simp only [Html.renderSep, flat_append, nlToSp_append, h1.1 q s, ih]
  | [], _ :: _, h => by cases h
  | _ :: _, [], h => by cases h
  | [_], _ :: _ :: _, h => by cases h with | cons _ h2 => cases h2
  | _ :: _ :: _, [_], h => by cases h with | cons _ h2 => cases h2

theorem softEqs_last : ∀ (ks ks' : List Mistletoe.Block), SoftEqs ks ks' →
    ks.getLast?.map Html.isParagraph = ks'.getLast?.map Html.isParagraph
  | [], [], _ => rfl
  | [b], [b'], h => by
    cases h with
    | cons h1 _ => simpa using h1.2
  | b :: c :: cs, b' :: c' :: cs', h => by
    cases h with
    | cons h1 h2 =>
      have ih := softEqs_last (c :: cs) (c' :: cs') h2
      rw [List.getLast?_cons_cons, List.getLast?_cons_cons]
      exact ih
  | [], _ :: _, h => by cases h
  | _ :: _, [], h => by cases h
  | [_], _ :: _ :: _, h => by cases h with | cons _ h2 => cases h2
  | _ :: _ :: _, [_], h => by cases h with | cons _ h2 => cases h2

/-- `render_list_item` depends on its children only -/
theorem softEq_item (l l' : Str) (i i' p p' : Nat) (lo lo' : Bool) (n n' : Nat) (ks ks' : List Mistletoe.Block)
    (h : SoftEqs ks ks') : SoftEq (.listItem l i p lo ks n) (.listItem l' i' p' lo' ks' n') := by
  refine ⟨?_, rfl⟩
  intro q s
  have hlast := softEqs_last ks ks' h
  have hsep := softEqs_sep q s ks ks' h
  cases h with
  | nil => rfl
  | @cons b b' bs bs' h1 h2 =>
    simp only [Html.renderBlock, flat_append, nlToSp_append, hsep, h1.2]
    cases hk : (b :: bs).getLast? with
    | none => simp at hk
    | some a =>
      cases hk' : (b' :: bs').getLast? with
      | none => simp at hk'
      | some a' =>
        rw [hk, hk'] at hlast
        simp only [Option.map_some, Option.some.injEq] at hlast
        simp only [hlast]

theorem softEq_list (loose : Bool) (start : Option Nat) (n n' : Nat) (ks ks' : List Mistletoe.Block)
    (h : SoftEqs ks ks') : SoftEq (.list loose start ks n) (.list loose start ks' n') := by
  refine ⟨?_, rfl⟩
  intro q s
  simp only [Html.renderBlock, flat_append, nlToSp_append, softEqs_sep q (!loose) ks ks' h]

theorem softEq_blank (n n' : Nat) : SoftEq (.blankLine n) (.blankLine n') := ⟨fun _ _ => rfl, rfl⟩

theorem softEqs_blankB (b : Bool) (n n' : Nat) : SoftEqs (blankB b n) (blankB b n') := by
  cases b
  · exact .nil
  · exact .cons (softEq_blank n n') .nil

/-- two paragraphs of plain words with the same word sequence -/
theorem softEq_para (g g' : List (List Str)) (hg : plainPara g = true) (hg' : plainPara g' = true)
    (hw : g'.flatten = g.flatten) (n n' : Nat) :
    SoftEq (.paragraph (proseInlines (g.map joinWords)) n) (.paragraph (proseInlines (g'.map joinWords)) n') := by
  refine ⟨?_, rfl⟩
  intro q s
  obtain ⟨hne, hl⟩ := plainPara_facts g hg
  obtain ⟨hne', hl'⟩ := plainPara_facts g' hg'
  have key : nlToSp (Html.flat (Html.renderInlines q (proseInlines (g.map joinWords)))) =
      nlToSp (Html.flat (Html.renderInlines q (proseInlines (g'.map joinWords)))) := by
    rw [flat_prose, flat_prose, nlToSp_escape, nlToSp_escape, nlToSp_paraText g hne hl, nlToSp_paraText g' hne' hl', hw]
  cases s with
  | true => simp only [Html.renderBlock, if_true]; exact key
  | false => simp only [Html.renderBlock, Bool.false_eq_true, if_false, flat_append, nlToSp_append, key]

mutual
theorem softEq_blk (nw : Bool) (L : Nat) : ∀ (t : PT) (tr : Bool) (n n' w : Nat), t.ok nw = true →
    SoftEq (blk tr n t.mb) (blk tr n' (t.reflow L w).mb)
  | .para g, tr, n, n', w, h => by
    have hp : plainPara g = true := by simpa [PT.ok] using h
    have f := reflowFacts (bud L w) g hp
    simp only [PT.mb, PT.reflow, blk, itemBlock, paraLines_strip g (plainPara_facts g hp).2,
      paraLines_strip _ (plainPara_facts _ f.plain).2]
    exact softEq_para g _ hp f.plain f.words n n'
  | .list o s mk pad loose items, tr, n, n', w, h => by
    have hl := listOkP_of nw o s mk pad loose items h
    simp only [PT.mb, PT.reflow, blk]
    exact softEq_list _ _ n n' _ _ (softEqs_items nw L tr o mk pad loose s items n n' w hl.its)
theorem softEqs_blks (nw : Bool) (L : Nat) : ∀ (ts : List PT) (n n' w : Nat), oksP nw ts = true →
    SoftEqs (blks n (mbs ts)) (blks n' (mbs (reflows L w ts)))
  | [], _, _, _, _ => by simp only [mbs, reflows, blks]; exact .nil
  | [t], n, n', w, h => by
    simp only [mbs, reflows, blks_single]
    exact .cons (softEq_blk nw L t false n n' w (oksP_cons nw t [] h).1) .nil
  | t :: t' :: r, n, n', w, h => by
    obtain ⟨ht, hr, _⟩ := oksP_cons nw t (t' :: r) h
    have e1 : mbs (t :: t' :: r) = t.mb :: t'.mb :: mbs r := by simp [mbs]
    have e2 : mbs (reflows L w (t :: t' :: r)) = (t.reflow L w).mb :: (t'.reflow L w).mb :: mbs (reflows L w r) := by
      simp [mbs, reflows]
    have e3 : mbs (t' :: r) = t'.mb :: mbs r := by simp [mbs]
    have e4 : mbs (reflows L w (t' :: r)) = (t'.reflow L w).mb :: mbs (reflows L w r) := by simp [mbs, reflows]
    cases ha : adj t.mb t'.mb with
    | false =>
      have ha' : adj (t.reflow L w).mb (t'.reflow L w).mb = false := by rw [adj_reflow]; exact ha
      have ih := softEqs_blks nw L (t' :: r) (n + (wr false t.mb).length + 1) (n' + (wr false (t.reflow L w).mb).length + 1) w hr
      rw [e3, e4] at ih
      rw [e1, e2, blks_cons_sep n _ _ _ ha, blks_cons_sep n' _ _ _ ha']
      exact .cons (softEq_blk nw L t false n n' w ht) (.cons (softEq_blank _ _) ih)
    | true =>
      have ha' : adj (t.reflow L w).mb (t'.reflow L w).mb = true := by rw [adj_reflow]; exact ha
      have ih := softEqs_blks nw L (t' :: r) (n + (wr true t.mb).length) (n' + (wr true (t.reflow L w).mb).length) w hr
      rw [e3, e4] at ih
      rw [e1, e2, blks_cons_adj n _ _ _ ha, blks_cons_adj n' _ _ _ ha']
      exact .cons (softEq_blk nw L t true n n' w ht) ih
theorem softEqs_items (nw : Bool) (L : Nat) (tr o : Bool) (mk : Char) (pad : Nat) (loose : Bool) :
    ∀ (s : Nat) (items : List (List PT)) (n n' w : Nat), okItemsP nw o mk s items = true →
    SoftEqs (blkItems tr o mk pad loose s n (mbItems items))
      (blkItems tr o mk pad loose s n' (mbItems (reflowItems L w o mk pad s items)))
  | _, [], _, _, _, _ => by simp only [mbItems, reflowItems, blkItems]; exact .nil
  | s, it :: rest, n, n', w, h => by
    obtain ⟨_, hit, _, hrest⟩ := okItemsP_cons nw o mk s it rest h
    have hE : (mbItems (reflowItems L w o mk pad (s + 1) rest)).isEmpty = (mbItems rest).isEmpty := by
      cases rest <;> simp [mbItems, reflowItems]
    have hk := softEqs_append _ _ _ _
      (softEqs_blks nw L it n n' (w + ((leaderOf o s mk).length + pad)) hit)
      (softEqs_blankB ((loose && !(mbItems rest).isEmpty) || (tr && (mbItems rest).isEmpty))
        (n + (wrs (mbs it)).length) (n' + (wrs (mbs (reflows L (w + ((leaderOf o s mk).length + pad)) it))).length))
    have ih := softEqs_items nw L tr o mk pad loose (s + 1) rest (n + (wrs (mbs it)).length + (sepS loose).length)
      (n' + (wrs (mbs (reflows L (w + ((leaderOf o s mk).length + pad)) it))).length + (sepS loose).length) w hrest
    rw [mbItems_cons, reflowItems_cons, mbItems_cons]
    simp only [blkItems, hE]
    exact .cons (softEq_item _ _ _ _ _ _ _ _ _ _ _ _ hk) ih
end

theorem nlToSp_isEmpty (s : Str) : (nlToSp s).isEmpty = s.isEmpty := by cases s <;> rfl

/-- the HTML of two documents whose children are pairwise `SoftEq` -/
theorem softEqs_render (o : Html.Opts) (ks ks' : List Mistletoe.Block) (h : SoftEqs ks ks') (fn fn' : Footnotes.Table) :
    nlToSp (Html.render o { kids := ks, footnotes := fn }) = nlToSp (Html.render o { kids := ks', footnotes := fn' }) := by
  have hsep := softEqs_sep o.q false ks ks' h
  have hE : (Html.flat (Html.renderSep o.q false ks)).isEmpty = (Html.flat (Html.renderSep o.q false ks')).isEmpty := by
    rw [← nlToSp_isEmpty, hsep, nlToSp_isEmpty]
  cases h with
  | nil => rfl
  | cons h1 h2 =>
    simp only [Html.render, Html.renderDoc]
    rw [hE]
    split
    · rfl
    · simp only [flat_append, nlToSp_append, hsep]

/-- **(3) same meaning.**  Original text and re-filled text both parse (Markdown token list) to the token trees of
    C09 (`blks`) of `ts` and of `reflows L 0 ts`; the re-filled tree is in the fragment, has the same item structure and
    the same word sequence in every paragraph (`norms`); and the HTML the `HtmlRenderer` methods produce from the two
    trees (every quote option) is equal once every "\n" is replaced by a space — the trees differ only in where the
    soft line breaks are. -/
theorem reflowL_meaning (cfg : Document.Cfg) (hty : cfg.block.types = markdownTypes)
    (ht : ∀ t ∈ cfg.span, inertClass t = true) (hc : cfg.span.count .lineBreak = 1)
    (nw : Bool) (L : Nat) (ts : List PT) (hne : ts ≠ []) (hok : oksP nw ts = true) (gas : Nat) :
    oksP nw (reflows L 0 ts) = true ∧ norms (reflows L 0 ts) = norms ts ∧
    ∃ d d', Document.parse cfg (gas + (needsM (mbs ts) + 1)) (textL ts) = .ok d ∧
      Document.parse cfg (gas + (needsM (mbs ts) + 1)) (textL (reflows L 0 ts)) = .ok d' ∧
      d.kids = blks 1 (mbs ts) ∧ d'.kids = blks 1 (mbs (reflows L 0 ts)) ∧
      ∀ o : Html.Opts, nlToSp (Html.render o d') = nlToSp (Html.render o d) := by
  have hok' := oks_reflows nw L ts 0 hok
  have h1 := parse_list cfg hty ht hc nw ts hne hok gas
  have h2 := parse_list cfg hty ht hc nw (reflows L 0 ts) (reflows_ne L 0 ts hne) hok' gas
  rw [needs_reflows] at h2
  refine ⟨hok', norms_reflows nw L ts 0 hok, _, _, h1, h2, rfl, rfl, ?_⟩
  intro o
  exact (softEqs_render o _ _ (softEqs_blks nw L ts 1 1 0 hok) _ _).symm

/-! ### `k` block quotes around the document -/

open Mistletoe.ReflowQuote (qBud qBudget qBud_toNat qBud_eq qPre qPre_length qStrs_eq_map childBudget_quote)

/-- the text inside `k` nested block quotes: every line behind `k` markers "> " -/
abbrev textLQ (k : Nat) (ts : List PT) : Str := (qStrs k (wrs (mbs ts))).flatten

theorem preChar_notab (c : Char) (h : preChar c = true) : c ≠ '\t' := by
  rintro rfl; revert h; decide

theorem wrs_notab (nw : Bool) (ts : List PT) (hok : oksP nw ts = true) : ∀ l ∈ wrs (mbs ts), '\t' ∉ l := by
  intro l hl
  rcases cover_wrs nw ts 0 hok l hl with h | ⟨p, hp, pre, body, e1, _, e3, e4⟩
  · rw [h]; decide
  · have hpl := parasS_plain nw ts 0 hok p hp
    obtain ⟨ws, hws, rfl⟩ := List.mem_map.mp e4
    have hnt := Mistletoe.ReflowQuote.lineOf_notab ws ((plainPara_facts p.2 hpl).2 ws hws)
    rw [e1]
    intro hm
    rcases List.mem_append.mp hm with hm | hm
    · rcases List.mem_append.mp hm with hm | hm
      · exact preChar_notab _ (e3 _ hm) rfl
      · exact hnt (by simp [lineOf, hm])
    · simp at hm

/-- `Document(text)` inside `k` quotes (from `C09_lists_quoted_exact_partial`) -/
theorem parse_listQ (cfg : Document.Cfg) (hty : cfg.block.types = markdownTypes)
    (ht : ∀ t ∈ cfg.span, inertClass t = true) (hc : cfg.span.count .lineBreak = 1)
    (nw : Bool) (ts : List PT) (hne : ts ≠ []) (hok : oksP nw ts = true) (k : Nat) (gas : Nat) :
    ∃ d, Document.parse cfg (gas + (needsM (mbs ts) + 1) + k * 8) (textLQ k ts) = .ok d ∧
      d.kids = qBlocks 1 (blks 1 (mbs ts)) k := by
  have hm := (oks_mbs nw ts hok).1
  obtain ⟨d, h1, h2, _⟩ := Mistletoe.Props.C09.C09_lists_quoted_exact_partial cfg hty ht hc
    { maxLineLength := none, normalizeWhitespace := nw } rfl (mbs ts) (mbs_ne ts hne) hm (wrs_notab nw ts hok) k gas
  refine ⟨d, ?_, h2⟩
  rw [textLQ, parse_lines cfg _ _ (qStrs_oneLine k _ (wrs_oneLine nw _ hm))]
  exact h1

/-- `render_quote` with a line limit, iterated, for positive budgets -/
theorem renderBlocks_qBlocks_pos (o : Opts) (ln : Nat) (B : List Mistletoe.Block) (f : Int → List Str)
    (h : ∀ m : Int, 1 ≤ m → renderBlocks o (some m) B = .ok (f m)) :
    ∀ (k : Nat) (n : Int), 1 ≤ n → renderBlocks o (some n) (qBlocks ln B k) = .ok (qStrs k (f (qBud n k)))
  | 0, n, hn => h n hn
  | k + 1, n, hn => by
    have ih := renderBlocks_qBlocks_pos o ln B f h k (max (n - 2) 1) (by omega)
    simp only [qBlocks, qStrs, qBud, renderBlocks, renderBlock, childBudget_quote n (by omega), ih, prefixLines_quote,
      List.append_nil]

/-- **(1) inside `k` quotes**: the quotes take `2k` off the limit first (`qBudget L k = max (L − 2k) 1`), the lists then
    go on from there: the output is the text, at the same quote depth, of the tree re-filled for the limit
    `qBudget L k` -/
theorem reflowLQ_render (cfg : Document.Cfg) (hty : cfg.block.types = markdownTypes)
    (ht : ∀ t ∈ cfg.span, inertClass t = true) (hc : cfg.span.count .lineBreak = 1)
    (o : Opts) (L : Nat) (hL : 1 ≤ L) (ho : o.maxLineLength = some (L : Int))
    (ts : List PT) (hne : ts ≠ []) (hok : oksP o.normalizeWhitespace ts = true) (k : Nat) (gas : Nat) :
    ∃ d, Document.parse cfg (gas + (needsM (mbs ts) + 1) + k * 8) (textLQ k ts) = .ok d ∧
      d.kids = qBlocks 1 (blks 1 (mbs ts)) k ∧
      renderRes o d = .ok (textLQ k (reflows (qBudget L k) 0 ts)) := by
  obtain ⟨d, h1, h2⟩ := parse_listQ cfg hty ht hc _ ts hne hok k gas
  refine ⟨d, h1, h2, ?_⟩
  have hr := renderBlocks_qBlocks_pos o 1 (blks 1 (mbs ts)) (fun m => outs (mbs (reflows m.toNat 0 ts)))
    (fun m hm => by
      have := renderBlocks_wrapL o m.toNat ts 1 0 hok
      rw [budI_zero m.toNat (by omega), Int.toNat_of_nonneg (by omega)] at this
      exact this) k (L : Int) (by omega)
  simp only [renderRes, ho, h2, hr, qBud_toNat L k hL]
  rw [joinLines_eq, qStrs_nl, outs_lines _ _ (oks_mbs _ _ (oks_reflows _ (qBudget L k) ts 0 hok)).1]

/-- **(4) inside `k` quotes** -/
theorem reflowLQ_idempotent (cfg : Document.Cfg) (hty : cfg.block.types = markdownTypes)
    (ht : ∀ t ∈ cfg.span, inertClass t = true) (hc : cfg.span.count .lineBreak = 1)
    (o : Opts) (L : Nat) (hL : 1 ≤ L) (ho : o.maxLineLength = some (L : Int))
    (ts : List PT) (hne : ts ≠ []) (hok : oksP o.normalizeWhitespace ts = true) (k : Nat) (gas : Nat) :
    ∃ d out, Document.parse cfg (gas + (needsM (mbs ts) + 1) + k * 8) (textLQ k ts) = .ok d ∧ renderRes o d = .ok out ∧
      ∃ d', Document.parse cfg (gas + (needsM (mbs ts) + 1) + k * 8) out = .ok d' ∧ renderRes o d' = .ok out := by
  obtain ⟨d, h1, _, h2⟩ := reflowLQ_render cfg hty ht hc o L hL ho ts hne hok k gas
  obtain ⟨d', h3, _, h4⟩ := reflowLQ_render cfg hty ht hc o L hL ho (reflows (qBudget L k) 0 ts)
    (reflows_ne _ 0 ts hne) (oks_reflows _ _ ts 0 hok) k gas
  rw [needs_reflows] at h3
  rw [reflows_idem _ _ ts 0 hok] at h4
  exact ⟨d, _, h1, h2, d', h3, h4⟩

/-- **(2) inside `k` quotes**: every output line is `"> " * k`, then "\n" or `prefix ++ body ++ "\n"` as in
    `reflowL_line_bound` with the limit `qBudget L k`; if the body is longer than its budget
    `bud (qBudget L k) w = max (L − 2k − w) 1`, or the line (without "\n") longer than `L`, the body is one single
    word -/
theorem reflowLQ_line_bound (nw : Bool) (L k : Nat) (ts : List PT) (hok : oksP nw ts = true) :
    ∀ l ∈ qStrs k (wrs (mbs (reflows (qBudget L k) 0 ts))), l = qPre k ++ ['\n'] ∨
      ∃ p ∈ parasS 0 ts, ∃ pre body, l = qPre k ++ (pre ++ body ++ ['\n']) ∧
        pre.length = p.1 ∧ (∀ c ∈ pre, preChar c = true) ∧ body ∈ fill (bud (qBudget L k) p.1) p.2.flatten ∧
        ((bud (qBudget L k) p.1 < body.length ∨ L < (qPre k ++ pre ++ body).length) →
          body ∈ p.2.flatten ∧ ∀ c ∈ body, pyIsSpace c = false) := by
  intro l hl
  rw [qStrs_eq_map] at hl
  obtain ⟨x, hx, rfl⟩ := List.mem_map.mp hl
  rcases reflowL_line_bound nw (qBudget L k) ts hok x hx with h | ⟨p, hp, pre, body, e1, e2, e3, e4, _⟩
  · exact Or.inl (by rw [h])
  · refine Or.inr ⟨p, hp, pre, body, by rw [e1], e2, e3, e4, ?_⟩
    intro hlong
    have hpl := parasS_plain nw ts 0 hok p hp
    apply fill_single _ p.2 hpl body e4
    by_cases h1 : bud (qBudget L k) p.1 < body.length
    · exact Or.inl h1
    · right
      rcases hlong with h | h
      · exact absurd h h1
      · simp only [List.length_append, qPre_length, e2] at h
        simp only [bud, qBudget] at h1
        omega

theorem softEqs_afterEach (q : Html.Quotes) (s : Bool) : ∀ (ks ks' : List Mistletoe.Block), SoftEqs ks ks' →
    nlToSp (Html.flat (Html.renderAfterEach q s ks)) = nlToSp (Html.flat (Html.renderAfterEach q s ks'))
  | [], [], _ => rfl
  | b :: bs, b' :: bs', h => by
    cases h with
    | cons h1 h2 =>
      simp only [Html.renderAfterEach, flat_append, nlToSp_append, h1.1 q s, softEqs_afterEach q s bs bs' h2]
  | [], _ :: _, h => by cases h
  | _ :: _, [], h => by cases h

theorem softEq_quote (n n' : Nat) (ks ks' : List Mistletoe.Block) (h : SoftEqs ks ks') :
    SoftEq (.quote ks n) (.quote ks' n') := by
  refine ⟨?_, rfl⟩
  intro q s
  simp only [Html.renderBlock, flat_append, nlToSp_append, softEqs_afterEach q false ks ks' h]

theorem softEqs_qBlocks (ln : Nat) (B B' : List Mistletoe.Block) (h : SoftEqs B B') :
    ∀ k, SoftEqs (qBlocks ln B k) (qBlocks ln B' k)
  | 0 => h
  | k + 1 => .cons (softEq_quote ln ln _ _ (softEqs_qBlocks ln B B' h k)) .nil

/-- **(3) inside `k` quotes** -/
theorem reflowLQ_meaning (cfg : Document.Cfg) (hty : cfg.block.types = markdownTypes)
    (ht : ∀ t ∈ cfg.span, inertClass t = true) (hc : cfg.span.count .lineBreak = 1)
    (nw : Bool) (B : Nat) (ts : List PT) (hne : ts ≠ []) (hok : oksP nw ts = true) (k : Nat) (gas : Nat) :
    oksP nw (reflows B 0 ts) = true ∧ norms (reflows B 0 ts) = norms ts ∧
    ∃ d d', Document.parse cfg (gas + (needsM (mbs ts) + 1) + k * 8) (textLQ k ts) = .ok d ∧
      Document.parse cfg (gas + (needsM (mbs ts) + 1) + k * 8) (textLQ k (reflows B 0 ts)) = .ok d' ∧
      d.kids = qBlocks 1 (blks 1 (mbs ts)) k ∧ d'.kids = qBlocks 1 (blks 1 (mbs (reflows B 0 ts))) k ∧
      ∀ o : Html.Opts, nlToSp (Html.render o d') = nlToSp (Html.render o d) := by
  have hok' := oks_reflows nw B ts 0 hok
  obtain ⟨d, h1, h2⟩ := parse_listQ cfg hty ht hc nw ts hne hok k gas
  obtain ⟨d', h3, h4⟩ := parse_listQ cfg hty ht hc nw (reflows B 0 ts) (reflows_ne B 0 ts hne) hok' k gas
  rw [needs_reflows] at h3
  refine ⟨hok', norms_reflows nw B ts 0 hok, d, d', h1, h3, h2, h4, ?_⟩
  intro o
  have := softEqs_render o _ _ (softEqs_qBlocks 1 _ _ (softEqs_blks nw B ts 1 1 0 hok) k) d.footnotes d'.footnotes
  rw [← h2, ← h4] at this
  exact this.symm

/-! ## The theorems -/

theorem markdown_cfg (cfg : Document.Cfg) (hcfg : Config.markdown = some cfg) :
    cfg.block.types = markdownTypes ∧ (∀ t ∈ cfg.span, inertClass t = true) ∧ cfg.span.count .lineBreak = 1 := by
  obtain ⟨_, ht, hc⟩ := Mistletoe.Props.C14.C14_config_covered cfg (Or.inr (Or.inl hcfg))
  exact ⟨Mistletoe.ReflowQuote.markdown_types cfg hcfg, ht, hc⟩

/-- **C10 inside list items: what the renderer does with a line limit, that nothing is lost, and the limit after the
    container prefix** (clauses 1, 2 and the word part of 3), for the token lists `MarkdownRenderer` installs in the
    working tree (`Config.markdown`).

    Fragment (`_partial`: it is a hypothesis, decidable: `oksP`).  A document is a non-empty list of blocks separated
    by single empty lines; a block is a paragraph of plain words (`plainPara`, as in `C10_prose_reflow_partial`) or a
    LIST — bullet `-`/`+`/`*` or ordered `n.`/`n)` numbered consecutively from any start below 10⁹, marker in column 0
    of its container, 1…4 spaces of padding (exactly 1 under `normalize_whitespace=True`), tight or with one empty
    line between items, every item a non-empty list of blocks of the fragment again (nested lists to any depth), the
    lines of an item behind marker + padding (first) and as many spaces (others); behind a list comes a paragraph or a
    list of another marker type.  `textL ts` is that text (the writer `MdRound.wrs` of C09).
    `MarkdownRenderer(max_line_length=L)`, `L ≥ 1`, either `normalize_whitespace`.

    Then `Document(text)` succeeds (tokens `MdRound.blks`), and
    * (1) the renderer does not raise; its output is the text of the tree `reflows L 0 ts`: same lists, markers,
      numbering, padding, looseness, and every paragraph re-filled by the greedy loop with the budget
      `bud L w = max (L − w) 1`, `w` the total width of the prefixes (`prepend` = marker + padding) of the items around
      it — each `render_list_item` takes its prefix width off the limit and the clamp keeps the budget truthy
      (`childBudget_bud`);
    * (3, words) the re-filled tree is in the fragment and differs from `ts` only in the line division of the
      paragraphs (`norms`); paragraph by paragraph (`parasS`: in document order, with its prefix width) the new
      paragraph is `reflowG (bud L w) g`, of plain words, with exactly the same word sequence;
    * (2) every output line is "\n", or `prefix ++ body ++ "\n"` with the prefix of the width `w` recorded for one
      paragraph `g` and the body a line of the fill loop over the words of `g`; a body longer than the budget, and
      likewise the body of a line (without "\n") longer than `L`, is one single word of `g` — it contains no
      whitespace, hence no breakable space after the container prefix. -/
theorem C10_list_reflow_partial (cfg : Document.Cfg) (hcfg : Config.markdown = some cfg)
    (o : Opts) (L : Nat) (hL : 1 ≤ L) (ho : o.maxLineLength = some (L : Int))
    (ts : List PT) (hne : ts ≠ []) (hok : oksP o.normalizeWhitespace ts = true) (gas : Nat) :
    ∃ d, Document.parse cfg (gas + (needsM (mbs ts) + 1)) (textL ts) = .ok d ∧ d.kids = blks 1 (mbs ts) ∧
      renderRes o d = .ok (textL (reflows L 0 ts)) ∧ render o d = textL (reflows L 0 ts) ∧
      (oksP o.normalizeWhitespace (reflows L 0 ts) = true ∧ norms (reflows L 0 ts) = norms ts ∧
        parasS 0 (reflows L 0 ts) = (parasS 0 ts).map (refillAt L) ∧
        ∀ p ∈ parasS 0 ts, plainPara p.2 = true ∧ plainPara (reflowG (bud L p.1) p.2) = true ∧
          (reflowG (bud L p.1) p.2).flatten = p.2.flatten ∧
          fill (bud L p.1) p.2.flatten = (reflowG (bud L p.1) p.2).map joinWords) ∧
      (∀ l ∈ wrs (mbs (reflows L 0 ts)), l = ['\n'] ∨ ∃ p ∈ parasS 0 ts, ∃ pre body, l = pre ++ body ++ ['\n'] ∧
        pre.length = p.1 ∧ (∀ c ∈ pre, preChar c = true) ∧ body ∈ fill (bud L p.1) p.2.flatten ∧
        ((bud L p.1 < body.length ∨ L < (pre ++ body).length) → body ∈ p.2.flatten ∧ ∀ c ∈ body, pyIsSpace c = false)) := by
  obtain ⟨hty, ht, hc⟩ := markdown_cfg cfg hcfg
  obtain ⟨d, h1, h2, h3⟩ := reflowL_render cfg hty ht hc o L hL ho ts hne hok gas
  exact ⟨d, h1, h2, h3, by simp only [render, h3], reflowL_same_words _ L ts hok, reflowL_line_bound _ L ts hok⟩

/-- **C10 inside list items: the re-filled text means the same** (clause 3).  Same fragment and token lists.  With
    `render o d` the output of `MarkdownRenderer(max_line_length=L)`: the output parses again, to the C09 token tree of
    `reflows L 0 ts`, which is in the fragment, has the same lists/items/markers and the same word sequence in every
    paragraph (`norms`); and the HTML that `HtmlRenderer`'s render methods (every quote option) produce from the two
    token trees is equal once every "\n" is replaced by a space (`nlToSp`) — the same document up to the position of
    the soft line breaks.  (The HTML is taken of the trees parsed under the MARKDOWN renderer's token list: the
    block phase of lists is only available for that list, `MdRoundLists`.) -/
theorem C10_list_reflow_meaning_partial (cfg : Document.Cfg) (hcfg : Config.markdown = some cfg)
    (o : Opts) (L : Nat) (hL : 1 ≤ L) (ho : o.maxLineLength = some (L : Int))
    (ts : List PT) (hne : ts ≠ []) (hok : oksP o.normalizeWhitespace ts = true) (gas : Nat) :
    ∃ d d', Document.parse cfg (gas + (needsM (mbs ts) + 1)) (textL ts) = .ok d ∧
      Document.parse cfg (gas + (needsM (mbs ts) + 1)) (render o d) = .ok d' ∧
      d.kids = blks 1 (mbs ts) ∧ d'.kids = blks 1 (mbs (reflows L 0 ts)) ∧
      oksP o.normalizeWhitespace (reflows L 0 ts) = true ∧ norms (reflows L 0 ts) = norms ts ∧
      ∀ hopts : Html.Opts, nlToSp (Html.render hopts d') = nlToSp (Html.render hopts d) := by
  obtain ⟨hty, ht, hc⟩ := markdown_cfg cfg hcfg
  obtain ⟨d0, g1, _, g3⟩ := reflowL_render cfg hty ht hc o L hL ho ts hne hok gas
  obtain ⟨m1, m2, d, d', h1, h2, h3, h4, h5⟩ := reflowL_meaning cfg hty ht hc _ L ts hne hok gas
  have e : d0 = d := by rw [g1] at h1; cases h1; rfl
  subst e
  refine ⟨d0, d', h1, ?_, h3, h4, m1, m2, h5⟩
  simp only [render, g3]
  exact h2

/-- **C10 inside list items: reflowing again changes nothing** (clause 4).  Same fragment and token lists:
    `render(Document(render(Document(text))))`, same `max_line_length = L ≥ 1`, is `render(Document(text))`, and
    neither parse nor render raises — for every nesting depth and every `L`, also where budgets are clamped to 1 (the
    output has the same item structure, hence the same prefix widths and budgets). -/
theorem C10_list_reflow_idempotent_partial (cfg : Document.Cfg) (hcfg : Config.markdown = some cfg)
    (o : Opts) (L : Nat) (hL : 1 ≤ L) (ho : o.maxLineLength = some (L : Int))
    (ts : List PT) (hne : ts ≠ []) (hok : oksP o.normalizeWhitespace ts = true) (gas : Nat) :
    ∃ d, Document.parse cfg (gas + (needsM (mbs ts) + 1)) (textL ts) = .ok d ∧
      ∃ d', Document.parse cfg (gas + (needsM (mbs ts) + 1)) (render o d) = .ok d' ∧
        renderRes o d' = renderRes o d ∧ render o d' = render o d := by
  obtain ⟨hty, ht, hc⟩ := markdown_cfg cfg hcfg
  obtain ⟨d, out, h1, h2, d', h3, h4⟩ := reflowL_idempotent cfg hty ht hc o L hL ho ts hne hok gas
  refine ⟨d, h1, d', ?_, by rw [h2, h4], by simp only [render, h2, h4]⟩
  simp only [render, h2]; exact h3

/-- **The same inside `k` nested block quotes** (clauses 1, 2, words of 3): every line of the text — empty lines
    included — behind `k` markers "> " (`textLQ k`; `k = 0` is `C10_list_reflow_partial`).  The quotes take `2k` off the
    limit (`qBudget L k = max (L − 2k) 1`, `C10_quoted_reflow_partial`), the items go on from there: the output is, at
    the same quote depth, the text of `reflows (qBudget L k) 0 ts`; a paragraph behind `k` quote markers and item
    prefixes of total width `w` is filled with the budget `bud (qBudget L k) w = max (L − 2k − w) 1`. -/
theorem C10_list_reflow_quoted_partial (cfg : Document.Cfg) (hcfg : Config.markdown = some cfg)
    (o : Opts) (L : Nat) (hL : 1 ≤ L) (ho : o.maxLineLength = some (L : Int))
    (ts : List PT) (hne : ts ≠ []) (hok : oksP o.normalizeWhitespace ts = true) (k : Nat) (gas : Nat) :
    ∃ d, Document.parse cfg (gas + (needsM (mbs ts) + 1) + k * 8) (textLQ k ts) = .ok d ∧
      d.kids = qBlocks 1 (blks 1 (mbs ts)) k ∧
      renderRes o d = .ok (textLQ k (reflows (qBudget L k) 0 ts)) ∧ render o d = textLQ k (reflows (qBudget L k) 0 ts) ∧
      (oksP o.normalizeWhitespace (reflows (qBudget L k) 0 ts) = true ∧ norms (reflows (qBudget L k) 0 ts) = norms ts ∧
        parasS 0 (reflows (qBudget L k) 0 ts) = (parasS 0 ts).map (refillAt (qBudget L k)) ∧
        ∀ p ∈ parasS 0 ts, plainPara p.2 = true ∧ plainPara (reflowG (bud (qBudget L k) p.1) p.2) = true ∧
          (reflowG (bud (qBudget L k) p.1) p.2).flatten = p.2.flatten ∧
          fill (bud (qBudget L k) p.1) p.2.flatten = (reflowG (bud (qBudget L k) p.1) p.2).map joinWords) ∧
      (∀ l ∈ qStrs k (wrs (mbs (reflows (qBudget L k) 0 ts))), l = qPre k ++ ['\n'] ∨
        ∃ p ∈ parasS 0 ts, ∃ pre body, l = qPre k ++ (pre ++ body ++ ['\n']) ∧
          pre.length = p.1 ∧ (∀ c ∈ pre, preChar c = true) ∧ body ∈ fill (bud (qBudget L k) p.1) p.2.flatten ∧
          ((bud (qBudget L k) p.1 < body.length ∨ L < (qPre k ++ pre ++ body).length) →
            body ∈ p.2.flatten ∧ ∀ c ∈ body, pyIsSpace c = false)) := by
  obtain ⟨hty, ht, hc⟩ := markdown_cfg cfg hcfg
  obtain ⟨d, h1, h2, h3⟩ := reflowLQ_render cfg hty ht hc o L hL ho ts hne hok k gas
  exact ⟨d, h1, h2, h3, by simp only [render, h3], reflowL_same_words _ _ ts hok, reflowLQ_line_bound _ L k ts hok⟩

/-- clause 3 inside `k` quotes -/
theorem C10_list_reflow_quoted_meaning_partial (cfg : Document.Cfg) (hcfg : Config.markdown = some cfg)
    (o : Opts) (L : Nat) (hL : 1 ≤ L) (ho : o.maxLineLength = some (L : Int))
    (ts : List PT) (hne : ts ≠ []) (hok : oksP o.normalizeWhitespace ts = true) (k : Nat) (gas : Nat) :
    ∃ d d', Document.parse cfg (gas + (needsM (mbs ts) + 1) + k * 8) (textLQ k ts) = .ok d ∧
      Document.parse cfg (gas + (needsM (mbs ts) + 1) + k * 8) (render o d) = .ok d' ∧
      d.kids = qBlocks 1 (blks 1 (mbs ts)) k ∧ d'.kids = qBlocks 1 (blks 1 (mbs (reflows (qBudget L k) 0 ts))) k ∧
      oksP o.normalizeWhitespace (reflows (qBudget L k) 0 ts) = true ∧ norms (reflows (qBudget L k) 0 ts) = norms ts ∧
      ∀ hopts : Html.Opts, nlToSp (Html.render hopts d') = nlToSp (Html.render hopts d) := by
  obtain ⟨hty, ht, hc⟩ := markdown_cfg cfg hcfg
  obtain ⟨d0, g1, _, g3⟩ := reflowLQ_render cfg hty ht hc o L hL ho ts hne hok k gas
  obtain ⟨m1, m2, d, d', h1, h2, h3, h4, h5⟩ := reflowLQ_meaning cfg hty ht hc _ (qBudget L k) ts hne hok k gas
  have e : d0 = d := by rw [g1] at h1; cases h1; rfl
  subst e
  refine ⟨d0, d', h1, ?_, h3, h4, m1, m2, h5⟩
  simp only [render, g3]
  exact h2

/-- clause 4 inside `k` quotes -/
theorem C10_list_reflow_quoted_idempotent_partial (cfg : Document.Cfg) (hcfg : Config.markdown = some cfg)
    (o : Opts) (L : Nat) (hL : 1 ≤ L) (ho : o.maxLineLength = some (L : Int))
    (ts : List PT) (hne : ts ≠ []) (hok : oksP o.normalizeWhitespace ts = true) (k : Nat) (gas : Nat) :
    ∃ d, Document.parse cfg (gas + (needsM (mbs ts) + 1) + k * 8) (textLQ k ts) = .ok d ∧
      ∃ d', Document.parse cfg (gas + (needsM (mbs ts) + 1) + k * 8) (render o d) = .ok d' ∧
        renderRes o d' = renderRes o d ∧ render o d' = render o d := by
  obtain ⟨hty, ht, hc⟩ := markdown_cfg cfg hcfg
  obtain ⟨d, out, h1, h2, d', h3, h4⟩ := reflowLQ_idempotent cfg hty ht hc o L hL ho ts hne hok k gas
  refine ⟨d, h1, d', ?_, by rw [h2, h4], by simp only [render, h2, h4]⟩
  simp only [render, h2]; exact h3

/-! ### Non-vacuity -/

/-- "- one two three four five six\n- seven eight nine\n\n  1. ten eleven twelve thirteen\n" -/
def exDoc : List PT :=
  [.list false 0 '-' 1 false
    [[.para [[W "one", W "two", W "three", W "four", W "five", W "six"]]],
     [.para [[W "seven", W "eight", W "nine"]],
      .list true 1 '.' 1 false [[.para [[W "ten", W "eleven", W "twelve", W "thirteen"]]]]]]]

def exText : Str := W "- one two three four five six\n- seven eight nine\n\n  1. ten eleven twelve thirteen\n"
def exOut : Str :=
  W "- one two\n  three four\n  five six\n- seven\n  eight nine\n\n  1. ten\n     eleven\n     twelve\n     thirteen\n"

theorem exDoc_ok : oksP false exDoc = true ∧ oksP true exDoc = true ∧ exDoc ≠ [] := by decide +kernel

example : textL exDoc = exText := by decide +kernel
example : needsM (mbs exDoc) = 127 := by decide +kernel

/-- the paragraphs with their prefix widths, and their budgets for L = 12: 10, 10, 7 -/
example : (parasS 0 exDoc).map (·.1) = [2, 2, 5] ∧ (parasS 0 exDoc).map (fun p => bud 12 p.1) = [10, 10, 7] := by
  decide +kernel

/-- the re-filled tree and its text -/
example : textL (reflows 12 0 exDoc) = exOut := by decide +kernel

/-- the theorem applies (L = 12) … -/
example : ∃ cfg d, Config.markdown = some cfg ∧ Document.parse cfg 128 exText = .ok d ∧
    render { maxLineLength := some 12 } d = exOut := by
  obtain ⟨cfg, hcfg⟩ := Mistletoe.ReflowQuote.markdown_cfg_exists
  obtain ⟨d, h1, _, _, h4, _⟩ := C10_list_reflow_partial cfg hcfg { maxLineLength := some 12 } 12 (by omega) rfl
    exDoc exDoc_ok.2.2 exDoc_ok.1 0
  refine ⟨cfg, d, hcfg, ?_, ?_⟩
  · have e : textL exDoc = exText := by decide +kernel
    have e2 : needsM (mbs exDoc) = 127 := by decide +kernel
    rw [e, e2] at h1
    exact h1
  · rw [h4]; decide +kernel

open Mistletoe.Props.C09 (mdCfg) in
/-- … and evaluating parser and renderer in the kernel on that text gives the same answer (as does the real code) -/
example : (Document.parse mdCfg 128 exText).bind (fun d => renderRes { maxLineLength := some 12 } d) = .ok exOut := by
  decide +kernel

open Mistletoe.Props.C09 (mdCfg) in
/-- idempotence in the kernel: the output is reproduced -/
example : (Document.parse mdCfg 128 exOut).bind (fun d => renderRes { maxLineLength := some 12 } d) = .ok exOut := by
  decide +kernel

/-- idempotence and meaning: the theorems apply -/
example : ∃ cfg d, Config.markdown = some cfg ∧ Document.parse cfg (needsM (mbs exDoc) + 1) (textL exDoc) = .ok d ∧
    ∃ d', Document.parse cfg (needsM (mbs exDoc) + 1) (render { maxLineLength := some 12 } d) = .ok d' ∧
      render { maxLineLength := some 12 } d' = render { maxLineLength := some 12 } d ∧
      ∀ hopts : Html.Opts, nlToSp (Html.render hopts d') = nlToSp (Html.render hopts d) := by
  obtain ⟨cfg, hcfg⟩ := Mistletoe.ReflowQuote.markdown_cfg_exists
  obtain ⟨d, h1, d', h2, _, h4⟩ := C10_list_reflow_idempotent_partial cfg hcfg { maxLineLength := some 12 } 12 (by omega) rfl
    exDoc exDoc_ok.2.2 exDoc_ok.1 0
  obtain ⟨d0, d0', g1, g2, _, _, _, _, g7⟩ := C10_list_reflow_meaning_partial cfg hcfg { maxLineLength := some 12 } 12
    (by omega) rfl exDoc exDoc_ok.2.2 exDoc_ok.1 0
  have e : d0 = d := by rw [g1] at h1; cases h1; rfl
  subst e
  have e' : d0' = d' := by rw [g2] at h2; cases h2; rfl
  subst e'
  exact ⟨cfg, d0, hcfg, by simpa using h1, d0', by simpa using h2, h4, g7⟩

open Mistletoe.Props.C09 (mdCfg) in
/-- the text of the task statement — the nested list directly behind the paragraph, WITHOUT the empty line — is not
    in the normal form of C09 (`wrs` separates blocks by empty lines), hence outside the fragment; the model evaluated
    in the kernel gives what the real code gives -/
example : (Document.parse mdCfg 128 (W "- one two three four five six\n- seven eight nine\n  1. ten eleven twelve thirteen\n")).bind
    (fun d => renderRes { maxLineLength := some 12 } d) =
      .ok (W "- one two\n  three four\n  five six\n- seven\n  eight nine\n  1. ten\n     eleven\n     twelve\n     thirteen\n") := by
  decide +kernel

/-- loose ordered list with padding 2 whose markers change width ("9)" → "10)"), clamped budgets (L = 5: prefix
    widths 4 and 5, budgets 1 and 1) -/
def exDoc2 : List PT :=
  [.para [[W "intro", W "text"]],
   .list true 9 ')' 2 true [[.para [[W "a", W "b", W "c"]]], [.para [[W "d", W "e"]], .para [[W "f", W "g"]]]]]

theorem exDoc2_ok : oksP false exDoc2 = true ∧ exDoc2 ≠ [] := by decide +kernel
example : oksP true exDoc2 = false := by decide +kernel
example : textL exDoc2 = W "intro text\n\n9)  a b c\n\n10)  d e\n\n     f g\n" := by decide +kernel
example : textL (reflows 5 0 exDoc2) = W "intro\ntext\n\n9)  a\n    b\n    c\n\n10)  d\n     e\n\n     f\n     g\n" := by
  decide +kernel
example : textL (reflows 7 0 exDoc2) = W "intro\ntext\n\n9)  a b\n    c\n\n10)  d\n     e\n\n     f\n     g\n" := by
  decide +kernel

open Mistletoe.Props.C09 (mdCfg) in
example : (Document.parse mdCfg 200 (W "intro text\n\n9)  a b c\n\n10)  d e\n\n     f g\n")).bind
    (fun d => renderRes { maxLineLength := some 7 } d) =
      .ok (W "intro\ntext\n\n9)  a b\n    c\n\n10)  d\n     e\n\n     f\n     g\n") := by decide +kernel

/-- the predicate is not trivially true -/
example : oksP false [.list false 0 '-' 1 false [[.para [[W "1.", W "x"]]]]] = false ∧
    oksP false [.list false 0 '-' 5 false [[.para [[W "x"]]]]] = false ∧
    oksP false [.list false 0 '-' 1 false [[.para [[W "x"]]]], .list false 0 '-' 1 false [[.para [[W "y"]]]]] = false ∧
    oksP false [.list false 0 '-' 1 false []] = false := by decide +kernel

/-- inside one block quote, L = 14: the quote takes 2, the items go on from 12 -/
example : textLQ 1 exDoc =
    W "> - one two three four five six\n> - seven eight nine\n> \n>   1. ten eleven twelve thirteen\n" := by decide +kernel
example : Mistletoe.ReflowQuote.qBudget 14 1 = 12 := by decide
example : textLQ 1 (reflows 12 0 exDoc) =
    W "> - one two\n>   three four\n>   five six\n> - seven\n>   eight nine\n> \n>   1. ten\n>      eleven\n>      twelve\n>      thirteen\n" := by
  decide +kernel

example : ∃ cfg d, Config.markdown = some cfg ∧
    Document.parse cfg (needsM (mbs exDoc) + 1 + 1 * 8) (textLQ 1 exDoc) = .ok d ∧
    render { maxLineLength := some 14 } d = textLQ 1 (reflows 12 0 exDoc) := by
  obtain ⟨cfg, hcfg⟩ := Mistletoe.ReflowQuote.markdown_cfg_exists
  obtain ⟨d, h1, _, _, h4, _⟩ := C10_list_reflow_quoted_partial cfg hcfg { maxLineLength := some 14 } 14 (by omega) rfl
    exDoc exDoc_ok.2.2 exDoc_ok.1 1 0
  exact ⟨cfg, d, hcfg, by simpa using h1, h4⟩

open Mistletoe.Props.C09 (mdCfg) in
example : (Document.parse mdCfg 136 (W "> - one two three four five six\n> - seven eight nine\n> \n>   1. ten eleven twelve thirteen\n")).bind
    (fun d => renderRes { maxLineLength := some 14 } d) =
      .ok (W "> - one two\n>   three four\n>   five six\n> - seven\n>   eight nine\n> \n>   1. ten\n>      eleven\n>      twelve\n>      thirteen\n") := by
  decide +kernel

end Mistletoe.ReflowList
