/-
  Lemmas about the block-parser model: the read cursor only ever moves within one buffer
  (`Same`), and the line buffers handed to nested `tokenize_block` calls carry consecutive
  origins starting at the `start_line` that is passed along (C13).
-/
import Mistletoe.Model.Block
namespace Mistletoe.Block
open Mistletoe Mistletoe.Py Mistletoe.Scan

/-- The k-th line of a buffer that starts at line `s` has origin `s + k`. -/
def OriginsFrom : Nat → List Line → Prop
  | _, [] => True
  | s, l :: ls => l.origin = s ∧ OriginsFrom (s + 1) ls

theorem originsFrom_get : ∀ (ls : List Line) (s k : Nat) (l : Line), OriginsFrom s ls → ls[k]? = some l → l.origin = s + k
  | [], _, _, _, _, h => by simp at h
  | x :: xs, s, 0, l, ho, h => by
    simp only [List.getElem?_cons_zero, Option.some.injEq] at h
    subst h; simpa using ho.1
  | x :: xs, s, k + 1, l, ho, h => by
    simp only [List.getElem?_cons_succ] at h
    have := originsFrom_get xs (s + 1) k l ho.2 h
    omega

theorem originsFrom_append : ∀ (a b : List Line) (s : Nat), OriginsFrom s a → OriginsFrom (s + a.length) b → OriginsFrom s (a ++ b)
  | [], b, s, _, hb => by simpa using hb
  | x :: xs, b, s, ha, hb => by
    refine ⟨ha.1, originsFrom_append xs b (s + 1) ha.2 ?_⟩
    have : s + 1 + xs.length = s + (x :: xs).length := by simp; omega
    rw [this]; exact hb

theorem originsFrom_take : ∀ (a : List Line) (s m : Nat), OriginsFrom s a → OriginsFrom s (a.take m)
  | [], _, _, _ => by simp [OriginsFrom]
  | x :: xs, s, 0, _ => by simp [OriginsFrom]
  | x :: xs, s, m + 1, h => by
    simp only [List.take_succ_cons]
    exact ⟨h.1, originsFrom_take xs (s + 1) m h.2⟩

/-- A reversed buffer whose lines have the origins `n-1, n-2, …` (head = most recent line). -/
def RevOrigins : Nat → List Line → Prop
  | _, [] => True
  | n, l :: rest => l.origin + 1 = n ∧ RevOrigins l.origin rest

theorem revOrigins_len : ∀ (rev : List Line) (n : Nat), RevOrigins n rev → rev.length ≤ n
  | [], _, _ => Nat.zero_le _
  | l :: rest, n, h => by
    have := revOrigins_len rest l.origin h.2
    have h1 := h.1
    simp only [List.length_cons]
    omega

theorem originsFrom_of_rev : ∀ (rev : List Line) (n : Nat), RevOrigins n rev → OriginsFrom (n - rev.length) rev.reverse
  | [], _, _ => by simp [OriginsFrom]
  | l :: rest, n, h => by
    have hl := revOrigins_len rest l.origin h.2
    have h1 := h.1
    have ih := originsFrom_of_rev rest l.origin h.2
    simp only [List.reverse_cons, List.length_cons]
    have e : n - (rest.length + 1) = l.origin - rest.length := by omega
    rw [e]
    apply originsFrom_append _ _ _ ih
    simp only [List.length_reverse, OriginsFrom, and_true]
    omega

theorem originsFrom_of_rev_drop (rev : List Line) (n base k : Nat) (h : RevOrigins n rev) (hb : rev.length + base = n) :
    OriginsFrom base (rev.drop k).reverse := by
  have h0 := originsFrom_of_rev rev n h
  have e : n - rev.length = base := by omega
  rw [e] at h0
  have : (rev.drop k).reverse = rev.reverse.take (rev.length - k) := by
    rw [List.reverse_drop]
  rw [this]
  exact originsFrom_take _ _ _ h0

/-! ### The cursor stays in its buffer -/

/-- same underlying buffer and start line; only the position may differ -/
def Same (a b : FW) : Prop := b.lines = a.lines ∧ b.start = a.start

theorem Same.refl (a : FW) : Same a a := ⟨rfl, rfl⟩
theorem Same.trans {a b c : FW} (h1 : Same a b) (h2 : Same b c) : Same a c := ⟨h2.1.trans h1.1, h2.2.trans h1.2⟩
theorem same_next (a : FW) : Same a a.next := ⟨rfl, rfl⟩
theorem same_backstep (a : FW) : Same a a.backstep := ⟨rfl, rfl⟩
theorem same_pos (a : FW) (p : Nat) : Same a { a with pos := p } := ⟨rfl, rfl⟩

def FW.Ok (fw : FW) : Prop := OriginsFrom fw.start fw.lines

theorem FW.Ok.of_same {a b : FW} (h : Same a b) (ha : a.Ok) : b.Ok := by
  unfold FW.Ok at *; rw [h.1, h.2]; exact ha

theorem peek_origin (fw : FW) (l : Line) (h : fw.Ok) (hp : fw.peek = some l) : l.origin = fw.start + fw.pos :=
  originsFrom_get fw.lines fw.start fw.pos l h hp

theorem blockCodeLoop_same : ∀ (fuel : Nat) (fw : FW) (buf : List Str) (tb : Nat), Same fw (blockCodeLoop fuel fw buf tb).2.2
  | 0, fw, _, _ => Same.refl fw
  | fuel + 1, fw, buf, tb => by
    simp only [blockCodeLoop]
    split
    · exact Same.refl fw
    · split
      · exact (same_next fw).trans (blockCodeLoop_same fuel _ _ _)
      · split
        · exact (same_next fw).trans (same_backstep _)
        · exact (same_next fw).trans (blockCodeLoop_same fuel _ _ _)

theorem readBlockCode_same (fw : FW) : Same fw (readBlockCode fw).2 := by
  unfold readBlockCode
  exact (blockCodeLoop_same _ fw [] 0).trans (same_pos _ _)

theorem readHeading_same (fw : FW) (line : Str) (r) (h : readHeading fw line = some r) : Same fw r.2.2.2 := by
  unfold readHeading at h
  split at h
  · cases h
  · cases h; exact same_next fw

theorem codeFenceLoop_same (ld : Str) (p : Nat) : ∀ (fuel : Nat) (fw : FW) (buf : List Str), Same fw (codeFenceLoop ld p fuel fw buf).2
  | 0, fw, _ => Same.refl fw
  | fuel + 1, fw, buf => by
    simp only [codeFenceLoop]
    repeat' split
    all_goals first
      | exact Same.refl fw
      | exact same_next fw
      | exact (same_next fw).trans (codeFenceLoop_same ld p fuel _ _)

theorem readCodeFence_same (fw : FW) (m : FenceMatch) : Same fw (readCodeFence fw m).2 := by
  unfold readCodeFence
  exact (same_next fw).trans (codeFenceLoop_same _ _ _ _ _)

theorem tableLoop_same : ∀ (fuel : Nat) (fw : FW) (buf : List Str), Same fw (tableLoop fuel fw buf).2
  | 0, fw, _ => Same.refl fw
  | fuel + 1, fw, buf => by
    simp only [tableLoop]
    split
    · split
      · exact (same_next fw).trans (tableLoop_same fuel _ _)
      · exact Same.refl fw
    · exact Same.refl fw

theorem readTable_same (fw : FW) (r) (h : readTable fw = some r) : Same fw r.2.2 ∧ r.2.1 = fw.start + fw.pos := by
  unfold readTable at h
  split at h
  · cases h
  · simp only at h
    split at h
    · split at h
      · cases h
        refine ⟨(same_next fw).trans (tableLoop_same _ _ _), ?_⟩
        simp [FW.lineNumber, FW.next]
      · cases h
    · cases h

theorem htmlBlockLoop_same (ec : Option Str) : ∀ (fuel : Nat) (fw : FW) (buf : List Str), Same fw (htmlBlockLoop ec fuel fw buf).2
  | 0, fw, _ => Same.refl fw
  | fuel + 1, fw, buf => by
    simp only [htmlBlockLoop]
    repeat' split
    all_goals first
      | exact Same.refl fw
      | exact same_next fw
      | exact (same_next fw).trans (same_backstep _)
      | exact (same_next fw).trans (htmlBlockLoop_same _ fuel _ _)

theorem readHtmlBlock_same (fw : FW) (e : Option Str) : Same fw (readHtmlBlock fw e).2 := by
  unfold readHtmlBlock; exact htmlBlockLoop_same e _ fw []

theorem footnoteLines_same : ∀ (fuel : Nat) (fw : FW) (buf : List Str), Same fw (footnoteLines fuel fw buf).2
  | 0, fw, _ => Same.refl fw
  | fuel + 1, fw, buf => by
    simp only [footnoteLines]
    split
    · split
      · exact (same_next fw).trans (footnoteLines_same fuel _ _)
      · exact Same.refl fw
    · exact Same.refl fw

theorem readFootnote_same (fw : FW) (ms) (fw') (h : readFootnote fw = .ok (ms, fw')) : Same fw fw' := by
  unfold readFootnote at h
  simp only at h
  split at h
  · cases h
  · cases h
    have := footnoteLines_same (fw.remaining + 1) fw []
    split
    · exact this.trans (same_pos _ _)
    · exact this

theorem paragraphLoop_same (cfg : Cfg) (so : Bool) : ∀ (fuel : Nat) (fw : FW) (buf : List Str) (r),
    paragraphLoop cfg so fuel fw buf = .ok r → Same fw r.2.2
  | 0, _, _, _, h => by simp [paragraphLoop] at h
  | fuel + 1, fw, buf, r, h => by
    simp only [paragraphLoop] at h
    split at h
    · cases h; exact Same.refl fw
    · split at h
      · cases h; exact Same.refl fw
      · split at h
        · cases h
        · cases h; exact Same.refl fw
        · split at h
          · cases h; exact same_next fw
          · split at h
            · cases h; exact Same.refl fw
            · exact (same_next fw).trans (paragraphLoop_same cfg so fuel _ _ r h)

theorem readParagraph_same (cfg : Cfg) (so : Bool) (fw : FW) (l0 : Str) (r) (h : readParagraph cfg so fw l0 = .ok r) :
    Same fw r.2.2 := by
  unfold readParagraph at h
  split at h
  · cases h
  · rename_i buf st fw1 heq
    cases h
    exact (same_next fw).trans (paragraphLoop_same cfg so _ _ _ (buf, st, fw1) heq)


/-! ### Quote.read and ListItem.read hand consecutive lines to the nested tokenizer -/

/-- Loop invariant: the buffer (reversed) ends just before the line the cursor will read next, and
    its first line has origin `base`. -/
def BufInv (fw : FW) (base : Nat) (buf : List Line) : Prop :=
  RevOrigins (fw.start + fw.pos) buf ∧ buf.length + base = fw.start + fw.pos

theorem bufInv_push (fw : FW) (base : Nat) (buf : List Line) (l : Line) (s : Str) (hok : fw.Ok) (hp : fw.peek = some l)
    (h : BufInv fw base buf) : BufInv fw.next base ({ s := s, origin := l.origin } :: buf) := by
  have ho := peek_origin fw l hok hp
  unfold BufInv at *
  simp only [FW.next, RevOrigins, List.length_cons]
  refine ⟨⟨by omega, ?_⟩, by omega⟩
  rw [ho]; exact h.1

theorem quoteLoop_inv (cfg : Cfg) : ∀ (fuel : Nat) (fw : FW) (buf : List Line) (fl : QFlags) (base : Nat) (r),
    quoteLoop cfg fuel fw buf fl = .ok r → fw.Ok → BufInv fw base buf → Same fw r.2 ∧ BufInv r.2 base r.1
  | 0, _, _, _, _, _, h, _, _ => by simp [quoteLoop] at h
  | fuel + 1, fw, buf, fl, base, r, h, hok, hinv => by
    simp only [quoteLoop] at h
    split at h
    · cases h; exact ⟨Same.refl fw, hinv⟩
    · rename_i l hp
      split at h
      · cases h; exact ⟨Same.refl fw, hinv⟩
      · split at h
        · cases h
        · cases h; exact ⟨Same.refl fw, hinv⟩
        · split at h
          · cases h
          · split at h
            · cases h
            · split at h
              · split at h
                · cases h
                · have hn := fun s => bufInv_push fw base buf l s hok hp hinv
                  have := quoteLoop_inv cfg fuel _ _ _ base r h (FW.Ok.of_same (same_next fw) hok) (hn _)
                  exact ⟨(same_next fw).trans this.1, this.2⟩
              · split at h
                · cases h; exact ⟨Same.refl fw, hinv⟩
                · have hn : BufInv fw.next base (l :: buf) := bufInv_push fw base buf l l.s hok hp hinv
                  have := quoteLoop_inv cfg fuel _ _ _ base r h (FW.Ok.of_same (same_next fw) hok) hn
                  exact ⟨(same_next fw).trans this.1, this.2⟩

/-- **Quote.read** hands the nested tokenizer lines whose origins are `start_line, start_line+1, …` -/
theorem quoteLines_origins (cfg : Cfg) (fw : FW) (l0 : Line) (r) (h : quoteLines cfg fw l0 = .ok r)
    (hok : fw.Ok) (hp : fw.peek = some l0) : Same fw r.2.2 ∧ OriginsFrom r.2.1 r.1 := by
  unfold quoteLines at h
  split at h
  · cases h
  · split at h
    · cases h
    · simp only at h
      split at h
      · cases h
      · rename_i buf fw2 heq
        cases h
        have ho := peek_origin fw l0 hok hp
        have hinv : ∀ s : Str, BufInv fw.next (fw.start + fw.pos) [{ s := s, origin := l0.origin }] := by
          intro s
          have hnp : fw.next.pos = fw.pos + 1 := rfl
          have hns : fw.next.start = fw.start := rfl
          refine ⟨⟨?_, trivial⟩, ?_⟩
          · show l0.origin + 1 = fw.next.start + fw.next.pos
            omega
          · show 1 + (fw.start + fw.pos) = fw.next.start + fw.next.pos
            omega
        have := quoteLoop_inv cfg _ _ _ _ _ _ heq (FW.Ok.of_same (same_next fw) hok) (hinv _)
        refine ⟨(same_next fw).trans this.1, ?_⟩
        have hb := this.2
        have hs : fw.next.lineNumber = fw.start + fw.pos := by simp [FW.lineNumber, FW.next]
        rw [hs]
        have := originsFrom_of_rev_drop buf _ (fw.start + fw.pos) 0 hb.1 hb.2
        simpa using this

theorem dropTrailing_same (fw : FW) (buf : List Line) (nl : Nat) : Same fw (dropTrailing fw buf nl).1 := by
  unfold dropTrailing; split
  · exact same_backstep fw
  · exact Same.refl fw

theorem dropTrailing_buf (fw : FW) (buf : List Line) (nl : Nat) : ∃ k, (dropTrailing fw buf nl).2 = buf.drop k := by
  unfold dropTrailing; split
  · exact ⟨nl, rfl⟩
  · exact ⟨0, by simp⟩

/-- result of the item loop: same buffer, and the collected lines are a prefix (some trailing blank
    lines dropped) of a run of consecutive lines starting at `base` -/
theorem itemLoop_inv (cfg : Cfg) (prepend : Nat) : ∀ (fuel : Nat) (fw : FW) (buf : List Line) (nl : Nat) (base : Nat) (r),
    itemLoop cfg prepend fuel fw buf nl = .ok r → fw.Ok → BufInv fw base buf →
    Same fw r.2.1 ∧ OriginsFrom base r.1.reverse
  | 0, _, _, _, _, _, h, _, _ => by simp [itemLoop] at h
  | fuel + 1, fw, buf, nl, base, r, h, hok, hinv => by
    have hdrop : ∀ k, OriginsFrom base (buf.drop k).reverse := fun k => originsFrom_of_rev_drop buf _ base k hinv.1 hinv.2
    have hfin : ∀ (next : Option (Nat × Nat × Str × Str)), (let (fw', buf') := dropTrailing fw buf nl; (buf', fw', next)) = r →
        Same fw r.2.1 ∧ OriginsFrom base r.1.reverse := by
      intro next he
      subst he
      obtain ⟨k, hk⟩ := dropTrailing_buf fw buf nl
      refine ⟨dropTrailing_same fw buf nl, ?_⟩
      show OriginsFrom base (dropTrailing fw buf nl).2.reverse
      rw [hk]; exact hdrop k
    simp only [itemLoop] at h
    split at h
    · cases h; exact hfin none rfl
    · rename_i l hp
      split at h
      · split at h
        · cases h
        · have hn := fun s => bufInv_push fw base buf l s hok hp hinv
          have := itemLoop_inv cfg prepend fuel _ _ _ base r h (FW.Ok.of_same (same_next fw) hok) (hn _)
          exact ⟨(same_next fw).trans this.1, this.2⟩
      · split at h
        · cases h
        · cases h; exact hfin none rfl
        · split at h
          · cases h
            refine ⟨Same.refl fw, ?_⟩
            have := hdrop 0; simpa using this
          · split at h
            · cases h; exact hfin none rfl
            · have hn : BufInv fw.next base (l :: buf) := bufInv_push fw base buf l l.s hok hp hinv
              have := itemLoop_inv cfg prepend fuel _ _ _ base r h (FW.Ok.of_same (same_next fw) hok) hn
              exact ⟨(same_next fw).trans this.1, this.2⟩

theorem skipBlanks_inv : ∀ (fuel : Nat) (fw : FW) (n : Nat),
    Same fw (skipBlanks fuel fw n).1 ∧ fw.pos ≤ (skipBlanks fuel fw n).1.pos ∧
    (skipBlanks fuel fw n).2 = n + ((skipBlanks fuel fw n).1.pos - fw.pos)
  | 0, fw, n => by simp [skipBlanks, Same.refl]
  | fuel + 1, fw, n => by
    simp only [skipBlanks]
    split
    · split
      · have := skipBlanks_inv fuel fw.next (n + 1)
        have hnp : fw.next.pos = fw.pos + 1 := rfl
        refine ⟨(same_next fw).trans this.1, ?_, ?_⟩
        · have := this.2.1; omega
        · have h1 := this.2.1; have h2 := this.2.2; omega
      · simp [Same.refl]
    · simp [Same.refl]

/-- what `ListItem.read` passes on: the cursor stays in the buffer; the item reports the line of its
    marker; the nested tokenizer gets consecutive lines starting at the `start_line` handed to it -/
theorem itemLines_origins (cfg : Cfg) (fw : FW) (prev) (il : ItemLines) (h : itemLines cfg fw prev = .ok il) (hok : fw.Ok) :
    match il with
    | .empty _ _ _ ln og _ fw' => Same fw fw' ∧ ln = og
    | .lines buf cstart _ _ _ ln og _ fw' => Same fw fw' ∧ ln = og ∧ OriginsFrom cstart buf := by
  unfold itemLines at h
  split at h
  · cases h
  · rename_i l0 hp
    have ho := peek_origin fw l0 hok hp
    have hln : fw.next.lineNumber = fw.start + fw.pos := by simp [FW.lineNumber, FW.next]
    simp only at h
    split at h
    · cases h
    · split at h
      · -- the item begins with a blank line
        have hsk := skipBlanks_inv (fw.remaining + 1) fw.next 1
        split at h
        · cases h
          dsimp only
          exact ⟨(same_next fw).trans hsk.1, by rw [hln, ho]⟩
        · rename_i hb
          split at h
          · cases h
          · rename_i buf fw3 next heq
            cases h
            -- blanks = 1: the cursor did not move
            have hpos : (skipBlanks (fw.remaining + 1) fw.next 1).1.pos = fw.next.pos := by
              have h1 := hsk.2.1; have h2 := hsk.2.2; omega
            have hs2 := hsk.1
            have hok2 : (skipBlanks (fw.remaining + 1) fw.next 1).1.Ok := FW.Ok.of_same ((same_next fw).trans hs2) hok
            have hinv : BufInv (skipBlanks (fw.remaining + 1) fw.next 1).1 (fw.next.lineNumber + 1) [] := by
              have hnp : fw.next.pos = fw.pos + 1 := rfl
              have hns : fw.next.start = fw.start := rfl
              have h22 := hs2.2
              refine ⟨trivial, ?_⟩
              show 0 + (fw.next.lineNumber + 1) = _
              omega
            have := itemLoop_inv cfg _ _ _ _ _ _ _ heq hok2 hinv
            dsimp only
            exact ⟨((same_next fw).trans hs2).trans this.1, by rw [hln, ho], this.2⟩
      · split at h
        · cases h
        · rename_i buf fw3 next heq
          cases h
          have hinv : ∀ s : Str, BufInv fw.next fw.next.lineNumber [{ s := s, origin := l0.origin }] := by
            intro s
            have hnp : fw.next.pos = fw.pos + 1 := rfl
            have hns : fw.next.start = fw.start := rfl
            refine ⟨⟨?_, trivial⟩, ?_⟩
            · show l0.origin + 1 = fw.next.start + fw.next.pos
              omega
            · show 1 + fw.next.lineNumber = fw.next.start + fw.next.pos
              omega
          have := itemLoop_inv cfg _ _ _ _ _ _ _ heq (FW.Ok.of_same (same_next fw) hok) (hinv _)
          dsimp only
          exact ⟨(same_next fw).trans this.1, by rw [hln, ho], this.2⟩


/-! ### Every line of every buffer ends with its only newline

  `Document.__init__` completes every line with '\n' (C15) and `Quote.read` / `ListItem.read` keep
  the terminator of the lines they cut a prefix off.  `Footnote.read` relies on it: it hands back
  `string.count('\n')` lines when no definition matches. -/

/-- the string ends with '\n' and contains no other '\n' -/
def NlEnd (s : Str) : Prop := ∃ body, s = body ++ ['\n'] ∧ '\n' ∉ body

theorem nlEnd_count (s : Str) (h : NlEnd s) : count '\n' s = 1 := by
  obtain ⟨body, rfl, hb⟩ := h
  unfold count
  rw [List.filter_append]
  have : body.filter (· == '\n') = [] := by
    rw [List.filter_eq_nil_iff]; intro c hc; simp; intro e; subst e; exact hb hc
  simp [this]

theorem nlEnd_ne_nil (s : Str) (h : NlEnd s) : s ≠ [] := by
  obtain ⟨body, rfl, _⟩ := h; simp

theorem nlEnd_suffix (s t : Str) (h : NlEnd s) (hs : t <:+ s) (ht : t ≠ []) : NlEnd t := by
  obtain ⟨body, rfl, hb⟩ := h
  obtain ⟨pre, hpre⟩ := hs
  -- t is a non-empty suffix of body ++ ['\n'] : it ends with that '\n'
  rcases List.eq_nil_or_concat t with rfl | ⟨t', c, rfl⟩
  · exact absurd rfl ht
  · have : pre ++ t' ++ [c] = body ++ ['\n'] := by rw [← hpre]; simp
    have h2 := List.append_inj' this rfl
    have hc : c = '\n' := by simpa using h2.2
    subst hc
    refine ⟨t', by simp, ?_⟩
    intro hm
    apply hb
    rw [← h2.1]; exact List.mem_append_right _ hm

theorem nlEnd_prepend (pre t : Str) (hp : '\n' ∉ pre) (h : NlEnd t) : NlEnd (pre ++ t) := by
  obtain ⟨body, rfl, hb⟩ := h
  refine ⟨pre ++ body, by simp, ?_⟩
  intro hm
  rcases List.mem_append.mp hm with h1 | h1
  · exact hp h1
  · exact hb h1

theorem nlEnd_tail (c : Char) (rest : Str) (h : NlEnd (c :: rest)) (hr : rest ≠ []) : NlEnd rest ∧ c ≠ '\n' := by
  refine ⟨nlEnd_suffix _ _ h (List.suffix_cons c rest) hr, ?_⟩
  obtain ⟨body, hb, hn⟩ := h
  intro hc
  subst hc
  cases body with
  | nil =>
    simp only [List.nil_append, List.cons.injEq] at hb
    exact hr hb.2
  | cons b bs =>
    simp only [List.cons_append, List.cons.injEq] at hb
    exact hn (by rw [← hb.1]; exact List.mem_cons_self ..)

def AllNlEnd (ls : List Line) : Prop := ∀ l ∈ ls, NlEnd l.s


theorem lstrip_suffix : ∀ (s : Str), lstrip s <:+ s
  | [] => List.suffix_refl _
  | c :: rest => by
    simp only [lstrip]
    split
    · exact (lstrip_suffix rest).trans (List.suffix_cons c rest)
    · exact List.suffix_refl _

theorem pyIsSpace_nl : pyIsSpace '\n' = true := by decide

theorem lstrip_ne_nil (s : Str) (h : isBlank s = false) : lstrip s ≠ [] := by
  induction s with
  | nil => simp [isBlank] at h
  | cons c rest ih =>
    simp only [lstrip]
    split
    · rename_i hc
      apply ih
      simp only [isBlank, List.all_cons, hc, Bool.true_and] at h
      exact h
    · simp

theorem replaceTab_nlEnd : ∀ (s : Str), NlEnd s → NlEnd (replaceFirst ['>', '\t'] [' ', ' ', ' '] s)
  | [], h => absurd rfl (nlEnd_ne_nil _ h)
  | c :: rest, h => by
    simp only [replaceFirst]
    split
    · rename_i hpre
      -- c = '>' and rest = '\t' :: r2
      simp only [Bool.and_eq_true, Bool.not_eq_eq_eq_not, Bool.not_true] at hpre
      have hp := hpre.1
      cases rest with
      | nil => simp at hp
      | cons d r2 =>
        simp only [List.isPrefixOf_cons_cons, List.isPrefixOf_nil_left, Bool.and_true, Bool.and_eq_true, beq_iff_eq] at hp
        have h1 := nlEnd_tail c (d :: r2) h (by simp)
        have hr2 : r2 ≠ [] := by
          intro e; subst e
          obtain ⟨body, hb, _⟩ := h1.1
          have : ['\t'] = body ++ ['\n'] := by rw [← hp.2] at hb; exact hb
          cases body with
          | nil => simp at this
          | cons x xs => simp at this
        have h2 := nlEnd_tail d r2 h1.1 hr2
        show NlEnd ([' ', ' ', ' '] ++ List.drop 2 (c :: d :: r2))
        simp only [List.drop_succ_cons, List.drop_zero]
        exact nlEnd_prepend _ _ (by decide) h2.1
    · cases rest with
      | nil => simpa [replaceFirst] using h
      | cons d r2 =>
        have h1 := nlEnd_tail c (d :: r2) h (by simp)
        have := replaceTab_nlEnd (d :: r2) h1.1
        exact nlEnd_prepend [c] _ (by simp; exact fun e => h1.2 e.symm) this

theorem clt_go_lt : ∀ (t : Str) (j c : Nat), (∃ x ∈ t, x ≠ '\t' ∧ x ≠ ' ') → (convertLeadingTabs.go t j c).1 < j + t.length
  | [], _, _, h => by obtain ⟨x, hx, _⟩ := h; cases hx
  | y :: rest, j, c, h => by
    simp only [convertLeadingTabs.go]
    split
    · rename_i hy
      have : ∃ x ∈ rest, x ≠ '\t' ∧ x ≠ ' ' := by
        obtain ⟨x, hx, h1, h2⟩ := h
        rcases List.mem_cons.mp hx with rfl | hx
        · exact absurd hy h1
        · exact ⟨x, hx, h1, h2⟩
      have := clt_go_lt rest (j + 1) (c + 4) this
      simp only [List.length_cons]; omega
    · split
      · rename_i hy
        have : ∃ x ∈ rest, x ≠ '\t' ∧ x ≠ ' ' := by
          obtain ⟨x, hx, h1, h2⟩ := h
          rcases List.mem_cons.mp hx with rfl | hx
          · exact absurd hy h2
          · exact ⟨x, hx, h1, h2⟩
        have := clt_go_lt rest (j + 1) (c + 1) this
        simp only [List.length_cons]; omega
      · simp only [List.length_cons]; omega

theorem convertLeadingTabs_nlEnd (s t : Str) (h : NlEnd s) (hc : convertLeadingTabs s = .ok t) : NlEnd t := by
  unfold convertLeadingTabs at hc
  have hr := replaceTab_nlEnd s h
  simp only at hc
  split at hc
  · cases hc
  · split at hc
    · cases hc; exact hr
    · cases hc
      rename_i hne hi
      have hex : ∃ x ∈ replaceFirst ['>', '\t'] [' ', ' ', ' '] s, x ≠ '\t' ∧ x ≠ ' ' := by
        obtain ⟨body, hb, _⟩ := hr
        exact ⟨'\n', by rw [hb]; simp, by decide, by decide⟩
      have hlt := clt_go_lt _ 0 0 hex
      simp only [Nat.zero_add] at hlt
      have hd : (replaceFirst ['>', '\t'] [' ', ' ', ' '] s).drop (convertLeadingTabs.go (replaceFirst ['>', '\t'] [' ', ' ', ' '] s) 0 0).1 ≠ [] := by
        intro e
        have := List.drop_eq_nil_iff.mp e
        omega
      have hsuf := nlEnd_suffix _ _ hr (List.drop_suffix _ _) hd
      have : NlEnd (('>' :: List.replicate (convertLeadingTabs.go (replaceFirst ['>', '\t'] [' ', ' ', ' '] s) 0 0).2.1 ' ') ++
          (replaceFirst ['>', '\t'] [' ', ' ', ' '] s).drop (convertLeadingTabs.go (replaceFirst ['>', '\t'] [' ', ' ', ' '] s) 0 0).1) := by
        apply nlEnd_prepend _ _ _ hsuf
        simp only [List.mem_cons, List.mem_replicate]
        rintro (e | ⟨_, e⟩) <;> exact absurd e (by decide)
      simpa using this


/-! ### Every line the nested tokenizers receive ends with its only newline -/

theorem span_suffix (p : Char → Bool) : ∀ (s : Str), (span p s).2 <:+ s
  | [] => List.suffix_refl _
  | c :: rest => by
    simp only [span]
    split
    · exact (span_suffix p rest).trans (List.suffix_cons c rest)
    · exact List.suffix_refl _

theorem span_all (p : Char → Bool) : ∀ (s : Str), ∀ x ∈ (span p s).1, p x = true
  | [] => by simp [span]
  | c :: rest => by
    simp only [span]
    split
    · rename_i hc
      intro x hx
      rcases List.mem_cons.mp hx with rfl | hx
      · exact hc
      · exact span_all p rest x hx
    · simp

theorem listMarker_suffix (r m r1 : Str) (h : listMarker r = some (m, r1)) : r1 <:+ r := by
  unfold listMarker at h
  split at h
  · cases h
  · rename_i c rst
    split at h
    · cases h; exact List.suffix_cons _ _
    · simp only at h
      split at h
      · cases h
      · split at h
        · rename_i e r2 he
          split at h
          · cases h
            have := span_suffix isDigit (c :: rst)
            rw [he] at this
            exact (List.suffix_cons e r1).trans this
          · cases h
        · cases h

theorem listItem_suffix (line : Str) (m : ItemMatch) (h : listItem line = some m) : m.rest <:+ line := by
  unfold listItem at h
  split at h
  · cases h
  · rename_i n r hu
    have hr : r <:+ line := by
      unfold upTo3Spaces at hu
      simp only at hu
      split at hu
      · cases hu
      · cases hu; exact List.drop_suffix _ _
    split at h
    · cases h
    · rename_i mk r1 hm
      have h1 := (listMarker_suffix r mk r1 hm).trans hr
      split at h
      · cases h; exact h1
      · simp only at h
        split at h
        · cases h
        · cases h; exact (span_suffix ws r1).trans h1

theorem isBlank_replicate_sp (k : Nat) : isBlank (List.replicate k ' ') = true := by
  simp only [isBlank, List.all_eq_true, List.mem_replicate]
  rintro x ⟨_, rfl⟩; decide

/-- the remainder `parse_marker` returns is, unless blank, a complete line -/
def MarkerOk (m : Nat × Nat × Str × Str) : Prop := isBlank m.2.2.2 = false → NlEnd m.2.2.2

theorem parseMarker_ok (line : Str) (m) (hl : NlEnd line) (h : parseMarker line = some m) : MarkerOk m := by
  unfold parseMarker at h
  split at h
  · cases h
  · rename_i im hi
    have hs := listItem_suffix line im hi
    simp only at h
    split at h
    · cases h
      intro hb
      show NlEnd (List.replicate _ ' ' ++ im.rest)
      have hne : im.rest ≠ [] := by
        intro e
        simp only [e, List.append_nil] at hb
        rw [isBlank_replicate_sp] at hb; cases hb
      exact nlEnd_prepend _ _ (by simp only [List.mem_replicate]; rintro ⟨_, e⟩; exact absurd e (by decide))
        (nlEnd_suffix _ _ hl hs hne)
    · cases h
      intro hb
      show NlEnd im.rest
      have hne : im.rest ≠ [] := by
        intro e; simp only [e] at hb; simp [isBlank] at hb
      exact nlEnd_suffix _ _ hl hs hne

theorem expandtabs_no_nl : ∀ (s : Str) (col : Nat), '\n' ∉ s → '\n' ∉ expandtabsAux s col
  | [], _, _ => by simp [expandtabsAux]
  | c :: rest, col, h => by
    have hc : c ≠ '\n' := fun e => h (by simp [e])
    have hr : '\n' ∉ rest := fun e => h (List.mem_cons_of_mem _ e)
    simp only [expandtabsAux]
    split
    · simp only [List.mem_append, List.mem_replicate, not_or]
      exact ⟨by rintro ⟨_, e⟩; exact absurd e (by decide), expandtabs_no_nl rest _ hr⟩
    · split
      · simp only [List.mem_cons, not_or]
        exact ⟨fun e => hc e.symm, expandtabs_no_nl rest _ hr⟩
      · simp only [List.mem_cons, not_or]
        exact ⟨fun e => hc e.symm, expandtabs_no_nl rest _ hr⟩

theorem parseContinuation_nlEnd (line : Str) (p : Nat) (cont : Str) (h : parseContinuation line p = some cont) : NlEnd cont := by
  unfold parseContinuation at h
  split at h
  · cases h
  · rename_i g1 g2 hc
    split at h
    · cases h; exact ⟨[], rfl, by simp⟩
    · simp only at h
      split at h
      · cases h
        unfold continuation at hc
        simp only at hc
        have hg1 : ∀ x ∈ (span (fun c => c == ' ' || c == '\t') line).1, (x == ' ' || x == '\t') = true :=
          span_all _ line
        split at hc
        · cases hc
          simp at *
        · split at hc
          · cases hc
          · split at hc
            · cases hc
              rename_i c rest hcn _ _ _ _ _ _ _
              have hno : '\n' ∉ expandtabs (span (fun c => c == ' ' || c == '\t') line).1 := by
                apply expandtabs_no_nl
                intro e
                have := hg1 _ e
                simp at this
              have hbody := span_all (· != '\n') rest
              refine nlEnd_prepend _ _ (fun e => hno (List.mem_of_mem_drop e)) ⟨c :: (span (· != '\n') rest).1, by simp, ?_⟩
              simp only [List.mem_cons, not_or]
              exact ⟨fun e => hcn e.symm, fun e => by have := hbody _ e; simp at this⟩
            · cases hc
        · cases hc
      · cases h

theorem peek_mem (fw : FW) (l : Line) (h : fw.peek = some l) : l ∈ fw.lines :=
  List.mem_of_getElem? h

theorem quoteLoop_nl (cfg : Cfg) : ∀ (fuel : Nat) (fw : FW) (buf : List Line) (fl : QFlags) (r),
    quoteLoop cfg fuel fw buf fl = .ok r → AllNlEnd fw.lines → AllNlEnd buf → AllNlEnd r.1
  | 0, _, _, _, _, h, _, _ => by simp [quoteLoop] at h
  | fuel + 1, fw, buf, fl, r, h, hl, hb => by
    simp only [quoteLoop] at h
    split at h
    · cases h; exact hb
    · rename_i l hp
      have hln := hl l (peek_mem fw l hp)
      split at h
      · cases h; exact hb
      · rename_i hblank
        split at h
        · cases h
        · cases h; exact hb
        · split at h
          · cases h
          · rename_i stripped hcv
            have hst : NlEnd stripped := by
              apply convertLeadingTabs_nlEnd _ _ _ hcv
              exact nlEnd_suffix _ _ hln (lstrip_suffix _) (lstrip_ne_nil _ (by simpa using hblank))
            split at h
            · cases h
            · rename_i c0 tl
              split at h
              · split at h
                · cases h
                · rename_i c1 h1
                  refine quoteLoop_nl cfg fuel _ _ _ r h hl ?_
                  intro x hx
                  rcases List.mem_cons.mp hx with rfl | hx
                  · show NlEnd ((c0 :: tl).drop (if c1 = ' ' then 2 else 1))
                    cases tl with
                    | nil => simp at h1
                    | cons d t2 =>
                      simp only [List.getElem?_cons_succ, List.getElem?_cons_zero, Option.some.injEq] at h1
                      subst h1
                      have hd := nlEnd_tail c0 (d :: t2) hst (by simp)
                      split
                      · rename_i hsp
                        simp only [List.drop_succ_cons, List.drop_zero]
                        have : t2 ≠ [] := by
                          intro e; subst e
                          obtain ⟨body, hbd, _⟩ := hd.1
                          cases body with
                          | nil => simp at hbd; rw [hsp] at hbd; cases hbd
                          | cons x xs => simp at hbd
                        exact (nlEnd_tail d t2 hd.1 this).1
                      · simp only [List.drop_succ_cons, List.drop_zero]
                        exact hd.1
                  · exact hb x hx
              · split at h
                · cases h; exact hb
                · refine quoteLoop_nl cfg fuel _ _ _ r h hl ?_
                  intro x hx
                  rcases List.mem_cons.mp hx with rfl | hx
                  · exact hln
                  · exact hb x hx


theorem splitOnce_spec (ch : Char) : ∀ (t a b : Str), splitOnce ch t = some (a, b) → t = a ++ ch :: b
  | [], _, _, h => by simp [splitOnce] at h
  | c :: rest, a, b, h => by
    simp only [splitOnce] at h
    split at h
    · cases h; rename_i hc; simp [hc]
    · split at h
      · rename_i a' b' heq
        have := splitOnce_spec ch rest a' b' heq
        cases h
        simp [this]
      · cases h

theorem convertLeadingTabs_ne (s t : Str) (h : convertLeadingTabs s = .ok t) : s ≠ [] := by
  intro e; subst e
  simp [convertLeadingTabs, replaceFirst] at h

theorem dropSp_nl : ∀ (after : Str), NlEnd after → NlEnd (match after with | ' ' :: r => r | r => r) := by
  intro after h2
  split
  · rename_i r
    have : r ≠ [] := by
      intro e; subst e
      obtain ⟨body, hb, _⟩ := h2
      cases body with
      | nil => simp at hb
      | cons x xs => simp at hb
    exact (nlEnd_tail ' ' r h2 this).1
  · exact h2

theorem quoteLines_nl (cfg : Cfg) (fw : FW) (l0 : Line) (r) (h : quoteLines cfg fw l0 = .ok r)
    (hl : AllNlEnd fw.lines) (hp : fw.peek = some l0) : AllNlEnd r.1 := by
  have hln := hl l0 (peek_mem fw l0 hp)
  unfold quoteLines at h
  split at h
  · cases h
  · rename_i t hcv
    have hst : NlEnd t :=
      convertLeadingTabs_nlEnd _ _ (nlEnd_suffix _ _ hln (lstrip_suffix _) (convertLeadingTabs_ne _ _ hcv)) hcv
    split at h
    · cases h
    · rename_i a after hso
      simp only at h
      split at h
      · cases h
      · rename_i buf fw2 heq
        cases h
        have hsp := splitOnce_spec '>' t a after hso
        have hsuf : ('>' :: after) <:+ t := ⟨a, hsp.symm⟩
        have h1 := nlEnd_suffix _ _ hst hsuf (by simp)
        have hne : after ≠ [] := by
          intro e; subst e
          obtain ⟨body, hb, _⟩ := h1
          cases body with
          | nil => simp at hb
          | cons x xs => simp at hb
        have h2 := (nlEnd_tail '>' after h1 hne).1
        have h3 := dropSp_nl after h2
        have := quoteLoop_nl cfg _ _ _ _ _ heq hl (by
          intro x hx
          simp only [List.mem_singleton] at hx
          subst hx; exact h3)
        intro x hx
        exact this x (by simpa using hx)

theorem dropTrailing_nl (fw : FW) (buf : List Line) (nl : Nat) (h : AllNlEnd buf) : AllNlEnd (dropTrailing fw buf nl).2 := by
  obtain ⟨k, hk⟩ := dropTrailing_buf fw buf nl
  rw [hk]; intro x hx; exact h x (List.mem_of_mem_drop hx)

theorem itemLoop_nl (cfg : Cfg) (prepend : Nat) : ∀ (fuel : Nat) (fw : FW) (buf : List Line) (nl : Nat) (r),
    itemLoop cfg prepend fuel fw buf nl = .ok r → AllNlEnd fw.lines → AllNlEnd buf →
    AllNlEnd r.1 ∧ (∀ m, r.2.2 = some m → MarkerOk m)
  | 0, _, _, _, _, h, _, _ => by simp [itemLoop] at h
  | fuel + 1, fw, buf, nl, r, h, hl, hb => by
    have hfin : ∀ (next : Option (Nat × Nat × Str × Str)), next = none → (let (fw', buf') := dropTrailing fw buf nl; (buf', fw', next)) = r →
        AllNlEnd r.1 ∧ (∀ m, r.2.2 = some m → MarkerOk m) := by
      intro next hn he
      subst he; subst hn
      exact ⟨dropTrailing_nl fw buf nl hb, fun m hm => by cases hm⟩
    simp only [itemLoop] at h
    split at h
    · cases h; exact hfin none rfl rfl
    · rename_i l hp
      have hln := hl l (peek_mem fw l hp)
      split at h
      · rename_i cont hcont
        split at h
        · cases h
        · refine itemLoop_nl cfg prepend fuel _ _ _ r h hl ?_
          intro x hx
          rcases List.mem_cons.mp hx with rfl | hx
          · exact parseContinuation_nlEnd _ _ _ hcont
          · exact hb x hx
      · split at h
        · cases h
        · cases h; exact hfin none rfl rfl
        · split at h
          · rename_i m hm
            cases h
            refine ⟨hb, ?_⟩
            intro m' hm'
            cases hm'
            exact parseMarker_ok l.s m hln hm
          · split at h
            · cases h; exact hfin none rfl rfl
            · refine itemLoop_nl cfg prepend fuel _ _ _ r h hl ?_
              intro x hx
              rcases List.mem_cons.mp hx with rfl | hx
              · exact hln
              · exact hb x hx

theorem skipBlanks_peek_mem : ∀ (fuel : Nat) (fw : FW) (n : Nat), (skipBlanks fuel fw n).1.lines = fw.lines := by
  intro fuel fw n; exact (skipBlanks_inv fuel fw n).1.1

theorem itemLines_nl (cfg : Cfg) (fw : FW) (prev) (il : ItemLines) (h : itemLines cfg fw prev = .ok il)
    (hl : AllNlEnd fw.lines) (hprev : ∀ m, prev = some m → MarkerOk m) :
    match il with
    | .empty _ _ _ _ _ next _ => ∀ m, next = some m → MarkerOk m
    | .lines buf _ _ _ _ _ _ next _ => AllNlEnd buf ∧ ∀ m, next = some m → MarkerOk m := by
  unfold itemLines at h
  split at h
  · cases h
  · rename_i l0 hp
    have hln := hl l0 (peek_mem fw l0 hp)
    simp only at h
    split at h
    · cases h
    · rename_i ind pre0 ld content hmk
      have hmok : MarkerOk (ind, pre0, ld, content) := by
        cases prev with
        | some m => simp only [Option.some.injEq] at hmk; subst hmk; exact hprev _ rfl
        | none => exact parseMarker_ok l0.s _ hln hmk
      split at h
      · have hsk := skipBlanks_inv (fw.remaining + 1) fw.next 1
        split at h
        · cases h
          dsimp only
          intro m hm
          split at hm
          · rename_i l hpl
            have : l ∈ fw.lines := by
              have := peek_mem _ l hpl
              rw [hsk.1.1] at this; exact this
            exact parseMarker_ok l.s m (hl l this) hm
          · cases hm
        · split at h
          · cases h
          · rename_i buf fw3 next heq
            cases h
            have := itemLoop_nl cfg _ _ _ _ _ _ heq (by rw [hsk.1.1]; exact hl) (by intro x hx; cases hx)
            dsimp only
            refine ⟨?_, this.2⟩
            intro x hx; exact this.1 x (by simpa using hx)
      · rename_i hnb
        split at h
        · cases h
        · rename_i buf fw3 next heq
          cases h
          have := itemLoop_nl cfg _ _ _ _ _ _ heq hl (by
            intro x hx
            simp only [List.mem_singleton] at hx
            subst hx
            exact hmok (by simpa using hnb))
          dsimp only
          refine ⟨?_, this.2⟩
          intro x hx; exact this.1 x (by simpa using hx)


/-! ### `Footnote.read` hands every line back when no definition matches -/

theorem count_append (ch : Char) (a b : Str) : count ch (a ++ b) = count ch a + count ch b := by
  simp [count, List.filter_append]

theorem count_flatten_nl : ∀ (ls : List Str), (∀ x ∈ ls, NlEnd x) → count '\n' ls.flatten = ls.length
  | [], _ => by simp [count]
  | x :: xs, h => by
    rw [List.flatten_cons, count_append, nlEnd_count x (h x (by simp)),
      count_flatten_nl xs (fun y hy => h y (List.mem_cons_of_mem _ hy))]
    simp only [List.length_cons]; omega

theorem length_le_flatten : ∀ (ls : List Str) (x : Str), x ∈ ls → x.length ≤ ls.flatten.length
  | [], _, h => by cases h
  | y :: ys, x, h => by
    rw [List.flatten_cons, List.length_append]
    rcases List.mem_cons.mp h with rfl | h
    · omega
    · have := length_le_flatten ys x h; omega

theorem footnoteLines_spec : ∀ (fuel : Nat) (fw : FW) (buf : List Str) (p0 : Nat),
    (∀ x ∈ buf, NlEnd x) → buf.length + p0 = fw.pos → AllNlEnd fw.lines →
    (∀ x ∈ (footnoteLines fuel fw buf).1, NlEnd x) ∧ (footnoteLines fuel fw buf).1.length + p0 = (footnoteLines fuel fw buf).2.pos ∧
    (∀ x ∈ buf, x ∈ (footnoteLines fuel fw buf).1)
  | 0, fw, buf, p0, hb, hp, _ => by simp only [footnoteLines]; exact ⟨hb, hp, fun x hx => hx⟩
  | fuel + 1, fw, buf, p0, hb, hp, hl => by
    simp only [footnoteLines]
    split
    · rename_i l hpk
      split
      · have hnp : fw.next.pos = fw.pos + 1 := rfl
        have := footnoteLines_spec fuel fw.next (l.s :: buf) p0
          (by intro x hx; rcases List.mem_cons.mp hx with rfl | hx
              · exact hl l (peek_mem fw l hpk)
              · exact hb x hx)
          (by simp only [List.length_cons]; omega) hl
        exact ⟨this.1, this.2.1, fun x hx => this.2.2 x (List.mem_cons_of_mem _ hx)⟩
      · exact ⟨hb, hp, fun x hx => hx⟩
    · exact ⟨hb, hp, fun x hx => hx⟩

theorem footnoteRefs_len (s : Str) : ∀ (fuel off : Nat) (acc : List FnMatch) (ms) (back),
    footnoteRefs s fuel off acc = .ok (ms, back) → acc.length ≤ ms.length
  | 0, _, _, _, _, h => by simp [footnoteRefs] at h
  | fuel + 1, off, acc, ms, back, h => by
    simp only [footnoteRefs] at h
    split at h
    · split at h
      · cases h
      · cases h; simp
      · have := footnoteRefs_len s fuel _ _ _ _ h
        simp only [List.length_cons] at this; omega
    · cases h; simp

theorem isBlank_lstrip : ∀ (s : Str), isBlank s = true → lstrip s = []
  | [], _ => rfl
  | c :: rest, h => by
    simp only [isBlank, List.all_cons, Bool.and_eq_true] at h
    simp only [lstrip, h.1, if_true]
    exact isBlank_lstrip rest h.2

theorem nlEnd_len (s : Str) (h : NlEnd s) (hb : isBlank s = false) : 2 ≤ s.length := by
  obtain ⟨body, hs, _⟩ := h
  subst hs
  cases body with
  | nil => simp [isBlank] at hb; exact absurd pyIsSpace_nl (by simp [hb])
  | cons x xs => simp

/-- `Footnote.read` returning no definition leaves the cursor where it was (every line of the buffer
    ends with its only newline, so `string.count('\n')` is the number of lines consumed) -/
theorem footnote_restores (fw : FW) (ms) (fwf : FW) (l : Line) (hf : readFootnote fw = .ok (ms, fwf)) (hms : ms.isEmpty = true)
    (hl : AllNlEnd fw.lines) (hp : fw.peek = some l) (hnb : isBlank l.s = false) : fwf.peek = some l := by
  have hspec := footnoteLines_spec (fw.remaining + 1) fw [] fw.pos (by intro x hx; cases hx) (by simp) hl
  have hsame := footnoteLines_same (fw.remaining + 1) fw []
  -- the first line is consumed
  have hfirst : l.s ∈ (footnoteLines (fw.remaining + 1) fw []).1 := by
    simp only [footnoteLines, hp, hnb, Bool.not_false, if_true]
    exact (footnoteLines_spec fw.remaining fw.next [l.s] fw.pos
      (by intro x hx; simp only [List.mem_singleton] at hx; subst hx; exact hl l (peek_mem fw l hp))
      (by show 1 + fw.pos = fw.pos + 1; omega) hl).2.2 l.s (by simp)
  have hlen : 2 ≤ ((footnoteLines (fw.remaining + 1) fw []).1.reverse).flatten.length := by
    have h1 := nlEnd_len l.s (hl l (peek_mem fw l hp)) hnb
    have h2 := length_le_flatten (footnoteLines (fw.remaining + 1) fw []).1.reverse l.s (by simpa using hfirst)
    omega
  have hcount : count '\n' ((footnoteLines (fw.remaining + 1) fw []).1.reverse).flatten = (footnoteLines (fw.remaining + 1) fw []).1.length := by
    rw [count_flatten_nl _ (fun x hx => hspec.1 x (by simpa using hx))]; simp
  unfold readFootnote at hf
  simp only at hf
  split at hf
  · cases hf
  · rename_i ms' back hrefs
    cases hf
    rw [footnoteRefs] at hrefs
    split at hrefs
    · split at hrefs
      · cases hrefs
      · cases hrefs
        simp only [List.drop_zero, hcount]
        have h2 := hspec.2.1
        simp only [FW.peek] at hp ⊢
        rw [hsame.1]
        have : (footnoteLines (fw.remaining + 1) fw []).2.pos - (footnoteLines (fw.remaining + 1) fw []).1.length = fw.pos := by omega
        rw [this]; exact hp
      · have := footnoteRefs_len _ _ _ _ _ _ hrefs
        simp only [List.length_cons, List.length_nil] at this
        cases ms with
        | nil => simp at this
        | cons x xs => simp at hms
    · omega

/-! ### Reported line number = origin of the line the token was found on -/

mutual
/-- the entry and everything nested in it report the line they start on -/
def EntryOk : Entry → Prop
  | .blockCode _ ln og => ln = og
  | .heading _ _ _ ln og => ln = og
  | .quote inner _ ln og => ln = og ∧ EntriesOk inner
  | .codeFence _ _ _ _ _ ln og => ln = og
  | .thematicBreak _ ln og => ln = og
  | .list items ln og => ln = og ∧ ItemsOk items
  | .table _ startLine ln og => ln = og ∧ startLine = ln
  | .footnote _ ln og => ln = og
  | .linkRefDefs _ ln og => ln = og
  | .paragraph _ ln og => ln = og
  | .setext _ ln og => ln = og
  | .htmlBlock _ ln og => ln = og
  | .blankLine ln og => ln = og
def EntriesOk : List Entry → Prop
  | [] => True
  | e :: es => EntryOk e ∧ EntriesOk es
def ItemOk : Item → Prop
  | .mk inner _ _ _ _ ln og => ln = og ∧ EntriesOk inner
def ItemsOk : List Item → Prop
  | [] => True
  | i :: is => ItemOk i ∧ ItemsOk is
end

theorem entriesOk_append : ∀ (a b : List Entry), EntriesOk a → EntriesOk b → EntriesOk (a ++ b)
  | [], _, _, hb => by simpa using hb
  | x :: xs, b, ha, hb => by
    simp only [List.cons_append, EntriesOk] at ha ⊢
    exact ⟨ha.1, entriesOk_append xs b ha.2 hb⟩

theorem entriesOk_reverse : ∀ (a : List Entry), EntriesOk a → EntriesOk a.reverse
  | [], _ => by simp [EntriesOk]
  | x :: xs, h => by
    simp only [EntriesOk] at h
    rw [List.reverse_cons]
    exact entriesOk_append _ _ (entriesOk_reverse xs h.2) (by simp [EntriesOk, h.1])

theorem itemsOk_append : ∀ (a b : List Item), ItemsOk a → ItemsOk b → ItemsOk (a ++ b)
  | [], _, _, hb => by simpa using hb
  | x :: xs, b, ha, hb => by
    simp only [List.cons_append, ItemsOk] at ha ⊢
    exact ⟨ha.1, itemsOk_append xs b ha.2 hb⟩

theorem itemsOk_reverse : ∀ (a : List Item), ItemsOk a → ItemsOk a.reverse
  | [], _ => by simp [ItemsOk]
  | x :: xs, h => by
    simp only [ItemsOk] at h
    rw [List.reverse_cons]
    exact itemsOk_append _ _ (itemsOk_reverse xs h.2) (by simp [ItemsOk, h.1])

/-- what the nested tokenizer is assumed to deliver at a given nesting fuel -/
def TokOk (cfg : Cfg) (fuel : Nat) : Prop :=
  ∀ (lines : List Line) (start : Nat) (st : St) (b : Buf) (st' : St),
    tokenizeBlock cfg fuel lines start st = .ok (b, st') → OriginsFrom start lines → AllNlEnd lines → EntriesOk b.entries

def ListOk (cfg : Cfg) (gas : Nat) : Prop :=
  ∀ (fw : FW) (st : St) (ld) (nm) (acc : List Item) (r),
    readList cfg gas fw st ld nm acc = .ok r → fw.Ok → ItemsOk acc → AllNlEnd fw.lines → (∀ m, nm = some m → MarkerOk m) →
    Same fw r.2.1 ∧ ItemsOk r.1

def TryOk (cfg : Cfg) (gas : Nat) : Prop :=
  ∀ (fw0 : FW) (l : Line) (ts : List BTok) (fw : FW) (st : St) (e : Entry) (fw' : FW) (st' : St),
    fw0.Ok → AllNlEnd fw0.lines →
    tryTypes cfg gas fw st l ts = .ok (some (e, fw', st')) → Same fw0 fw → fw.peek = some l → Same fw0 fw' ∧ EntryOk e

def LoopOk (cfg : Cfg) (gas : Nat) : Prop :=
  ∀ (fw : FW) (st : St) (acc : List Entry) (loose : Bool) (b) (st'),
    tokLoop cfg gas fw st acc loose = .ok (b, st') → fw.Ok → AllNlEnd fw.lines → EntriesOk acc → EntriesOk b.entries

/-- the test at the head of `List.read`'s loop fires only inside a list (a leader is known) on a next marker of another type -/
theorem otherMarkerType_some {ld : Option Str} {nm : Option (Nat × Nat × Str × Str)} (h : otherMarkerType ld nm = true) :
    ∃ d m, ld = some d ∧ nm = some m ∧ sameMarkerType d m.2.2.1 = false := by
  unfold otherMarkerType at h
  split at h
  · rename_i d m
    exact ⟨d, m, rfl, rfl, by simpa using h⟩
  · cases h

theorem otherMarkerType_none_left (nm : Option (Nat × Nat × Str × Str)) : otherMarkerType none nm = false := by
  unfold otherMarkerType; rfl

theorem otherMarkerType_none_right (ld : Option Str) : otherMarkerType ld none = false := by
  unfold otherMarkerType; cases ld <;> rfl

theorem list_step (cfg : Cfg) (fuel : Nat) (hT : TokOk cfg fuel) (hL : ListOk cfg fuel) : ListOk cfg (fuel + 1) := by
    intro fw st ld nm acc r h hok hacc hl hnm
    have hstop : ∀ (items : List Item) (fwEnd : FW) (stEnd : St) (rr), ItemsOk items → Same fw fwEnd →
        (Res.ok ((match items with
          | .mk inner loose i p l n g :: rest => Item.mk inner (decide (inner.length > 1) && loose) i p l n g :: rest
          | [] => []).reverse, fwEnd, stEnd) : Res _) = .ok rr → Same fw rr.2.1 ∧ ItemsOk rr.1 := by
      intro items fwEnd stEnd rr hi hs he
      cases he
      refine ⟨hs, itemsOk_reverse _ ?_⟩
      cases items with
      | nil => trivial
      | cons x xs =>
        cases x
        simp only [ItemsOk, ItemOk] at hi ⊢
        exact hi
    simp only [readList] at h
    split at h
    · -- a next marker of another type: the list ends before its item is read
      exact hstop acc fw st r hacc (Same.refl fw) h
    split at h
    · cases h
    · rename_i il hil
      have hio := itemLines_origins cfg fw nm il hil hok
      have hnl := itemLines_nl cfg fw nm il hil hl hnm
      -- the item and the cursor after it
      have key : ∀ (item : Item) (itemLeader : Str) (next : Option (Nat × Nat × Str × Str)) (fw' : FW) (st' : St),
          (match il with
            | .empty ind pre ldr ln og next fw' => (Res.ok (Item.mk [] true ind pre ldr ln og, ldr, next, fw', st) : Res _)
            | .lines buf cstart ind pre ldr ln og next fw' =>
              match tokenizeBlock cfg fuel buf cstart st with
              | .err e => .err e
              | .ok (b, st') => .ok (Item.mk b.entries b.loose ind pre ldr ln og, ldr, next, fw', st'))
            = .ok (item, itemLeader, next, fw', st') → Same fw fw' ∧ ItemOk item ∧ (∀ m, next = some m → MarkerOk m) := by
        intro item itemLeader next fw' st' he
        cases il with
        | empty ind pre ldr ln og nx fwx =>
          simp only at he hio hnl
          cases he
          exact ⟨hio.1, ⟨hio.2, trivial⟩, hnl⟩
        | lines buf cstart ind pre ldr ln og nx fwx =>
          simp only at he hio hnl
          split at he
          · cases he
          · rename_i b stb hb
            cases he
            exact ⟨hio.1, ⟨hio.2.1, hT _ _ _ _ _ hb hio.2.2 hnl.1⟩, hnl.2⟩
      split at h
      · cases h
      · rename_i item itemLeader next fw' st' hres
        have hk := key item itemLeader next fw' st' hres
        have hacc' : ItemsOk (item :: acc) := ⟨hk.2.1, hacc⟩
        have hl' : AllNlEnd fw'.lines := by rw [hk.1.1]; exact hl
        split at h
        · split at h
          · exact hstop _ _ _ r hacc' hk.1 h
          · have := hL fw' st' _ _ _ r h (FW.Ok.of_same hk.1 hok) hacc' hl' hk.2.2
            exact ⟨hk.1.trans this.1, this.2⟩
        · split at h
          · exact hstop _ _ _ r hacc' hk.1 h
          · have := hL fw' st' _ _ _ r h (FW.Ok.of_same hk.1 hok) hacc' hl' hk.2.2
            exact ⟨hk.1.trans this.1, this.2⟩


theorem startsWith_lstrip_nb (s : Str) (h : startsWith ['['] (lstrip s) = true) : isBlank s = false := by
  cases hb : isBlank s with
  | false => rfl
  | true => rw [isBlank_lstrip s hb] at h; simp [startsWith] at h

theorem try_step (cfg : Cfg) (fuel : Nat) (hT : TokOk cfg fuel) (hL : ListOk cfg fuel) (hY : TryOk cfg fuel) : TryOk cfg (fuel + 1) := by
  intro fw0 l ts fw st e fw' st' hok0 hl0 h hs hp
  cases ts with
  | nil => simp [tryTypes] at h
  | cons t ts =>
    have hok : fw.Ok := FW.Ok.of_same hs hok0
    have ho : fw.start + fw.pos = l.origin := (peek_origin fw l hok hp).symm
    have hl : AllNlEnd fw.lines := by rw [hs.1]; exact hl0
    have ih := fun fw2 st2 (h2 : tryTypes cfg fuel fw2 st2 l ts = .ok (some (e, fw', st'))) hs2 hp2 =>
      hY fw0 l ts fw2 st2 e fw' st' hok0 hl0 h2 hs2 hp2
    unfold tryTypes at h
    cases t <;> simp only at h
    · -- htmlBlock
      split at h
      · cases h
      · exact ih fw st h hs hp
      · cases h; exact ⟨hs.trans (readHtmlBlock_same fw _), ho⟩
    · -- blockCode
      split at h
      · cases h; exact ⟨hs.trans (readBlockCode_same fw), ho⟩
      · exact ih fw st h hs hp
    · -- heading
      split at h
      · rename_i lvl c cl fwh hh
        cases h; exact ⟨hs.trans (readHeading_same fw l.s _ hh), ho⟩
      · exact ih fw st h hs hp
    · -- quote
      split at h
      · split at h
        · cases h
        · rename_i qls qstart fwq hq
          have hql := quoteLines_origins cfg fw l _ hq hok hp
          split at h
          · cases h
          · rename_i b stb hb
            cases h
            exact ⟨hs.trans hql.1, ho, hT _ _ _ _ _ hb hql.2 (quoteLines_nl cfg fw l _ hq hl hp)⟩
      · exact ih fw st h hs hp
    · -- codeFence
      split at h
      · cases h; exact ⟨hs.trans (readCodeFence_same fw _), ho⟩
      · exact ih fw st h hs hp
    · -- thematicBreak
      split at h
      · cases h; exact ⟨hs.trans (same_next fw), ho⟩
      · exact ih fw st h hs hp
    · -- list
      split at h
      · split at h
        · cases h
        · rename_i items fwl stl hrl
          cases h
          have := hL fw st none none [] _ hrl hok trivial hl (fun m hm => by cases hm)
          exact ⟨hs.trans this.1, ho, this.2⟩
      · exact ih fw st h hs hp
    · -- table
      split at h
      · split at h
        · rename_i b sl fwt ht
          cases h
          have := readTable_same fw _ ht
          exact ⟨hs.trans this.1, ho, this.2⟩
        · exact ih fw st h hs hp
      · exact ih fw st h hs hp
    · -- footnote
      split at h
      · split at h
        · cases h
        · rename_i ms fwf hf
          have hsf := readFootnote_same fw ms fwf hf
          split at h
          · -- no definition matched: the cursor was handed back, the next types are tried
            have hpf : fwf.peek = some l :=
              footnote_restores fw ms fwf l hf (by assumption) hl hp (startsWith_lstrip_nb _ (by assumption))
            exact ih fwf _ h (hs.trans hsf) hpf
          · cases h; exact ⟨hs.trans hsf, ho⟩
      · exact ih fw st h hs hp
    · -- paragraph
      split at h
      · split at h
        · cases h
        · rename_i b fwp hpp
          cases h; exact ⟨hs.trans (readParagraph_same cfg _ fw l.s _ hpp), ho⟩
        · rename_i b fwp hpp
          cases h; exact ⟨hs.trans (readParagraph_same cfg _ fw l.s _ hpp), ho⟩
      · exact ih fw st h hs hp
    · -- blankLine
      split at h
      · cases h; exact ⟨hs.trans (same_next fw), ho⟩
      · exact ih fw st h hs hp
    · -- linkRefDefBlock
      split at h
      · split at h
        · cases h
        · rename_i ms fwf hf
          have hsf := readFootnote_same fw ms fwf hf
          split at h
          · have hpf : fwf.peek = some l :=
              footnote_restores fw ms fwf l hf (by assumption) hl hp (startsWith_lstrip_nb _ (by assumption))
            exact ih fwf _ h (hs.trans hsf) hpf
          · cases h; exact ⟨hs.trans hsf, ho⟩
      · exact ih fw st h hs hp



theorem loop_step (cfg : Cfg) (fuel : Nat) (hY : TryOk cfg fuel) (hP : LoopOk cfg fuel) : LoopOk cfg (fuel + 1) := by
    intro fw st acc loose b st' h hok hl hacc
    simp only [tokLoop] at h
    split at h
    · cases h; exact entriesOk_reverse acc hacc
    · rename_i l hp
      split at h
      · cases h
      · rename_i e fw2 st2 ht
        have := hY fw l cfg.types fw st e fw2 st2 hok hl ht (Same.refl fw) hp
        exact hP fw2 st2 _ loose b st' h (FW.Ok.of_same this.1 hok) (by rw [this.1.1]; exact hl) ⟨this.2, hacc⟩
      · exact hP fw.next st acc true b st' h (FW.Ok.of_same (same_next fw) hok) hl hacc

theorem tok_step (cfg : Cfg) (fuel : Nat) (hP : LoopOk cfg fuel) : TokOk cfg (fuel + 1) := by
  intro lines start st b st' h ho hl
  simp only [tokenizeBlock] at h
  exact hP _ _ _ _ _ _ h ho hl trivial

/-- **tokenize_block**, at every nesting depth: given lines whose ghost origins are
    `start, start+1, …`, every token produced (recursively) reports the origin of its first line. -/
theorem all_ok (cfg : Cfg) : ∀ (gas : Nat), TokOk cfg gas ∧ LoopOk cfg gas ∧ TryOk cfg gas ∧ ListOk cfg gas
  | 0 => by
    refine ⟨?_, ?_, ?_, ?_⟩
    · intro lines start st b st' h; simp [tokenizeBlock] at h
    · intro fw st acc loose b st' h; simp [tokLoop] at h
    · intro fw0 l ts fw st e fw' st' _ _ h; simp [tryTypes] at h
    · intro fw st ld nm acc r h; simp [readList] at h
  | gas + 1 => by
    obtain ⟨hT, hP, hY, hL⟩ := all_ok cfg gas
    exact ⟨tok_step cfg gas hP, loop_step cfg gas hY hP, try_step cfg gas hT hL hY, list_step cfg gas hT hL⟩

theorem tokenizeBlock_ok (cfg : Cfg) (gas : Nat) : TokOk cfg gas := (all_ok cfg gas).1

theorem originsFrom_zipIdx : ∀ (ls : List Str) (k : Nat),
    OriginsFrom (k + 1) ((ls.zipIdx k).map (fun (s, i) => ({ s := s, origin := i + 1 } : Line)))
  | [], _ => trivial
  | x :: xs, k => by
    simp only [List.zipIdx_cons, List.map_cons, OriginsFrom]
    exact ⟨trivial, originsFrom_zipIdx xs (k + 1)⟩


/-! ### Table rows -/

/-- the buffer `rows` is the text of the consecutive lines `p0, p0+1, …` -/
def RowsAt (lines : List Line) (p0 : Nat) (rows : List Str) : Prop :=
  ∀ (k : Nat) (s : Str), rows[k]? = some s → ∃ l, lines[p0 + k]? = some l ∧ l.s = s

theorem rowsAt_push (lines : List Line) (p0 : Nat) (rows : List Str) (l : Line) (h : RowsAt lines p0 rows)
    (hl : lines[p0 + rows.length]? = some l) : RowsAt lines p0 (rows ++ [l.s]) := by
  intro k s hk
  by_cases hlt : k < rows.length
  · rw [List.getElem?_append_left hlt] at hk; exact h k s hk
  · have hge : rows.length ≤ k := by omega
    rw [List.getElem?_append_right hge] at hk
    have : k - rows.length = 0 := by
      cases hd : k - rows.length with
      | zero => rfl
      | succ n => rw [hd] at hk; simp at hk
    rw [this] at hk
    simp only [List.getElem?_cons_zero, Option.some.injEq] at hk
    have hk' : k = rows.length := by omega
    subst hk'
    exact ⟨l, hl, hk⟩

theorem tableLoop_rows : ∀ (fuel : Nat) (fw : FW) (buf : List Str) (p0 : Nat),
    RowsAt fw.lines p0 buf.reverse → buf.length + p0 = fw.pos → RowsAt fw.lines p0 (tableLoop fuel fw buf).1.reverse
  | 0, _, _, _, h, _ => h
  | fuel + 1, fw, buf, p0, h, hp => by
    simp only [tableLoop]
    split
    · rename_i l hpk
      split
      · have hnp : fw.next.pos = fw.pos + 1 := rfl
        refine tableLoop_rows fuel fw.next (l.s :: buf) p0 ?_ (by simp only [List.length_cons]; omega)
        rw [List.reverse_cons]
        refine rowsAt_push _ _ _ l h ?_
        simp only [FW.peek] at hpk
        rw [List.length_reverse, Nat.add_comm, hp]; exact hpk
      · exact h
    · exact h

theorem readTable_rows (fw : FW) (b : List Str) (sl : Nat) (fw' : FW) (h : readTable fw = some (b, sl, fw')) (hok : fw.Ok) :
    ∀ (k : Nat) (s : Str), b[k]? = some s → ∃ l, fw.lines[fw.pos + k]? = some l ∧ l.s = s ∧ l.origin = sl + k := by
  have hsl := (readTable_same fw _ h).2
  simp only at hsl
  unfold readTable at h
  split at h
  · cases h
  · rename_i l0 hp
    simp only at h
    split at h
    · split at h
      · cases h
        have hnp : fw.next.pos = fw.pos + 1 := rfl
        have := tableLoop_rows (fw.remaining + 1) fw.next [l0.s] fw.pos
          (by intro k s hk
              cases k with
              | zero => simp only [List.reverse_cons, List.reverse_nil, List.nil_append, List.getElem?_cons_zero, Option.some.injEq] at hk
                        exact ⟨l0, by show fw.lines[fw.pos + 0]? = some l0; simpa [FW.peek] using hp, hk⟩
              | succ n => simp at hk)
          (by simp only [List.length_cons, List.length_nil]; omega)
        intro k s hk
        obtain ⟨l, hl, hs⟩ := this k s hk
        refine ⟨l, hl, hs, ?_⟩
        have := originsFrom_get fw.lines fw.start (fw.pos + k) l hok hl
        rw [this, hsl]; omega
      · cases h
    · cases h

end Mistletoe.Block
