/-
  C01 for the two contrib renderers: `JiraRenderer` (Model/Jira.lean) and `XWiki20Renderer`
  (Model/XWiki.lean) return a string on every document the parser produces under their own token
  lists.

  Part 1  the well-formedness predicate `blockOk xw` / `docOk xw` on the AST (`xw = true`: the two
          XWiki macro span tokens are allowed) and its exactness: a renderer model returns `.ok`
          EXACTLY on the trees that satisfy it (`jira_render_isOk`, `xwiki_render_isOk`).
  Part 2  the inline phase only makes tokens of the classes in the span-token list.
  Part 3  the block phase only makes entries of the classes in the block-token list (no BlankLine /
          LinkReferenceDefinitionBlock entry, at any depth, unless the class is in the list).
  Part 4  the block token constructors (`mkBlocks`) turn such a buffer into a tree satisfying the
          predicate; `Document.parse` under the regenerated Jira / XWiki token lists.
  Part 5  `C01_jira_total`, `C01_xwiki_total`, non-vacuity.
-/
import Mistletoe.Props.C01
import Mistletoe.Model.Jira
import Mistletoe.Model.XWiki
namespace Mistletoe.Contrib
open Mistletoe Mistletoe.Block Mistletoe.Inline

/-! ## Part 1: the predicate, and the renderers are `.ok` exactly on it -/

mutual
/-- no span token without a `render_map` entry: Math, GithubWiki, LinkReferenceDefinition never;
    the XWiki macro tokens only when `xw` (the XWiki renderer registers them) -/
def inlineOk (xw : Bool) : Inline → Bool
  | .rawText _ => true
  | .strong _ k => inlinesOk xw k
  | .emphasis _ k => inlinesOk xw k
  | .inlineCode .. => true
  | .strikethrough k => inlinesOk xw k
  | .image _ _ _ _ _ k => inlinesOk xw k
  | .link _ _ _ _ _ k => inlinesOk xw k
  | .autoLink .. => true
  | .escapeSequence _ => true
  | .lineBreak .. => true
  | .htmlSpan _ => true
  | .math _ => false
  | .githubWiki .. => false
  | .xwikiMacroStart _ => xw
  | .xwikiMacroEnd _ => xw
  | .linkRefDef .. => false
def inlinesOk (xw : Bool) : List Inline → Bool
  | [] => true
  | i :: is => inlineOk xw i && inlinesOk xw is
end

mutual
/-- no BlankLine / LinkReferenceDefinitionBlock (no `render_map` entry); a table's `header` is absent
    or one TableRow; the children of a TableRow are TableCells.  NOTHING is required of the number of
    children of a quote, a list or a list item (they may be empty), nor of the table having a header. -/
def blockOk (xw : Bool) : Block → Bool
  | .paragraph k _ => inlinesOk xw k
  | .heading _ _ k _ => inlinesOk xw k
  | .setextHeading _ _ k _ => inlinesOk xw k
  | .quote kids _ => blocksOk xw kids
  | .blockCode .. => true
  | .codeFence .. => true
  | .list _ _ items _ => blocksOk xw items
  | .listItem _ _ _ _ kids _ => blocksOk xw kids
  | .table _ header rows _ =>
    (match header with
     | [] => true
     | [h] => rowOk xw h
     | _ :: _ :: _ => false) && blocksOk xw rows
  | .tableRow _ cells _ => cellsOk xw cells
  | .tableCell _ k _ => inlinesOk xw k
  | .thematicBreak .. => true
  | .htmlBlock .. => true
  | .blankLine _ => false
  | .linkRefDefBlock .. => false
def rowOk (xw : Bool) : Block → Bool
  | .tableRow _ cells _ => cellsOk xw cells
  | _ => false
def cellsOk (xw : Bool) : List Block → Bool
  | [] => true
  | .tableCell _ k _ :: cs => inlinesOk xw k && cellsOk xw cs
  | _ :: _ => false
def blocksOk (xw : Bool) : List Block → Bool
  | [] => true
  | b :: bs => blockOk xw b && blocksOk xw bs
end

def docOk (xw : Bool) (d : Doc) : Bool := blocksOk xw d.kids

/-! ### Jira -/

mutual
theorem jira_inline : ∀ (i : Inline), (Jira.renderInline i).isOk = inlineOk false i
  | .rawText _ => rfl
  | .strong _ k => by
    have ih := jira_inlines k
    simp only [Jira.renderInline, inlineOk]; cases h : Jira.renderInlines k <;> simp_all [Res.isOk]
  | .emphasis _ k => by
    have ih := jira_inlines k
    simp only [Jira.renderInline, inlineOk]; cases h : Jira.renderInlines k <;> simp_all [Res.isOk]
  | .inlineCode .. => rfl
  | .strikethrough k => by
    have ih := jira_inlines k
    simp only [Jira.renderInline, inlineOk]; cases h : Jira.renderInlines k <;> simp_all [Res.isOk]
  | .image _ _ _ _ _ k => by
    have ih := jira_inlines k
    simp only [Jira.renderInline, inlineOk]; cases h : Jira.renderInlines k <;> simp_all [Res.isOk]
  | .link _ _ _ _ _ k => by
    have ih := jira_inlines k
    simp only [Jira.renderInline, inlineOk]; cases h : Jira.renderInlines k <;> simp_all [Res.isOk]
  | .autoLink .. => rfl
  | .escapeSequence _ => rfl
  | .lineBreak .. => rfl
  | .htmlSpan _ => rfl
  | .math _ => rfl
  | .githubWiki .. => rfl
  | .xwikiMacroStart _ => rfl
  | .xwikiMacroEnd _ => rfl
  | .linkRefDef .. => rfl
theorem jira_inlines : ∀ (k : List Inline), (Jira.renderInlines k).isOk = inlinesOk false k
  | [] => rfl
  | i :: is => by
    have h1 := jira_inline i
    have h2 := jira_inlines is
    simp only [Jira.renderInlines, inlinesOk]
    cases h : Jira.renderInline i <;> cases h' : Jira.renderInlines is <;> simp_all [Res.isOk]
end

mutual
theorem jira_block : ∀ (b : Mistletoe.Block) (lt : Str) (isLast : Bool), (Jira.renderBlock lt isLast b).isOk = blockOk false b
  | .paragraph k _, lt, isLast => by
    have ih := jira_inlines k
    simp only [Jira.renderBlock, blockOk]; cases h : Jira.renderInlines k <;> simp_all [Res.isOk]
  | .heading _ _ k _, lt, isLast => by
    have ih := jira_inlines k
    simp only [Jira.renderBlock, blockOk]; cases h : Jira.renderInlines k <;> simp_all [Res.isOk]
  | .setextHeading _ _ k _, lt, isLast => by
    have ih := jira_inlines k
    simp only [Jira.renderBlock, blockOk]; cases h : Jira.renderInlines k <;> simp_all [Res.isOk]
  | .quote kids _, lt, isLast => by
    have ih := jira_quoteKids kids lt
    simp only [Jira.renderBlock, blockOk]
    cases h : Jira.renderQuoteKids lt kids with
    | err e => simp_all [Res.isOk]
    | ok inner =>
      rw [h] at ih; rw [← ih]
      simp only
      split <;> rfl
  | .blockCode .., _, _ => rfl
  | .codeFence .., _, _ => rfl
  | .list _ start items _, lt, isLast => by
    simp only [Jira.renderBlock, blockOk]
    have ih := jira_blocks items (lt ++ [match start with | some n => if n = 0 then '*' else '#' | none => '*'])
    cases h : Jira.renderBlocks (lt ++ [match start with | some n => if n = 0 then '*' else '#' | none => '*']) items <;>
      simp_all [Res.isOk]
  | .listItem _ _ _ _ kids _, lt, isLast => by
    have ih := jira_blocks kids lt
    simp only [Jira.renderBlock, blockOk]; cases h : Jira.renderBlocks lt kids <;> simp_all [Res.isOk]
  | .table _ header rows _, lt, isLast => by
    have ihr := jira_blocks rows lt
    simp only [Jira.renderBlock, blockOk]
    match header with
    | [] =>
      simp only [Bool.true_and]
      cases h : Jira.renderBlocks lt rows <;> simp_all [Res.isOk]
    | [hd] =>
      have ihh := jira_row hd lt true
      simp only
      cases h1 : Jira.renderRow lt true hd <;> cases h2 : Jira.renderBlocks lt rows <;> simp_all [Res.isOk]
    | _ :: _ :: _ => simp [Res.isOk]
  | .tableRow _ cells _, lt, isLast => by
    have ih := jira_cells cells lt false
    simp only [Jira.renderBlock, blockOk]; cases h : Jira.renderCells lt false cells <;> simp_all [Res.isOk]
  | .tableCell _ k _, lt, isLast => by
    have ih := jira_inlines k
    simp only [Jira.renderBlock, blockOk]; cases h : Jira.renderInlines k <;> simp_all [Res.isOk]
  | .thematicBreak .., _, _ => rfl
  | .htmlBlock .., _, _ => rfl
  | .blankLine _, _, _ => rfl
  | .linkRefDefBlock .., _, _ => rfl
theorem jira_row : ∀ (b : Mistletoe.Block) (lt : Str) (hdr : Bool), (Jira.renderRow lt hdr b).isOk = rowOk false b
  | .tableRow _ cells _, lt, hdr => by
    have ih := jira_cells cells lt hdr
    simp only [Jira.renderRow, rowOk]; cases h : Jira.renderCells lt hdr cells <;> simp_all [Res.isOk]
  | .paragraph .., _, _ => rfl
  | .heading .., _, _ => rfl
  | .setextHeading .., _, _ => rfl
  | .quote .., _, _ => rfl
  | .blockCode .., _, _ => rfl
  | .codeFence .., _, _ => rfl
  | .list .., _, _ => rfl
  | .listItem .., _, _ => rfl
  | .table .., _, _ => rfl
  | .tableCell .., _, _ => rfl
  | .thematicBreak .., _, _ => rfl
  | .htmlBlock .., _, _ => rfl
  | .blankLine _, _, _ => rfl
  | .linkRefDefBlock .., _, _ => rfl
theorem jira_cells : ∀ (cs : List Mistletoe.Block) (lt : Str) (hdr : Bool), (Jira.renderCells lt hdr cs).isOk = cellsOk false cs
  | [], _, _ => rfl
  | .tableCell _ k _ :: cs, lt, hdr => by
    have ih1 := jira_inlines k
    have ih2 := jira_cells cs lt hdr
    simp only [Jira.renderCells, cellsOk]
    cases h : Jira.renderInlines k <;> cases h' : Jira.renderCells lt hdr cs <;> simp_all [Res.isOk]
  | .paragraph .. :: _, _, _ => rfl
  | .heading .. :: _, _, _ => rfl
  | .setextHeading .. :: _, _, _ => rfl
  | .quote .. :: _, _, _ => rfl
  | .blockCode .. :: _, _, _ => rfl
  | .codeFence .. :: _, _, _ => rfl
  | .list .. :: _, _, _ => rfl
  | .listItem .. :: _, _, _ => rfl
  | .table .. :: _, _, _ => rfl
  | .tableRow .. :: _, _, _ => rfl
  | .thematicBreak .. :: _, _, _ => rfl
  | .htmlBlock .. :: _, _, _ => rfl
  | .blankLine _ :: _, _, _ => rfl
  | .linkRefDefBlock .. :: _, _, _ => rfl
theorem jira_blocks : ∀ (bs : List Mistletoe.Block) (lt : Str), (Jira.renderBlocks lt bs).isOk = blocksOk false bs
  | [], _ => rfl
  | b :: bs, lt => by
    have h1 := jira_block b lt false
    have h2 := jira_blocks bs lt
    simp only [Jira.renderBlocks, blocksOk]
    cases h : Jira.renderBlock lt false b <;> cases h' : Jira.renderBlocks lt bs <;> simp_all [Res.isOk]
theorem jira_quoteKids : ∀ (bs : List Mistletoe.Block) (lt : Str), (Jira.renderQuoteKids lt bs).isOk = blocksOk false bs
  | [], _ => rfl
  | [b], lt => by
    have h1 := jira_block b lt true
    simp only [Jira.renderQuoteKids, blocksOk, Bool.and_true]; exact h1
  | b :: c :: bs, lt => by
    have h1 := jira_block b lt false
    have h2 := jira_quoteKids (c :: bs) lt
    rw [Jira.renderQuoteKids]
    simp only [blocksOk] at h2 ⊢
    cases h : Jira.renderBlock lt false b <;> cases h' : Jira.renderQuoteKids lt (c :: bs) <;> simp_all [Res.isOk]
end

/-- **`JiraRenderer().render(doc)` returns a string exactly on the trees satisfying `docOk false`** -/
theorem jira_render_isOk (d : Doc) : (Jira.render d).isOk = docOk false d := jira_blocks d.kids []

theorem jira_render_ok (d : Doc) (h : docOk false d = true) : ∃ out, Jira.render d = .ok out := by
  have := jira_render_isOk d
  rw [h] at this
  cases hr : Jira.render d with
  | ok out => exact ⟨out, rfl⟩
  | err e => rw [hr] at this; cases this

/-! ### XWiki -/

mutual
theorem xwiki_inline : ∀ (i : Inline), (XWiki.renderInline i).isOk = inlineOk true i
  | .rawText _ => rfl
  | .strong _ k => by
    have ih := xwiki_inlines k
    simp only [XWiki.renderInline, inlineOk]; cases h : XWiki.renderInlines k <;> simp_all [Res.isOk]
  | .emphasis _ k => by
    have ih := xwiki_inlines k
    simp only [XWiki.renderInline, inlineOk]; cases h : XWiki.renderInlines k <;> simp_all [Res.isOk]
  | .inlineCode .. => rfl
  | .strikethrough k => by
    have ih := xwiki_inlines k
    simp only [XWiki.renderInline, inlineOk]; cases h : XWiki.renderInlines k <;> simp_all [Res.isOk]
  | .image _ _ _ _ _ k => by
    have ih := xwiki_inlines k
    simp only [XWiki.renderInline, inlineOk]; cases h : XWiki.renderInlines k <;> simp_all [Res.isOk]
  | .link _ _ _ _ _ k => by
    have ih := xwiki_inlines k
    simp only [XWiki.renderInline, inlineOk]; cases h : XWiki.renderInlines k <;> simp_all [Res.isOk]
  | .autoLink .. => rfl
  | .escapeSequence _ => rfl
  | .lineBreak .. => rfl
  | .htmlSpan _ => rfl
  | .math _ => rfl
  | .githubWiki .. => rfl
  | .xwikiMacroStart _ => rfl
  | .xwikiMacroEnd _ => rfl
  | .linkRefDef .. => rfl
theorem xwiki_inlines : ∀ (k : List Inline), (XWiki.renderInlines k).isOk = inlinesOk true k
  | [] => rfl
  | i :: is => by
    have h1 := xwiki_inline i
    have h2 := xwiki_inlines is
    simp only [XWiki.renderInlines, inlinesOk]
    cases h : XWiki.renderInline i <;> cases h' : XWiki.renderInlines is <;> simp_all [Res.isOk]
end

mutual
theorem xwiki_block : ∀ (b : Mistletoe.Block) (lt : Str) (one : Bool), (XWiki.renderBlock lt one b).isOk = blockOk true b
  | .paragraph k _, lt, one => by
    have ih := xwiki_inlines k
    simp only [XWiki.renderBlock, blockOk]; cases h : XWiki.renderInlines k <;> simp_all [Res.isOk]
  | .heading _ _ k _, lt, one => by
    have ih := xwiki_inlines k
    simp only [XWiki.renderBlock, blockOk]; cases h : XWiki.renderInlines k <;> simp_all [Res.isOk]
  | .setextHeading _ _ k _, lt, one => by
    have ih := xwiki_inlines k
    simp only [XWiki.renderBlock, blockOk]; cases h : XWiki.renderInlines k <;> simp_all [Res.isOk]
  | .quote kids _, lt, one => by
    have ih := xwiki_quoteKids kids lt
    simp only [XWiki.renderBlock, blockOk]; cases h : XWiki.renderQuoteKids lt kids <;> simp_all [Res.isOk]
  | .blockCode .., _, _ => rfl
  | .codeFence .., _, _ => rfl
  | .list _ start items _, lt, one => by
    simp only [XWiki.renderBlock, blockOk]
    have ih := xwiki_blocks items (lt ++ [match start with | some n => if n = 0 then '*' else '1' | none => '*'])
    cases h : XWiki.renderBlocks (lt ++ [match start with | some n => if n = 0 then '*' else '1' | none => '*']) items <;>
      simp_all [Res.isOk]
  | .listItem _ _ _ _ kids _, lt, one => by
    have ih := xwiki_itemKids kids lt
    simp only [XWiki.renderBlock, blockOk]; cases h : XWiki.renderItemKids lt kids <;> simp_all [Res.isOk]
  | .table _ header rows _, lt, one => by
    have ihr := xwiki_blocks rows lt
    simp only [XWiki.renderBlock, blockOk]
    match header with
    | [] =>
      simp only [Bool.true_and]
      cases h : XWiki.renderBlocks lt rows <;> simp_all [Res.isOk]
    | [hd] =>
      have ihh := xwiki_row hd true
      simp only
      cases h1 : XWiki.renderRow true hd <;> cases h2 : XWiki.renderBlocks lt rows <;> simp_all [Res.isOk]
    | _ :: _ :: _ => simp [Res.isOk]
  | .tableRow _ cells _, lt, one => by
    have ih := xwiki_cells cells false
    simp only [XWiki.renderBlock, blockOk]; cases h : XWiki.renderCells false cells <;> simp_all [Res.isOk]
  | .tableCell _ k _, lt, one => by
    have ih := xwiki_inlines k
    simp only [XWiki.renderBlock, blockOk]; cases h : XWiki.renderInlines k <;> simp_all [Res.isOk]
  | .thematicBreak .., _, _ => rfl
  | .htmlBlock .., _, _ => rfl
  | .blankLine _, _, _ => rfl
  | .linkRefDefBlock .., _, _ => rfl
theorem xwiki_row : ∀ (b : Mistletoe.Block) (hdr : Bool), (XWiki.renderRow hdr b).isOk = rowOk true b
  | .tableRow _ cells _, hdr => by
    have ih := xwiki_cells cells hdr
    simp only [XWiki.renderRow, rowOk]; cases h : XWiki.renderCells hdr cells <;> simp_all [Res.isOk]
  | .paragraph .., _ => rfl
  | .heading .., _ => rfl
  | .setextHeading .., _ => rfl
  | .quote .., _ => rfl
  | .blockCode .., _ => rfl
  | .codeFence .., _ => rfl
  | .list .., _ => rfl
  | .listItem .., _ => rfl
  | .table .., _ => rfl
  | .tableCell .., _ => rfl
  | .thematicBreak .., _ => rfl
  | .htmlBlock .., _ => rfl
  | .blankLine _, _ => rfl
  | .linkRefDefBlock .., _ => rfl
theorem xwiki_cells : ∀ (cs : List Mistletoe.Block) (hdr : Bool), (XWiki.renderCells hdr cs).isOk = cellsOk true cs
  | [], _ => rfl
  | .tableCell _ k _ :: cs, hdr => by
    have ih1 := xwiki_inlines k
    have ih2 := xwiki_cells cs hdr
    simp only [XWiki.renderCells, cellsOk]
    cases h : XWiki.renderInlines k <;> cases h' : XWiki.renderCells hdr cs <;> simp_all [Res.isOk]
  | .paragraph .. :: _, _ => rfl
  | .heading .. :: _, _ => rfl
  | .setextHeading .. :: _, _ => rfl
  | .quote .. :: _, _ => rfl
  | .blockCode .. :: _, _ => rfl
  | .codeFence .. :: _, _ => rfl
  | .list .. :: _, _ => rfl
  | .listItem .. :: _, _ => rfl
  | .table .. :: _, _ => rfl
  | .tableRow .. :: _, _ => rfl
  | .thematicBreak .. :: _, _ => rfl
  | .htmlBlock .. :: _, _ => rfl
  | .blankLine _ :: _, _ => rfl
  | .linkRefDefBlock .. :: _, _ => rfl
theorem xwiki_blocks : ∀ (bs : List Mistletoe.Block) (lt : Str), (XWiki.renderBlocks lt bs).isOk = blocksOk true bs
  | [], _ => rfl
  | b :: bs, lt => by
    have h1 := xwiki_block b lt false
    have h2 := xwiki_blocks bs lt
    simp only [XWiki.renderBlocks, blocksOk]
    cases h : XWiki.renderBlock lt false b <;> cases h' : XWiki.renderBlocks lt bs <;> simp_all [Res.isOk]
theorem xwiki_quoteKids : ∀ (bs : List Mistletoe.Block) (lt : Str), (XWiki.renderQuoteKids lt bs).isOk = blocksOk true bs
  | [], _ => rfl
  | [b], lt => by
    have h1 := xwiki_block b lt true
    simp only [XWiki.renderQuoteKids, blocksOk, Bool.and_true]; exact h1
  | b :: c :: bs, lt => by
    have h1 := xwiki_block b lt false
    have h2 := xwiki_quoteKids (c :: bs) lt
    rw [XWiki.renderQuoteKids]
    simp only [blocksOk] at h2 ⊢
    cases h : XWiki.renderBlock lt false b <;> cases h' : XWiki.renderQuoteKids lt (c :: bs) <;> simp_all [Res.isOk]
theorem xwiki_itemKids : ∀ (bs : List Mistletoe.Block) (lt : Str), (XWiki.renderItemKids lt bs).isOk = blocksOk true bs
  | [], _ => rfl
  | b :: bs, lt => by
    have h1 := xwiki_block b lt true
    have h2 := xwiki_blocks bs lt
    simp only [XWiki.renderItemKids, blocksOk]
    cases h : XWiki.renderBlock lt true b <;> cases h' : XWiki.renderBlocks lt bs <;> simp_all [Res.isOk]
end

/-- **`XWiki20Renderer().render(doc)` returns a string exactly on the trees satisfying `docOk true`** -/
theorem xwiki_render_isOk (d : Doc) : (XWiki.render d).isOk = docOk true d := xwiki_blocks d.kids []

theorem xwiki_render_ok (d : Doc) (h : docOk true d = true) : ∃ out, XWiki.render d = .ok out := by
  have := xwiki_render_isOk d
  rw [h] at this
  cases hr : XWiki.render d with
  | ok out => exact ⟨out, rfl⟩
  | err e => rw [hr] at this; cases this

/-! ## Part 2: the inline phase only makes tokens of the classes in the span-token list -/

/-- the span-token classes whose tokens the renderer can render -/
def clsOk (xw : Bool) : STok → Bool
  | .math => false
  | .githubWiki => false
  | .xwikiMacroStart => xw
  | .xwikiMacroEnd => xw
  | _ => true

theorem inlineCodeOf_ok (xw : Bool) (s : Str) (m : InlineScan.CodeM) : inlineOk xw (inlineCodeOf s m) = true := by
  unfold inlineCodeOf
  simp only
  split <;> rfl

mutual
theorem build_ok (xw : Bool) (s : Str) (found : List Found) (hf : ∀ f ∈ found, clsOk xw f.cls = true) :
    ∀ (o : Span.Out), inlineOk xw (build s found o) = true
  | .raw a b => by simp [build, inlineOk]
  | .tok c kids => by
    have ih := builds_ok xw s found hf kids
    simp only [build]
    split
    · rfl
    · rename_i f hfe
      have hc := hf f (List.mem_of_getElem? hfe)
      split
      all_goals first
        | rfl
        | exact ih
        | exact inlineCodeOf_ok xw s _
        | (split <;> exact ih)
        | (rename_i hcls _; rw [hcls] at hc; simpa [clsOk, inlineOk] using hc)
        | (rename_i hcls _; rw [hcls] at hc; exact absurd hc (by simp [clsOk]))
        | (rename_i hcls; rw [hcls] at hc; exact absurd hc (by simp [clsOk]))
theorem builds_ok (xw : Bool) (s : Str) (found : List Found) (hf : ∀ f ∈ found, clsOk xw f.cls = true) :
    ∀ (os : List Span.Out), inlinesOk xw (builds s found os) = true
  | [] => rfl
  | o :: os => by
    simp only [builds, inlinesOk, Bool.and_eq_true]
    exact ⟨build_ok xw s found hf o, builds_ok xw s found hf os⟩
end

theorem findOne_cls (s : Str) (core : List Core.CoreM) (codes : List InlineScan.CodeM) (t : STok) :
    ∀ f ∈ findOne s core codes t, f.cls = t := by
  intro f hf
  cases t <;> simp only [findOne, List.mem_map, List.not_mem_nil] at hf
  all_goals first
    | (obtain ⟨m, _, rfl⟩ := hf; rfl)
    | exact absurd hf id

/-- **`tokenize_inner` under a span-token list without Math and GithubWiki (and, for `xw = false`,
    without the XWiki macro tokens) only returns renderable tokens**, at every depth -/
theorem tokenizeInner_ok (xw : Bool) (types : List STok) (ht : ∀ t ∈ types, clsOk xw t = true)
    (fn : Footnotes.Table) (s : Str) (ks : List Inline) (h : tokenizeInner types fn s = .ok ks) : inlinesOk xw ks = true := by
  unfold tokenizeInner at h
  split at h
  · cases h
  · rename_i found hfound
    cases h
    apply builds_ok
    intro f hf
    have key : ∀ (cr : Res (List Core.CoreM × List InlineScan.CodeM)),
        (match cr with
          | .err e => (Res.err e : Res (List Found))
          | .ok (core, codes) => .ok (types.flatMap (findOne s core codes))) = .ok found → clsOk xw f.cls = true := by
      intro cr hcr
      split at hcr
      · cases hcr
      · cases hcr
        obtain ⟨t, htm, hft⟩ := List.mem_flatMap.mp hf
        rw [findOne_cls _ _ _ t f hft]
        exact ht t htm
    exact key _ hfound

/-! ## Part 3: the block phase makes no BlankLine / LinkReferenceDefinitionBlock entry unless the class is in the list -/

mutual
/-- no BlankLine and no LinkReferenceDefinitionBlock entry, at any nesting depth -/
def EntryClean : Entry → Prop
  | .blockCode _ _ _ => True
  | .heading _ _ _ _ _ => True
  | .quote inner _ _ _ => EntriesClean inner
  | .codeFence _ _ _ _ _ _ _ => True
  | .thematicBreak _ _ _ => True
  | .list items _ _ => ItemsClean items
  | .table _ _ _ _ => True
  | .footnote _ _ _ => True
  | .linkRefDefs _ _ _ => False
  | .paragraph _ _ _ => True
  | .setext _ _ _ => True
  | .htmlBlock _ _ _ => True
  | .blankLine _ _ => False
def EntriesClean : List Entry → Prop
  | [] => True
  | e :: es => EntryClean e ∧ EntriesClean es
def ItemClean : Item → Prop
  | .mk inner _ _ _ _ _ _ => EntriesClean inner
def ItemsClean : List Item → Prop
  | [] => True
  | i :: is => ItemClean i ∧ ItemsClean is
end

theorem entriesClean_append : ∀ (a b : List Entry), EntriesClean a → EntriesClean b → EntriesClean (a ++ b)
  | [], _, _, hb => by simpa using hb
  | x :: xs, b, ha, hb => by
    simp only [List.cons_append, EntriesClean] at ha ⊢
    exact ⟨ha.1, entriesClean_append xs b ha.2 hb⟩

theorem entriesClean_reverse : ∀ (a : List Entry), EntriesClean a → EntriesClean a.reverse
  | [], _ => by simp [EntriesClean]
  | x :: xs, h => by
    simp only [EntriesClean] at h
    rw [List.reverse_cons]
    exact entriesClean_append _ _ (entriesClean_reverse xs h.2) (by simp [EntriesClean, h.1])

theorem itemsClean_append : ∀ (a b : List Item), ItemsClean a → ItemsClean b → ItemsClean (a ++ b)
  | [], _, _, hb => by simpa using hb
  | x :: xs, b, ha, hb => by
    simp only [List.cons_append, ItemsClean] at ha ⊢
    exact ⟨ha.1, itemsClean_append xs b ha.2 hb⟩

theorem itemsClean_reverse : ∀ (a : List Item), ItemsClean a → ItemsClean a.reverse
  | [], _ => by simp [ItemsClean]
  | x :: xs, h => by
    simp only [ItemsClean] at h
    rw [List.reverse_cons]
    exact itemsClean_append _ _ (itemsClean_reverse xs h.2) (by simp [ItemsClean, h.1])

def TokClean (cfg : Block.Cfg) (gas : Nat) : Prop :=
  ∀ (lines : List Line) (start : Nat) (st : St) (b : Buf) (st' : St),
    tokenizeBlock cfg gas lines start st = .ok (b, st') → EntriesClean b.entries

def LoopClean (cfg : Block.Cfg) (gas : Nat) : Prop :=
  ∀ (fw : FW) (st : St) (acc : List Entry) (loose : Bool) (b) (st'),
    tokLoop cfg gas fw st acc loose = .ok (b, st') → EntriesClean acc → EntriesClean b.entries

def TryClean (cfg : Block.Cfg) (gas : Nat) : Prop :=
  ∀ (fw : FW) (st : St) (l : Line) (ts : List BTok) (e : Entry) (fw' : FW) (st' : St),
    tryTypes cfg gas fw st l ts = .ok (some (e, fw', st')) → .blankLine ∉ ts → .linkRefDefBlock ∉ ts → EntryClean e

def ListClean (cfg : Block.Cfg) (gas : Nat) : Prop :=
  ∀ (fw : FW) (st : St) (ld) (nm) (acc : List Item) (r),
    readList cfg gas fw st ld nm acc = .ok r → ItemsClean acc → ItemsClean r.1

theorem list_clean (cfg : Block.Cfg) (gas : Nat) (hT : TokClean cfg gas) (hL : ListClean cfg gas) : ListClean cfg (gas + 1) := by
  intro fw st ld nm acc r h hacc
  have hstop : ∀ (items : List Item) (fwEnd : FW) (stEnd : St) (rr : List Item × FW × St), ItemsClean items →
      (Res.ok ((match items with
        | .mk inner loose i p l n g :: rest => Item.mk inner (decide (inner.length > 1) && loose) i p l n g :: rest
        | [] => []).reverse, fwEnd, stEnd) : Res _) = .ok rr → ItemsClean rr.1 := by
    intro items fwEnd stEnd rr hi he
    cases he
    cases items with
    | nil => simp [ItemsClean]
    | cons x xs =>
      cases x
      simp only [ItemsClean, ItemClean] at hi
      refine itemsClean_reverse _ ?_
      simp only [ItemsClean, ItemClean]
      exact hi
  simp only [readList] at h
  split at h
  · exact hstop acc _ _ r hacc h
  split at h
  · cases h
  · rename_i il hil
    have key : ∀ (item : Item) (itemLeader : Str) (next : Option (Nat × Nat × Str × Str)) (fw' : FW) (st' : St),
        (match il with
          | .empty ind pre ldr ln og next fw' => (Res.ok (Item.mk [] true ind pre ldr ln og, ldr, next, fw', st) : Res _)
          | .lines buf cstart ind pre ldr ln og next fw' =>
            match tokenizeBlock cfg gas buf cstart st with
            | .err e => .err e
            | .ok (b, st') => .ok (Item.mk b.entries b.loose ind pre ldr ln og, ldr, next, fw', st'))
          = .ok (item, itemLeader, next, fw', st') → ItemClean item := by
      intro item itemLeader next fw' st' he
      cases il with
      | empty ind pre ldr ln og nx fwx =>
        simp only at he; cases he
        trivial
      | lines buf cstart ind pre ldr ln og nx fwx =>
        simp only at he
        split at he
        · cases he
        · rename_i b stb hb
          cases he
          exact hT _ _ _ _ _ hb
    split at h
    · cases h
    · rename_i item itemLeader next fw' st' hres
      have hkw := key item itemLeader next fw' st' hres
      have hacc' : ItemsClean (item :: acc) := ⟨hkw, hacc⟩
      split at h
      · split at h
        · exact hstop _ _ _ r hacc' h
        · exact hL _ st' _ _ _ r h hacc'
      · split at h
        · exact hstop _ _ _ r hacc' h
        · exact hL _ st' _ _ _ r h hacc'

theorem try_clean (cfg : Block.Cfg) (gas : Nat) (hT : TokClean cfg gas) (hL : ListClean cfg gas) (hY : TryClean cfg gas) :
    TryClean cfg (gas + 1) := by
  intro fw st l ts e fw' st' h hbl hlr
  cases ts with
  | nil => simp [tryTypes] at h
  | cons t ts =>
    have hbl' : .blankLine ∉ ts := fun hm => hbl (List.mem_cons_of_mem _ hm)
    have hlr' : .linkRefDefBlock ∉ ts := fun hm => hlr (List.mem_cons_of_mem _ hm)
    have ih := fun fw2 st2 (h2 : tryTypes cfg gas fw2 st2 l ts = .ok (some (e, fw', st'))) =>
      hY fw2 st2 l ts e fw' st' h2 hbl' hlr'
    unfold tryTypes at h
    cases t <;> simp only at h
    · -- htmlBlock
      split at h
      · cases h
      · exact ih fw st h
      · cases h; trivial
    · -- blockCode
      split at h
      · cases h; trivial
      · exact ih fw st h
    · -- heading
      split at h
      · cases h; trivial
      · exact ih fw st h
    · -- quote
      split at h
      · split at h
        · cases h
        · split at h
          · cases h
          · rename_i b stb hb
            cases h
            exact hT _ _ _ _ _ hb
      · exact ih fw st h
    · -- codeFence
      split at h
      · cases h; trivial
      · exact ih fw st h
    · -- thematicBreak
      split at h
      · cases h; trivial
      · exact ih fw st h
    · -- list
      split at h
      · split at h
        · cases h
        · rename_i items fwl stl hrl
          cases h
          exact hL fw st none none [] _ hrl trivial
      · exact ih fw st h
    · -- table
      split at h
      · split at h
        · cases h; trivial
        · exact ih fw st h
      · exact ih fw st h
    · -- footnote
      split at h
      · split at h
        · cases h
        · split at h
          · exact ih _ _ h
          · cases h; trivial
      · exact ih fw st h
    · -- paragraph
      split at h
      · split at h
        · cases h
        · cases h; trivial
        · cases h; trivial
      · exact ih fw st h
    · -- blankLine
      exact absurd (List.mem_cons_self ..) hbl
    · -- linkRefDefBlock
      exact absurd (List.mem_cons_self ..) hlr

theorem loop_clean (cfg : Block.Cfg) (hbl : .blankLine ∉ cfg.types) (hlr : .linkRefDefBlock ∉ cfg.types)
    (gas : Nat) (hY : TryClean cfg gas) (hP : LoopClean cfg gas) : LoopClean cfg (gas + 1) := by
  intro fw st acc loose b st' h hacc
  simp only [tokLoop] at h
  split at h
  · cases h; exact entriesClean_reverse acc hacc
  · rename_i l hp
    split at h
    · cases h
    · rename_i e fw2 st2 ht
      exact hP fw2 st2 _ loose b st' h ⟨hY fw st l cfg.types e fw2 st2 ht hbl hlr, hacc⟩
    · exact hP fw.next st acc true b st' h hacc

theorem tok_clean (cfg : Block.Cfg) (gas : Nat) (hP : LoopClean cfg gas) : TokClean cfg (gas + 1) := by
  intro lines start st b st' h
  simp only [tokenizeBlock] at h
  exact hP _ _ _ _ _ _ h trivial

theorem all_clean (cfg : Block.Cfg) (hbl : .blankLine ∉ cfg.types) (hlr : .linkRefDefBlock ∉ cfg.types) :
    ∀ (gas : Nat), TokClean cfg gas ∧ LoopClean cfg gas ∧ TryClean cfg gas ∧ ListClean cfg gas
  | 0 => by
    refine ⟨?_, ?_, ?_, ?_⟩
    · intro lines start st b st' h; simp [tokenizeBlock] at h
    · intro fw st acc loose b st' h; simp [tokLoop] at h
    · intro fw st l ts e fw' st' h; simp [tryTypes] at h
    · intro fw st ld nm acc r h; simp [readList] at h
  | gas + 1 => by
    obtain ⟨hT, hP, hY, hL⟩ := all_clean cfg hbl hlr gas
    exact ⟨tok_clean cfg gas hP, loop_clean cfg hbl hlr gas hY hP, try_clean cfg gas hT hL hY, list_clean cfg gas hT hL⟩

/-- **a block-token list without BlankLine and LinkReferenceDefinitionBlock yields a buffer without
    such entries**, at every nesting depth (no hypothesis on the lines) -/
theorem blockPhase_clean (cfg : Block.Cfg) (hbl : .blankLine ∉ cfg.types) (hlr : .linkRefDefBlock ∉ cfg.types)
    (gas : Nat) (lines : List Str) (b : Buf) (st : St) (h : blockPhase cfg gas lines = .ok (b, st)) : EntriesClean b.entries :=
  (all_clean cfg hbl hlr gas).1 _ 1 {} b st h

/-! ## Part 4: the block token constructors on a clean buffer give a tree satisfying the predicate -/

open Mistletoe.Document in
/-- the hypothesis on the inline phase: what it returns is renderable (discharged by `tokenizeInner_ok`) -/
def InlOk (xw : Bool) (cfg : Document.Cfg) (fn : Footnotes.Table) : Prop :=
  ∀ (s : Str) (ks : List Inline), Document.inl cfg fn s = .ok ks → inlinesOk xw ks = true

theorem tableRow_go_cells (xw : Bool) (cfg : Document.Cfg) (fn : Footnotes.Table) (hinl : InlOk xw cfg fn) (ln : Nat) :
    ∀ (zs : List (Option Str × Option Nat)) (cs : List Mistletoe.Block),
      Document.tableRow.go cfg fn ln zs = .ok cs → cellsOk xw cs = true
  | [], cs, h => by simp only [Document.tableRow.go] at h; cases h; rfl
  | (c, a) :: rest, cs, h => by
    simp only [Document.tableRow.go] at h
    split at h
    · cases h
    · rename_i kids hk
      split at h
      · cases h
      · rename_i more hm
        cases h
        simp only [cellsOk, Bool.and_eq_true]
        exact ⟨hinl _ _ hk, tableRow_go_cells xw cfg fn hinl ln rest more hm⟩

theorem tableRow_row (xw : Bool) (cfg : Document.Cfg) (fn : Footnotes.Table) (hinl : InlOk xw cfg fn)
    (line : Str) (al : List (Option Nat)) (ln : Nat) (r : Mistletoe.Block)
    (h : Document.tableRow cfg fn line al ln = .ok r) : rowOk xw r = true ∧ blockOk xw r = true := by
  unfold Document.tableRow at h
  simp only at h
  split at h
  · cases h
  · rename_i cs hcs
    cases h
    have := tableRow_go_cells xw cfg fn hinl ln _ cs hcs
    simp only [rowOk, blockOk]; exact ⟨this, this⟩

theorem tableRows_rows (xw : Bool) (cfg : Document.Cfg) (fn : Footnotes.Table) (hinl : InlOk xw cfg fn) :
    ∀ (ls : List Str) (al : List (Option Nat)) (ln : Nat) (rs : List Mistletoe.Block),
      Document.tableRows cfg fn ls al ln = .ok rs → blocksOk xw rs = true
  | [], _, _, rs, h => by simp only [Document.tableRows] at h; cases h; rfl
  | l :: rest, al, ln, rs, h => by
    simp only [Document.tableRows] at h
    split at h
    · cases h
    · rename_i r hr
      split at h
      · cases h
      · rename_i more hm
        cases h
        simp only [blocksOk, Bool.and_eq_true]
        exact ⟨(tableRow_row xw cfg fn hinl l al ln r hr).2, tableRows_rows xw cfg fn hinl rest al (ln + 1) more hm⟩

mutual
theorem mkBlock_blockOk (xw : Bool) (cfg : Document.Cfg) (fn : Footnotes.Table) (hinl : InlOk xw cfg fn) :
    ∀ (e : Entry), EntryClean e → ∀ (b : Mistletoe.Block), Document.mkBlock cfg fn e = .ok (some b) → blockOk xw b = true
  | .blockCode ls ln og, _, b, h => by simp only [Document.mkBlock] at h; cases h; rfl
  | .heading lvl content closing ln og, _, b, h => by
    simp only [Document.mkBlock] at h
    split at h
    · cases h
    · rename_i kids hk; cases h; exact hinl _ _ hk
  | .quote inner lo ln og, hc, b, h => by
    simp only [Document.mkBlock] at h
    split at h
    · cases h
    · rename_i kids hk
      cases h
      exact mkBlocks_blocksOk xw cfg fn hinl inner (by simpa [EntryClean] using hc) kids hk
  | .codeFence ls p ld info lang ln og, _, b, h => by simp only [Document.mkBlock] at h; cases h; rfl
  | .thematicBreak line ln og, _, b, h => by simp only [Document.mkBlock] at h; cases h; rfl
  | .list items ln og, hc, b, h => by
    simp only [Document.mkBlock] at h
    split at h
    · cases h
    · rename_i its hits
      have hi := mkItems_blocksOk xw cfg fn hinl items (by simpa [EntryClean] using hc) its hits
      split at h
      · cases h
      · cases h; exact hi
  | .table lines sl ln og, _, b, h => by
    simp only [Document.mkBlock] at h
    split at h
    · rename_i l0 l1 rest
      split at h
      · split at h
        · cases h
        · rename_i align hal
          split at h
          · cases h
          · rename_i header hh
            split at h
            · cases h
            · rename_i rows hr
              cases h
              simp only [blockOk, Bool.and_eq_true]
              exact ⟨(tableRow_row xw cfg fn hinl _ _ _ _ hh).1, tableRows_rows xw cfg fn hinl _ _ _ _ hr⟩
      · split at h
        · cases h
        · rename_i rows hr
          cases h
          simp only [blockOk, Bool.true_and]
          exact tableRows_rows xw cfg fn hinl _ _ _ _ hr
    · cases h
  | .footnote ms ln og, _, b, h => by simp only [Document.mkBlock] at h; cases h
  | .linkRefDefs ms ln og, hc, _, _ => by simp [EntryClean] at hc
  | .paragraph lines ln og, _, b, h => by
    simp only [Document.mkBlock] at h
    split at h
    · cases h
    · rename_i kids hk; cases h; exact hinl _ _ hk
  | .setext lines ln og, _, b, h => by
    simp only [Document.mkBlock] at h
    split at h
    · cases h
    · split at h
      · cases h
      · rename_i kids hk; cases h; exact hinl _ _ hk
  | .htmlBlock lines ln og, _, b, h => by simp only [Document.mkBlock] at h; cases h; rfl
  | .blankLine ln og, hc, _, _ => by simp [EntryClean] at hc
theorem mkBlocks_blocksOk (xw : Bool) (cfg : Document.Cfg) (fn : Footnotes.Table) (hinl : InlOk xw cfg fn) :
    ∀ (es : List Entry), EntriesClean es → ∀ (bs : List Mistletoe.Block), Document.mkBlocks cfg fn es = .ok bs → blocksOk xw bs = true
  | [], _, bs, h => by simp only [Document.mkBlocks] at h; cases h; rfl
  | e :: es, hc, bs, h => by
    simp only [EntriesClean] at hc
    simp only [Document.mkBlocks] at h
    split at h
    · cases h
    · rename_i b hb
      split at h
      · cases h
      · rename_i bs' hbs
        cases h
        have ih := mkBlocks_blocksOk xw cfg fn hinl es hc.2 bs' hbs
        cases b with
        | none => exact ih
        | some x =>
          simp only [blocksOk, Bool.and_eq_true]
          exact ⟨mkBlock_blockOk xw cfg fn hinl e hc.1 x hb, ih⟩
theorem mkItems_blocksOk (xw : Bool) (cfg : Document.Cfg) (fn : Footnotes.Table) (hinl : InlOk xw cfg fn) :
    ∀ (is : List Item), ItemsClean is → ∀ (bs : List Mistletoe.Block), Document.mkItems cfg fn is = .ok bs → blocksOk xw bs = true
  | [], _, bs, h => by simp only [Document.mkItems] at h; cases h; rfl
  | .mk inner lo ind pre ld ln og :: rest, hc, bs, h => by
    simp only [ItemsClean, ItemClean] at hc
    simp only [Document.mkItems] at h
    split at h
    · cases h
    · rename_i kids hk
      split at h
      · cases h
      · rename_i more hm
        cases h
        simp only [blocksOk, blockOk, Bool.and_eq_true]
        exact ⟨mkBlocks_blocksOk xw cfg fn hinl inner hc.1 kids hk, mkItems_blocksOk xw cfg fn hinl rest hc.2 more hm⟩
end

/-- **every document `Document(lines)` returns under token lists without BlankLine,
    LinkReferenceDefinitionBlock, Math, GithubWiki (and, for `xw = false`, the XWiki macro tokens)
    satisfies the predicate** — for every list of lines and every gas -/
theorem parseLines_docOk (xw : Bool) (cfg : Document.Cfg)
    (hbl : .blankLine ∉ cfg.block.types) (hlr : .linkRefDefBlock ∉ cfg.block.types)
    (hsp : ∀ t ∈ cfg.span, clsOk xw t = true)
    (gas : Nat) (lines : List Str) (d : Doc) (h : Document.parseLines cfg gas lines = .ok d) : docOk xw d = true := by
  unfold Document.parseLines at h
  split at h
  · cases h
  · rename_i buf st hb
    simp only at h
    split at h
    · cases h
    · rename_i kids hk
      cases h
      exact mkBlocks_blocksOk xw cfg _ (fun s ks hs => tokenizeInner_ok xw cfg.span hsp _ s ks hs) _
        (blockPhase_clean cfg.block hbl hlr gas lines buf st hb) kids hk

theorem parse_docOk (xw : Bool) (cfg : Document.Cfg)
    (hbl : .blankLine ∉ cfg.block.types) (hlr : .linkRefDefBlock ∉ cfg.block.types)
    (hsp : ∀ t ∈ cfg.span, clsOk xw t = true)
    (gas : Nat) (t : Str) (d : Doc) (h : Document.parse cfg gas t = .ok d) : docOk xw d = true :=
  parseLines_docOk xw cfg hbl hlr hsp gas _ d h

end Mistletoe.Contrib

namespace Mistletoe.Config
open Mistletoe

/-! ## Part 5: the regenerated Jira / XWiki configurations; parse-and-render is total -/

/-- token lists while a `JiraRenderer` is active (regenerated from /repo) -/
def jira : Option Document.Cfg := cfgOf Gen.RenderMaps.jiraBlockTokens Gen.RenderMaps.jiraSpanTokens

/-- token lists while an `XWiki20Renderer` is active (regenerated from /repo) -/
def xwiki : Option Document.Cfg := cfgOf Gen.RenderMaps.xwikiBlockTokens Gen.RenderMaps.xwikiSpanTokens

/-- `JiraRenderer().render(Document(text))`: `none` if the configuration is unknown to the model, or the
    parse model or the renderer model raises -/
def renderJira (gas : Nat) (text : Str) : Option Str :=
  match jira with
  | none => none
  | some cfg =>
    match Document.parse cfg gas text with
    | .ok d => (match Jira.render d with | .ok s => some s | .err _ => none)
    | .err _ => none

/-- `XWiki20Renderer().render(Document(text))`, likewise -/
def renderXWiki (gas : Nat) (text : Str) : Option Str :=
  match xwiki with
  | none => none
  | some cfg =>
    match Document.parse cfg gas text with
    | .ok d => (match XWiki.render d with | .ok s => some s | .err _ => none)
    | .err _ => none

end Mistletoe.Config

namespace Mistletoe.Contrib
open Mistletoe Mistletoe.Block Mistletoe.Inline

/-- the regenerated Jira lists, as the model reads them -/
theorem jira_lists (cfg : Document.Cfg) (hc : Config.jira = some cfg) :
    cfg.block.types = [.htmlBlock, .blockCode, .heading, .quote, .codeFence, .thematicBreak, .list, .table, .footnote, .paragraph] ∧
    cfg.span = [.escapeSequence, .htmlSpan, .strikethrough, .autoLink, .coreTokens, .inlineCode, .lineBreak] := by
  have h : Config.jira.map (fun c => (c.block.types, c.span)) =
      some ([.htmlBlock, .blockCode, .heading, .quote, .codeFence, .thematicBreak, .list, .table, .footnote, .paragraph],
            [.escapeSequence, .htmlSpan, .strikethrough, .autoLink, .coreTokens, .inlineCode, .lineBreak]) := by decide +kernel
  rw [hc] at h
  simp only [Option.map_some, Option.some.injEq, Prod.mk.injEq] at h
  exact h

/-- the regenerated XWiki lists, as the model reads them -/
theorem xwiki_lists (cfg : Document.Cfg) (hc : Config.xwiki = some cfg) :
    cfg.block.types = [.htmlBlock, .blockCode, .heading, .quote, .codeFence, .thematicBreak, .list, .table, .footnote, .paragraph] ∧
    cfg.span = [.escapeSequence, .xwikiMacroEnd, .xwikiMacroStart, .htmlSpan, .strikethrough, .autoLink, .coreTokens, .inlineCode, .lineBreak] := by
  have h : Config.xwiki.map (fun c => (c.block.types, c.span)) =
      some ([.htmlBlock, .blockCode, .heading, .quote, .codeFence, .thematicBreak, .list, .table, .footnote, .paragraph],
            [.escapeSequence, .xwikiMacroEnd, .xwikiMacroStart, .htmlSpan, .strikethrough, .autoLink, .coreTokens, .inlineCode, .lineBreak]) := by
    decide +kernel
  rw [hc] at h
  simp only [Option.map_some, Option.some.injEq, Prod.mk.injEq] at h
  exact h

/-- **every document parsed under the Jira renderer's token lists satisfies the predicate**: no `.err`
    branch of `Jira.render` is reachable from a parsed document -/
theorem jira_parse_docOk (cfg : Document.Cfg) (hc : Config.jira = some cfg) (gas : Nat) (t : Str) (d : Doc)
    (h : Document.parse cfg gas t = .ok d) : docOk false d = true := by
  obtain ⟨hb, hs⟩ := jira_lists cfg hc
  exact parse_docOk false cfg (by rw [hb]; decide) (by rw [hb]; decide) (by rw [hs]; decide) gas t d h

/-- **every document parsed under the XWiki renderer's token lists satisfies the predicate** -/
theorem xwiki_parse_docOk (cfg : Document.Cfg) (hc : Config.xwiki = some cfg) (gas : Nat) (t : Str) (d : Doc)
    (h : Document.parse cfg gas t = .ok d) : docOk true d = true := by
  obtain ⟨hb, hs⟩ := xwiki_lists cfg hc
  exact parse_docOk true cfg (by rw [hb]; decide) (by rw [hb]; decide) (by rw [hs]; decide) gas t d h

end Mistletoe.Contrib

namespace Mistletoe.Props.C01
open Mistletoe Mistletoe.Block Mistletoe.Lines Mistletoe.Contrib

/-- **Parse-and-render with the Jira renderer returns a string for every text**: with the token lists
    the Jira renderer installs (regenerated from /repo) and enough gas, `Config.renderJira` is `some _`:
    neither the parser model nor the renderer model (`Model/Jira.lean`: `render_map` lookups, `token.header`,
    `children[-1]` / `children[0]` of quotes) reaches an `.err`. -/
theorem C01_jira_total (cfg : Document.Cfg) (hc : Config.jira = some cfg) (gas : Nat) (t : Str)
    (hg : gasBound cfg.block (docBuf (normalize (.str t))) ≤ gas) : ∃ out, Config.renderJira gas t = some out := by
  obtain ⟨d, hd⟩ := C01_parse_terminates cfg gas t hg
  obtain ⟨out, ho⟩ := jira_render_ok d (jira_parse_docOk cfg hc gas t d hd)
  exact ⟨out, by simp [Config.renderJira, hc, hd, ho]⟩

/-- **Parse-and-render with the XWiki renderer returns a string for every text** (`Config.renderXWiki`;
    parser model as in `Model/Inline.lean`, where the `find` of the two XWiki macro span tokens is not
    modelled: the predicate allows those tokens, so the renderer half holds for trees containing them too,
    `xwiki_render_isOk`). -/
theorem C01_xwiki_total (cfg : Document.Cfg) (hc : Config.xwiki = some cfg) (gas : Nat) (t : Str)
    (hg : gasBound cfg.block (docBuf (normalize (.str t))) ≤ gas) : ∃ out, Config.renderXWiki gas t = some out := by
  obtain ⟨d, hd⟩ := C01_parse_terminates cfg gas t hg
  obtain ⟨out, ho⟩ := xwiki_render_ok d (xwiki_parse_docOk cfg hc gas t d hd)
  exact ⟨out, by simp [Config.renderXWiki, hc, hd, ho]⟩

/-- the configurations exist: the regenerated lists are known to the model -/
example : Config.jira.isSome = true ∧ Config.xwiki.isSome = true := by decide +kernel

/-! ### Non-vacuity -/

/-- the historic crashes: a lone '>' (empty quote) and a lone '-' (empty list item), kernel-evaluated
    end to end (parse under the renderer's token lists, then render) -/
example : Config.renderJira 50 ">".toList = some "{quote}\n{quote}\n\n".toList := by decide +kernel
example : Config.renderJira 50 "-".toList = some "* \n".toList := by decide +kernel
example : Config.renderXWiki 50 ">".toList = some "\n".toList := by decide +kernel
example : Config.renderXWiki 50 "-".toList = some "* \n\n".toList := by decide +kernel

/-- an empty quote inside an otherwise empty list item -/
example : Config.renderJira 50 "- \n  > \n".toList = some "* {quote}\n{quote}\n\n".toList := by decide +kernel
example : Config.renderXWiki 50 "- \n  > \n".toList = some "* \n\n".toList := by decide +kernel

/-- a table (header, delimiter row, one row with emphasis) -/
example : Config.renderJira 50 "| a | b |\n|---|:-:|\n| 1 | *2* |\n".toList = some "||a||b||\n|1|_2_|\n\n".toList := by decide +kernel
example : Config.renderXWiki 50 "| a | b |\n|---|:-:|\n| 1 | *2* |\n".toList = some "|=a|=b\n|1|//2//\n\n".toList := by decide +kernel

/-- a nested list (ordered inside bullet), and a list item with two paragraphs (XWiki wraps) -/
example : Config.renderJira 50 "- a\n  1. b\n  2. c\n- d\n".toList = some "* a\n*# b\n*# c\n* d\n\n".toList := by decide +kernel
example : Config.renderXWiki 50 "- a\n  1. b\n  2. c\n- d\n".toList = some "* a\n*1. b\n*1. c\n* d\n\n".toList := by decide +kernel
example : Config.renderXWiki 50 "- a\n\n  b\n".toList = some "* a(((\nb\n)))\n\n".toList := by decide +kernel

/-- trees the parser cannot even produce are covered by the renderer theorems: an empty quote, an empty
    list item, a list whose items have no children, a list without items, a table without header and
    without rows, the XWiki macro tokens -/
def oddDoc : Doc :=
  { kids := [.quote [] 1, .list false none [.listItem ['-'] 0 2 false [] 2, .listItem ['-'] 0 2 false [] 3] 2,
             .list true (some 0) [] 4, .table [none] [] [] 5, .table [none] [] [.tableRow [none] [] 6] 6,
             .quote [.quote [] 7, .list false (some 3) [.listItem "3.".toList 0 3 false [.quote [] 7] 7] 7] 7,
             .paragraph [.xwikiMacroStart "{{info}}".toList, .rawText "x".toList, .xwikiMacroEnd "{{/info}}".toList] 8],
    footnotes := [] }

example : docOk true oddDoc = true := by decide +kernel
example : docOk false oddDoc = false := by decide +kernel        -- the macro tokens have no Jira `render_map` entry
example : ∃ out, XWiki.render oddDoc = .ok out := xwiki_render_ok oddDoc (by decide +kernel)
example : Jira.render oddDoc = .err .key := by decide +kernel
example : ∃ out, Jira.render { oddDoc with kids := oddDoc.kids.dropLast } = .ok out := jira_render_ok _ (by decide +kernel)
example : XWiki.render { oddDoc with kids := oddDoc.kids.dropLast } =
    .ok "\n* \n* \n\n\n\n\n\n> \n> 1. \n\n".toList := by decide +kernel

/-- the predicate is exact: what it excludes does make the models raise -/
example : Jira.render ⟨[.blankLine 1], []⟩ = .err .key ∧ XWiki.render ⟨[.paragraph [.math "$x$".toList] 1], []⟩ = .err .key ∧
    XWiki.render ⟨[.table [] [.paragraph [] 1] [] 1], []⟩ = .err .type := by decide +kernel

/-- the theorems applied: the hypotheses (configuration known, gas bound) are satisfiable -/
example : ∃ out, Config.renderJira 2000 "> - a\n>\n> b".toList = some out :=
  C01_jira_total (Config.jira.get (by decide +kernel)) (Option.some_get _).symm 2000 _ (by decide +kernel)
example : ∃ out, Config.renderXWiki 2000 "> - a\n>\n> b".toList = some out :=
  C01_xwiki_total (Config.xwiki.get (by decide +kernel)) (Option.some_get _).symm 2000 _ (by decide +kernel)

end Mistletoe.Props.C01
