/-
  The inline core (`Mistletoe.Core`, the model of mistletoe/core_tokens.py) is total, and the shape
  of the emphasis matches it returns.  Property theorems are in Props/C06.lean.

  * `Chain lo hi ds`: the delimiter stack is well formed (`type`/`number` in step, not empty),
    ordered, disjoint, inside `[lo, hi]`.  `emphStep`/`emphLoop_succ` isolate one iteration of the
    `process_emphasis` loop, `emphStep_spec` shows it cannot raise under the invariant and describes
    it as a `StepRel` on the decomposed list; `StepRel.chain`, `StepRel.measure` give preservation
    and the decreasing measure, `emphLoop_inv` the loop (no error, fuel suffices) for any invariant
    kept by `StepRel`.
  * `codeSearch_spec`, `matchLinkImage_stop`: matches are not empty and lie inside the string, so the
    character loop advances; `LoopInv`/`FInv`/`coreLoop_inv` carry an abstract invariant through
    the character loop (`len(s) + 1 - i` iterations suffice from position `i`).
  * `DInv` adds the geometry and nesting of the emphasis matches, `CInv` their delimiter characters
    (emphasis delimiters are runs of `*` or `_` in the source), `GInv` that adjacent delimiters are
    never runs of the same character, hence that emphasis content is not empty.  `loopInv_ginv`
    instantiates the abstract loop invariant with `GInv`.
  * Results: `findCoreTokens_ok`, `tokenizeInner_ok`, `emphasis_wellformed`, `emphasis_nested`,
    `emphasis_chars`.
-/
import Mistletoe.Model.Core
import Mistletoe.Model.Inline
namespace Mistletoe.Core
open Mistletoe Mistletoe.Py Mistletoe.Scan Mistletoe.InlineScan
set_option linter.unusedVariables false

/-! ### the delimiter invariant -/

/-- `type` and `number` are in step, the delimiter is not empty, and `number` is its width. -/
structure DelimOK (d : Delim) : Prop where
  len : d.type.length = d.number
  pos : 1 ≤ d.number
  span : d.start + d.number = d.stop

/-- `Chain lo hi ds`: the delimiters are well formed, ordered, pairwise disjoint and inside `[lo, hi]`. -/
def Chain : Nat → Nat → List Delim → Prop
  | lo, hi, [] => lo ≤ hi
  | lo, hi, d :: rest => lo ≤ d.start ∧ DelimOK d ∧ Chain d.stop hi rest

/-- number of delimiter characters still on the stack -/
def total : List Delim → Nat
  | [] => 0
  | d :: rest => d.number + total rest

theorem Chain.le : ∀ {ds : List Delim} {lo hi : Nat}, Chain lo hi ds → lo ≤ hi
  | [], _, _, h => h
  | d :: rest, lo, hi, h => by
    have := Chain.le h.2.2
    have := h.2.1.span
    have := h.1
    omega

theorem Chain.mono : ∀ {ds : List Delim} {lo hi lo' hi' : Nat}, lo' ≤ lo → hi ≤ hi' → Chain lo hi ds → Chain lo' hi' ds
  | [], _, _, _, _, h1, h2, h => by simp only [Chain] at h ⊢; omega
  | d :: rest, _, _, _, _, h1, h2, h => ⟨Nat.le_trans h1 h.1, h.2.1, Chain.mono (Nat.le_refl _) h2 h.2.2⟩

theorem Chain.join : ∀ {A B : List Delim} {lo mid hi : Nat}, Chain lo mid A → Chain mid hi B → Chain lo hi (A ++ B)
  | [], B, lo, mid, hi, hA, hB => Chain.mono hA (Nat.le_refl _) hB
  | d :: A, B, lo, mid, hi, hA, hB => ⟨hA.1, hA.2.1, Chain.join hA.2.2 hB⟩

theorem Chain.split : ∀ {A B : List Delim} {lo hi : Nat}, Chain lo hi (A ++ B) → ∃ mid, Chain lo mid A ∧ Chain mid hi B
  | [], B, lo, hi, h => ⟨lo, Nat.le_refl _, h⟩
  | d :: A, B, lo, hi, h => by
    obtain ⟨mid, h1, h2⟩ := Chain.split (A := A) (B := B) h.2.2
    exact ⟨mid, ⟨h.1, h.2.1, h1⟩, h2⟩

theorem Chain.total_le : ∀ {ds : List Delim} {lo hi : Nat}, Chain lo hi ds → lo + total ds ≤ hi
  | [], _, _, h => by simp only [Chain] at h; simp only [total]; omega
  | d :: rest, lo, hi, h => by
    have := Chain.total_le h.2.2
    have := h.2.1.span
    have := h.1
    simp only [total]; omega

theorem Chain.mem : ∀ {ds : List Delim} {lo hi : Nat}, Chain lo hi ds → ∀ d ∈ ds, DelimOK d ∧ lo ≤ d.start ∧ d.stop ≤ hi
  | [], _, _, _, d, hd => by cases hd
  | e :: rest, lo, hi, h, d, hd => by
    rcases List.mem_cons.1 hd with rfl | hd
    · exact ⟨h.2.1, h.1, Chain.le h.2.2⟩
    · have h3 := Chain.mem h.2.2 d hd
      have := h.2.1.span
      have := h.1
      exact ⟨h3.1, by omega, h3.2.2⟩

theorem Chain.take {ds : List Delim} {lo hi : Nat} (h : Chain lo hi ds) (k : Nat) : Chain lo hi (ds.take k) := by
  rw [← List.take_append_drop k ds] at h
  obtain ⟨mid, h1, h2⟩ := Chain.split h
  exact Chain.mono (Nat.le_refl _) (Chain.le h2) h1

theorem Chain.drop {ds : List Delim} {lo hi : Nat} (h : Chain lo hi ds) (k : Nat) : Chain lo hi (ds.drop k) := by
  rw [← List.take_append_drop k ds] at h
  obtain ⟨mid, h1, h2⟩ := Chain.split h
  exact Chain.mono (Chain.le h1) (Nat.le_refl _) h2

theorem Chain.eraseIdx {ds : List Delim} {lo hi : Nat} (h : Chain lo hi ds) (k : Nat) : Chain lo hi (ds.eraseIdx k) := by
  rw [List.eraseIdx_eq_take_drop_succ]
  rw [← List.take_append_drop k ds] at h
  obtain ⟨mid, h1, h2⟩ := Chain.split h
  refine Chain.join h1 ?_
  have := Chain.drop h2 1
  rwa [List.drop_drop] at this

theorem total_append (A B : List Delim) : total (A ++ B) = total A + total B := by
  induction A with
  | nil => simp [total]
  | cons d A ih => simp only [List.cons_append, total, ih]; omega

theorem total_eraseIdx_le (ds : List Delim) (k : Nat) : total (ds.eraseIdx k) ≤ total ds := by
  induction ds generalizing k with
  | nil => simp
  | cons d ds ih =>
    cases k with
    | zero => simp only [List.eraseIdx_cons_zero, total]; omega
    | succ k => simp only [List.eraseIdx_cons_succ, total]; have := ih k; omega

/-- two positions of a list give a decomposition of it -/
theorem split_two {α} (ds : List α) (i j : Nat) (a b : α) (hi : ds[i]? = some a) (hj : ds[j]? = some b) (hij : i < j) :
    ∃ A B C, ds = A ++ a :: (B ++ b :: C) ∧ A.length = i ∧ i + 1 + B.length = j := by
  have hil : i < ds.length := (List.getElem?_eq_some_iff.1 hi).1
  have hjl : j < ds.length := (List.getElem?_eq_some_iff.1 hj).1
  refine ⟨ds.take i, (ds.drop (i + 1)).take (j - (i + 1)), ds.drop (j + 1), ?_, ?_, ?_⟩
  · have h1 : ds = ds.take i ++ a :: ds.drop (i + 1) := by
      have := List.getElem_cons_drop (as := ds) (i := i) hil
      rw [(List.getElem?_eq_some_iff.1 hi).2] at this
      rw [this, List.take_append_drop]
    have hj' : (ds.drop (i + 1))[j - (i + 1)]? = some b := by
      rw [List.getElem?_drop]; rw [← hj]; congr 1; omega
    have hjl' : j - (i + 1) < (ds.drop (i + 1)).length := (List.getElem?_eq_some_iff.1 hj').1
    have h2 : ds.drop (i + 1) = (ds.drop (i + 1)).take (j - (i + 1)) ++ b :: ds.drop (j + 1) := by
      have := List.getElem_cons_drop (as := ds.drop (i + 1)) (i := j - (i + 1)) hjl'
      rw [(List.getElem?_eq_some_iff.1 hj').2] at this
      rw [List.drop_drop] at this
      have e : i + 1 + (j - (i + 1) + 1) = j + 1 := by omega
      rw [e] at this
      rw [this, List.take_append_drop]
    rw [← h2]; exact h1
  · simp; omega
  · simp; omega

/-! ### `next_closer`, `closed_by`, `matching_opener` -/

theorem nextCloser_go_spec : ∀ (l : List Delim) (i k : Nat), nextCloser.go l i = some k →
    i ≤ k ∧ ∃ d, l[k - i]? = some d ∧ d.emph = true ∧ d.closes = true
  | [], _, _, h => by simp [nextCloser.go] at h
  | d :: rest, i, k, h => by
    simp only [nextCloser.go] at h
    split at h
    · rename_i hc
      simp only [Bool.and_eq_true] at hc
      cases h
      exact ⟨Nat.le_refl _, d, by simp, hc.1, hc.2⟩
    · obtain ⟨h1, d', h2, h3⟩ := nextCloser_go_spec rest (i + 1) k h
      refine ⟨by omega, d', ?_, h3⟩
      have : k - i = (k - (i + 1)) + 1 := by omega
      rw [this, List.getElem?_cons_succ]; exact h2

theorem nextCloser_spec (from_ : Nat) (ds : List Delim) (k : Nat) (h : nextCloser from_ ds = some k) :
    from_ ≤ k ∧ ∃ d, ds[k]? = some d ∧ d.emph = true ∧ d.closes = true := by
  obtain ⟨h1, d, h2, h3⟩ := nextCloser_go_spec _ _ _ h
  refine ⟨h1, d, ?_, h3⟩
  rw [List.getElem?_drop] at h2
  rw [← h2]; congr 1; omega

theorem closedBy_ok (d c : Delim) (hd : d.type ≠ []) (hc : c.type ≠ []) : ∃ b, closedBy d c = .ok b := by
  unfold closedBy
  cases h1 : d.type with
  | nil => exact absurd h1 hd
  | cons a _ =>
    cases h2 : c.type with
    | nil => exact absurd h2 hc
    | cons b _ =>
      simp only [List.head?_cons]
      split
      · exact ⟨_, rfl⟩
      · split <;> exact ⟨_, rfl⟩

theorem closedBy_true_head (d c : Delim) (h : closedBy d c = .ok true) : d.type.head? = c.type.head? ∧ d.type ≠ [] := by
  unfold closedBy at h
  cases h1 : d.type with
  | nil => simp [h1] at h
  | cons a _ =>
    cases h2 : c.type with
    | nil => simp [h1, h2] at h
    | cons b _ =>
      simp only [h1, h2, List.head?_cons] at h
      split at h
      · cases h
      · rename_i hab
        simp at hab
        simp [hab]

theorem matchingOpener_go_spec (ds : List Delim) (closer : Delim) (lo : Nat)
    (hne : closer.type ≠ []) (hall : ∀ d ∈ ds, d.emph = true → d.type ≠ []) :
    ∀ (n idx : Nat), matchingOpener.go ds closer lo n idx = .ok none ∨
      ∃ o d, matchingOpener.go ds closer lo n idx = .ok (some o) ∧ o ≤ idx ∧ ds[o]? = some d ∧
        d.emph = true ∧ d.opens = true ∧ closedBy d closer = .ok true
  | 0, idx => by left; simp [matchingOpener.go]
  | n + 1, idx => by
    simp only [matchingOpener.go]
    split
    · left; rfl
    · cases hd : ds[idx]? with
      | none => left; rfl
      | some d =>
        simp only
        have rec_ : (if idx = 0 then Res.ok none else matchingOpener.go ds closer lo n (idx - 1)) = .ok none ∨
            ∃ o d, (if idx = 0 then Res.ok none else matchingOpener.go ds closer lo n (idx - 1)) = .ok (some o) ∧ o ≤ idx ∧ ds[o]? = some d ∧
              d.emph = true ∧ d.opens = true ∧ closedBy d closer = .ok true := by
          split
          · left; rfl
          · rcases matchingOpener_go_spec ds closer lo hne hall n (idx - 1) with h | ⟨o, d, h1, h2, h3⟩
            · left; exact h
            · right; exact ⟨o, d, h1, by omega, h3⟩
        split
        · rename_i heo
          simp only [Bool.and_eq_true] at heo
          have hmem : d ∈ ds := List.mem_of_getElem? hd
          obtain ⟨b, hb⟩ := closedBy_ok d closer (hall d hmem heo.1) hne
          rw [hb]
          cases b with
          | true => right; exact ⟨idx, d, rfl, Nat.le_refl _, hd, heo.1, heo.2, hb⟩
          | false => exact rec_
        · exact rec_

theorem matchingOpener_spec (ds : List Delim) (curr : Nat) (bottom : Option Nat) (closer : Delim)
    (h : ds[curr]? = some closer) (hne : closer.type ≠ []) (hall : ∀ d ∈ ds, d.emph = true → d.type ≠ []) :
    matchingOpener curr ds bottom = .ok none ∨
      ∃ o d, matchingOpener curr ds bottom = .ok (some o) ∧ o < curr ∧ ds[o]? = some d ∧
        d.emph = true ∧ d.opens = true ∧ closedBy d closer = .ok true := by
  unfold matchingOpener
  split
  · left; rfl
  · rw [h]
    simp only
    rcases matchingOpener_go_spec ds closer _ hne hall curr (curr - 1) with h1 | ⟨o, d, h1, h2, h3⟩
    · left; exact h1
    · right; exact ⟨o, d, h1, by omega, h3⟩

/-! ### one iteration of the `process_emphasis` loop -/

/-- what is left of a delimiter after `remove(n, left)`, as a list of zero or one delimiters -/
def shrink (d : Delim) (n : Nat) (left : Bool) : List Delim := (delimRemove d n left).toList

/-- the match `process_emphasis` records for `opener`/`closer` -/
def emphMatch (opener closer : Delim) (n : Nat) (dch : Char) : CoreM :=
  { start := opener.stop - n, stop := closer.start + n, kind := if n = 2 then .strong else .emphasis,
    ts := opener.stop - n + n, te := closer.start + n - n, dest := [], title := [], delimiter := dch }

def emphN (opener closer : Delim) : Nat := if closer.number ≥ 2 && opener.number ≥ 2 then 2 else 1

/-- body of `emphLoop` for `curr_pos = curr`: new state and the next `curr_pos` -/
def emphStep (s : Str) (stackBottom : Option Nat) (st : EState) (curr : Nat) : Res (EState × Option Nat) :=
  match st.ds[curr]? with
  | none => .err .index
  | some closer =>
    match closer.type.head? with
    | none => .err .index
    | some ch =>
      let key : BKey := (ch, closer.opens, closer.runLength % 3)
      let bottom := bottomsGet st.bottoms key stackBottom
      match matchingOpener curr st.ds bottom with
      | .err e => .err e
      | .ok (some openPos) =>
        (match st.ds[openPos]? with
         | none => .err .index
         | some opener =>
           let n := if closer.number ≥ 2 && opener.number ≥ 2 then 2 else 1
           let start := opener.stop - n
           let stop := closer.start + n
           match s[start]? with
           | none => .err .index
           | some dch =>
             let m : CoreM := { start := start, stop := stop, kind := if n = 2 then .strong else .emphasis,
                                ts := start + n, te := stop - n, dest := [], title := [], delimiter := dch }
             let ds1 := st.ds.take (openPos + 1) ++ st.ds.drop curr
             let bottoms1 := st.bottoms.map (fun e =>
               match e.2 with
               | some b => if b ≥ openPos then (e.1, if openPos > 0 then some (openPos - 1) else stackBottom) else e
               | none => e)
             let (ds2, curr2) : List Delim × Nat :=
               match delimRemove opener n false with
               | some o' => (ds1.set openPos o', openPos + 1)
               | none => (ds1.eraseIdx openPos, openPos)
             let ds3 := match delimRemove closer n true with
               | some c' => ds2.set curr2 c'
               | none => ds2.eraseIdx curr2
             .ok ({ ds := ds3, ms := m :: st.ms, bottoms := bottoms1 }, nextCloser curr2 ds3))
      | .ok none =>
        let bottoms1 := bottomsSet st.bottoms key (if curr > 0 then some (curr - 1) else stackBottom)
        if !closer.opens then
          let ds1 := st.ds.eraseIdx curr
          .ok ({ st with ds := ds1, bottoms := bottoms1 }, nextCloser curr ds1)
        else
          .ok ({ st with bottoms := bottoms1 }, nextCloser (curr + 1) st.ds)

theorem emphLoop_succ (s : Str) (sb : Option Nat) (fuel : Nat) (st : EState) (curr : Nat) :
    emphLoop s sb (fuel + 1) st (some curr) =
      match emphStep s sb st curr with
      | .err e => .err e
      | .ok (st', c') => emphLoop s sb fuel st' c' := by
  rw [emphLoop, emphStep]
  cases st.ds[curr]? with
  | none => rfl
  | some closer =>
    simp only
    cases closer.type.head? with
    | none => rfl
    | some ch =>
      simp only
      cases matchingOpener curr st.ds (bottomsGet st.bottoms (ch, closer.opens, closer.runLength % 3) sb) with
      | err e => rfl
      | ok r =>
        cases r with
        | none =>
          simp only
          split <;> rfl
        | some openPos =>
          simp only
          cases st.ds[openPos]? with
          | none => rfl
          | some opener =>
            simp only
            generalize s[opener.stop - (if (closer.number ≥ 2 && opener.number ≥ 2) = true then 2 else 1)]? = x
            cases x <;> rfl

theorem take_drop_two {α} (A B C : List α) (o c : α) :
    (A ++ o :: (B ++ c :: C)).take (A.length + 1) ++ (A ++ o :: (B ++ c :: C)).drop (A.length + 1 + B.length) = A ++ o :: c :: C := by
  have h1 : (A ++ o :: (B ++ c :: C)).take (A.length + 1) = A ++ [o] := by
    rw [List.take_append]; simp [List.take_of_length_le]
  have h2 : (A ++ o :: (B ++ c :: C)).drop (A.length + 1 + B.length) = c :: C := by
    rw [Nat.add_assoc, ← List.drop_drop, List.drop_left, Nat.add_comm, ← List.drop_drop]
    simp
  rw [h1, h2]; simp

theorem erase_mid {α} (A X : List α) (o : α) : (A ++ o :: X).eraseIdx A.length = A ++ X := by
  rw [List.eraseIdx_append_of_length_le (Nat.le_refl _)]; simp

theorem erase_mid1 {α} (A X : List α) (o c : α) : (A ++ o :: c :: X).eraseIdx (A.length + 1) = A ++ o :: X := by
  rw [List.eraseIdx_append_of_length_le (Nat.le_add_right _ _)]; simp

/-- One iteration of the loop, on the decomposed delimiter list.  The last component is the
    position from which `next_closer` searches. -/
inductive StepRel (s : Str) : List Delim → List CoreM → Nat → List Delim → List CoreM → Nat → Prop
  | matched (A B C : List Delim) (o c : Delim) (ms : List CoreM) (dch : Char) :
      o.emph = true → o.opens = true → c.emph = true → c.closes = true → closedBy o c = .ok true →
      s[o.stop - emphN o c]? = some dch →
      StepRel s (A ++ o :: (B ++ c :: C)) ms (A.length + 1 + B.length)
        (A ++ (shrink o (emphN o c) false ++ (shrink c (emphN o c) true ++ C)))
        (emphMatch o c (emphN o c) dch :: ms) (A.length + (shrink o (emphN o c) false).length)
  | erased (ds : List Delim) (ms : List CoreM) (curr : Nat) (c : Delim) :
      ds[curr]? = some c → StepRel s ds ms curr (ds.eraseIdx curr) ms curr
  | skipped (ds : List Delim) (ms : List CoreM) (curr : Nat) (c : Delim) :
      ds[curr]? = some c → StepRel s ds ms curr ds ms (curr + 1)

/-- the re-indexing of a recorded bottom after a match whose opener is at position `o` -/
def remap (o : Nat) (sb : Option Nat) (e : BKey × Option Nat) : BKey × Option Nat :=
  match e.2 with
  | some b => if b ≥ o then (e.1, if o > 0 then some (o - 1) else sb) else e
  | none => e

/-- what one iteration does to `bottoms` (and the little of the delimiter list that matters for
    them): no opener found, or an opener found at position `o` -/
def BRel (sb : Option Nat) (ds : List Delim) (bs : List (BKey × Option Nat)) (curr : Nat) (closer : Delim)
    (ds' : List Delim) (bs' : List (BKey × Option Nat)) (from' : Nat) : Prop :=
  (∃ ch, closer.type.head? = some ch ∧
    matchingOpener curr ds (bottomsGet bs (ch, closer.opens, closer.runLength % 3) sb) = .ok none ∧
    bs' = bottomsSet bs (ch, closer.opens, closer.runLength % 3) (if curr > 0 then some (curr - 1) else sb) ∧
    curr ≤ from' ∧ (ds' = ds.eraseIdx curr ∨ ds' = ds)) ∨
  (∃ ch o, closer.type.head? = some ch ∧
    matchingOpener curr ds (bottomsGet bs (ch, closer.opens, closer.runLength % 3) sb) = .ok (some o) ∧ o < curr ∧
    bs' = bs.map (remap o sb) ∧ ds'.take o = ds.take o ∧ o ≤ from')

theorem emphStep_spec_b (s : Str) (sb : Option Nat) (st : EState) (curr : Nat) (closer : Delim)
    (hall : ∀ d ∈ st.ds, DelimOK d ∧ d.stop ≤ s.length)
    (hc : st.ds[curr]? = some closer) (he : closer.emph = true) (hcl : closer.closes = true) :
    ∃ ds' ms' bs' from', emphStep s sb st curr = .ok ({ ds := ds', ms := ms', bottoms := bs' }, nextCloser from' ds') ∧
      StepRel s st.ds st.ms curr ds' ms' from' ∧ BRel sb st.ds st.bottoms curr closer ds' bs' from' := by
  have hcm : closer ∈ st.ds := List.mem_of_getElem? hc
  have hcOK := (hall closer hcm).1
  have hne : closer.type ≠ [] := by
    intro h; have := hcOK.len; have := hcOK.pos; rw [h] at *; simp at *; omega
  have hall' : ∀ d ∈ st.ds, d.emph = true → d.type ≠ [] := by
    intro d hd _ h
    have h1 := (hall d hd).1
    have := h1.len; have := h1.pos; rw [h] at *; simp at *; omega
  unfold emphStep
  rw [hc]
  simp only
  cases hh : closer.type.head? with
  | none => rw [List.head?_eq_none_iff] at hh; exact absurd hh hne
  | some ch =>
    simp only
    rcases matchingOpener_spec st.ds curr (bottomsGet st.bottoms (ch, closer.opens, closer.runLength % 3) sb) closer hc hne hall'
      with h | ⟨o, d, h, hlt, hd, hde, hdo, hcb⟩
    · rw [h]
      simp only
      split
      · exact ⟨_, _, _, _, rfl, StepRel.erased _ _ _ closer hc,
          Or.inl ⟨ch, hh, h, rfl, Nat.le_refl _, Or.inl rfl⟩⟩
      · exact ⟨_, _, _, _, rfl, StepRel.skipped _ _ _ closer hc,
          Or.inl ⟨ch, hh, h, rfl, Nat.le_succ _, Or.inr rfl⟩⟩
    · rw [h]
      simp only
      rw [hd]
      simp only
      have hdm : d ∈ st.ds := List.mem_of_getElem? hd
      have hdOK := hall d hdm
      have hn : 1 ≤ emphN d closer := by unfold emphN; split <;> omega
      have hlt' : d.stop - emphN d closer < s.length := by
        have := hdOK.1.span; have := hdOK.1.pos; have := hdOK.2; omega
      obtain ⟨dch, hdch⟩ : ∃ dch, s[d.stop - emphN d closer]? = some dch :=
        ⟨s[d.stop - emphN d closer], List.getElem?_eq_getElem hlt'⟩
      obtain ⟨A, B, C, hds, hA, hB⟩ := split_two st.ds o curr d closer hd hc hlt
      have hN : (if (decide (closer.number ≥ 2) && decide (d.number ≥ 2)) = true then 2 else 1) = emphN d closer := rfl
      simp only [hN]
      rw [hdch]
      simp only
      subst hA
      subst hB
      have hbrel : ∀ (X : List Delim) (k : Nat), A.length ≤ k →
          BRel sb st.ds st.bottoms (A.length + 1 + B.length) closer (A ++ X)
            (st.bottoms.map (remap A.length sb)) k := by
        intro X k hk
        refine Or.inr ⟨ch, A.length, hh, h, hlt, rfl, ?_, hk⟩
        rw [hds]; simp
      rw [hds, take_drop_two]
      have hrel := StepRel.matched (s := s) A B C d closer st.ms dch hde hdo he hcl hcb hdch
      have hm : ({ start := d.stop - emphN d closer, stop := closer.start + emphN d closer,
                   kind := if emphN d closer = 2 then Kind.strong else Kind.emphasis,
                   ts := d.stop - emphN d closer + emphN d closer, te := closer.start + emphN d closer - emphN d closer,
                   dest := [], title := [], delimiter := dch } : CoreM) = emphMatch d closer (emphN d closer) dch := rfl
      rw [hm]
      have set_mid : ∀ (X : List Delim) (a b : Delim), (A ++ a :: X).set A.length b = A ++ b :: X := by
        intro X a b; simp
      have set_mid1 : ∀ (X : List Delim) (a b c : Delim), (A ++ a :: b :: X).set (A.length + 1) c = A ++ a :: c :: X := by
        intro X a b c; simp
      cases ho : delimRemove d (emphN d closer) false with
      | none =>
        cases hcr : delimRemove closer (emphN d closer) true with
        | none =>
          simp only [erase_mid]
          refine ⟨_, _, _, _, rfl, ?_, hds ▸ hbrel _ _ (Nat.le_refl _)⟩
          simpa [shrink, ho, hcr] using hrel
        | some c' =>
          simp only [erase_mid, set_mid]
          refine ⟨_, _, _, _, rfl, ?_, hds ▸ hbrel _ _ (Nat.le_refl _)⟩
          simpa [shrink, ho, hcr] using hrel
      | some o' =>
        cases hcr : delimRemove closer (emphN d closer) true with
        | none =>
          simp only [erase_mid1, set_mid]
          refine ⟨_, _, _, _, rfl, ?_, hds ▸ hbrel _ _ (Nat.le_succ _)⟩
          simpa [shrink, ho, hcr] using hrel
        | some c' =>
          simp only [set_mid1, set_mid]
          refine ⟨_, _, _, _, rfl, ?_, hds ▸ hbrel _ _ (Nat.le_succ _)⟩
          simpa [shrink, ho, hcr] using hrel

theorem emphStep_spec (s : Str) (sb : Option Nat) (st : EState) (curr : Nat) (closer : Delim)
    (hall : ∀ d ∈ st.ds, DelimOK d ∧ d.stop ≤ s.length)
    (hc : st.ds[curr]? = some closer) (he : closer.emph = true) (hcl : closer.closes = true) :
    ∃ ds' ms' bs' from', emphStep s sb st curr = .ok ({ ds := ds', ms := ms', bottoms := bs' }, nextCloser from' ds') ∧
      StepRel s st.ds st.ms curr ds' ms' from' := by
  obtain ⟨ds', ms', bs', from', h1, h2, _⟩ := emphStep_spec_b s sb st curr closer hall hc he hcl
  exact ⟨ds', ms', bs', from', h1, h2⟩

/-! ### `Delimiter.remove` keeps the invariant -/

theorem emphN_bounds (o c : Delim) (ho : DelimOK o) (hc : DelimOK c) :
    1 ≤ emphN o c ∧ emphN o c ≤ 2 ∧ emphN o c ≤ o.number ∧ emphN o c ≤ c.number := by
  have := ho.pos; have := hc.pos
  unfold emphN
  split
  · rename_i h; simp only [Bool.and_eq_true, decide_eq_true_eq] at h; omega
  · omega

theorem shrink_spec (d : Delim) (n : Nat) (left : Bool) (hd : DelimOK d) (h1 : 1 ≤ n) (hn : n ≤ d.number) :
    (shrink d n left = [] ∧ d.number = n) ∨
    ∃ d', shrink d n left = [d'] ∧ DelimOK d' ∧ d'.number + n = d.number ∧
      d'.start = (if left then d.start + n else d.start) ∧ d'.stop = (if left then d.stop else d.stop - n) ∧
      d'.emph = d.emph ∧ d'.opens = d.opens ∧ d'.closes = d.closes ∧ d'.runLength = d.runLength ∧
      d'.type = d.type.drop n := by
  have := hd.len; have := hd.pos; have := hd.span
  unfold shrink delimRemove
  by_cases he : d.number = n
  · left; simp [he]
  · right
    simp only [he, if_false]
    cases left with
    | true =>
      refine ⟨_, rfl, ⟨?_, ?_, ?_⟩, ?_, ?_⟩ <;> simp <;> omega
    | false =>
      refine ⟨_, rfl, ⟨?_, ?_, ?_⟩, ?_, ?_⟩ <;> simp <;> omega

theorem StepRel.chain {s : Str} {ds ms curr ds' ms' from'} (h : StepRel s ds ms curr ds' ms' from')
    {lo hi : Nat} (hC : Chain lo hi ds) : Chain lo hi ds' := by
  cases h with
  | erased _ _ _ c hc => exact hC.eraseIdx _
  | skipped _ _ _ c hc => exact hC
  | matched A B C o c _ dch hoe hoo hce hcc hcb hs =>
    obtain ⟨m1, hA, h1⟩ := Chain.split hC
    obtain ⟨hm1, hoOK, h2⟩ := h1
    obtain ⟨m2, hB, h3⟩ := Chain.split h2
    obtain ⟨hm2, hcOK, hCC⟩ := h3
    have hm2' := Chain.le hB
    have := hoOK.span; have := hcOK.span
    obtain ⟨hn1, hn2, hn3, hn4⟩ := emphN_bounds o c hoOK hcOK
    refine Chain.join hA ?_
    rcases shrink_spec o (emphN o c) false hoOK hn1 hn3 with ⟨e1, _⟩ | ⟨o', e1, hOK1, hnum1, hst1, hsp1, _⟩ <;>
    rcases shrink_spec c (emphN o c) true hcOK hn1 hn4 with ⟨e2, _⟩ | ⟨c', e2, hOK2, hnum2, hst2, hsp2, _⟩ <;>
    rw [e1, e2] <;> simp only [List.nil_append, List.cons_append, if_true, Bool.false_eq_true, if_false] at *
    · exact Chain.mono (by omega) (Nat.le_refl _) hCC
    · exact ⟨by omega, hOK2, by rw [hsp2]; exact hCC⟩
    · exact ⟨by omega, hOK1, Chain.mono (by omega) (Nat.le_refl _) hCC⟩
    · exact ⟨by omega, hOK1, by omega, hOK2, by rw [hsp2]; exact hCC⟩

theorem StepRel.measure {s : Str} {ds ms curr ds' ms' from'} (h : StepRel s ds ms curr ds' ms' from')
    {lo hi : Nat} (hC : Chain lo hi ds) :
    total ds' + (ds'.length - from') < total ds + (ds.length - curr) := by
  cases h with
  | erased _ _ _ c hc =>
    have hl := (List.getElem?_eq_some_iff.1 hc).1
    have := total_eraseIdx_le ds curr
    rw [List.length_eraseIdx_of_lt hl]; omega
  | skipped _ _ _ c hc =>
    have hl := (List.getElem?_eq_some_iff.1 hc).1
    omega
  | matched A B C o c _ dch hoe hoo hce hcc hcb hs =>
    obtain ⟨m1, hA, h1⟩ := Chain.split hC
    obtain ⟨hm1, hoOK, h2⟩ := h1
    obtain ⟨m2, hB, h3⟩ := Chain.split h2
    obtain ⟨hm2, hcOK, hCC⟩ := h3
    obtain ⟨hn1, hn2, hn3, hn4⟩ := emphN_bounds o c hoOK hcOK
    rcases shrink_spec o (emphN o c) false hoOK hn1 hn3 with ⟨e1, _⟩ | ⟨o', e1, hOK1, hnum1, _⟩ <;>
    rcases shrink_spec c (emphN o c) true hcOK hn1 hn4 with ⟨e2, _⟩ | ⟨c', e2, hOK2, hnum2, _⟩ <;>
    rw [e1, e2] <;>
    simp only [total_append, total, List.length_append, List.length_cons, List.length_nil, List.nil_append, List.cons_append] <;>
    omega

/-! ### the loop: no error, fuel suffices, invariants carried through -/

/-- iterations still possible: delimiter characters left plus delimiters at or after `curr_pos` -/
def emphMeasure (ds : List Delim) : Option Nat → Nat
  | none => 0
  | some k => total ds + (ds.length - k)

/-- `curr_pos` is `None` or the position of an emphasis delimiter that can close -/
def CurrOK (ds : List Delim) (c : Option Nat) : Prop :=
  ∀ k, c = some k → ∃ d, ds[k]? = some d ∧ d.emph = true ∧ d.closes = true

theorem CurrOK_nextCloser (from_ : Nat) (ds : List Delim) : CurrOK ds (nextCloser from_ ds) :=
  fun k hk => (nextCloser_spec from_ ds k hk).2

theorem emphMeasure_nextCloser (from_ : Nat) (ds : List Delim) :
    emphMeasure ds (nextCloser from_ ds) ≤ total ds + (ds.length - from_) := by
  cases h : nextCloser from_ ds with
  | none => simp [emphMeasure]
  | some k => have := (nextCloser_spec from_ ds k h).1; simp only [emphMeasure]; omega

/-- Any property of (delimiters, matches) that implies the chain invariant and is kept by every
    iteration holds when the loop ends; the loop ends without error within `fuel`. -/
theorem emphLoop_inv (s : Str) (sb : Option Nat) (lo hi : Nat) (hhi : hi ≤ s.length)
    (P : List Delim → List CoreM → Prop)
    (hPC : ∀ ds ms, P ds ms → Chain lo hi ds)
    (hP : ∀ ds ms curr ds' ms' from', P ds ms → StepRel s ds ms curr ds' ms' from' → P ds' ms') :
    ∀ (fuel : Nat) (st : EState) (c : Option Nat), P st.ds st.ms → CurrOK st.ds c → emphMeasure st.ds c < fuel →
      ∃ st', emphLoop s sb fuel st c = .ok st' ∧ P st'.ds st'.ms
  | 0, _, _, _, _, h => by omega
  | fuel + 1, st, none, hp, _, _ => ⟨st, by simp [emphLoop], hp⟩
  | fuel + 1, st, some curr, hp, hc, hf => by
    obtain ⟨closer, hcl, he, hcc⟩ := hc curr rfl
    have hC := hPC _ _ hp
    have hall : ∀ d ∈ st.ds, DelimOK d ∧ d.stop ≤ s.length := by
      intro d hd
      have := hC.mem d hd
      exact ⟨this.1, by omega⟩
    obtain ⟨ds', ms', bs', from', hstep, hrel⟩ := emphStep_spec s sb st curr closer hall hcl he hcc
    rw [emphLoop_succ, hstep]
    simp only
    have hm := hrel.measure hC
    have hm2 := emphMeasure_nextCloser from' ds'
    simp only [emphMeasure] at hf
    exact emphLoop_inv s sb lo hi hhi P hPC hP fuel _ _ (hP _ _ _ _ _ _ hp hrel) (CurrOK_nextCloser _ _) (by simp only; omega)

theorem processEmphasis_inv (s : Str) (sb : Option Nat) (lo hi : Nat) (hhi : hi ≤ s.length)
    (P : List Delim → List CoreM → Prop)
    (hPC : ∀ ds ms, P ds ms → Chain lo hi ds)
    (hP : ∀ ds ms curr ds' ms' from', P ds ms → StepRel s ds ms curr ds' ms' from' → P ds' ms')
    (ds : List Delim) (ms : List CoreM) (h : P ds ms) :
    ∃ ds' ms', P ds' ms' ∧
      processEmphasis s sb ds ms = .ok (match sb with | none => [] | some b => ds'.take b, ms') := by
  have hC := hPC _ _ h
  have hm : emphMeasure ds (nextCloser (sb.getD 0) ds) < 2 * s.length + 2 * ds.length + 4 := by
    have := emphMeasure_nextCloser (sb.getD 0) ds
    have := hC.total_le
    omega
  obtain ⟨st', h1, h2⟩ := emphLoop_inv s sb lo hi hhi P hPC hP _ { ds := ds, ms := ms, bottoms := [] } _ h
    (CurrOK_nextCloser _ _) hm
  refine ⟨st'.ds, st'.ms, h2, ?_⟩
  unfold processEmphasis
  simp only at h1
  rw [h1]
  rfl

theorem processEmphasis_ok (s : Str) (sb : Option Nat) (lo hi : Nat) (hhi : hi ≤ s.length)
    (ds : List Delim) (ms : List CoreM) (h : Chain lo hi ds) :
    ∃ ds' ms', processEmphasis s sb ds ms = .ok (ds', ms') ∧ Chain lo hi ds' := by
  obtain ⟨ds', ms', h1, h2⟩ := processEmphasis_inv s sb lo hi hhi (fun ds _ => Chain lo hi ds)
    (fun _ _ h => h) (fun _ _ _ _ _ _ h hr => hr.chain h) ds ms h
  refine ⟨_, _, h2, ?_⟩
  cases sb with
  | none => exact h1.le
  | some b => exact h1.take b

/-! ### `code_pattern.search`: a code match is not empty and lies inside the string -/

theorem countLeading_le (ch : Char) : ∀ (l : Str), countLeading ch l ≤ l.length
  | [] => by simp [countLeading]
  | c :: rest => by
    simp only [countLeading]
    split
    · have := countLeading_le ch rest; simp only [List.length_cons]; omega
    · omega

theorem closeRun_le (n : Nat) : ∀ (fuel j : Nat) (pt : Bool) (l : Str) (j' : Nat),
    closeRun n fuel j pt l = some j' → j' + n ≤ j + l.length
  | 0, _, _, _, _, h => by simp [closeRun] at h
  | fuel + 1, _, _, [], _, h => by simp [closeRun] at h
  | fuel + 1, j, pt, c :: rest, j', h => by
    simp only [closeRun] at h
    have hle := countLeading_le '`' (c :: rest)
    split at h
    · split at h
      · rename_i hr
        cases h
        omega
      · have := closeRun_le n fuel _ _ _ _ h
        simp only [List.length_drop] at this
        omega
    · have := closeRun_le n fuel _ _ _ _ h
      simp only [List.length_cons] at *
      omega

theorem codeAt_len (prev : Option Char) (r : Str) (len n gs ge : Nat) (h : codeAt prev r = some (len, n, gs, ge)) :
    0 < len ∧ len ≤ r.length := by
  unfold codeAt at h
  split at h
  · cases h
  · simp only at h
    split at h
    · cases h
    · split at h
      · cases h
      · rename_i hn
        split at h
        · rename_i j hj
          cases h
          have h1 := closeRun_le _ _ _ _ _ _ hj
          have h2 := countLeading_le '\\' r
          have h3 := countLeading_le '`' (r.drop (leadingBackslashes r))
          simp only [List.length_drop, leadingBackslashes] at *
          omega
        · cases h

theorem codeSearchAux_spec : ∀ (fuel pos : Nat) (prev : Option Char) (l : Str) (cm : CodeM),
    codeSearchAux fuel pos prev l = some cm → cm.start < cm.stop ∧ cm.stop ≤ pos + l.length
  | 0, _, _, _, _, h => by simp [codeSearchAux] at h
  | fuel + 1, _, _, [], _, h => by simp [codeSearchAux] at h
  | fuel + 1, pos, prev, c :: rest, cm, h => by
    simp only [codeSearchAux] at h
    split at h
    · rename_i len n gs ge hc
      cases h
      have := codeAt_len _ _ _ _ _ _ hc
      simp only at *
      omega
    · have := codeSearchAux_spec fuel _ _ _ _ h
      simp only [List.length_cons]
      omega

theorem codeSearch_spec (s : Str) (pos : Nat) (cm : CodeM) (h : codeSearch s pos = some cm) :
    cm.start < cm.stop ∧ cm.stop ≤ s.length := by
  unfold codeSearch at h
  have := codeSearchAux_spec _ _ _ _ _ h
  simp only [List.length_drop] at this
  by_cases hp : pos ≤ s.length
  · omega
  · have hd : s.drop pos = [] := List.drop_eq_nil_of_le (by omega)
    rw [hd] at h
    simp [codeSearchAux] at h

/-! ### `match_link_image`: the match ends after `offset` and inside the string -/

theorem destAngle_le (s : Str) (offset : Nat) : ∀ (l : Str) (i : Nat) (esc : Bool) (r : Nat × Nat × Str),
    destAngle s offset l i esc = some r → i ≤ r.2.1
  | [], _, _, _, h => by simp [destAngle] at h
  | c :: rest, i, esc, r, h => by
    simp only [destAngle] at h
    split at h
    · have := destAngle_le s offset rest _ _ _ h; omega
    · split at h
      · cases h
      · split at h
        · cases h; simp
        · have := destAngle_le s offset rest _ _ _ h; omega

theorem destPlain_le (s : Str) (offset : Nat) : ∀ (l : Str) (i : Nat) (esc : Bool) (cnt : Nat) (r : Nat × Nat × Str),
    destPlain s offset l i esc cnt = some r → i ≤ r.2.1
  | [], _, _, _, _, h => by simp [destPlain] at h
  | c :: rest, i, esc, cnt, r, h => by
    simp only [destPlain] at h
    split at h
    · have := destPlain_le s offset rest _ _ _ _ h; omega
    · split at h
      · cases h; simp
      · split at h
        · generalize (if c = '(' then cnt + 1 else if c = ')' then cnt - 1 else cnt) = cnt' at h
          split at h
          · cases h; simp
          · have := destPlain_le s offset rest _ _ _ _ h; omega
        · split at h
          · cases h
          · split at h
            · cases h; simp
            · have := destPlain_le s offset rest _ _ _ _ h; omega

theorem titleGo_le (s : Str) (offset : Nat) (cl : Char) : ∀ (l : Str) (i : Nat) (esc : Bool) (r : Nat × Nat × Str),
    titleGo s offset cl l i esc = some r → i ≤ r.2.1
  | [], _, _, _, h => by simp [titleGo] at h
  | c :: rest, i, esc, r, h => by
    simp only [titleGo] at h
    split at h
    · have := titleGo_le s offset cl rest _ _ _ h; omega
    · split at h
      · cases h; simp
      · have := titleGo_le s offset cl rest _ _ _ h; omega

theorem labelGo_spec (s : Str) (fn : Footnotes.Table) : ∀ (l : Str) (i : Nat) (st : Option Nat) (esc : Bool)
    (r : (Nat × Str) × (Str × Str)), labelGo s fn l i st esc = some r → i < r.1.1 ∧ r.1.1 ≤ i + l.length
  | [], _, _, _, _, h => by simp [labelGo] at h
  | c :: rest, i, st, esc, r, h => by
    simp only [labelGo] at h
    simp only [List.length_cons]
    split at h
    · have := labelGo_spec s fn rest _ _ _ _ h; omega
    · split at h
      · split at h
        · have := labelGo_spec s fn rest _ _ _ _ h; omega
        · cases h
      · split at h
        · cases st <;> simp only at h <;>
          · split at h
            · split at h
              · cases h; simp
              · cases h
            · cases h
        · have := labelGo_spec s fn rest _ _ _ _ h; omega

theorem shiftWhitespace_le (s : Str) (i : Nat) : i ≤ shiftWhitespace s i := by
  unfold shiftWhitespace; omega

theorem matchLinkDest_le (s : Str) (o : Nat) (r : Nat × Nat × Str) (h : matchLinkDest s o = some r) : o + 1 ≤ r.2.1 := by
  unfold matchLinkDest at h
  have := shiftWhitespace_le s (o + 1)
  simp only at h
  split at h
  · cases h
  · split at h
    · cases h
    · split at h
      · have := destAngle_le _ _ _ _ _ _ h; omega
      · have := destPlain_le _ _ _ _ _ _ _ h; omega

theorem matchLinkTitle_le (s : Str) (o : Nat) (r : Nat × Nat × Str) (h : matchLinkTitle s o = some r) : o ≤ r.2.1 := by
  unfold matchLinkTitle at h
  have := shiftWhitespace_le s o
  simp only at h
  split at h
  · cases h
  · split at h
    · cases h
    · split at h
      · cases h; simpa using this
      · split at h
        · cases h
        · have := titleGo_le _ _ _ _ _ _ _ h; omega

theorem follows_lt (s : Str) (i : Nat) (ch : Char) (h : follows s i ch = true) : i + 1 < s.length := by
  unfold follows at h
  simp only [beq_iff_eq] at h
  exact (List.getElem?_eq_some_iff.1 h).1

theorem matchLinkImage_stop (s : Str) (offset : Nat) (d : Delim) (fn : Footnotes.Table) (m : CoreM)
    (ho : offset < s.length) (h : matchLinkImage s offset d fn = some m) :
    offset < m.stop ∧ m.stop ≤ s.length ∧ (m.kind = .link ∨ m.kind = .image) := by
  unfold matchLinkImage at h
  simp only at h
  have hk : ∀ b : Bool, (if b = true then Kind.image else Kind.link) = .link ∨ (if b = true then Kind.image else Kind.link) = .image := by
    intro b; cases b <;> simp
  split at h
  · -- inline link
    rename_i m' hin
    cases h
    split at hin
    · split at hin
      · cases hin
      · rename_i a e dest hd
        split at hin
        · cases hin
        · rename_i tls tle title ht
          split at hin
          · rename_i hp
            cases hin
            have h1 := matchLinkDest_le _ _ _ hd
            have h2 := matchLinkTitle_le _ _ _ ht
            have h3 := shiftWhitespace_le s tle
            simp only [beq_iff_eq] at hp
            have h4 := (List.getElem?_eq_some_iff.1 hp).1
            simp only at h1 h2
            exact ⟨by simp only; omega, by simp only; omega, hk _⟩
          · cases hin
    · cases hin
  · split at h
    · rename_i hf
      have hf' := follows_lt _ _ _ hf
      split at h
      · rename_i stop label dest title hl
        cases h
        unfold matchLinkLabel at hl
        have := labelGo_spec _ _ _ _ _ _ _ hl
        simp only [List.length_drop] at this
        exact ⟨by simp only; omega, by simp only; omega, hk _⟩
      · split at h
        · split at h
          · rename_i hf2
            have := follows_lt _ _ _ hf2
            cases h
            exact ⟨by simp only; omega, by simp only; omega, hk _⟩
          · cases h
        · cases h
    · split at h
      · cases h
        exact ⟨by simp only; omega, by simp only; omega, hk _⟩
      · cases h

/-! ### `find_link_image` -/

theorem lastBracket_spec : ∀ (l : List Delim) (i : Nat) (acc : Option Nat) (k : Nat),
    lastBracket l i acc = some k → acc = some k ∨ (i ≤ k ∧ k < i + l.length)
  | [], _, _, _, h => by left; simpa [lastBracket] using h
  | d :: rest, i, acc, k, h => by
    simp only [lastBracket] at h
    rcases lastBracket_spec rest (i + 1) _ k h with h1 | h1
    · split at h1
      · cases h1; right; simp only [List.length_cons]; omega
      · left; exact h1
    · right; simp only [List.length_cons]; omega

def deactivate (x : Delim) : Delim := if x.type == ['['] then { x with active := false } else x

theorem deactivate_fields (x : Delim) : (deactivate x).type = x.type ∧ (deactivate x).number = x.number ∧
    (deactivate x).start = x.start ∧ (deactivate x).stop = x.stop ∧ (deactivate x).emph = x.emph ∧
    (deactivate x).opens = x.opens ∧ (deactivate x).closes = x.closes ∧ (deactivate x).runLength = x.runLength := by
  unfold deactivate; split <;> simp

theorem Chain.deactivate : ∀ {ds : List Delim} {lo hi : Nat}, Chain lo hi ds → Chain lo hi (ds.map deactivate)
  | [], _, _, h => h
  | d :: rest, lo, hi, h => by
    obtain ⟨h1, h2, h3, h4, _⟩ := deactivate_fields d
    refine ⟨by rw [h3]; exact h.1, ⟨by rw [h1, h2]; exact h.2.1.len, by rw [h2]; exact h.2.1.pos,
      by rw [h2, h3, h4]; exact h.2.1.span⟩, ?_⟩
    rw [h4]; exact Chain.deactivate h.2.2

theorem findLinkImage_ok (s : Str) (offset : Nat) (ds : List Delim) (ms : List CoreM) (fn : Footnotes.Table)
    (lo hi : Nat) (hC : Chain lo hi ds) (hhi : hi ≤ s.length) (ho : offset < s.length) :
    ∃ i' ds' ms', findLinkImage s offset ds ms fn = .ok (i', ds', ms') ∧ offset ≤ i' ∧ i' < s.length ∧ Chain lo hi ds' := by
  unfold findLinkImage
  cases hl : lastBracket ds 0 none with
  | none => exact ⟨_, _, _, rfl, Nat.le_refl _, ho, hC⟩
  | some i =>
    simp only
    have hi' : i < ds.length := by
      rcases lastBracket_spec ds 0 none i hl with h | h
      · cases h
      · omega
    rw [List.getElem?_eq_getElem hi']
    simp only
    split
    · exact ⟨_, _, _, rfl, Nat.le_refl _, ho, hC.eraseIdx i⟩
    · cases hm : matchLinkImage s offset ds[i] fn with
      | none => exact ⟨_, _, _, rfl, Nat.le_refl _, ho, hC.eraseIdx i⟩
      | some m =>
        simp only
        obtain ⟨ds1, ms1, hpe, hC1⟩ := processEmphasis_ok s (some i) lo hi hhi ds ms hC
        rw [hpe]
        simp only
        obtain ⟨h1, h2, _⟩ := matchLinkImage_stop s offset _ fn m ho hm
        refine ⟨_, _, _, rfl, by omega, by omega, ?_⟩
        split
        · exact hC1.deactivate
        · exact hC1

/-! ### `find_core_tokens` -/

theorem mkDelim_ok (s : Str) (a b : Nat) (hab : a < b) (hb : b ≤ s.length) :
    DelimOK (mkDelim a b s) ∧ (mkDelim a b s).start = a ∧ (mkDelim a b s).stop = b := by
  refine ⟨⟨?_, ?_, ?_⟩, rfl, rfl⟩
  · simp only [mkDelim, slice, List.length_take, List.length_drop]; omega
  · simp only [mkDelim]; omega
  · simp only [mkDelim]; omega

theorem Chain.push {ds : List Delim} {lo hi hi' : Nat} (h : Chain lo hi ds) (s : Str) (a b : Nat)
    (h1 : hi ≤ a) (hab : a < b) (h2 : b ≤ hi') (hb : b ≤ s.length) : Chain lo hi' (ds ++ [mkDelim a b s]) := by
  obtain ⟨h3, h4, h5⟩ := mkDelim_ok s a b hab hb
  refine Chain.join h ⟨by rw [h4]; exact h1, h3, ?_⟩
  rw [h5]; exact h2

/-! ### shape of the emphasis matches -/

/-- the match is a `Strong` or an `Emphasis` (as opposed to a link or an image) -/
def isEmphM (m : CoreM) : Prop := m.kind = .strong ∨ m.kind = .emphasis

instance (m : CoreM) : Decidable (isEmphM m) := by unfold isEmphM; exact inferInstance

/-- geometry of a `Strong`/`Emphasis` match inside the string `s` -/
structure EmphWF (s : Str) (m : CoreM) : Prop where
  lt_ts : m.start < m.ts
  ts_le : m.ts ≤ m.te
  te_lt : m.te < m.stop
  stop_le : m.stop ≤ s.length
  width : m.ts - m.start = m.stop - m.te
  kind : (m.kind = .strong ∧ m.ts - m.start = 2) ∨ (m.kind = .emphasis ∧ m.ts - m.start = 1)
  delim : s[m.start]? = some m.delimiter

/-- a match found later (`newer`) and one found earlier: apart, or the older one inside the text
    of the newer one -/
def NestRel (newer older : CoreM) : Prop :=
  isEmphM newer → isEmphM older →
    older.stop ≤ newer.start ∨ newer.stop ≤ older.start ∨ (newer.ts ≤ older.start ∧ older.stop ≤ newer.te)

/-- invariant of delimiters and matches (newest first): the chain invariant; every emphasis match
    is well formed, ends at or before `hi` and contains no remaining delimiter; matches nest. -/
structure DInv (s : Str) (lo hi : Nat) (ds : List Delim) (ms : List CoreM) : Prop where
  chain : Chain lo hi ds
  wf : ∀ m ∈ ms, isEmphM m → EmphWF s m ∧ m.stop ≤ hi ∧ ∀ d ∈ ds, d.stop ≤ m.start ∨ m.stop ≤ d.start
  nest : ms.Pairwise NestRel

theorem DInv.mono {s : Str} {lo hi hi' : Nat} {ds : List Delim} {ms : List CoreM} (hh : hi ≤ hi')
    (h : DInv s lo hi ds ms) : DInv s lo hi' ds ms :=
  ⟨h.chain.mono (Nat.le_refl _) hh, fun m hm he => by
    obtain ⟨h1, h2, h3⟩ := h.wf m hm he
    exact ⟨h1, by omega, h3⟩, h.nest⟩

/-- the delimiters may be replaced by delimiters lying inside old ones -/
theorem DInv.sub {s : Str} {lo hi : Nat} {ds ds' : List Delim} {ms : List CoreM} (h : DInv s lo hi ds ms)
    (hC : Chain lo hi ds') (hanc : ∀ d' ∈ ds', ∃ d ∈ ds, d.start ≤ d'.start ∧ d'.stop ≤ d.stop) :
    DInv s lo hi ds' ms :=
  ⟨hC, fun m hm he => by
    obtain ⟨h1, h2, h3⟩ := h.wf m hm he
    refine ⟨h1, h2, fun d' hd' => ?_⟩
    obtain ⟨d, hd, h4, h5⟩ := hanc d' hd'
    rcases h3 d hd with h6 | h6
    · left; omega
    · right; omega, h.nest⟩

theorem DInv.eraseIdx {s : Str} {lo hi : Nat} {ds : List Delim} {ms : List CoreM} (h : DInv s lo hi ds ms) (k : Nat) :
    DInv s lo hi (ds.eraseIdx k) ms :=
  h.sub (h.chain.eraseIdx k) (fun d hd => ⟨d, List.mem_of_mem_eraseIdx hd, Nat.le_refl _, Nat.le_refl _⟩)

theorem DInv.take {s : Str} {lo hi : Nat} {ds : List Delim} {ms : List CoreM} (h : DInv s lo hi ds ms) (k : Nat) :
    DInv s lo hi (ds.take k) ms :=
  h.sub (h.chain.take k) (fun d hd => ⟨d, List.mem_of_mem_take hd, Nat.le_refl _, Nat.le_refl _⟩)

theorem DInv.nil {s : Str} {lo hi : Nat} {ds : List Delim} {ms : List CoreM} (h : DInv s lo hi ds ms) :
    DInv s lo hi [] ms :=
  h.sub h.chain.le (fun d hd => by cases hd)

theorem DInv.deactivate {s : Str} {lo hi : Nat} {ds : List Delim} {ms : List CoreM} (h : DInv s lo hi ds ms) :
    DInv s lo hi (ds.map deactivate) ms :=
  h.sub h.chain.deactivate (fun d' hd' => by
    obtain ⟨d, hd, rfl⟩ := List.mem_map.1 hd'
    obtain ⟨_, _, h3, h4, _⟩ := deactivate_fields d
    exact ⟨d, hd, by omega, by omega⟩)

theorem DInv.push {s : Str} {lo hi hi' : Nat} {ds : List Delim} {ms : List CoreM} (h : DInv s lo hi ds ms)
    (a b : Nat) (h1 : hi ≤ a) (hab : a < b) (h2 : b ≤ hi') (hb : b ≤ s.length) :
    DInv s lo hi' (ds ++ [mkDelim a b s]) ms :=
  ⟨h.chain.push s a b h1 hab h2 hb, fun m hm he => by
    obtain ⟨h3, h4, h5⟩ := h.wf m hm he
    refine ⟨h3, by omega, fun d hd => ?_⟩
    rcases List.mem_append.1 hd with hd | hd
    · exact h5 d hd
    · simp only [List.mem_singleton] at hd
      subst hd
      right
      show m.stop ≤ a
      omega, h.nest⟩

theorem DInv.cons_other {s : Str} {lo hi : Nat} {ds : List Delim} {ms : List CoreM} (h : DInv s lo hi ds ms)
    (m : CoreM) (hm : ¬ isEmphM m) : DInv s lo hi ds (m :: ms) :=
  ⟨h.chain, fun m' hm' he => by
    rcases List.mem_cons.1 hm' with rfl | hm'
    · exact absurd he hm
    · exact h.wf m' hm' he, List.pairwise_cons.2 ⟨fun m' _ he => absurd he hm, h.nest⟩⟩

theorem DInv.step {s : Str} {lo hi : Nat} (hhi : hi ≤ s.length) {ds ms curr ds' ms' from'}
    (h : DInv s lo hi ds ms) (hr : StepRel s ds ms curr ds' ms' from') : DInv s lo hi ds' ms' := by
  cases hr with
  | erased _ _ _ c hc => exact h.eraseIdx _
  | skipped _ _ _ c hc => exact h
  | matched A B C o c _ dch hoe hoo hce hcc hcb hs =>
    have hC' := (StepRel.matched (s := s) A B C o c ms dch hoe hoo hce hcc hcb hs).chain h.chain
    obtain ⟨m1, hA, h1⟩ := Chain.split h.chain
    obtain ⟨hm1, hoOK, h2⟩ := h1
    obtain ⟨m2, hB, h3⟩ := Chain.split h2
    obtain ⟨hm2, hcOK, hCC⟩ := h3
    have hm2' := Chain.le hB
    have hcle := Chain.le hCC
    have ho1 := hoOK.span; have hc1 := hcOK.span
    obtain ⟨hn1, hn2, hn3, hn4⟩ := emphN_bounds o c hoOK hcOK
    have hmo : o ∈ A ++ o :: (B ++ c :: C) := by simp
    have hmc : c ∈ A ++ o :: (B ++ c :: C) := by simp
    -- where the remaining delimiters are
    have hgeo : ∀ d' ∈ A ++ (shrink o (emphN o c) false ++ (shrink c (emphN o c) true ++ C)),
        (d'.stop ≤ o.stop - emphN o c ∨ c.start + emphN o c ≤ d'.start) ∧
        ∃ d ∈ A ++ o :: (B ++ c :: C), d.start ≤ d'.start ∧ d'.stop ≤ d.stop := by
      intro d' hd'
      rcases List.mem_append.1 hd' with hd' | hd'
      · have := hA.mem d' hd'
        exact ⟨Or.inl (by omega), d', by simp [hd'], Nat.le_refl _, Nat.le_refl _⟩
      rcases List.mem_append.1 hd' with hd' | hd'
      · rcases shrink_spec o (emphN o c) false hoOK hn1 hn3 with ⟨e1, _⟩ | ⟨o', e1, _, _, hst, hsp, _⟩
        · rw [e1] at hd'; cases hd'
        · rw [e1] at hd'; simp only [List.mem_singleton] at hd'; subst hd'
          simp only [Bool.false_eq_true, if_false] at hst hsp
          exact ⟨Or.inl (by omega), o, hmo, by omega, by omega⟩
      rcases List.mem_append.1 hd' with hd' | hd'
      · rcases shrink_spec c (emphN o c) true hcOK hn1 hn4 with ⟨e1, _⟩ | ⟨c', e1, _, _, hst, hsp, _⟩
        · rw [e1] at hd'; cases hd'
        · rw [e1] at hd'; simp only [List.mem_singleton] at hd'; subst hd'
          simp only [if_true] at hst hsp
          exact ⟨Or.inr (by omega), c, hmc, by omega, by omega⟩
      · have := hCC.mem d' hd'
        exact ⟨Or.inr (by omega), d', by simp [hd'], Nat.le_refl _, Nat.le_refl _⟩
    have hold := h.sub hC' (fun d' hd' => (hgeo d' hd').2)
    refine ⟨hC', fun m hm he => ?_, List.pairwise_cons.2 ⟨fun m0 hm0 _ he0 => ?_, h.nest⟩⟩
    · rcases List.mem_cons.1 hm with rfl | hm
      · refine ⟨⟨?_, ?_, ?_, ?_, ?_, ?_, ?_⟩, ?_, fun d' hd' => ?_⟩
        · simp only [emphMatch]; omega
        · simp only [emphMatch]; omega
        · simp only [emphMatch]; omega
        · simp only [emphMatch]; omega
        · simp only [emphMatch]; omega
        · simp only [emphMatch]
          by_cases h2 : emphN o c = 2
          · left; rw [if_pos h2]; exact ⟨rfl, by omega⟩
          · right; rw [if_neg h2]; exact ⟨rfl, by omega⟩
        · exact hs
        · simp only [emphMatch]; omega
        · exact (hgeo d' hd').1
      · exact hold.wf m hm he
    · obtain ⟨_, _, h3⟩ := h.wf m0 hm0 he0
      have h4 := h3 o hmo
      have h5 := h3 c hmc
      simp only [emphMatch]
      omega

/-! ### the character loop of `find_core_tokens` -/

/-- What the character loop needs of an invariant.  `I hi ds ms`: the delimiters (all ending at or
    before `hi`) and the matches; `R a b ch`: `[a, b)` is a run of the delimiter character `ch`;
    `J i`: the character before `i` is harmless as first character of a `![` delimiter;
    `T i c ds`: no delimiter that ends exactly at `i` is an emphasis run of the character `c`. -/
structure LoopInv (s : Str) (fn : Footnotes.Table) (I : Nat → List Delim → List CoreM → Prop)
    (R : Nat → Nat → Char → Prop) (J : Nat → Prop) (T : Nat → Char → List Delim → Prop) : Prop where
  mono : ∀ {hi hi' : Nat} {ds : List Delim} {ms : List CoreM}, hi ≤ hi' → I hi ds ms → I hi' ds ms
  push_run : ∀ {hi hi' : Nat} {ds : List Delim} {ms : List CoreM} (a b : Nat) (ch : Char), I hi ds ms → R a b ch →
    T a ch ds → hi ≤ a → a < b → b ≤ hi' → b ≤ s.length → I hi' (ds ++ [mkDelim a b s]) ms
  push_br : ∀ {hi hi' : Nat} {ds : List Delim} {ms : List CoreM} (i : Nat), I hi ds ms → s[i]? = some '[' →
    hi ≤ i → i + 1 ≤ hi' → i + 1 ≤ s.length → I hi' (ds ++ [mkDelim i (i + 1) s]) ms
  push_img : ∀ {hi hi' : Nat} {ds : List Delim} {ms : List CoreM} (i : Nat), I hi ds ms → J i → s[i]? = some '[' →
    hi ≤ i - 1 → i + 1 ≤ hi' → i + 1 ≤ s.length → I hi' (ds ++ [mkDelim (i - 1) (i + 1) s]) ms
  link : ∀ {hi : Nat} {ds : List Delim} {ms : List CoreM} (offset : Nat), I hi ds ms → hi ≤ s.length →
    s[offset]? = some ']' →
    ∃ i' ds' ms', findLinkImage s offset ds ms fn = .ok (i', ds', ms') ∧ offset ≤ i' ∧ i' < s.length ∧
      I hi ds' ms' ∧ J (i' + 1)
  T_lt : ∀ {hi : Nat} {ds : List Delim} {ms : List CoreM} (i : Nat) (c : Char), I hi ds ms → hi < i → T i c ds
  T_run : ∀ {hi : Nat} {ds : List Delim} {ms : List CoreM} (a b : Nat) (ch c : Char), I hi ds ms → R a b ch →
    hi ≤ a → a < b → b ≤ s.length → c ≠ ch → T b c (ds ++ [mkDelim a b s])
  T_br : ∀ {hi : Nat} {ds : List Delim} {ms : List CoreM} (i : Nat) (c : Char), I hi ds ms → s[i]? = some '[' →
    hi ≤ i → T (i + 1) c (ds ++ [mkDelim i (i + 1) s])
  T_img : ∀ {hi : Nat} {ds : List Delim} {ms : List CoreM} (i : Nat) (c : Char), I hi ds ms → J i →
    hi ≤ i - 1 → T (i + 1) c (ds ++ [mkDelim (i - 1) (i + 1) s])
  R_new : ∀ (i : Nat) (c : Char), s[i]? = some c → (c = '*' ∨ c = '_') → R i (i + 1) c
  R_ext : ∀ (a i : Nat) (ch : Char), R a i ch → s[i]? = some ch → R a (i + 1) ch
  J_bang : ∀ i : Nat, s[i]? = some '!' → J (i + 1)
  J_bs : ∀ i : Nat, s[i]? = some '\\' → J (i + 1)

/-- invariant of the `while i < len(string)` loop at position `i` -/
structure FInv (s : Str) (I : Nat → List Delim → List CoreM → Prop) (R : Nat → Nat → Char → Prop) (J : Nat → Prop)
    (T : Nat → Char → List Delim → Prop) (i : Nat) (st : FState) : Prop where
  ile : i ≤ s.length
  run : ∀ ch, st.inRun = some ch → (ch = '*' ∨ ch = '_') ∧ st.start + (if st.escaped then 1 else 0) < i ∧
    I st.start st.ds st.ms ∧ st.inImage = false ∧ R st.start (i - (if st.escaped then 1 else 0)) ch ∧
    T st.start ch st.ds
  norun : st.inRun = none → I (if st.inImage then i - 1 else i) st.ds st.ms
  tight : st.inRun = none → ∀ c, T i c st.ds
  code : ∀ cm, st.code = some cm → cm.start < cm.stop ∧ cm.stop ≤ s.length
  img : st.inImage = true → J i

/-- the delimiter run in progress is closed when the character differs or is escaped -/
def st1Of (s : Str) (i : Nat) (c : Char) (st : FState) : FState :=
  if st.inRun.isSome && (some c != st.inRun || st.escaped) then
    { pushDelim st (mkDelim st.start (if !st.escaped then i else i - 1) s) with inRun := none }
  else st

/-- a new delimiter run starts -/
def st2Of (i : Nat) (c : Char) (st1 : FState) : FState :=
  if st1.inRun.isNone && (c = '*' || c = '_') && !st1.escaped then { st1 with inRun := some c, start := i } else st1

/-- the rest of the loop body, with the loop itself abstracted as `K` -/
def tailExpr {α} (K : Nat → FState → Res α) (s : Str) (fn : Footnotes.Table) (i : Nat) (c : Char) (st2 : FState) : Res α :=
  if !st2.escaped then
    if c = '[' then
      if !st2.inImage then K (i + 1) (pushDelim st2 (mkDelim i (i + 1) s))
      else K (i + 1) { pushDelim st2 (mkDelim (i - 1) (i + 1) s) with inImage := false }
    else if c = '!' then K (i + 1) { st2 with inImage := true }
    else if c = ']' then
      match findLinkImage s i st2.ds st2.ms fn with
      | .err e => .err e
      | .ok (i', ds', ms') => K (i' + 1) { st2 with ds := ds', ms := ms', code := codeSearch s i' }
    else if st2.inImage then K (i + 1) { st2 with inImage := false }
    else K (i + 1) st2
  else K (i + 1) { st2 with escaped := false, inImage := false }

/-- state after the run bookkeeping for character `c` at position `i` -/
structure Mid (s : Str) (I : Nat → List Delim → List CoreM → Prop) (R : Nat → Nat → Char → Prop) (J : Nat → Prop)
    (T : Nat → Char → List Delim → Prop) (i : Nat) (c : Char) (st : FState) : Prop where
  run : ∀ ch, st.inRun = some ch → (ch = '*' ∨ ch = '_') ∧ c = ch ∧ st.escaped = false ∧ st.start ≤ i ∧
    I st.start st.ds st.ms ∧ R st.start (i + 1) ch ∧ T st.start ch st.ds
  norun : st.inRun = none → I (if st.inImage then i - 1 else i) st.ds st.ms
  code : ∀ cm, st.code = some cm → cm.start < cm.stop ∧ cm.stop ≤ s.length
  img : st.inImage = true → J i

/-- the state after the pending delimiter run was closed with delimiter `d` -/
def closeRunSt (st : FState) (d : Delim) : FState := { pushDelim st d with inRun := none }

theorem st2Of_new (i : Nat) (c : Char) (X : FState) (h1 : X.inRun = none) (h2 : c = '*' ∨ c = '_')
    (h3 : X.escaped = false) : st2Of i c X = { X with inRun := some c, start := i } := by
  unfold st2Of
  rw [if_pos]
  rcases h2 with h2 | h2 <;> simp [h1, h2, h3]

theorem st2Of_same (i : Nat) (c : Char) (X : FState)
    (h : X.inRun ≠ none ∨ ¬(c = '*' ∨ c = '_') ∨ X.escaped = true) : st2Of i c X = X := by
  unfold st2Of
  rw [if_neg]
  simp only [Bool.and_eq_true, Bool.or_eq_true, decide_eq_true_eq, Bool.not_eq_true', Option.isNone_iff_eq_none]
  rintro ⟨⟨h1, h2⟩, h3⟩
  rcases h with h | h | h
  · exact h h1
  · exact h h2
  · rw [h3] at h; cases h

section loop
variable {s : Str} {fn : Footnotes.Table} {I : Nat → List Delim → List CoreM → Prop}
  {R : Nat → Nat → Char → Prop} {J : Nat → Prop} {T : Nat → Char → List Delim → Prop} (L : LoopInv s fn I R J T)
include L

theorem mid_norun (i : Nat) (c : Char) (X : FState) (hc : s[i]? = some c) (hX : X.inRun = none)
    (hC : I (if X.inImage then i - 1 else i) X.ds X.ms)
    (hT : (c = '*' ∨ c = '_') → X.escaped = false → T i c X.ds)
    (hcode : ∀ cm, X.code = some cm → cm.start < cm.stop ∧ cm.stop ≤ s.length)
    (himg : X.inImage = true → J i) :
    Mid s I R J T i c (st2Of i c X) := by
  by_cases hn : (c = '*' ∨ c = '_') ∧ X.escaped = false
  · rw [st2Of_new i c X hX hn.1 hn.2]
    refine ⟨fun ch hch => ?_, fun h => (by simp at h), hcode, himg⟩
    simp only [Option.some.injEq] at hch
    subst hch
    refine ⟨hn.1, rfl, hn.2, Nat.le_refl _, ?_, L.R_new i c hc hn.1, hT hn.1 hn.2⟩
    dsimp only
    exact L.mono (by split <;> omega) hC
  · rw [st2Of_same i c X (by
      by_cases h1 : c = '*' ∨ c = '_'
      · right; right; cases he : X.escaped with
        | true => rfl
        | false => exact absurd ⟨h1, he⟩ hn
      · right; left; exact h1)]
    exact ⟨fun ch hch => (by rw [hX] at hch; cases hch), fun _ => hC, hcode, himg⟩

theorem mid_of_inv (i : Nat) (c : Char) (st : FState) (h : FInv s I R J T i st) (hc : s[i]? = some c) :
    Mid s I R J T i c (st2Of i c (st1Of s i c st)) := by
  have hi : i < s.length := (List.getElem?_eq_some_iff.1 hc).1
  cases hr : st.inRun with
  | none =>
    have h1 : st1Of s i c st = st := by simp [st1Of, hr]
    rw [h1]
    exact mid_norun L i c st hc hr (h.norun hr) (fun _ _ => h.tight hr c) h.code h.img
  | some ch =>
    obtain ⟨hch, hlt, hC, him, hR, hT⟩ := h.run ch hr
    by_cases hcond : c ≠ ch ∨ st.escaped = true
    · have hb : ∃ b, (if !st.escaped then i else i - 1) = b ∧ st.start < b ∧ b ≤ i ∧
          b = i - (if st.escaped then 1 else 0) := by
        cases he : st.escaped <;> simp [he] at hlt ⊢ <;> omega
      obtain ⟨b, hb, hb1, hb2, hb3⟩ := hb
      have h1 : st1Of s i c st = closeRunSt st (mkDelim st.start b s) := by
        unfold st1Of
        rw [if_pos, hb]
        · rfl
        · rcases hcond with hc | hc
          · simp [hr, hc]
          · simp [hr, hc]
      rw [h1]
      rw [← hb3] at hR
      refine mid_norun L i c _ hc rfl ?_ ?_ h.code ?_
      · show I (if st.inImage then i - 1 else i) (st.ds ++ [mkDelim st.start b s]) st.ms
        simp only [him]
        exact L.push_run _ _ ch hC hR hT (Nat.le_refl _) hb1 hb2 (by omega)
      · intro _ he
        have he' : st.escaped = false := he
        show T i c (st.ds ++ [mkDelim st.start b s])
        have hbi : b = i := by rw [hb3, he']; simp
        have hne : c ≠ ch := by
          rcases hcond with h' | h'
          · exact h'
          · rw [he'] at h'; cases h'
        rw [← hbi]
        exact L.T_run _ _ ch c hC hR (Nat.le_refl _) hb1 (by omega) hne
      · intro h'
        have : st.inImage = true := h'
        rw [him] at this; cases this
    · have hc1 : c = ch := Classical.not_not.1 (fun h => hcond (Or.inl h))
      have he : st.escaped = false := by
        cases he : st.escaped with
        | false => rfl
        | true => exact absurd (Or.inr he) hcond
      have h1 : st1Of s i c st = st := by
        unfold st1Of
        rw [if_neg]
        simp [hr, hc1, he]
      have h2 : st2Of i c st = st := st2Of_same i c st (Or.inl (by rw [hr]; simp))
      rw [h1, h2]
      refine ⟨fun ch' hch' => ?_, fun hn => (by rw [hr] at hn; cases hn), h.code, h.img⟩
      rw [hr] at hch'; cases hch'
      rw [he] at hlt hR
      simp only [Bool.false_eq_true, if_false, Nat.sub_zero, Nat.add_zero] at hlt hR
      exact ⟨hch, hc1, he, by omega, hC, L.R_ext _ _ _ hR (by rw [← hc1]; exact hc), hT⟩

omit L in
theorem finv_norun (i : Nat) (X : FState) (hi : i ≤ s.length) (hX : X.inRun = none)
    (hC : I (if X.inImage then i - 1 else i) X.ds X.ms) (hT : ∀ c, T i c X.ds)
    (hcode : ∀ cm, X.code = some cm → cm.start < cm.stop ∧ cm.stop ≤ s.length)
    (himg : X.inImage = true → J i) : FInv s I R J T i X :=
  ⟨hi, fun ch h => (by rw [hX] at h; cases h), fun _ => hC, fun _ => hT, hcode, himg⟩

theorem tail_spec {α} (K : Nat → FState → Res α) (i : Nat) (c : Char) (st2 : FState)
    (h : Mid s I R J T i c st2) (hc : s[i]? = some c) :
    ∃ i' st3, tailExpr K s fn i c st2 = K (i' + 1) st3 ∧ i ≤ i' ∧ i' < s.length ∧ FInv s I R J T (i' + 1) st3 := by
  have hi : i < s.length := (List.getElem?_eq_some_iff.1 hc).1
  have absurd_bool : ∀ {p : Prop}, false = true → p := fun h => by cases h
  cases hr : st2.inRun with
  | some ch =>
    obtain ⟨hch, hcc, he, hs, hC, hR, hT⟩ := h.run ch hr
    have h1 : c ≠ '[' := by rcases hch with h | h <;> rw [hcc, h] <;> decide
    have h2 : c ≠ '!' := by rcases hch with h | h <;> rw [hcc, h] <;> decide
    have h3 : c ≠ ']' := by rcases hch with h | h <;> rw [hcc, h] <;> decide
    unfold tailExpr
    simp only [he, Bool.not_false, if_true, h1, h2, h3, if_false]
    cases him : st2.inImage with
    | true =>
      refine ⟨i, _, rfl, Nat.le_refl _, hi, by omega, fun ch' hch' => ?_, fun hn => ?_, fun hn => ?_, h.code, absurd_bool⟩
      · dsimp only at hch' ⊢
        rw [hr] at hch'; cases hch'
        exact ⟨hch, by simp; omega, hC, rfl, by simpa using hR, hT⟩
      · dsimp only at hn; rw [hr] at hn; cases hn
      · dsimp only at hn; rw [hr] at hn; cases hn
    | false =>
      refine ⟨i, _, rfl, Nat.le_refl _, hi, by omega, fun ch' hch' => ?_, fun hn => ?_, fun hn => ?_, h.code,
        fun h' => absurd_bool (him ▸ h')⟩
      · rw [hr] at hch'; cases hch'
        rw [he]
        exact ⟨hch, by simp; omega, hC, him, by simpa using hR, hT⟩
      · rw [hr] at hn; cases hn
      · rw [hr] at hn; cases hn
  | none =>
    have hC := h.norun hr
    have hXle : (if st2.inImage then i - 1 else i) < i + 1 := by split <;> omega
    have hTlt : ∀ c', T (i + 1) c' st2.ds := fun c' => L.T_lt (i + 1) c' hC hXle
    unfold tailExpr
    cases he : st2.escaped with
    | true =>
      simp only [Bool.not_true, Bool.false_eq_true, if_false]
      exact ⟨i, _, rfl, Nat.le_refl _, hi, finv_norun _ _ (by omega) hr
        (L.mono (by dsimp only; split <;> simp <;> omega) hC) hTlt h.code absurd_bool⟩
    | false =>
      simp only [Bool.not_false, if_true]
      by_cases h1 : c = '['
      · simp only [h1, if_true]
        rw [h1] at hc
        cases him : st2.inImage with
        | false =>
          simp only [Bool.not_false, if_true]
          rw [him] at hC
          refine ⟨i, _, rfl, Nat.le_refl _, hi, finv_norun _ _ (by omega) hr ?_
            (fun c' => L.T_br i c' hC hc (Nat.le_refl _)) h.code (fun h' => absurd_bool (him ▸ h'))⟩
          show I (if st2.inImage then i + 1 - 1 else i + 1) (st2.ds ++ [mkDelim i (i + 1) s]) st2.ms
          rw [him]
          exact L.push_br i hC hc (Nat.le_refl _) (Nat.le_refl _) (by omega)
        | true =>
          simp only [Bool.not_true, Bool.false_eq_true, if_false]
          rw [him] at hC
          refine ⟨i, _, rfl, Nat.le_refl _, hi, finv_norun _ _ (by omega) hr ?_
            (fun c' => L.T_img i c' hC (h.img him) (Nat.le_refl _)) h.code absurd_bool⟩
          show I (i + 1) (st2.ds ++ [mkDelim (i - 1) (i + 1) s]) st2.ms
          exact L.push_img i hC (h.img him) hc (Nat.le_refl _) (Nat.le_refl _) (by omega)
      · simp only [h1, if_false]
        by_cases h2 : c = '!'
        · simp only [h2, if_true]
          rw [h2] at hc
          refine ⟨i, _, rfl, Nat.le_refl _, hi, finv_norun _ _ (by omega) hr ?_ hTlt h.code
            (fun _ => L.J_bang i hc)⟩
          exact L.mono (by dsimp only; split <;> simp <;> omega) hC
        · simp only [h2, if_false]
          by_cases h3 : c = ']'
          · simp only [h3, if_true]
            rw [h3] at hc
            obtain ⟨i', ds', ms', hf, hle, hlt, hC', hJ⟩ := L.link i hC (by split <;> omega) hc
            rw [hf]
            refine ⟨i', _, rfl, hle, hlt, finv_norun _ _ (by omega) hr ?_
              (fun c' => L.T_lt (i' + 1) c' hC' (by omega))
              (fun cm hcm => codeSearch_spec s i' cm hcm) (fun _ => hJ)⟩
            exact L.mono (by dsimp only; split <;> omega) hC'
          · simp only [h3, if_false]
            cases him : st2.inImage with
            | true =>
              simp only [if_true]
              rw [him] at hC
              refine ⟨i, _, rfl, Nat.le_refl _, hi, finv_norun _ _ (by omega) hr ?_ hTlt h.code
                absurd_bool⟩
              exact L.mono (by simp; omega) hC
            | false =>
              simp only [Bool.false_eq_true, if_false]
              refine ⟨i, _, rfl, Nat.le_refl _, hi, finv_norun _ _ (by omega) hr ?_ hTlt h.code
                (fun h' => absurd_bool (him ▸ h'))⟩
              rw [him] at hC ⊢
              exact L.mono (by simp) hC

end loop

/-- the loop body when a code span starts at `i` -/
def codeExpr {α} (K : Nat → FState → Res α) (s : Str) (i : Nat) (st : FState) (cm : CodeM) : Res α :=
  let st1 := if st.inRun.isSome then
      { pushDelim st (mkDelim st.start (if !st.escaped then i else i - 1) s) with inRun := none, escaped := false }
    else st
  K cm.stop { st1 with codes := cm :: st1.codes, code := codeSearch s cm.stop, inImage := false }

/-- the loop body when no code span starts at `i` -/
def restExpr {α} (K : Nat → FState → Res α) (s : Str) (fn : Footnotes.Table) (i : Nat) (c : Char) (st : FState) : Res α :=
  if c = '\\' && !st.escaped then K (i + 1) { st with escaped := true }
  else tailExpr K s fn i c (st2Of i c (st1Of s i c st))

theorem coreLoop_succ (s : Str) (fn : Footnotes.Table) (fuel i : Nat) (st : FState) :
    coreLoop s fn (fuel + 1) i st =
      match s[i]? with
      | none => .ok (i, st)
      | some c =>
        if (match st.code with | some cm => i == cm.start | none => false) then
          match st.code with
          | none => .err .type
          | some cm => codeExpr (coreLoop s fn fuel) s i st cm
        else restExpr (coreLoop s fn fuel) s fn i c st := by
  rw [coreLoop]; rfl

section loop2
variable {s : Str} {fn : Footnotes.Table} {I : Nat → List Delim → List CoreM → Prop}
  {R : Nat → Nat → Char → Prop} {J : Nat → Prop} {T : Nat → Char → List Delim → Prop} (L : LoopInv s fn I R J T)
include L

theorem code_spec {α} (K : Nat → FState → Res α) (i : Nat) (st : FState) (cm : CodeM)
    (h : FInv s I R J T i st) (hcm : st.code = some cm) (hi : i = cm.start) :
    ∃ st3, codeExpr K s i st cm = K cm.stop st3 ∧ i < cm.stop ∧ FInv s I R J T cm.stop st3 := by
  obtain ⟨hcm1, hcm2⟩ := h.code cm hcm
  have hcode : ∀ cm', codeSearch s cm.stop = some cm' → cm'.start < cm'.stop ∧ cm'.stop ≤ s.length :=
    fun cm' h' => codeSearch_spec s cm.stop cm' h'
  unfold codeExpr
  cases hr : st.inRun with
  | none =>
    simp only [Option.isSome_none, Bool.false_eq_true, if_false]
    have hC := h.norun hr
    have hX : (if st.inImage then i - 1 else i) ≤ i := by split <;> omega
    refine ⟨_, rfl, by omega, finv_norun _ _ hcm2 hr ?_ (fun c' => L.T_lt cm.stop c' hC (by omega)) hcode
      (fun h' => by cases h')⟩
    exact L.mono (by dsimp only; simp; omega) hC
  | some ch =>
    obtain ⟨_, hlt, hC, him, hR, hT⟩ := h.run ch hr
    simp only [Option.isSome_some, if_true]
    have hb : (if !st.escaped then i else i - 1) = i - (if st.escaped then 1 else 0) := by
      cases st.escaped <;> simp
    have hb1 : st.start < i - (if st.escaped then 1 else 0) ∧ i - (if st.escaped then 1 else 0) ≤ i := by
      cases he : st.escaped <;> simp [he] at hlt ⊢ <;> omega
    have hI : I i (st.ds ++ [mkDelim st.start (i - (if st.escaped then 1 else 0)) s]) st.ms :=
      L.push_run _ _ ch hC hR hT (Nat.le_refl _) hb1.1 hb1.2 (by omega)
    rw [hb]
    refine ⟨_, rfl, by omega, finv_norun _ _ hcm2 rfl ?_ (fun c' => L.T_lt cm.stop c' hI (by omega)) hcode
      (fun h' => by cases h')⟩
    show I cm.stop (st.ds ++ [_]) st.ms
    exact L.mono (by omega) hI

theorem rest_spec {α} (K : Nat → FState → Res α) (i : Nat) (c : Char) (st : FState)
    (h : FInv s I R J T i st) (hc : s[i]? = some c) :
    ∃ i' st3, restExpr K s fn i c st = K (i' + 1) st3 ∧ i ≤ i' ∧ i' < s.length ∧ FInv s I R J T (i' + 1) st3 := by
  have hi : i < s.length := (List.getElem?_eq_some_iff.1 hc).1
  unfold restExpr
  split
  · rename_i hbs
    simp only [Bool.and_eq_true, decide_eq_true_eq, Bool.not_eq_true'] at hbs
    rw [hbs.1] at hc
    refine ⟨i, _, rfl, Nat.le_refl _, hi, by omega, fun ch hch => ?_, fun hn => ?_, fun hn c' => ?_, h.code,
      fun _ => L.J_bs i hc⟩
    · obtain ⟨h1, h2, h3, h4, h5, h6⟩ := h.run ch hch
      rw [hbs.2] at h2 h5
      exact ⟨h1, by simp at h2 ⊢; omega, h3, h4, by simpa using h5, h6⟩
    · exact L.mono (by dsimp only; split <;> omega) (h.norun hn)
    · exact L.T_lt (i + 1) c' (h.norun hn) (by split <;> omega)
  · exact tail_spec L K i c _ (mid_of_inv L i c st h hc) hc

/-- The character loop never fails, `len(s) + 1 - i` iterations suffice from position `i`, it ends at
    `i = len(s)`, and the invariant holds at the end. -/
theorem coreLoop_inv : ∀ (fuel i : Nat) (st : FState),
    FInv s I R J T i st → s.length + 1 ≤ fuel + i →
    ∃ st', coreLoop s fn fuel i st = .ok (s.length, st') ∧ FInv s I R J T s.length st'
  | 0, i, st, h, hf => by have := h.ile; omega
  | fuel + 1, i, st, h, hf => by
    rw [coreLoop_succ]
    cases hc : s[i]? with
    | none =>
      have : i = s.length := by
        have := h.ile
        have := List.getElem?_eq_none_iff.1 hc
        omega
      subst this
      exact ⟨st, rfl, h⟩
    | some c =>
      have hi : i < s.length := (List.getElem?_eq_some_iff.1 hc).1
      have hrest : ∃ st', restExpr (coreLoop s fn fuel) s fn i c st = .ok (s.length, st') ∧
          FInv s I R J T s.length st' := by
        obtain ⟨i', st3, he, hle, hlt, hinv⟩ := rest_spec L (coreLoop s fn fuel) i c st h hc
        rw [he]
        exact coreLoop_inv fuel (i' + 1) st3 hinv (by omega)
      simp only
      cases hcm : st.code with
      | none => simpa using hrest
      | some cm =>
        simp only
        by_cases hcs : i = cm.start
        · rw [if_pos (by simp [hcs])]
          obtain ⟨st3, he, hlt, hinv⟩ := code_spec L (coreLoop s fn fuel) i st cm h hcm hcs
          rw [he]
          exact coreLoop_inv fuel cm.stop st3 hinv (by omega)
        · rw [if_neg (by simp [hcs])]
          exact hrest

/-- `find_core_tokens` runs the character loop to the end without failing, and the invariant holds
    for the delimiters and matches handed to the final `process_emphasis`. -/
theorem findCoreTokens_loop (h0 : I 0 [] []) (hT0 : ∀ c, T 0 c []) :
    ∃ st ds, coreLoop s fn (s.length + 2) 0 { code := codeSearch s 0 } = .ok (s.length, st) ∧
      ds = (if st.inRun.isSome then
              pushDelim st (mkDelim st.start (if !st.escaped then s.length else s.length - 1) s) else st).ds ∧
      I s.length ds st.ms := by
  have hinit : FInv s I R J T 0 { code := codeSearch s 0 } :=
    finv_norun 0 _ (Nat.zero_le _) rfl h0 hT0 (fun cm h => codeSearch_spec s 0 cm h) (fun h => by cases h)
  obtain ⟨st, h1, h2⟩ := coreLoop_inv L (s.length + 2) 0 _ hinit (by omega)
  refine ⟨st, _, h1, rfl, ?_⟩
  cases hr : st.inRun with
  | none =>
    simp only [Option.isSome_none, Bool.false_eq_true, if_false]
    exact L.mono (by split <;> omega) (h2.norun hr)
  | some ch =>
    obtain ⟨_, hlt, hC, _, hR, hT⟩ := h2.run ch hr
    simp only [Option.isSome_some, if_true, pushDelim]
    have hb : (if !st.escaped then s.length else s.length - 1) = s.length - (if st.escaped then 1 else 0) := by
      cases st.escaped <;> simp
    rw [hb]
    refine L.push_run _ _ ch hC hR hT (Nat.le_refl _) ?_ ?_ ?_ <;>
      cases he : st.escaped <;> simp [he] at hlt ⊢ <;> omega

end loop2

/-! ### delimiter characters and non-empty content -/

theorem labelGo_last (s : Str) (fn : Footnotes.Table) : ∀ (l : Str) (i : Nat) (st : Option Nat) (esc : Bool)
    (r : (Nat × Str) × (Str × Str)), labelGo s fn l i st esc = some r → l[r.1.1 - 1 - i]? = some ']'
  | [], _, _, _, _, h => by simp [labelGo] at h
  | c :: rest, i, st, esc, r, h => by
    have hs := labelGo_spec s fn (c :: rest) i st esc r h
    simp only [labelGo] at h
    have step : ∀ st' esc', labelGo s fn rest (i + 1) st' esc' = some r → (c :: rest)[r.1.1 - 1 - i]? = some ']' := by
      intro st' esc' h'
      have h1 := labelGo_spec s fn rest (i + 1) st' esc' r h'
      have h2 := labelGo_last s fn rest (i + 1) st' esc' r h'
      have : r.1.1 - 1 - i = (r.1.1 - 1 - (i + 1)) + 1 := by omega
      rw [this, List.getElem?_cons_succ]
      exact h2
    split at h
    · exact step _ _ h
    · split at h
      · split at h
        · exact step _ _ h
        · cases h
      · split at h
        · rename_i hc
          simp only [Bool.and_eq_true, decide_eq_true_eq] at hc
          cases st <;> simp only at h <;>
          · split at h
            · split at h
              · cases h; simp [hc.1]
              · cases h
            · cases h
        · exact step _ _ h

theorem matchLinkImage_last (s : Str) (offset : Nat) (d : Delim) (fn : Footnotes.Table) (m : CoreM)
    (ho : s[offset]? = some ']') (h : matchLinkImage s offset d fn = some m) :
    1 ≤ m.stop ∧ (s[m.stop - 1]? = some ')' ∨ s[m.stop - 1]? = some ']') := by
  unfold matchLinkImage at h
  simp only at h
  split at h
  · rename_i m' hin
    cases h
    split at hin
    · split at hin
      · cases hin
      · split at hin
        · cases hin
        · split at hin
          · rename_i hp
            cases hin
            simp only [beq_iff_eq] at hp
            exact ⟨by simp only; omega, Or.inl (by simpa using hp)⟩
          · cases hin
    · cases hin
  · split at h
    · rename_i hf
      have hf' := follows_lt _ _ _ hf
      split at h
      · rename_i stop label dest title hl
        cases h
        unfold matchLinkLabel at hl
        have h1 := labelGo_spec _ _ _ _ _ _ _ hl
        have h2 := labelGo_last _ _ _ _ _ _ _ hl
        simp only at h1 h2
        rw [List.getElem?_drop] at h2
        refine ⟨by simp only; omega, Or.inr ?_⟩
        simp only
        rw [← h2]; congr 1; omega
      · split at h
        · split at h
          · rename_i hf2
            cases h
            unfold follows at hf2
            simp only [beq_iff_eq] at hf2
            exact ⟨by simp only; omega, Or.inr (by simpa using hf2)⟩
          · cases h
        · cases h
    · split at h
      · cases h
        exact ⟨by simp only; omega, Or.inr (by simpa using ho)⟩
      · cases h

/-- `[a, b)` is a run of the delimiter character `ch` in `s` -/
def RunOf (s : Str) (a b : Nat) (ch : Char) : Prop :=
  (ch = '*' ∨ ch = '_') ∧ ∀ k, a ≤ k → k < b → s[k]? = some ch

/-- the character before position `i` is neither `*` nor `_` -/
def Harmless (s : Str) (i : Nat) : Prop := 1 ≤ i ∧ ∃ c0, s[i - 1]? = some c0 ∧ c0 ≠ '*' ∧ c0 ≠ '_'

/-- a delimiter that takes part in `process_emphasis` is a run of `*` or of `_` in the source -/
def EOK (s : Str) (d : Delim) : Prop :=
  d.emph = true → ∃ ch, d.type = List.replicate d.number ch ∧ RunOf s d.start d.stop ch

/-- the delimiter characters of an emphasis match -/
structure EmphCh (s : Str) (m : CoreM) : Prop where
  star : m.delimiter = '*' ∨ m.delimiter = '_'
  opening : ∀ k, m.start ≤ k → k < m.ts → s[k]? = some m.delimiter
  closing : ∀ k, m.te ≤ k → k < m.stop → s[k]? = some m.delimiter

structure CInv (s : Str) (hi : Nat) (ds : List Delim) (ms : List CoreM) : Prop where
  dinv : DInv s 0 hi ds ms
  eok : ∀ d ∈ ds, EOK s d
  ch : ∀ m ∈ ms, isEmphM m → EmphCh s m

theorem slice_head {α} (s : List α) (a b : Nat) (h : a < b) : (slice s a b).head? = s[a]? := by
  unfold slice
  rw [List.head?_take, if_neg (by omega), List.head?_drop]

theorem slice_eq_replicate (s : Str) (a b : Nat) (ch : Char) (hb : b ≤ s.length)
    (h : ∀ k, a ≤ k → k < b → s[k]? = some ch) : slice s a b = List.replicate (b - a) ch := by
  apply List.ext_getElem?
  intro k
  unfold slice
  rw [List.getElem?_take, List.getElem?_replicate]
  split
  · rw [List.getElem?_drop]; exact h _ (by omega) (by omega)
  · rfl

theorem EOK_shrink (s : Str) (d d' : Delim) (n : Nat) (h : EOK s d) (hOK : DelimOK d)
    (he : d'.emph = d.emph) (ht : d'.type = d.type.drop n) (hn : d'.number + n = d.number)
    (hs : d.start ≤ d'.start) (hp : d'.stop ≤ d.stop) : EOK s d' := by
  intro hemph
  obtain ⟨ch, h1, h2, h3⟩ := h (he ▸ hemph)
  refine ⟨ch, ?_, h2, fun k hk1 hk2 => h3 k (by omega) (by omega)⟩
  rw [ht, h1, List.drop_replicate]
  congr 1; omega

theorem CInv.step {s : Str} {hi : Nat} (hhi : hi ≤ s.length) {ds ms curr ds' ms' from'}
    (h : CInv s hi ds ms) (hr : StepRel s ds ms curr ds' ms' from') : CInv s hi ds' ms' := by
  refine ⟨h.dinv.step hhi hr, ?_, ?_⟩
  · cases hr with
    | erased _ _ _ c hc => exact fun d hd => h.eok d (List.mem_of_mem_eraseIdx hd)
    | skipped _ _ _ c hc => exact h.eok
    | matched A B C o c _ dch hoe hoo hce hcc hcb hs =>
      obtain ⟨m1, hA, h1⟩ := Chain.split h.dinv.chain
      obtain ⟨hm1, hoOK, h2⟩ := h1
      obtain ⟨m2, hB, h3⟩ := Chain.split h2
      obtain ⟨hm2, hcOK, hCC⟩ := h3
      obtain ⟨hn1, hn2, hn3, hn4⟩ := emphN_bounds o c hoOK hcOK
      intro d' hd'
      rcases List.mem_append.1 hd' with hd' | hd'
      · exact h.eok d' (by simp [hd'])
      rcases List.mem_append.1 hd' with hd' | hd'
      · rcases shrink_spec o (emphN o c) false hoOK hn1 hn3 with ⟨e1, _⟩ | ⟨o', e1, _, hnum, hst, hsp, hem, _, _, _, hty⟩
        · rw [e1] at hd'; cases hd'
        · rw [e1] at hd'; simp only [List.mem_singleton] at hd'; subst hd'
          simp only [Bool.false_eq_true, if_false] at hst hsp
          exact EOK_shrink s o d' _ (h.eok o (by simp)) hoOK hem hty hnum (by omega) (by omega)
      rcases List.mem_append.1 hd' with hd' | hd'
      · rcases shrink_spec c (emphN o c) true hcOK hn1 hn4 with ⟨e1, _⟩ | ⟨c', e1, _, hnum, hst, hsp, hem, _, _, _, hty⟩
        · rw [e1] at hd'; cases hd'
        · rw [e1] at hd'; simp only [List.mem_singleton] at hd'; subst hd'
          simp only [if_true] at hst hsp
          exact EOK_shrink s c d' _ (h.eok c (by simp)) hcOK hem hty hnum (by omega) (by omega)
      · exact h.eok d' (by simp [hd'])
  · cases hr with
    | erased _ _ _ c hc => exact h.ch
    | skipped _ _ _ c hc => exact h.ch
    | matched A B C o c _ dch hoe hoo hce hcc hcb hs =>
      obtain ⟨m1, hA, h1⟩ := Chain.split h.dinv.chain
      obtain ⟨hm1, hoOK, h2⟩ := h1
      obtain ⟨m2, hB, h3⟩ := Chain.split h2
      obtain ⟨hm2, hcOK, hCC⟩ := h3
      obtain ⟨hn1, hn2, hn3, hn4⟩ := emphN_bounds o c hoOK hcOK
      have ho1 := hoOK.span; have hc1 := hcOK.span
      have ho2 := hoOK.pos; have hc2 := hcOK.pos
      intro m hm he
      rcases List.mem_cons.1 hm with rfl | hm
      · obtain ⟨cho, hto, hro1, hro2⟩ := h.eok o (by simp) hoe
        obtain ⟨chc, htc, hrc1, hrc2⟩ := h.eok c (by simp) hce
        have hhead := (closedBy_true_head o c hcb).1
        have hcc' : cho = chc := by
          rw [hto, htc] at hhead
          have e1 : o.number = (o.number - 1) + 1 := by omega
          have e2 : c.number = (c.number - 1) + 1 := by omega
          rw [e1, e2, List.replicate_succ, List.replicate_succ] at hhead
          simpa using hhead
        have hd : dch = cho := by
          have := hro2 (o.stop - emphN o c) (by omega) (by omega)
          rw [hs] at this
          exact Option.some.inj this
        refine ⟨?_, fun k hk1 hk2 => ?_, fun k hk1 hk2 => ?_⟩
        · simp only [emphMatch]; rw [hd]; exact hro1
        · simp only [emphMatch] at hk1 hk2 ⊢
          rw [hd]; exact hro2 k (by omega) (by omega)
        · simp only [emphMatch] at hk1 hk2 ⊢
          rw [hd, hcc']; exact hrc2 k (by omega) (by omega)
      · exact h.ch m hm he

theorem CInv.sub {s : Str} {hi : Nat} {ds ds' : List Delim} {ms : List CoreM} (h : CInv s hi ds ms)
    (hD : DInv s 0 hi ds' ms) (hsub : ∀ d ∈ ds', d ∈ ds) : CInv s hi ds' ms :=
  ⟨hD, fun d hd => h.eok d (hsub d hd), h.ch⟩

theorem EOK_deactivate (s : Str) (d : Delim) (h : EOK s d) : EOK s (deactivate d) := by
  obtain ⟨h1, h2, h3, h4, h5, _⟩ := deactivate_fields d
  intro he
  rw [h5] at he
  rw [h1, h2, h3, h4]
  exact h he

theorem mkDelim_not_emph (s : Str) (a b : Nat) (hab : a < b) (c0 : Char) (h : s[a]? = some c0)
    (h1 : c0 ≠ '*') (h2 : c0 ≠ '_') : EOK s (mkDelim a b s) := by
  intro he
  simp only [mkDelim, slice_head s a b hab, h, Bool.or_eq_true, beq_iff_eq, Option.some.injEq] at he
  rcases he with he | he
  · exact absurd he h1
  · exact absurd he h2


/-- two delimiters, the first before the second: not adjacent, or not both emphasis runs of the
    same character -/
def Sep (x y : Delim) : Prop :=
  x.stop < y.start ∨ ¬(x.emph = true ∧ y.emph = true ∧ x.type.head? = y.type.head?)

/-- no delimiter that ends exactly at `a` is an emphasis run of the character `c` -/
def TightAt (a : Nat) (c : Char) (ds : List Delim) : Prop :=
  ∀ x ∈ ds, x.stop < a ∨ ¬(x.emph = true ∧ x.type.head? = some c)

/-- the full invariant: geometry and nesting (`DInv`), delimiter characters (`CInv`), adjacent
    delimiters are not runs of the same character, emphasis matches have non-empty content -/
structure GInv (s : Str) (hi : Nat) (ds : List Delim) (ms : List CoreM) : Prop where
  cinv : CInv s hi ds ms
  sep : ds.Pairwise Sep
  nonempty : ∀ m ∈ ms, isEmphM m → m.ts < m.te

theorem GInv.sub {s : Str} {hi : Nat} {ds ds' : List Delim} {ms : List CoreM} (h : GInv s hi ds ms)
    (hD : DInv s 0 hi ds' ms) (hsub : ds'.Sublist ds) : GInv s hi ds' ms :=
  ⟨h.cinv.sub hD (fun d hd => hsub.subset hd), h.sep.sublist hsub, h.nonempty⟩

theorem head_shrunk (d d' : Delim) (ch : Char) (n : Nat) (h1 : d.type = List.replicate d.number ch)
    (ht : d'.type = d.type.drop n) (hn : d'.number + n = d.number) (hpos : 1 ≤ d'.number) :
    d'.type.head? = d.type.head? := by
  rw [ht, h1, List.drop_replicate, List.head?_replicate, List.head?_replicate]
  rw [if_neg (by omega), if_neg (by omega)]

theorem GInv.step {s : Str} {hi : Nat} (hhi : hi ≤ s.length) {ds ms curr ds' ms' from'}
    (h : GInv s hi ds ms) (hr : StepRel s ds ms curr ds' ms' from') : GInv s hi ds' ms' := by
  refine ⟨h.cinv.step hhi hr, ?_, ?_⟩
  · cases hr with
    | erased _ _ _ c hc => exact h.sep.sublist (List.eraseIdx_sublist _ _)
    | skipped _ _ _ c hc => exact h.sep
    | matched A B C o c _ dch hoe hoo hce hcc hcb hs =>
      obtain ⟨m1, hA, h1⟩ := Chain.split h.cinv.dinv.chain
      obtain ⟨hm1, hoOK, h2⟩ := h1
      obtain ⟨m2, hB, h3⟩ := Chain.split h2
      obtain ⟨hm2, hcOK, hCC⟩ := h3
      have hm2' := Chain.le hB
      obtain ⟨hn1, hn2, hn3, hn4⟩ := emphN_bounds o c hoOK hcOK
      have ho1 := hoOK.span; have hc1 := hcOK.span
      have ho2 := hoOK.pos; have hc2 := hcOK.pos
      obtain ⟨cho, hto, _⟩ := h.cinv.eok o (by simp) hoe
      obtain ⟨chc, htc, _⟩ := h.cinv.eok c (by simp) hce
      have hsep := h.sep
      rw [List.pairwise_append] at hsep
      obtain ⟨pA, pR, xA⟩ := hsep
      rw [List.pairwise_cons] at pR
      obtain ⟨xo, pBC⟩ := pR
      rw [List.pairwise_append] at pBC
      obtain ⟨pB, pcC, xB⟩ := pBC
      rw [List.pairwise_cons] at pcC
      obtain ⟨xc, pC⟩ := pcC
      have hAC : ∀ x ∈ A, ∀ y ∈ C, Sep x y := fun x hx y hy => xA x hx y (by simp [hy])
      have hAstop : ∀ x ∈ A, x.stop ≤ o.start := fun x hx => by have := hA.mem x hx; omega
      have hCstart : ∀ y ∈ C, c.stop ≤ y.start := fun y hy => (hCC.mem y hy).2.1
      -- the remainder of the opener
      have hO : ∀ o' ∈ shrink o (emphN o c) false,
          (∀ x ∈ A, Sep x o') ∧ (∀ y ∈ C, Sep o' y) ∧ o'.stop < c.start + emphN o c := by
        intro o' ho'
        rcases shrink_spec o (emphN o c) false hoOK hn1 hn3 with ⟨e1, _⟩ | ⟨o'', e1, hOK', hnum, hst, hsp, hem, _, _, _, hty⟩
        · rw [e1] at ho'; cases ho'
        · rw [e1] at ho'; simp only [List.mem_singleton] at ho'; subst ho'
          simp only [Bool.false_eq_true, if_false] at hst hsp
          have hhd := head_shrunk o o' cho _ hto hty hnum hOK'.pos
          refine ⟨fun x hx => ?_, fun y hy => Or.inl (by have := hCstart y hy; omega), by omega⟩
          rcases xA x hx o (by simp) with h' | h'
          · exact Or.inl (by omega)
          · exact Or.inr (by rw [hem, hhd]; exact h')
      -- the remainder of the closer
      have hCl : ∀ c' ∈ shrink c (emphN o c) true,
          (∀ x ∈ A, Sep x c') ∧ (∀ y ∈ C, Sep c' y) ∧ c'.start = c.start + emphN o c := by
        intro c' hc'
        rcases shrink_spec c (emphN o c) true hcOK hn1 hn4 with ⟨e1, _⟩ | ⟨c'', e1, hOK', hnum, hst, hsp, hem, _, _, _, hty⟩
        · rw [e1] at hc'; cases hc'
        · rw [e1] at hc'; simp only [List.mem_singleton] at hc'; subst hc'
          simp only [if_true] at hst hsp
          have hhd := head_shrunk c c' chc _ htc hty hnum hOK'.pos
          refine ⟨fun x hx => Or.inl (by have := hAstop x hx; omega), fun y hy => ?_, hst⟩
          rcases xc y hy with h' | h'
          · exact Or.inl (by omega)
          · exact Or.inr (by rw [hem, hhd]; exact h')
      have hlen : ∀ (d : Delim) (n : Nat) (l : Bool), (shrink d n l).Pairwise Sep := by
        intro d n l
        unfold shrink
        cases delimRemove d n l <;> simp
      rw [List.pairwise_append]
      refine ⟨pA, ?_, fun x hx y hy => ?_⟩
      · rw [List.pairwise_append]
        refine ⟨hlen _ _ _, ?_, fun x hx y hy => ?_⟩
        · rw [List.pairwise_append]
          exact ⟨hlen _ _ _, pC, fun x hx y hy => (hCl x hx).2.1 y hy⟩
        · rcases List.mem_append.1 hy with hy | hy
          · exact Or.inl (by have := (hO x hx).2.2; have := (hCl y hy).2.2; omega)
          · exact (hO x hx).2.1 y hy
      · rcases List.mem_append.1 hy with hy | hy
        · exact (hO y hy).1 x hx
        rcases List.mem_append.1 hy with hy | hy
        · exact (hCl y hy).1 x hx
        · exact hAC x hx y hy
  · cases hr with
    | erased _ _ _ c hc => exact h.nonempty
    | skipped _ _ _ c hc => exact h.nonempty
    | matched A B C o c _ dch hoe hoo hce hcc hcb hs =>
      intro m hm he
      rcases List.mem_cons.1 hm with rfl | hm
      · obtain ⟨m1, hA, h1⟩ := Chain.split h.cinv.dinv.chain
        obtain ⟨hm1, hoOK, h2⟩ := h1
        obtain ⟨m2, hB, h3⟩ := Chain.split h2
        obtain ⟨hm2, hcOK, hCC⟩ := h3
        obtain ⟨hn1, hn2, hn3, hn4⟩ := emphN_bounds o c hoOK hcOK
        have ho1 := hoOK.span
        have hsep := h.sep
        rw [List.pairwise_append] at hsep
        have xo := (List.pairwise_cons.1 hsep.2.1).1 c (by simp)
        have hlt : o.stop < c.start := by
          rcases xo with h' | h'
          · exact h'
          · exact absurd ⟨hoe, hce, (closedBy_true_head o c hcb).1⟩ h'
        simp only [emphMatch]
        omega
      · exact h.nonempty m hm he

theorem processEmphasis_ginv (s : Str) (sb : Option Nat) (hi : Nat) (hhi : hi ≤ s.length)
    (ds : List Delim) (ms : List CoreM) (h : GInv s hi ds ms) :
    ∃ ds' ms', processEmphasis s sb ds ms = .ok (ds', ms') ∧ GInv s hi ds' ms' := by
  obtain ⟨ds', ms', h1, h2⟩ := processEmphasis_inv s sb 0 hi hhi (GInv s hi)
    (fun _ _ h => h.cinv.dinv.chain) (fun _ _ _ _ _ _ h hr => h.step hhi hr) ds ms h
  refine ⟨_, _, h2, ?_⟩
  cases sb with
  | none => exact h1.sub h1.cinv.dinv.nil (List.nil_sublist _)
  | some b => exact h1.sub (h1.cinv.dinv.take b) (List.take_sublist _ _)

theorem findLinkImage_ginv (s : Str) (offset : Nat) (ds : List Delim) (ms : List CoreM) (fn : Footnotes.Table)
    (hi : Nat) (hD : GInv s hi ds ms) (hhi : hi ≤ s.length) (ho : s[offset]? = some ']') :
    ∃ i' ds' ms', findLinkImage s offset ds ms fn = .ok (i', ds', ms') ∧ offset ≤ i' ∧ i' < s.length ∧
      GInv s hi ds' ms' ∧ Harmless s (i' + 1) := by
  have ho' : offset < s.length := (List.getElem?_eq_some_iff.1 ho).1
  have hJ0 : Harmless s (offset + 1) := ⟨by omega, ']', by simpa using ho, by decide, by decide⟩
  unfold findLinkImage
  cases hl : lastBracket ds 0 none with
  | none => exact ⟨_, _, _, rfl, Nat.le_refl _, ho', hD, hJ0⟩
  | some i =>
    simp only
    have hi' : i < ds.length := by
      rcases lastBracket_spec ds 0 none i hl with h | h
      · cases h
      · omega
    rw [List.getElem?_eq_getElem hi']
    simp only
    have herase : GInv s hi (ds.eraseIdx i) ms :=
      hD.sub (hD.cinv.dinv.eraseIdx i) (List.eraseIdx_sublist _ _)
    split
    · exact ⟨_, _, _, rfl, Nat.le_refl _, ho', herase, hJ0⟩
    · cases hm : matchLinkImage s offset ds[i] fn with
      | none => exact ⟨_, _, _, rfl, Nat.le_refl _, ho', herase, hJ0⟩
      | some m =>
        simp only
        obtain ⟨ds1, ms1, hpe, hD1⟩ := processEmphasis_ginv s (some i) hi hhi ds ms hD
        rw [hpe]
        simp only
        obtain ⟨h1, h2, hk⟩ := matchLinkImage_stop s offset _ fn m ho' hm
        obtain ⟨h3, h4⟩ := matchLinkImage_last s offset _ fn m ho hm
        have hne : ¬ isEmphM m := by
          unfold isEmphM
          rcases hk with hk | hk <;> rw [hk] <;> simp
        have hJ : Harmless s (m.stop - 1 + 1) := by
          refine ⟨by omega, ?_⟩
          rcases h4 with h4 | h4
          · exact ⟨')', by simpa using h4, by decide, by decide⟩
          · exact ⟨']', by simpa using h4, by decide, by decide⟩
        have hcons : ∀ ds2, GInv s hi ds2 ms1 → GInv s hi ds2 (m :: ms1) := fun ds2 h =>
          ⟨⟨h.cinv.dinv.cons_other m hne, h.cinv.eok, fun m' hm' he => by
            rcases List.mem_cons.1 hm' with rfl | hm'
            · exact absurd he hne
            · exact h.cinv.ch m' hm' he⟩, h.sep, fun m' hm' he => by
            rcases List.mem_cons.1 hm' with rfl | hm'
            · exact absurd he hne
            · exact h.nonempty m' hm' he⟩
        refine ⟨_, _, _, rfl, by omega, by omega, ?_, hJ⟩
        split
        · refine hcons _ ⟨⟨hD1.cinv.dinv.deactivate, fun d' hd' => ?_, hD1.cinv.ch⟩, ?_, hD1.nonempty⟩
          · obtain ⟨d, hd, rfl⟩ := List.mem_map.1 hd'
            exact EOK_deactivate s d (hD1.cinv.eok d hd)
          · rw [List.pairwise_map]
            refine hD1.sep.imp (fun {x y} hxy => ?_)
            obtain ⟨x1, _, x3, x4, x5, _⟩ := deactivate_fields x
            obtain ⟨y1, _, y3, y4, y5, _⟩ := deactivate_fields y
            show Sep (deactivate x) (deactivate y)
            unfold Sep
            rw [x1, x4, x5, y1, y3, y5]
            exact hxy
        · exact hcons _ hD1

theorem mkDelim_head (s : Str) (a b : Nat) (hab : a < b) : (mkDelim a b s).type.head? = s[a]? := by
  simp only [mkDelim]; exact slice_head s a b hab

theorem GInv.push_ok {s : Str} {hi hi' : Nat} {ds : List Delim} {ms : List CoreM} (h : GInv s hi ds ms)
    (a b : Nat) (h1 : hi ≤ a) (hab : a < b) (h2 : b ≤ hi') (hb : b ≤ s.length) (he : EOK s (mkDelim a b s))
    (hsep : ∀ x ∈ ds, Sep x (mkDelim a b s)) :
    GInv s hi' (ds ++ [mkDelim a b s]) ms :=
  ⟨⟨h.cinv.dinv.push a b h1 hab h2 hb, fun d hd => by
      rcases List.mem_append.1 hd with hd | hd
      · exact h.cinv.eok d hd
      · simp only [List.mem_singleton] at hd; subst hd; exact he, h.cinv.ch⟩,
    List.pairwise_append.2 ⟨h.sep, List.pairwise_singleton _ _, fun x hx y hy => by
      simp only [List.mem_singleton] at hy; subst hy; exact hsep x hx⟩,
    h.nonempty⟩

theorem not_emph_of_head (s : Str) (a b : Nat) (hab : a < b) (c0 : Char) (h : s[a]? = some c0)
    (h1 : c0 ≠ '*') (h2 : c0 ≠ '_') : (mkDelim a b s).emph = false := by
  cases he : (mkDelim a b s).emph with
  | false => rfl
  | true =>
    simp only [mkDelim, slice_head s a b hab, h, Bool.or_eq_true, beq_iff_eq, Option.some.injEq] at he
    rcases he with he | he
    · exact absurd he h1
    · exact absurd he h2

theorem tightAt_push (s : Str) (hi : Nat) (ds : List Delim) (ms : List CoreM) (h : GInv s hi ds ms) (a b : Nat) (c : Char)
    (h1 : hi ≤ a) (hab : a < b)
    (hd : ¬((mkDelim a b s).emph = true ∧ (mkDelim a b s).type.head? = some c)) :
    TightAt b c (ds ++ [mkDelim a b s]) := by
  intro x hx
  rcases List.mem_append.1 hx with hx | hx
  · have := (h.cinv.dinv.chain.mem x hx).2.2
    exact Or.inl (by omega)
  · simp only [List.mem_singleton] at hx; subst hx
    exact Or.inr hd

theorem loopInv_ginv (s : Str) (fn : Footnotes.Table) :
    LoopInv s fn (GInv s) (RunOf s) (Harmless s) TightAt where
  mono := fun hh h => ⟨⟨h.cinv.dinv.mono hh, h.cinv.eok, h.cinv.ch⟩, h.sep, h.nonempty⟩
  push_run := fun {hi hi' ds ms} a b ch h hR hT h1 hab h2 hb => by
    have hhead : (mkDelim a b s).type.head? = some ch := by
      rw [mkDelim_head s a b hab]; exact hR.2 a (Nat.le_refl _) hab
    refine h.push_ok a b h1 hab h2 hb (fun _ =>
      ⟨ch, by simp only [mkDelim]; exact slice_eq_replicate s a b ch hb hR.2, hR⟩) (fun x hx => ?_)
    rcases hT x hx with h' | h'
    · exact Or.inl h'
    · exact Or.inr (fun hh => h' ⟨hh.1, by rw [hh.2.2, hhead]⟩)
  push_br := fun {hi hi' ds ms} i h hc h1 h2 hb => by
    have hne := not_emph_of_head s i (i + 1) (by omega) '[' hc (by decide) (by decide)
    exact h.push_ok i (i + 1) h1 (by omega) h2 hb (fun he => by rw [hne] at he; cases he)
      (fun x hx => Or.inr (fun hh => by rw [hne] at hh; cases hh.2.1))
  push_img := fun {hi hi' ds ms} i h hJ _ h1 h2 hb => by
    obtain ⟨hi1, c0, hc0, hc1, hc2⟩ := hJ
    have hne := not_emph_of_head s (i - 1) (i + 1) (by omega) c0 hc0 hc1 hc2
    exact h.push_ok (i - 1) (i + 1) h1 (by omega) h2 hb (fun he => by rw [hne] at he; cases he)
      (fun x hx => Or.inr (fun hh => by rw [hne] at hh; cases hh.2.1))
  link := fun {hi ds ms} offset h hhi ho => findLinkImage_ginv s offset ds ms fn hi h hhi ho
  T_lt := fun {hi ds ms} i c h hlt x hx => Or.inl (by have := (h.cinv.dinv.chain.mem x hx).2.2; omega)
  T_run := fun {hi ds ms} a b ch c h hR h1 hab hb hne => by
    refine tightAt_push s hi ds ms h a b c h1 hab (fun hh => ?_)
    rw [mkDelim_head s a b hab, hR.2 a (Nat.le_refl _) hab] at hh
    exact hne (Option.some.inj hh.2).symm
  T_br := fun {hi ds ms} i c h hc h1 => by
    have hne := not_emph_of_head s i (i + 1) (by omega) '[' hc (by decide) (by decide)
    exact tightAt_push s hi ds ms h i (i + 1) c h1 (by omega) (fun hh => by rw [hne] at hh; cases hh.1)
  T_img := fun {hi ds ms} i c h hJ h1 => by
    obtain ⟨hi1, c0, hc0, hc1, hc2⟩ := hJ
    have hne := not_emph_of_head s (i - 1) (i + 1) (by omega) c0 hc0 hc1 hc2
    exact tightAt_push s hi ds ms h (i - 1) (i + 1) c h1 (by omega) (fun hh => by rw [hne] at hh; cases hh.1)
  R_new := fun i c hc hcc => ⟨hcc, fun k hk1 hk2 => by
    have : k = i := by omega
    subst this; exact hc⟩
  R_ext := fun a i ch hR hc => ⟨hR.1, fun k hk1 hk2 => by
    by_cases hk : k < i
    · exact hR.2 k hk1 hk
    · have : k = i := by omega
      subst this; exact hc⟩
  J_bang := fun i hc => ⟨by omega, '!', by simpa using hc, by decide, by decide⟩
  J_bs := fun i hc => ⟨by omega, '\\', by simpa using hc, by decide, by decide⟩

/-! ### results -/

/-- `find_core_tokens` returns; its matches (here newest first) satisfy the invariant -/
theorem findCoreTokens_ginv (s : Str) (fn : Footnotes.Table) :
    ∃ ms codes, findCoreTokens s fn = .ok (ms.reverse, codes) ∧ GInv s s.length [] ms := by
  have h0 : GInv s 0 [] [] :=
    ⟨⟨⟨Nat.le_refl _, fun m hm => (by cases hm), List.Pairwise.nil⟩, fun d hd => (by cases hd),
      fun m hm => (by cases hm)⟩, List.Pairwise.nil, fun m hm => (by cases hm)⟩
  obtain ⟨st, ds, h1, hds, h2⟩ := findCoreTokens_loop (loopInv_ginv s fn) h0 (fun c x hx => by cases hx)
  obtain ⟨ds', ms', hpe, hD⟩ := processEmphasis_ginv s none s.length (Nat.le_refl _) ds st.ms h2
  have hms : (if st.inRun.isSome then
      pushDelim st (mkDelim st.start (if !st.escaped then s.length else s.length - 1) s) else st).ms = st.ms := by
    split <;> rfl
  refine ⟨ms', (if st.inRun.isSome then
      pushDelim st (mkDelim st.start (if !st.escaped then s.length else s.length - 1) s) else st).codes.reverse, ?_,
    hD.sub hD.cinv.dinv.nil (List.nil_sublist _)⟩
  unfold findCoreTokens
  rw [h1]
  simp only
  rw [hms, ← hds, hpe]

theorem findCoreTokens_ok (s : Str) (fn : Footnotes.Table) : ∃ r, findCoreTokens s fn = .ok r := by
  obtain ⟨ms, codes, h, _⟩ := findCoreTokens_ginv s fn
  exact ⟨_, h⟩

theorem tokenizeInner_ok (types : List Inline.STok) (fn : Footnotes.Table) (s : Str) :
    ∃ ks, Inline.tokenizeInner types fn s = .ok ks := by
  obtain ⟨r, hr⟩ := findCoreTokens_ok s fn
  unfold Inline.tokenizeInner Inline.findAll
  rw [hr]
  cases h : types.contains Inline.STok.coreTokens <;> simp

theorem emphasis_wellformed (s : Str) (fn : Footnotes.Table) (ms : List CoreM) (codes : List CodeM)
    (h : findCoreTokens s fn = .ok (ms, codes)) : ∀ m ∈ ms, isEmphM m → EmphWF s m ∧ m.ts < m.te := by
  obtain ⟨ms', codes', h', hD⟩ := findCoreTokens_ginv s fn
  rw [h] at h'
  cases h'
  intro m hm he
  exact ⟨(hD.cinv.dinv.wf m (List.mem_reverse.1 hm) he).1, hD.nonempty m (List.mem_reverse.1 hm) he⟩

theorem emphasis_nested (s : Str) (fn : Footnotes.Table) (ms : List CoreM) (codes : List CodeM)
    (h : findCoreTokens s fn = .ok (ms, codes)) : ms.Pairwise (fun older newer => NestRel newer older) := by
  obtain ⟨ms', codes', h', hD⟩ := findCoreTokens_ginv s fn
  rw [h] at h'
  cases h'
  exact List.pairwise_reverse.2 hD.cinv.dinv.nest

/-- The delimiter characters of every emphasis match are all equal to its `delimiter`, which is
    `*` or `_`. -/
theorem emphasis_chars (s : Str) (fn : Footnotes.Table) (ms : List CoreM) (codes : List CodeM)
    (h : findCoreTokens s fn = .ok (ms, codes)) : ∀ m ∈ ms, isEmphM m → EmphCh s m := by
  obtain ⟨ms', codes', h', hD⟩ := findCoreTokens_ginv s fn
  rw [h] at h'
  cases h'
  intro m hm he
  exact hD.cinv.ch m (List.mem_reverse.1 hm) he

end Mistletoe.Core
