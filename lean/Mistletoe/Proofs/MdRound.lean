/-
  Lemmas for C09 (Markdown round trip), prose fragment: what `MarkdownRenderer.render` (model:
  `Model/Markdown.lean`) gives on the tree the parser builds for paragraphs of inert prose lines
  separated by single empty lines, and that tree itself (`Document.mkBlocks` on the parse buffer the
  C14 block theorems compute).  Second part: `k` markers "> " before every line of such a document
  (`qStrs`) — the parse is `k` nested `Quote`s around the parse of the unmarked lines (C04, iterated:
  `tokenize_qLines`, for any lines whose parse does not depend on the parser state), the renderer puts
  the markers back (`renderBlocks_qBlocks`).  `Proofs/MdRoundBlocks.lean` adds ATX headings and thematic
  breaks to the blocks.
-/
import Mistletoe.Model.Markdown
import Mistletoe.Proofs.InertInline
import Mistletoe.Props.C14
import Mistletoe.Props.C04
namespace Mistletoe.MdRound
open Mistletoe Mistletoe.Py Mistletoe.Wrap Mistletoe.Markdown Mistletoe.InertInline Mistletoe.Document

/-! ### the renderer on `proseInlines` -/

/-- the fragments `make_fragments` yields for `proseInlines ts`: each line as a word-wrappable fragment,
    with the fragment "\n" of a soft `LineBreak` between consecutive lines -/
def proseFrags : List Str → List Fragment
  | [] => []
  | t :: rest =>
    match rest with
    | [] => [fragW t]
    | _ :: _ => fragW t :: { text := ['\n'], wordwrap := true, hardLineBreak := false } :: proseFrags rest

theorem proseFrags_cons2 (t t' : Str) (rest : List Str) :
    proseFrags (t :: t' :: rest) =
      fragW t :: { text := ['\n'], wordwrap := true, hardLineBreak := false } :: proseFrags (t' :: rest) := by
  simp [proseFrags]

theorem renderInlines_prose : ∀ (ts : List Str), renderInlines (proseInlines ts) = .ok (proseFrags ts)
  | [] => by simp [proseInlines, proseFrags, renderInlines]
  | [t] => by simp [proseInlines, proseFrags, renderInlines, renderInline]
  | t :: t' :: rest => by
    have ih := renderInlines_prose (t' :: rest)
    rw [proseInlines_cons2, proseFrags_cons2]
    simp only [renderInlines, renderInline, ih]
    simp

theorem contains_nl_false (t : Str) (h : '\n' ∉ t) : t.contains '\n' = false := by
  simpa using h

/-- **plain mode of `fragments_to_lines` on prose fragments**: the lines come back, the first one glued
    to the pending line -/
theorem plainAux_prose : ∀ (rest : List Str) (t cur : Str),
    (∀ x ∈ t :: rest, x ≠ [] ∧ '\n' ∉ x) →
    plainAux (proseFrags (t :: rest)) cur = (cur ++ t) :: rest
  | [], t, cur, h => by
    have ht := h t (by simp)
    have hne : (cur ++ t).isEmpty = false := by
      cases t with
      | nil => exact absurd rfl ht.1
      | cons c r => cases cur <;> rfl
    simp [proseFrags, plainAux, fragW, ht.2, hne]
  | t' :: rest, t, cur, h => by
    have ht := h t (by simp)
    have ih := plainAux_prose rest t' [] (fun x hx => h x (List.mem_cons_of_mem _ hx))
    rw [proseFrags_cons2]
    have e : splitNl ['\n'] = [[], []] := by decide
    simp only [plainAux, fragW, contains_nl_false t ht.2, Bool.false_eq_true, if_false]
    have c : (['\n'] : Str).contains '\n' = true := by decide
    simp only [c, if_true, e]
    simp [ih]

/-- `span_to_lines` (no line limit) of a prose paragraph's children: its lines -/
theorem spanToLines_prose (ts : List Str) (h : ∀ x ∈ ts, x ≠ [] ∧ '\n' ∉ x) :
    spanToLines (proseInlines ts) none = .ok ts := by
  unfold spanToLines
  rw [renderInlines_prose]
  cases ts with
  | nil => simp [proseFrags, fragmentsToLines, plainAux]
  | cons t rest =>
    simp only [fragmentsToLines]
    rw [plainAux_prose rest t [] h]
    simp

/-! ### the tree of a prose document -/

/-- the children of `Document` for paragraphs `p, q₁, q₂, …` (lists of source lines) separated by single
    empty lines, under the Markdown renderer's token lists: `Paragraph`s holding the stripped lines with
    soft line breaks, `BlankLine`s between them; each numbered with its source line -/
def proseBlocks : Nat → List Str → List (List Str) → List Mistletoe.Block
  | n, p, [] => [.paragraph (proseInlines (p.map strip)) n]
  | n, p, q :: rest =>
    .paragraph (proseInlines (p.map strip)) n :: .blankLine (n + p.length) :: proseBlocks (n + p.length + 1) q rest

/-- the lines of the rendering: stripped lines, one empty line between paragraphs -/
def proseOut : List Str → List (List Str) → List Str
  | p, [] => p.map strip
  | p, q :: rest => p.map strip ++ [] :: proseOut q rest

/-- what one prose paragraph has to satisfy on the inline side: lines of the shape text + "\n"
    (`proseLine`), joined stripped text inert -/
def ProsePara (q : List Str) : Prop :=
  q ≠ [] ∧ (∀ l ∈ q, proseLine l = true) ∧ inertBody (joinNl (q.map strip)) = true

theorem strip_lines_ok (q : List Str) (h : ∀ l ∈ q, proseLine l = true) :
    ∀ x ∈ q.map strip, x ≠ [] ∧ '\n' ∉ x := by
  intro x hx
  obtain ⟨l, hl, rfl⟩ := List.mem_map.mp hx
  have f := proseLine_facts l (h l hl)
  exact ⟨f.ne, f.nl⟩

theorem renderBlocks_prose (o : Opts) : ∀ (rest : List (List Str)) (p : List Str) (n : Nat),
    (∀ l ∈ p, proseLine l = true) → (∀ q ∈ rest, ∀ l ∈ q, proseLine l = true) →
    renderBlocks o none (proseBlocks n p rest) = .ok (proseOut p rest)
  | [], p, n, hp, _ => by
    simp only [proseBlocks, proseOut, renderBlocks, renderBlock, spanToLines_prose _ (strip_lines_ok p hp)]
    simp
  | q :: rest, p, n, hp, hr => by
    have ih := renderBlocks_prose o rest q (n + p.length + 1) (hr q (by simp)) (fun x hx => hr x (List.mem_cons_of_mem _ hx))
    simp only [proseBlocks, proseOut, renderBlocks, renderBlock, spanToLines_prose _ (strip_lines_ok p hp), ih]
    simp

theorem mkBlock_prose (cfg : Document.Cfg) (fn : Footnotes.Table) (ls : List Str) (ln o : Nat)
    (ht : ∀ t ∈ cfg.span, inertClass t = true) (hc : cfg.span.count .lineBreak = 1) (h : ProsePara ls) :
    mkBlock cfg fn (.paragraph ls ln o) = .ok (some (.paragraph (proseInlines (ls.map strip)) ln)) := by
  have := mkBlocks_prose cfg fn ls ln o ht hc h.1 h.2.1 h.2.2
  simp only [mkBlocks] at this
  cases hm : mkBlock cfg fn (.paragraph ls ln o) with
  | err e => rw [hm] at this; cases this
  | ok b =>
    rw [hm] at this
    cases b with
    | none => simp at this
    | some x =>
      simp only [Res.ok.injEq, List.cons.injEq, and_true] at this
      rw [this]

/-- **the block-token constructors on the parse buffer of a prose document** (`paraEntries` with
    `BlankLine` as a token type) -/
theorem mkBlocks_paraEntries (cfg : Document.Cfg) (fn : Footnotes.Table)
    (ht : ∀ t ∈ cfg.span, inertClass t = true) (hc : cfg.span.count .lineBreak = 1) :
    ∀ (rest : List (List Str)) (p : List Str) (n : Nat), ProsePara p → (∀ q ∈ rest, ProsePara q) →
    mkBlocks cfg fn (Mistletoe.Props.C14.paraEntries true n p rest) = .ok (proseBlocks n p rest)
  | [], p, n, hp, _ => by
    simp only [Mistletoe.Props.C14.paraEntries, proseBlocks, mkBlocks, mkBlock_prose cfg fn p n n ht hc hp]
  | q :: rest, p, n, hp, hr => by
    have ih := mkBlocks_paraEntries cfg fn ht hc rest q (n + p.length + 1) (hr q (by simp))
      (fun x hx => hr x (List.mem_cons_of_mem _ hx))
    simp only [Mistletoe.Props.C14.paraEntries, proseBlocks, if_true, List.cons_append, List.nil_append, mkBlocks]
    rw [mkBlock_prose cfg fn p n n ht hc hp]
    simp only [mkBlock, ih]

/-! ### the text -/

theorem joinLines_eq : ∀ (ls : List Str), joinLines ls = (ls.map (· ++ ['\n'])).flatten
  | [] => rfl
  | l :: ls => by simp [joinLines, joinLines_eq ls]

theorem joinLines_append (a b : List Str) : joinLines (a ++ b) = joinLines a ++ joinLines b := by
  simp [joinLines_eq]

/-- a line in the renderer's normal form: text + "\n", no whitespace at either end of the text -/
theorem normal_line (l : Str) (h : proseLine l = true) (hn : lstrip l = l) : strip l ++ ['\n'] = l := by
  have := (proseLine_facts l h).eq
  rw [hn] at this
  exact this.symm

theorem joinLines_strip (q : List Str) (h : ∀ l ∈ q, proseLine l = true ∧ lstrip l = l) :
    joinLines (q.map strip) = q.flatten := by
  induction q with
  | nil => rfl
  | cons l q ih =>
    have hl := h l (by simp)
    simp only [List.map_cons, joinLines, List.flatten_cons, ih (fun x hx => h x (List.mem_cons_of_mem _ hx))]
    rw [normal_line l hl.1 hl.2]

theorem joinLines_proseOut : ∀ (rest : List (List Str)) (p : List Str),
    (∀ l ∈ p, proseLine l = true ∧ lstrip l = l) → (∀ q ∈ rest, ∀ l ∈ q, proseLine l = true ∧ lstrip l = l) →
    joinLines (proseOut p rest) = (Mistletoe.Props.C14.joinBlank p rest).flatten
  | [], p, hp, _ => by simp only [proseOut, Mistletoe.Props.C14.joinBlank, joinLines_strip p hp]
  | q :: rest, p, hp, hr => by
    have ih := joinLines_proseOut rest q (hr q (by simp)) (fun x hx => hr x (List.mem_cons_of_mem _ hx))
    simp only [proseOut, Mistletoe.Props.C14.joinBlank, joinLines_append, joinLines_strip p hp, joinLines, ih]
    simp

theorem strip_nl_lines (p : List Str) (hp : ∀ l ∈ p, proseLine l = true ∧ lstrip l = l) :
    (p.map strip).map (· ++ ['\n']) = p := by
  rw [List.map_map]
  conv => rhs; rw [← List.map_id p]
  exact List.map_congr_left (fun l hl => normal_line l (hp l hl).1 (hp l hl).2)

theorem proseOut_lines : ∀ (rest : List (List Str)) (p : List Str),
    (∀ l ∈ p, proseLine l = true ∧ lstrip l = l) → (∀ q ∈ rest, ∀ l ∈ q, proseLine l = true ∧ lstrip l = l) →
    (proseOut p rest).map (· ++ ['\n']) = Mistletoe.Props.C14.joinBlank p rest
  | [], p, hp, _ => by
    simp only [proseOut, Mistletoe.Props.C14.joinBlank, strip_nl_lines p hp]
  | q :: rest, p, hp, hr => by
    have ih := proseOut_lines rest q (hr q (by simp)) (fun x hx => hr x (List.mem_cons_of_mem _ hx))
    simp only [proseOut, Mistletoe.Props.C14.joinBlank, List.map_append, List.map_cons, ih, strip_nl_lines p hp,
      List.nil_append]

/-! ### block quotes around a prose document

  The renderer writes a block quote by putting "> " before every line of its content, the empty lines
  included ("> " is not blanked by `prefix_lines`: it is not all whitespace).  The parser (C04) turns
  lines that all carry the marker "> " into one `Quote` around the parse of the unmarked lines. -/

open Mistletoe.Block (Line Entry Buf St tokenizeBlock quoteSp)
open Mistletoe.Props.C14 (numbered numbered_cons joinBlank paraEntries)

/-- the lines `ss` behind `k` markers "> " -/
def qStrs : Nat → List Str → List Str
  | 0, ss => ss
  | k + 1, ss => (qStrs k ss).map (fun s => '>' :: ' ' :: s)

def qLines : Nat → List Line → List Line
  | 0, L => L
  | k + 1, L => (qLines k L).map quoteSp

def qLine : Nat → Line → Line
  | 0, l => l
  | k + 1, l => quoteSp (qLine k l)

theorem qLines_cons : ∀ (k : Nat) (l : Line) (ls : List Line), qLines k (l :: ls) = qLine k l :: qLines k ls
  | 0, _, _ => rfl
  | k + 1, l, ls => by simp only [qLines, qLine, qLines_cons k l ls, List.map_cons]

theorem qLine_origin : ∀ (k : Nat) (l : Line), (qLine k l).origin = l.origin
  | 0, _ => rfl
  | k + 1, l => by simp only [qLine, quoteSp, qLine_origin k l]

theorem qLines_notab : ∀ (k : Nat) (L : List Line), (∀ l ∈ L, '\t' ∉ l.s) → ∀ l ∈ qLines k L, '\t' ∉ l.s
  | 0, _, h => h
  | k + 1, L, h => by
    intro l hl
    simp only [qLines, List.mem_map] at hl
    obtain ⟨x, hx, rfl⟩ := hl
    have := qLines_notab k L h x hx
    simp only [quoteSp, List.mem_cons, not_or]
    exact ⟨by decide, by decide, this⟩

theorem numbered_qStrs : ∀ (k n : Nat) (ss : List Str), numbered n (qStrs k ss) = qLines k (numbered n ss)
  | 0, _, _ => rfl
  | k + 1, n, ss => by
    simp only [qStrs, qLines, Mistletoe.Props.C04.numbered_map_sp, numbered_qStrs k n ss]

/-- `k` nested `Quote` entries around the entries `E` -/
def qEntries (start o : Nat) (E : List Entry) : Nat → List Entry
  | 0 => E
  | k + 1 => [.quote (qEntries start o E k) false start o]

/-- **`k` markers "> " before every line give `k` nested quotes around the parse** (from C04), for lines
    whose parse does not depend on the state (`h0`; prose documents: C14) -/
theorem tokenize_qLines (cfg : Block.Cfg) (pre post : List Block.BTok) (hty : cfg.types = pre ++ .quote :: post)
    (hnq : .quote ∉ pre) (hnp : .paragraph ∉ pre) (l0 : Line) (ls : List Line) (hnt : ∀ l ∈ l0 :: ls, '\t' ∉ l.s)
    (start : Nat) (E : List Entry) (G : Nat)
    (h0 : ∀ st, tokenizeBlock cfg G (l0 :: ls) start st = .ok ({ entries := E, loose := false }, st)) :
    ∀ (k : Nat) (st : St), ∃ st', tokenizeBlock cfg (G + k * (pre.length + 3)) (qLines k (l0 :: ls)) start st =
        .ok ({ entries := qEntries start l0.origin E k, loose := false }, st') ∧ st'.defs = st.defs
  | 0, st => ⟨st, by simpa [qLines, qEntries] using h0 st, rfl⟩
  | k + 1, st => by
    obtain ⟨st1, h1, hd⟩ := tokenize_qLines cfg pre post hty hnq hnp l0 ls hnt start E G h0 k { st with setext := false }
    rw [qLines_cons] at h1
    have hk := qLines_notab k (l0 :: ls) hnt
    rw [qLines_cons] at hk
    have := Mistletoe.Props.C04.C04_quote_wraps cfg pre post hty hnq hnp (qLine k l0) (qLines k ls) hk start st st1 _ _ h1
    refine ⟨{ st1 with setext := true }, ?_, hd⟩
    have e : G + (k + 1) * (pre.length + 3) = G + k * (pre.length + 3) + (pre.length + 3) := by rw [Nat.succ_mul]; omega
    simp only [qLines, qEntries]
    rw [e, qLines_cons, this, qLine_origin]

/-- the state-independent block parse of a prose document (C14, every state) -/
theorem tokenize_prose_doc (cfg : Block.Cfg) (hpar : .paragraph ∈ cfg.types) (p : List Str) (rest : List (List Str))
    (hp : p ≠ [] ∧ ∀ s ∈ p, Mistletoe.Props.C14.inertLine s = true)
    (hrest : ∀ q ∈ rest, q ≠ [] ∧ ∀ s ∈ q, Mistletoe.Props.C14.inertLine s = true) (gas : Nat) (st : St) :
    tokenizeBlock cfg (gas + (2 * rest.length + cfg.types.length + 4)) (numbered 0 (joinBlank p rest)) 1 st =
      .ok ({ entries := paraEntries (cfg.types.contains .blankLine) 1 p rest,
             loose := !cfg.types.contains .blankLine && !rest.isEmpty }, st) := by
  have hr := Mistletoe.Props.C14.numberedRest_ok rest (0 + p.length) hrest
  rw [Mistletoe.Props.C14.numbered_join]
  have := Mistletoe.Props.C14.C14_blank_separated cfg hpar (numbered 0 p)
    (Mistletoe.Props.C14.numberedRest (0 + p.length) rest)
    (by intro e
        have := congrArg List.length e
        rw [Mistletoe.Props.C14.numbered_length] at this
        exact hp.1 (List.eq_nil_of_length_eq_zero this))
    (fun l hl => hp.2 _ (Mistletoe.Props.C14.numbered_mem _ _ _ hl)) hr.2 1 st gas
  rw [hr.1] at this
  rw [this]
  have d := Mistletoe.Props.C14.docEntries_numbered (cfg.types.contains .blankLine) rest p 0 hp.1 (fun q hq => (hrest q hq).1)
  simp only [Nat.zero_add] at d ⊢
  rw [d]
  cases rest <;> simp [Mistletoe.Props.C14.numberedRest]

/-- `k` nested `Quote` tokens around the blocks `B` -/
def qBlocks (ln : Nat) (B : List Mistletoe.Block) : Nat → List Mistletoe.Block
  | 0 => B
  | k + 1 => [.quote (qBlocks ln B k) ln]

theorem mkBlocks_qEntries (cfg : Document.Cfg) (fn : Footnotes.Table) (start o : Nat) (E : List Entry)
    (B : List Mistletoe.Block) (h : mkBlocks cfg fn E = .ok B) :
    ∀ k, mkBlocks cfg fn (qEntries start o E k) = .ok (qBlocks start B k)
  | 0 => h
  | k + 1 => by
    simp only [qEntries, qBlocks, mkBlocks, mkBlock, mkBlocks_qEntries cfg fn start o E B h k]

theorem prefixLines_quote : ∀ (ls : List Str), prefixLines ls ['>', ' '] none = ls.map (fun s => '>' :: ' ' :: s) := by
  have aux : ∀ (ls : List Str), prefixLinesAux ['>', ' '] ls = ls.map (fun s => '>' :: ' ' :: s) := by
    intro ls
    induction ls with
    | nil => rfl
    | cons l ls ih =>
      simp only [prefixLinesAux, ih, List.map_cons]
      simp [show pyIsSpace '>' = false by decide]
  intro ls
  cases ls with
  | nil => rfl
  | cons l ls =>
    simp only [prefixLines, aux, List.map_cons]
    simp [show pyIsSpace '>' = false by decide]

theorem renderBlocks_qBlocks (o : Opts) (ln : Nat) (B : List Mistletoe.Block) (out : List Str)
    (h : renderBlocks o none B = .ok out) : ∀ k, renderBlocks o none (qBlocks ln B k) = .ok (qStrs k out)
  | 0 => h
  | k + 1 => by
    have ih := renderBlocks_qBlocks o ln B out h k
    have cb : childBudget none 2 = none := rfl
    simp only [qBlocks, qStrs, renderBlocks, renderBlock, cb, ih, prefixLines_quote, List.append_nil]

theorem qStrs_nl : ∀ (k : Nat) (out : List Str), (qStrs k out).map (· ++ ['\n']) = qStrs k (out.map (· ++ ['\n']))
  | 0, _ => rfl
  | k + 1, out => by
    simp only [qStrs, List.map_map, ← qStrs_nl k out]
    rfl

theorem qStrs_ne : ∀ (k : Nat) (ss : List Str), ss ≠ [] → qStrs k ss ≠ []
  | 0, _, h => h
  | k + 1, ss, h => by simpa [qStrs] using qStrs_ne k ss h

theorem qStrs_oneLine : ∀ (k : Nat) (ss : List Str), (∀ l ∈ ss, oneLine l = true) → ∀ l ∈ qStrs k ss, oneLine l = true
  | 0, _, h => h
  | k + 1, ss, h => by
    intro l hl
    simp only [qStrs, List.mem_map] at hl
    obtain ⟨x, hx, rfl⟩ := hl
    have := qStrs_oneLine k ss h x hx
    simp only [oneLine, Bool.and_eq_true, beq_iff_eq, List.all_eq_true] at this ⊢
    obtain ⟨h1, h2⟩ := this
    cases x with
    | nil => simp at h1
    | cons c r =>
      refine ⟨by simpa using h1, ?_⟩
      intro y hy
      have e : ('>' :: ' ' :: c :: r).dropLast = '>' :: ' ' :: (c :: r).dropLast := by simp [List.dropLast]
      rw [e] at hy
      rcases List.mem_cons.mp hy with rfl | hy
      · decide
      rcases List.mem_cons.mp hy with rfl | hy
      · decide
      exact h2 y hy

end Mistletoe.MdRound
