/-
  Lemmas for C09 (Markdown round trip), prose fragment: what `MarkdownRenderer.render` (model:
  `Model/Markdown.lean`) gives on the tree the parser builds for paragraphs of inert prose lines
  separated by single empty lines, and that tree itself (`Document.mkBlocks` on the parse buffer the
  C14 block theorems compute).
-/
import Mistletoe.Model.Markdown
import Mistletoe.Proofs.InertInline
import Mistletoe.Props.C14
namespace Mistletoe.MdRound
open Mistletoe Mistletoe.Py Mistletoe.Wrap Mistletoe.Markdown Mistletoe.InertInline Mistletoe.Document

/-! ### the renderer on `proseInlines` -/

/-- the fragments `make_fragments` yields for `proseInlines ts`: each line as a word-wrappable fragment,
    with the fragment "\n" of a soft `LineBreak` between consecutive lines -/
def proseFrags : List Str → List Fragment
  | [] => []
  | t :: rest =>
    match rest with
    | [] => [fragW t]
    | _ :: _ => fragW t :: { text := ['\n'], wordwrap := true, hardLineBreak := false } :: proseFrags rest

theorem proseFrags_cons2 (t t' : Str) (rest : List Str) :
    proseFrags (t :: t' :: rest) =
      fragW t :: { text := ['\n'], wordwrap := true, hardLineBreak := false } :: proseFrags (t' :: rest) := by
  simp [proseFrags]

theorem renderInlines_prose : ∀ (ts : List Str), renderInlines (proseInlines ts) = .ok (proseFrags ts)
  | [] => by simp [proseInlines, proseFrags, renderInlines]
  | [t] => by simp [proseInlines, proseFrags, renderInlines, renderInline]
  | t :: t' :: rest => by
    have ih := renderInlines_prose (t' :: rest)
    rw [proseInlines_cons2, proseFrags_cons2]
    simp only [renderInlines, renderInline, ih]
    simp

theorem contains_nl_false (t : Str) (h : '\n' ∉ t) : t.contains '\n' = false := by
  simpa using h

/-- **plain mode of `fragments_to_lines` on prose fragments**: the lines come back, the first one glued
    to the pending line -/
theorem plainAux_prose : ∀ (rest : List Str) (t cur : Str),
    (∀ x ∈ t :: rest, x ≠ [] ∧ '\n' ∉ x) →
    plainAux (proseFrags (t :: rest)) cur = (cur ++ t) :: rest
  | [], t, cur, h => by
    have ht := h t (by simp)
    have hne : (cur ++ t).isEmpty = false := by
      cases t with
      | nil => exact absurd rfl ht.1
      | cons c r => cases cur <;> rfl
    simp [proseFrags, plainAux, fragW, ht.2, hne]
  | t' :: rest, t, cur, h => by
    have ht := h t (by simp)
    have ih := plainAux_prose rest t' [] (fun x hx => h x (List.mem_cons_of_mem _ hx))
    rw [proseFrags_cons2]
    have e : splitNl ['\n'] = [[], []] := by decide
    simp only [plainAux, fragW, contains_nl_false t ht.2, Bool.false_eq_true, if_false]
    have c : (['\n'] : Str).contains '\n' = true := by decide
    simp only [c, if_true, e]
    simp [ih]

/-- `span_to_lines` (no line limit) of a prose paragraph's children: its lines -/
theorem spanToLines_prose (ts : List Str) (h : ∀ x ∈ ts, x ≠ [] ∧ '\n' ∉ x) :
    spanToLines (proseInlines ts) none = .ok ts := by
  unfold spanToLines
  rw [renderInlines_prose]
  cases ts with
  | nil => simp [proseFrags, fragmentsToLines, plainAux]
  | cons t rest =>
    simp only [fragmentsToLines]
    rw [plainAux_prose rest t [] h]
    simp

/-! ### the tree of a prose document -/

/-- the children of `Document` for paragraphs `p, q₁, q₂, …` (lists of source lines) separated by single
    empty lines, under the Markdown renderer's token lists: `Paragraph`s holding the stripped lines with
    soft line breaks, `BlankLine`s between them; each numbered with its source line -/
def proseBlocks : Nat → List Str → List (List Str) → List Mistletoe.Block
  | n, p, [] => [.paragraph (proseInlines (p.map strip)) n]
  | n, p, q :: rest =>
    .paragraph (proseInlines (p.map strip)) n :: .blankLine (n + p.length) :: proseBlocks (n + p.length + 1) q rest

/-- the lines of the rendering: stripped lines, one empty line between paragraphs -/
def proseOut : List Str → List (List Str) → List Str
  | p, [] => p.map strip
  | p, q :: rest => p.map strip ++ [] :: proseOut q rest

/-- what one prose paragraph has to satisfy on the inline side: lines of the shape text + "\n"
    (`proseLine`), joined stripped text inert -/
def ProsePara (q : List Str) : Prop :=
  q ≠ [] ∧ (∀ l ∈ q, proseLine l = true) ∧ inertBody (joinNl (q.map strip)) = true

theorem strip_lines_ok (q : List Str) (h : ∀ l ∈ q, proseLine l = true) :
    ∀ x ∈ q.map strip, x ≠ [] ∧ '\n' ∉ x := by
  intro x hx
  obtain ⟨l, hl, rfl⟩ := List.mem_map.mp hx
  have f := proseLine_facts l (h l hl)
  exact ⟨f.ne, f.nl⟩

theorem renderBlocks_prose (o : Opts) : ∀ (rest : List (List Str)) (p : List Str) (n : Nat),
    (∀ l ∈ p, proseLine l = true) → (∀ q ∈ rest, ∀ l ∈ q, proseLine l = true) →
    renderBlocks o none (proseBlocks n p rest) = .ok (proseOut p rest)
  | [], p, n, hp, _ => by
    simp only [proseBlocks, proseOut, renderBlocks, renderBlock, spanToLines_prose _ (strip_lines_ok p hp)]
    simp
  | q :: rest, p, n, hp, hr => by
    have ih := renderBlocks_prose o rest q (n + p.length + 1) (hr q (by simp)) (fun x hx => hr x (List.mem_cons_of_mem _ hx))
    simp only [proseBlocks, proseOut, renderBlocks, renderBlock, spanToLines_prose _ (strip_lines_ok p hp), ih]
    simp

theorem mkBlock_prose (cfg : Document.Cfg) (fn : Footnotes.Table) (ls : List Str) (ln o : Nat)
    (ht : ∀ t ∈ cfg.span, inertClass t = true) (hc : cfg.span.count .lineBreak = 1) (h : ProsePara ls) :
    mkBlock cfg fn (.paragraph ls ln o) = .ok (some (.paragraph (proseInlines (ls.map strip)) ln)) := by
  have := mkBlocks_prose cfg fn ls ln o ht hc h.1 h.2.1 h.2.2
  simp only [mkBlocks] at this
  cases hm : mkBlock cfg fn (.paragraph ls ln o) with
  | err e => rw [hm] at this; cases this
  | ok b =>
    rw [hm] at this
    cases b with
    | none => simp at this
    | some x =>
      simp only [Res.ok.injEq, List.cons.injEq, and_true] at this
      rw [this]

/-- **the block-token constructors on the parse buffer of a prose document** (`paraEntries` with
    `BlankLine` as a token type) -/
theorem mkBlocks_paraEntries (cfg : Document.Cfg) (fn : Footnotes.Table)
    (ht : ∀ t ∈ cfg.span, inertClass t = true) (hc : cfg.span.count .lineBreak = 1) :
    ∀ (rest : List (List Str)) (p : List Str) (n : Nat), ProsePara p → (∀ q ∈ rest, ProsePara q) →
    mkBlocks cfg fn (Mistletoe.Props.C14.paraEntries true n p rest) = .ok (proseBlocks n p rest)
  | [], p, n, hp, _ => by
    simp only [Mistletoe.Props.C14.paraEntries, proseBlocks, mkBlocks, mkBlock_prose cfg fn p n n ht hc hp]
  | q :: rest, p, n, hp, hr => by
    have ih := mkBlocks_paraEntries cfg fn ht hc rest q (n + p.length + 1) (hr q (by simp))
      (fun x hx => hr x (List.mem_cons_of_mem _ hx))
    simp only [Mistletoe.Props.C14.paraEntries, proseBlocks, if_true, List.cons_append, List.nil_append, mkBlocks]
    rw [mkBlock_prose cfg fn p n n ht hc hp]
    simp only [mkBlock, ih]

/-! ### the text -/

theorem joinLines_eq : ∀ (ls : List Str), joinLines ls = (ls.map (· ++ ['\n'])).flatten
  | [] => rfl
  | l :: ls => by simp [joinLines, joinLines_eq ls]

theorem joinLines_append (a b : List Str) : joinLines (a ++ b) = joinLines a ++ joinLines b := by
  simp [joinLines_eq]

/-- a line in the renderer's normal form: text + "\n", no whitespace at either end of the text -/
theorem normal_line (l : Str) (h : proseLine l = true) (hn : lstrip l = l) : strip l ++ ['\n'] = l := by
  have := (proseLine_facts l h).eq
  rw [hn] at this
  exact this.symm

theorem joinLines_strip (q : List Str) (h : ∀ l ∈ q, proseLine l = true ∧ lstrip l = l) :
    joinLines (q.map strip) = q.flatten := by
  induction q with
  | nil => rfl
  | cons l q ih =>
    have hl := h l (by simp)
    simp only [List.map_cons, joinLines, List.flatten_cons, ih (fun x hx => h x (List.mem_cons_of_mem _ hx))]
    rw [normal_line l hl.1 hl.2]

theorem joinLines_proseOut : ∀ (rest : List (List Str)) (p : List Str),
    (∀ l ∈ p, proseLine l = true ∧ lstrip l = l) → (∀ q ∈ rest, ∀ l ∈ q, proseLine l = true ∧ lstrip l = l) →
    joinLines (proseOut p rest) = (Mistletoe.Props.C14.joinBlank p rest).flatten
  | [], p, hp, _ => by simp only [proseOut, Mistletoe.Props.C14.joinBlank, joinLines_strip p hp]
  | q :: rest, p, hp, hr => by
    have ih := joinLines_proseOut rest q (hr q (by simp)) (fun x hx => hr x (List.mem_cons_of_mem _ hx))
    simp only [proseOut, Mistletoe.Props.C14.joinBlank, joinLines_append, joinLines_strip p hp, joinLines, ih]
    simp

end Mistletoe.MdRound
