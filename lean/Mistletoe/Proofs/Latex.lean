/-
  Helper lemmas for C17.
-/
import Mistletoe.Model.PredLatex
namespace Mistletoe.Latex
open Mistletoe Mistletoe.Escape Mistletoe.PredLatex

/-! ### Text and URL safety of the escapers -/

theorem SafeText.append {a b : Str} (ha : SafeText a) (hb : SafeText b) : SafeText (a ++ b) := by
  induction ha with
  | nil => simpa using hb
  | char c h _ ih => exact SafeText.char c h ih
  | tok t h _ ih => rw [List.append_assoc]; exact SafeText.tok t h ih

theorem UrlSafe.append {a b : Str} (ha : UrlSafe a) (hb : UrlSafe b) : UrlSafe (a ++ b) := by
  induction ha with
  | nil => simpa using hb
  | char c h _ ih => exact UrlSafe.char c h ih
  | tok t h _ ih => rw [List.append_assoc]; exact UrlSafe.tok t h ih

/-- Decidable sufficient condition for one table entry. -/
def textEntryOk (e : Str) : Bool := escTokens.contains e || e.all (fun c => !special c)

theorem safeText_of_all (e : Str) (h : e.all (fun c => !special c) = true) : SafeText e := by
  induction e with
  | nil => exact SafeText.nil
  | cons c cs ih =>
    simp only [List.all_cons, Bool.and_eq_true, Bool.not_eq_true'] at h
    exact SafeText.char c h.1 (ih h.2)

theorem safeText_of_entryOk (e : Str) (h : textEntryOk e = true) : SafeText e := by
  unfold textEntryOk at h
  rcases Bool.or_eq_true_iff.mp h with h | h
  · have : e ∈ escTokens := by simpa using h
    have := SafeText.tok e this SafeText.nil
    simpa using this
  · exact safeText_of_all e h

/-- sequences of `\%XX` (percent-encoded bytes, LaTeX-escaped) -/
def urlEntryOk (e : Str) : Bool :=
  urlTokens.contains e || e.all (fun c => !urlSpecial c)
  || (e.take 2 == ['\\', '%'] && (e.drop 2).all (fun c => !urlSpecial c))

theorem urlSafe_of_all (e : Str) (h : e.all (fun c => !urlSpecial c) = true) : UrlSafe e := by
  induction e with
  | nil => exact UrlSafe.nil
  | cons c cs ih =>
    simp only [List.all_cons, Bool.and_eq_true, Bool.not_eq_true'] at h
    exact UrlSafe.char c h.1 (ih h.2)

theorem urlSafe_of_entryOk (e : Str) (h : urlEntryOk e = true) : UrlSafe e := by
  unfold urlEntryOk at h
  rcases Bool.or_eq_true_iff.mp h with h | h
  · rcases Bool.or_eq_true_iff.mp h with h | h
    · have : e ∈ urlTokens := by simpa using h
      have := UrlSafe.tok e this UrlSafe.nil
      simpa using this
    · exact urlSafe_of_all e h
  · simp only [Bool.and_eq_true, beq_iff_eq] at h
    have : e = ['\\', '%'] ++ e.drop 2 := by
      conv => lhs; rw [← List.take_append_drop 2 e]
      rw [h.1]
    rw [this]
    exact UrlSafe.tok _ (by decide) (urlSafe_of_all _ h.2)

theorem getD_mem_of_lt {α} (l : List α) (i : Nat) (d : α) (h : i < l.length) : l.getD i d ∈ l := by
  rw [← List.getElem_eq_getD (h := h) d]; exact List.getElem_mem h

theorem special_of_ge (c : Char) (h : ¬ c.toNat < 128) : special c = false := by
  unfold special
  have hne : ∀ k : Char, k.toNat < 128 → (c == k) = false := by
    intro k hk
    apply beq_false_of_ne
    intro e; subst e; exact h hk
  simp [hne '$' (by decide), hne '#' (by decide), hne '{' (by decide), hne '}' (by decide), hne '&' (by decide),
    hne '_' (by decide), hne '%' (by decide), hne '^' (by decide), hne '\\' (by decide)]

/-- **`render_raw_text` escapes every special character**, for every string. -/
theorem safeText_latexRawText (s : Str) : SafeText (latexRawText s) := by
  unfold latexRawText mapChars
  induction s with
  | nil => exact SafeText.nil
  | cons c cs ih =>
    rw [List.flatMap_cons]
    refine SafeText.append ?_ ih
    split
    · rename_i h
      have hlen : Gen.Chains.latexRawText.length = 128 := by decide +kernel
      have hall : Gen.Chains.latexRawText.all textEntryOk = true := by decide +kernel
      exact safeText_of_entryOk _ (List.all_eq_true.mp hall _ (getD_mem_of_lt _ _ _ (by omega)))
    · rename_i h
      exact SafeText.char c (special_of_ge c h) SafeText.nil

def hexOk : Bool := hexDigits.all (fun c => !urlSpecial c)

theorem hexDigit_mem (n : Nat) : hexDigit n ∈ hexDigits := by
  unfold hexDigit
  apply getD_mem_of_lt
  have : hexDigits.length = 16 := by decide
  omega

theorem urlSafe_pct (b : Nat) : UrlSafe ('\\' :: pctByte b) := by
  have h : ∀ c ∈ hexDigits, urlSpecial c = false := by decide
  have : '\\' :: pctByte b = ['\\', '%'] ++ [hexDigit (b / 16), hexDigit (b % 16)] := rfl
  rw [this]
  exact UrlSafe.tok _ (by decide)
    (UrlSafe.char _ (h _ (hexDigit_mem _)) (UrlSafe.char _ (h _ (hexDigit_mem _)) UrlSafe.nil))

theorem urlSafe_latexPctUtf8 (c : Char) : UrlSafe (latexPctUtf8 c) := by
  unfold latexPctUtf8
  generalize utf8 c.toNat = bs
  induction bs with
  | nil => exact UrlSafe.nil
  | cons b bs ih => rw [List.flatMap_cons]; exact UrlSafe.append (urlSafe_pct b) ih

/-- **`escape_url` never lets a brace, a backslash or a raw `%`/`#` into a URL argument.** -/
theorem urlSafe_latexEscapeUrl (s : Str) : UrlSafe (latexEscapeUrl s) := by
  unfold latexEscapeUrl mapChars
  induction s with
  | nil => exact UrlSafe.nil
  | cons c cs ih =>
    rw [List.flatMap_cons]
    refine UrlSafe.append ?_ ih
    split
    · rename_i h
      have hlen : Gen.Chains.latexEscapeUrl.length = 128 := by decide +kernel
      have hall : Gen.Chains.latexEscapeUrl.all urlEntryOk = true := by decide +kernel
      exact urlSafe_of_entryOk _ (List.all_eq_true.mp hall _ (getD_mem_of_lt _ _ _ (by omega)))
    · exact urlSafe_latexPctUtf8 c

/-! ### Well-formed event lists -/

def WF (evs : List Ev) : Prop := Balanced evs ∧ ∀ e ∈ evs, EvOk e

theorem Balanced.append {a b : List Ev} (ha : Balanced a) (hb : Balanced b) : Balanced (a ++ b) := by
  induction ha with
  | nil => simpa using hb
  | lit s _ ih => exact Balanced.lit s ih
  | text s _ ih => exact Balanced.text s ih
  | url s _ ih => exact Balanced.url s ih
  | verb d s _ ih => exact Balanced.verb d s ih
  | listing s _ ih => exact Balanced.listing s ih
  | math s _ ih => exact Balanced.math s ih
  | @group pre inner rest hi _ _ ih2 =>
    have : Ev.op pre :: (inner ++ Ev.cl :: rest) ++ b = Ev.op pre :: (inner ++ Ev.cl :: (rest ++ b)) := by simp
    rw [this]; exact Balanced.group pre hi ih2
  | @env e inner rest hi _ _ ih2 =>
    have : Ev.bgn e :: (inner ++ Ev.nd e :: rest) ++ b = Ev.bgn e :: (inner ++ Ev.nd e :: (rest ++ b)) := by simp
    rw [this]; exact Balanced.env e hi ih2

theorem WF.nil : WF [] := ⟨Balanced.nil, by simp⟩

theorem WF.append {a b : List Ev} (ha : WF a) (hb : WF b) : WF (a ++ b) :=
  ⟨Balanced.append ha.1 hb.1, by
    intro e he
    rcases List.mem_append.mp he with h | h
    · exact ha.2 e h
    · exact hb.2 e h⟩

theorem WF.lit (s : String) (h : s.toList ∈ literals := by decide) : WF [L s] :=
  ⟨Balanced.lit _ Balanced.nil, by simp [L, EvOk, h]⟩

theorem WF.text (s : Str) (h : SafeText s) : WF [Ev.text s] :=
  ⟨Balanced.text _ Balanced.nil, by simp [EvOk, h]⟩

theorem WF.url (s : Str) (h : UrlSafe s) : WF [Ev.url s] :=
  ⟨Balanced.url _ Balanced.nil, by simp [EvOk, h]⟩

theorem WF.group (cmd : String) {inner : List Ev} (hc : cmd.toList ∈ commands := by decide) (hi : WF inner) :
    WF (group cmd inner) := by
  unfold Latex.group
  refine ⟨?_, ?_⟩
  · have := Balanced.group cmd.toList hi.1 Balanced.nil
    simpa using this
  · intro e he
    simp only [List.mem_append, List.mem_singleton] at he
    rcases he with (rfl | he) | rfl
    · exact hc
    · exact hi.2 e he
    · trivial

theorem WF.env (e : String) {inner : List Ev} (he : e.toList ∈ environments := by decide) (hi : WF inner) :
    WF ([Ev.bgn e.toList] ++ inner ++ [Ev.nd e.toList]) := by
  refine ⟨?_, ?_⟩
  · have := Balanced.env e.toList hi.1 Balanced.nil
    simpa using this
  · intro x hx
    simp only [List.mem_append, List.mem_singleton] at hx
    rcases hx with (rfl | hx) | rfl
    · exact he
    · exact hi.2 x hx
    · exact he

theorem verbDelim_spec (c : Str) (d : Char) (h : verbDelim c = some d) :
    d ∈ Gen.Chains.verbDelimiters ∧ d ∉ c := by
  unfold verbDelim at h
  have h1 := List.mem_of_find?_eq_some h
  have h2 := List.find?_some h
  refine ⟨h1, ?_⟩
  simpa using h2

mutual
theorem inline_wf : ∀ (i : Inline), WF (renderInline i)
  | .rawText c => WF.text _ (safeText_latexRawText c)
  | .strong _ k => WF.group "\\textbf" (by decide) (inlines_wf k)
  | .emphasis _ k => WF.group "\\textit" (by decide) (inlines_wf k)
  | .inlineCode _ _ c => by
    simp only [renderInline]
    split
    · rename_i d hd
      exact ⟨Balanced.verb _ _ Balanced.nil, by
        intro e he; simp only [List.mem_singleton] at he; subst he; exact verbDelim_spec c d hd⟩
    · exact WF.nil
  | .strikethrough k => WF.group "\\sout" (by decide) (inlines_wf k)
  | .image src _ _ _ _ _ => by
    simp only [renderInline]
    exact WF.append (WF.append (WF.lit "\n") (WF.group "\\includegraphics" (by decide) (WF.url _ (urlSafe_latexEscapeUrl src)))) (WF.lit "\n")
  | .link target _ _ _ _ k => by
    simp only [renderInline]
    have h1 := WF.group "\\href" (by decide) (WF.url _ (urlSafe_latexEscapeUrl target))
    have h2 := WF.group "" (by decide) (inlines_wf k)
    have := WF.append h1 h2
    simpa [Latex.group] using this
  | .autoLink target _ => WF.group "\\url" (by decide) (WF.url _ (urlSafe_latexEscapeUrl target))
  | .escapeSequence c => WF.text _ (safeText_latexRawText c)
  | .lineBreak _ soft => by
    simp only [renderInline]
    split
    · exact WF.lit "\n"
    · exact WF.lit "\\newline\n"
  | .math c => ⟨Balanced.math _ Balanced.nil, by simp [renderInline, EvOk]⟩
  | .htmlSpan _ => WF.nil
  | .githubWiki _ _ => WF.nil
  | .xwikiMacroStart _ => WF.nil
  | .xwikiMacroEnd _ => WF.nil
  | .linkRefDef .. => WF.nil
theorem inlines_wf : ∀ (is : List Inline), WF (renderInlines is)
  | [] => WF.nil
  | i :: is => WF.append (inline_wf i) (inlines_wf is)
end

theorem sectionCmd_ok (l : Nat) : (sectionCmd l).toList ∈ commands := by
  unfold sectionCmd
  split
  · decide
  · split <;> decide

theorem alignLetter_lit (a : Option Nat) : WF [L (alignLetter a)] := by
  unfold alignLetter
  split
  · exact WF.lit "l"
  · exact WF.lit "c"
  · exact WF.lit "r"

theorem sepLits_wf : ∀ (cols : List (Option Nat)), WF (sepLits (cols.map alignLetter))
  | [] => WF.nil
  | [a] => alignLetter_lit a
  | a :: b :: rest => by
    have := WF.append (WF.append (alignLetter_lit a) (WF.lit " ")) (sepLits_wf (b :: rest))
    simpa [sepLits] using this

theorem alignSpec_wf (cols : List (Option Nat)) : WF (alignSpec cols) := by
  unfold alignSpec
  split
  · exact WF.nil
  · exact WF.group "" (by decide) (sepLits_wf cols)

theorem codeBlock_wf (lang content : Str) : WF (codeBlock lang content) := by
  have hl : WF [Ev.listing content] := ⟨Balanced.listing _ Balanced.nil, by simp [EvOk]⟩
  have inner := WF.append (WF.append (WF.append (WF.lit "[language=") (WF.text _ (safeText_latexRawText lang))) (WF.lit "]\n")) hl
  have := WF.append (WF.append (WF.lit "\n") (WF.env "lstlisting" (by decide) inner)) (WF.lit "\n")
  simpa [codeBlock] using this

theorem sepCells_wf : ∀ (cs : List (List Ev)), (∀ c ∈ cs, WF c) → WF (sepCells cs)
  | [], _ => WF.nil
  | [c], h => by simpa [sepCells] using h c (List.mem_cons_self ..)
  | c :: d :: rest, h => by
    simp only [sepCells]
    exact WF.append (WF.append (h c (List.mem_cons_self ..)) (WF.lit " & "))
      (sepCells_wf (d :: rest) (fun x hx => h x (List.mem_cons_of_mem _ hx)))

theorem tabular_wf (spec head body : List Ev) (hs : WF spec) (hh : WF head) (hb : WF body) :
    WF ([Ev.bgn "tabular".toList] ++ spec ++ [L "\n"] ++ head ++ body ++ [Ev.nd "tabular".toList, L "\n"]) := by
  have := WF.append (WF.env "tabular" (by decide) (WF.append (WF.append (WF.append hs (WF.lit "\n")) hh) hb)) (WF.lit "\n")
  simpa using this

mutual
theorem block_wf : ∀ (b : Block), WF (renderBlock b)
  | .paragraph k _ => by
    simp only [renderBlock]; exact WF.append (WF.append (WF.lit "\n") (inlines_wf k)) (WF.lit "\n")
  | .heading l _ k _ => by
    simp only [renderBlock]
    exact WF.append (WF.append (WF.lit "\n") (WF.group _ (sectionCmd_ok l) (inlines_wf k))) (WF.lit "\n")
  | .setextHeading l _ k _ => by
    simp only [renderBlock]
    exact WF.append (WF.append (WF.lit "\n") (WF.group _ (sectionCmd_ok l) (inlines_wf k))) (WF.lit "\n")
  | .quote kids _ => by
    have := WF.append (WF.env "displayquote" (by decide) (WF.append (WF.lit "\n") (blocks_wf kids))) (WF.lit "\n")
    simpa [renderBlock] using this
  | .blockCode c _ => codeBlock_wf [] c
  | .codeFence lang _ _ _ c _ => codeBlock_wf lang c
  | .list _ start items _ => by
    simp only [renderBlock]
    cases start with
    | none =>
      have := WF.append (WF.env "itemize" (by decide) (WF.append (WF.lit "\n") (blocks_wf items))) (WF.lit "\n")
      simpa using this
    | some n =>
      have := WF.append (WF.env "enumerate" (by decide) (WF.append (WF.lit "\n") (blocks_wf items))) (WF.lit "\n")
      simpa using this
  | .listItem _ _ _ _ kids _ => by
    simp only [renderBlock]; exact WF.append (WF.append (WF.lit "\\item ") (blocks_wf kids)) (WF.lit "\n")
  | .table cols header rows _ => by
    simp only [renderBlock]
    exact tabular_wf _ _ _ (alignSpec_wf cols) (header_wf header) (blocks_wf rows)
  | .tableRow _ cells _ => by
    simp only [renderBlock]
    exact WF.append (sepCells_wf _ (cellsL_wf cells)) (WF.lit " \\\\\n")
  | .tableCell _ k _ => by simp only [renderBlock]; exact inlines_wf k
  | .thematicBreak _ _ => WF.lit "\n\\hrulefill\n"
  | .htmlBlock _ _ => WF.nil
  | .blankLine _ => WF.nil
  | .linkRefDefBlock _ _ => WF.nil
theorem header_wf : ∀ (hs : List Block), WF (renderHeader hs)
  | [] => WF.nil
  | h :: _ => by simp only [renderHeader]; exact WF.append (row_wf h) (WF.lit "\\hline\n")
theorem row_wf : ∀ (r : Block), WF (renderRow r)
  | .tableRow _ cells _ => by
    simp only [renderRow]
    exact WF.append (sepCells_wf _ (cellsL_wf cells)) (WF.lit " \\\\\n")
  | .paragraph .. => WF.nil
  | .heading .. => WF.nil
  | .setextHeading .. => WF.nil
  | .quote .. => WF.nil
  | .blockCode .. => WF.nil
  | .codeFence .. => WF.nil
  | .list .. => WF.nil
  | .listItem .. => WF.nil
  | .table .. => WF.nil
  | .tableCell .. => WF.nil
  | .thematicBreak .. => WF.nil
  | .htmlBlock .. => WF.nil
  | .blankLine .. => WF.nil
  | .linkRefDefBlock .. => WF.nil
theorem cellsL_wf : ∀ (cs : List Block), ∀ c ∈ renderCellsL cs, WF c
  | [], c, h => by simp [renderCellsL] at h
  | b :: bs, c, h => by
    simp only [renderCellsL, List.mem_cons] at h
    rcases h with rfl | h
    · exact block_wf b
    · exact cellsL_wf bs c h
theorem blocks_wf : ∀ (bs : List Block), WF (renderBlocks bs)
  | [] => WF.nil
  | b :: bs => WF.append (block_wf b) (blocks_wf bs)
end

theorem pkg_lit (p : Pkg) : WF [L p.line] := by
  cases p <;> exact WF.lit _

theorem pkgs_wf : ∀ (ps : List Pkg), WF (ps.map (fun p => L p.line))
  | [] => WF.nil
  | p :: ps => by
    have := WF.append (pkg_lit p) (pkgs_wf ps)
    simpa using this

theorem doc_wf (d : Doc) : WF (renderDoc d) := by
  unfold renderDoc
  have h1 := WF.append (WF.group "\\documentclass" (by decide) (WF.lit "article")) (WF.lit "\n")
  have h2 := WF.append (WF.env "document" (by decide) (WF.append (WF.lit "\n") (blocks_wf d.kids))) (WF.lit "\n")
  have := WF.append (WF.append h1 (pkgs_wf (dedup (pkgsBlocks d.kids) []))) h2
  simpa using this

end Mistletoe.Latex
