/-
  C05 and C04 at the level of the DOCUMENT (the token tree `Document(lines)` returns), lifted from the
  block-phase theorems (`Props/C05_Lists.lean`, `Props/C04.lean`, `Props/C04_General.lean`) through
  `block_tokenizer.make_tokens` (`Document.mkBlocks`: token constructors + inline phase).

  1. `mkBlocks_append`: `make_tokens` of a concatenated buffer = the two token lists concatenated, first exception
     first (`rapp`).  `mkBlock_shift` / `mkBlocks_shift` / `mkItems_shift`: raising every line number of a buffer
     (`shiftEntries k`) raises every `line_number` of the tokens (`shiftBlocks k`: children of quotes, lists, items,
     table header, rows and cells included) and changes nothing else - same content, same inline children, same
     exception.  `blocksLns_shift`: what `shiftBlocks` does to the (kind, line_number) listing of `Proofs/DocLines`.
  2. `tokenizeBlock_pre`: the block phase never reads `St.defs` (frame property).
     `C05_document_eq` / `C05_document` / `C05_document_str` / `C05_document_checked`: neither part defines link
     references ⇒ `Document(A + ["\n"] + B)` = A's children ++ B's children shifted by `A.length + 1`, exceptions of
     the inline phase included (`joinDocs`).  `C05_document_general` (definitions allowed): the children are made
     from the two buffers with the JOINT first-wins table; `C05_document_state`: the same with B read in A's state.
  3. `C04_quote_document_eq` / `C04_quote_document` / `_bare` / `_checked`: one `Quote` on line 1 around the children
     of `Document(text)`, same numbers, same table.  `C04_item_document_partial` / `_h2_partial`: one `List` with one
     `ListItem` around the children of the document of the text (spaces-only lines emptied).
  4. Checkable forms, kernel-evaluated instances; every example was run on the real code (numbers in the comments).
-/
import Mistletoe.Props.C05_Lists
import Mistletoe.Props.C04_General
import Mistletoe.Props.C07_Order
import Mistletoe.Proofs.DocLines
namespace Mistletoe.DocLevel
open Mistletoe Mistletoe.Py Mistletoe.Scan Mistletoe.Block Mistletoe.Document

/-! ### 1. `make_tokens` on a concatenated buffer, and on a buffer with shifted line numbers -/

/-- sequencing of two results that are lists: the first error in evaluation order, else the concatenation -/
def rapp {α} : Res (List α) → Res (List α) → Res (List α)
  | .err e, _ => .err e
  | .ok _, .err e => .err e
  | .ok a, .ok b => .ok (a ++ b)

@[simp] theorem rapp_ok_ok {α} (a b : List α) : rapp (.ok a) (.ok b) = .ok (a ++ b) := rfl
@[simp] theorem rapp_err {α} (e : Err) (r : Res (List α)) : rapp (.err e) r = .err e := rfl
@[simp] theorem rapp_ok_err {α} (a : List α) (e : Err) : rapp (.ok a) (.err e) = .err e := rfl

/-- **`make_tokens` is a homomorphism for concatenation**: the tokens of `es₁ ++ es₂` are the tokens of `es₁`
    followed by those of `es₂`; an exception raised for an entry of `es₁` comes first. -/
theorem mkBlocks_append (cfg : Document.Cfg) (fn : Footnotes.Table) : ∀ (es₁ es₂ : List Entry),
    mkBlocks cfg fn (es₁ ++ es₂) = rapp (mkBlocks cfg fn es₁) (mkBlocks cfg fn es₂)
  | [], es₂ => by
    simp only [List.nil_append, mkBlocks]
    cases mkBlocks cfg fn es₂ <;> rfl
  | e :: es, es₂ => by
    simp only [List.cons_append, mkBlocks]
    rw [mkBlocks_append cfg fn es es₂]
    cases mkBlock cfg fn e with
    | err x => rfl
    | ok b =>
      cases mkBlocks cfg fn es with
      | err x => rfl
      | ok bs =>
        cases mkBlocks cfg fn es₂ with
        | err x => rfl
        | ok cs => cases b <;> simp

mutual
/-- add `k` to the `line_number` of a block token and of every token nested in it: children of quotes,
    lists and list items, table header, rows and cells -/
def shiftBlock (k : Nat) : Mistletoe.Block → Mistletoe.Block
  | .paragraph kids ln => .paragraph kids (ln + k)
  | .heading lv cl kids ln => .heading lv cl kids (ln + k)
  | .setextHeading lv ul kids ln => .setextHeading lv ul kids (ln + k)
  | .quote kids ln => .quote (shiftBlocks k kids) (ln + k)
  | .blockCode c ln => .blockCode c (ln + k)
  | .codeFence lang ind dl info c ln => .codeFence lang ind dl info c (ln + k)
  | .list loose start items ln => .list loose start (shiftBlocks k items) (ln + k)
  | .listItem ld ind pre loose kids ln => .listItem ld ind pre loose (shiftBlocks k kids) (ln + k)
  | .table al header rows ln => .table al (shiftBlocks k header) (shiftBlocks k rows) (ln + k)
  | .tableRow al cells ln => .tableRow al (shiftBlocks k cells) (ln + k)
  | .tableCell a kids ln => .tableCell a kids (ln + k)
  | .thematicBreak l ln => .thematicBreak l (ln + k)
  | .htmlBlock c ln => .htmlBlock c (ln + k)
  | .blankLine ln => .blankLine (ln + k)
  | .linkRefDefBlock ds ln => .linkRefDefBlock ds (ln + k)
def shiftBlocks (k : Nat) : List Mistletoe.Block → List Mistletoe.Block
  | [] => []
  | b :: bs => shiftBlock k b :: shiftBlocks k bs
end

theorem shiftBlocks_map (k : Nat) : ∀ bs, shiftBlocks k bs = bs.map (shiftBlock k)
  | [] => rfl
  | b :: bs => by simp [shiftBlocks, shiftBlocks_map k bs]

theorem shiftBlocks_append (k : Nat) (a b : List Mistletoe.Block) :
    shiftBlocks k (a ++ b) = shiftBlocks k a ++ shiftBlocks k b := by simp [shiftBlocks_map]

theorem shiftBlocks_length (k : Nat) (bs : List Mistletoe.Block) : (shiftBlocks k bs).length = bs.length := by
  simp [shiftBlocks_map]

/-- the shift moves exactly the numbers: the pre-order listing (kind, line_number) of `DocLines` -/
theorem blockLn_shift (k : Nat) (b : Mistletoe.Block) : blockLn (shiftBlock k b) = blockLn b + k := by
  cases b <;> rfl

mutual
theorem blockLns_shift (k : Nat) : ∀ (b : Mistletoe.Block), blockLns (shiftBlock k b) = (blockLns b).map (fun p => (p.1, p.2 + k))
  | .paragraph _ _ => rfl
  | .heading _ _ _ _ => rfl
  | .setextHeading _ _ _ _ => rfl
  | .quote kids _ => by simp [shiftBlock, blockLns, blocksLns_shift k kids]
  | .blockCode _ _ => rfl
  | .codeFence _ _ _ _ _ _ => rfl
  | .list _ _ items _ => by simp [shiftBlock, blockLns, blocksLns_shift k items]
  | .listItem _ _ _ _ kids _ => by simp [shiftBlock, blockLns, blocksLns_shift k kids]
  | .table _ header rows _ => by simp [shiftBlock, blockLns, blocksLns_shift k header, blocksLns_shift k rows]
  | .tableRow _ cells _ => by simp [shiftBlock, blockLns, blocksLns_shift k cells]
  | .tableCell _ _ _ => rfl
  | .thematicBreak _ _ => rfl
  | .htmlBlock _ _ => rfl
  | .blankLine _ => rfl
  | .linkRefDefBlock _ _ => rfl
theorem blocksLns_shift (k : Nat) : ∀ (bs : List Mistletoe.Block), blocksLns (shiftBlocks k bs) = (blocksLns bs).map (fun p => (p.1, p.2 + k))
  | [] => rfl
  | b :: bs => by simp [shiftBlocks, blocksLns, blockLns_shift k b, blocksLns_shift k bs]
end

/-! the constructors under a shift -/

theorem tableRow_go_shift (cfg : Document.Cfg) (fn : Footnotes.Table) (k ln : Nat) :
    ∀ (zs : List (Option Str × Option Nat)),
      tableRow.go cfg fn (ln + k) zs = rmap (shiftBlocks k) (tableRow.go cfg fn ln zs)
  | [] => rfl
  | (c, a) :: rest => by
    simp only [tableRow.go, tableRow_go_shift cfg fn k ln rest]
    split
    · rfl
    · cases tableRow.go cfg fn ln rest <;> rfl

theorem tableRow_shift (cfg : Document.Cfg) (fn : Footnotes.Table) (line : Str) (al : List (Option Nat)) (k ln : Nat) :
    Document.tableRow cfg fn line al (ln + k) = rmap (shiftBlock k) (Document.tableRow cfg fn line al ln) := by
  unfold Document.tableRow
  simp only [tableRow_go_shift]
  cases tableRow.go cfg fn ln _ <;> rfl

theorem tableRows_shift (cfg : Document.Cfg) (fn : Footnotes.Table) (k : Nat) : ∀ (ls : List Str) (al : List (Option Nat)) (ln : Nat),
    tableRows cfg fn ls al (ln + k) = rmap (shiftBlocks k) (tableRows cfg fn ls al ln)
  | [], _, _ => rfl
  | l :: rest, al, ln => by
    simp only [tableRows, tableRow_shift]
    have e : ln + k + 1 = ln + 1 + k := by omega
    rw [e, tableRows_shift cfg fn k rest al (ln + 1)]
    cases Document.tableRow cfg fn l al ln with
    | err x => rfl
    | ok r => cases tableRows cfg fn rest al (ln + 1) <;> rfl

/-- a predicate that does not look at line numbers (`List.loose`: some item is loose) -/
theorem any_shift (k : Nat) (f : Mistletoe.Block → Bool) (hf : ∀ b, f (shiftBlock k b) = f b) :
    ∀ (its : List Mistletoe.Block), (shiftBlocks k its).any f = its.any f
  | [] => rfl
  | b :: bs => by simp only [shiftBlocks, List.any_cons, any_shift k f hf bs, hf]

mutual
/-- **one constructor under a shift**: the same token (same content, same inline children, same exception)
    with `line_number + k` at every depth -/
theorem mkBlock_shift (cfg : Document.Cfg) (fn : Footnotes.Table) (k : Nat) : ∀ (e : Entry),
    mkBlock cfg fn (shiftEntry k e) = rmap (Option.map (shiftBlock k)) (mkBlock cfg fn e)
  | .blockCode ls ln og => rfl
  | .heading lvl content closing ln og => by
    simp only [shiftEntry, mkBlock]
    cases inl cfg fn content <;> rfl
  | .quote inner lo ln og => by
    simp only [shiftEntry, mkBlock, mkBlocks_shift cfg fn k inner]
    cases mkBlocks cfg fn inner <;> rfl
  | .codeFence ls p ld info lang ln og => rfl
  | .thematicBreak line ln og => rfl
  | .list items ln og => by
    simp only [shiftEntry, mkBlock, mkItems_shift cfg fn k items]
    cases mkItems cfg fn items with
    | err x => rfl
    | ok its =>
      cases items with
      | nil => rfl
      | cons i is =>
        cases i
        simp only [shiftItems, shiftItem, rmap_ok]
        rw [any_shift k _ (by intro b; cases b <;> rfl)]
        rfl
  | .table lines sl ln og => by
    simp only [shiftEntry, mkBlock]
    match lines with
    | [] => rfl
    | [_] => rfl
    | l0 :: l1 :: rest =>
      simp only
      split
      · cases mapRes parseAlign (findAligns l1) with
        | err x => rfl
        | ok align =>
          have e : sl + k + 2 = sl + 2 + k := by omega
          simp only
          rw [tableRow_shift cfg fn l0 align k sl, e, tableRows_shift cfg fn k rest align (sl + 2)]
          cases Document.tableRow cfg fn l0 align sl with
          | err x => rfl
          | ok hd => cases tableRows cfg fn rest align (sl + 2) <;> rfl
      · rw [tableRows_shift cfg fn k (l0 :: l1 :: rest) [] sl]
        cases tableRows cfg fn (l0 :: l1 :: rest) [] sl <;> rfl
  | .footnote ms ln og => rfl
  | .linkRefDefs ms ln og => rfl
  | .paragraph lines ln og => by
    simp only [shiftEntry, mkBlock]
    cases inl cfg fn (strip (lines.map lstrip).flatten) <;> rfl
  | .setext lines ln og => by
    simp only [shiftEntry, mkBlock]
    cases lines.getLast? with
    | none => rfl
    | some last =>
      simp only
      cases inl cfg fn (joinNl (lines.dropLast.map strip)) <;> rfl
  | .htmlBlock lines ln og => rfl
  | .blankLine ln og => rfl
/-- **`make_tokens` under a shift of the buffer's line numbers** -/
theorem mkBlocks_shift (cfg : Document.Cfg) (fn : Footnotes.Table) (k : Nat) : ∀ (es : List Entry),
    mkBlocks cfg fn (shiftEntries k es) = rmap (shiftBlocks k) (mkBlocks cfg fn es)
  | [] => rfl
  | e :: es => by
    simp only [shiftEntries, mkBlocks, mkBlock_shift cfg fn k e, mkBlocks_shift cfg fn k es]
    cases mkBlock cfg fn e with
    | err x => rfl
    | ok b =>
      cases mkBlocks cfg fn es with
      | err x => rfl
      | ok bs => cases b <;> rfl
theorem mkItems_shift (cfg : Document.Cfg) (fn : Footnotes.Table) (k : Nat) : ∀ (is : List Item),
    mkItems cfg fn (shiftItems k is) = rmap (shiftBlocks k) (mkItems cfg fn is)
  | [] => rfl
  | .mk inner lo ind pre ld ln og :: rest => by
    simp only [shiftItems, shiftItem, mkItems, mkBlocks_shift cfg fn k inner, mkItems_shift cfg fn k rest]
    cases mkBlocks cfg fn inner with
    | err x => rfl
    | ok kids => cases mkItems cfg fn rest <;> rfl
end

/-! ### The block phase does not read the definitions (frame property of `St.defs`) -/

/-- the state with the definitions `d` registered before its own -/
def preSt (d : List FnMatch) (st : St) : St := { setext := st.setext, defs := d ++ st.defs }
def preB (d : List FnMatch) (r : Buf × St) : Buf × St := (r.1, preSt d r.2)
def preT (d : List FnMatch) (r : Entry × FW × St) : Entry × FW × St := (r.1, r.2.1, preSt d r.2.2)
def preL (d : List FnMatch) (r : List Item × FW × St) : List Item × FW × St := (r.1, r.2.1, preSt d r.2.2)

def PTok (cfg : Block.Cfg) (d : List FnMatch) (gas : Nat) : Prop :=
  ∀ (lines : List Line) (start : Nat) (st : St),
    tokenizeBlock cfg gas lines start (preSt d st) = rmap (preB d) (tokenizeBlock cfg gas lines start st)
def PLoop (cfg : Block.Cfg) (d : List FnMatch) (gas : Nat) : Prop :=
  ∀ (b : FW) (st : St) (acc : List Entry) (loose : Bool),
    tokLoop cfg gas b (preSt d st) acc loose = rmap (preB d) (tokLoop cfg gas b st acc loose)
def PTry (cfg : Block.Cfg) (d : List FnMatch) (gas : Nat) : Prop :=
  ∀ (b : FW) (st : St) (l : Line) (ts : List BTok),
    tryTypes cfg gas b (preSt d st) l ts = rmap (Option.map (preT d)) (tryTypes cfg gas b st l ts)
def PList (cfg : Block.Cfg) (d : List FnMatch) (gas : Nat) : Prop :=
  ∀ (b : FW) (st : St) (ld) (nm) (acc : List Item),
    readList cfg gas b (preSt d st) ld nm acc = rmap (preL d) (readList cfg gas b st ld nm acc)

theorem pTok_step (cfg : Block.Cfg) (d : List FnMatch) (gas : Nat) (hP : PLoop cfg d gas) : PTok cfg d (gas + 1) := by
  intro lines start st
  simp only [tokenizeBlock]
  exact hP _ st [] false

theorem pLoop_step (cfg : Block.Cfg) (d : List FnMatch) (gas : Nat) (hY : PTry cfg d gas) (hP : PLoop cfg d gas) : PLoop cfg d (gas + 1) := by
  intro b st acc loose
  simp only [tokLoop]
  cases b.peek with
  | none => rfl
  | some l =>
    simp only [hY b st l cfg.types]
    cases tryTypes cfg gas b st l cfg.types with
    | err e => rfl
    | ok o =>
      cases o with
      | none => simp only [rmap_ok, Option.map_none]; exact hP b.next st acc true
      | some r =>
        obtain ⟨e, fw', st'⟩ := r
        simp only [rmap_ok, Option.map_some, preT]
        exact hP fw' st' (e :: acc) loose

theorem pList_step (cfg : Block.Cfg) (d : List FnMatch) (gas : Nat) (hT : PTok cfg d gas) (hL : PList cfg d gas) : PList cfg d (gas + 1) := by
  intro b st ld nm acc
  simp only [readList]
  by_cases hom : otherMarkerType ld nm = true
  · simp only [hom, ↓reduceIte, rmap_ok, preL]
  simp only [hom, Bool.false_eq_true, ↓reduceIte]
  cases itemLines cfg b nm with
  | err e => rfl
  | ok il =>
    cases il with
    | empty ind p ldr ln og next fw' =>
      simp only
      cases ld with
      | some x =>
        simp only
        cases next with
        | none => simp only [rmap_ok, preL]
        | some m => exact hL fw' _ _ _ _
      | none =>
        simp only
        cases next with
        | none => simp only [rmap_ok, preL]
        | some m => exact hL fw' _ _ _ _
    | lines buf cs ind p ldr ln og next fw' =>
      simp only [hT buf cs st]
      cases tokenizeBlock cfg gas buf cs st with
      | err e => rfl
      | ok r =>
        obtain ⟨bb, st'⟩ := r
        simp only [rmap_ok, preB]
        cases ld with
        | some x =>
          simp only
          cases next with
          | none => simp only [rmap_ok, preL]
          | some m => exact hL fw' _ _ _ _
        | none =>
          simp only
          cases next with
          | none => simp only [rmap_ok, preL]
          | some m => exact hL fw' _ _ _ _

theorem preSt_defs (d : List FnMatch) (st : St) (ms : List FnMatch) :
    ({ preSt d st with defs := (preSt d st).defs ++ ms } : St) = preSt d { st with defs := st.defs ++ ms } := by
  simp [preSt, List.append_assoc]

theorem pTry_step (cfg : Block.Cfg) (d : List FnMatch) (gas : Nat) (hT : PTok cfg d gas) (hY : PTry cfg d gas) (hL : PList cfg d gas) :
    PTry cfg d (gas + 1) := by
  intro b st l ts
  cases ts with
  | nil => rfl
  | cons t ts =>
    have ih := fun b st => hY b st l ts
    simp only [tryTypes]
    cases t <;> simp only
    · -- htmlBlock
      cases htmlBlockStart l.s with
      | err e => rfl
      | ok o =>
        cases o with
        | none => exact ih b st
        | some p => rfl
    · -- blockCode
      split
      · rfl
      · exact ih b st
    · -- heading
      cases readHeading b l.s with
      | none => exact ih b st
      | some r => rfl
    · -- quote
      split
      · cases quoteLines cfg b l with
        | err e => rfl
        | ok r =>
          obtain ⟨qls, qstart, fw'⟩ := r
          have := hT qls qstart { st with setext := false }
          simp only [preSt] at this ⊢
          rw [this]
          cases tokenizeBlock cfg gas qls qstart { st with setext := false } <;> rfl
      · exact ih b st
    · -- codeFence
      cases codeFenceStart l.s with
      | none => exact ih b st
      | some m => rfl
    · -- thematicBreak
      split
      · rfl
      · exact ih b st
    · -- list
      split
      · rw [hL b st none none []]
        cases readList cfg gas b st none none [] <;> rfl
      · exact ih b st
    · -- table
      split
      · cases readTable b with
        | none => exact ih b st
        | some r => rfl
      · exact ih b st
    · -- footnote
      split
      · cases readFootnote b with
        | err e => rfl
        | ok r =>
          obtain ⟨ms, fw'⟩ := r
          simp only [preSt_defs]
          split
          · exact ih fw' _
          · rfl
      · exact ih b st
    · -- paragraph
      split
      · have e : (preSt d st).setext = st.setext := rfl
        rw [e]
        cases readParagraph cfg st.setext b l.s with
        | err e => rfl
        | ok r =>
          obtain ⟨bb, se, fw'⟩ := r
          cases se <;> rfl
      · exact ih b st
    · -- blankLine
      split
      · rfl
      · exact ih b st
    · -- linkRefDefBlock
      split
      · cases readFootnote b with
        | err e => rfl
        | ok r =>
          obtain ⟨ms, fw'⟩ := r
          simp only [preSt_defs]
          split
          · exact ih fw' _
          · rfl
      · exact ih b st

theorem p_all (cfg : Block.Cfg) (d : List FnMatch) : ∀ gas, PTok cfg d gas ∧ PLoop cfg d gas ∧ PTry cfg d gas ∧ PList cfg d gas
  | 0 => ⟨fun _ _ _ => rfl, fun _ _ _ _ => rfl, fun _ _ _ _ => rfl, fun _ _ _ _ _ => rfl⟩
  | gas + 1 => by
    obtain ⟨hT, hP, hY, hL⟩ := p_all cfg d gas
    exact ⟨pTok_step cfg d gas hP, pLoop_step cfg d gas hY hP, pTry_step cfg d gas hT hY hL, pList_step cfg d gas hT hL⟩

/-- **The block phase never reads the definitions.**  Started with `d` already registered, `tokenize_block`
    returns the same buffer, the same exception, and the state with `d` in front of its own definitions. -/
theorem tokenizeBlock_pre (cfg : Block.Cfg) (d : List FnMatch) (gas : Nat) (lines : List Line) (start : Nat) (st : St) :
    tokenizeBlock cfg gas lines start (preSt d st) = rmap (preB d) (tokenizeBlock cfg gas lines start st) :=
  (p_all cfg d gas).1 lines start st
/-! ### 2. C05 at the level of the document -/

open Mistletoe.Props.C05 (numbered)

/-- the document of `A`, a blank line, `B` from the documents of `A` and of `B` when neither defines a link
    reference: an exception raised for `A` comes first, then one raised for `B`; else `A`'s children followed
    by `B`'s children with every `line_number` (at every depth) raised by `k`, and an empty table -/
def joinDocs (k : Nat) : Res Doc → Res Doc → Res Doc
  | .err e, _ => .err e
  | .ok _, .err e => .err e
  | .ok a, .ok b => .ok { kids := a.kids ++ shiftBlocks k b.kids, footnotes := [] }

theorem footnotesOf_nil : Document.footnotesOf [] = [] := rfl

theorem blockPhase_mono (cfg : Block.Cfg) (lines : List Str) (r) (g g' : Nat) (h : g ≤ g')
    (hr : blockPhase cfg g lines = .ok r) : blockPhase cfg g' lines = .ok r := by
  rw [Props.C05.blockPhase_eq] at hr ⊢
  exact tokenizeBlock_mono cfg _ 1 {} r g g' h hr

/-- **C05 with link reference definitions, `B` read in the state `A` leaves.**  Block-phase hypotheses as in
    `C05_blank_line_independent_state_full`: `A` ends in a closed block; `B` is read in `A`'s final state.  Then `Document(A + blank + B)` has the
    table `fnAB` built first-wins from A's definitions followed by B's (document order, `Props/C07_Order`), and
    its children are the tokens made — with THAT table — from A's entries, followed by the tokens made from B's
    entries with every line number raised by `A.length + 1`.  (The inline content of either part may resolve
    against definitions of the other part: this is why the property excludes definitions.) -/
theorem C05_document_state (cfg : Document.Cfg) (hbl : .blankLine ∉ cfg.block.types) (A B : List Str) (gA gB : Nat)
    (bA bB : Buf) (stA stB : St)
    (hA : blockPhase cfg.block gA A = .ok (bA, stA)) (hlast : lastClosed bA.entries)
    (hB : tokenizeBlock cfg.block gB (numbered 0 B) 1 stA = .ok (bB, stB))
    (hnlA : ∀ s ∈ A, NlEnd s) (hnlB : ∀ s ∈ B, NlEnd s)
    (g : Nat) (hg : gA + (gB + cfg.block.types.length + 1) ≤ g) :
    parseLines cfg g (A ++ [['\n']] ++ B) =
      (let fnAB := Document.footnotesOf (defsOfEntries bA.entries ++ defsOfEntries bB.entries)
       match rapp (mkBlocks cfg fnAB bA.entries) (rmap (shiftBlocks (A.length + 1)) (mkBlocks cfg fnAB bB.entries)) with
       | .err e => .err e
       | .ok kids => .ok { kids := kids, footnotes := fnAB }) := by
  have hAB := blockPhase_mono cfg.block _ _ _ g hg
    (Props.C05.C05_blank_line_independent_state_full cfg.block hbl A B gA gB bA bB stA stB hA hlast hB hnlA hnlB)
  have hdA : stA.defs = defsOfEntries bA.entries := blockPhase_defs cfg.block gA A bA stA hA
  have hdB : stB.defs = stA.defs ++ defsOfEntries bB.entries := tokenizeBlock_defs cfg.block gB _ 1 stA bB stB hB
  unfold parseLines
  rw [hAB]
  simp only [hdB, hdA, mkBlocks_append, mkBlocks_shift]
  rfl

/-- **C05, general form (link reference definitions allowed)** — the honest statement behind the property's
    "neither A nor B defines link references".  `A` ends in a closed block; `A`, `B` parse (block phase) on their own
    to `bA`/`stA`, `bB`/`stB`.  Then `Document(A + ["\n"] + B)` has the table `fnAB` built first-wins from A's
    definitions followed by B's (`stA.defs ++ stB.defs` = the definitions of the two buffers in document order,
    `Props/C07_Order`), and its children are the tokens made WITH THAT TABLE from A's entries, followed by the tokens
    made with that table from B's entries with every line number raised by `A.length + 1`.  The block structure is
    that of the parts; only the inline content can differ from theirs (a `[label]` of one part resolving against a
    definition of the other, or a duplicate label of `B` losing against `A`'s). -/
theorem C05_document_general (cfg : Document.Cfg) (hbl : .blankLine ∉ cfg.block.types) (A B : List Str) (gA gB : Nat)
    (bA bB : Buf) (stA stB : St)
    (hA : blockPhase cfg.block gA A = .ok (bA, stA)) (hlast : lastClosed bA.entries)
    (hB : blockPhase cfg.block gB B = .ok (bB, stB))
    (hnlA : ∀ s ∈ A, NlEnd s) (hnlB : ∀ s ∈ B, NlEnd s)
    (g : Nat) (hg : gA + (gB + cfg.block.types.length + 1) ≤ g) :
    parseLines cfg g (A ++ [['\n']] ++ B) =
      (let fnAB := Document.footnotesOf (stA.defs ++ stB.defs)
       match rapp (mkBlocks cfg fnAB bA.entries) (rmap (shiftBlocks (A.length + 1)) (mkBlocks cfg fnAB bB.entries)) with
       | .err e => .err e
       | .ok kids => .ok { kids := kids, footnotes := fnAB }) := by
  have hsx : stA.setext = true := (sx_all cfg.block gA).1 _ _ _ _ rfl hA
  have hst : stA = preSt stA.defs {} := by
    cases stA
    simp only at hsx
    subst hsx
    simp [preSt]
  have hB' : tokenizeBlock cfg.block gB (numbered 0 B) 1 stA = .ok (bB, preSt stA.defs stB) := by
    rw [Props.C05.blockPhase_eq] at hB
    rw [hst, tokenizeBlock_pre, hB]
    simp [preB, preSt]
  have hdA : stA.defs = defsOfEntries bA.entries := blockPhase_defs cfg.block gA A bA stA hA
  have hdB : stB.defs = defsOfEntries bB.entries := blockPhase_defs cfg.block gB B bB stB hB
  rw [C05_document_state cfg hbl A B gA gB bA bB stA _ hA hlast hB' hnlA hnlB g hg, hdA, hdB]

/-- **C05 at the level of the document, as an equation between results** (exceptions of the inline phase included).
    Hypotheses: those of `C05_blank_line_independent` (`A` ends in a paragraph, setext/ATX heading, thematic break,
    block quote or table — `lastClosed`; `A` defines no link reference; every line ends with its only newline;
    `BlankLine` is not among the token types) and `B` defines no link reference either.  Then, with enough gas,
    `Document(A + ["\n"] + B)` = `joinDocs (A.length + 1) (Document(A)) (Document(B))`. -/
theorem C05_document_eq (cfg : Document.Cfg) (hbl : .blankLine ∉ cfg.block.types) (A B : List Str) (gA gB : Nat)
    (bA bB : Buf) (stA stB : St)
    (hA : blockPhase cfg.block gA A = .ok (bA, stA)) (hlast : lastClosed bA.entries)
    (hdef : stA.defs = [])
    (hB : blockPhase cfg.block gB B = .ok (bB, stB)) (hdefB : stB.defs = [])
    (hnlA : ∀ s ∈ A, NlEnd s) (hnlB : ∀ s ∈ B, NlEnd s)
    (g : Nat) (hg : gA + (gB + cfg.block.types.length + 1) ≤ g) :
    parseLines cfg g (A ++ [['\n']] ++ B) = joinDocs (A.length + 1) (parseLines cfg gA A) (parseLines cfg gB B) := by
  have hAB := blockPhase_mono cfg.block _ _ _ g hg
    (Props.C05L.C05_blank_line_independent cfg.block hbl A B gA gB bA bB stA stB hA hlast hdef hB hnlA hnlB)
  unfold parseLines
  rw [hAB, hA, hB]
  simp only [hdef, hdefB, mkBlocks_append, mkBlocks_shift]
  cases mkBlocks cfg (Document.footnotesOf []) bA.entries with
  | err x => rfl
  | ok ka =>
    cases mkBlocks cfg (Document.footnotesOf []) bB.entries with
    | err x => rfl
    | ok kb => rfl

/-- **C05 at the level of the document.**  Under the hypotheses of `C05_blank_line_independent` and "neither
    A nor B defines link references": if `Document(A)` has the children `kidsA` and `Document(B)` the children
    `kidsB`, then `Document(A + ["\n"] + B)` has exactly the children `kidsA` followed by `kidsB` with every
    `line_number`, at every depth, raised by the number `A.length + 1` of lines that precede B; no definitions. -/
theorem C05_document (cfg : Document.Cfg) (hbl : .blankLine ∉ cfg.block.types) (A B : List Str) (gA gB : Nat)
    (bA bB : Buf) (stA stB : St)
    (hA : blockPhase cfg.block gA A = .ok (bA, stA)) (hlast : lastClosed bA.entries)
    (hdef : stA.defs = [])
    (hB : blockPhase cfg.block gB B = .ok (bB, stB)) (hdefB : stB.defs = [])
    (hnlA : ∀ s ∈ A, NlEnd s) (hnlB : ∀ s ∈ B, NlEnd s)
    (g : Nat) (hg : gA + (gB + cfg.block.types.length + 1) ≤ g)
    (kidsA kidsB : List Mistletoe.Block) (fA fB : List (Str × Str × Str))
    (hpA : parseLines cfg gA A = .ok { kids := kidsA, footnotes := fA })
    (hpB : parseLines cfg gB B = .ok { kids := kidsB, footnotes := fB }) :
    parseLines cfg g (A ++ [['\n']] ++ B) =
      .ok { kids := kidsA ++ shiftBlocks (A.length + 1) kidsB, footnotes := [] } := by
  rw [C05_document_eq cfg hbl A B gA gB bA bB stA stB hA hlast hdef hB hdefB hnlA hnlB g hg, hpA, hpB]
  rfl

/-- … and the parts' own tables are empty -/
theorem parseLines_footnotes_nil (cfg : Document.Cfg) (g : Nat) (ls : List Str) (b : Buf) (st : St)
    (hb : blockPhase cfg.block g ls = .ok (b, st)) (hdef : st.defs = []) (d : Doc) (h : parseLines cfg g ls = .ok d) :
    d.footnotes = [] := by
  unfold parseLines at h
  rw [hb] at h
  simp only [hdef] at h
  split at h
  · cases h
  · cases h; rfl

/-! the `str` form -/

theorem nlEnd_of_oneLine (l : Str) (h : InertInline.oneLine l = true) : NlEnd l := by
  simp only [InertInline.oneLine, Bool.and_eq_true, beq_iff_eq, List.all_eq_true, Bool.not_eq_eq_eq_not,
    Bool.not_true] at h
  obtain ⟨body, rfl⟩ := List.getLast?_eq_some_iff.mp h.1
  refine ⟨body, rfl, ?_⟩
  intro hm
  have := h.2 '\n' (by simpa using hm)
  revert this; decide

/-- **`Document(text)` for one `str`**: `A`, `B` lists of lines as `str.splitlines(keepends=True)` returns them
    (each ends in "\n" and contains no other line boundary character); the text of `A`, then "\n", then the text
    of `B`, parsed as one string, is `joinDocs` of the two texts parsed on their own. -/
theorem C05_document_str (cfg : Document.Cfg) (hbl : .blankLine ∉ cfg.block.types) (A B : List Str) (gA gB : Nat)
    (bA bB : Buf) (stA stB : St)
    (hA : blockPhase cfg.block gA A = .ok (bA, stA)) (hlast : lastClosed bA.entries)
    (hdef : stA.defs = [])
    (hB : blockPhase cfg.block gB B = .ok (bB, stB)) (hdefB : stB.defs = [])
    (hoA : ∀ s ∈ A, InertInline.oneLine s = true) (hoB : ∀ s ∈ B, InertInline.oneLine s = true)
    (g : Nat) (hg : gA + (gB + cfg.block.types.length + 1) ≤ g) :
    Document.parse cfg g (A.flatten ++ '\n' :: B.flatten) =
      joinDocs (A.length + 1) (Document.parse cfg gA A.flatten) (Document.parse cfg gB B.flatten) := by
  have e : A.flatten ++ '\n' :: B.flatten = (A ++ [['\n']] ++ B).flatten := by simp
  rw [e, InertInline.parse_lines cfg g _ (by
      intro l hl
      simp only [List.append_assoc, List.mem_append, List.mem_singleton] at hl
      rcases hl with hl | hl | hl
      · exact hoA l hl
      · subst hl; decide
      · exact hoB l hl),
    InertInline.parse_lines cfg gA A hoA, InertInline.parse_lines cfg gB B hoB]
  exact C05_document_eq cfg hbl A B gA gB bA bB stA stB hA hlast hdef hB hdefB
    (fun s hs => nlEnd_of_oneLine s (hoA s hs)) (fun s hs => nlEnd_of_oneLine s (hoB s hs)) g hg

/-! ### 3. C04 at the level of the document -/

open Mistletoe.Props.C04 (indentDocAt normDoc itemDocOk2)

/-- the document whose only child is a `Quote` (line 1) around the children of `d`; same table -/
def quoteDoc (d : Doc) : Doc := { kids := [.quote d.kids 1], footnotes := d.footnotes }

/-- from the block phase to the document: a buffer that is one `Quote` around the entries of `B`, with the
    definitions of the unquoted parse, becomes one `Quote` token around the tokens of `B` -/
theorem parseLines_quote_of_phase (cfg : Document.Cfg) (g g' : Nat) (ss qs : List Str) (B : Buf) (lo : Bool) (st₁ st₃ : St)
    (hB : blockPhase cfg.block g ss = .ok (B, st₁))
    (hq : blockPhase cfg.block g' qs = .ok ({ entries := [.quote B.entries lo 1 1], loose := false }, st₃))
    (hd : st₃.defs = st₁.defs) :
    parseLines cfg g' qs = rmap quoteDoc (parseLines cfg g ss) := by
  unfold parseLines
  rw [hq, hB]
  simp only [hd, mkBlocks, mkBlock]
  cases mkBlocks cfg (Document.footnotesOf st₁.defs) B.entries <;> rfl

/-- **C04 (quote half) at the level of the document, as an equation between results.**  Hypotheses of
    `C04_quote_phase_same`: `Quote` is consulted before `Paragraph` (`cfg.block.types = pre ++ Quote :: post`, neither in
    `pre`); the text `ss` is non-empty and tab-free; its block phase does not depend on `Paragraph.parse_setext`
    (`hoff`, `hdefs`: the recorded finding — `Quote.read` switches setext headings off).  Then the document of the
    text with "> " before every line is one `Quote`, reported on line 1, whose children are the children of
    `Document(ss)` — same tokens, same line numbers at every depth (the nested tokenizer is started on the
    quote's own line) — with the same table of definitions; an exception of the inline phase stays that exception. -/
theorem C04_quote_document_eq (cfg : Document.Cfg) (pre post : List BTok) (hty : cfg.block.types = pre ++ .quote :: post)
    (hnq : .quote ∉ pre) (hnp : .paragraph ∉ pre) (ss : List Str) (hne : ss ≠ []) (hnt : ∀ s ∈ ss, '\t' ∉ s)
    (gas : Nat) (B : Buf) (st₁ st₂ : St)
    (hB : blockPhase cfg.block gas ss = .ok (B, st₁))
    (hoff : tokenizeBlock cfg.block gas (Props.C14.numbered 0 ss) 1 { setext := false } = .ok (B, st₂))
    (hdefs : st₂.defs = st₁.defs) :
    parseLines cfg (gas + (pre.length + 3)) (ss.map (fun s => '>' :: ' ' :: s)) = rmap quoteDoc (parseLines cfg gas ss) := by
  obtain ⟨st₃, h3, hd3, _⟩ := Props.C04.C04_quote_phase_same cfg.block pre post hty hnq hnp ss hne hnt gas B st₁ st₂ hB hoff hdefs
  exact parseLines_quote_of_phase cfg gas _ ss _ B B.loose st₁ st₃ hB h3 hd3

/-- **C04, quote half, at the level of the document**: if `Document(ss)` is `d`, the document of the quoted text is
    exactly one `Quote` (line 1) whose children are `d.kids`, with `d`'s table. -/
theorem C04_quote_document (cfg : Document.Cfg) (pre post : List BTok) (hty : cfg.block.types = pre ++ .quote :: post)
    (hnq : .quote ∉ pre) (hnp : .paragraph ∉ pre) (ss : List Str) (hne : ss ≠ []) (hnt : ∀ s ∈ ss, '\t' ∉ s)
    (gas : Nat) (B : Buf) (st₁ st₂ : St)
    (hB : blockPhase cfg.block gas ss = .ok (B, st₁))
    (hoff : tokenizeBlock cfg.block gas (Props.C14.numbered 0 ss) 1 { setext := false } = .ok (B, st₂))
    (hdefs : st₂.defs = st₁.defs) (d : Doc) (hd : parseLines cfg gas ss = .ok d) :
    parseLines cfg (gas + (pre.length + 3)) (ss.map (fun s => '>' :: ' ' :: s)) =
      .ok { kids := [.quote d.kids 1], footnotes := d.footnotes } := by
  rw [C04_quote_document_eq cfg pre post hty hnq hnp ss hne hnt gas B st₁ st₂ hB hoff hdefs, hd]
  rfl

/-- the marker ">" (no line of the text begins with a space) -/
theorem C04_quote_document_bare (cfg : Document.Cfg) (pre post : List BTok) (hty : cfg.block.types = pre ++ .quote :: post)
    (hnq : .quote ∉ pre) (hnp : .paragraph ∉ pre) (ss : List Str) (hne : ss ≠ [])
    (hnt : ∀ s ∈ ss, '\t' ∉ s ∧ NoLeadSp s)
    (gas : Nat) (B : Buf) (st₁ st₂ : St)
    (hB : blockPhase cfg.block gas ss = .ok (B, st₁))
    (hoff : tokenizeBlock cfg.block gas (Props.C14.numbered 0 ss) 1 { setext := false } = .ok (B, st₂))
    (hdefs : st₂.defs = st₁.defs) :
    parseLines cfg (gas + (pre.length + 3)) (ss.map (fun s => '>' :: s)) = rmap quoteDoc (parseLines cfg gas ss) :=
  parseLines_quote_of_phase cfg gas _ ss _ B B.loose st₁ { st₂ with setext := true } hB
    (Props.C04.C04_quote_phase_bare cfg.block pre post hty hnq hnp ss hne hnt gas B st₂ hoff) hdefs

/-- `List.start`: the number of an ordered marker ("12." → 12), `None` for a bullet -/
def startOf (m : Str) : Option Nat := if m.length != 1 then some (parseNat m.dropLast) else none

/-- the document whose only child is a single-item `List` (line 1; marker `m` at indentation `i`, content offset
    `w`, looseness `lo`) around the children of `d`; same table -/
def itemDoc (m : Str) (i w : Nat) (lo : Bool) (d : Doc) : Doc :=
  { kids := [.list lo (startOf m) [.listItem m i w lo d.kids 1] 1], footnotes := d.footnotes }

theorem parseLines_item_of_phase (cfg : Document.Cfg) (g g' : Nat) (ss qs : List Str) (B : Buf) (lo : Bool) (i w : Nat) (m : Str) (st : St)
    (hB : blockPhase cfg.block g ss = .ok (B, st))
    (hq : blockPhase cfg.block g' qs = .ok ({ entries := [.list [.mk B.entries lo i w m 1 1] 1 1], loose := false }, st)) :
    parseLines cfg g' qs = rmap (itemDoc m i w lo) (parseLines cfg g ss) := by
  unfold parseLines
  rw [hq, hB]
  simp only [mkBlocks, mkBlock, mkItems]
  cases mkBlocks cfg (Document.footnotesOf st.defs) B.entries with
  | err x => rfl
  | ok kids =>
    simp only [rmap_ok, itemDoc, startOf, List.any_cons, List.any_nil, Bool.or_false]

/-- **C04 (list half) at the level of the document, as an equation between results.**  Hypotheses of
    `C04_item_phase_general_partial` (`List` consulted before `Paragraph` and `Table`; marker `m` at indentation
    `i ≤ 3`, padding 1–4; the text begins with a non-whitespace character, every other line is spaces-only or begins,
    after its spaces, with a non-whitespace character, the last line is not spaces-only; marker + first line is no
    thematic break).  Then the document of the text indented as one list item is exactly one `List` with one
    `ListItem` — both on line 1, leader `m`, indentation `i`, content offset `i + |m| + pad`, loose iff the content
    has more than one entry and a blank line between entries — whose children are the children of the document of
    the text with its spaces-only lines emptied (`normDoc`), same line numbers, same table.
    `_partial`: see `Props/C04_General.lean` for the added hypotheses and the counterexamples without them. -/
theorem C04_item_document_partial (cfg : Document.Cfg) (pre post : List BTok) (hty : cfg.block.types = pre ++ .list :: post)
    (hnl : .list ∉ pre) (hnp : .paragraph ∉ pre) (hnt : .table ∉ pre)
    (m : Str) (hm : ListLeader m) (i : Nat) (hi : i ≤ 3) (pad : Nat) (h1 : 1 ≤ pad) (h4 : pad ≤ 4)
    (s0 : Str) (ss : List Str) (hok : itemDocOk2 (s0 :: ss) = true)
    (htb : Scan.thematicBreak (List.replicate i ' ' ++ (m ++ List.replicate pad ' ' ++ s0)) = false)
    (blanksToo : Bool) (gas : Nat) (B : Buf) (st' : St) (hB : blockPhase cfg.block gas (normDoc (s0 :: ss)) = .ok (B, st')) :
    parseLines cfg (gas + (pre.length + 4)) (indentDocAt i m pad blanksToo (s0 :: ss)) =
      rmap (itemDoc m i (i + m.length + pad) (decide (B.entries.length > 1) && B.loose)) (parseLines cfg gas (normDoc (s0 :: ss))) :=
  parseLines_item_of_phase cfg gas _ _ _ B _ i _ m st' hB
    (Props.C04G.C04_item_phase_general_partial cfg.block pre post hty hnl hnp hnt m hm i hi pad h1 h4 s0 ss hok htb blanksToo gas B st' hB)

/-- … and the children are those of the text's own document when it has no spaces-only line other than "\n" -/
theorem C04_item_document_h2_partial (cfg : Document.Cfg) (pre post : List BTok) (hty : cfg.block.types = pre ++ .list :: post)
    (hnl : .list ∉ pre) (hnp : .paragraph ∉ pre) (hnt : .table ∉ pre)
    (m : Str) (hm : ListLeader m) (i : Nat) (hi : i ≤ 3) (pad : Nat) (h1 : 1 ≤ pad) (h4 : pad ≤ 4)
    (s0 : Str) (ss : List Str) (hok : itemDocOk2 (s0 :: ss) = true) (hH2 : ∀ s ∈ ss, spLine s = true → s = ['\n'])
    (htb : Scan.thematicBreak (List.replicate i ' ' ++ (m ++ List.replicate pad ' ' ++ s0)) = false)
    (blanksToo : Bool) (gas : Nat) (B : Buf) (st' : St) (hB : blockPhase cfg.block gas (s0 :: ss) = .ok (B, st')) :
    parseLines cfg (gas + (pre.length + 4)) (indentDocAt i m pad blanksToo (s0 :: ss)) =
      rmap (itemDoc m i (i + m.length + pad) (decide (B.entries.length > 1) && B.loose)) (parseLines cfg gas (s0 :: ss)) :=
  parseLines_item_of_phase cfg gas _ _ _ B _ i _ m st' hB
    (Props.C04G.C04_item_phase_general_h2_partial cfg.block pre post hty hnl hnp hnt m hm i hi pad h1 h4 s0 ss hok hH2 htb blanksToo gas B st' hB)

/-! ### 4. Checkable forms and non-vacuity

  `Entry` has no `DecidableEq` (nested inductive): a boolean equality with its soundness, so that the
  flag-independence hypothesis of `C04_quote_document` can be established by kernel evaluation. -/

mutual
def eqEntry : Entry → Entry → Bool
  | .blockCode a b c, .blockCode a' b' c' => a == a' && b == b' && c == c'
  | .heading a b c d e, .heading a' b' c' d' e' => a == a' && b == b' && c == c' && d == d' && e == e'
  | .quote i lo ln og, .quote i' lo' ln' og' => eqEntries i i' && lo == lo' && ln == ln' && og == og'
  | .codeFence a b c d e f g, .codeFence a' b' c' d' e' f' g' =>
    a == a' && b == b' && c == c' && d == d' && e == e' && f == f' && g == g'
  | .thematicBreak a b c, .thematicBreak a' b' c' => a == a' && b == b' && c == c'
  | .list its ln og, .list its' ln' og' => eqItems its its' && ln == ln' && og == og'
  | .table a b c d, .table a' b' c' d' => a == a' && b == b' && c == c' && d == d'
  | .footnote a b c, .footnote a' b' c' => a == a' && b == b' && c == c'
  | .linkRefDefs a b c, .linkRefDefs a' b' c' => a == a' && b == b' && c == c'
  | .paragraph a b c, .paragraph a' b' c' => a == a' && b == b' && c == c'
  | .setext a b c, .setext a' b' c' => a == a' && b == b' && c == c'
  | .htmlBlock a b c, .htmlBlock a' b' c' => a == a' && b == b' && c == c'
  | .blankLine a b, .blankLine a' b' => a == a' && b == b'
  | _, _ => false
def eqEntries : List Entry → List Entry → Bool
  | [], [] => true
  | a :: as, b :: bs => eqEntry a b && eqEntries as bs
  | _, _ => false
def eqItem : Item → Item → Bool
  | .mk i lo a b c d e, .mk i' lo' a' b' c' d' e' =>
    eqEntries i i' && lo == lo' && a == a' && b == b' && c == c' && d == d' && e == e'
def eqItems : List Item → List Item → Bool
  | [], [] => true
  | a :: as, b :: bs => eqItem a b && eqItems as bs
  | _, _ => false
end

mutual
theorem eqEntry_sound : ∀ (a b : Entry), eqEntry a b = true → a = b
  | .blockCode .., b, h => by cases b <;> simp_all [eqEntry]
  | .heading .., b, h => by cases b <;> simp_all [eqEntry]
  | .quote i lo ln og, b, h => by
    cases b <;> simp only [eqEntry, Bool.and_eq_true, beq_iff_eq, Bool.false_eq_true] at h
    obtain ⟨⟨⟨h1, h2⟩, h3⟩, h4⟩ := h
    rw [eqEntries_sound i _ h1, h2, h3, h4]
  | .codeFence .., b, h => by cases b <;> simp_all [eqEntry]
  | .thematicBreak .., b, h => by cases b <;> simp_all [eqEntry]
  | .list its ln og, b, h => by
    cases b <;> simp only [eqEntry, Bool.and_eq_true, beq_iff_eq, Bool.false_eq_true] at h
    obtain ⟨⟨h1, h2⟩, h3⟩ := h
    rw [eqItems_sound its _ h1, h2, h3]
  | .table .., b, h => by cases b <;> simp_all [eqEntry]
  | .footnote .., b, h => by cases b <;> simp_all [eqEntry]
  | .linkRefDefs .., b, h => by cases b <;> simp_all [eqEntry]
  | .paragraph .., b, h => by cases b <;> simp_all [eqEntry]
  | .setext .., b, h => by cases b <;> simp_all [eqEntry]
  | .htmlBlock .., b, h => by cases b <;> simp_all [eqEntry]
  | .blankLine .., b, h => by cases b <;> simp_all [eqEntry]
theorem eqEntries_sound : ∀ (a b : List Entry), eqEntries a b = true → a = b
  | [], [], _ => rfl
  | [], _ :: _, h => by simp [eqEntries] at h
  | _ :: _, [], h => by simp [eqEntries] at h
  | a :: as, b :: bs, h => by
    simp only [eqEntries, Bool.and_eq_true] at h
    rw [eqEntry_sound a b h.1, eqEntries_sound as bs h.2]
theorem eqItem_sound : ∀ (a b : Item), eqItem a b = true → a = b
  | .mk i lo a b c d e, .mk i' lo' a' b' c' d' e', h => by
    simp only [eqItem, Bool.and_eq_true, beq_iff_eq] at h
    obtain ⟨⟨⟨⟨⟨⟨h1, h2⟩, h3⟩, h4⟩, h5⟩, h6⟩, h7⟩ := h
    rw [eqEntries_sound i _ h1, h2, h3, h4, h5, h6, h7]
theorem eqItems_sound : ∀ (a b : List Item), eqItems a b = true → a = b
  | [], [], _ => rfl
  | [], _ :: _, h => by simp [eqItems] at h
  | _ :: _, [], h => by simp [eqItems] at h
  | a :: as, b :: bs, h => by
    simp only [eqItems, Bool.and_eq_true] at h
    rw [eqItem_sound a b h.1, eqItems_sound as bs h.2]
end

/-- checkable: the block phase returned, its last entry is closed, no definition was registered -/
def phaseClosedNoDefs : Res (Buf × St) → Bool
  | .ok (b, st) => (match b.entries.getLast? with | some e => closedE e | none => true) && st.defs.isEmpty
  | .err _ => false
/-- checkable: the block phase returned and registered no definition -/
def phaseNoDefs : Res (Buf × St) → Bool
  | .ok (_, st) => st.defs.isEmpty
  | .err _ => false
/-- checkable: every line ends with its only newline -/
def linesOk (ls : List Str) : Bool := ls.all (fun s => s.getLast? == some '\n' && !s.dropLast.contains '\n')

theorem linesOk_spec (ls : List Str) (h : linesOk ls = true) : ∀ s ∈ ls, NlEnd s := by
  intro s hs
  exact Props.C05.nlEnd_of_check s (List.all_eq_true.mp h s hs)

/-- **`C05_document` with hypotheses that can be evaluated**: four boolean checks on the parts -/
theorem C05_document_checked (cfg : Document.Cfg) (hbl : .blankLine ∉ cfg.block.types) (A B : List Str) (gA gB : Nat)
    (hcA : phaseClosedNoDefs (blockPhase cfg.block gA A) = true) (hcB : phaseNoDefs (blockPhase cfg.block gB B) = true)
    (hlA : linesOk A = true) (hlB : linesOk B = true)
    (dA dB : Doc) (hpA : parseLines cfg gA A = .ok dA) (hpB : parseLines cfg gB B = .ok dB) :
    parseLines cfg (gA + (gB + cfg.block.types.length + 1)) (A ++ [['\n']] ++ B) =
      .ok { kids := dA.kids ++ shiftBlocks (A.length + 1) dB.kids, footnotes := [] } := by
  cases hA : blockPhase cfg.block gA A with
  | err e => rw [hA] at hcA; cases hcA
  | ok rA =>
    obtain ⟨bA, stA⟩ := rA
    cases hB : blockPhase cfg.block gB B with
    | err e => rw [hB] at hcB; cases hcB
    | ok rB =>
      obtain ⟨bB, stB⟩ := rB
      rw [hA] at hcA; rw [hB] at hcB
      simp only [phaseClosedNoDefs, Bool.and_eq_true, List.isEmpty_iff] at hcA
      simp only [phaseNoDefs, List.isEmpty_iff] at hcB
      have hlast : lastClosed bA.entries := by
        intro e he
        have := hcA.1
        rw [he] at this
        exact this
      exact C05_document cfg hbl A B gA gB bA bB stA stB hA hlast hcA.2 hB hcB (linesOk_spec A hlA) (linesOk_spec B hlB)
        _ (Nat.le_refl _) dA.kids dB.kids dA.footnotes dB.footnotes hpA hpB

/-- checkable: both runs returned, with the same buffer and the same definitions -/
def samePhase : Res (Buf × St) → Res (Buf × St) → Bool
  | .ok (b₁, s₁), .ok (b₂, s₂) => eqEntries b₁.entries b₂.entries && b₁.loose == b₂.loose && s₁.defs == s₂.defs
  | _, _ => false

/-- **`C04_quote_document` with hypotheses that can be evaluated**: flag independence as one boolean check -/
theorem C04_quote_document_checked (cfg : Document.Cfg) (pre post : List BTok) (hty : cfg.block.types = pre ++ .quote :: post)
    (hnq : .quote ∉ pre) (hnp : .paragraph ∉ pre) (ss : List Str) (hne : ss ≠ []) (hnt : ∀ s ∈ ss, '\t' ∉ s) (gas : Nat)
    (hsame : samePhase (blockPhase cfg.block gas ss)
      (tokenizeBlock cfg.block gas (Props.C14.numbered 0 ss) 1 { setext := false }) = true)
    (d : Doc) (hd : parseLines cfg gas ss = .ok d) :
    parseLines cfg (gas + (pre.length + 3)) (ss.map (fun s => '>' :: ' ' :: s)) =
      .ok { kids := [.quote d.kids 1], footnotes := d.footnotes } := by
  cases hB : blockPhase cfg.block gas ss with
  | err e => rw [hB] at hsame; cases hsame
  | ok r₁ =>
    obtain ⟨B₁, st₁⟩ := r₁
    cases hoff : tokenizeBlock cfg.block gas (Props.C14.numbered 0 ss) 1 { setext := false } with
    | err e => rw [hB, hoff] at hsame; cases hsame
    | ok r₂ =>
      obtain ⟨B₂, st₂⟩ := r₂
      rw [hB, hoff] at hsame
      simp only [samePhase, Bool.and_eq_true, beq_iff_eq] at hsame
      obtain ⟨⟨h1, h2⟩, h3⟩ := hsame
      have hBB : B₂ = B₁ := by
        cases B₁; cases B₂
        simp only at h1 h2
        rw [eqEntries_sound _ _ h1, h2]
      subst hBB
      exact C04_quote_document cfg pre post hty hnq hnp ss hne hnt gas B₂ st₁ st₂ hB hoff h3.symm d hd

/-- the default token lists (no renderer active: what `Document(text)` uses on its own), regenerated from /repo -/
def dcfg : Document.Cfg :=
  match Config.default with
  | some c => c
  | none => { block := { types := [] }, span := [] }

example : dcfg.block.types = [.blockCode, .heading, .quote, .codeFence, .thematicBreak, .list, .table, .footnote, .paragraph] := by
  decide +kernel

def L (s : String) : Str := s.toList

/-- decidable view of a document: pre-order listing (kind, line_number) of every block token, number of definitions -/
def view : Res Doc → Option (List (BKind × Nat) × Nat)
  | .ok d => some (docLns d, d.footnotes.length)
  | .err _ => none

/-- A = "# h\npara\n", B = "- a\n- b\n" -/
def exA : List Str := [L "# h\n", L "para\n"]
def exB : List Str := [L "- a\n", L "- b\n"]

/-- the three documents (real code: Heading 1, Paragraph 2 | List 1, ListItem 1, Paragraph 1, ListItem 2, Paragraph 2 |
    Heading 1, Paragraph 2, List 4, ListItem 4, Paragraph 4, ListItem 5, Paragraph 5; no footnotes) -/
example : view (parseLines dcfg 30 exA) = some ([(.heading, 1), (.paragraph, 2)], 0) := by decide +kernel
example : view (parseLines dcfg 30 exB) =
    some ([(.list, 1), (.listItem, 1), (.paragraph, 1), (.listItem, 2), (.paragraph, 2)], 0) := by decide +kernel
example : view (parseLines dcfg 70 (exA ++ [['\n']] ++ exB)) =
    some ([(.heading, 1), (.paragraph, 2), (.list, 4), (.listItem, 4), (.paragraph, 4), (.listItem, 5), (.paragraph, 5)], 0) := by
  decide +kernel

/-- `C05_document` applies: its hypotheses hold for `exA`, `exB` (kernel-evaluated) -/
example : ∃ dA dB, parseLines dcfg 30 exA = .ok dA ∧ parseLines dcfg 30 exB = .ok dB ∧
    parseLines dcfg 70 (exA ++ [['\n']] ++ exB) = .ok { kids := dA.kids ++ shiftBlocks 3 dB.kids, footnotes := [] } := by
  obtain ⟨dA, hA⟩ := Props.C04.exists_of_isOk (parseLines dcfg 30 exA) (by decide +kernel)
  obtain ⟨dB, hB⟩ := Props.C04.exists_of_isOk (parseLines dcfg 30 exB) (by decide +kernel)
  exact ⟨dA, dB, hA, hB, C05_document_checked dcfg (by decide +kernel) exA exB 30 30 (by decide +kernel) (by decide +kernel)
    (by decide +kernel) (by decide +kernel) dA dB hA hB⟩

/-- the `str` form on the same example: `Document("# h\npara\n" + "\n" + "- a\n- b\n")` -/
example : view (Document.parse dcfg 70 (L "# h\npara\n\n- a\n- b\n")) =
    some ([(.heading, 1), (.paragraph, 2), (.list, 4), (.listItem, 4), (.paragraph, 4), (.listItem, 5), (.paragraph, 5)], 0) := by
  decide +kernel

/-- the quoted text "a\n\n- b\n" -/
def exQ : List Str := [L "a\n", L "\n", L "- b\n"]

example : exQ.map (fun s => '>' :: ' ' :: s) = [L "> a\n", L "> \n", L "> - b\n"] := by decide +kernel

/-- real code: Paragraph 1, List 3, ListItem 3, Paragraph 3 | Quote 1, Paragraph 1, List 3, ListItem 3, Paragraph 3 -/
example : view (parseLines dcfg 30 exQ) = some ([(.paragraph, 1), (.list, 3), (.listItem, 3), (.paragraph, 3)], 0) := by
  decide +kernel
example : view (parseLines dcfg 35 (exQ.map (fun s => '>' :: ' ' :: s))) =
    some ([(.quote, 1), (.paragraph, 1), (.list, 3), (.listItem, 3), (.paragraph, 3)], 0) := by decide +kernel

/-- `C04_quote_document` applies: flag independence holds for `exQ` (kernel-evaluated) -/
example : ∃ d, parseLines dcfg 30 exQ = .ok d ∧
    parseLines dcfg 35 (exQ.map (fun s => '>' :: ' ' :: s)) = .ok { kids := [.quote d.kids 1], footnotes := d.footnotes } := by
  obtain ⟨d, hd⟩ := Props.C04.exists_of_isOk (parseLines dcfg 30 exQ) (by decide +kernel)
  exact ⟨d, hd, C04_quote_document_checked dcfg [.blockCode, .heading]
    [.codeFence, .thematicBreak, .list, .table, .footnote, .paragraph] (by decide +kernel) (by decide) (by decide)
    exQ (by decide) (by decide +kernel) 30 (by decide +kernel) d hd⟩

/-- the hypothesis is needed (the recorded finding): `Foo / ---` is a setext heading, behind "> " it is a paragraph and a
    thematic break -/
example : view (parseLines dcfg 30 [L "Foo\n", L "---\n"]) = some ([(.setextHeading, 1)], 0) ∧
    view (parseLines dcfg 35 [L "> Foo\n", L "> ---\n"]) = some ([(.quote, 1), (.paragraph, 1), (.thematicBreak, 2)], 0) ∧
    samePhase (blockPhase dcfg.block 30 [L "Foo\n", L "---\n"])
      (tokenizeBlock dcfg.block 30 (Props.C14.numbered 0 [L "Foo\n", L "---\n"]) 1 { setext := false }) = false := by
  refine ⟨?_, ?_, ?_⟩ <;> decide +kernel

/-- the same text as a list item: "- a\n\n  - b\n" (real code: List 1, ListItem 1, Paragraph 1, List 3, ListItem 3, Paragraph 3) -/
example : indentDocAt 0 (L "-") 1 false exQ = [L "- a\n", L "\n", L "  - b\n"] := by decide +kernel
example : view (parseLines dcfg 39 (indentDocAt 0 (L "-") 1 false exQ)) =
    some ([(.list, 1), (.listItem, 1), (.paragraph, 1), (.list, 3), (.listItem, 3), (.paragraph, 3)], 0) := by decide +kernel

/-- `C04_item_document_partial` applies to it: one loose single-item list around the children of `Document(exQ)` -/
example : ∃ B st' d, blockPhase dcfg.block 30 (normDoc exQ) = .ok (B, st') ∧ parseLines dcfg 30 (normDoc exQ) = .ok d ∧
    (decide (B.entries.length > 1) && B.loose) = true ∧
    parseLines dcfg 39 (indentDocAt 0 (L "-") 1 false exQ) =
      .ok { kids := [.list true none [.listItem (L "-") 0 2 true d.kids 1] 1], footnotes := d.footnotes } := by
  obtain ⟨⟨B, st'⟩, hB⟩ := Props.C04.exists_of_isOk (blockPhase dcfg.block 30 (normDoc exQ)) (by decide +kernel)
  obtain ⟨d, hd⟩ := Props.C04.exists_of_isOk (parseLines dcfg 30 (normDoc exQ)) (by decide +kernel)
  have hlo : (match blockPhase dcfg.block 30 (normDoc exQ) with
      | .ok (B, _) => decide (B.entries.length > 1) && B.loose | .err _ => false) = true := by decide +kernel
  rw [hB] at hlo
  simp only at hlo
  have := C04_item_document_partial dcfg [.blockCode, .heading, .quote, .codeFence, .thematicBreak] [.table, .footnote, .paragraph]
    (by decide +kernel) (by decide) (by decide) (by decide) (L "-") (listLeader_bullet '-' (Or.inl rfl)) 0 (by omega) 1 (by omega) (by omega)
    (L "a\n") [L "\n", L "- b\n"] (by decide +kernel) (by decide +kernel) false 30 B st' hB
  refine ⟨B, st', d, hB, hd, hlo, Eq.trans this ?_⟩
  rw [show normDoc [L "a\n", L "\n", L "- b\n"] = normDoc exQ from rfl, hd, hlo]
  rfl

/-- a table behind a quote: the rows and cells carry numbers too (real code: Quote 1, Paragraph 1 | Table 1, TableRow 1,
    2 × TableCell 1, TableRow 3, 2 × TableCell 3, TableRow 4, 2 × TableCell 4 | together: Table 3, TableRow 3, …, TableRow 5, …,
    TableRow 6, …; `get_ast(Document(A + "\n" + B)).children == get_ast(A).children + shift(get_ast(B).children, 2)`) -/
def exA2 : List Str := [L "> q\n"]
def exB2 : List Str := [L "| a | b |\n", L "|---|---|\n", L "| c | d |\n", L "| e | f |\n"]

example : view (parseLines dcfg 30 exB2) =
    some ([(.table, 1), (.tableRow, 1), (.tableCell, 1), (.tableCell, 1), (.tableRow, 3), (.tableCell, 3), (.tableCell, 3),
      (.tableRow, 4), (.tableCell, 4), (.tableCell, 4)], 0) := by decide +kernel
example : view (parseLines dcfg 70 (exA2 ++ [['\n']] ++ exB2)) =
    some ([(.quote, 1), (.paragraph, 1), (.table, 3), (.tableRow, 3), (.tableCell, 3), (.tableCell, 3), (.tableRow, 5),
      (.tableCell, 5), (.tableCell, 5), (.tableRow, 6), (.tableCell, 6), (.tableCell, 6)], 0) := by decide +kernel

example : ∃ dA dB, parseLines dcfg 30 exA2 = .ok dA ∧ parseLines dcfg 30 exB2 = .ok dB ∧
    parseLines dcfg 70 (exA2 ++ [['\n']] ++ exB2) = .ok { kids := dA.kids ++ shiftBlocks 2 dB.kids, footnotes := [] } := by
  obtain ⟨dA, hA⟩ := Props.C04.exists_of_isOk (parseLines dcfg 30 exA2) (by decide +kernel)
  obtain ⟨dB, hB⟩ := Props.C04.exists_of_isOk (parseLines dcfg 30 exB2) (by decide +kernel)
  exact ⟨dA, dB, hA, hB, C05_document_checked dcfg (by decide +kernel) exA2 exB2 30 30 (by decide +kernel) (by decide +kernel)
    (by decide +kernel) (by decide +kernel) dA dB hA hB⟩

/-! why the property excludes definitions, and what `C05_document_general` says instead -/

/-- number of `Link` tokens among the children of the top-level paragraphs -/
def linksIn : List Mistletoe.Block → Nat
  | [] => 0
  | .paragraph kids _ :: bs => (kids.filter (fun i => match i with | .link .. => true | _ => false)).length + linksIn bs
  | _ :: bs => linksIn bs

def viewL : Res Doc → Option (List (BKind × Nat) × Nat × Nat)
  | .ok d => some (docLns d, d.footnotes.length, linksIn d.kids)
  | .err _ => none

/-- each part defines the label the other one uses -/
def exA3 : List Str := [L "[x]: /u\n", L "see [y]\n"]
def exB3 : List Str := [L "[y]: /v\n", L "see [x]\n"]

/-- on their own: one definition each, no link; together: two definitions, both references are links — the children are
    NOT `kidsA ++ shift kidsB` (real code: `Document(A).footnotes == {'x': …}`, 0 links; `Document(B)`: `{'y': …}`, 0 links;
    `Document(A + "\n" + B)`: both keys, Paragraph 2 and Paragraph 5, 2 links) -/
example : viewL (parseLines dcfg 30 exA3) = some ([(.paragraph, 2)], 1, 0) ∧
    viewL (parseLines dcfg 30 exB3) = some ([(.paragraph, 2)], 1, 0) ∧
    viewL (parseLines dcfg 70 (exA3 ++ [['\n']] ++ exB3)) = some ([(.paragraph, 2), (.paragraph, 5)], 2, 2) := by
  refine ⟨?_, ?_, ?_⟩ <;> decide +kernel

/-- `C05_document_general` applies to it (closed last block of A: the paragraph) -/
example : ∃ bA stA bB stB, blockPhase dcfg.block 30 exA3 = .ok (bA, stA) ∧ blockPhase dcfg.block 30 exB3 = .ok (bB, stB) ∧
    stA.defs.length = 1 ∧ stB.defs.length = 1 ∧
    parseLines dcfg 70 (exA3 ++ [['\n']] ++ exB3) =
      (let fnAB := Document.footnotesOf (stA.defs ++ stB.defs)
       match rapp (mkBlocks dcfg fnAB bA.entries) (rmap (shiftBlocks 3) (mkBlocks dcfg fnAB bB.entries)) with
       | .err e => .err e
       | .ok kids => .ok { kids := kids, footnotes := fnAB }) := by
  have hcA : (match blockPhase dcfg.block 30 exA3 with
      | .ok (b, st) => (match b.entries.getLast? with | some e => closedE e | none => true) && st.defs.length == 1
      | .err _ => false) = true := by decide +kernel
  have hcB : (match blockPhase dcfg.block 30 exB3 with | .ok (_, st) => st.defs.length == 1 | .err _ => false) = true := by
    decide +kernel
  cases hA : blockPhase dcfg.block 30 exA3 with
  | err e => rw [hA] at hcA; cases hcA
  | ok rA =>
    obtain ⟨bA, stA⟩ := rA
    cases hB : blockPhase dcfg.block 30 exB3 with
    | err e => rw [hB] at hcB; cases hcB
    | ok rB =>
      obtain ⟨bB, stB⟩ := rB
      rw [hA] at hcA; rw [hB] at hcB
      simp only [Bool.and_eq_true, beq_iff_eq] at hcA hcB
      have hlast : lastClosed bA.entries := by
        intro e he
        have := hcA.1
        rw [he] at this
        exact this
      exact ⟨bA, stA, bB, stB, rfl, rfl, hcA.2, hcB,
        C05_document_general dcfg (by decide +kernel) exA3 exB3 30 30 bA bB stA stB hA hlast hB
          (linesOk_spec _ (by decide +kernel)) (linesOk_spec _ (by decide +kernel)) 70 (by decide +kernel)⟩

end Mistletoe.DocLevel
